#!/usr/bin/env python3
"""stage_apply.py <coq dir> <additions file>: development helper.  Each line of the additions file is
`PropsFile|ProofsModule|new theorem name|lemma name|TR or empty|comment`; adds the import and the Props entry
(via add_prop.py).  `TR` selects the section prefix of Proofs/GlideTraceProofs.v."""
import os, re, subprocess, sys
coq, adds = sys.argv[1], sys.argv[2]
here = os.path.dirname(os.path.abspath(__file__))
TR = ("forall (fs : f32) (g0 : glide) (rlo rhi B : R), glide_fs_ok fs -> glide_new fs = Some g0 -> rlo <= 0 <= rhi -> "
      "(Rmax (- rlo) rhi = 0 \\/ bpow radix2 (-100) <= Rmax (- rlo) rhi) -> "
      "(1 + resolution (0.6 / R32 fs)) * Rmax (- rlo) rhi <= B -> bpow radix2 (-100) <= B -> B <= bpow radix2 64 ->")
rows, imports = [], {}
for l in open(adds):
    l = l.strip()
    if not l:
        continue
    pf, mod, new, lemma, pre, comment = l.split('|', 5)
    rows.append((pf, mod, new, lemma, pre, comment))
    imports.setdefault(pf, set()).add(mod)
for pf, mods in imports.items():
    p = os.path.join(coq, "Props", pf + ".v")
    s = open(p).read()
    lines = ["From SU.Proofs Require Import %s." % m for m in sorted(mods) if not re.search(r"Require Import[^.]*\b%s\b" % m, s)]
    ms = list(re.finditer(r"^From [^\n]*Require Import[^\n]*\n", s, re.M))
    i = ms[-1].end()
    open(p, "w").write(s[:i] + "".join(x + "\n" for x in lines) + s[i:])
for pf, mod, new, lemma, pre, comment in rows:
    env = dict(os.environ)
    if pre == "TR":
        env["ADD_PROP_PREFIX"] = TR
    r = subprocess.run([sys.executable, os.path.join(here, "add_prop.py"), os.path.join(coq, "Props", pf + ".v"), new,
                        os.path.join(coq, "Proofs", mod + ".v"), lemma, comment], capture_output=True, text=True, env=env)
    if r.returncode != 0:
        print("FAIL", pf, new, r.stderr.strip() or r.stdout.strip())
