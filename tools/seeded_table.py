#!/usr/bin/env python3
"""Regenerates the table of section 10 of DESIGN.md from seeded/*/meta.json."""
import glob, json, re
rows = []
for f in sorted(glob.glob("/verif/seeded/*/meta.json")):
    m = json.load(open(f))
    res = m.get("checks_run") or {}
    caught, green = [], []
    for k in sorted(res):
        v = res[k]
        if v["exit"] == 1:
            nf = any("no-failing-input-found" in l for l in v["lines"])
            caught.append(k + (" (nfi)" if nf else ""))
        elif v["exit"] == 0:
            green.append(k)
    rows.append("| %s | %s | %s | %s | %s |" % (m["id"], m["breaks_property"], m["needs_to_manifest"].replace("|", "/"),
                                             ", ".join(caught) or "-", ", ".join(green) or "-"))
table = "| seeded change | target | needs, to manifest | caught by (nfi = no-failing-input-found) | stay green |\n|---|---|---|---|---|\n" + "\n".join(rows)
p = "/verif/DESIGN.md"
s = open(p).read()
s2 = re.sub(r"\| seeded change \| target \|.*?\n\n", table + "\n\n", s, count=1, flags=re.S)
open(p, "w").write(s2)
print(len(rows), "rows")
