#!/usr/bin/env python3
"""add_prop.py <Props file> <new theorem name> <Proofs file> <lemma name> [comment...]

Development helper: copies the statement of a proved lemma into a Props file as
`Theorem <new> : <statement>. Proof. exact <lemma>. Qed.` (inserted before the first
`Print Assumptions` line) and appends `Print Assumptions <new>.`  The Props files must only
ever contain such one-line proofs; the statement is copied verbatim so that it is pinned
there (a later weakening of the lemma breaks `exact`)."""
import re
import sys

props, new, proofs, lemma = sys.argv[1:5]
comment = " ".join(sys.argv[5:])
src = open(proofs).read()
m = re.search(r"^(?:Theorem|Lemma|Corollary|Example|Fact|Remark)\s+" + re.escape(lemma) + r"\b(.*?)\.\s*\n\s*Proof\b", src, re.S | re.M)
if not m:
    m = re.search(r"^(?:Theorem|Lemma|Corollary|Example|Fact|Remark)\s+" + re.escape(lemma) + r"\b(.*?)\.\s+Proof\b", src, re.S | re.M)
if not m:
    sys.exit("statement of %s not found in %s" % (lemma, proofs))
stmt = m.group(1).rstrip()
# a lemma stated inside a Section is generalised over the section variables and hypotheses it uses when the
# section is closed: ADD_PROP_PREFIX supplies that prefix ("forall ..., H1 -> H2 ->") for the Props statement
import os
prefix = os.environ.get("ADD_PROP_PREFIX", "").strip()
if prefix:
    if not stmt.lstrip().startswith(":"):
        sys.exit("ADD_PROP_PREFIX needs a statement of the form `name : stmt`")
    stmt = " : " + prefix + "\n  " + stmt.lstrip()[1:].lstrip()
text = open(props).read()


def scope_at(src_text, pos):
    """the notation scope on top of the stack at position pos (Open pushes, Close removes)"""
    stack = []
    for x in re.finditer(r"^\s*(?:Local\s+)?(Open|Close)\s+Scope\s+(\w+)", src_text[:pos], re.M):
        if x.group(1) == "Open":
            stack.append(x.group(2))
        elif x.group(2) in stack:
            stack.reverse()
            stack.remove(x.group(2))
            stack.reverse()
    return stack[-1] if stack else None


src_scope = scope_at(src, m.start())
dst_scope = scope_at(text, len(text))
if re.search(r"^Theorem\s+" + re.escape(new) + r"\b", text, re.M):
    sys.exit("%s already in %s" % (new, props))
entry = ""
if comment:
    entry += "(** %s *)\n" % comment
body = "Theorem %s%s.\nProof. exact %s. Qed.\n" % (new, stmt, lemma)
if src_scope and src_scope != dst_scope:
    # the statement was written under another notation scope: reproduce it locally
    body = "Open Scope %s.\n%sClose Scope %s.\n" % (src_scope, body, src_scope)
entry += body + "\n"
i = text.find("Print Assumptions")
if i < 0:
    text = text.rstrip("\n") + "\n\n" + entry
else:
    text = text[:i] + entry + text[i:]
text = text.rstrip("\n") + "\nPrint Assumptions %s.\n" % new
open(props, "w").write(text)
print("added", new, "to", props)
