"""Property monitors: the executable form of each property statement, evaluated over traces
of the IMPLEMENTATION (script ops + the harness output lines).  They are written from the
property texts, independently of the Coq model, and are used (a) on every run as a cheap
third opinion and (b) by the violation search to produce a concrete failing input when a
proof or the correspondence breaks.

Each monitor: f(script, out_lines) -> list of (op_index, message).  An empty list = no
violation seen.  `out_lines[i]` is the harness output for `script.ops[i]`.
Tolerances are those of the theorem statements (DESIGN.md section 4), never tighter.
"""
import math

from common import f32, unhx, bits, from_bits, hx, next_up, next_down

TWO24 = 16777216.0


def isnan(x):
    return isinstance(x, float) and math.isnan(x)


def f32div(a, b):
    """correctly rounded f32 quotient of two f32 values (b != 0)"""
    return f32(a / b)


def f32mul(a, b):
    return f32(a * b)


def f32add(a, b):
    return f32(a + b)


def f32sub(a, b):
    return f32(a - b)


def ulp32(x):
    x = abs(x)
    if x < 2.0 ** -126:
        return 2.0 ** -149
    e = math.floor(math.log2(x))
    if 2.0 ** e > x:
        e -= 1
    return 2.0 ** (e - 23)


def clamp32(x, lo, hi):
    """x.max(lo).min(hi) with Rust NaN semantics"""
    if isnan(x):
        return lo
    return min(max(x, lo), hi)


def truncated(outs):
    return any(o == "PANIC" for o in outs)


# =========================================================================================== MIDI
class MidiRef:
    """Reference receiver written from the property texts C04/C05/C06/C18: MIDI 1.0 framing by
    segments, outstanding notes by explicit bookkeeping, edges per gate transition."""

    def __init__(self, ch_arg):
        self.ch = min(ch_arg, 15)
        self.status = None      # running status byte (channel voice) or None
        self.sys_state = None   # inside a system common message: ignored data
        self.data = []
        self.held = []          # outstanding note-ons in order of arrival
        self.overflow = False   # more than 32 outstanding at some point: C04/C05 do not apply any more
        self.note = 0
        self.vel = 0.0
        self.pb = 0.0
        self.mw = self.vol = self.cut = self.res = self.pt = 0.0
        self.pe = True
        self.se = True
        self.gate = False
        self.rising = False
        self.falling = False
        self.retrig = False
        self.prio = "last"

    def choose(self):
        if not self.held:
            return self.note
        if self.prio == "last":
            return self.held[-1]
        if self.prio == "high":
            return max(self.held)
        return min(self.held)

    def note_on(self, n, v):
        self.vel = f32(v / 127.0)
        was_low = not self.gate
        if len(self.held) >= 32:
            self.overflow = True
        else:
            self.held.append(n)
        self.note = self.choose()
        self.gate = True
        self.falling = False
        if was_low or self.retrig:
            self.rising = True

    def note_off(self, n):
        self.held = [k for k in self.held if k != n]
        if not self.held:
            if self.gate:
                self.falling = True
            self.gate = False
            self.rising = False
        else:
            self.note = self.choose()

    def message(self, status, d):
        kind, ch = status & 0xF0, status & 0x0F
        if ch != self.ch:
            return
        if kind == 0x90:
            if d[1] == 0:
                self.note_off(d[0])
            else:
                self.note_on(d[0], d[1])
        elif kind == 0x80:
            self.note_off(d[0])
        elif kind == 0xE0:
            v = (d[1] * 128 + d[0]) - 8192
            x = f32(v / (8191.0 if v > 0 else 8192.0))
            self.pb = max(-1.0, min(1.0, x))
        elif kind == 0xB0:
            cc, v = d
            s = f32(v / 127.0)
            if cc == 1:
                self.mw = s
            elif cc == 7:
                self.vol = s
            elif cc == 71:
                self.cut = s
            elif cc == 74:
                self.res = s
            elif cc == 5:
                self.pt = s
            elif cc == 65:
                self.pe = v >= 64
            elif cc == 64:
                self.se = v >= 64
            elif cc == 121:
                self.pb = self.mw = self.vol = self.cut = self.res = self.pt = 0.0
                self.pe = self.se = True
            elif cc == 123:
                self.held = []
                if self.gate:
                    self.falling = True
                self.gate = False
                self.rising = False

    def byte(self, b):
        if b >= 0xF8:
            return                      # real time: transparent
        if b >= 0x80:
            self.data = []
            if b >= 0xF0:
                self.status = None      # system common cancels running status
            else:
                self.status = b
            return
        if self.status is None:
            return
        kind = self.status & 0xF0
        need = 1 if kind in (0xC0, 0xD0) else 2
        self.data.append(b)
        if len(self.data) == need:
            d = self.data
            self.data = []
            if kind in (0x80, 0x90, 0xB0, 0xE0):
                self.message(self.status, d)

    def levels(self):
        def p(x):
            return "00000000" if x == 0 else hx(x)
        return [str(self.note), p(self.vel), p(self.pb), p(self.mw), p(self.vol), p(self.cut), p(self.res), p(self.pt),
                str(int(self.pe)), str(int(self.se)), str(int(self.gate))]


MIDI_FIELDS = ["note", "velocity", "pitch_bend", "mod_wheel", "volume", "cutoff", "resonance", "porta_time",
               "porta_en", "sustain_en", "gate"]
PROJ = {
    "C04": [0, 1, 10],
    "C05": [10],
    "C06": list(range(11)),
    "C18": [2, 3, 4, 5, 6, 7, 8, 9],
}


def midi_monitor(pid):
    idx = PROJ[pid]

    def mon(script, outs):
        fails = []
        ref = None
        for i, op in enumerate(script.ops):
            if i >= len(outs):
                break
            o = outs[i]
            if o == "PANIC":
                if pid == "C06":
                    fails.append((i, "panic while feeding bytes"))
                break
            t = op.split()
            exp_r = None
            if t[0] == "midi.new":
                ref = MidiRef(int(t[1]))
            elif t[0] == "b":
                ref.byte(int(t[1]))
            elif t[0] == "rise":
                exp_r = ref.rising
                ref.rising = False
            elif t[0] == "fall":
                exp_r = ref.falling
                ref.falling = False
            elif t[0] == "prio":
                ref.prio = t[1]
            elif t[0] == "retrig":
                ref.retrig = t[1] == "on"
            if ref.overflow and pid == "C05":
                # more than 32 outstanding note-ons: the held-note clauses are outside the quantifier, but
                # "rising_gate() is true after any note-on in retrigger mode" does not depend on them:
                # check a rise poll that directly follows such a note-on (only real-time bytes in between)
                fails += c05_retrigger_tail(script, outs, i)
                break
            if ref.overflow and pid in ("C04", "C06"):
                break   # more than 32 outstanding note-ons: outside the quantifier
            got = o.split()
            exp = ref.levels()
            for k in idx:
                if got[k] != exp[k]:
                    fails.append((i, "%s is %s, expected %s after `%s`" % (MIDI_FIELDS[k], got[k], exp[k], op)))
                    break
            if pid in ("C05", "C06") and exp_r is not None:
                r = got[-1]
                if r != "r=%d" % int(exp_r):
                    fails.append((i, "%s() returned %s, expected %d" % ("rising_gate" if t[0] == "rise" else "falling_gate", r, int(exp_r))))
            if pid == "C05" and t[0] in ("rise", "fall") and got[-1] == "r=1":
                g = got[10]
                if t[0] == "rise" and g != "1":
                    fails.append((i, "rising edge reported while gate is low"))
                if t[0] == "fall" and g != "0":
                    fails.append((i, "falling edge reported while gate is high"))
            if fails:
                break
        return fails
    return mon


def c05_retrigger_tail(script, outs, start):
    """from op `start` on: follow only framing, retrigger mode and note-ons; a `rise` poll right after a
    note-on (velocity > 0, listened channel) received in retrigger mode must return true"""
    fails = []
    ref = None
    armed = False
    for i, op in enumerate(script.ops):
        if i >= len(outs) or outs[i] == "PANIC":
            break
        t = op.split()
        if t[0] == "midi.new":
            ref = MidiRef(int(t[1]))
            continue
        if t[0] == "retrig":
            ref.retrig = t[1] == "on"
        elif t[0] == "b":
            b = int(t[1])
            n_on = [0]
            orig = ref.note_on

            def counting(n, v, orig=orig, n_on=n_on):
                n_on[0] += 1
                orig(n, v)
            ref.note_on = counting
            ref.byte(b)
            ref.note_on = orig
            if n_on[0]:
                armed = ref.retrig
            elif b < 0xF8:
                # any other byte (except real-time ones) may start or complete a message that changes
                # the gate: disarm conservatively
                armed = False
        elif t[0] == "rise":
            if i >= start and armed and not outs[i].endswith("r=1"):
                fails.append((i, "rising_gate() returned false right after a note-on received in retrigger mode"))
                break
            armed = False
        elif t[0] == "fall":
            pass
    return fails


def mon_C18_extra(script, outs):
    """scaling facts on the cc-values and bend sweeps: end points exact, strictly increasing"""
    fails = []
    fam = script.meta.get("family")
    if fam == "cc-values":
        col = None
        vals = []
        for i, op in enumerate(script.ops):
            if i >= len(outs) or outs[i] == "PANIC":
                break
            if i >= 3 and (i - 1) % 3 == 2:
                got = outs[i].split()
                if col is None:
                    # the column that changed
                    for k in (3, 4, 5, 6, 7):
                        if got[k] != "00000000" or len(vals) > 0:
                            pass
                    col = True
                vals.append(got)
        # find numeric controller column: the one which is non-zero at value 127
        if len(vals) == 128:
            last = vals[127]
            cols = [k for k in (3, 4, 5, 6, 7) if last[k] != "00000000"]
            for k in cols:
                seq = [unhx(v[k]) for v in vals]
                if seq[0] != 0.0:
                    fails.append((3, "controller value 0 maps to %r, not 0.0" % seq[0]))
                if seq[127] != 1.0:
                    fails.append((len(script.ops) - 1, "controller value 127 maps to %r, not 1.0" % seq[127]))
                for a in range(127):
                    if not seq[a] < seq[a + 1]:
                        fails.append((3 * a + 3, "controller scale not strictly increasing at %d" % a))
                        break
            bcols = [k for k in (8, 9)]
            for k in bcols:
                seq = [v[k] for v in vals]
                if seq != [seq[0]] * 128:   # a switch
                    for a in range(128):
                        if seq[a] != ("1" if a >= 64 else "0"):
                            fails.append((3 * a + 3, "switch is %s at value %d" % (seq[a], a)))
                            break
    if fam == "bend-sweep":
        prev = None
        for i, op in enumerate(script.ops):
            if i >= len(outs) or outs[i] == "PANIC":
                break
            if i >= 3 and i % 3 == 0:
                lsb = int(script.ops[i - 1].split()[1])
                msb = int(script.ops[i].split()[1])
                x = msb * 128 + lsb
                y = unhx(outs[i].split()[2])
                if x == 0 and y != -1.0:
                    fails.append((i, "pitch bend 0 maps to %r" % y))
                if x == 8192 and y != 0.0:
                    fails.append((i, "pitch bend 8192 maps to %r" % y))
                if x == 16383 and y != 1.0:
                    fails.append((i, "pitch bend 16383 maps to %r" % y))
                if prev is not None and not (prev[1] < y) and x > prev[0]:
                    fails.append((i, "pitch bend not strictly increasing at %d" % x))
                prev = (x, y)
    return fails


# =========================================================================================== quantizer
def q_clamp_notes(arg):
    if arg is None or arg == "-":
        return []
    return [min(int(x), 11) for x in arg.split(",")]


def near_ref_ok(mask, v, note):
    """C08: is `note` an acceptable answer for clamped input v (volts) with scale `mask`?"""
    allowed = [n for n in range(132) if (mask >> (n % 12)) & 1]
    if note not in allowed:
        return False, "note %d is not in the scale" % note
    tol = 1e-5
    for b in allowed:
        d = v - b / 12.0
        if tol <= d <= 1 / 12.0 - tol and note != b:
            return False, "allowed note %d lies %.6f V below the input but %d was reported" % (b, d, note)
    d = v - note / 12.0
    if -tol <= d <= 1 / 12.0 + tol:
        return True, ""
    best = min(abs(v - n / 12.0) for n in allowed)
    if abs(d) <= best + tol:
        return True, ""
    return False, "note %d is %.6f V away, the nearest allowed note is %.6f V away" % (note, abs(d), best)


HYST = from_bits(0x3c088889)
SEMI = from_bits(0x3daaaaab)


def quant_walk(script, outs):
    """yields (i, kind, dict) following the mask and the cached conversion per the property text"""
    mask = 4095
    cached = None
    for i, op in enumerate(script.ops):
        if i >= len(outs) or outs[i] == "PANIC":
            return
        t = op.split()
        o = outs[i].split()
        if t[0] == "quant.new":
            yield i, "new", {"mask": int(o[1])}
        elif t[0] == "allow":
            for n in q_clamp_notes(t[1] if len(t) > 1 else None):
                mask |= 1 << n
            yield i, "mask", {"mask": int(o[1]), "exp": mask}
        elif t[0] == "forbid":
            ns = q_clamp_notes(t[1] if len(t) > 1 else None)
            m = mask
            for n in ns:
                m &= ~(1 << n)
            if m == 0:
                m = 1 << ns[-1]
            mask = m
            yield i, "mask", {"mask": int(o[1]), "exp": mask}
        elif t[0] == "conv":
            v = unhx(t[1])
            note, stair, frac = int(o[1]), unhx(o[2]), unhx(o[3])
            kept = False
            vc = clamp32(v, 0.0, 10.0)   # the input is clamped before anything else looks at it
            if cached is not None and (mask >> (cached[0] % 12)) & 1:
                lo = f32sub(cached[1], HYST)
                hi = f32add(f32add(cached[1], SEMI), HYST)
                kept = lo < vc < hi
            yield i, "conv", {"v": v, "note": note, "stair": stair, "frac": frac, "mask": mask, "kept": kept,
                              "cached": cached, "repmask": int(o[4])}
            cached = (note, stair)


def mon_C07(script, outs):
    fails = []
    for i, kind, d in quant_walk(script, outs):
        if kind == "mask":
            if d["mask"] == 0:
                fails.append((i, "the scale is empty"))
            elif d["mask"] != d["exp"]:
                fails.append((i, "scale mask is %d, expected %d after `%s`" % (d["mask"], d["exp"], script.ops[i])))
        elif kind == "conv":
            if not (d["repmask"] >> (d["note"] % 12)) & 1:
                fails.append((i, "note %d (pitch class %d) is forbidden in scale %d" % (d["note"], d["note"] % 12, d["repmask"])))
        if fails:
            break
    return fails


def mon_C08(script, outs):
    fails = []
    if script.meta.get("family") != "fresh":
        return fails
    for i, kind, d in quant_walk(script, outs):
        if kind == "conv":
            v = clamp32(d["v"], 0.0, 10.0)
            ok, why = near_ref_ok(d["mask"], v, d["note"])
            if not ok:
                fails.append((i, "input %r scale %d: %s" % (d["v"], d["mask"], why)))
    return fails


def mon_C09(script, outs):
    """keeps inside the window; monotone for sorted inputs on a fixed scale; one change under noise.
    (the 'history-free outside the window' half is checked differentially by check.py: the same
    input is converted by a fresh quantizer of the real implementation)"""
    fails = []
    prev_note = None
    prev_v = None
    sorted_so_far = True
    notes = []
    for i, kind, d in quant_walk(script, outs):
        if kind == "mask":
            prev_note = None
            prev_v = None
            sorted_so_far = True
            continue
        if kind != "conv":
            continue
        if d["kept"]:
            if d["note"] != d["cached"][0] or bits(d["stair"]) != bits(d["cached"][1]):
                fails.append((i, "input %r is inside the hysteresis window of note %d but note %d was reported" % (d["v"], d["cached"][0], d["note"])))
                break
        if script.meta.get("family") in ("ramp", "history"):
            if prev_v is not None and not isnan(d["v"]) and not isnan(prev_v) and prev_v <= d["v"]:
                if sorted_so_far and d["note"] < prev_note:
                    fails.append((i, "input rose from %r to %r but the note fell from %d to %d" % (prev_v, d["v"], prev_note, d["note"])))
                    break
            else:
                sorted_so_far = True
            prev_v, prev_note = d["v"], d["note"]
        notes.append((i, d))
    if script.meta.get("family") == "noise" and not fails:
        k = script.meta["k"]
        b = k / 12.0
        seq = [(i, d) for (i, d) in notes if abs(d["v"] - b) <= HYST - 2.0 ** -18]
        # the noise conversions are the trailing ones
        tail = []
        for (i, d) in reversed(notes):
            if abs(d["v"] - b) <= HYST - 2.0 ** -18:
                tail.append((i, d))
            else:
                break
        tail.reverse()
        if len(tail) >= 2:
            first = tail[0][1]["note"]
            for (i, d) in tail[1:]:
                if d["note"] != first:
                    fails.append((i, "noise within the hysteresis width around %d/12 V changed the note from %d to %d" % (k, first, d["note"])))
                    break
    return fails


def mon_C19(script, outs):
    fails = []
    for i, kind, d in quant_walk(script, outs):
        if kind != "conv":
            continue
        note, stair, frac, v = d["note"], d["stair"], d["frac"], d["v"]
        if bits(stair) != bits(f32div(float(note), 12.0)):
            fails.append((i, "stairstep %r is not note %d / 12" % (stair, note)))
            break
        vp = clamp32(v, 0.0, 10.0)
        rec = f32add(stair, frac)
        tol = 2 * ulp32(max(abs(vp), stair))
        if not (abs(rec - vp) <= tol):
            fails.append((i, "stairstep + fraction = %r differs from the input %r by more than two ulps" % (rec, vp)))
            break
        if d["kept"]:
            if not (-1 / 120.0 - 2.0 ** -18 <= frac <= 1 / 12.0 + 1 / 120.0 + 2.0 ** -18):
                fails.append((i, "fraction %r outside [-0.1, 1.1] semitones although the window kept the note" % frac))
                break
        elif d["mask"] == 4095 and d["cached"] is None:
            if not (-1e-5 <= frac < 1 / 12.0 + 1e-5):
                fails.append((i, "chromatic fraction %r outside [0, 1) semitone" % frac))
                break
    return fails


# =========================================================================================== LFO
def lfo_rows(script, outs):
    for i, op in enumerate(script.ops):
        if i >= len(outs) or outs[i] == "PANIC":
            return
        o = outs[i].split()
        yield i, op.split(), int(o[0]), [unhx(x) for x in o[1:6]]


def mon_C10(script, outs):
    fails = []
    fs0 = unhx(script.ops[0].split()[1])
    if "PANIC" in outs and not isnan(fs0) and script.meta.get("family") != "extreme":
        i = outs.index("PANIC")
        return [(i, "reading the waveforms panicked after `%s` (phase counter outside the table?)" % script.ops[i])]
    for i, t, a, (sine, tri, up, down, sq) in lfo_rows(script, outs):
        if not (0 <= a < 16777216):
            fails.append((i, "phase counter %d outside 24 bits" % a))
            break
        ph = a / TWO24
        for nm, y in (("sine", sine), ("triangle", tri), ("up-saw", up), ("down-saw", down), ("square", sq)):
            if isnan(y) or not (-1.0 <= y <= 1.0):
                fails.append((i, "%s = %r outside [-1, 1] at phase %d/2^24" % (nm, y, a)))
        if up != 2 * ph - 1:
            fails.append((i, "up-saw %r is not 2*phase-1 = %r" % (up, 2 * ph - 1)))
        if down != -up:
            fails.append((i, "down-saw %r is not the negation of the up-saw %r" % (down, up)))
        if sq != (1.0 if a < 8388608 else -1.0):
            fails.append((i, "square %r wrong at phase %d/2^24" % (sq, a)))
        et = 4 * ph if a < 4194304 else (2 - 4 * ph if a < 12582912 else 4 * ph - 4)
        if tri != et:
            fails.append((i, "triangle %r is not %r at phase %d/2^24" % (tri, et, a)))
        if abs(sine - math.sin(2 * math.pi * ph)) > 0.0125:
            fails.append((i, "sine %r differs from sin(2 pi phase) = %r by more than 0.0125" % (sine, math.sin(2 * math.pi * ph))))
        if fails:
            break
    return fails


def expected_inc(fs, f):
    """the increment the documented formula yields: trunc(f32(f32(2^24 * f) / fs)) saturating"""
    if isnan(fs) or isnan(f):
        return None
    try:
        x = f32(f32(TWO24 * f) / fs)
    except ZeroDivisionError:
        return None
    if isnan(x) or math.isinf(x):
        return None
    return max(0, min(4294967295, int(x)))


def mon_C11(script, outs):
    fails = []
    fs = None
    f = None
    prev_a = None
    for i, t, a, _shapes in lfo_rows(script, outs):
        if t[0] == "lfo.new":
            fs = unhx(t[1])
            legal_fs = (not isnan(fs)) and 100.0 <= fs <= 192000.0
        elif t[0] == "reset":
            if a != 0:
                fails.append((i, "phase is %d after reset()" % a))
        elif t[0] == "phase":
            p = unhx(t[1])
            if isnan(p) or math.isinf(p):
                if a != 0:
                    fails.append((i, "set_phase(%r) gave phase counter %d" % (p, a)))
            else:
                fr = math.fmod(abs(p), 1.0)
                if not (0 <= a < 16777216):
                    fails.append((i, "set_phase(%r): counter %d outside 24 bits" % (p, a)))
                elif abs(a / TWO24 - fr) > 2.0 ** -22:
                    fails.append((i, "set_phase(%r): phase %r is not frac|p| = %r within 2^-22" % (p, a / TWO24, fr)))
                exp = int(f32(16777215.0 * fr))
                if a != exp:
                    fails.append((i, "set_phase(%r): counter %d, the documented formula gives %d" % (p, a, exp)))
        elif t[0] == "freq":
            f = unhx(t[1])
            if a != prev_a:
                fails.append((i, "set_frequency moved the phase from %d to %d" % (prev_a, a)))
        elif t[0] == "tick":
            if f is not None and legal_fs and not isnan(f) and 0 <= f <= fs:
                inc = (a - prev_a) % 16777216
                X = TWO24 * f / fs
                # inc == 2^24 shows as 0
                cand = [inc, inc + 16777216] if inc == 0 else [inc]
                if not any(X * (1 - 2.0 ** -23) - 1 < c <= X * (1 + 2.0 ** -23) for c in cand):
                    fails.append((i, "tick advanced the phase by %d, requested %r Hz at %r Hz means %r" % (inc, f, fs, X)))
            elif f is None:
                if a != prev_a:
                    fails.append((i, "tick moved the phase although no frequency was set"))
        prev_a = a
        if fails:
            break
    return fails


def mon_C12(script, outs):
    fails = []
    prev = None
    fs = None
    want_inc = 0     # the increment the requested frequency means (0 until a frequency is set)
    for i, t, a, (sine, tri, _u, _d, _s) in lfo_rows(script, outs):
        if t[0] == "lfo.new":
            fs = unhx(t[1])
        elif t[0] == "freq":
            want_inc = expected_inc(fs, unhx(t[1]))
        if t[0] == "tick" and prev is not None:
            pa, ps, pt = prev
            inc = (a - pa) % 16777216
            if inc == 0 and (a != pa):
                inc = 16777216
            if want_inc is not None and want_inc <= 16777216:
                # the phase step of this tick as requested; a counter that jumps (e.g. loses a phase that
                # was just set) shows up as an output step far beyond what this increment allows
                inc = want_inc
            step = inc / TWO24
            if abs(sine - ps) > 2 * math.pi * 1.002 * step + 2 * 2.0 ** -24:
                fails.append((i, "sine jumped by %r for a phase step of %d/2^24 (from counter %d to %d)" % (abs(sine - ps), inc, pa, a)))
                break
            if abs(tri - pt) > 4 * step:
                fails.append((i, "triangle jumped by %r for a phase step of %d/2^24" % (abs(tri - pt), inc)))
                break
        if t[0] != "freq":
            # "between consecutive ticks": a set_frequency between two ticks moves no phase, so the reference stays
            # the reading after the previous tick (a read-out that changes with the *increment* -- e.g. interpolation
            # skipped while the increment is a whole number of table cells -- jumps at the `freq` row, not at a tick);
            # set_phase / reset / new do move the phase and start a new reference
            prev = (a, sine, tri)
    return fails


# =========================================================================================== ADSR
def rc_attack(x):
    return (1 - math.exp(-4 * x / 3)) / (1 - math.exp(-4 / 3))


def rc_decay(x):
    return (math.exp(-4 * x) - math.exp(-4)) / (1 - math.exp(-4))


MIN_T = from_bits(0x3a83126f)
L_ATT = 1.82
L_DEC = 4.08


class AdsrTrack:
    """follows an ADSR trace: parameters as configured (clamped), phase bookkeeping"""

    def __init__(self):
        self.fs = None
        self.att = self.dec = self.rel = MIN_T
        self.sus = 1.0
        self.von = 0.0
        self.voff = 0.0

    def time_of(self, st):
        return {1: self.att, 2: self.dec, 4: self.rel}.get(st)


def adsr_rows(script, outs):
    for i, op in enumerate(script.ops):
        if i >= len(outs) or outs[i] == "PANIC":
            return
        o = outs[i].split()
        yield i, op.split(), int(o[0]), int(o[1]), unhx(o[2])


def adsr_inc_of(fs, t):
    """the increment the crate computes for a phase time t at sample rate fs (f32 arithmetic, truncating cast)"""
    x = f32div(f32mul(16777216.0, f32div(1.0, t)), fs)
    if isnan(x):
        return 0
    return int(max(0.0, min(4294967295.0, x)))


def mon_C01(script, outs):
    fails = []
    tr = AdsrTrack()
    prev = None          # (state, acc, value)
    event_since_tick = True
    # an independent phase clock (phase and position from the operations alone), so that the curve is placed
    # where the documented timing puts it, not where the implementation's own counter happens to be
    exp_state, exp_acc = 0, 0
    for i, t, st, acc, val in adsr_rows(script, outs):
        if isnan(val) or not (0.0 <= val <= 1.0):
            fails.append((i, "value %r outside [0, 1]" % val))
            break
        op = t[0]
        if op == "adsr.new":
            tr.fs = unhx(t[1])
        elif op in ("att", "dec", "rel"):
            setattr(tr, op, clamp32(unhx(t[1]), MIN_T, 20.0))
            event_since_tick = True
        elif op == "sus":
            tr.sus = clamp32(unhx(t[1]), 0.0, 1.0)
            event_since_tick = True
        elif op == "gon":
            if prev[0] != 1:
                tr.von = prev[2]
            if exp_state != 1:
                exp_state, exp_acc = 1, 0
        elif op == "goff":
            if prev[0] in (1, 2, 3):
                tr.voff = prev[2]
            if exp_state in (1, 2, 3):
                exp_state, exp_acc = 4, 0
        if op == "tick" and exp_state in (1, 2, 4) and tr.fs is not None and not isnan(tr.fs) and 100.0 <= tr.fs <= 192000.0:
            tt = {1: tr.att, 2: tr.dec, 4: tr.rel}[exp_state]
            s_acc = exp_acc + adsr_inc_of(tr.fs, tt)
            if s_acc >= 16777216:
                exp_state, exp_acc = {1: 2, 2: 3, 4: 0}[exp_state], 0
            else:
                exp_acc = s_acc
        if op != "tick" and prev is not None and val != prev[2] and not (val == 0 and prev[2] == 0):
            fails.append((i, "`%s` changed the output from %r to %r" % (op, prev[2], val)))
            break
        if op == "tick":
            pst = prev[0]
            pv = prev[2]
            if pst == 1:
                if st == 1 and not event_since_tick and val < pv:
                    fails.append((i, "attack decreased from %r to %r" % (pv, val)))
                if st == 2 and val != 1.0:
                    fails.append((i, "attack ended at %r, not exactly 1.0" % val))
            elif pst == 2:
                if st == 2 and not event_since_tick and val > pv:
                    fails.append((i, "decay increased from %r to %r" % (pv, val)))
                if st == 2 and val < tr.sus:
                    fails.append((i, "decay value %r below the sustain level %r" % (val, tr.sus)))
                if st == 3 and val != tr.sus:
                    fails.append((i, "decay ended at %r, not at the sustain level %r" % (val, tr.sus)))
            elif pst == 3:
                if val != tr.sus:
                    fails.append((i, "sustain outputs %r, sustain level is %r" % (val, tr.sus)))
            elif pst == 4:
                if st == 4 and not event_since_tick and val > pv:
                    fails.append((i, "release increased from %r to %r" % (pv, val)))
                if st == 0 and val != 0.0:
                    fails.append((i, "release ended at %r, not exactly 0.0" % val))
            elif pst == 0:
                if val != 0.0:
                    fails.append((i, "at rest the output is %r" % val))
            # curve fidelity in a timed phase; position by the independent clock when it agrees on the phase
            x = acc / TWO24
            if exp_state == st and tr.fs is not None and not isnan(tr.fs) and 100.0 <= tr.fs <= 192000.0:
                x = exp_acc / TWO24
            ideal = None
            if st == 1:
                ideal = tr.von + (1 - tr.von) * rc_attack(x)
            elif st == 2:
                ideal = tr.sus + (1 - tr.sus) * rc_decay(x)
            elif st == 4:
                ideal = tr.voff * rc_decay(x)
            if ideal is not None and abs(val - ideal) > 0.005:
                fails.append((i, "value %r is more than 0.5%% away from the RC curve value %r (phase %d, position %r)" % (val, ideal, st, x)))
            event_since_tick = False
        else:
            if op in ("gon", "goff"):
                event_since_tick = event_since_tick  # gate events keep the value in sync
        prev = (st, acc, val)
        if fails:
            break
    return fails


NEXT = {1: 2, 2: 3, 4: 0}


def mon_C02(script, outs):
    fails = []
    tr = AdsrTrack()
    prev = None
    phase_ticks = 0
    phase_clean = False   # phase started at counter 0 and its time has not changed since
    for i, t, st, acc, val in adsr_rows(script, outs):
        op = t[0]
        if op == "adsr.new":
            tr.fs = unhx(t[1])
            if st != 0:
                fails.append((i, "a new envelope is not at rest"))
        elif op in ("att", "dec", "rel", "sus"):
            if op != "sus":
                setattr(tr, op, clamp32(unhx(t[1]), MIN_T, 20.0))
                if prev[0] == {"att": 1, "dec": 2, "rel": 4}[op]:
                    phase_clean = False
            if st != prev[0] or acc != prev[1]:
                fails.append((i, "`%s` changed phase/position (%d,%d) -> (%d,%d)" % (op, prev[0], prev[1], st, acc)))
        elif op == "gon":
            if prev[0] == 1:
                if st != 1 or acc != prev[1]:
                    fails.append((i, "gate-on during attack was not ignored"))
            else:
                if st != 1 or acc != 0:
                    fails.append((i, "gate-on from phase %d did not start an attack" % prev[0]))
                phase_ticks = 0
                phase_clean = True
        elif op == "goff":
            if prev[0] in (1, 2, 3):
                if st != 4 or acc != 0:
                    fails.append((i, "gate-off from phase %d did not start a release" % prev[0]))
                phase_ticks = 0
                phase_clean = True
            elif st != prev[0] or acc != prev[1]:
                fails.append((i, "gate-off in phase %d was not ignored" % prev[0]))
        elif op == "tick":
            pst = prev[0]
            if pst in (0, 3):
                if st != pst:
                    fails.append((i, "tick left phase %d without a gate event" % pst))
            else:
                legal = tr.fs is not None and not isnan(tr.fs) and 100.0 <= tr.fs <= 192000.0
                phase_ticks += 1
                T = tr.time_of(pst)
                if st == pst:
                    if legal and acc <= prev[1]:
                        fails.append((i, "position did not advance inside phase %d (%d -> %d)" % (pst, prev[1], acc)))
                    if legal:
                        inc = acc - prev[1]
                        X = TWO24 / (T * tr.fs)
                        if not (X * (1 - 2.0 ** -22) - 1 < inc <= X * (1 + 2.0 ** -22)):
                            fails.append((i, "position advanced by %d per tick, %r s at %r Hz means %r" % (inc, T, tr.fs, X)))
                        N = T * tr.fs
                        if phase_clean and phase_ticks > N / (1 - N / TWO24) + 2:
                            fails.append((i, "phase %d (%r s at %r Hz = %r ticks) still running after %d ticks" % (pst, T, tr.fs, N, phase_ticks)))
                elif st == NEXT[pst]:
                    if acc != 0:
                        fails.append((i, "new phase does not start at position 0"))
                    if legal and phase_clean:
                        N = T * tr.fs
                        if phase_ticks < max(1.0, N * (1 - 2.0 ** -22)):
                            fails.append((i, "phase %d ended after %d ticks, configured %r s at %r Hz = %r ticks" % (pst, phase_ticks, T, tr.fs, N)))
                        if phase_ticks > N / (1 - N / TWO24) + 2:
                            fails.append((i, "phase %d lasted %d ticks, configured %r ticks" % (pst, phase_ticks, N)))
                    phase_ticks = 0
                    phase_clean = True
                else:
                    fails.append((i, "tick moved from phase %d to phase %d" % (pst, st)))
        prev = (st, acc, val)
        if fails:
            break
    return fails


def mon_C03(script, outs):
    fails = []
    tr = AdsrTrack()
    prev = None
    last_tick = None     # (value, sustain) at the previous tick / start
    for i, t, st, acc, val in adsr_rows(script, outs):
        op = t[0]
        if op == "adsr.new":
            tr.fs = unhx(t[1])
            last_tick = (val, tr.sus)
        elif op in ("att", "dec", "rel"):
            setattr(tr, op, clamp32(unhx(t[1]), MIN_T, 20.0))
        elif op == "sus":
            tr.sus = clamp32(unhx(t[1]), 0.0, 1.0)
        elif op == "tick":
            legal = tr.fs is not None and not isnan(tr.fs) and 100.0 <= tr.fs <= 192000.0
            pst = prev[0]   # phase in which the tick starts (after the events)
            if legal:
                T = tr.time_of(pst)
                if T is None:
                    lip = 0.0
                else:
                    X = TWO24 / (T * tr.fs) * (1 + 2.0 ** -22)
                    lip = (L_ATT if pst == 1 else L_DEC) * min(1.0, X / TWO24)
                bound = lip + abs(tr.sus - last_tick[1]) + 8 * 2.0 ** -24
                if abs(val - last_tick[0]) > bound:
                    fails.append((i, "output stepped by %r (from %r to %r) in phase %d; the slope bound for one tick is %r" % (abs(val - last_tick[0]), last_tick[0], val, pst, bound)))
                    break
            last_tick = (val, tr.sus)
        prev = (st, acc, val)
    return fails


# =========================================================================================== glide
def glide_rows(script, outs):
    for i, op in enumerate(script.ops):
        if i >= len(outs) or outs[i] == "PANIC":
            return
        o = outs[i].split()
        co = [unhx(x) for x in o[:5]]
        y = unhx(o[5][2:]) if len(o) > 5 else None
        yield i, op.split(), co, y


def glide_in_range(script):
    """times in [0,10], fs in [100, 48000], finite inputs"""
    for op in script.ops:
        t = op.split()
        x = unhx(t[1])
        if isnan(x) or math.isinf(x):
            return False
        if t[0] == "glide.new" and not (100.0 <= x <= 48000.0):
            return False
        if t[0] == "time" and not (0.0 <= x <= 10.0):
            return False
    return True


def rho(a1):
    p = -a1
    return 16 * 2.0 ** -24 / max(1 - p, 2.0 ** -24)


def mon_C13(script, outs):
    fails = []
    if not glide_in_range(script):
        return fails
    lo = hi = 0.0
    cur_in = None
    run = []    # outputs while the input is constant and coefficients are constant
    rho_hist = 0.0   # coarsest resolution among the coefficient sets used so far (the hull theorem's kappa is
    #                  the slowest speed used in the history: an offset left by a slow pole is still there
    #                  right after a switch to a fast one)
    for i, t, co, y in glide_rows(script, outs):
        a1 = co[0]
        if t[0] == "proc":
            x = unhx(t[1])
            lo, hi = min(lo, x), max(hi, x)
            M = max(abs(lo), abs(hi))
            r = rho(a1) * M
            rho_hist = max(rho_hist, rho(a1))
            r_hist = rho_hist * M
            if not (lo - r_hist <= y <= hi + r_hist):
                fails.append((i, "output %r leaves the range [%r, %r] of the inputs seen so far (resolution %r)" % (y, lo, hi, r_hist)))
                break
            if cur_in is not None and x == cur_in[0] and (cur_in[1] is None or co == cur_in[1]):
                run.append(y)
                # monotone approach and no oscillation around the target (beyond the resolution)
                if len(run) >= 3:
                    d0, d1 = run[-2] - x, run[-1] - x
                    if abs(d1) > abs(d0) + r:
                        fails.append((i, "output moves away from the constant input %r: distance %r -> %r" % (x, abs(d0), abs(d1))))
                        break
                    if d0 * d1 < 0 and min(abs(d0), abs(d1)) > r:
                        fails.append((i, "output oscillates around the constant input %r: %r then %r" % (x, run[-2], run[-1])))
                        break
            else:
                run = [y]
            cur_in = (x, co)
        else:
            # a set_time call does not interrupt a constant-input run: with the new coefficients the
            # distance to the target must keep shrinking (y - x = p' (y1 - x) when x1 = x)
            if cur_in is not None:
                cur_in = (cur_in[0], None)
    return fails


def mon_C14(script, outs):
    fails = []
    if not glide_in_range(script):
        return fails
    fam = script.meta.get("family")
    fs = None
    t_eff = None
    for i, t, co, y in glide_rows(script, outs):
        if t[0] == "glide.new":
            fs = unhx(t[1])
            prev_co = co
        elif t[0] == "time":
            tt = unhx(t[1])
            honoured = t_eff is None or abs(f32sub(tt, t_eff)) > from_bits(0x3d4ccccd)
            if honoured:
                t_eff = tt
                # coefficients must be those of the requested time: cutoff = clamp(1/t, 0.1, fs/4)
                f0 = min(max((1.0 / tt) if tt > 0 else float("inf"), from_bits(0x3dcccccd)), fs / 4.0)
                wt = math.tan(math.pi * f0 / fs)
                b0 = wt / (1 + wt)
                a1 = (wt - 1) / (1 + wt)
                if abs(co[2] - b0) > 2e-5 * max(b0, 1e-3) + 1e-7 or abs(co[0] - a1) > 4e-6:
                    fails.append((i, "set_time(%r) at %r Hz installed b0=%r a1=%r, the documented cutoff means b0=%r a1=%r" % (tt, fs, co[2], co[0], b0, a1)))
                    break
            else:
                if co != prev_co:
                    fails.append((i, "set_time(%r) within 0.05 s of the time in effect (%r) changed the coefficients" % (tt, t_eff)))
                    break
        prev_co = co
    if fam == "step" and not fails:
        fs, tt, lo, hi = script.meta["fs"], script.meta["t"], script.meta["lo"], script.meta["hi"]
        rows = list(glide_rows(script, outs))
        k0 = [k for k, (_i, t, _c, _y) in enumerate(rows) if t[0] == "time"]
        # the step scripts have the shape: new; proc lo ...; time t; proc hi ...  (anything else, e.g. a
        # shrunk script, is not a step experiment)
        # optionally preceded by an explicit "glide off" (a time below two samples) right after new
        start, kt = 1, None
        if len(k0) == 1:
            kt = k0[0]
        elif len(k0) == 2 and k0[0] == 1 and abs(unhx(rows[1][1][1])) < 2.0 / fs:
            start, kt = 2, k0[1]
        shape_ok = kt is not None and kt - start >= 10 \
            and all(t[0] == "proc" and unhx(t[1]) == f32(lo) for (_i, t, _c, _y) in rows[start:kt]) \
            and all(t[0] == "proc" and unhx(t[1]) == f32(hi) for (_i, t, _c, _y) in rows[kt + 1:])
        if shape_ok and tt * fs >= 100 and abs(rows[kt - 1][3] - f32(lo)) <= 1e-6 * max(1.0, abs(lo)):
            after = rows[kt + 1:]
            ys = [y for (_i, _t, _c, y) in after]
            r = rho(after[-1][2][0]) * max(abs(lo), abs(hi)) / abs(hi - lo) if after else 0.0
            n = int(math.ceil(tt * fs))
            n10 = int(math.ceil(tt * fs / 10.0))

            def cov(k):
                return (ys[k - 1] - lo) / (hi - lo)
            if n - 1 < len(ys) and cov(n) < 0.995 - r:
                fails.append((after[n - 1][0], "after t = %r s (%d samples) only %.4f of the step is covered" % (tt, n, cov(n))))
            if n10 - 1 < len(ys) and not (0.40 - r <= cov(n10) <= 0.55 + r):
                fails.append((after[n10 - 1][0], "after t/10 (%d samples) %.4f of the step is covered, not 40%%..55%%" % (n10, cov(n10))))
    if fam == "switch" and not fails:
        # after switching to a time shorter than two samples the output settles within 8 samples
        rows = list(glide_rows(script, outs))
        fs = script.meta["fs"]
        sw = [k for k, (_i, t, _c, _y) in enumerate(rows) if t[0] == "time"]
        if len(sw) >= 2:
            k = sw[-1]
            tt = unhx(rows[k][1][1])
            if tt < 2.0 / fs:
                after = [(i, y, unhx(t[1])) for (i, t, _c, y) in rows[k + 1:] if t[0] == "proc"]
                for j, (i, y, x) in enumerate(after):
                    if j >= 8 and abs(y - x) > 1e-5 * max(1.0, abs(x)):
                        fails.append((i, "fastest setting: output %r not settled on %r after %d samples" % (y, x, j + 1)))
                        break
    return fails


# =========================================================================================== ribbon
def ribbon_cfg(op):
    t = op.split()
    cap = int(t[1])
    fs, sp, dr, pu = [unhx(x) for x in t[2:6]]
    boundary = f32sub(1.0, f32div(dr, f32add(dr, sp)))
    err = f32div(f32add(sp, dr), pu)
    fsu = max(0, min(4294967295, int(fs))) if not isnan(fs) else 0
    ignore = fsu * 1000 // 1000000
    discard = fsu * 2000 // 1000000
    return cap, boundary, err, ignore, discard


def ribbon_rows(script, outs):
    for i, op in enumerate(script.ops):
        if i >= len(outs) or outs[i] == "PANIC" or outs[i].startswith("UNSUPPORTED"):
            return
        o = outs[i].split()
        if op.startswith("ribbon.cap"):
            continue
        r = None
        if len(o) > 2:
            r = o[2] == "r=1"
        yield i, op.split(), o[0] == "1", unhx(o[1]), r


def mon_C15(script, outs):
    fails = []
    if not script.ops[0].startswith("ribbon.new"):
        return fails
    cap, boundary, err, ignore, discard = ribbon_cfg(script.ops[0])
    skip = max(ignore - 1, 0)
    run = 0
    pressing = False
    jp = jr = False
    for i, t, pr, val, r in ribbon_rows(script, outs):
        if t[0] == "poll":
            x = unhx(t[1])
            if x < boundary:
                run += 1
            else:
                run = 0
            exp = run >= skip + cap
            if exp and not pressing:
                jp = True
            if pressing and not exp:
                jr = True
            pressing = exp
            if pr != exp:
                fails.append((i, "finger_is_pressing() is %s after an unbroken run of %d in-range samples (needs %d settling + %d capture)" % (pr, run, skip, cap)))
                break
        elif t[0] == "jp":
            if r != jp:
                fails.append((i, "finger_just_pressed() returned %s, expected %s" % (r, jp)))
                break
            jp = False
        elif t[0] == "jr":
            if r != jr:
                fails.append((i, "finger_just_released() returned %s, expected %s" % (r, jr)))
                break
            jr = False
    return fails


def mon_C16(script, outs):
    fails = []
    if not script.ops[0].startswith("ribbon.new"):
        return fails
    cap, boundary, err, ignore, discard = ribbon_cfg(script.ops[0])
    if err > 1.0 or discard >= cap:
        return fails
    skip = max(ignore - 1, 0)
    runs = []
    prev_val = None
    prev_pr = False
    for i, t, pr, val, r in ribbon_rows(script, outs):
        if isnan(val) or not (0.0 <= val <= 1.0):
            fails.append((i, "value() = %r outside [0, 1]" % val))
            break
        if t[0] == "poll":
            x = unhx(t[1])
            if x < boundary:
                runs.append(x)
            else:
                runs = []
            if pr:
                win = runs[-cap:][:cap - discard]
                n = len(win)
                if n == 0:
                    fails.append((i, "a press is reported although no in-range sample of the current run contributes"))
                    break
                tau = cap * 2.0 ** -24 + 2.0 ** -22

                def corr(p):
                    return (p - (p - p * p) * err) / boundary
                mean = math.fsum(win) / n
                lo_v, hi_v = corr(min(win)), corr(max(win))
                exp = min(corr(mean), 1.0)
                if abs(val - exp) > 2 * tau:
                    fails.append((i, "value() = %r, the corrected mean of the %d contributing samples is %r" % (val, n, exp)))
                    break
                if not (min(lo_v, 1.0) - tau <= val <= min(hi_v, 1.0) + tau):
                    fails.append((i, "value() = %r outside the corrected min/max [%r, %r] of the contributing samples" % (val, lo_v, hi_v)))
                    break
            elif prev_val is not None and val != prev_val:
                fails.append((i, "value() changed from %r to %r while no press is reported" % (prev_val, val)))
                break
        elif prev_val is not None and val != prev_val:
            fails.append((i, "an edge poll changed value()"))
            break
        prev_val = val
        prev_pr = pr
    return fails


# =========================================================================================== C17
def mon_C17(script, outs):
    """no panic for in-range arguments (debug build: overflow checks + debug assertions on)"""
    fails = []
    fam = script.meta.get("family")
    if fam == "extreme" and script.meta.get("module") in ("adsr", "lfo", "glide"):
        # out-of-range sample rates / frequencies: outside the quantifier
        # (adsr 'extreme' keeps a legal sample rate: times and sustain of any value are in range)
        if script.meta.get("module") != "adsr":
            return fails
    if script.ops[0].startswith("ribbon.new"):
        t = script.ops[0].split()
        fs = unhx(t[2])
        if isnan(fs) or not (100.0 <= fs <= 192000.0):
            return fails
        fsu = int(fs)
        if int(t[1]) != fsu * 15000 // 1000000 + fsu * 2000 // 1000000 + 1:
            return fails    # buffer not sized by sample_rate_to_capacity: outside the quantifier
    for i, o in enumerate(outs):
        if o == "PANIC":
            fails.append((i, "panic in `%s`" % script.ops[i]))
            break
        if o.startswith("BADOP") or o == "NOOBJ":
            fails.append((i, "harness could not execute `%s`: %s" % (script.ops[i], o)))
            break
    if len(outs) < len(script.ops) and not fails:
        fails.append((len(outs), "no output for `%s` (did the operation return?)" % script.ops[len(outs)]))
    if script.meta.get("module") == "adsr" and fam != "extreme" and not fails:
        # liveness: with a legal sample rate every tick of a timed phase must advance the position
        # (the increment is at least 4), otherwise the envelope can never reach sustain / rest
        fs = unhx(script.ops[0].split()[1])
        if not isnan(fs) and 100.0 <= fs <= 192000.0:
            prev = None
            for i, o in enumerate(outs):
                t = o.split()
                if len(t) != 3:
                    break
                st, acc = int(t[0]), int(t[1])
                if script.ops[i] == "tick" and prev is not None and prev[0] in (1, 2, 4) and st == prev[0] and acc <= prev[1]:
                    fails.append((i, "phase %d makes no progress (position %d -> %d): the envelope can never finish this phase" % (st, prev[1], acc)))
                    break
                prev = (st, acc)
    if script.meta.get("module") == "adsr" and fam == "phase" and not fails:
        states = [int(o.split()[0]) for o in outs if o and o[0].isdigit()]
        if 3 not in states:
            fails.append((len(outs) - 1, "the envelope never reached its sustain level"))
        elif states[-1] != 0:
            fails.append((len(outs) - 1, "the release never reached rest"))
    return fails


def mon_C20_conv(script, outs):
    """the public conversions of the clamping newtypes (family `conversions`): a time maps into [0.001, 20] (NaN to
    the lower bound), a sustain level into [0, 1] (NaN to 0), a note number above 11 to 11"""
    fails = []
    if script.meta.get("family") != "conversions":
        return fails
    tmin, tmax = f32(0.001), f32(20.0)
    for i, op in enumerate(script.ops):
        if i >= len(outs):
            break
        t = op.split()
        o = outs[i]
        if t[0] in ("tp", "sl"):
            x = unhx(t[1])
            lo, hi = (tmin, tmax) if t[0] == "tp" else (0.0, 1.0)
            exp = lo if isnan(x) else min(max(x, lo), hi)
            got = float("nan") if o == "nan" else unhx(o)
            if isnan(got) or got != exp:
                fails.append((i, "%s(%r) converts to %r, the documented range means %r"
                              % ("TimePeriod" if t[0] == "tp" else "SustainLevel", x, got, exp)))
                break
        elif t[0] == "note":
            n = int(t[1])
            exp = str(min(n, 11))
            if o.split() != [exp, exp]:
                fails.append((i, "Note %d converts to %s, expected %s" % (n, o, exp)))
                break
    return fails


MONITORS = {
    "C01": [mon_C01],
    "C02": [mon_C02],
    "C03": [mon_C03],
    "C04": [midi_monitor("C04")],
    "C05": [midi_monitor("C05")],
    "C06": [midi_monitor("C06")],
    "C07": [mon_C07],
    "C08": [mon_C08],
    "C09": [mon_C09],
    "C10": [mon_C10],
    "C11": [mon_C11],
    "C12": [mon_C12],
    "C13": [mon_C13],
    "C14": [mon_C14],
    "C15": [mon_C15],
    "C16": [mon_C16],
    "C17": [mon_C17],
    "C18": [midi_monitor("C18"), mon_C18_extra],
    "C19": [mon_C19],
    "C20": [mon_C20_conv],
}
