#!/usr/bin/env python3
"""Translator: regenerates coq/gen/Tables.v and coq/gen/Consts.v from /repo/src/*.rs.

Run on every check.  Everything numeric that the Coq model uses and that is a
`const` (or one of a few recorded literals) in the Rust source is read from the
source as it is now:
  * the three 1024-entry f32 tables   -> lists of IEEE-754 binary32 bit patterns
  * every named constant              -> Z (integers) or binary32 bit pattern (floats)
Float literals are converted decimal -> binary32 exactly (fractions.Fraction,
round to nearest even), which is what rustc does.  Constant *expressions* are
evaluated with the same exact binary32 arithmetic.

A constant that can no longer be located makes the script exit 2 with a message
("generation failure"); the caller treats that like a broken correspondence.
"""
import json
import os
import re
import sys
from fractions import Fraction

REPO = os.environ.get("VERIF_REPO", "/repo")
OUT = sys.argv[1] if len(sys.argv) > 1 else os.path.join(os.path.dirname(__file__), "..", "coq", "gen")


class GenError(Exception):
    pass


# ---------------------------------------------------------------- exact binary32
def round_f32(q):
    """Fraction -> (sign, mantissa, exponent) rounded to nearest even binary32; returns bits."""
    if q == 0:
        return 0
    sign = 1 if q < 0 else 0
    q = abs(q)
    # find e with 2^e <= q < 2^(e+1)
    e = q.numerator.bit_length() - q.denominator.bit_length()
    if Fraction(2) ** e > q:
        e -= 1
    if Fraction(2) ** (e + 1) <= q:
        e += 1
    # exponent of the ulp
    ue = max(e - 23, -149)
    scaled = q / (Fraction(2) ** ue)
    m = scaled.numerator // scaled.denominator
    rem = scaled - m
    if rem > Fraction(1, 2) or (rem == Fraction(1, 2) and (m & 1)):
        m += 1
    if m == 0:
        return sign << 31
    if m >= (1 << 24):
        m >>= 1
        ue += 1
    if m < (1 << 23):
        assert ue == -149
        return (sign << 31) | m
    biased = ue + 150
    if biased >= 255:
        return (sign << 31) | (255 << 23)
    return (sign << 31) | (biased << 23) | (m - (1 << 23))


def f32_to_fraction(bits):
    sign = -1 if bits >> 31 else 1
    e = (bits >> 23) & 0xFF
    m = bits & 0x7FFFFF
    if e == 255:
        raise GenError("non-finite constant")
    if e == 0:
        return sign * Fraction(m) * Fraction(2) ** -149
    return sign * Fraction(m + (1 << 23)) * Fraction(2) ** (e - 150)


def parse_float_literal(tok):
    t = tok.replace("_f32", "").replace("f32", "").replace("_", "")
    if t.endswith("."):
        t += "0"
    return round_f32(Fraction(t))


# ---------------------------------------------------------------- expression evaluator
TOKEN = re.compile(r"\s*(?:(0x[0-9a-fA-F_]+|0b[01_]+|\d[\d_]*\.?[\d_]*(?:e-?\d+)?(?:_?f32)?)|([A-Za-z_][A-Za-z_0-9:]*)|(<<|>>|[-+*/()]))")


class Val:
    def __init__(self, kind, v):
        self.kind = kind  # 'int' | 'f32'
        self.v = v  # int or bits


def evaluate(expr, env):
    toks = []
    pos = 0
    expr = expr.strip()
    while pos < len(expr):
        m = TOKEN.match(expr, pos)
        if not m:
            raise GenError("cannot tokenise constant expression: %r" % expr)
        pos = m.end()
        toks.append(m.group(0).strip())
    toks.append(None)
    idx = [0]

    def peek():
        return toks[idx[0]]

    def nxt():
        t = toks[idx[0]]
        idx[0] += 1
        return t

    def atom():
        t = nxt()
        if t is None:
            raise GenError("unexpected end of expression %r" % expr)
        if t == "(":
            v = shift()
            if nxt() != ")":
                raise GenError("missing ) in %r" % expr)
        elif t == "-":
            a = atom()
            if a.kind == "int":
                v = Val("int", -a.v)
            else:
                v = Val("f32", a.v ^ 0x80000000)
            return v
        elif re.match(r"0x", t):
            v = Val("int", int(t.replace("_", ""), 16))
        elif re.match(r"0b", t):
            v = Val("int", int(t.replace("_", ""), 2))
        elif re.match(r"\d", t):
            if "." in t or "f32" in t or "e" in t:
                v = Val("f32", parse_float_literal(t))
            else:
                v = Val("int", int(t.replace("_", "")))
        else:
            name = t.split("::")[-1]
            if name not in env:
                raise GenError("unknown identifier %s in %r" % (t, expr))
            v = env[name]
        # postfix casts
        while peek() == "as":
            nxt()
            ty = nxt()
            if ty == "f32":
                if v.kind == "int":
                    v = Val("f32", round_f32(Fraction(v.v)))
            elif ty in ("u32", "usize", "u8", "u16", "i32"):
                if v.kind != "int":
                    raise GenError("float->int cast in constant %r" % expr)
            else:
                raise GenError("unknown cast %s" % ty)
        return v

    def term():
        a = atom()
        while peek() in ("*", "/"):
            op = nxt()
            b = atom()
            a = binop(op, a, b)
        return a

    def addsub():
        a = term()
        while peek() in ("+", "-"):
            op = nxt()
            b = term()
            a = binop(op, a, b)
        return a

    def shift():
        a = addsub()
        while peek() in ("<<", ">>"):
            op = nxt()
            b = addsub()
            a = binop(op, a, b)
        return a

    def binop(op, a, b):
        if a.kind == "int" and b.kind == "int":
            if op == "*":
                return Val("int", a.v * b.v)
            if op == "/":
                return Val("int", a.v // b.v)
            if op == "+":
                return Val("int", a.v + b.v)
            if op == "-":
                return Val("int", a.v - b.v)
            if op == "<<":
                return Val("int", a.v << b.v)
            if op == ">>":
                return Val("int", a.v >> b.v)
        if a.kind == "f32" and b.kind == "f32":
            x, y = f32_to_fraction(a.v), f32_to_fraction(b.v)
            if op == "*":
                return Val("f32", round_f32(x * y))
            if op == "/":
                return Val("f32", round_f32(x / y))
            if op == "+":
                return Val("f32", round_f32(x + y))
            if op == "-":
                return Val("f32", round_f32(x - y))
        raise GenError("type mismatch in constant expression %r" % expr)

    # 'as' is tokenised as identifier: handled in atom()
    v = shift()
    if peek() is not None:
        raise GenError("trailing tokens in %r" % expr)
    return v


def strip_comments(s):
    """remove // line comments and (nested) /* */ block comments; string and char literals are left alone
    (the crate has none that contain comment markers)"""
    out = []
    i, n, depth = 0, len(s), 0
    while i < n:
        if s.startswith("/*", i):
            depth += 1
            i += 2
        elif depth > 0 and s.startswith("*/", i):
            depth -= 1
            i += 2
        elif depth > 0:
            i += 1
        elif s.startswith("//", i):
            j = s.find("\n", i)
            i = n if j < 0 else j
        else:
            out.append(s[i])
            i += 1
    return "".join(out)


def read(path):
    """source text with comments removed: a commented-out definition must never be mistaken for the live one"""
    with open(os.path.join(REPO, path)) as fh:
        return strip_comments(fh.read())


def const_expr(src, name):
    ms = re.findall(r"\bconst\s+%s\s*:\s*[A-Za-z0-9_]+\s*=\s*([^;]+);" % re.escape(name), src)
    if not ms:
        raise GenError("constant %s not found" % name)
    if len(set(" ".join(m.split()) for m in ms)) > 1:
        raise GenError("constant %s defined more than once (%d different definitions)" % (name, len(ms)))
    return ms[0]


def literal_after(src, pattern, what):
    ms = re.findall(pattern, src)
    if not ms:
        raise GenError("literal for %s not found (pattern %s)" % (what, pattern))
    if len(set(ms)) > 1:
        raise GenError("literal for %s is ambiguous (%d different matches)" % (what, len(set(ms))))
    return ms[0]


def table(src, name):
    m = re.search(r"pub const %s\s*:\s*\[f32;\s*([A-Z_0-9]+)\]\s*=\s*\[(.*?)\];" % name, src, re.S)
    if not m:
        raise GenError("table %s not found" % name)
    body = strip_comments(m.group(2))
    vals = [t.strip() for t in body.split(",") if t.strip()]
    bits = []
    for t in vals:
        neg = t.startswith("-")
        if neg:
            t = t[1:]
        b = parse_float_literal(t)
        if neg:
            b ^= 0x80000000
        bits.append(b)
    return m.group(1), bits


def main():
    os.makedirs(OUT, exist_ok=True)
    consts = []  # (coq name, kind, value, comment)
    env = {}

    # A constant that can no longer be located (renamed, moved, expressed differently) does not stop the
    # run: the last known value (tools/const_defaults.json, committed) is used, a warning is printed, and
    # the correspondence check remains the judge of whether the behaviour changed.  Tables must parse.
    defaults_path = os.path.join(os.path.dirname(os.path.abspath(__file__)), "const_defaults.json")
    try:
        with open(defaults_path) as fh:
            defaults = json.load(fh)
    except FileNotFoundError:
        defaults = {}
    warnings = []

    def fallback(coq_name, rust_name, exc):
        if coq_name not in defaults:
            raise exc
        kind, val = defaults[coq_name]
        warnings.append("%s: %s -- using the last known value" % (coq_name, exc))
        v = Val(kind, val)
        if rust_name:
            env[rust_name] = v
        consts.append((coq_name, kind, val, "NOT LOCATED in the source, last known value used"))
        return v

    def add_const(src, rust_name, coq_name=None):
        try:
            e = const_expr(src, rust_name)
            v = evaluate(e, env)
        except GenError as exc:
            return fallback(coq_name or rust_name, rust_name, exc)
        env[rust_name] = v
        consts.append((coq_name or rust_name, v.kind, v.v, "%s = %s" % (rust_name, " ".join(e.split()))))
        return v

    def add_lit(src, pattern, coq_name, what):
        try:
            t = literal_after(src, pattern, what)
            v = evaluate(t, {})
        except GenError as exc:
            return fallback(coq_name, None, exc)
        consts.append((coq_name, v.kind, v.v, "%s: literal %s" % (what, t)))
        return v

    # ---- lookup tables
    lut = strip_comments(read("src/lookup_tables.rs"))
    tables = {}
    for size_name in ("SINE_LUT_SIZE", "ADSR_CURVE_LUT_SIZE"):
        add_const(lut, size_name)
    for tname in ("SINE_TABLE", "ADSR_ATTACK_TABLE", "ADSR_DECAY_TABLE"):
        size_name, bits = table(lut, tname)
        if len(bits) != env[size_name].v:
            raise GenError("table %s has %d entries, declared %d" % (tname, len(bits), env[size_name].v))
        tables[tname] = bits

    # ---- adsr
    adsr = strip_comments(read("src/adsr.rs"))
    add_const(adsr, "MIN_TIME_PERIOD_SEC")
    add_const(adsr, "MAX_TIME_PERIOD_SEC")
    env_save = dict(env)
    add_const(adsr, "TOT_NUM_ACCUM_BITS", "ADSR_TOT_NUM_ACCUM_BITS")
    # NUM_LUT_INDEX_BITS = ilog_2(SIZE): modelled as a function call in the source; check the text
    try:
        e = " ".join(const_expr(adsr, "NUM_LUT_INDEX_BITS").split())
        if e != "ilog_2(lookup_tables::ADSR_CURVE_LUT_SIZE)":
            warnings.append("adsr NUM_LUT_INDEX_BITS has unexpected definition: %s" % e)
    except GenError as exc:
        warnings.append(str(exc))

    # ---- lfo
    lfo = strip_comments(read("src/lfo.rs"))
    env = dict(env_save)
    add_const(lfo, "TOT_NUM_ACCUM_BITS", "LFO_TOT_NUM_ACCUM_BITS")
    try:
        e = " ".join(const_expr(lfo, "NUM_LUT_INDEX_BITS").split())
        if e != "ilog_2(lookup_tables::SINE_LUT_SIZE)":
            warnings.append("lfo NUM_LUT_INDEX_BITS has unexpected definition: %s" % e)
    except GenError as exc:
        warnings.append(str(exc))

    # ---- quantizer
    q = strip_comments(read("src/quantizer.rs"))
    for n in ("NUM_NOTES_PER_OCTAVE", "SEMITONE_WIDTH", "HALF_SEMITONE_WIDTH", "HYSTERESIS",
              "ONE_OCTAVE_IN_MICROVOLTS", "HALF_STEP_IN_MICROVOLTS", "MAX_OCTAVE", "V_MAX"):
        add_const(q, n)

    # ---- midi
    m = strip_comments(read("src/mono_midi_receiver.rs"))
    for n in ("CC_MOD_WHEEL", "CC_VOLUME", "CC_VCF_CUTOFF", "CC_VCF_RESONANCE", "CC_SUSTAIN_SWITCH",
              "CC_PORTAMENTO_SWITCH", "CC_PORTAMENTO_TIME", "CC_ALL_CONTROLLERS_OFF", "CC_ALL_NOTES_OFF",
              "U7_HALF_SCALE", "HELD_DOWN_NOTE_BUFFER_LEN"):
        add_const(m, n)

    # ---- ribbon
    r = strip_comments(read("src/ribbon_controller.rs"))
    for n in ("RIBBON_FALL_TIME_USEC", "RIBBON_RISE_TIME_USEC", "MIN_CAPTURE_TIME_USEC"):
        add_const(r, n)

    # ---- glide (literals inside function bodies)
    g = strip_comments(read("src/glide_processor.rs"))
    add_lit(g, r"let\s+max_fc\s*=\s*sample_rate_hz\s*/\s*(\d[0-9._f]*)\s*;", "GLIDE_MAX_FC_DIVISOR", "glide max_fc divisor")
    add_lit(g, r"min_fc\s*:\s*(\d[0-9._f]*)\s*,", "GLIDE_MIN_FC", "glide min_fc")
    add_lit(g, r"let\s+epsilon\s*=\s*(\d[0-9._f]*)\s*;", "GLIDE_EPSILON", "glide dead band")
    add_lit(g, r"cached_t\s*:\s*(-?\d[0-9._f]*)\s*,", "GLIDE_CACHED_T_INIT", "glide cached_t initial value")

    # ---- write Consts.v
    lines = ["(* GENERATED by tools/gen_consts.py from /repo/src/*.rs -- do not edit *)",
             "From Coq Require Import ZArith.", "Open Scope Z_scope.", ""]
    for name, kind, v, comment in consts:
        lines.append("(* %s *)" % comment.replace("*)", "* )"))
        if kind == "int":
            lines.append("Definition %s : Z := %d." % (name, v))
        else:
            lines.append("Definition %s_bits : Z := %d. (* 0x%08x *)" % (name, v, v))
        lines.append("")
    write_if_changed(os.path.join(OUT, "Consts.v"), "\n".join(lines) + "\n")

    # ---- write Tables.v
    lines = ["(* GENERATED by tools/gen_consts.py from /repo/src/lookup_tables.rs -- do not edit *)",
             "From Coq Require Import ZArith List.", "Import ListNotations.", "Open Scope Z_scope.", ""]
    for tname, bits in tables.items():
        lines.append("Definition %s_bits : list Z := [" % tname)
        for i in range(0, len(bits), 8):
            chunk = "; ".join(str(b) for b in bits[i:i + 8])
            lines.append("  " + chunk + (";" if i + 8 < len(bits) else ""))
        lines.append("].")
        lines.append("")
    write_if_changed(os.path.join(OUT, "Tables.v"), "\n".join(lines) + "\n")
    for w in warnings:
        print("gen_consts WARNING: " + w)
    if os.environ.get("VERIF_WRITE_CONST_DEFAULTS"):
        with open(defaults_path, "w") as fh:
            json.dump({name: [kind, v] for (name, kind, v, _c) in consts}, fh, indent=1, sort_keys=True)
    print("gen_consts: %d constants, %d tables" % (len(consts), len(tables)))


def write_if_changed(path, content):
    try:
        with open(path) as fh:
            if fh.read() == content:
                return
    except FileNotFoundError:
        pass
    with open(path, "w") as fh:
        fh.write(content)


if __name__ == "__main__":
    try:
        main()
    except GenError as exc:
        print("GENERATION-FAILURE: %s" % exc)
        sys.exit(2)
