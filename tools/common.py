"""Shared helpers for the check driver: float encoding, building, running both sides."""
import os
import re
import struct
import subprocess
import sys
import time

VERIF = os.path.dirname(os.path.dirname(os.path.abspath(__file__)))
REPO = os.environ.get("VERIF_REPO", "/repo")
# build output (harness, driver, logs): one directory per repository under test, so that a run against a
# scratch checkout (VERIF_REPO) never picks up or overwrites the binaries of a run against /repo.
# (coq/gen/*.v is still shared: do not run checks against different repositories at the same time.)
import hashlib as _hashlib
BUILD = os.path.join(VERIF, "_build" if os.path.abspath(REPO) == "/repo"
                     else "_build-" + _hashlib.sha256(os.path.abspath(REPO).encode()).hexdigest()[:8])
COQ = os.path.join(VERIF, "coq")
TARGET = os.path.join(BUILD, "target")
OCAML_DIR = os.path.join(BUILD, "ocaml")
LOGS = os.path.join(BUILD, "logs")


# ----------------------------------------------------------------------------- floats
def f32(x):
    """round a python float to the nearest binary32 (returned as python float)"""
    try:
        return struct.unpack("<f", struct.pack("<f", x))[0]
    except OverflowError:
        return float("inf") if x > 0 else float("-inf")


def bits(x):
    """bit pattern (int) of the binary32 nearest to x"""
    try:
        return struct.unpack("<I", struct.pack("<f", x))[0]
    except OverflowError:
        return 0x7F800000 if x > 0 else 0xFF800000


def hx(x):
    return "%08x" % bits(x)


def from_bits(b):
    return struct.unpack("<f", struct.pack("<I", b & 0xFFFFFFFF))[0]


def unhx(s):
    """value printed by the harness/driver: 8 hex digits or 'nan'"""
    if s == "nan":
        return float("nan")
    return from_bits(int(s, 16))


def next_up(x):
    b = bits(x)
    if x >= 0:
        return from_bits(b + 1)
    if b == 0x80000000:
        return from_bits(1)
    return from_bits(b - 1)


def next_down(x):
    return -next_up(-x)


# ----------------------------------------------------------------------------- processes
def run(cmd, cwd=None, timeout=None, env=None, inp=None):
    e = dict(os.environ)
    e["CARGO_NET_OFFLINE"] = "true"
    e["CARGO_TARGET_DIR"] = TARGET
    if env:
        e.update(env)
    try:
        p = subprocess.run(cmd, cwd=cwd, env=e, input=inp, stdout=subprocess.PIPE, stderr=subprocess.STDOUT,
                           timeout=timeout, text=True)
        return p.returncode, p.stdout
    except subprocess.TimeoutExpired as exc:
        out = exc.stdout or ""
        if isinstance(out, bytes):
            out = out.decode(errors="replace")
        return 124, out + "\nTIMEOUT"


def log(name, text):
    os.makedirs(LOGS, exist_ok=True)
    with open(os.path.join(LOGS, name), "w") as fh:
        fh.write(text)


# ----------------------------------------------------------------------------- builds
def gen_consts():
    rc, out = run([sys.executable, os.path.join(VERIF, "tools", "gen_consts.py")], cwd=VERIF, timeout=120)
    log("gen_consts.log", out)
    return rc == 0, out.strip()


def ensure_coq_makefile():
    mk = os.path.join(COQ, "Makefile")
    cp = os.path.join(COQ, "_CoqProject")
    if not os.path.exists(mk) or os.path.getmtime(mk) < os.path.getmtime(cp):
        run(["coq_makefile", "-f", "_CoqProject", "-o", "Makefile"], cwd=COQ, timeout=60)


def coq_make(targets, timeout=3000):
    """full .vo build of the given targets (never -vos)"""
    ensure_coq_makefile()
    rc, out = run(["make", "-j16"] + targets, cwd=COQ, timeout=timeout)
    return rc == 0, out


def strip_coq_comments(src):
    """remove (* ... *) comments (nested); string literals are honoured the way Coq's lexer does: a `"`
    outside a comment starts a string (in which `(*` means nothing), and inside a comment a string
    literal hides `*)`.  Strings outside comments are kept."""
    out = []
    depth = 0
    i = 0
    n = len(src)
    in_str = False
    while i < n:
        c = src[i]
        if in_str:
            if depth == 0:
                out.append(c)
            if c == '"':
                if i + 1 < n and src[i + 1] == '"':      # doubled quote inside a string
                    if depth == 0:
                        out.append('"')
                    i += 2
                    continue
                in_str = False
            i += 1
        elif c == '"':
            in_str = True
            if depth == 0:
                out.append(c)
            i += 1
        elif src.startswith("(*", i):
            depth += 1
            i += 2
        elif src.startswith("*)", i) and depth > 0:
            depth -= 1
            i += 2
        else:
            if depth == 0:
                out.append(c)
            i += 1
    return "".join(out)


FORBIDDEN = re.compile(
    r"\b(Admitted|admit|Axiom|Axioms|Parameter|Parameters|Conjecture|Conjectures|bypass_check)\b"
    r"|Unset\s+(Guard|Positivity|Universe)|type-in-type|impredicative-set|Admit\s+Obligations")


def forbidden_tokens():
    """scan every .v of the development (comments stripped) for forbidden vernacular"""
    hits = []
    for root, _dirs, files in os.walk(COQ):
        for fn in files:
            if not fn.endswith(".v"):
                continue
            path = os.path.join(root, fn)
            with open(path) as fh:
                src = strip_coq_comments(fh.read())
            # Variable/Hypothesis outside a section would declare an axiom
            depth = 0
            for ln, line in enumerate(src.split("\n"), 1):
                if re.match(r"\s*Section\b", line):
                    depth += 1
                if re.match(r"\s*End\b", line) and depth > 0:
                    depth -= 1
                m = FORBIDDEN.search(line)
                if m:
                    hits.append("%s:%d: %s" % (os.path.relpath(path, VERIF), ln, m.group(0)))
                if depth == 0 and re.match(r"\s*(Variable|Variables|Hypothesis|Hypotheses|Context)\b", line):
                    hits.append("%s:%d: %s outside a section" % (os.path.relpath(path, VERIF), ln, line.strip()))
    return hits


ALLOWED_AXIOMS = {
    "ClassicalDedekindReals.sig_not_dec",
    "ClassicalDedekindReals.sig_forall_dec",
    "FunctionalExtensionality.functional_extensionality_dep",
    "Classical_Prop.classic",
}
# additionally allowed where a proof uses the `interval` tactic (primitive ints / floats)
ALLOWED_PREFIXES_INTERVAL = ("PrimInt63.", "PrimFloat.", "FloatAxioms.", "Uint63.", "Uint63Axioms.", "Sint63.",
                             "FloatOps.", "Float64.", "PrimFloat", "CarryType.", "FloatClass.")


def parse_assumptions(out):
    """returns list of (theorem_index, [axiom names]) from coqc output containing Print Assumptions blocks"""
    blocks = []
    cur = None
    for line in out.split("\n"):
        if line.startswith("Closed under the global context"):
            blocks.append([])
            cur = None
        elif line.startswith("Axioms:"):
            cur = []
            blocks.append(cur)
        elif cur is not None:
            if line and not line[0].isspace():
                m = re.match(r"([A-Za-z_][\w.']*)", line)
                if m and not line.startswith("File ") and not line.startswith("Warning"):
                    cur.append(m.group(1))
    return blocks


def props_files(pid):
    """Props/<pid>.v and its continuation files Props/<pid>_*.v (same rules: only `exact` proofs + Print Assumptions)"""
    import glob
    main = os.path.join(COQ, "Props", pid + ".v")
    return [main] + sorted(glob.glob(os.path.join(COQ, "Props", pid + "_*.v")))


def compile_props(pid, interval_ok=False, timeout=1800):
    """compile Props/<pid>.v and Props/<pid>_*.v (after their cone) and check the axioms every theorem depends on.
    returns dict(ok, n_theorems, n_discharged, axioms(set), problems[list], log)"""
    res = {"ok": False, "n_theorems": 0, "n_discharged": 0, "axioms": [], "problems": []}
    files = props_files(pid)
    if not os.path.exists(files[0]):
        res["problems"].append("Props/%s.v missing" % pid)
        return res
    axioms = set()
    bad = set()
    all_theorems = []
    tmpdir = os.path.join(BUILD, "props_tmp")
    os.makedirs(tmpdir, exist_ok=True)
    for src_path in files:
        name = os.path.basename(src_path)[:-2]
        with open(src_path) as fh:
            src = strip_coq_comments(fh.read())
        theorems = re.findall(r"^\s*(?:Theorem|Lemma|Corollary|Fact|Proposition|Remark|Property)\s+([A-Za-z_][\w']*)", src, re.M)
        printed = re.findall(r"^\s*Print\s+Assumptions\s+([A-Za-z_][\w']*)", src, re.M)
        all_theorems += theorems
        missing = [t for t in theorems if t not in printed]
        if missing:
            res["problems"].append("no Print Assumptions for: " + ", ".join(missing))
        ok, out = coq_make(["Props/%s.vo" % name], timeout=timeout)
        log("make_%s.log" % name, out)
        if not ok:
            res["problems"].append("make Props/%s.vo failed" % name)
            res["log"] = out[-3000:]
            res["n_theorems"] = len(all_theorems)
            # how many theorems of the Props file itself were accepted is unknown: count 0
            return res
        # once more, to capture the Print Assumptions output (the .vo of this run is thrown away)
        rc, out2 = run(["coqc", "-Q", COQ, "SU", "-w", "-all", "-o", os.path.join(tmpdir, name + ".vo"), src_path],
                       cwd=COQ, timeout=timeout)
        log("props_%s.log" % name, out2)
        if rc != 0:
            res["problems"].append("coqc Props/%s.v failed" % name)
            res["log"] = out2[-3000:]
            res["n_theorems"] = len(all_theorems)
            return res
        blocks = parse_assumptions(out2)
        for b in blocks:
            for a in b:
                axioms.add(a)
                if a in ALLOWED_AXIOMS:
                    continue
                if interval_ok and a.startswith(ALLOWED_PREFIXES_INTERVAL):
                    continue
                bad.add(a)
        if len(blocks) < len(printed):
            res["problems"].append("%s: only %d of %d Print Assumptions outputs seen" % (name, len(blocks), len(printed)))
    res["n_theorems"] = len(all_theorems)
    if not all_theorems:
        res["problems"].append("no theorem in the Props file(s) of %s" % pid)
    res["axioms"] = sorted(axioms)
    if bad:
        res["problems"].append("axioms outside the allow-list: " + ", ".join(sorted(bad)))
    res["n_discharged"] = len(all_theorems) if not res["problems"] else 0
    res["ok"] = not res["problems"]
    return res


def build_harness():
    """(re)build the Rust harness against /repo's current working tree, both profiles"""
    hdir = os.path.join(VERIF, "harness")
    if os.path.abspath(REPO) != "/repo":
        # VERIF_REPO points at another checkout (a scratch worktree): build a copy of the harness crate
        # whose path dependency points there, so that /verif/harness itself stays as committed
        import shutil
        alt = os.path.join(BUILD, "harness-alt")
        shutil.rmtree(alt, ignore_errors=True)
        shutil.copytree(hdir, alt, ignore=shutil.ignore_patterns("target"))
        with open(os.path.join(alt, "Cargo.toml")) as fh:
            toml = fh.read()
        with open(os.path.join(alt, "Cargo.toml"), "w") as fh:
            fh.write(toml.replace('path = "/repo"', 'path = "%s"' % os.path.abspath(REPO)))
        hdir = alt
    lock = os.path.join(hdir, "Cargo.lock")
    if not os.path.exists(lock) and os.path.exists(os.path.join(REPO, "Cargo.lock")):
        import shutil
        shutil.copy(os.path.join(REPO, "Cargo.lock"), lock)
    # cargo decides by modification time whether the crate under test needs rebuilding; a source file
    # replaced by one with an older or equal time stamp (cp -p, rsync -a, tar x) would leave a stale
    # harness.  Decide by content instead: when the crate's sources differ from those of the last build,
    # its compiled artefacts are discarded first.
    import hashlib
    h = hashlib.sha256()
    h.update(os.path.abspath(REPO).encode())
    srcs = []
    for root, _d, files in os.walk(os.path.join(REPO, "src")):
        srcs += [os.path.join(root, f) for f in files]
    for f in sorted(srcs) + [os.path.join(REPO, "Cargo.toml"), os.path.join(REPO, "Cargo.lock")]:
        if os.path.exists(f):
            h.update(f.encode())
            with open(f, "rb") as fh:
                h.update(fh.read())
    digest = h.hexdigest()
    stamp = os.path.join(BUILD, "harness_src.sha256")
    old_digest = open(stamp).read().strip() if os.path.exists(stamp) else ""
    if digest != old_digest:
        for prof in ([], ["--release"]):
            run(["cargo", "clean", "--offline", "-q", "-p", "synth-utils"] + prof, cwd=hdir, timeout=300)
        if os.path.exists(stamp):
            os.remove(stamp)
    outs = []
    for prof in ([], ["--release"]):
        rc, out = run(["cargo", "build", "--offline", "-q"] + prof, cwd=hdir, timeout=1200)
        outs.append(out)
        if rc != 0:
            log("cargo.log", "\n".join(outs))
            return False, out
    log("cargo.log", "\n".join(outs))
    os.makedirs(BUILD, exist_ok=True)
    with open(stamp, "w") as fh:
        fh.write(digest)
    return True, ""


def build_driver():
    """extract the model and compile the OCaml driver when the model is newer than the binary"""
    os.makedirs(OCAML_DIR, exist_ok=True)
    drv = os.path.join(OCAML_DIR, "driver")
    srcs = [os.path.join(COQ, "Extract.v"), os.path.join(VERIF, "ocaml", "driver.ml"), os.path.join(COQ, "F32.v"),
            os.path.join(COQ, "F64.v"), os.path.join(COQ, "gen", "Consts.v"), os.path.join(COQ, "gen", "Tables.v")]
    mdir = os.path.join(COQ, "Model")
    srcs += [os.path.join(mdir, f) for f in os.listdir(mdir) if f.endswith(".v")]
    newest = max(os.path.getmtime(s) for s in srcs)
    if os.path.exists(drv) and os.path.getmtime(drv) >= newest:
        return True, ""
    ok, out = coq_make(["Model/Ribbon.vo", "Model/Glide.vo", "Model/Midi.vo", "Model/Quantizer.vo", "Model/Lfo.vo",
                        "Model/Adsr.vo"], timeout=1200)
    if not ok:
        return False, out
    rc, out = run(["coqc", "-Q", COQ, "SU", os.path.join(COQ, "Extract.v")], cwd=OCAML_DIR, timeout=600)
    if rc != 0:
        return False, out
    import shutil
    shutil.copy(os.path.join(VERIF, "ocaml", "driver.ml"), os.path.join(OCAML_DIR, "driver.ml"))
    rc, out = run(["ocamlfind", "ocamlopt", "-w", "-a", "-o", "driver", "model.mli", "model.ml", "driver.ml"],
                  cwd=OCAML_DIR, timeout=900)
    if rc != 0:
        return False, out
    return True, ""


def harness_bin(profile):
    return os.path.join(TARGET, "debug" if profile == "debug" else "release", "synth-harness")


def run_side(side, profile, script_text, timeout=900):
    """side: 'impl' | 'model'. returns list of output lines"""
    if side == "impl":
        cmd = [harness_bin(profile)]
    else:
        cmd = [os.path.join(OCAML_DIR, "driver"), profile]
    rc, out = run(cmd, inp=script_text, timeout=timeout)
    return rc, out.split("\n")


class ModelTimeout(Exception):
    """the extracted model did not finish in time: a failure of the tooling, never a verdict about the code"""


def script_cost(s):
    """rough relative cost of running script s through the extracted model (Flocq arithmetic on
    inductive integers): the ribbon model sums its whole window on every poll"""
    t = s.ops[0].split()
    k = 1
    if t[0] == "ribbon.new":
        try:
            k = 1 + int(t[1]) // 4
        except ValueError:
            pass
    elif t[0] == "glide.new":
        k = 4
    n = 0
    for op in s.ops:
        if op.startswith("tickhash"):
            n += int(op.split()[1])
        else:
            n += 1
    return k * n + 50


def run_sharded(side, profile, scripts, timeout=900, jobs=None):
    """run the scripts through one side, split over up to `jobs` processes (longest-processing-time
    first), and return dict sid -> list of output lines.  A timeout of the implementation shows as a
    missing / TIMEOUT line (a hang is a finding); a timeout of the model raises ModelTimeout."""
    jobs = jobs or int(os.environ.get("VERIF_JOBS", "16"))
    if side == "impl":
        cmd = [harness_bin(profile)]
    else:
        cmd = [os.path.join(OCAML_DIR, "driver"), profile]
    order = sorted(scripts, key=script_cost, reverse=True)
    nb = max(1, min(jobs, len(order)))
    bins = [[0, []] for _ in range(nb)]
    for sc in order:
        b = min(bins, key=lambda x: x[0])
        b[0] += script_cost(sc)
        b[1].append(sc)
    e = dict(os.environ)
    procs = []
    for cost, group in bins:
        if not group:
            continue
        text = "".join(sc.text() for sc in group)
        pr = subprocess.Popen(cmd, stdin=subprocess.PIPE, stdout=subprocess.PIPE, stderr=subprocess.DEVNULL, env=e, text=True)
        procs.append((pr, text))
    import threading
    results = [None] * len(procs)

    def feed(k):
        pr, text = procs[k]
        try:
            out, _ = pr.communicate(text, timeout=timeout)
            results[k] = (pr.returncode, out)
        except subprocess.TimeoutExpired:
            pr.kill()
            out, _ = pr.communicate()
            results[k] = (124, (out or "") + "\nTIMEOUT")

    ths = [threading.Thread(target=feed, args=(k,)) for k in range(len(procs))]
    for t in ths:
        t.start()
    for t in ths:
        t.join()
    res = {}
    for rc, out in results:
        if rc == 124 and side == "model":
            raise ModelTimeout("the extracted model did not finish within %d s" % timeout)
        res.update(split_outputs(out.split("\n")))
    return res


def split_outputs(lines):
    """split '@ id' delimited output into dict id -> list of lines"""
    res = {}
    cur = None
    for ln in lines:
        if ln.startswith("@"):
            cur = ln[1:].strip()
            res[cur] = []
        elif cur is not None and ln != "":
            res[cur].append(ln)
    return res


class Script:
    def __init__(self, sid, ops, meta=None):
        self.sid = sid
        self.ops = ops  # list of op lines, first is the constructor
        self.meta = meta or {}

    def text(self):
        return "@ %s\n%s\n" % (self.sid, "\n".join(self.ops))


class build_lock:
    """serialises the build phase (translator, make, extraction, cargo) of concurrently running checks"""

    def __enter__(self):
        import fcntl
        os.makedirs(BUILD, exist_ok=True)
        self.fh = open(os.path.join(BUILD, "build.lock"), "w")
        fcntl.flock(self.fh, fcntl.LOCK_EX)
        return self

    def __exit__(self, *a):
        import fcntl
        fcntl.flock(self.fh, fcntl.LOCK_UN)
        self.fh.close()


def now():
    return time.time()
