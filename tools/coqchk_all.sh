#!/bin/sh
# coqchk_all.sh: one-off independent re-check of every Props module (and its whole cone) with coqchk, with a long
# time limit (the thorough tier of ./check allows coqchk 600 s per property and records a timeout as a note).
# Meant for `vp run -- sh tools/coqchk_all.sh`: builds the tree first, then 4 coqchk processes at a time.
./setup.sh > setup.log 2>&1 || { echo "setup failed"; tail -20 setup.log; exit 1; }
cd coq
one() {
  m=$1; s=$(date +%s)
  timeout ${COQCHK_LIMIT:-5400} coqchk -o -silent -Q . SU SU.Props.$m > ../coqchk_$m.log 2>&1
  rc=$?
  e=$(( $(date +%s) - s ))
  ax=$(grep -A12 "^\* Axioms" ../coqchk_$m.log | grep -v "^\*" | grep -v "^ *$" | sed 's/^ *//' | tr '\n' ' ')
  tt=$(grep -c "<none>" ../coqchk_$m.log)
  echo "$m rc=$rc ${e}s none-lines=$tt axioms: $ax"
}
for grp in "C01 C04 C07 C10" "C02 C05 C08 C11" "C03 C06 C09 C12" "C13 C15 C17 C19" "C14 C16 C18 C20" "C18_more"; do
  for m in $grp; do one $m & done; wait
done
