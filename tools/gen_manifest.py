#!/usr/bin/env python3
"""Writes MANIFEST.json (kept in a script so that the 20 entries stay consistent)."""
import json, os, subprocess
V = os.path.dirname(os.path.dirname(os.path.abspath(__file__)))
claimed = {
 "C01": ("ADSR range/shape/fidelity", "induction over op lists (invariant), Flocq rounding lemmas, vm_compute table sweeps, interval per table cell (2x1024 goals)"),
 "C02": ("ADSR phase order and duration", "case analysis on transitions, Z arithmetic for the phase clock, Flocq relative-error bounds for the increment"),
 "C03": ("ADSR continuity", "Lipschitz bound of the exact piecewise-linear table curves (vm_compute sweep of adjacent differences + induction), rounding error chain, case analysis over gate events and phase boundaries"),
 "C04": ("MIDI held notes / gate / note / velocity", "refinement of the receiver model to a positional spec by snoc-induction over histories"),
 "C05": ("MIDI edge flags", "refinement to positional pending_fall/pending_rise specs by snoc-induction"),
 "C06": ("MIDI byte framing", "refinement of the 17-state parser model to a segment-based reference decoder, finite byte sweeps"),
 "C07": ("quantizer never forbidden", "invariant over allow/forbid/convert histories, characterisation of the search loop"),
 "C08": ("quantizer nearest note", "generic lemma on early-return scan over sorted candidates, three-octaves-suffice, monotone f32 input path"),
 "C09": ("quantizer hysteresis", "case analysis on the window test, exact rational sweep of the 132 window bounds, monotonicity by induction over input sequences"),
 "C10": ("LFO shapes", "exact-representability lemmas for saw/triangle/square, per-cell interval proofs for the sine (1024 goals), invariant for the counter range"),
 "C11": ("LFO phase bookkeeping", "Z arithmetic mod 2^24, exactness of x % 1.0 and power-of-two scaling, one-rounding error bounds"),
 "C12": ("LFO continuity", "Lipschitz bound of the exact periodic piecewise-linear curve by induction on the step, rounding error chain"),
 "C13": ("glide stability", "one-step f32 error lemma for the one-pole recurrence, hull/approach invariants by induction, coefficient analysis from a proved range of the libm tanf port"),
 "C14": ("glide timing", "real analysis of the step response (exp bounds, interval), pole accuracy from the proved accuracy of the tanf port, clamp and dead-band case analysis"),
 "C15": ("ribbon press detection", "invariant over sample histories relating counters to the run length; edge latch lemmas"),
 "C16": ("ribbon value", "ring-buffer refinement (last CAP writes), value = function of the capture window, f32 summation error analysis, overflow branch of the final division"),
 "C17": ("no panic / liveness", "per-module invariants implying every panic guard of the model, liveness from the phase-clock lemmas"),
 "C18": ("MIDI controllers / pitch bend", "symbolic routing table, vm_compute sweeps over 128 controller values and 16384 bend values"),
 "C19": ("quantizer record", "Flocq ulp/error lemmas for recomposition, integer search characterisation carried to the reals"),
 "C20": ("clamps", "symbolic case analysis over all float classes (clamp_maxmin), idempotence, finite sweeps for notes/channels"),
}
pending = {}
for pid in list(claimed):
    if not os.path.exists(os.path.join(V, "coq", "Props", pid + ".v")) or os.environ.get("PENDING_" + pid):
        pending[pid] = "theorems for this property are still under construction in coq/Props (not registered yet)"
        del claimed[pid]
for pid in (os.environ.get("PENDING", "").split()):
    if pid in claimed:
        pending[pid] = "theorems for this property are still under construction in coq/Props (not registered yet)"
        del claimed[pid]
checks = []
for pid, (what, tech) in sorted(claimed.items()):
    checks.append({
        "property_id": pid,
        "quick_cmd": "./check %s --tier quick" % pid,
        "thorough_cmd": "./check %s --tier thorough" % pid,
        "evidence_file": "evidence/%s.json" % pid,
        "replay_cmd_template": "./check %s --replay {path}" % pid,
        "engine": "coq-proof+correspondence",
        "level_claimed": {
            "category": "proof",
            "text": "%s: machine-checked Coq theorems (coq/Props/%s.v) about a bit-exact Gallina model of the code, for all histories/inputs the property quantifies over; the model is tied to /repo on every run by regenerated constants/tables and a differential correspondence check (extracted model vs real crate on seeded scripts), plus property monitors over implementation traces that supply the replay when something breaks." % (what, pid),
            "design_ref": "DESIGN.md section 5 (%s)" % pid,
        },
        "level_note": "Trusted: Coq 8.16.1 kernel (vm_compute, no native_compute); axioms: the four classical axioms of Reals/Flocq (plus the primitive 63-bit integer/float axioms of the standard library where the `interval` tactic is used); tools/gen_consts.py; extraction (ExtrOcamlBasic only) + OCaml driver + Rust harness; the theorems are about the hand-written model, the correspondence check (differential testing) ties it to the code; dependencies (midi-convert, midi-types, biquad, libm tanf, heapless, core float semantics) are modelled, not verified.",
        "technique": "Coq proof: " + tech,
    })
hook = subprocess.run(["git", "-C", "/repo", "log", "--format=%h %s"], capture_output=True, text=True).stdout
hook_commits = [l.split()[0] for l in hook.split("\n") if "verif-hooks" in l]
man = {
 "version": 1,
 "setup_cmd": "./setup.sh",
 "hooks": {
   "guard": "cargo feature verif-hooks",
   "enable": "harness/Cargo.toml depends on synth-utils { path = \"/repo\", features = [\"verif-hooks\"] }",
   "baseline_off_cmd": "cd /repo && cargo test --workspace --no-fail-fast --offline",
   "source_commits": hook_commits,
   "add_only": True,
 },
 "engines": [{
   "name": "coq-proof+correspondence", "path": "check",
   "serves_properties": sorted(claimed),
   "kind_free_text": "Coq 8.16.1 development (coq/), extracted OCaml model driver (ocaml/), Rust harness (harness/), python orchestration (tools/)",
 }],
 "checks": checks,
 "not_applicable": [{"property_id": k, "reason": v} for k, v in sorted(pending.items())],
 "notes": "Genuine defects found while proving were repaired in /repo by minimal `fix:` commits (see known_findings.json and DESIGN.md).",
}
json.dump(man, open(os.path.join(V, "MANIFEST.json"), "w"), indent=1)
print("claimed:", " ".join(sorted(claimed)), "| pending:", " ".join(sorted(pending)))
