#!/usr/bin/env python3
"""Writes the theorem index (appendix A of DESIGN.md) from coq/Props/*.v."""
import glob, os, re
out = ["## Appendix A. Theorem index (generated from coq/Props/*.v by tools/theorem_index.py)", "",
       "Every theorem below (all but two) is closed by `exact <lemma>` with the proof in coq/Proofs/; the six `Example`s are listed too; the text is the",
       "comment that precedes the statement in the Props file.", ""]
for f in sorted(glob.glob("/verif/coq/Props/C*.v")):
    pid = os.path.basename(f)[:-2]
    src = open(f).read()
    out.append("### %s" % pid)
    pos = 0
    first = True
    for m in re.finditer(r"^(?:Theorem|Example)\s+(\w+)\s*:", src, re.M):
        chunk = src[pos:m.start()]
        pos = m.end()
        comments = re.findall(r"\(\*\*(.*?)\*\)", chunk, re.S)
        doc = " ".join(comments[-1].split()) if comments else ""
        if doc.startswith(pid + " "):
            doc = ""
        out.append("* `%s` — %s" % (m.group(1), doc if doc else ("(no comment)" if first else "(continuation of the previous item)")))
        first = False
    out.append("")
p = "/verif/DESIGN.md"
s = open(p).read()
marker = "## Appendix A. Theorem index"
if marker in s:
    s = s[:s.index(marker)].rstrip("\n") + "\n\n"
else:
    s = s.rstrip("\n") + "\n\n---------------------------------------------------------------------------\n\n"
open(p, "w").write(s + "\n".join(out) + "\n")
print("index written")
