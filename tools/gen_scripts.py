"""Seeded generators of operation scripts, one family set per module.

Every random choice derives from the random.Random instance passed in (itself seeded from
VERIF_SEED), so a run is reproducible.  Each generator returns a list of common.Script.
Two kinds of streams per module: structured mostly-valid histories, and a separate
malformed / extreme stream (NaN, infinities, subnormals, range end points, raw bytes).
"""
import math
import random

from common import Script, hx, f32, next_up, next_down, from_bits, bits

SPECIAL_FLOATS = [0.0, -0.0, 1.0, -1.0, 0.5, 2.0, 1e-45, -1e-45, 1e-38, 3.4028235e38, -3.4028235e38,
                  float("inf"), float("-inf"), float("nan"), 1e-3, 20.0, 0.001, 19.999999, 20.000002,
                  0.00099999993, 1e9, -1e9, 16777216.0, 16777217.0, 4294967296.0, 0.99999994, 1.0000001]


def fhex(x):
    if isinstance(x, float) and math.isnan(x):
        return "7fc00000"
    return hx(x)


# ------------------------------------------------------------------------------------------ MIDI
def midi_msg(rng, ch_listen):
    """one structured message as a list of bytes (with status byte)"""
    ch = ch_listen if rng.random() < 0.8 else rng.randrange(16)
    k = rng.random()
    if k < 0.40:
        note = rng.choice([60, 61, 62, 64, 67, 72, 0, 127, rng.randrange(128)])
        vel = rng.choice([0, 1, 64, 100, 127, rng.randrange(128)]) if rng.random() < 0.3 else rng.randrange(1, 128)
        return [0x90 | ch, note, vel]
    if k < 0.65:
        note = rng.choice([60, 61, 62, 64, 67, 72, 0, 127, rng.randrange(128)])
        return [0x80 | ch, note, rng.randrange(128)]
    if k < 0.80:
        cc = rng.choice([1, 7, 71, 74, 5, 65, 64, 121, 123, 123, rng.randrange(128), 0, 127, 120, 122, 124])
        return [0xB0 | ch, cc, rng.choice([0, 63, 64, 127, rng.randrange(128)])]
    if k < 0.88:
        return [0xE0 | ch, rng.randrange(128), rng.randrange(128)]
    if k < 0.91:
        return [0xC0 | ch, rng.randrange(128)]
    if k < 0.93:
        return [0xD0 | ch, rng.randrange(128)]
    if k < 0.95:
        return [0xA0 | ch, rng.randrange(128), rng.randrange(128)]
    if k < 0.97:
        return [0xF0] + [rng.randrange(128) for _ in range(rng.randrange(0, 6))] + [0xF7]
    return rng.choice([[0xF1, rng.randrange(128)], [0xF2, rng.randrange(128), rng.randrange(128)],
                       [0xF3, rng.randrange(128)], [0xF6], [0xF4], [0xF5]])


def midi_structured(rng, sid, n_msgs, with_polls=True, held_heavy=False):
    ch_arg = rng.choice([0, 1, 5, 9, 15, 15, 16, 200, rng.randrange(16)])
    ch = min(ch_arg, 15)
    ops = ["midi.new %d" % ch_arg]
    last_status = None
    for _ in range(n_msgs):
        r = rng.random()
        if with_polls and r < 0.12:
            ops.append(rng.choice(["rise", "fall"]))
            continue
        if with_polls and r < 0.16:
            ops.append(rng.choice(["prio last", "prio high", "prio low", "retrig on", "retrig off"]))
            continue
        if held_heavy:
            msg = [0x90 | ch, rng.randrange(30, 70), rng.randrange(1, 128)] if rng.random() < 0.7 else midi_msg(rng, ch)
        else:
            msg = midi_msg(rng, ch)
        # running status: drop the status byte when it repeats
        if msg[0] < 0xF0 and msg[0] == last_status and rng.random() < 0.5:
            data = msg[1:]
        else:
            data = msg
        if msg[0] < 0xF0:
            last_status = msg[0]
        elif msg[0] < 0xF8:
            last_status = None
        # truncate sometimes
        if rng.random() < 0.04 and len(data) > 1:
            data = data[:rng.randrange(1, len(data))]
            last_status = last_status  # parser keeps status
        for i, b in enumerate(data):
            # real-time bytes anywhere, also inside a message
            while rng.random() < 0.06:
                ops.append("b %d" % rng.choice([0xF8, 0xF9, 0xFA, 0xFB, 0xFC, 0xFD, 0xFE, 0xFF]))
            ops.append("b %d" % b)
    if with_polls:
        ops += ["fall", "rise", "fall", "rise"]
    return Script(sid, ops, {"module": "midi", "family": "structured"})


def midi_raw(rng, sid, n):
    ops = ["midi.new %d" % rng.randrange(256)]
    for _ in range(n):
        r = rng.random()
        if r < 0.05:
            ops.append(rng.choice(["rise", "fall"]))
        elif r < 0.5:
            ops.append("b %d" % rng.randrange(256))
        else:
            ops.append("b %d" % rng.choice([0x90, 0x80, 0xB0, 0xE0, 60, 64, 0, 127, 123, 100, 0xF8, 0xF0, 0xF7, 0x91]))
    return Script(sid, ops, {"module": "midi", "family": "raw"})


def midi_cc_all(sid, ch):
    """all 128 x (a few values) control changes on the listened channel"""
    ops = ["midi.new %d" % ch, "b %d" % (0xE0 | ch), "b 5", "b 100"]
    for cc in range(128):
        for v in (0, 1, 63, 64, 100, 127):
            ops += ["b %d" % (0xB0 | ch), "b %d" % cc, "b %d" % v]
    return Script(sid, ops, {"module": "midi", "family": "cc-all"})


def midi_cc_values(sid, ch, cc):
    ops = ["midi.new %d" % ch]
    for v in range(128):
        ops += ["b %d" % (0xB0 | ch), "b %d" % cc, "b %d" % v]
    return Script(sid, ops, {"module": "midi", "family": "cc-values"})


def midi_bend_sweep(sid, ch, lo, hi, step):
    ops = ["midi.new %d" % ch]
    for x in range(lo, hi, step):
        ops += ["b %d" % (0xE0 | ch), "b %d" % (x & 127), "b %d" % (x >> 7)]
    return Script(sid, ops, {"module": "midi", "family": "bend-sweep"})


def midi_repeat_after_reset(rng, sid):
    """set controllers / pitch bend, CC 121 (maybe with a note held), then the SAME values again"""
    ch = rng.randrange(16)
    ops = ["midi.new %d" % ch]
    msgs = []
    p_bend = rng.choice([0.5, 0.0])
    for _ in range(rng.randrange(1, 5)):
        if rng.random() < p_bend:
            msgs.append([0xE0 | ch, rng.randrange(128), rng.choice([0, 127, 64, rng.randrange(128)])])
        else:
            msgs.append([0xB0 | ch, rng.choice([1, 7, 71, 74, 5, 65, 64]), rng.choice([0, 127, 63, 64, rng.randrange(128)])])
    if rng.random() < 0.5:
        msgs.insert(rng.randrange(len(msgs) + 1), [0x90 | ch, 60, 100])
    seq = msgs + [[0xB0 | ch, 121, rng.choice([0, 127])]] + msgs + msgs
    running = rng.random() < 0.5
    last = None
    for m in seq:
        data = m
        if running and m[0] == last:
            data = m[1:]          # running status: the status byte is not repeated
        last = m[0]
        for b in data:
            ops.append("b %d" % b)
    return Script(sid, ops, {"module": "midi", "family": "repeat-after-reset"})


def midi_identical_repeat(rng, sid):
    """the SAME message twice, byte for byte, with only messages of other kinds in between (pitch bends, notes,
    foreign-channel traffic, real-time bytes between two identical control changes; control changes between two
    identical pitch bends / notes): a receiver that skips a "redundant" repeated message is wrong whenever
    something else moved the state the message sets (CC 121 after a bend, CC 123 after a note-on, ...)"""
    ch = rng.randrange(16)
    other = (ch + 1 + rng.randrange(15)) % 16
    ops = ["midi.new %d" % ch]

    def cc():
        return [0xB0 | ch, rng.choice([121, 121, 123, 1, 7, 71, 74, 5, 65, 64]), rng.choice([0, 127, 64, rng.randrange(128)])]

    def bend():
        return [0xE0 | ch, rng.randrange(128), rng.choice([0, 127, 64, rng.randrange(128)])]

    def note():
        return [rng.choice([0x90, 0x90, 0x80]) | ch, rng.choice([60, 62, 64, rng.randrange(128)]), rng.choice([0, 100, rng.randrange(1, 128)])]

    def foreign():
        return [rng.choice([0xB0, 0xE0, 0x90]) | other, rng.choice([121, 123, 1, 60]), rng.randrange(128)]

    msgs = [bend(), note(), cc()]
    for _ in range(rng.randrange(2, 7)):
        kind = rng.choice(["cc", "cc", "bend", "note"])
        m = {"cc": cc, "bend": bend, "note": note}[kind]()
        between = [f for k, f in (("cc", cc), ("bend", bend), ("note", note)) if k != kind] + [foreign]
        msgs.append(m)
        for _ in range(rng.randrange(1, 4)):
            msgs.append(rng.choice(between)())
        msgs.append(list(m))
        if rng.random() < 0.3:
            msgs.append(list(m))
    running = rng.random() < 0.3
    last = None
    for m in msgs:
        data = m[1:] if (running and m[0] == last) else m
        last = m[0]
        for b in data:
            if rng.random() < 0.05:
                ops.append("b %d" % rng.choice([0xF8, 0xFE, 0xFA]))
            ops.append("b %d" % b)
        if rng.random() < 0.2:
            ops.append(rng.choice(["rise", "fall"]))
    return Script(sid, ops, {"module": "midi", "family": "identical-repeat"})


def midi_cc_pairs(sid, ch):
    """every ordered pair of routed controllers (plus 121 / 123 as the first), the first at both switch positions and at
    the ends of the range, the second at three values: a controller whose effect depends on the state left by another
    one (portamento time ignored while the portamento switch is off, ...) shows here; a pitch bend rides along"""
    ops = ["midi.new %d" % ch]
    routed = [1, 7, 71, 74, 5, 65, 64]
    k = 0
    for a in routed + [121, 123]:
        for va in (0, 63, 64, 127):
            for b in routed:
                if a == b:
                    continue
                for vb in (127, 0, 37):
                    ops += ["b %d" % (0xB0 | ch), "b %d" % a, "b %d" % va]
                    if k % 5 == 0:
                        ops += ["b %d" % (0xE0 | ch), "b %d" % (k % 128), "b %d" % ((k * 7) % 128)]
                    ops += ["b %d" % (0xB0 | ch), "b %d" % b, "b %d" % vb]
                    k += 1
    return Script(sid, ops, {"module": "midi", "family": "cc-pairs"})


def midi_scripts(rng, n_struct, n_raw, cc=False):
    res = []
    for i in range(n_struct):
        res.append(midi_structured(rng, "midi-s%d" % i, rng.randrange(10, 120), held_heavy=(i % 7 == 0)))
    for i in range(n_raw):
        res.append(midi_raw(rng, "midi-r%d" % i, rng.randrange(20, 300)))
    for i in range(max(n_struct // 10, 6)):
        res.append(midi_repeat_after_reset(rng, "midi-rr%d" % i))
    for i in range(max(n_struct // 6, 10)):
        res.append(midi_identical_repeat(rng, "midi-ir%d" % i))
    if cc:
        res.append(midi_cc_all("midi-ccall", rng.randrange(16)))
        res.append(midi_cc_pairs("midi-ccpairs", rng.randrange(16)))
        for c in (1, 7, 71, 74, 5, 65, 64):
            res.append(midi_cc_values("midi-cc%d" % c, rng.randrange(16), c))
        res.append(midi_bend_sweep("midi-bend-coarse", 3, 0, 16384, 37))
        res.append(midi_bend_sweep("midi-bend-mid", 3, 8192 - 300, 8192 + 300, 1))
        res.append(midi_bend_sweep("midi-bend-lo", 0, 0, 300, 1))
        res.append(midi_bend_sweep("midi-bend-hi", 15, 16384 - 300, 16384, 1))
    return res


# ------------------------------------------------------------------------------------------ quantizer
def rand_voltage(rng):
    k = rng.random()
    if k < 0.55:
        return rng.uniform(0, 10)
    if k < 0.70:
        # near a semitone boundary of a random octave
        n = rng.randrange(0, 121)
        return n / 12.0 + rng.choice([0, 1e-6, -1e-6, 2e-6, -2e-6, 1e-5, -1e-5, 0.0083, -0.0083, 0.0084, -0.0084, 0.04, 0.0416667])
    if k < 0.80:
        return rng.uniform(-0.5, 10.5)
    if k < 0.9:
        return rng.choice([0.0, 10.0, 9.999999, 1e-7, 5.0, 1.0, 2.0 + 1 / 12.0, 1.8333, 0.6666667, 0.8333333])
    return rng.choice(SPECIAL_FLOATS)


def note_list(rng, allow_big=True):
    n = rng.randrange(0, 6)
    ns = []
    for _ in range(n):
        if allow_big and rng.random() < 0.1:
            ns.append(rng.choice([12, 13, 100, 255]))
        else:
            ns.append(rng.randrange(12))
    return ",".join(str(x) for x in ns) if ns else "-"


def quant_history(rng, sid, n):
    ops = ["quant.new"]
    v = rand_voltage(rng)
    for _ in range(n):
        r = rng.random()
        if r < 0.12:
            ops.append("forbid " + note_list(rng))
        elif r < 0.20:
            ops.append("allow " + note_list(rng))
        elif r < 0.25:
            ops.append("forbid 0,1,2,3,4,5,6,7,8,9,10,%d" % rng.choice([11, 11, 3, 200]))
        else:
            k = rng.random()
            if k < 0.35:
                pass  # same input again (convert-edit-convert)
            elif k < 0.65:
                v = v + rng.uniform(-0.02, 0.02)
            else:
                v = rand_voltage(rng)
            ops.append("conv " + fhex(v))
    return Script(sid, ops, {"module": "quant", "family": "history"})


def quant_fresh(rng, sid, mask, volts):
    """one fresh quantizer per conversion: scale `mask`, list of inputs"""
    forb = [str(n) for n in range(12) if not (mask >> n) & 1]
    scripts = []
    for j, v in enumerate(volts):
        ops = ["quant.new"]
        if forb:
            # keep the last forbidden note from being re-allowed: mask is non-empty so fine
            ops.append("forbid " + ",".join(forb))
        ops.append("conv " + fhex(v))
        scripts.append(Script("%s-%d" % (sid, j), ops, {"module": "quant", "family": "fresh", "mask": mask}))
    return scripts


def quant_ramp(rng, sid, mask, n):
    forb = [str(k) for k in range(12) if not (mask >> k) & 1]
    ops = ["quant.new"]
    if forb:
        ops.append("forbid " + ",".join(forb))
    v = rng.uniform(-0.2, 3.0)
    for _ in range(n):
        v += rng.choice([0.0, 1e-7, 0.001, 0.004, 0.0079, 0.0084, 0.02, 0.05, 0.3])
        ops.append("conv " + fhex(v))
    return Script(sid, ops, {"module": "quant", "family": "ramp", "mask": mask})


def quant_noise(rng, sid, k, n):
    ops = ["quant.new"]
    # arbitrary pre-history
    for _ in range(rng.randrange(0, 3)):
        ops.append("conv " + fhex(rng.uniform(0, 10)))
    b = f32(k / 12.0)
    for _ in range(n):
        ops.append("conv " + fhex(b + rng.uniform(-0.00832, 0.00832)))
    return Script(sid, ops, {"module": "quant", "family": "noise", "k": k})


def quant_edit_roundtrip(rng, sid):
    """convert, edit the scale so that the reported note is forbidden and (maybe) allowed again
    before the next conversion, then convert an input inside the hysteresis band of that note"""
    n = rng.randrange(0, 121)
    v = n / 12.0 + rng.uniform(0.01, 0.07)
    ops = ["quant.new"]
    if rng.random() < 0.4:
        keep = {n % 12, (n + rng.randrange(1, 12)) % 12}
        ops.append("forbid " + ",".join(str(k) for k in range(12) if k not in keep))
    ops.append("conv " + fhex(v))
    pc = n % 12
    others = [str(rng.randrange(12)) for _ in range(rng.randrange(0, 3))]
    kind = rng.random()
    if kind < 0.5:
        ops.append("forbid " + ",".join(others + [str(pc)] if rng.random() < 0.5 else [str(pc)] + others))
        ops.append("allow " + ",".join([str(pc)] + others))
    elif kind < 0.75:
        ops.append("forbid " + str(pc))
    else:
        ops.append("allow " + str(pc))
        ops.append("forbid " + ",".join(others) if others else "forbid -")
    for _ in range(rng.randrange(1, 4)):
        band = rng.choice([n / 12.0 - rng.uniform(0.0005, 0.008), (n + 1) / 12.0 + rng.uniform(0.0, 0.008),
                           n / 12.0 + rng.uniform(0.0, 0.083)])
        ops.append("conv " + fhex(band))
    return Script(sid, ops, {"module": "quant", "family": "edit-roundtrip"})


def quant_fresh_boundary(rng, sid, k):
    """fresh quantizer: land on note k-1 just below the boundary k/12, then move inside the
    hysteresis band above the boundary and back: the note must not change"""
    b = k / 12.0
    ops = ["quant.new"]
    if rng.random() < 0.3:
        keep = {(k - 1) % 12, k % 12, (k + 1) % 12}
        ops.append("forbid " + ",".join(str(n) for n in range(12) if n not in keep))
    ops.append("conv " + fhex(b - rng.uniform(0.001, 0.04)))
    for _ in range(rng.randrange(2, 5)):
        ops.append("conv " + fhex(b + rng.uniform(0.0002, 0.008)))
        ops.append("conv " + fhex(b - rng.uniform(0.0002, 0.008)))
    return Script(sid, ops, {"module": "quant", "family": "noise", "k": k})


def quant_scripts(rng, n_hist, n_masks, n_ramps):
    res = []
    for i in range(n_hist):
        res.append(quant_history(rng, "q-h%d" % i, rng.randrange(5, 60)))
    masks = [4095, 8, 2048, 1, 0b101010110101, 0b010101001010] + [rng.randrange(1, 4096) for _ in range(n_masks)]
    for mi, m in enumerate(masks):
        volts = []
        for _ in range(6):
            volts.append(rand_voltage(rng))
        octv = rng.randrange(0, 10)
        for n in range(12):
            base = octv + n / 12.0
            volts += [base, base + rng.choice([1e-6, -1e-6, 0.0416, 0.0417, 0.08, -0.04])]
        res += quant_fresh(rng, "q-f%d" % mi, m, volts)
    for i in range(max(n_hist // 2, 20)):
        res.append(quant_edit_roundtrip(rng, "q-e%d" % i))
    for i, k in enumerate([1, 1, 2, 12, 13, 61, 120, rng.randrange(1, 121), rng.randrange(1, 121)]):
        res.append(quant_fresh_boundary(rng, "q-b%d" % i, k))
    for i in range(n_ramps):
        res.append(quant_ramp(rng, "q-r%d" % i, rng.choice([4095, 4095, rng.randrange(1, 4096)]), rng.randrange(10, 80)))
        res.append(quant_noise(rng, "q-n%d" % i, rng.randrange(1, 121), rng.randrange(5, 40)))
    return res


# ------------------------------------------------------------------------------------------ ribbon
RIBBON_RATES = {9: 500.0, 18: 1000.0, 35: 2000.0, 171: 10000.0, 817: 48000.0, 3265: 192000.0, 52: 3000.0, 69: 4000.0, 86: 5000.0}
RIBBON_CAPS_ODD = [1, 2, 3, 4, 5, 7, 10, 16, 20, 24, 32]


def ribbon_script(rng, sid, cap=None, big=False):
    if cap is None:
        cap = rng.choice([9, 18, 18, 35, 52, 69, 86, 171] + ([817, 3265] if big else []))
    if cap in RIBBON_RATES and rng.random() < 0.8:
        fs = RIBBON_RATES[cap]
    else:
        cap = rng.choice(RIBBON_CAPS_ODD)
        fs = rng.choice([100.0, 500.0, 1000.0, 1500.0, 2000.0, 999.9])
    softpot = rng.choice([20000.0, 10000.0, 100000.0])
    dropper = rng.choice([820.0, 1000.0, 100.0, 4700.0])
    pullup = rng.choice([1e6, 1e6, 1e5, softpot + dropper, 1e12, 3.3e6])
    boundary = 1.0 - dropper / (dropper + softpot)
    ops = ["ribbon.new %d %s %s %s %s" % (cap, hx(fs), hx(softpot), hx(dropper), hx(pullup))]
    fsu = int(fs)
    skip = max(fsu * 1000 // 1000000 - 1, 0)
    need = skip + cap
    n_press = rng.randrange(2, 6)
    for _ in range(n_press):
        kind = rng.random()
        if kind < 0.35:
            length = need + rng.randrange(0, 2 * cap + 3)
        elif kind < 0.7:
            length = rng.choice([need - 1, need - 2, need, max(need // 2, 1), 1, 2, 3, rng.randrange(1, need + 1)])
        else:
            length = rng.randrange(1, 2 * need + 2)
        level = rng.uniform(0.0, boundary)
        drift = rng.choice([0.0, 0.0, 0.0005, -0.0005])
        for j in range(max(length, 0)):
            x = level + drift * j + (rng.uniform(-0.01, 0.01) if rng.random() < 0.3 else 0.0)
            x = min(max(x, 0.0), next_down(f32(boundary)) if rng.random() < 0.98 else boundary)
            if rng.random() < 0.01:
                x = next_down(f32(boundary))
            ops.append("poll " + hx(x))
            if rng.random() < 0.008:
                # a sample that is not a position at all (NaN, +inf, far above full scale): never in range, so it
                # ends the run like any lift (comparisons with NaN are false)
                ops.append("poll " + fhex(rng.choice([float("nan"), float("nan"), float("inf"), 2.0, 1e30, 3.4028235e38])))
            if rng.random() < 0.03:
                ops.append(rng.choice(["jp", "jr"]))
        # lift: one or more out-of-range samples
        for _ in range(rng.choice([1, 1, 1, 2, 5])):
            ops.append("poll " + hx(rng.choice([1.0, 0.99, f32(boundary), next_up(f32(boundary)), rng.uniform(boundary, 1.0)])))
            if rng.random() < 0.3:
                ops.append(rng.choice(["jp", "jr"]))
    ops += ["jp", "jr", "jp", "jr"]
    return Script(sid, ops, {"module": "ribbon", "family": "presses", "cap": cap})


def ribbon_extreme(rng, sid):
    """weak pull-up, samples at the very top of the range: the rounding of the sum matters"""
    cap = rng.choice([171, 817, 3265, 86])
    fs = RIBBON_RATES[cap]
    softpot, dropper, pullup = 20000.0, 820.0, rng.choice([1e12, 1e9, 1e8])
    boundary = f32(1.0 - f32(f32(dropper) / f32(dropper + softpot)))
    top = next_down(boundary)
    ops = ["ribbon.new %d %s %s %s %s" % (cap, hx(fs), hx(softpot), hx(dropper), hx(pullup))]
    for _ in range(cap + int(fs) // 1000 + 5):
        ops.append("poll " + hx(top))
    ops.append("poll " + hx(1.0))
    return Script(sid, ops, {"module": "ribbon", "family": "extreme", "cap": cap})


def ribbon_scripts(rng, n, big=False):
    res = [ribbon_script(rng, "rb-%d" % i, big=big) for i in range(n)]
    res.append(ribbon_extreme(rng, "rb-x0"))
    for fs in (100, 500, 1000, 2000, 10000, 44100, 48000, 96000, 192000, rng.randrange(100, 192001)):
        res.append(Script("rb-cap-%d" % fs, ["ribbon.cap %d" % fs], {"module": "ribbon", "family": "cap"}))
    return res


# ------------------------------------------------------------------------------------------ LFO
def rand_fs(rng):
    return rng.choice([100.0, 1000.0, 44100.0, 48000.0, 96000.0, 192000.0, 999.0, 512.0, rng.uniform(100, 192000)])


def lfo_script(rng, sid, n):
    fs = rand_fs(rng)
    ops = ["lfo.new " + hx(fs)]
    for _ in range(n):
        r = rng.random()
        if r < 0.08:
            f = rng.choice([0.0, fs, fs / 2, 1.0, 0.001, 1e-6, fs / 1024, fs / 16777216, rng.uniform(0, fs),
                            10 ** rng.uniform(-4, math.log10(fs))])
            if rng.random() < 0.12:
                # alias-high: more than one cycle per tick is allowed (the counter wraps); up to 250 fs the u32
                # addition cannot overflow (2^24 + 250 * 2^24 < 2^32)
                f = rng.choice([1.5 * fs, 2.0 * fs, 2.5 * fs, rng.uniform(fs, 250.0 * fs)])
                ops.append("freq " + hx(f))
            else:
                ops.append("freq " + hx(min(f, fs)))
        elif r < 0.14:
            p = rng.choice([0.0, 0.25, 0.5, 0.75, 0.999999, 1.0, 1.25, -0.25, -1.25, 123.456, -7.7, 1e-8, 16777216.5,
                            1e20, -1e20, rng.uniform(-3, 3), rng.uniform(0, 1),
                            from_bits(0x3f7fffff), -from_bits(0x3f7fffff), from_bits(0x3f7ffffe), 1.9999999, 3.9999998,
                            from_bits(0x3effffff), from_bits(0x3f000001), 5.960464477539063e-08,
                            -1e-9, -2.9e-8, -5.960464477539063e-08, -1e-20])
            ops.append("phase " + hx(p))
        elif r < 0.16:
            ops.append("reset")
        else:
            ops.append("tick")
    return Script(sid, ops, {"module": "lfo", "family": "history", "fs": fs})


def lfo_walk(rng, sid, start_phase, inc_freq_ratio, n):
    """slow walk (inc tiny) from a chosen phase: covers cell boundaries and the wrap"""
    fs = 48000.0
    ops = ["lfo.new " + hx(fs), "freq " + hx(fs * inc_freq_ratio), "phase " + hx(start_phase)]
    ops += ["tick"] * n
    return Script(sid, ops, {"module": "lfo", "family": "walk", "fs": fs})


def lfo_extreme(rng, sid):
    fs = rng.choice(SPECIAL_FLOATS + [100.0, 1000.0])
    ops = ["lfo.new " + fhex(fs)]
    for _ in range(30):
        r = rng.random()
        if r < 0.3:
            ops.append("freq " + fhex(rng.choice(SPECIAL_FLOATS)))
        elif r < 0.6:
            ops.append("phase " + fhex(rng.choice(SPECIAL_FLOATS)))
        else:
            ops.append("tick")
    return Script(sid, ops, {"module": "lfo", "family": "extreme"})


def lfo_phase_edges(sid):
    """set_phase at the representable values around every integer / half, read immediately"""
    ops = ["lfo.new " + hx(1000.0), "freq " + hx(1.0)]
    for b in (0x3f7fffff, 0x3f7ffffe, 0x3f800000, 0x3f800001, 0x3effffff, 0x3f000000, 0x3f000001, 0x3fffffff,
              0xbf7fffff, 0x33800000, 0x00000001, 0x407fffff, 0x4b7fffff, 0x4affffff,
              0xb089705f, 0xb2000000, 0xb3000000, 0x80000001, 0xa0000000):
        ops.append("phase %08x" % b)
        ops.append("tick")
    return Script(sid, ops, {"module": "lfo", "family": "phase-edges", "fs": 1000.0})


def lfo_inc(fs, f):
    """the phase increment the crate computes for frequency f at sample rate fs (f32 arithmetic, truncating cast)"""
    x = f32(f32(16777216.0 * f) / fs)
    if math.isnan(x):
        return 0
    return int(max(0.0, min(4294967295.0, x)))


def lfo_freq_boundaries(rng, sid):
    """boundary values of the frequency -> increment map: pairs of ADJACENT f32 frequencies whose increments
    differ, set one after the other with a few ticks in between (every change, however small, must take
    effect from the next tick), at low and at ordinary increments"""
    fs = rng.choice([100.0, 100.0, 1000.0, 48000.0, rand_fs(rng)])
    fs = f32(fs)
    ops = ["lfo.new " + hx(fs), "phase " + hx(f32(rng.uniform(0, 1)))]
    for _ in range(12):
        k = rng.choice([1, 2, 3, rng.randrange(1, 40), rng.randrange(1, 5000), rng.randrange(1, 1 << 22)])
        x = f32(k * fs / 16777216.0)
        # walk to the first float whose increment reaches k
        for _ in range(64):
            if lfo_inc(fs, x) >= k:
                break
            x = next_up(x)
        for _ in range(64):
            if lfo_inc(fs, next_down(x)) < k:
                break
            x = next_down(x)
        lo, hi = next_down(x), x
        if not (lfo_inc(fs, lo) < lfo_inc(fs, hi)) or hi > fs:
            continue
        seq = rng.choice([[hi, lo, hi], [lo, hi, lo], [hi, lo], [lo, hi]])
        for fr in seq:
            ops.append("freq " + hx(fr))
            ops += ["tick"] * rng.randrange(2, 5)
    return Script(sid, ops, {"module": "lfo", "family": "freq-boundaries", "fs": fs})


def lfo_scripts(rng, n_hist, n_walk, n_ext):
    res = [lfo_script(rng, "lfo-h%d" % i, rng.randrange(50, 600)) for i in range(n_hist)]
    res.append(lfo_phase_edges("lfo-edges"))
    for i in range(max(2, n_hist // 8)):
        res.append(lfo_freq_boundaries(rng, "lfo-fb%d" % i))
    for i in range(n_walk):
        k = rng.randrange(1024)
        start = rng.choice([1.0 - 40 / 16777216.0, k / 1024.0 - 30 / 16777216.0 + (1.0 if k == 0 else 0.0), 0.25 - 2e-6, 0.75 - 2e-6, 0.5 - 2e-6,
                            rng.uniform(0, 1)])
        res.append(lfo_walk(rng, "lfo-w%d" % i, start, rng.choice([1, 1, 2, 3, 7, 1000, 16384, 100000]) / 16777216.0, rng.randrange(60, 200)))
    for i in range(n_ext):
        res.append(lfo_extreme(rng, "lfo-x%d" % i))
    return res


# ------------------------------------------------------------------------------------------ ADSR
def rand_time(rng, fs):
    k = rng.random()
    if k < 0.5:
        # short enough to finish inside a script
        return rng.choice([0.001, 0.002, 0.005, 0.01, 0.02, 0.05, 20.0 / fs, 50.0 / fs, 1.0 / fs, 0.5 / fs, 3.3 / fs, 100.0 / fs])
    if k < 0.8:
        return 10 ** rng.uniform(-3, 1.3)
    return rng.choice([20.0, 0.001, 5.0, 1.0])


def adsr_script(rng, sid, n, legal=True):
    fs = rand_fs(rng)
    ops = ["adsr.new " + hx(fs)]
    for p in ("att", "dec", "rel"):
        if rng.random() < 0.9:
            ops.append("%s %s" % (p, hx(rand_time(rng, fs))))
    if rng.random() < 0.9:
        ops.append("sus " + hx(rng.choice([0.0, 1.0, 0.5, 1e-6, 0.999999, rng.random()])))
    i = 0
    while i < n:
        r = rng.random()
        if r < 0.06:
            ops.append("gon")
        elif r < 0.10:
            ops.append("goff")
        elif r < 0.13:
            p = rng.choice(["att", "dec", "rel"])
            x = rand_time(rng, fs) if legal or rng.random() < 0.5 else rng.choice(SPECIAL_FLOATS)
            ops.append("%s %s" % (p, fhex(x)))
        elif r < 0.15:
            x = rng.random() if legal or rng.random() < 0.5 else rng.choice(SPECIAL_FLOATS)
            ops.append("sus " + fhex(x))
        else:
            k = rng.choice([1, 1, 2, 5, 20, 60])
            ops += ["tick"] * k
            i += k
            continue
        i += 1
    return Script(sid, ops, {"module": "adsr", "family": "history" if legal else "extreme", "fs": fs})


def adsr_phase(rng, sid, fs, t, sus=0.5, extra=3):
    """a complete envelope with constant time t for all phases: gate on, run through attack and
    decay, sustain a little, gate off, run through release"""
    n = max(int(t * fs), 1)
    n_ticks = int(n / (1 - min(n, 8000000) / 16777216.0)) + 3
    ops = ["adsr.new " + hx(fs), "att " + hx(t), "dec " + hx(t), "rel " + hx(t), "sus " + hx(sus), "gon"]
    ops += ["tick"] * (2 * n_ticks + extra)
    ops.append("goff")
    ops += ["tick"] * (n_ticks + extra)
    return Script(sid, ops, {"module": "adsr", "family": "phase", "fs": fs, "t": t})


def adsr_slow(rng, sid):
    """a very slow phase (many ticks per table cell), positioned by running fast first"""
    fs = rng.choice([192000.0, 96000.0, 48000.0])
    ops = ["adsr.new " + hx(fs), "att " + hx(0.01), "dec " + hx(0.02), "rel " + hx(0.01), "sus " + hx(rng.choice([0.3, 0.0, 0.8])), "gon"]
    ops += ["tick"] * rng.randrange(1, int(0.01 * fs))
    ops.append("att " + hx(20.0))
    ops.append("dec " + hx(20.0))
    ops += ["tick"] * 300
    return Script(sid, ops, {"module": "adsr", "family": "slow", "fs": fs})


def adsr_sustain_change(rng, sid):
    """reach sustain quickly, change the sustain level while sustaining, tick, release"""
    fs = rng.choice([1000.0, 48000.0, 100.0, 44100.0])
    t = max(0.001, 3.0 / fs)
    ops = ["adsr.new " + hx(fs), "att " + hx(t), "dec " + hx(t), "rel " + hx(rng.choice([t, 0.01])),
           "sus " + hx(rng.choice([0.25, 0.5, 1.0, 0.0])), "gon"]
    ops += ["tick"] * (2 * int(t * fs) + 8)
    for _ in range(rng.randrange(1, 4)):
        ops.append("sus " + hx(rng.choice([0.0, 1.0, 0.75, 0.1, rng.random()])))
        ops += ["tick"] * rng.randrange(1, 4)
    ops.append("goff")
    ops += ["tick"] * (int(0.01 * fs) + 8)
    return Script(sid, ops, {"module": "adsr", "family": "sustain-change", "fs": fs})


def adsr_param_then_gate(rng, sid):
    """a parameter change IMMEDIATELY followed by a gate event (no tick in between), in every phase: the
    gate event must latch the level the output is at, not the one a setting says it will be at"""
    fs = rng.choice([1000.0, 48000.0, 100.0, 44100.0, 999.0])
    t = max(0.001, rng.choice([3.0, 20.0, 200.0]) / fs)
    n = max(1, int(t * fs))
    ops = ["adsr.new " + hx(fs), "att " + hx(t), "dec " + hx(t), "rel " + hx(t),
           "sus " + hx(rng.choice([0.25, 0.5, 0.8])), "gon"]
    where = rng.choice(["attack", "decay", "sustain", "release"])
    if where == "attack":
        ops += ["tick"] * rng.randrange(1, max(2, n))
    elif where == "decay":
        ops += ["tick"] * (n + 1 + rng.randrange(1, max(2, n)))
    else:
        ops += ["tick"] * (2 * n + 8)
        if where == "release":
            ops.append("goff")
            ops += ["tick"] * rng.randrange(1, max(2, n))
    for _ in range(rng.randrange(1, 3)):
        ops.append(rng.choice(["sus", "sus", "sus", "att", "dec", "rel"]) + " " +
                   hx(rng.choice([0.0, 1.0, 0.1, 0.2, 0.9, t, 2 * t, rng.random()])))
    ops.append("goff" if where != "release" else "gon")
    ops += ["tick"] * (2 * n + 10)
    ops.append("gon" if where != "release" else "goff")
    ops += ["tick"] * (3 * n + 10)
    return Script(sid, ops, {"module": "adsr", "family": "param-then-gate", "fs": fs})


def adsr_slowest(rng, sid):
    """the slowest phases the clamps allow, at the highest sample rates: the per-tick increment must
    stay positive or the envelope hangs"""
    fs = rng.choice([192000.0, 192000.0, 176400.0, 150000.0])
    big = rng.choice([1e9, 100.0, 25.0, float("inf"), 3.0e38])
    ops = ["adsr.new " + hx(fs), "att " + fhex(big), "dec " + fhex(big), "rel " + fhex(big), "sus " + hx(0.5), "gon"]
    ops += ["tick"] * 40
    ops.append("goff")
    ops += ["tick"] * 40
    return Script(sid, ops, {"module": "adsr", "family": "slowest", "fs": fs})


def adsr_special_params(rng, sid):
    """one parameter set to a special float (NaN, infinities, -0.0, subnormal ...), then a whole envelope"""
    fs = rng.choice([1000.0, 48000.0, 100.0])
    t = max(0.001, 4.0 / fs)
    ops = ["adsr.new " + hx(fs), "att " + hx(t), "dec " + hx(t), "rel " + hx(t), "sus " + hx(0.5)]
    which = rng.choice(["att", "dec", "rel", "sus", "sus"])
    x = rng.choice([float("nan"), float("nan"), float("inf"), float("-inf"), -0.0, 1e-45, -1.0, 3.0e38])
    ops.append("%s %s" % (which, fhex(x)))
    ops.append("gon")
    ops += ["tick"] * (3 * int(t * fs) + 12)
    ops.append("goff")
    ops += ["tick"] * (2 * int(t * fs) + 12)
    return Script(sid, ops, {"module": "adsr", "family": "special-params", "fs": fs})


def adsr_retrigger_cycle(rng, sid):
    """notes that re-trigger at a non-zero level, run down to rest, and start again from rest"""
    fs = rng.choice([1000.0, 1000.0, 44100.0, 100.0])
    t = max(0.002, rng.choice([20.0, 50.0, 100.0]) / fs)
    n = int(t * fs) + 3
    ops = ["adsr.new " + hx(fs), "att " + hx(t), "dec " + hx(t), "rel " + hx(t), "sus " + hx(rng.choice([0.5, 0.3, 0.8]))]
    for _ in range(rng.randrange(1, 3)):
        ops.append("gon")
        ops += ["tick"] * rng.choice([n // 2, n + n // 3, 2 * n + 5])
        if rng.random() < 0.7:
            ops.append("goff")
            ops += ["tick"] * rng.choice([n // 3, n // 2])
        ops.append("gon")              # re-trigger at a non-zero level
        ops += ["tick"] * rng.choice([n // 2, 2 * n + 5])
        ops.append("goff")
        ops += ["tick"] * (n + 5)      # all the way down to rest
    ops.append("gon")                  # a new note from rest
    ops += ["tick"] * (n // 2)
    return Script(sid, ops, {"module": "adsr", "family": "retrigger-cycle", "fs": fs})


def adsr_scripts(rng, n_hist, n_phase, n_ext):
    res = [adsr_script(rng, "adsr-h%d" % i, rng.randrange(100, 700)) for i in range(n_hist)]
    configs = [(1000.0, 0.1), (512.0, 2.0 ** -9), (999.0, 0.001), (100.0, 0.001), (1000.0, 0.001), (48000.0, 0.001),
               (100.0, 0.05), (44100.0, 0.002), (192000.0, 0.001)]
    for i in range(n_phase):
        if i < len(configs):
            fs, t = configs[i]
        else:
            fs = rand_fs(rng)
            t = rng.choice([rng.uniform(1, 400) / fs, 2.0 ** rng.randrange(-9, -2), rng.uniform(0.001, 0.01)])
            t = min(max(t, 0.001), 2000.0 / fs)
        res.append(adsr_phase(rng, "adsr-p%d" % i, fs, t, sus=rng.choice([0.5, 0.0, 1.0, rng.random()])))
    res.append(adsr_slow(rng, "adsr-slow0"))
    for i in range(max(n_hist // 5, 4)):
        res.append(adsr_sustain_change(rng, "adsr-sc%d" % i))
    for i in range(max(n_hist // 4, 6)):
        res.append(adsr_param_then_gate(rng, "adsr-pg%d" % i))
    for i in range(2):
        res.append(adsr_slowest(rng, "adsr-slowest%d" % i))
    for i in range(max(n_ext, 6)):
        res.append(adsr_special_params(rng, "adsr-sp%d" % i))
    for i in range(max(n_hist // 4, 5)):
        res.append(adsr_retrigger_cycle(rng, "adsr-rc%d" % i))
    for i in range(n_ext):
        res.append(adsr_script(rng, "adsr-x%d" % i, rng.randrange(50, 300), legal=False))
    return res


# ------------------------------------------------------------------------------------------ glide
def glide_script(rng, sid, n):
    fs = rng.choice([100.0, 1000.0, 1000.0, 8000.0, 44100.0, 48000.0, rng.uniform(100, 48000)])
    ops = ["glide.new " + hx(fs)]
    x = 0.0
    for _ in range(n):
        r = rng.random()
        if r < 0.10:
            t = rng.choice([0.0, 0.0, 1.0 / fs, 2.0 / fs, 1.9 / fs, 3.0 / fs, 4.0 / fs, 10.0 / fs, 0.003, 0.5, 0.05, 0.1, 0.149, 0.151, 10.0,
                            9.96, 1.0, rng.uniform(0, 10), rng.uniform(0, 0.2), rng.uniform(0, 20.0 / fs)])
            ops.append("time " + hx(t))
        else:
            if rng.random() < 0.15:
                x = rng.choice([0.0, 1.0, -1.0, 5.0, 0.5, rng.uniform(-10, 10)])
            k = rng.choice([1, 1, 3, 10, 40])
            ops += ["proc " + hx(x)] * k
    return Script(sid, ops, {"module": "glide", "family": "history", "fs": fs})


def glide_step(rng, sid, fs, t, lo=0.0, hi=1.0):
    n = int(math.ceil(t * fs))
    # a new processor starts with the fastest coefficients: settle on lo first, then select the time
    ops = ["glide.new " + hx(fs)]
    if t > 0.06 and rng.random() < 0.5:
        # "glide off" selected explicitly (same coefficients as a new processor, but through set_time); only when
        # the step time is outside the 0.05 s dead band around 0, otherwise the second call is rightly ignored
        ops.append("time " + hx(rng.choice([0.0, -0.0, 0.5 / fs])))
    ops += ["proc " + hx(lo)] * 12
    ops.append("time " + hx(t))
    ops += ["proc " + hx(hi)] * (min(3 * n, 60000) + 10)
    return Script(sid, ops, {"module": "glide", "family": "step", "fs": fs, "t": t, "lo": lo, "hi": hi})


def glide_switch(rng, sid):
    """switch to a very short time in the middle of a glide"""
    fs = rng.choice([1000.0, 44100.0, 100.0, 8000.0])
    ops = ["glide.new " + hx(fs), "time " + hx(rng.choice([0.5, 0.1, 1.0]))]
    ops += ["proc " + hx(0.0)]
    ops += ["proc " + hx(1.0)] * rng.randrange(3, 30)
    ops.append("time " + hx(rng.choice([0.0, 1.0 / fs, 2.0 / fs, 0.003, 3.0 / fs])))
    ops += ["proc " + hx(1.0)] * 40
    return Script(sid, ops, {"module": "glide", "family": "switch", "fs": fs})


def glide_extreme(rng, sid):
    fs = rng.choice(SPECIAL_FLOATS + [100.0, 1000.0, 0.3, 50.0])
    ops = ["glide.new " + fhex(fs)]
    for _ in range(20):
        if rng.random() < 0.4:
            ops.append("time " + fhex(rng.choice(SPECIAL_FLOATS)))
        else:
            ops.append("proc " + fhex(rng.choice(SPECIAL_FLOATS + [0.3, 0.7])))
    return Script(sid, ops, {"module": "glide", "family": "extreme"})


def glide_scripts(rng, n_hist, n_step, n_ext):
    res = [glide_script(rng, "gl-h%d" % i, rng.randrange(20, 120)) for i in range(n_hist)]
    steps = [(1000.0, 0.5), (44100.0, 0.01), (100.0, 1.0), (1000.0, 0.1), (8000.0, 0.05), (48000.0, 0.2)]
    for i in range(n_step):
        if i < len(steps):
            fs, t = steps[i]
        else:
            fs = rng.choice([100.0, 1000.0, 8000.0, 44100.0, 48000.0])
            t = rng.uniform(100.0 / fs, min(10.0, 20000.0 / fs))
        lo = rng.choice([0.0, 0.0, -1.0, 2.0])
        res.append(glide_step(rng, "gl-s%d" % i, fs, t, lo, lo + rng.choice([1.0, 1.0, -3.0, 0.25])))
    for i in range(max(n_hist // 3, 2)):
        res.append(glide_switch(rng, "gl-w%d" % i))
    for i in range(n_ext):
        res.append(glide_extreme(rng, "gl-x%d" % i))
    return res


# ------------------------------------------------------------------- shared primitives (utils, tables, phase accumulator)
PA_KINDS = [(24, 10), (24, 8), (16, 4), (10, 10), (30, 12), (8, 1), (12, 12), (20, 10)]


def rand_f32(rng):
    """a float for the primitives: specials, table-like values in [-1, 1], wide log-uniform, raw bit patterns"""
    r = rng.random()
    if r < 0.15:
        return rng.choice(SPECIAL_FLOATS)
    if r < 0.55:
        return f32(rng.uniform(-1.0, 1.0))
    if r < 0.8:
        return f32(rng.choice([-1, 1]) * 10 ** rng.uniform(-12, 12))
    return from_bits(rng.getrandbits(32))


def prim_script(rng, sid, n, tables=("sine", "attack", "decay")):
    """direct calls of linear_interp / ilog_2 / is_almost / fabs and reads of the lookup tables as compiled"""
    ops = ["prim.new"]
    for t in tables:
        ops.append("tabhash " + t)
    for _ in range(n):
        r = rng.random()
        if r < 0.4:
            if rng.random() < 0.6:
                # the way the crate uses it: two neighbouring values and a fraction in [0, 1)
                y0 = f32(rng.uniform(-1, 1))
                y1 = f32(y0 + rng.uniform(-0.01, 0.01))
                fr = rng.randrange(16384) / 16384.0
                ops.append("interp %s %s %s" % (fhex(y0), fhex(y1), fhex(fr)))
            else:
                ops.append("interp %s %s %s" % (fhex(rand_f32(rng)), fhex(rand_f32(rng)), fhex(rand_f32(rng))))
        elif r < 0.55:
            k = rng.randrange(64)
            x = rng.choice([0, 1, 2, 3, (1 << k), (1 << k) - 1, (1 << k) + 1, rng.getrandbits(rng.randrange(1, 65)),
                            (1 << 64) - 1, 1024, 1023, 1025])
            ops.append("ilog2 %x" % (x & ((1 << 64) - 1)))
        elif r < 0.75:
            if rng.random() < 0.6:
                # around the glide dead band: |v1 - v2| near eps
                v2 = f32(rng.choice([-1.0, 0.0, 0.5, 2.0, 5.0, rng.uniform(0, 10)]))
                eps = f32(rng.choice([0.05, 0.05, 0.001, rng.uniform(0, 0.1)]))
                d = rng.choice([eps, -eps, next_up(eps), next_down(eps), eps * 0.999, eps * 1.001, -eps * 1.001,
                                rng.uniform(-2 * eps, 2 * eps), rng.uniform(-3, 3)])
                ops.append("almost %s %s %s" % (fhex(f32(v2 + d)), fhex(v2), fhex(eps)))
            else:
                ops.append("almost %s %s %s" % (fhex(rand_f32(rng)), fhex(rand_f32(rng)), fhex(rand_f32(rng))))
        elif r < 0.85:
            ops.append("fabs " + fhex(rand_f32(rng)))
        else:
            ops.append("tab %s %d" % (rng.choice(tables), rng.choice([0, 1, 511, 512, 1022, 1023, rng.randrange(1024)])))
    return Script(sid, ops, {"module": "prim", "family": "prim"})


def prim_tables(sid, tables=("sine", "attack", "decay")):
    """every entry of the lookup tables, as the compiler read them, against the translated tables of the model"""
    ops = ["prim.new"]
    for t in tables:
        ops.append("tabhash " + t)
        ops += ["tab %s %d" % (t, i) for i in range(1024)]
    return Script(sid, ops, {"module": "prim", "family": "tables"})


def pa_script(rng, sid, n, kind=None, extreme=False):
    """the phase accumulator on its own, for several <TOTAL_NUM_BITS, NUM_INDEX_BITS> instantiations"""
    tot, idx = kind or rng.choice(PA_KINDS)
    fs = rng.choice(SPECIAL_FLOATS) if (extreme and rng.random() < 0.3) else rand_fs(rng)
    ops = ["pa.new %d %d %s" % (tot, idx, fhex(fs))]
    for _ in range(n):
        r = rng.random()
        if r < 0.08:
            if extreme:
                f = rng.choice(SPECIAL_FLOATS)
            else:
                f = rng.choice([0.0, fs, fs / 2, 1.0, 0.001, fs / (1 << idx), fs / (1 << tot), 3 * fs / (1 << tot),
                                rng.uniform(0, fs), 10 ** rng.uniform(-4, math.log10(fs)), 1.5 * fs, 3 * fs])
            ops.append("freq " + fhex(f32(f)))
        elif r < 0.14:
            if extreme:
                t = rng.choice(SPECIAL_FLOATS)
            else:
                t = rng.choice([1e-3, 20.0, 1.0, 1 / fs, 2 / fs, 0.5 / fs, rng.uniform(1e-3, 20), 10 ** rng.uniform(-4, 2)])
            ops.append("period " + fhex(f32(t)))
        elif r < 0.2:
            if extreme:
                ph = rng.choice(SPECIAL_FLOATS)
            else:
                ph = rng.choice([0.0, 0.25, 0.5, 0.75, 0.999999, 1.0, 1.25, -0.25, 123.456, -7.7, 1e-8, rng.uniform(-3, 3),
                                 rng.uniform(0, 1), from_bits(0x3f7fffff), from_bits(0x3f7ffffe), -1e-9, 1e20])
            ops.append("phase " + fhex(f32(ph)))
        elif r < 0.23:
            ops.append("reset")
        elif r < 0.33:
            ops.append("roll")
        else:
            ops.append("tick")
    return Script(sid, ops, {"module": "pa", "family": "pa-extreme" if extreme else "pa", "fs": fs})


def prim_scripts(rng, n_prim, n_pa, tables=("sine", "attack", "decay"), kinds=None, full_tables=True):
    res = []
    if full_tables:
        res.append(prim_tables("prim-tables", tables))
    for i in range(n_prim):
        res.append(prim_script(rng, "prim-%d" % i, rng.randrange(40, 200), tables))
    for i in range(n_pa):
        res.append(pa_script(rng, "pa-%d" % i, rng.randrange(40, 400), kind=rng.choice(kinds) if kinds else None,
                             extreme=(i % 5 == 4)))
    return res


def consts_script(sid, modules, glide_rates=(100.0, 1000.0, 44100.0, 48000.0)):
    """the constants of the given modules AS COMPILED (verif_consts hooks) against the constants the model was
    generated with: a changed value that the translator could not locate in the source text (renamed, moved,
    written as an expression it cannot evaluate) shows here as a correspondence failure"""
    ops = ["prim.new"]
    for m in modules:
        if m == "glide":
            ops += ["consts glide " + hx(fs) for fs in glide_rates]
        else:
            ops.append("consts " + m)
    return Script(sid, ops, {"module": "prim", "family": "consts"})


def conv_script(rng, sid, n=120):
    """the public conversions of the clamping newtypes: f32::from(TimePeriod::from(x)), f32::from(SustainLevel::from(x)),
    u8::from(Note::from(n)) / Note::new(n), on specials, the range end points and their neighbours, random values"""
    ops = ["prim.new"]
    edges = [0.001, 20.0, 0.0, 1.0]
    vals = list(SPECIAL_FLOATS)
    for e in edges:
        vals += [f32(e), next_up(f32(e)), next_down(f32(e))]
    for v in vals:
        ops.append("tp " + fhex(v))
        ops.append("sl " + fhex(v))
    for _ in range(n):
        v = rand_f32(rng)
        ops.append(rng.choice(["tp ", "sl "]) + fhex(v))
    ops += ["note %d" % k for k in range(256)]
    return Script(sid, ops, {"module": "prim", "family": "conversions"})

