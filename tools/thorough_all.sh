#!/bin/sh
# run inside a vp run snapshot: full thorough pass against the repo snapshot
export VERIF_REPO=$VP_RUN_REPO
./setup.sh > setup.log 2>&1 || { echo "setup failed"; tail -20 setup.log; exit 1; }
for p in C04 C05 C06 C18 C07 C08 C09 C19 C20 C15 C16 C17 C11 C12 C10 C02 C03 C01 C13 C14; do
  s=$(date +%s)
  r=$(VERIF_SEED=${THOROUGH_SEED:-1} ./check $p --tier thorough 2>&1 | grep -E "^(OK|VIOLATION|broken|check could)" | tail -2 | tr '\n' ' ')
  echo "$p: $r ($(( $(date +%s) - s )) s)"
done
