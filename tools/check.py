#!/usr/bin/env python3
"""./check <Cxx> [--tier quick|thorough] [--replay path]

Decides one property on /repo's current working tree:
  1. regenerate coq/gen/{Consts,Tables}.v from the Rust source        (translator)
  2. full .vo build of Props/<Cxx>.v and its cone, axiom allow-list    (the proof)
  3. rebuild the harness against /repo, re-extract the model           (the tie)
  4. correspondence: same seeded scripts through implementation and extracted model,
     compared on the observables the property talks about
  5. property monitors over the implementation traces
  6. evidence/<Cxx>.json; exit 0, or `VIOLATION property=<id> replay=<path>` and exit 1
A broken proof / correspondence / generation is not by itself reported as a violation of
the code: the violation search (monitors over corpus, directed and random scripts, with
ddmin shrinking) looks for a concrete failing input first; if none is found the violation
is still reported, the replay file names what no longer checks, and the line ends with
`no-failing-input-found`.
"""
import argparse
import json
import os
import random
import re
import sys
import time

sys.path.insert(0, os.path.dirname(os.path.abspath(__file__)))
import common as C
import gen_scripts as G
import monitors as M

# ------------------------------------------------------------------------------------------- config
MODULE_OF_OP = {"adsr.new": "adsr", "lfo.new": "lfo", "quant.new": "quant", "midi.new": "midi", "glide.new": "glide",
                "ribbon.new": "ribbon", "ribbon.cap": "ribbon", "prim.new": "prim", "pa.new": "pa"}
# scripts over the crate-private building blocks (utils, lookup tables, the phase accumulator on its own, reached
# through the verif_hooks re-export): correspondence only, the property monitors are about the public types
PRIM_MODULES = ("prim", "pa")


def script_module(s):
    return MODULE_OF_OP.get(s.ops[0].split()[0], "?")


def proj(pid, module, op, line):
    """the observables of `line` that property `pid` talks about"""
    if line in ("PANIC", "NOOBJ", "TIMEOUT", "<missing>") or line.startswith("BADOP") or line.startswith("UNSUPPORTED"):
        return line
    t = line.split()
    if module == "midi":
        idx = {"C04": [0, 1, 10], "C05": [10], "C06": list(range(11)), "C18": [2, 3, 4, 5, 6, 7, 8, 9],
               "C17": [], "C20": list(range(11))}[pid]
        r = [t[k] for k in idx]
        if pid in ("C05", "C06", "C20") and len(t) > 11:
            r.append(t[11])
        return " ".join(r)
    if module == "adsr":
        if pid == "C02":
            return " ".join(t[:2])
        if pid == "C17":
            return t[0]
        return line
    if module == "lfo":
        if pid == "C11":
            return t[0]
        if pid == "C12":
            return " ".join([t[0], t[1], t[2]])
        if pid == "C17":
            return ""
        return line
    if module == "quant":
        if t[0] == "m":
            return line if pid in ("C07", "C20", "C09") else ""
        if pid == "C07":
            return " ".join([t[1], t[4]])
        if pid == "C08":
            return t[1]
        if pid == "C09":
            return " ".join(t[1:3])
        if pid == "C17":
            return ""
        return " ".join(t[1:4])
    if module == "glide":
        if pid == "C17":
            return ""
        return line
    if module == "ribbon":
        if pid == "C15":
            return " ".join([t[0]] + t[2:])
        if pid == "C16":
            return " ".join(t[:2])
        if pid == "C17":
            return ""
        return line
    return line


CONST_MODULES = {"C01": ["adsr"], "C02": ["adsr"], "C03": ["adsr"], "C04": ["midi"], "C05": ["midi"], "C06": ["midi"],
                 "C07": ["quant"], "C08": ["quant"], "C09": ["quant"], "C10": ["lfo"], "C11": ["lfo"], "C12": ["lfo"],
                 "C13": ["glide"], "C14": ["glide"], "C15": ["ribbon"], "C16": ["ribbon"],
                 "C17": ["adsr", "lfo", "quant", "midi", "ribbon", "glide"], "C18": ["midi"], "C19": ["quant"],
                 "C20": ["adsr", "quant", "midi"]}


def scripts_for(pid, rng, tier):
    """the generated scripts of a property, plus the compiled-constants script of its module(s)"""
    res = scripts_for_module(pid, rng, tier)
    res.append(G.consts_script("prim-consts", CONST_MODULES[pid]))
    if pid in ("C20", "C01", "C07"):
        res.append(G.conv_script(rng, "prim-conv", 120 if tier == "quick" else 2000))
    return res


def scripts_for_module(pid, rng, tier):
    k = 1 if tier == "quick" else 12
    if pid in ("C01", "C03"):
        return G.adsr_scripts(rng, 25 * k, 14 * k, 8 * k) + \
            G.prim_scripts(rng, 6 * k, 6 * k, tables=("attack", "decay"), kinds=[(24, 10)])
    if pid == "C02":
        return G.adsr_scripts(rng, 20 * k, 24 * k, 4 * k) + \
            G.prim_scripts(rng, 0, 12 * k, kinds=[(24, 10), (24, 8), (20, 10)], full_tables=False)
    if pid in ("C04", "C05"):
        return G.midi_scripts(rng, 250 * k, 40 * k)
    if pid == "C06":
        return G.midi_scripts(rng, 200 * k, 120 * k)
    if pid == "C18":
        return G.midi_scripts(rng, 80 * k, 20 * k, cc=True)
    if pid in ("C07", "C09", "C19"):
        return G.quant_scripts(rng, 150 * k, 10 * k, 40 * k)
    if pid == "C08":
        return G.quant_scripts(rng, 20 * k, 120 * k, 5 * k)
    if pid in ("C10", "C12"):
        return G.lfo_scripts(rng, 40 * k, 60 * k, 10 * k) + \
            G.prim_scripts(rng, 6 * k, 8 * k, tables=("sine",), kinds=[(24, 10)])
    if pid == "C11":
        return G.lfo_scripts(rng, 40 * k, 60 * k, 10 * k) + G.prim_scripts(rng, 0, 16 * k, full_tables=False)
    if pid in ("C13", "C14"):
        return G.glide_scripts(rng, 60 * k, 14 * k, 10 * k) + G.prim_scripts(rng, 8 * k, 0, full_tables=False)
    if pid in ("C15", "C16"):
        return G.ribbon_scripts(rng, 60 * k, big=(tier != "quick"))
    if pid == "C17":
        res = []
        res += G.adsr_scripts(rng, 8 * k, 10 * k, 8 * k)
        res += G.lfo_scripts(rng, 10 * k, 10 * k, 0)
        res += G.quant_scripts(rng, 30 * k, 3 * k, 5 * k)
        res += G.midi_scripts(rng, 30 * k, 60 * k)
        res += [s for s in G.glide_scripts(rng, 20 * k, 6, 0)]
        res += G.ribbon_scripts(rng, 15 * k, big=(tier != "quick"))
        return res
    if pid == "C20":
        return twin_scripts(rng, 40 * k)
    raise SystemExit("unknown property " + pid)


def twin_scripts(rng, n):
    """pairs of scripts: one configured with an out-of-range value, its twin with the bound"""
    res = []
    for i in range(n):
        base = G.adsr_script(rng, "tw-a%d" % i, rng.randrange(40, 200))
        ops_a, ops_b = [], []
        for op in base.ops:
            t = op.split()
            if t[0] in ("att", "dec", "rel") and rng.random() < 0.7:
                x = rng.choice([0.0, -1.0, 1e-9, 0.00099, 21.0, 1e9, float("inf"), float("-inf"), float("nan"), 20.000002, 5e-4])
                bound = M.clamp32(x, M.MIN_T, 20.0)
                ops_a.append("%s %s" % (t[0], G.fhex(x)))
                ops_b.append("%s %s" % (t[0], G.fhex(bound)))
            elif t[0] == "sus" and rng.random() < 0.7:
                x = rng.choice([-0.5, 1.5, -1e-9, 1.0000001, float("inf"), float("-inf"), float("nan"), 7.0])
                bound = M.clamp32(x, 0.0, 1.0)
                ops_a.append("sus " + G.fhex(x))
                ops_b.append("sus " + G.fhex(bound))
            else:
                ops_a.append(op)
                ops_b.append(op)
        res.append(C.Script("tw-a%d-x" % i, ops_a, {"module": "adsr", "family": "twin", "twin": "tw-a%d-b" % i}))
        res.append(C.Script("tw-a%d-b" % i, ops_b, {"module": "adsr", "family": "twin-b"}))
    for i in range(n):
        base = G.quant_history(rng, "tw-q%d" % i, rng.randrange(10, 40))
        ops_a, ops_b = [], []
        for op in base.ops:
            t = op.split()
            if t[0] in ("allow", "forbid") and len(t) > 1 and t[1] != "-":
                ns = [int(x) for x in t[1].split(",")]
                ns = [rng.choice([12, 13, 100, 255, 11]) if rng.random() < 0.3 else x for x in ns]
                ops_a.append("%s %s" % (t[0], ",".join(str(x) for x in ns)))
                ops_b.append("%s %s" % (t[0], ",".join(str(min(x, 11)) for x in ns)))
            else:
                ops_a.append(op)
                ops_b.append(op)
        res.append(C.Script("tw-q%d-x" % i, ops_a, {"module": "quant", "family": "twin", "twin": "tw-q%d-b" % i}))
        res.append(C.Script("tw-q%d-b" % i, ops_b, {"module": "quant", "family": "twin-b"}))
    for i in range(n // 2):
        base = G.midi_structured(rng, "tw-m%d" % i, rng.randrange(20, 80))
        big = rng.choice([16, 17, 100, 255])
        ops_a = ["midi.new %d" % big] + base.ops[1:]
        ops_b = ["midi.new 15"] + base.ops[1:]
        res.append(C.Script("tw-m%d-x" % i, ops_a, {"module": "midi", "family": "twin", "twin": "tw-m%d-b" % i}))
        res.append(C.Script("tw-m%d-b" % i, ops_b, {"module": "midi", "family": "twin-b"}))
    # plain clamp probes: the converted value is observable through the envelope's behaviour
    return res


INTERVAL_PROPS = {"C01", "C10", "C13", "C14"}


# ------------------------------------------------------------------------------------------- running
def run_both(scripts, profile="debug"):
    t = int(os.environ.get("VERIF_RUN_TIMEOUT", "3600"))
    return C.run_sharded("impl", profile, scripts, timeout=t), C.run_sharded("model", profile, scripts, timeout=t)


def run_impl(scripts, profile="debug"):
    return C.run_sharded("impl", profile, scripts, timeout=int(os.environ.get("VERIF_RUN_TIMEOUT", "3600")))


def compare(pid, scripts, impl, model):
    """returns list of (script, op_index, impl_proj, model_proj)"""
    diffs = []
    for s in scripts:
        mod = script_module(s)
        a = impl.get(s.sid, [])
        b = model.get(s.sid, [])
        n = max(len(a), len(b))
        for i in range(n):
            la = a[i] if i < len(a) else "<missing>"
            lb = b[i] if i < len(b) else "<missing>"
            op = s.ops[i] if i < len(s.ops) else ""
            if la.startswith("UNSUPPORTED") and lb.startswith("UNSUPPORTED"):
                break
            pa, pb = proj(pid, mod, op, la), proj(pid, mod, op, lb)
            if pid == "C17":
                pa = "PANIC" if la == "PANIC" else ("" if la != "<missing>" else la)
                pb = "PANIC" if lb == "PANIC" else ("" if lb != "<missing>" else lb)
            if pa != pb:
                diffs.append((s, i, pa, pb))
                break
    return diffs


def monitor_all(pid, scripts, impl):
    fails = []
    for s in scripts:
        if script_module(s) in PRIM_MODULES and not (pid == "C20" and s.meta.get("family") == "conversions"):
            continue
        outs = impl.get(s.sid, [])
        for mon in M.MONITORS[pid]:
            for (i, msg) in mon(s, outs):
                fails.append((s, i, msg))
                break
    if pid == "C20":
        by = {s.sid: s for s in scripts}
        for s in scripts:
            tw = s.meta.get("twin")
            if tw:
                a, b = impl.get(s.sid, []), impl.get(tw, [])
                for i in range(max(len(a), len(b))):
                    la = a[i] if i < len(a) else "<missing>"
                    lb = b[i] if i < len(b) else "<missing>"
                    if la != lb:
                        fails.append((s, i, "configured with an out-of-range value the behaviour differs from the bound's: `%s` gives %s, with the bound %s"
                                      % (s.ops[i] if i < len(s.ops) else "?", la, lb)))
                        break
    return fails


def lfo_exhaustive_sweep():
    """thorough tier, C10/C11/C12: every one of the 2^24 phase counter values (increment 1, so every
    adjacent pair including the wrap) through implementation and extracted model; the per-tick
    output lines (counter + five waveforms) are folded into a hash on both sides and compared.
    16 shards of 2^20 + 64 ticks starting at k/16 of a cycle, run in parallel."""
    import concurrent.futures
    shards = []
    for k in range(16):
        ops = ["lfo.new 4b800000", "freq 3f800000", "phase " + C.hx(k / 16.0), "tickhash %d" % (1048576 + 64)]
        shards.append(C.Script("sweep-%d" % k, ops, {"module": "lfo", "family": "exhaustive-sweep"}))

    def one(side_script):
        side, sc = side_script
        rc, out = C.run_side(side, "release", sc.text(), timeout=int(os.environ.get("VERIF_SWEEP_TIMEOUT", "9000")))
        if rc == 124 and side == "model":
            raise C.ModelTimeout("the extracted model did not finish the exhaustive sweep shard %s within its time limit (VERIF_SWEEP_TIMEOUT)" % sc.sid)
        return side, sc.sid, [l for l in out if l.startswith("h=")]
    jobs = [("impl", sc) for sc in shards] + [("model", sc) for sc in shards]
    res = {}
    with concurrent.futures.ThreadPoolExecutor(max_workers=16) as ex:
        for side, sid, lines in ex.map(one, jobs):
            res[(side, sid)] = lines
    bad = []
    for sc in shards:
        a, b = res.get(("impl", sc.sid)), res.get(("model", sc.sid))
        if not a or a != b:
            bad.append("%s: impl %s model %s" % (sc.sid, a, b))
    return bad, 16 * (1048576 + 64)


def c09_differential(scripts, impl):
    """'history-free outside the window': every conversion that did not keep the previous note
    must equal the conversion of the same input by a fresh quantizer with the same scale"""
    probes = []
    for s in scripts:
        if script_module(s) != "quant":
            continue
        outs = impl.get(s.sid, [])
        for i, kind, d in M.quant_walk(s, outs):
            if kind == "conv" and not d["kept"]:
                forb = [str(n) for n in range(12) if not (d["mask"] >> n) & 1]
                ops = ["quant.new"] + (["forbid " + ",".join(forb)] if forb else []) + [s.ops[i]]
                probes.append((C.Script("%s#%d" % (s.sid, i), ops, {"module": "quant"}), s, i, outs[i]))
    if len(probes) > 4000:
        # an even sample over the whole list (script order = family order), not its first 4000
        step = len(probes) / 4000.0
        probes = [probes[int(k * step)] for k in range(4000)]
    res = run_impl([p[0] for p in probes])
    fails = []
    for (ps, s, i, line) in probes:
        o = res.get(ps.sid, [])
        if not o:
            continue
        fresh = o[-1].split()
        got = line.split()
        if fresh[1:4] != got[1:4]:
            fails.append((s, i, "outside the hysteresis window the result (%s) differs from what a quantizer without history reports (%s) for `%s` in scale %s"
                          % (" ".join(got[1:4]), " ".join(fresh[1:4]), s.ops[i], got[4])))
    return fails, len(probes)


# ------------------------------------------------------------------------------------------- shrinking
def shrink(script, still_fails, max_rounds=12):
    """ddmin over the operations after the constructor"""
    head, ops = script.ops[0], script.ops[1:]
    n = 2
    rounds = 0
    while len(ops) >= 2 and rounds < 400:
        rounds += 1
        chunk = max(len(ops) // n, 1)
        reduced = False
        for start in range(0, len(ops), chunk):
            cand = ops[:start] + ops[start + chunk:]
            if cand and still_fails(C.Script(script.sid, [head] + cand, script.meta)):
                ops = cand
                n = max(n - 1, 2)
                reduced = True
                break
        if not reduced:
            if chunk == 1:
                break
            n = min(n * 2, len(ops))
    return C.Script(script.sid, [head] + ops, script.meta)


def load_corpus(pid):
    res = []
    cdir = os.path.join(C.VERIF, "corpus")
    if not os.path.isdir(cdir):
        return res
    for root, _d, files in os.walk(cdir):
        for fn in sorted(files):
            if not fn.endswith(".script"):
                continue
            with open(os.path.join(root, fn)) as fh:
                lines = [l.rstrip("\n") for l in fh]
            meta = {}
            ops = []
            props = None
            for l in lines:
                if l.startswith("# properties:"):
                    props = l.split(":", 1)[1].split()
                elif l.startswith("# meta:"):
                    meta = json.loads(l.split(":", 1)[1])
                elif l.strip() and not l.startswith("#"):
                    ops.append(l.strip())
            if props is None or pid in props:
                meta.setdefault("module", MODULE_OF_OP.get(ops[0].split()[0], "?"))
                meta.setdefault("family", "corpus")
                res.append(C.Script("corpus-" + fn[:-7], ops, meta))
    return res


def load_known():
    p = os.path.join(C.VERIF, "known_findings.json")
    if not os.path.exists(p):
        return []
    with open(p) as fh:
        return json.load(fh).get("findings", [])


def write_replay(pid, seed, kind, script, detail):
    rdir = os.path.join(C.VERIF, "replays")
    os.makedirs(rdir, exist_ok=True)
    k = 0
    while True:
        path = os.path.join(rdir, "%s-%s-%d.json" % (pid, seed, k))
        if not os.path.exists(path):
            break
        k += 1
    rec = {"property": pid, "kind": kind, "seed": seed,
           "script": script.ops if script else None,
           "script_meta": script.meta if script else None,
           "detail": detail,
           "how_to_replay": "./check %s --replay %s" % (pid, os.path.relpath(path, C.VERIF))}
    with open(path, "w") as fh:
        json.dump(rec, fh, indent=1)
    return os.path.relpath(path, C.VERIF)


# ------------------------------------------------------------------------------------------- main
def main():
    ap = argparse.ArgumentParser()
    ap.add_argument("pid")
    ap.add_argument("--tier", default=os.environ.get("VERIF_TIER", "quick"))
    ap.add_argument("--replay")
    ap.add_argument("--skip-proof", action="store_true", help="(development only) skip the Coq build")
    args = ap.parse_args()
    pid = args.pid
    tier = "thorough" if args.tier == "thorough" else "quick"
    seed = int(os.environ.get("VERIF_SEED", "1") or "1")
    t0 = time.time()
    os.chdir(C.VERIF)

    if args.replay:
        return replay(pid, args.replay)

    notes = []
    broken = []          # what no longer checks (proof / correspondence / generation)

    lock = C.build_lock()
    lock.__enter__()
    try:
        # 1. translator
        gen_ok, gen_msg = C.gen_consts()
        if not gen_ok:
            broken.append("generation: " + gen_msg)
        elif "WARNING" in gen_msg:
            notes.append(gen_msg)

        # 2. proof
        proof = {"ok": True, "n_theorems": 0, "n_discharged": 0, "axioms": [], "problems": []}
        if not args.skip_proof:
            if gen_ok:
                proof = C.compile_props(pid, interval_ok=(pid in INTERVAL_PROPS))
            else:
                proof = {"ok": False, "n_theorems": 0, "n_discharged": 0, "axioms": [], "problems": ["constants could not be generated"]}
            if proof["ok"] and tier == "thorough":
                # independent re-check of the compiled theorems and everything they depend on
                rc, out = C.run(["coqchk", "-o", "-silent", "-Q", C.COQ, "SU"] + ["SU.Props." + os.path.basename(pf)[:-2] for pf in C.props_files(pid)], cwd=C.COQ,
                                timeout=int(os.environ.get("VERIF_COQCHK_TIMEOUT", "600")))
                C.log("coqchk_%s.log" % pid, out)
                bad = []
                if rc == 124:
                    # coqchk re-checks the vm_compute sweeps with its own (much slower) reduction; running out
                    # of time is recorded, it is not a failed check of the theorems (coqc accepted them)
                    notes.append("coqchk did not finish within its time limit (large computational proofs); "
                                 "the .vo files were accepted by coqc")
                    proof["coqchk_axioms"] = "coqchk timed out"
                else:
                    if rc != 0:
                        bad.append("coqchk exit %d" % rc)
                    for what in ("relying on type-in-type", "relying on unsafe (co)fixpoints", "whose positivity is assumed"):
                        m = re.search(re.escape(what) + r":\s*(\S+)", out)
                        if not m or m.group(1) != "<none>":
                            bad.append("coqchk: %s is not <none>" % what)
                    ax = re.search(r"\* Axioms:(.*?)\n\s*\n\* ", out, re.S)
                    chk_axioms = [l.strip() for l in ax.group(1).split("\n") if l.strip()] if ax else []
                    for a_ in chk_axioms:
                        tail = ".".join(a_.split(".")[-2:])
                        if tail in C.ALLOWED_AXIOMS:
                            continue
                        if pid in INTERVAL_PROPS and re.search(r"(PrimInt63|PrimFloat|FloatAxioms|Uint63|Sint63|Int63|Floats|Numbers)", a_):
                            continue
                        bad.append("coqchk: axiom outside the allow-list: " + a_)
                    proof["coqchk_axioms"] = chk_axioms
                if bad:
                    proof["ok"] = False
                    proof["problems"] += bad
            forb = C.forbidden_tokens()
            if forb:
                proof["ok"] = False
                proof["problems"].append("forbidden vernacular: " + "; ".join(forb[:5]))
            if not proof["ok"]:
                broken.append("proof: theorems of Props/%s.v no longer check (%s)" % (pid, "; ".join(proof["problems"])))

        # 3. builds
        ok, out = C.build_harness()
        if not ok:
            print(out[-3000:])
            print("ERROR: the harness does not build against /repo")
            broken.append("harness build failed: " + out[-400:])
        drv_ok, out = C.build_driver()
        if not drv_ok:
            broken.append("model extraction/driver build failed: " + out[-400:])

    finally:
        lock.__exit__()

    # 4./5. scripts, correspondence, monitors
    rng = random.Random(seed * 1000003 + int(pid[1:]))
    scripts = load_corpus(pid)
    n_corpus = len(scripts)
    scripts += scripts_for(pid, rng, tier)
    # outputs are matched to scripts by id: a duplicate id would silently drop a script from the comparison
    _seen = set()
    for _s in scripts:
        if _s.sid in _seen:
            raise SystemExit("internal error: duplicate script id %s" % _s.sid)
        _seen.add(_s.sid)
    impl = {}
    model = {}
    diffs = []
    fails = []
    n_probes = 0
    if ok:
        if drv_ok:
            impl, model = run_both(scripts, "debug")
            diffs = compare(pid, scripts, impl, model)
            if pid == "C17":
                # release build: same scripts must not misbehave either (no debug-only guards there)
                rel_scripts = [s for s in scripts
                               if not (s.meta.get("family") == "extreme" and script_module(s) in ("lfo", "glide"))]
                impl_rel = run_impl(rel_scripts, "release")
                for s in rel_scripts:
                    o = impl_rel.get(s.sid)
                    if o is None:
                        fails.append((s, 0, "no output at all from the release build (crash?)"))
                    elif "PANIC" in o:
                        if M.mon_C17(s, o):
                            fails.append((s, o.index("PANIC"), "panic in the release build in `%s`" % s.ops[o.index("PANIC")]))
                    elif len(o) < len(s.ops) or "TIMEOUT" in o:
                        k = min(len(o), len(s.ops) - 1)
                        fails.append((s, k, "the release build did not return from `%s` (hang or abort)" % s.ops[k]))
        else:
            impl = run_impl(scripts, "debug")
        fails += monitor_all(pid, scripts, impl)
        if pid == "C09":
            f2, n_probes = c09_differential(scripts, impl)
            fails += f2
        if pid in ("C10", "C11", "C12") and tier == "thorough" and drv_ok:
            sweep_bad, sweep_n = lfo_exhaustive_sweep()
            notes.append("exhaustive LFO sweep: %d ticks over all 2^24 phase counter values, %d shard mismatches" % (sweep_n, len(sweep_bad)))
            if sweep_bad:
                broken.append("correspondence(%s): exhaustive phase sweep differs: %s" % (pid, "; ".join(sweep_bad[:3])))
    if diffs:
        s, i, pa, pb = diffs[0]
        broken.append("correspondence(%s): implementation and model disagree on %d of %d scripts, first: script %s op %d `%s`: impl `%s` model `%s`"
                      % (pid, len(diffs), len(scripts), s.sid, i, s.ops[i] if i < len(s.ops) else "?", pa, pb))

    # violation search when something broke and the monitors have not found anything yet
    searched = 0
    if broken and not fails and ok:
        deadline = time.time() + (60 if tier == "quick" else 1200)
        # start from the disagreeing scripts themselves, then fresh random ones
        k = 0
        while time.time() < deadline and not fails:
            k += 1
            rng2 = random.Random(seed * 7919 + k * 104729 + int(pid[1:]))
            extra = scripts_for(pid, rng2, "quick")
            for s in extra:
                s.sid = "x%d-%s" % (k, s.sid)
                if s.meta.get("twin"):
                    s.meta["twin"] = "x%d-%s" % (k, s.meta["twin"])
            impl2 = run_impl(extra, "debug")
            searched += len(extra)
            fails = monitor_all(pid, extra, impl2)
            if pid == "C09" and not fails:
                fails, _n = c09_differential(extra, impl2)

    # verdict
    known = load_known()
    violations = []
    if fails:
        s, i, msg = fails[0]
        mons = M.MONITORS[pid]

        def still(sc):
            o = run_impl([sc], "debug")
            if pid == "C20" or pid == "C09":
                return False
            outs = o.get(sc.sid, [])
            return any(mon(sc, outs) for mon in mons)
        small = s
        if pid not in ("C20", "C09") and len(s.ops) > 2:
            try:
                small = shrink(s, still)
            except Exception as exc:  # shrinking is best effort
                notes.append("shrink failed: %r" % exc)
        # message of the minimized script
        o = run_impl([small], "debug").get(small.sid, [])
        msgs = [m for mon in mons for m in mon(small, o)]
        msg2 = msgs[0][1] if msgs else msg
        matched = None
        for kf in known:
            if kf.get("property") == pid and kf.get("status") == "known" and re.search(kf.get("match", "$^"), msg2):
                matched = kf
        if matched:
            print("KNOWN-FINDING: property=%s %s" % (pid, matched.get("what", "")))
            # a listed finding suppresses only itself: any other failing script, and anything that no longer
            # checks, is still reported
            others = []
            for (s_o, i_o, msg_o) in fails[1:]:
                if not re.search(matched.get("match", "$^"), msg_o):
                    others.append((s_o, i_o, msg_o))
            if others:
                s_o, i_o, msg_o = others[0]
                path = write_replay(pid, seed, "impl-violation", s_o,
                                    {"message": msg_o, "failing_scripts": len(others), "also_broken": broken})
                violations.append("VIOLATION property=%s replay=%s" % (pid, path))
                print("violation: %s" % msg_o)
            elif broken:
                s_b = diffs[0][0] if diffs else None
                path = write_replay(pid, seed, "proof-or-correspondence-broken", s_b,
                                    {"no_longer_checks": broken, "searched_scripts": len(scripts) + searched,
                                     "note": "beside the listed known finding, something no longer checks"})
                violations.append("VIOLATION property=%s replay=%s no-failing-input-found" % (pid, path))
                for b in broken:
                    print("broken: " + b[:600])
        else:
            path = write_replay(pid, seed, "impl-violation", small,
                                {"message": msg2, "failing_scripts": len(fails), "also_broken": broken})
            violations.append("VIOLATION property=%s replay=%s" % (pid, path))
            print("violation: %s" % msg2)
    elif broken:
        s = diffs[0][0] if diffs else None
        path = write_replay(pid, seed, "proof-or-correspondence-broken", s,
                            {"no_longer_checks": broken, "searched_scripts": len(scripts) + searched,
                             "note": "no input was found on which the property fails; the property is no longer shown to hold"})
        violations.append("VIOLATION property=%s replay=%s no-failing-input-found" % (pid, path))
        for b in broken:
            print("broken: " + b[:600])

    wall = time.time() - t0
    # evidence
    fam = {}
    nops = 0
    for s in scripts:
        key = "%s/%s" % (script_module(s), s.meta.get("family", "?"))
        fam[key] = fam.get(key, 0) + 1
        nops += len(s.ops)
    distinct = len({tuple(s.ops) for s in scripts if len(s.ops) > 2})
    samples = []
    for s in scripts[:2] + scripts[n_corpus:n_corpus + 1]:
        samples.append({"id": s.sid, "ops": s.ops[:12] + (["... (%d ops)" % len(s.ops)] if len(s.ops) > 12 else []),
                        "impl_out": impl.get(s.sid, [])[:4]})
    thm_names = []
    for pf in C.props_files(pid):
        if os.path.exists(pf):
            with open(pf) as fh:
                thm_names += re.findall(r"^\s*Theorem\s+([A-Za-z_][\w']*)", C.strip_coq_comments(fh.read()), re.M)
    evidence = {
        "property_id": pid,
        "tier": tier,
        "seed": seed,
        "level": "proof",
        "coverage": {
            "obligations": max(proof["n_theorems"], 1),
            "discharged": proof["n_discharged"],
            "checker_cmd": "make -C coq Props/%s.vo && coqc -Q coq SU coq/Props/%s.v  (Coq 8.16.1 full .vo build, Print Assumptions compared with the allow-list)" % (pid, pid),
            "trusted_base": [
                "Coq 8.16.1 kernel incl. vm_compute (no native_compute)",
                "axioms reported by Print Assumptions: " + (", ".join(proof["axioms"]) if proof["axioms"] else "none"),
                "tools/gen_consts.py (translator for constants and tables)",
                "Coq extraction (ExtrOcamlBasic only) + ocaml/driver.ml + Rust harness: the correspondence check",
                "modelled, not verified: midi-convert parser, midi-types, biquad, libm tanf, heapless, core float semantics",
            ],
            "theorems": thm_names,
            "coqchk_axioms": proof.get("coqchk_axioms"),
            "traces_validated_against_impl": len(scripts) if (ok and drv_ok) else 0,
            "correspondence_disagreements": len(diffs),
            "evaluations": len(scripts),
            "operations": nops,
            "distinct_nontrivial": distinct,
            "rule": "seeded scripts per family (corpus first, directed families, random histories); distinct = different op sequences with more than 2 operations; every op's observables projected to the property are compared between implementation and extracted model, and the property monitor runs over the implementation trace",
            "families": fam,
            "monitor_failures": len(fails),
            "c09_fresh_probes": n_probes,
            "samples": samples,
            "proof_problems": proof["problems"],
            "broken": broken,
        },
        "assumptions": [
            "x86-64 SSE arithmetic is IEEE-754 binary32 round-to-nearest-even, no FMA contraction, no flush-to-zero",
            "the hand-written model corresponds to the code on all inputs as it does on the explored scripts",
        ],
        "wall_s": round(wall, 2),
        "violations": len(violations),
        "notes": notes,
    }
    if args.skip_proof:
        # development option: the proof was not re-checked, so this run must not leave evidence of level `proof`
        print("note: --skip-proof: no evidence file written")
    else:
        os.makedirs(os.path.join(C.VERIF, "evidence"), exist_ok=True)
        with open(os.path.join(C.VERIF, "evidence", pid + ".json"), "w") as fh:
            json.dump(evidence, fh, indent=1)

    for v in violations:
        print(v)
    if violations:
        return 1
    print("OK property=%s tier=%s theorems=%d scripts=%d ops=%d wall=%.1fs" % (pid, tier, proof["n_theorems"], len(scripts), nops, wall))
    return 0


def replay(pid, path):
    """re-run a recorded replay on the current tree.  A replay of kind `impl-violation` carries a script whose
    implementation trace a monitor rejected; one of kind `proof-or-correspondence-broken` records what no longer
    checked (and, for a correspondence failure, the first script on which the two sides disagreed): it is
    reproduced by re-checking the proof and by running that script through BOTH sides."""
    with open(path) as fh:
        rec = json.load(fh)
    kind = rec.get("kind")
    with C.build_lock():
        gen_ok, gen_msg = C.gen_consts()
        ok, out = C.build_harness()
        if not ok:
            print(out)
            return 2
        bad = False
        if kind == "proof-or-correspondence-broken":
            print("recorded as no longer checking:")
            for b in (rec.get("detail") or {}).get("no_longer_checks", []):
                print("  " + b[:300])
            if not gen_ok:
                print("STILL BROKEN: generation: " + gen_msg)
                bad = True
            proof = C.compile_props(pid, interval_ok=(pid in INTERVAL_PROPS)) if gen_ok else {"ok": False, "problems": ["not built"]}
            if not proof["ok"]:
                print("STILL BROKEN: proof: " + "; ".join(proof["problems"]))
                bad = True
            else:
                print("proof: %d theorems of Props/%s re-checked" % (proof["n_theorems"], pid))
            drv_ok, dout = C.build_driver()
            if not drv_ok:
                print("STILL BROKEN: the extracted model does not build")
                bad = True
    if not rec.get("script"):
        if kind != "proof-or-correspondence-broken":
            print("replay: no script recorded (%s)" % kind)
            print(json.dumps(rec.get("detail"), indent=1))
            return 1
        if bad:
            print("VIOLATION property=%s replay=%s no-failing-input-found" % (pid, path))
            return 1
        print("replay: proof and model build again on the current tree; no script was recorded")
        return 0
    s = C.Script("replay", rec["script"], rec.get("script_meta") or {})
    o = run_impl([s], "debug").get("replay", [])
    if kind == "proof-or-correspondence-broken" and drv_ok:
        impl, model = run_both([s], "debug")
        diffs = compare(pid, [s], impl, model)
        if diffs:
            _s, i, pa, pb = diffs[0]
            print("STILL BROKEN: correspondence: op %d `%s`: impl `%s` model `%s`" % (i, s.ops[i] if i < len(s.ops) else "?", pa, pb))
            bad = True
        else:
            print("correspondence: implementation and model agree on the recorded script (%d operations)" % len(s.ops))
    else:
        for op, line in zip(s.ops, o):
            print("%-40s -> %s" % (op, line))
    mon_bad = False
    if not (script_module(s) in PRIM_MODULES and not (pid == "C20" and s.meta.get("family") == "conversions")):
        for mon in M.MONITORS[pid]:
            for (i, msg) in mon(s, o):
                print("FAIL at op %d: %s" % (i, msg))
                mon_bad = True
    if mon_bad:
        print("VIOLATION property=%s replay=%s" % (pid, path))
        return 1
    if bad:
        print("VIOLATION property=%s replay=%s no-failing-input-found" % (pid, path))
        return 1
    print("replay: nothing fails on the current tree")
    return 0


if __name__ == "__main__":
    try:
        sys.exit(main())
    except C.ModelTimeout as exc:
        # a failure of the tooling, not a verdict: no VIOLATION line
        print("check could not complete: %s (raise VERIF_RUN_TIMEOUT)" % exc)
        sys.exit(2)
    except SystemExit:
        raise
    except Exception:  # an internal error of the tooling is not a verdict either
        import traceback
        traceback.print_exc()
        print("check could not complete: internal error of the tooling (see the traceback above)")
        sys.exit(2)
