#!/bin/sh
# seed_save.sh <name> <worktree> <property> "<needs>"   -- store a confirmed seeded change
set -e
name=$1; wt=$2; prop=$3; needs=$4
d=/verif/seeded/$name
mkdir -p $d
git -C $wt diff -- src > $d/patch.diff
cp $wt/tests/demo.rs $d/demo.rs 2>/dev/null || true
cp $wt/MUTATION.md $d/MUTATION.md 2>/dev/null || true
python3 - "$name" "$prop" "$needs" <<'PY'
import json,sys
name,prop,needs=sys.argv[1:4]
json.dump({"id":name,"breaks_property":prop,"needs_to_manifest":needs,
 "confirmed":"in the scratch worktree: cargo test --offline --lib (62 pass) and --doc (4 pass) with the change; cargo test --offline --test demo fails with the change and passes with the src change stashed",
 "checks_run":[]}, open("/verif/seeded/%s/meta.json"%name,"w"), indent=1)
PY
echo saved $d
