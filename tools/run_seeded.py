#!/usr/bin/env python3
"""run_seeded.py <seeded-name> <Cxx> [<Cyy> ...]: apply seeded/<name>/patch.diff to /repo, run the
given checks (quick tier), record verdicts in seeded/<name>/meta.json, undo the patch and
regenerate the constants.  Never leaves /repo modified."""
import json, os, subprocess, sys
name = sys.argv[1]
props = sys.argv[2:]
d = "/verif/seeded/" + name
assert subprocess.run(["git", "-C", "/repo", "status", "--porcelain", "--untracked-files=no"], capture_output=True, text=True).stdout.strip() == "", "/repo not clean"
res = {}
# the checks below run against a modified /repo: whatever they write to evidence/ describes the seeded
# change, not the tree; keep the committed evidence files and put them back afterwards
import shutil, tempfile
_keep = tempfile.mkdtemp(prefix="evidence-keep-")
for p in props:
    f = "/verif/evidence/%s.json" % p
    if os.path.exists(f):
        shutil.copy(f, os.path.join(_keep, p + ".json"))
try:
    subprocess.run(["git", "-C", "/repo", "apply", d + "/patch.diff"], check=True)
    for p in props:
        env = dict(os.environ, VERIF_SEED=os.environ.get("VERIF_SEED", "1"))
        r = subprocess.run(["./check", p] + (["--skip-proof"] if os.environ.get("SKIP_PROOF") else []), cwd="/verif", capture_output=True, text=True, env=env)
        lines = [l for l in r.stdout.strip().split("\n") if l.startswith(("VIOLATION", "OK", "violation", "broken", "KNOWN"))]
        res[p] = {"exit": r.returncode, "lines": [l[:300] for l in lines[-3:]]}
        print(p, r.returncode, " | ".join(l[:200] for l in lines[-2:]))
finally:
    subprocess.run(["git", "-C", "/repo", "checkout", "--", "."], check=True)
    for p in props:
        f = os.path.join(_keep, p + ".json")
        if os.path.exists(f):
            shutil.copy(f, "/verif/evidence/%s.json" % p)
    shutil.rmtree(_keep, ignore_errors=True)
    subprocess.run(["python3", "/verif/tools/gen_consts.py"], cwd="/verif", capture_output=True)
m = json.load(open(d + "/meta.json"))
allres = m.get("checks_run") or {}
if isinstance(allres, list):
    allres = {}
allres.update(res)
m["checks_run"] = allres
m["caught_by"] = sorted(p for p, v in allres.items() if v["exit"] == 1)
json.dump(m, open(d + "/meta.json", "w"), indent=1)
