#!/bin/sh
# sweep.sh <prop> <from> <to>: quick runs with --skip-proof over a range of seeds, 8 at a time
p=$1; a=$2; b=$3
cd /verif
s=$a
while [ $s -le $b ]; do
  for k in 0 1 2 3 4 5 6 7; do
    t=$((s+k)); [ $t -le $b ] || break
    ( r=$(VERIF_SEED=$t ./check $p --skip-proof 2>&1 | grep -E "^(OK|VIOLATION|violation|broken|check could)" | tail -2 | cut -c1-150 | tr '\n' '|'); case "$r" in OK*) ;; *) echo "$p seed $t: $r";; esac ) &
  done
  wait
  s=$((s+8))
done
echo "$p seeds $a..$b done"
