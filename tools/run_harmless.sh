#!/bin/sh
# run_harmless.sh : applies each behaviour-preserving refactoring in harmless/*.patch to /repo, runs the quick
# checks of the properties anchored in the touched module, reverts.  Every check must stay OK (exit 0).
cd "$(dirname "$0")/.." || exit 2
run() {
  id=$1; shift
  [ -z "$(git -C /repo status --porcelain --untracked-files=no)" ] || { echo "/repo not clean"; exit 1; }
  git -C /repo apply "$PWD/harmless/$id.patch" || exit 1
  for p in "$@"; do
    r=$(./check $p 2>&1 | grep -E '^(VIOLATION|OK|broken|check could)' | tail -2 | cut -c1-200 | tr '\n' '|')
    echo "$id $p $r"
  done
  git -C /repo checkout -- .
  python3 tools/gen_consts.py >/dev/null 2>&1
}
run r1 C01 C02 C03 C17 C20
run r2 C10 C11 C12 C02 C17
run r3 C04 C05 C06 C18 C20
run r4 C07 C08 C09 C19 C20
run r5 C15 C16 C17
run r6 C13 C14 C17
