(* Driver for the extracted Coq model: reads the same scripts as the Rust harness and
   prints the same canonical lines.  `debug` mode (argv[1] = "debug") honours the
   model's panic guards (prints PANIC like a build with overflow checks and debug
   assertions); `release` mode ignores the guards that only exist in debug builds
   (arithmetic overflow, debug_assert!) but keeps the unconditional panics
   (unwrap on Err, index out of bounds, usize underflow is a debug-only check too). *)
open Model

let rec pos_of_int n =
  if n = 1 then XH
  else if n land 1 = 0 then XO (pos_of_int (n lsr 1))
  else XI (pos_of_int (n lsr 1))

let z_of_int n = if n = 0 then Z0 else if n > 0 then Zpos (pos_of_int n) else Zneg (pos_of_int (-n))

let rec int_of_pos = function
  | XH -> 1
  | XO p -> 2 * int_of_pos p
  | XI p -> 2 * int_of_pos p + 1

let int_of_z = function Z0 -> 0 | Zpos p -> int_of_pos p | Zneg p -> - (int_of_pos p)

let rec nat_of_int n = if n = 0 then O else S (nat_of_int (n - 1))

(* hexadecimal numeral of any length (usize arguments exceed OCaml's 63-bit int) *)
let z_of_hex s =
  let bits = ref [] in
  String.iter
    (fun c ->
      let v = int_of_string ("0x" ^ String.make 1 c) in
      bits := (v land 1 = 1) :: (v land 2 = 2) :: (v land 4 = 4) :: (v land 8 = 8) :: !bits)
    s;
  (* !bits is least significant first *)
  let rec build = function
    | [] -> None
    | b :: r -> (
      match build r with
      | None -> if b then Some XH else None
      | Some q -> Some (if b then XI q else XO q))
  in
  match build !bits with None -> Z0 | Some q -> Zpos q

let f_of_hex s = of_bits (z_of_int (int_of_string ("0x" ^ s)))

(* canonical print: NaN -> nan, both zeros -> 00000000 *)
let p x =
  match to_bits x with
  | None -> "nan"
  | Some b ->
    let v = int_of_z b in
    if v = 0 || v = 0x80000000 then "00000000" else Printf.sprintf "%08x" v

let b2i b = if b then 1 else 0

type obj =
  | NoObj
  | OPrim
  | OPa of z * z * pa
  | OAdsr of adsr
  | OLfo of lfo
  | OQuant of quant
  | OMidi of rx
  | OGlide of glide
  | ORibbon of ribbon

exception Panic

let debug = ref true

let guard ok = if !debug && not ok then raise Panic

let adsr_line a =
  Printf.sprintf "%d %d %s" (int_of_z (phase_num a.a_state)) (int_of_z a.a_pa.pa_acc) (p a.a_value)

let lfo_line l =
  (* get(Sine) indexes the table: an out-of-bounds index panics in every build *)
  if not (lfo_get_ok l) then raise Panic;
  Printf.sprintf "%d %s %s %s %s %s" (int_of_z l.pa_acc) (p (lfo_get l Sine)) (p (lfo_get l Triangle))
    (p (lfo_get l UpSaw)) (p (lfo_get l DownSaw)) (p (lfo_get l Square))

let quant_mask q =
  let m = ref 0 in
  for n = 0 to 11 do
    if bit_allowed q.q_allowed (z_of_int n) then m := !m lor (1 lsl n)
  done;
  !m

let midi_levels m =
  Printf.sprintf "%d %s %s %s %s %s %s %s %d %d %d" (int_of_z m.r_note) (p m.r_velocity)
    (p m.r_pitch_bend) (p m.r_mod_wheel) (p m.r_volume) (p m.r_cutoff) (p m.r_resonance)
    (p m.r_porta_time) (b2i m.r_porta_en) (b2i m.r_sustain_en) (b2i m.r_gate)

let glide_line g =
  let c = g.g_lpf.d_c in
  Printf.sprintf "%s %s %s %s %s" (p c.k_a1) (p c.k_a2) (p c.k_b0) (p c.k_b1) (p c.k_b2)

let ribbon_line r = Printf.sprintf "%d %s" (b2i r.rb_pressing) (p (ribbon_value r))

let notes arg =
  match arg with
  | None -> []
  | Some "-" -> []
  | Some a -> List.map (fun x -> z_of_int (int_of_string x)) (String.split_on_char ',' a)

let pa_line tot idx x =
  Printf.sprintf "%d %s %d %s" (int_of_z x.pa_acc) (p (pa_ramp tot x)) (int_of_z (pa_index tot idx x))
    (p (pa_fraction tot idx x))

let supported_pas = [ (24, 10); (24, 8); (16, 4); (10, 10); (30, 12); (8, 1); (12, 12); (20, 10) ]

let table = function "sine" -> sine_table | "attack" -> attack_table | _ -> decay_table

let supported_caps =
  [ 1; 2; 3; 4; 5; 6; 7; 8; 9; 10; 12; 16; 18; 20; 24; 32; 35; 52; 69; 86; 171; 341; 750; 817; 1633; 3265 ]

let exec obj line =
  let toks = List.filter (fun s -> s <> "") (String.split_on_char ' ' line) in
  let op, args = match toks with [] -> ("", []) | o :: r -> (o, r) in
  let arg i = List.nth_opt args i in
  let a i = match arg i with Some x -> x | None -> failwith ("missing argument: " ^ line) in
  match op with
  | "adsr.new" ->
    let s = adsr_new (f_of_hex (a 0)) in
    (OAdsr s, adsr_line s)
  | "lfo.new" ->
    let l = lfo_new (f_of_hex (a 0)) in
    (OLfo l, lfo_line l)
  | "quant.new" -> (OQuant quant_new, Printf.sprintf "m %d" (quant_mask quant_new))
  | "midi.new" ->
    let m = rx_new (z_of_int (int_of_string (a 0))) in
    (OMidi m, midi_levels m)
  | "glide.new" -> (
    match glide_new (f_of_hex (a 0)) with
    | None -> raise Panic
    | Some g -> (OGlide g, glide_line g))
  | "ribbon.new" ->
    let cap = int_of_string (a 0) in
    if not (List.mem cap supported_caps) then (obj, "UNSUPPORTED-CAPACITY")
    else begin
      let fs = f_of_hex (a 1) in
      guard (ribbon_new_ok (nat_of_int cap) fs);
      let r = ribbon_new (nat_of_int cap) fs (f_of_hex (a 2)) (f_of_hex (a 3)) (f_of_hex (a 4)) in
      (ORibbon r, ribbon_line r)
    end
  | "prim.new" -> (OPrim, "prim")
  | "pa.new" ->
    let t = int_of_string (a 0) and i = int_of_string (a 1) in
    if not (List.mem (t, i) supported_pas) then (obj, "UNSUPPORTED-PA")
    else begin
      let x = pa_new (f_of_hex (a 2)) in
      (OPa (z_of_int t, z_of_int i, x), pa_line (z_of_int t) (z_of_int i) x)
    end
  | "ribbon.cap" ->
    let fs = z_of_int (int_of_string (a 0)) in
    guard (sample_rate_to_capacity_ok fs);
    (obj, string_of_int (int_of_z (sample_rate_to_capacity fs)))
  | _ -> (
    match obj with
    | NoObj -> (obj, "NOOBJ")
    | OPrim -> (
      match op with
      | "interp" -> (obj, p (linear_interp (f_of_hex (a 0)) (f_of_hex (a 1)) (f_of_hex (a 2))))
      | "ilog2" -> (obj, string_of_int (int_of_z (ilog_2 (z_of_hex (a 0)))))
      | "almost" -> (obj, string_of_int (b2i (is_almost (f_of_hex (a 0)) (f_of_hex (a 1)) (f_of_hex (a 2)))))
      | "fabs" -> (obj, p (fabs (f_of_hex (a 0))))
      | "consts" ->
        (* the constants the model was generated with, same names and order as the crate's verif_consts hooks *)
        let join l = String.concat " " (List.map (fun (n, v) -> Printf.sprintf "%s=%d" n (int_of_z v)) l) in
        (match a 0 with
         | "adsr" ->
           (obj, join [ ("MIN_TIME_PERIOD_SEC", mIN_TIME_PERIOD_SEC_bits); ("MAX_TIME_PERIOD_SEC", mAX_TIME_PERIOD_SEC_bits);
                        ("ADSR_TOT_NUM_ACCUM_BITS", tOT); ("ADSR_NUM_LUT_INDEX_BITS", iDX) ])
         | "lfo" -> (obj, join [ ("LFO_TOT_NUM_ACCUM_BITS", lTOT); ("LFO_NUM_LUT_INDEX_BITS", lIDX) ])
         | "quant" ->
           (obj, join [ ("NUM_NOTES_PER_OCTAVE", nUM_NOTES_PER_OCTAVE_bits); ("SEMITONE_WIDTH", sEMITONE_WIDTH_bits);
                        ("HALF_SEMITONE_WIDTH", hALF_SEMITONE_WIDTH_bits); ("HYSTERESIS", hYSTERESIS_bits);
                        ("ONE_OCTAVE_IN_MICROVOLTS", oNE_OCTAVE_IN_MICROVOLTS); ("HALF_STEP_IN_MICROVOLTS", hALF_STEP_IN_MICROVOLTS);
                        ("MAX_OCTAVE", mAX_OCTAVE); ("V_MAX", v_MAX_bits) ])
         | "midi" ->
           (obj, join [ ("CC_MOD_WHEEL", cC_MOD_WHEEL); ("CC_VOLUME", cC_VOLUME); ("CC_VCF_CUTOFF", cC_VCF_CUTOFF);
                        ("CC_VCF_RESONANCE", cC_VCF_RESONANCE); ("CC_SUSTAIN_SWITCH", cC_SUSTAIN_SWITCH);
                        ("CC_PORTAMENTO_SWITCH", cC_PORTAMENTO_SWITCH); ("CC_PORTAMENTO_TIME", cC_PORTAMENTO_TIME);
                        ("CC_ALL_CONTROLLERS_OFF", cC_ALL_CONTROLLERS_OFF); ("CC_ALL_NOTES_OFF", cC_ALL_NOTES_OFF);
                        ("U7_HALF_SCALE", u7_HALF_SCALE); ("HELD_DOWN_NOTE_BUFFER_LEN", hELD_DOWN_NOTE_BUFFER_LEN) ])
         | "ribbon" ->
           (obj, join [ ("RIBBON_FALL_TIME_USEC", rIBBON_FALL_TIME_USEC); ("RIBBON_RISE_TIME_USEC", rIBBON_RISE_TIME_USEC);
                        ("MIN_CAPTURE_TIME_USEC", mIN_CAPTURE_TIME_USEC) ])
         | "glide" -> (
           match glide_new (f_of_hex (a 1)) with
           | None -> raise Panic
           | Some g ->
             let b x = match to_bits x with Some z -> int_of_z z | None -> -1 in
             (obj, Printf.sprintf "GLIDE_MIN_FC=%d GLIDE_MAX_FC=%d GLIDE_CACHED_T_INIT=%d" (b g.g_min_fc) (b g.g_max_fc) (b g.g_cached_t)))
         | _ -> (obj, "BADOP consts"))
      | "tp" -> (obj, p (time_from (f_of_hex (a 0))))
      | "sl" -> (obj, p (sustain_from (f_of_hex (a 0))))
      | "note" ->
        let n = z_of_int (int_of_string (a 0)) in
        (obj, Printf.sprintf "%d %d" (int_of_z (note_new n)) (int_of_z (note_new n)))
      | "tab" -> (
        (* array indexing: out of bounds panics in every build *)
        match List.nth_opt (table (a 0)) (int_of_string (a 1)) with
        | None -> raise Panic
        | Some x -> (obj, p x))
      | "tabhash" ->
        let t = table (a 0) in
        let h = ref 0xcbf29ce484222325L in
        List.iter
          (fun x ->
            String.iter
              (fun c ->
                h := Int64.logxor !h (Int64.of_int (Char.code c));
                h := Int64.mul !h 0x100000001b3L)
              (p x))
          t;
        (obj, Printf.sprintf "n=%d h=%016Lx" (List.length t) !h)
      | _ -> (obj, "BADOP " ^ op))
    | OPa (tot, idx, x) -> (
      let ret x' = (OPa (tot, idx, x'), pa_line tot idx x') in
      match op with
      | "tick" ->
        guard (pa_tick_ok x);
        ret (pa_tick tot x)
      | "freq" -> ret (pa_set_frequency tot x (f_of_hex (a 0)))
      | "period" -> ret (pa_set_period tot x (f_of_hex (a 0)))
      | "phase" -> ret (pa_set_phase tot x (f_of_hex (a 0)))
      | "reset" -> ret (pa_reset x)
      | "roll" ->
        let r, x' = pa_take_rolled x in
        (OPa (tot, idx, x'), Printf.sprintf "%s r=%d" (pa_line tot idx x') (b2i r))
      | _ -> (obj, "BADOP " ^ op))
    | OAdsr s -> (
      let o =
        match op with
        | "tick" -> Some ATick
        | "gon" -> Some AGateOn
        | "goff" -> Some AGateOff
        | "att" -> Some (ASetAttack (f_of_hex (a 0)))
        | "dec" -> Some (ASetDecay (f_of_hex (a 0)))
        | "sus" -> Some (ASetSustain (f_of_hex (a 0)))
        | "rel" -> Some (ASetRelease (f_of_hex (a 0)))
        | _ -> None
      in
      match o with
      | None -> (obj, "BADOP " ^ op)
      | Some o ->
        guard (adsr_step_ok s o);
        let s' = adsr_step s o in
        (OAdsr s', adsr_line s'))
    | OLfo l when op = "tickhash" ->
      (* n ticks; the lines that would have been printed are folded into an FNV-1a hash (64 bit,
         computed with OCaml's native 63-bit ints split in two 32-bit halves to stay exact) *)
      let n = int_of_string (a 0) in
      let h = ref 0xcbf29ce484222325L in
      let l = ref l in
      for _ = 1 to n do
        guard (lfo_step_ok !l LTick);
        l := lfo_step !l LTick;
        String.iter
          (fun c ->
            h := Int64.logxor !h (Int64.of_int (Char.code c));
            h := Int64.mul !h 0x100000001b3L)
          (lfo_line !l)
      done;
      (OLfo !l, Printf.sprintf "h=%016Lx acc=%d" !h (int_of_z !l.pa_acc))
    | OLfo l -> (
      let o =
        match op with
        | "tick" -> Some LTick
        | "freq" -> Some (LSetFreq (f_of_hex (a 0)))
        | "phase" -> Some (LSetPhase (f_of_hex (a 0)))
        | "reset" -> Some LReset
        | _ -> None
      in
      match o with
      | None -> (obj, "BADOP " ^ op)
      | Some o ->
        guard (lfo_step_ok l o);
        let l' = lfo_step l o in
        (OLfo l', lfo_line l'))
    | OQuant q -> (
      match op with
      | "allow" ->
        let q' = quant_step q (QAllow (notes (arg 0))) in
        (OQuant q', Printf.sprintf "m %d" (quant_mask q'))
      | "forbid" ->
        let o = QForbid (notes (arg 0)) in
        (* notes[len-1..] with an empty slice: slice index panic in every build *)
        if not (quant_step_ok q o) then raise Panic;
        let q' = quant_step q o in
        (OQuant q', Printf.sprintf "m %d" (quant_mask q'))
      | "conv" ->
        let q', c = convert q (f_of_hex (a 0)) in
        ( OQuant q',
          Printf.sprintf "c %d %s %s %d" (int_of_z c.c_note) (p c.c_stair) (p c.c_frac) (quant_mask q') )
      | _ -> (obj, "BADOP " ^ op))
    | OMidi m -> (
      let o =
        match op with
        | "b" -> Some (RByte (z_of_int (int_of_string (a 0))))
        | "rise" -> Some RPollRise
        | "fall" -> Some RPollFall
        | "prio" ->
          Some (RSetPrio (match a 0 with "last" -> PLast | "high" -> PHigh | _ -> PLow))
        | "retrig" -> Some (RSetRetrig (a 0 = "on"))
        | _ -> None
      in
      match o with
      | None -> (obj, "BADOP " ^ op)
      | Some o -> (
        guard (rx_step_ok m o);
        let m', r = rx_step m o in
        match r with
        | None -> (OMidi m', midi_levels m')
        | Some b -> (OMidi m', Printf.sprintf "%s r=%d" (midi_levels m') (b2i b))))
    | OGlide g -> (
      match op with
      | "time" -> (
        match glide_set_time g (f_of_hex (a 0)) with
        | None -> raise Panic
        | Some g' -> (OGlide g', glide_line g'))
      | "proc" ->
        let g', y = glide_process g (f_of_hex (a 0)) in
        (OGlide g', Printf.sprintf "%s y=%s" (glide_line g') (p y))
      | _ -> (obj, "BADOP " ^ op))
    | ORibbon r -> (
      let o =
        match op with
        | "poll" -> Some (RbPoll (f_of_hex (a 0)))
        | "jp" -> Some RbJustPressed
        | "jr" -> Some RbJustReleased
        | _ -> None
      in
      match o with
      | None -> (obj, "BADOP " ^ op)
      | Some o -> (
        guard (ribbon_step_ok r o);
        let r', b = ribbon_step r o in
        match b with
        | None -> (ORibbon r', ribbon_line r')
        | Some b -> (ORibbon r', Printf.sprintf "%s r=%d" (ribbon_line r') (b2i b)))))

let () =
  let mode = if Array.length Sys.argv > 1 then Sys.argv.(1) else "debug" in
  debug := mode <> "release";
  let ic = if Array.length Sys.argv > 2 then open_in Sys.argv.(2) else stdin in
  let out = Buffer.create (1 lsl 20) in
  let obj = ref NoObj in
  let dead = ref false in
  (try
     while true do
       let line = String.trim (input_line ic) in
       if line = "" || line.[0] = '#' then ()
       else if line.[0] = '@' then begin
         Buffer.add_string out line;
         Buffer.add_char out '\n';
         obj := NoObj;
         dead := false
       end
       else if !dead then ()
       else begin
         (try
            let o, s = exec !obj line in
            obj := o;
            Buffer.add_string out s
          with Panic ->
            Buffer.add_string out "PANIC";
            dead := true;
            obj := NoObj);
         Buffer.add_char out '\n'
       end;
       if Buffer.length out > 1 lsl 19 then begin
         print_string (Buffer.contents out);
         Buffer.clear out
       end
     done
   with End_of_file -> ());
  print_string (Buffer.contents out)
