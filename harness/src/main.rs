// Correspondence harness: runs operation scripts against the real synth-utils types
// (built from /repo's current working tree, feature verif-hooks) and prints one
// canonical line of observables per operation.  The OCaml driver of the extracted
// Coq model reads the same scripts and prints the same format.
//
// Script format (one file may hold many scripts):
//   @ <script id>
//   <module>.new <args>
//   <op> <args>
//   ...
// Floats are 8 hex digits (IEEE-754 binary32 bit pattern).  Output: the "@ id" line
// is echoed, then one line per operation.  A panic prints PANIC and the rest of the
// script is skipped.

use std::io::{self, BufWriter, Read, Write};
use std::panic::{catch_unwind, AssertUnwindSafe};

use synth_utils::adsr::{Adsr, Input};
use synth_utils::glide_processor::GlideProcessor;
use synth_utils::lfo::{Lfo, Waveshape};
use synth_utils::mono_midi_receiver::{MonoMidiReceiver, NotePriority, RetriggerMode};
use synth_utils::quantizer::{Note, Quantizer};
use synth_utils::ribbon_controller::{sample_rate_to_capacity, RibbonController};
use synth_utils::verif_hooks::{
    fabs, ilog_2, is_almost, linear_interp, PhaseAccumulator, ADSR_ATTACK_TABLE, ADSR_DECAY_TABLE,
    SINE_TABLE,
};

fn f(s: &str) -> f32 {
    f32::from_bits(u32::from_str_radix(s, 16).expect("bad float hex"))
}

// canonical print of a float: NaN -> nan, both zeros -> 00000000
fn p(x: f32) -> String {
    if x.is_nan() {
        "nan".to_string()
    } else if x == 0.0 {
        "00000000".to_string()
    } else {
        format!("{:08x}", x.to_bits())
    }
}

trait RibbonDyn {
    fn poll(&mut self, x: f32);
    fn value(&self) -> f32;
    fn pressing(&self) -> bool;
    fn jp(&mut self) -> bool;
    fn jr(&mut self) -> bool;
}

impl<const N: usize> RibbonDyn for RibbonController<N> {
    fn poll(&mut self, x: f32) {
        RibbonController::poll(self, x)
    }
    fn value(&self) -> f32 {
        RibbonController::value(self)
    }
    fn pressing(&self) -> bool {
        self.finger_is_pressing()
    }
    fn jp(&mut self) -> bool {
        self.finger_just_pressed()
    }
    fn jr(&mut self) -> bool {
        self.finger_just_released()
    }
}

macro_rules! ribbon_caps {
    ($cap:expr, $fs:expr, $sp:expr, $dr:expr, $pu:expr, $($n:literal),*) => {
        match $cap {
            $( $n => Some(Box::new(RibbonController::<$n>::new($fs, $sp, $dr, $pu)) as Box<dyn RibbonDyn>), )*
            _ => None,
        }
    };
}

fn make_ribbon(cap: usize, fs: f32, sp: f32, dr: f32, pu: f32) -> Option<Box<dyn RibbonDyn>> {
    ribbon_caps!(
        cap, fs, sp, dr, pu, 1, 2, 3, 4, 5, 6, 7, 8, 9, 10, 12, 16, 18, 20, 24, 32, 35, 52, 69, 86,
        171, 341, 750, 817, 1633, 3265
    )
}

// the crate-private phase accumulator, reached through the verif_hooks re-export
trait PaDyn {
    fn tick(&mut self);
    fn freq(&mut self, x: f32);
    fn period(&mut self, x: f32);
    fn phase(&mut self, x: f32);
    fn reset(&mut self);
    fn rolled(&mut self) -> bool;
    fn line(&self) -> String;
}

impl<const T: u32, const I: u32> PaDyn for PhaseAccumulator<T, I> {
    fn tick(&mut self) {
        PhaseAccumulator::tick(self)
    }
    fn freq(&mut self, x: f32) {
        self.set_frequency(x)
    }
    fn period(&mut self, x: f32) {
        self.set_period(x)
    }
    fn phase(&mut self, x: f32) {
        self.set_phase(x)
    }
    fn reset(&mut self) {
        PhaseAccumulator::reset(self)
    }
    fn rolled(&mut self) -> bool {
        self.rolled_over()
    }
    fn line(&self) -> String {
        format!(
            "{} {} {} {}",
            self.verif_acc(),
            p(self.ramp()),
            self.index(),
            p(self.fraction())
        )
    }
}

macro_rules! pa_kinds {
    ($t:expr, $i:expr, $fs:expr, $(($tt:literal, $ii:literal)),*) => {
        match ($t, $i) {
            $( ($tt, $ii) => Some(Box::new(PhaseAccumulator::<$tt, $ii>::new($fs)) as Box<dyn PaDyn>), )*
            _ => None,
        }
    };
}

fn make_pa(t: u32, i: u32, fs: f32) -> Option<Box<dyn PaDyn>> {
    pa_kinds!(t, i, fs, (24, 10), (24, 8), (16, 4), (10, 10), (30, 12), (8, 1), (12, 12), (20, 10))
}

fn table(name: &str) -> &'static [f32] {
    match name {
        "sine" => &SINE_TABLE,
        "attack" => &ADSR_ATTACK_TABLE,
        _ => &ADSR_DECAY_TABLE,
    }
}

enum Obj {
    None,
    Prim,
    Pa(Box<dyn PaDyn>),
    Adsr(Adsr),
    Lfo(Lfo),
    Quant(Quantizer),
    Midi(MonoMidiReceiver),
    Glide(GlideProcessor),
    Ribbon(Box<dyn RibbonDyn>),
}

fn notes(arg: Option<&str>) -> Vec<Note> {
    match arg {
        None => vec![],
        Some(a) if a == "-" => vec![],
        Some(a) => a
            .split(',')
            .map(|x| Note::from(x.parse::<u8>().expect("bad note")))
            .collect(),
    }
}

fn quant_mask(q: &Quantizer) -> u32 {
    let mut m = 0u32;
    for n in 0..12u8 {
        if q.is_allowed(Note::from(n)) {
            m |= 1 << n;
        }
    }
    m
}

fn midi_levels(m: &MonoMidiReceiver) -> String {
    format!(
        "{} {} {} {} {} {} {} {} {} {} {}",
        m.note_num(),
        p(m.velocity()),
        p(m.pitch_bend()),
        p(m.mod_wheel()),
        p(m.volume()),
        p(m.vcf_cutoff()),
        p(m.vcf_resonance()),
        p(m.portamento_time()),
        m.portamento_enabled() as u8,
        m.sustain_enabled() as u8,
        m.gate() as u8
    )
}

fn glide_line(g: &GlideProcessor) -> String {
    let c = g.verif_coeffs();
    format!("{} {} {} {} {}", p(c.0), p(c.1), p(c.2), p(c.3), p(c.4))
}

fn lfo_line(l: &Lfo) -> String {
    format!(
        "{} {} {} {} {} {}",
        l.verif_acc(),
        p(l.get(Waveshape::Sine)),
        p(l.get(Waveshape::Triangle)),
        p(l.get(Waveshape::UpSaw)),
        p(l.get(Waveshape::DownSaw)),
        p(l.get(Waveshape::Square))
    )
}

fn adsr_line(a: &Adsr) -> String {
    format!("{} {} {}", a.verif_state(), a.verif_acc(), p(a.value()))
}

fn ribbon_line(r: &dyn RibbonDyn) -> String {
    format!("{} {}", r.pressing() as u8, p(r.value()))
}

// executes one operation; returns the output line
fn exec(obj: &mut Obj, line: &str) -> String {
    let mut it = line.split_whitespace();
    let op = it.next().unwrap_or("");
    let a1 = it.next();
    let a2 = it.next();
    let a3 = it.next();
    let a4 = it.next();
    let a5 = it.next();
    match op {
        "adsr.new" => {
            *obj = Obj::Adsr(Adsr::new(f(a1.unwrap())));
        }
        "lfo.new" => {
            *obj = Obj::Lfo(Lfo::new(f(a1.unwrap())));
        }
        "quant.new" => {
            *obj = Obj::Quant(Quantizer::new());
        }
        "midi.new" => {
            *obj = Obj::Midi(MonoMidiReceiver::new(a1.unwrap().parse::<u8>().unwrap()));
        }
        "glide.new" => {
            *obj = Obj::Glide(GlideProcessor::new(f(a1.unwrap())));
        }
        "ribbon.new" => {
            // ribbon.new <cap> <fs> <softpot> <dropper> <pullup>
            let cap = a1.unwrap().parse::<usize>().unwrap();
            match make_ribbon(
                cap,
                f(a2.unwrap()),
                f(a3.unwrap()),
                f(a4.unwrap()),
                f(a5.unwrap()),
            ) {
                Some(r) => *obj = Obj::Ribbon(r),
                None => return "UNSUPPORTED-CAPACITY".to_string(),
            }
        }
        "prim.new" => {
            *obj = Obj::Prim;
        }
        "pa.new" => {
            // pa.new <total bits> <index bits> <fs>
            let t = a1.unwrap().parse::<u32>().unwrap();
            let i = a2.unwrap().parse::<u32>().unwrap();
            match make_pa(t, i, f(a3.unwrap())) {
                Some(x) => *obj = Obj::Pa(x),
                None => return "UNSUPPORTED-PA".to_string(),
            }
        }
        "ribbon.cap" => {
            // pure helper: sample_rate_to_capacity
            let fs = a1.unwrap().parse::<u32>().unwrap();
            return format!("{}", sample_rate_to_capacity(fs));
        }
        _ => {}
    }
    match obj {
        Obj::None => "NOOBJ".to_string(),
        Obj::Prim => match op {
            "prim.new" => "prim".to_string(),
            "interp" => p(linear_interp(f(a1.unwrap()), f(a2.unwrap()), f(a3.unwrap()))),
            "ilog2" => format!(
                "{}",
                ilog_2(usize::from_str_radix(a1.unwrap(), 16).expect("bad hex"))
            ),
            "almost" => format!(
                "{}",
                is_almost(f(a1.unwrap()), f(a2.unwrap()), f(a3.unwrap())) as u8
            ),
            "fabs" => p(fabs(f(a1.unwrap()))),
            "consts" => {
                // the constants of one module as compiled (verif_consts hooks), `NAME=value` in a fixed order
                let join = |v: &[(&'static str, u32)]| {
                    v.iter()
                        .map(|(n, x)| format!("{}={}", n, x))
                        .collect::<Vec<_>>()
                        .join(" ")
                };
                match a1.unwrap() {
                    "adsr" => join(&synth_utils::adsr::verif_consts()),
                    "lfo" => join(&synth_utils::lfo::verif_consts()),
                    "quant" => join(&synth_utils::quantizer::verif_consts()),
                    "midi" => join(&synth_utils::mono_midi_receiver::verif_consts()),
                    "ribbon" => join(&synth_utils::ribbon_controller::verif_consts()),
                    "glide" => {
                        // the glide literals live inside functions: what a new processor stores
                        let g = GlideProcessor::new(f(a2.unwrap()));
                        let (mn, mx, ct) = g.verif_params();
                        format!("GLIDE_MIN_FC={} GLIDE_MAX_FC={} GLIDE_CACHED_T_INIT={}", mn, mx, ct)
                    }
                    _ => "BADOP consts".to_string(),
                }
            }
            // the public conversions of the clamping newtypes
            "tp" => p(f32::from(synth_utils::adsr::TimePeriod::from(f(a1.unwrap())))),
            "sl" => p(f32::from(synth_utils::adsr::SustainLevel::from(f(a1.unwrap())))),
            "note" => {
                let n = a1.unwrap().parse::<u8>().unwrap();
                format!("{} {}", u8::from(Note::from(n)), u8::from(Note::new(n)))
            }
            "tab" => {
                let i = a2.unwrap().parse::<usize>().unwrap();
                p(table(a1.unwrap())[i])
            }
            "tabhash" => {
                // length and FNV-1a hash of all entries of a lookup table, as the compiler read them
                let t = table(a1.unwrap());
                let mut h: u64 = 0xcbf29ce484222325;
                for x in t {
                    for b in p(*x).as_bytes() {
                        h ^= *b as u64;
                        h = h.wrapping_mul(0x100000001b3);
                    }
                }
                format!("n={} h={:016x}", t.len(), h)
            }
            _ => format!("BADOP {}", op),
        },
        Obj::Pa(x) => {
            match op {
                "pa.new" => {}
                "tick" => x.tick(),
                "freq" => x.freq(f(a1.unwrap())),
                "period" => x.period(f(a1.unwrap())),
                "phase" => x.phase(f(a1.unwrap())),
                "reset" => x.reset(),
                "roll" => {
                    let r = x.rolled();
                    return format!("{} r={}", x.line(), r as u8);
                }
                _ => return format!("BADOP {}", op),
            }
            x.line()
        }
        Obj::Adsr(a) => {
            match op {
                "adsr.new" => {}
                "tick" => a.tick(),
                "gon" => a.gate_on(),
                "goff" => a.gate_off(),
                "att" => a.set_input(Input::Attack(f(a1.unwrap()).into())),
                "dec" => a.set_input(Input::Decay(f(a1.unwrap()).into())),
                "sus" => a.set_input(Input::Sustain(f(a1.unwrap()).into())),
                "rel" => a.set_input(Input::Release(f(a1.unwrap()).into())),
                _ => return format!("BADOP {}", op),
            }
            adsr_line(a)
        }
        Obj::Lfo(l) => {
            if op == "tickhash" {
                // n ticks; the lines that would have been printed are folded into an FNV-1a hash
                let n = a1.unwrap().parse::<u64>().unwrap();
                let mut h: u64 = 0xcbf29ce484222325;
                for _ in 0..n {
                    l.tick();
                    for b in lfo_line(l).as_bytes() {
                        h ^= *b as u64;
                        h = h.wrapping_mul(0x100000001b3);
                    }
                }
                return format!("h={:016x} acc={}", h, l.verif_acc());
            }
            match op {
                "lfo.new" => {}
                "tick" => l.tick(),
                "freq" => l.set_frequency(f(a1.unwrap())),
                "phase" => l.set_phase(f(a1.unwrap())),
                "reset" => l.reset(),
                _ => return format!("BADOP {}", op),
            }
            lfo_line(l)
        }
        Obj::Quant(q) => match op {
            "quant.new" => format!("m {}", quant_mask(q)),
            "allow" => {
                q.allow(&notes(a1));
                format!("m {}", quant_mask(q))
            }
            "forbid" => {
                q.forbid(&notes(a1));
                format!("m {}", quant_mask(q))
            }
            "conv" => {
                let c = q.convert(f(a1.unwrap()));
                format!(
                    "c {} {} {} {}",
                    c.note_num,
                    p(c.stairstep),
                    p(c.fraction),
                    quant_mask(q)
                )
            }
            _ => format!("BADOP {}", op),
        },
        Obj::Midi(m) => match op {
            "midi.new" => midi_levels(m),
            "b" => {
                m.parse(a1.unwrap().parse::<u8>().unwrap());
                midi_levels(m)
            }
            "rise" => {
                let r = m.rising_gate();
                format!("{} r={}", midi_levels(m), r as u8)
            }
            "fall" => {
                let r = m.falling_gate();
                format!("{} r={}", midi_levels(m), r as u8)
            }
            "prio" => {
                m.set_note_priority(match a1.unwrap() {
                    "last" => NotePriority::Last,
                    "high" => NotePriority::High,
                    _ => NotePriority::Low,
                });
                midi_levels(m)
            }
            "retrig" => {
                m.set_retrigger_mode(match a1.unwrap() {
                    "on" => RetriggerMode::AllowRetrigger,
                    _ => RetriggerMode::NoRetrigger,
                });
                midi_levels(m)
            }
            _ => format!("BADOP {}", op),
        },
        Obj::Glide(g) => match op {
            "glide.new" => glide_line(g),
            "time" => {
                g.set_time(f(a1.unwrap()));
                glide_line(g)
            }
            "proc" => {
                let y = g.process(f(a1.unwrap()));
                format!("{} y={}", glide_line(g), p(y))
            }
            _ => format!("BADOP {}", op),
        },
        Obj::Ribbon(r) => match op {
            "ribbon.new" => ribbon_line(r.as_ref()),
            "poll" => {
                r.poll(f(a1.unwrap()));
                ribbon_line(r.as_ref())
            }
            "jp" => {
                let b = r.jp();
                format!("{} r={}", ribbon_line(r.as_ref()), b as u8)
            }
            "jr" => {
                let b = r.jr();
                format!("{} r={}", ribbon_line(r.as_ref()), b as u8)
            }
            _ => format!("BADOP {}", op),
        },
    }
}

fn main() {
    std::panic::set_hook(Box::new(|_| {}));
    let args: Vec<String> = std::env::args().collect();
    let mut input: Box<dyn Read> = if args.len() > 1 {
        Box::new(std::fs::File::open(&args[1]).expect("cannot open script"))
    } else {
        Box::new(io::stdin())
    };
    let mut text = String::new();
    input.read_to_string(&mut text).unwrap();
    let stdout = io::stdout();
    let mut out = BufWriter::with_capacity(1 << 20, stdout.lock());
    let mut obj = Obj::None;
    let mut dead = false;
    for line in text.lines() {
        let line = line.trim();
        if line.is_empty() || line.starts_with('#') {
            continue;
        }
        if line.starts_with('@') {
            writeln!(out, "{}", line).unwrap();
            obj = Obj::None;
            dead = false;
            continue;
        }
        if dead {
            continue;
        }
        let r = catch_unwind(AssertUnwindSafe(|| exec(&mut obj, line)));
        match r {
            Ok(s) => writeln!(out, "{}", s).unwrap(),
            Err(_) => {
                writeln!(out, "PANIC").unwrap();
                dead = true;
                obj = Obj::None;
            }
        }
    }
    out.flush().unwrap();
}
