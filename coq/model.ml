
(** val xorb : bool -> bool -> bool **)

let xorb b1 b2 =
  if b1 then if b2 then false else true else b2

(** val negb : bool -> bool **)

let negb = function
| true -> false
| false -> true

type nat =
| O
| S of nat

(** val fst : ('a1 * 'a2) -> 'a1 **)

let fst = function
| (x, _) -> x

(** val length : 'a1 list -> nat **)

let rec length = function
| [] -> O
| _ :: l' -> S (length l')

(** val app : 'a1 list -> 'a1 list -> 'a1 list **)

let rec app l m =
  match l with
  | [] -> m
  | a :: l1 -> a :: (app l1 m)

type comparison =
| Eq
| Lt
| Gt

(** val compOpp : comparison -> comparison **)

let compOpp = function
| Eq -> Eq
| Lt -> Gt
| Gt -> Lt

module Coq__1 = struct
 (** val add : nat -> nat -> nat **)
 let rec add n0 m =
   match n0 with
   | O -> m
   | S p -> S (add p m)
end
include Coq__1

(** val sub : nat -> nat -> nat **)

let rec sub n0 m =
  match n0 with
  | O -> n0
  | S k -> (match m with
            | O -> n0
            | S l -> sub k l)

type positive =
| XI of positive
| XO of positive
| XH

type n =
| N0
| Npos of positive

type z =
| Z0
| Zpos of positive
| Zneg of positive

(** val eqb : bool -> bool -> bool **)

let eqb b1 b2 =
  if b1 then b2 else if b2 then false else true

module Nat =
 struct
  (** val eqb : nat -> nat -> bool **)

  let rec eqb n0 m =
    match n0 with
    | O -> (match m with
            | O -> true
            | S _ -> false)
    | S n' -> (match m with
               | O -> false
               | S m' -> eqb n' m')
 end

module Pos =
 struct
  (** val succ : positive -> positive **)

  let rec succ = function
  | XI p -> XO (succ p)
  | XO p -> XI p
  | XH -> XO XH

  (** val add : positive -> positive -> positive **)

  let rec add x y =
    match x with
    | XI p ->
      (match y with
       | XI q -> XO (add_carry p q)
       | XO q -> XI (add p q)
       | XH -> XO (succ p))
    | XO p ->
      (match y with
       | XI q -> XI (add p q)
       | XO q -> XO (add p q)
       | XH -> XI p)
    | XH -> (match y with
             | XI q -> XO (succ q)
             | XO q -> XI q
             | XH -> XO XH)

  (** val add_carry : positive -> positive -> positive **)

  and add_carry x y =
    match x with
    | XI p ->
      (match y with
       | XI q -> XI (add_carry p q)
       | XO q -> XO (add_carry p q)
       | XH -> XI (succ p))
    | XO p ->
      (match y with
       | XI q -> XO (add_carry p q)
       | XO q -> XI (add p q)
       | XH -> XO (succ p))
    | XH ->
      (match y with
       | XI q -> XI (succ q)
       | XO q -> XO (succ q)
       | XH -> XI XH)

  (** val pred_double : positive -> positive **)

  let rec pred_double = function
  | XI p -> XI (XO p)
  | XO p -> XI (pred_double p)
  | XH -> XH

  (** val pred_N : positive -> n **)

  let pred_N = function
  | XI p -> Npos (XO p)
  | XO p -> Npos (pred_double p)
  | XH -> N0

  (** val mul : positive -> positive -> positive **)

  let rec mul x y =
    match x with
    | XI p -> add y (XO (mul p y))
    | XO p -> XO (mul p y)
    | XH -> y

  (** val iter : ('a1 -> 'a1) -> 'a1 -> positive -> 'a1 **)

  let rec iter f x = function
  | XI n' -> f (iter f (iter f x n') n')
  | XO n' -> iter f (iter f x n') n'
  | XH -> f x

  (** val div2 : positive -> positive **)

  let div2 = function
  | XI p0 -> p0
  | XO p0 -> p0
  | XH -> XH

  (** val div2_up : positive -> positive **)

  let div2_up = function
  | XI p0 -> succ p0
  | XO p0 -> p0
  | XH -> XH

  (** val size : positive -> positive **)

  let rec size = function
  | XI p0 -> succ (size p0)
  | XO p0 -> succ (size p0)
  | XH -> XH

  (** val compare_cont : comparison -> positive -> positive -> comparison **)

  let rec compare_cont r x y =
    match x with
    | XI p ->
      (match y with
       | XI q -> compare_cont r p q
       | XO q -> compare_cont Gt p q
       | XH -> Gt)
    | XO p ->
      (match y with
       | XI q -> compare_cont Lt p q
       | XO q -> compare_cont r p q
       | XH -> Gt)
    | XH -> (match y with
             | XH -> r
             | _ -> Lt)

  (** val compare : positive -> positive -> comparison **)

  let compare =
    compare_cont Eq

  (** val eqb : positive -> positive -> bool **)

  let rec eqb p q =
    match p with
    | XI p0 -> (match q with
                | XI q0 -> eqb p0 q0
                | _ -> false)
    | XO p0 -> (match q with
                | XO q0 -> eqb p0 q0
                | _ -> false)
    | XH -> (match q with
             | XH -> true
             | _ -> false)

  (** val coq_Nsucc_double : n -> n **)

  let coq_Nsucc_double = function
  | N0 -> Npos XH
  | Npos p -> Npos (XI p)

  (** val coq_Ndouble : n -> n **)

  let coq_Ndouble = function
  | N0 -> N0
  | Npos p -> Npos (XO p)

  (** val coq_lor : positive -> positive -> positive **)

  let rec coq_lor p q =
    match p with
    | XI p0 ->
      (match q with
       | XI q0 -> XI (coq_lor p0 q0)
       | XO q0 -> XI (coq_lor p0 q0)
       | XH -> p)
    | XO p0 ->
      (match q with
       | XI q0 -> XI (coq_lor p0 q0)
       | XO q0 -> XO (coq_lor p0 q0)
       | XH -> XI p0)
    | XH -> (match q with
             | XO q0 -> XI q0
             | _ -> q)

  (** val coq_land : positive -> positive -> n **)

  let rec coq_land p q =
    match p with
    | XI p0 ->
      (match q with
       | XI q0 -> coq_Nsucc_double (coq_land p0 q0)
       | XO q0 -> coq_Ndouble (coq_land p0 q0)
       | XH -> Npos XH)
    | XO p0 ->
      (match q with
       | XI q0 -> coq_Ndouble (coq_land p0 q0)
       | XO q0 -> coq_Ndouble (coq_land p0 q0)
       | XH -> N0)
    | XH -> (match q with
             | XO _ -> N0
             | _ -> Npos XH)

  (** val ldiff : positive -> positive -> n **)

  let rec ldiff p q =
    match p with
    | XI p0 ->
      (match q with
       | XI q0 -> coq_Ndouble (ldiff p0 q0)
       | XO q0 -> coq_Nsucc_double (ldiff p0 q0)
       | XH -> Npos (XO p0))
    | XO p0 ->
      (match q with
       | XI q0 -> coq_Ndouble (ldiff p0 q0)
       | XO q0 -> coq_Ndouble (ldiff p0 q0)
       | XH -> Npos p)
    | XH -> (match q with
             | XO _ -> Npos XH
             | _ -> N0)

  (** val testbit : positive -> n -> bool **)

  let rec testbit p n0 =
    match p with
    | XI p0 -> (match n0 with
                | N0 -> true
                | Npos n1 -> testbit p0 (pred_N n1))
    | XO p0 -> (match n0 with
                | N0 -> false
                | Npos n1 -> testbit p0 (pred_N n1))
    | XH -> (match n0 with
             | N0 -> true
             | Npos _ -> false)

  (** val iter_op : ('a1 -> 'a1 -> 'a1) -> positive -> 'a1 -> 'a1 **)

  let rec iter_op op p a =
    match p with
    | XI p0 -> op a (iter_op op p0 (op a a))
    | XO p0 -> iter_op op p0 (op a a)
    | XH -> a

  (** val to_nat : positive -> nat **)

  let to_nat x =
    iter_op Coq__1.add x (S O)

  (** val of_succ_nat : nat -> positive **)

  let rec of_succ_nat = function
  | O -> XH
  | S x -> succ (of_succ_nat x)
 end

module N =
 struct
  (** val succ_pos : n -> positive **)

  let succ_pos = function
  | N0 -> XH
  | Npos p -> Pos.succ p

  (** val coq_lor : n -> n -> n **)

  let coq_lor n0 m =
    match n0 with
    | N0 -> m
    | Npos p -> (match m with
                 | N0 -> n0
                 | Npos q -> Npos (Pos.coq_lor p q))

  (** val coq_land : n -> n -> n **)

  let coq_land n0 m =
    match n0 with
    | N0 -> N0
    | Npos p -> (match m with
                 | N0 -> N0
                 | Npos q -> Pos.coq_land p q)

  (** val ldiff : n -> n -> n **)

  let ldiff n0 m =
    match n0 with
    | N0 -> N0
    | Npos p -> (match m with
                 | N0 -> n0
                 | Npos q -> Pos.ldiff p q)

  (** val testbit : n -> n -> bool **)

  let testbit a n0 =
    match a with
    | N0 -> false
    | Npos p -> Pos.testbit p n0
 end

module Z =
 struct
  (** val double : z -> z **)

  let double = function
  | Z0 -> Z0
  | Zpos p -> Zpos (XO p)
  | Zneg p -> Zneg (XO p)

  (** val succ_double : z -> z **)

  let succ_double = function
  | Z0 -> Zpos XH
  | Zpos p -> Zpos (XI p)
  | Zneg p -> Zneg (Pos.pred_double p)

  (** val pred_double : z -> z **)

  let pred_double = function
  | Z0 -> Zneg XH
  | Zpos p -> Zpos (Pos.pred_double p)
  | Zneg p -> Zneg (XI p)

  (** val pos_sub : positive -> positive -> z **)

  let rec pos_sub x y =
    match x with
    | XI p ->
      (match y with
       | XI q -> double (pos_sub p q)
       | XO q -> succ_double (pos_sub p q)
       | XH -> Zpos (XO p))
    | XO p ->
      (match y with
       | XI q -> pred_double (pos_sub p q)
       | XO q -> double (pos_sub p q)
       | XH -> Zpos (Pos.pred_double p))
    | XH ->
      (match y with
       | XI q -> Zneg (XO q)
       | XO q -> Zneg (Pos.pred_double q)
       | XH -> Z0)

  (** val add : z -> z -> z **)

  let add x y =
    match x with
    | Z0 -> y
    | Zpos x' ->
      (match y with
       | Z0 -> x
       | Zpos y' -> Zpos (Pos.add x' y')
       | Zneg y' -> pos_sub x' y')
    | Zneg x' ->
      (match y with
       | Z0 -> x
       | Zpos y' -> pos_sub y' x'
       | Zneg y' -> Zneg (Pos.add x' y'))

  (** val opp : z -> z **)

  let opp = function
  | Z0 -> Z0
  | Zpos x0 -> Zneg x0
  | Zneg x0 -> Zpos x0

  (** val pred : z -> z **)

  let pred x =
    add x (Zneg XH)

  (** val sub : z -> z -> z **)

  let sub m n0 =
    add m (opp n0)

  (** val mul : z -> z -> z **)

  let mul x y =
    match x with
    | Z0 -> Z0
    | Zpos x' ->
      (match y with
       | Z0 -> Z0
       | Zpos y' -> Zpos (Pos.mul x' y')
       | Zneg y' -> Zneg (Pos.mul x' y'))
    | Zneg x' ->
      (match y with
       | Z0 -> Z0
       | Zpos y' -> Zneg (Pos.mul x' y')
       | Zneg y' -> Zpos (Pos.mul x' y'))

  (** val pow_pos : z -> positive -> z **)

  let pow_pos z0 =
    Pos.iter (mul z0) (Zpos XH)

  (** val pow : z -> z -> z **)

  let pow x = function
  | Z0 -> Zpos XH
  | Zpos p -> pow_pos x p
  | Zneg _ -> Z0

  (** val compare : z -> z -> comparison **)

  let compare x y =
    match x with
    | Z0 -> (match y with
             | Z0 -> Eq
             | Zpos _ -> Lt
             | Zneg _ -> Gt)
    | Zpos x' -> (match y with
                  | Zpos y' -> Pos.compare x' y'
                  | _ -> Gt)
    | Zneg x' ->
      (match y with
       | Zneg y' -> compOpp (Pos.compare x' y')
       | _ -> Lt)

  (** val leb : z -> z -> bool **)

  let leb x y =
    match compare x y with
    | Gt -> false
    | _ -> true

  (** val ltb : z -> z -> bool **)

  let ltb x y =
    match compare x y with
    | Lt -> true
    | _ -> false

  (** val eqb : z -> z -> bool **)

  let eqb x y =
    match x with
    | Z0 -> (match y with
             | Z0 -> true
             | _ -> false)
    | Zpos p -> (match y with
                 | Zpos q -> Pos.eqb p q
                 | _ -> false)
    | Zneg p -> (match y with
                 | Zneg q -> Pos.eqb p q
                 | _ -> false)

  (** val max : z -> z -> z **)

  let max n0 m =
    match compare n0 m with
    | Lt -> m
    | _ -> n0

  (** val min : z -> z -> z **)

  let min n0 m =
    match compare n0 m with
    | Gt -> m
    | _ -> n0

  (** val to_nat : z -> nat **)

  let to_nat = function
  | Zpos p -> Pos.to_nat p
  | _ -> O

  (** val of_nat : nat -> z **)

  let of_nat = function
  | O -> Z0
  | S n1 -> Zpos (Pos.of_succ_nat n1)

  (** val of_N : n -> z **)

  let of_N = function
  | N0 -> Z0
  | Npos p -> Zpos p

  (** val to_pos : z -> positive **)

  let to_pos = function
  | Zpos p -> p
  | _ -> XH

  (** val pos_div_eucl : positive -> z -> z * z **)

  let rec pos_div_eucl a b =
    match a with
    | XI a' ->
      let (q, r) = pos_div_eucl a' b in
      let r' = add (mul (Zpos (XO XH)) r) (Zpos XH) in
      if ltb r' b
      then ((mul (Zpos (XO XH)) q), r')
      else ((add (mul (Zpos (XO XH)) q) (Zpos XH)), (sub r' b))
    | XO a' ->
      let (q, r) = pos_div_eucl a' b in
      let r' = mul (Zpos (XO XH)) r in
      if ltb r' b
      then ((mul (Zpos (XO XH)) q), r')
      else ((add (mul (Zpos (XO XH)) q) (Zpos XH)), (sub r' b))
    | XH -> if leb (Zpos (XO XH)) b then (Z0, (Zpos XH)) else ((Zpos XH), Z0)

  (** val div_eucl : z -> z -> z * z **)

  let div_eucl a b =
    match a with
    | Z0 -> (Z0, Z0)
    | Zpos a' ->
      (match b with
       | Z0 -> (Z0, a)
       | Zpos _ -> pos_div_eucl a' b
       | Zneg b' ->
         let (q, r) = pos_div_eucl a' (Zpos b') in
         (match r with
          | Z0 -> ((opp q), Z0)
          | _ -> ((opp (add q (Zpos XH))), (add b r))))
    | Zneg a' ->
      (match b with
       | Z0 -> (Z0, a)
       | Zpos _ ->
         let (q, r) = pos_div_eucl a' b in
         (match r with
          | Z0 -> ((opp q), Z0)
          | _ -> ((opp (add q (Zpos XH))), (sub b r)))
       | Zneg b' -> let (q, r) = pos_div_eucl a' (Zpos b') in (q, (opp r)))

  (** val div : z -> z -> z **)

  let div a b =
    let (q, _) = div_eucl a b in q

  (** val modulo : z -> z -> z **)

  let modulo a b =
    let (_, r) = div_eucl a b in r

  (** val even : z -> bool **)

  let even = function
  | Z0 -> true
  | Zpos p -> (match p with
               | XO _ -> true
               | _ -> false)
  | Zneg p -> (match p with
               | XO _ -> true
               | _ -> false)

  (** val odd : z -> bool **)

  let odd = function
  | Z0 -> false
  | Zpos p -> (match p with
               | XO _ -> false
               | _ -> true)
  | Zneg p -> (match p with
               | XO _ -> false
               | _ -> true)

  (** val div2 : z -> z **)

  let div2 = function
  | Z0 -> Z0
  | Zpos p -> (match p with
               | XH -> Z0
               | _ -> Zpos (Pos.div2 p))
  | Zneg p -> Zneg (Pos.div2_up p)

  (** val log2 : z -> z **)

  let log2 = function
  | Zpos p0 ->
    (match p0 with
     | XI p -> Zpos (Pos.size p)
     | XO p -> Zpos (Pos.size p)
     | XH -> Z0)
  | _ -> Z0

  (** val testbit : z -> z -> bool **)

  let testbit a = function
  | Z0 -> odd a
  | Zpos p ->
    (match a with
     | Z0 -> false
     | Zpos a0 -> Pos.testbit a0 (Npos p)
     | Zneg a0 -> negb (N.testbit (Pos.pred_N a0) (Npos p)))
  | Zneg _ -> false

  (** val shiftl : z -> z -> z **)

  let shiftl a = function
  | Z0 -> a
  | Zpos p -> Pos.iter (mul (Zpos (XO XH))) a p
  | Zneg p -> Pos.iter div2 a p

  (** val shiftr : z -> z -> z **)

  let shiftr a n0 =
    shiftl a (opp n0)

  (** val coq_lor : z -> z -> z **)

  let coq_lor a b =
    match a with
    | Z0 -> b
    | Zpos a0 ->
      (match b with
       | Z0 -> a
       | Zpos b0 -> Zpos (Pos.coq_lor a0 b0)
       | Zneg b0 -> Zneg (N.succ_pos (N.ldiff (Pos.pred_N b0) (Npos a0))))
    | Zneg a0 ->
      (match b with
       | Z0 -> a
       | Zpos b0 -> Zneg (N.succ_pos (N.ldiff (Pos.pred_N a0) (Npos b0)))
       | Zneg b0 ->
         Zneg (N.succ_pos (N.coq_land (Pos.pred_N a0) (Pos.pred_N b0))))

  (** val coq_land : z -> z -> z **)

  let coq_land a b =
    match a with
    | Z0 -> Z0
    | Zpos a0 ->
      (match b with
       | Z0 -> Z0
       | Zpos b0 -> of_N (Pos.coq_land a0 b0)
       | Zneg b0 -> of_N (N.ldiff (Npos a0) (Pos.pred_N b0)))
    | Zneg a0 ->
      (match b with
       | Z0 -> Z0
       | Zpos b0 -> of_N (N.ldiff (Npos b0) (Pos.pred_N a0))
       | Zneg b0 ->
         Zneg (N.succ_pos (N.coq_lor (Pos.pred_N a0) (Pos.pred_N b0))))

  (** val lnot : z -> z **)

  let lnot a =
    pred (opp a)
 end

(** val zeq_bool : z -> z -> bool **)

let zeq_bool x y =
  match Z.compare x y with
  | Eq -> true
  | _ -> false

(** val nth : nat -> 'a1 list -> 'a1 -> 'a1 **)

let rec nth n0 l default =
  match n0 with
  | O -> (match l with
          | [] -> default
          | x :: _ -> x)
  | S m -> (match l with
            | [] -> default
            | _ :: t -> nth m t default)

(** val last : 'a1 list -> 'a1 -> 'a1 **)

let rec last l d =
  match l with
  | [] -> d
  | a :: l0 -> (match l0 with
                | [] -> a
                | _ :: _ -> last l0 d)

(** val map : ('a1 -> 'a2) -> 'a1 list -> 'a2 list **)

let rec map f = function
| [] -> []
| a :: t -> (f a) :: (map f t)

(** val flat_map : ('a1 -> 'a2 list) -> 'a1 list -> 'a2 list **)

let rec flat_map f = function
| [] -> []
| x :: t -> app (f x) (flat_map f t)

(** val fold_left : ('a1 -> 'a2 -> 'a1) -> 'a2 list -> 'a1 -> 'a1 **)

let rec fold_left f l a0 =
  match l with
  | [] -> a0
  | b :: t -> fold_left f t (f a0 b)

(** val filter : ('a1 -> bool) -> 'a1 list -> 'a1 list **)

let rec filter f = function
| [] -> []
| x :: l0 -> if f x then x :: (filter f l0) else filter f l0

(** val firstn : nat -> 'a1 list -> 'a1 list **)

let rec firstn n0 l =
  match n0 with
  | O -> []
  | S n1 -> (match l with
             | [] -> []
             | a :: l0 -> a :: (firstn n1 l0))

(** val skipn : nat -> 'a1 list -> 'a1 list **)

let rec skipn n0 l =
  match n0 with
  | O -> l
  | S n1 -> (match l with
             | [] -> []
             | _ :: l0 -> skipn n1 l0)

(** val repeat : 'a1 -> nat -> 'a1 list **)

let rec repeat x = function
| O -> []
| S k -> x :: (repeat x k)

(** val shift_pos : positive -> positive -> positive **)

let shift_pos n0 z0 =
  Pos.iter (fun x -> XO x) z0 n0

type spec_float =
| S754_zero of bool
| S754_infinity of bool
| S754_nan
| S754_finite of bool * positive * z

(** val emin : z -> z -> z **)

let emin prec0 emax0 =
  Z.sub (Z.sub (Zpos (XI XH)) emax0) prec0

(** val fexp : z -> z -> z -> z **)

let fexp prec0 emax0 e =
  Z.max (Z.sub e prec0) (emin prec0 emax0)

(** val digits2_pos : positive -> positive **)

let rec digits2_pos = function
| XI p -> Pos.succ (digits2_pos p)
| XO p -> Pos.succ (digits2_pos p)
| XH -> XH

(** val zdigits2 : z -> z **)

let zdigits2 n0 = match n0 with
| Z0 -> n0
| Zpos p -> Zpos (digits2_pos p)
| Zneg p -> Zpos (digits2_pos p)

(** val iter_pos : ('a1 -> 'a1) -> positive -> 'a1 -> 'a1 **)

let rec iter_pos f n0 x =
  match n0 with
  | XI n' -> iter_pos f n' (iter_pos f n' (f x))
  | XO n' -> iter_pos f n' (iter_pos f n' x)
  | XH -> f x

type location =
| Loc_Exact
| Loc_Inexact of comparison

type shr_record = { shr_m : z; shr_r : bool; shr_s : bool }

(** val shr_1 : shr_record -> shr_record **)

let shr_1 mrs =
  let { shr_m = m; shr_r = r; shr_s = s } = mrs in
  let s0 = (||) r s in
  (match m with
   | Z0 -> { shr_m = Z0; shr_r = false; shr_s = s0 }
   | Zpos p0 ->
     (match p0 with
      | XI p -> { shr_m = (Zpos p); shr_r = true; shr_s = s0 }
      | XO p -> { shr_m = (Zpos p); shr_r = false; shr_s = s0 }
      | XH -> { shr_m = Z0; shr_r = true; shr_s = s0 })
   | Zneg p0 ->
     (match p0 with
      | XI p -> { shr_m = (Zneg p); shr_r = true; shr_s = s0 }
      | XO p -> { shr_m = (Zneg p); shr_r = false; shr_s = s0 }
      | XH -> { shr_m = Z0; shr_r = true; shr_s = s0 }))

(** val loc_of_shr_record : shr_record -> location **)

let loc_of_shr_record mrs =
  let { shr_m = _; shr_r = shr_r0; shr_s = shr_s0 } = mrs in
  if shr_r0
  then if shr_s0 then Loc_Inexact Gt else Loc_Inexact Eq
  else if shr_s0 then Loc_Inexact Lt else Loc_Exact

(** val shr_record_of_loc : z -> location -> shr_record **)

let shr_record_of_loc m = function
| Loc_Exact -> { shr_m = m; shr_r = false; shr_s = false }
| Loc_Inexact c ->
  (match c with
   | Eq -> { shr_m = m; shr_r = true; shr_s = false }
   | Lt -> { shr_m = m; shr_r = false; shr_s = true }
   | Gt -> { shr_m = m; shr_r = true; shr_s = true })

(** val shr : shr_record -> z -> z -> shr_record * z **)

let shr mrs e n0 = match n0 with
| Zpos p -> ((iter_pos shr_1 p mrs), (Z.add e n0))
| _ -> (mrs, e)

(** val shr_fexp : z -> z -> z -> z -> location -> shr_record * z **)

let shr_fexp prec0 emax0 m e l =
  shr (shr_record_of_loc m l) e
    (Z.sub (fexp prec0 emax0 (Z.add (zdigits2 m) e)) e)

(** val shl_align : positive -> z -> z -> positive * z **)

let shl_align mx ex ex' =
  match Z.sub ex' ex with
  | Zneg d -> ((shift_pos d mx), ex')
  | _ -> (mx, ex)

(** val sFcompare : spec_float -> spec_float -> comparison option **)

let sFcompare f1 f2 =
  match f1 with
  | S754_zero _ ->
    (match f2 with
     | S754_zero _ -> Some Eq
     | S754_infinity s -> Some (if s then Gt else Lt)
     | S754_nan -> None
     | S754_finite (s, _, _) -> Some (if s then Gt else Lt))
  | S754_infinity s ->
    (match f2 with
     | S754_infinity s0 ->
       Some (if s then if s0 then Eq else Lt else if s0 then Gt else Eq)
     | S754_nan -> None
     | _ -> Some (if s then Lt else Gt))
  | S754_nan -> None
  | S754_finite (s1, m1, e1) ->
    (match f2 with
     | S754_zero _ -> Some (if s1 then Lt else Gt)
     | S754_infinity s -> Some (if s then Gt else Lt)
     | S754_nan -> None
     | S754_finite (s2, m2, e2) ->
       Some
         (if s1
          then if s2
               then (match Z.compare e1 e2 with
                     | Eq -> compOpp (Pos.compare_cont Eq m1 m2)
                     | Lt -> Gt
                     | Gt -> Lt)
               else Lt
          else if s2
               then Gt
               else (match Z.compare e1 e2 with
                     | Eq -> Pos.compare_cont Eq m1 m2
                     | x -> x)))

(** val sFltb : spec_float -> spec_float -> bool **)

let sFltb f1 f2 =
  match sFcompare f1 f2 with
  | Some c -> (match c with
               | Lt -> true
               | _ -> false)
  | None -> false

(** val sFleb : spec_float -> spec_float -> bool **)

let sFleb f1 f2 =
  match sFcompare f1 f2 with
  | Some c -> (match c with
               | Gt -> false
               | _ -> true)
  | None -> false

(** val cond_Zopp : bool -> z -> z **)

let cond_Zopp b m =
  if b then Z.opp m else m

(** val new_location_even : z -> z -> location **)

let new_location_even nb_steps k =
  if zeq_bool k Z0
  then Loc_Exact
  else Loc_Inexact (Z.compare (Z.mul (Zpos (XO XH)) k) nb_steps)

(** val new_location_odd : z -> z -> location **)

let new_location_odd nb_steps k =
  if zeq_bool k Z0
  then Loc_Exact
  else Loc_Inexact
         (match Z.compare (Z.add (Z.mul (Zpos (XO XH)) k) (Zpos XH)) nb_steps with
          | Eq -> Lt
          | x -> x)

(** val new_location : z -> z -> location **)

let new_location nb_steps =
  if Z.even nb_steps
  then new_location_even nb_steps
  else new_location_odd nb_steps

(** val sFdiv_core_binary :
    z -> z -> z -> z -> z -> z -> (z * z) * location **)

let sFdiv_core_binary prec0 emax0 m1 e1 m2 e2 =
  let d1 = zdigits2 m1 in
  let d2 = zdigits2 m2 in
  let e' =
    Z.min (fexp prec0 emax0 (Z.sub (Z.add d1 e1) (Z.add d2 e2))) (Z.sub e1 e2)
  in
  let s = Z.sub (Z.sub e1 e2) e' in
  let m' = match s with
           | Z0 -> m1
           | Zpos _ -> Z.shiftl m1 s
           | Zneg _ -> Z0 in
  let (q, r) = Z.div_eucl m' m2 in ((q, e'), (new_location m2 r))

(** val cond_incr : bool -> z -> z **)

let cond_incr b m =
  if b then Z.add m (Zpos XH) else m

(** val round_sign_DN : bool -> location -> bool **)

let round_sign_DN s = function
| Loc_Exact -> false
| Loc_Inexact _ -> s

(** val round_sign_UP : bool -> location -> bool **)

let round_sign_UP s = function
| Loc_Exact -> false
| Loc_Inexact _ -> negb s

(** val round_N : bool -> location -> bool **)

let round_N p = function
| Loc_Exact -> false
| Loc_Inexact c -> (match c with
                    | Eq -> p
                    | Lt -> false
                    | Gt -> true)

type binary_float =
| B754_zero of bool
| B754_infinity of bool
| B754_nan
| B754_finite of bool * positive * z

(** val sF2B : z -> z -> spec_float -> binary_float **)

let sF2B _ _ = function
| S754_zero s -> B754_zero s
| S754_infinity s -> B754_infinity s
| S754_nan -> B754_nan
| S754_finite (s, m, e) -> B754_finite (s, m, e)

(** val b2SF : z -> z -> binary_float -> spec_float **)

let b2SF _ _ = function
| B754_zero s -> S754_zero s
| B754_infinity s -> S754_infinity s
| B754_nan -> S754_nan
| B754_finite (s, m, e) -> S754_finite (s, m, e)

(** val is_nan : z -> z -> binary_float -> bool **)

let is_nan _ _ = function
| B754_nan -> true
| _ -> false

(** val bopp : z -> z -> binary_float -> binary_float **)

let bopp _ _ x = match x with
| B754_zero sx -> B754_zero (negb sx)
| B754_infinity sx -> B754_infinity (negb sx)
| B754_nan -> x
| B754_finite (sx, mx, ex) -> B754_finite ((negb sx), mx, ex)

(** val bltb : z -> z -> binary_float -> binary_float -> bool **)

let bltb prec0 emax0 f1 f2 =
  sFltb (b2SF prec0 emax0 f1) (b2SF prec0 emax0 f2)

(** val bleb : z -> z -> binary_float -> binary_float -> bool **)

let bleb prec0 emax0 f1 f2 =
  sFleb (b2SF prec0 emax0 f1) (b2SF prec0 emax0 f2)

type mode =
| Mode_NE
| Mode_ZR
| Mode_DN
| Mode_UP
| Mode_NA

(** val choice_mode : mode -> bool -> z -> location -> z **)

let choice_mode m sx mx lx =
  match m with
  | Mode_NE -> cond_incr (round_N (negb (Z.even mx)) lx) mx
  | Mode_ZR -> mx
  | Mode_DN -> cond_incr (round_sign_DN sx lx) mx
  | Mode_UP -> cond_incr (round_sign_UP sx lx) mx
  | Mode_NA -> cond_incr (round_N true lx) mx

(** val overflow_to_inf : mode -> bool -> bool **)

let overflow_to_inf m s =
  match m with
  | Mode_ZR -> false
  | Mode_DN -> s
  | Mode_UP -> negb s
  | _ -> true

(** val binary_overflow : z -> z -> mode -> bool -> spec_float **)

let binary_overflow prec0 emax0 m s =
  if overflow_to_inf m s
  then S754_infinity s
  else S754_finite (s,
         (Z.to_pos (Z.sub (Z.pow (Zpos (XO XH)) prec0) (Zpos XH))),
         (Z.sub emax0 prec0))

(** val binary_fit_aux :
    z -> z -> mode -> bool -> positive -> z -> spec_float **)

let binary_fit_aux prec0 emax0 mode0 sx mx ex =
  if Z.leb ex (Z.sub emax0 prec0)
  then S754_finite (sx, mx, ex)
  else binary_overflow prec0 emax0 mode0 sx

(** val binary_round_aux :
    z -> z -> mode -> bool -> z -> z -> location -> spec_float **)

let binary_round_aux prec0 emax0 mode0 sx mx ex lx =
  let (mrs', e') = shr_fexp prec0 emax0 mx ex lx in
  let (mrs'', e'') =
    shr_fexp prec0 emax0
      (choice_mode mode0 sx mrs'.shr_m (loc_of_shr_record mrs')) e' Loc_Exact
  in
  (match mrs''.shr_m with
   | Z0 -> S754_zero sx
   | Zpos m -> binary_fit_aux prec0 emax0 mode0 sx m e''
   | Zneg _ -> S754_nan)

(** val bmult :
    z -> z -> mode -> binary_float -> binary_float -> binary_float **)

let bmult prec0 emax0 m x y =
  match x with
  | B754_zero sx ->
    (match y with
     | B754_zero sy -> B754_zero (xorb sx sy)
     | B754_finite (sy, _, _) -> B754_zero (xorb sx sy)
     | _ -> B754_nan)
  | B754_infinity sx ->
    (match y with
     | B754_infinity sy -> B754_infinity (xorb sx sy)
     | B754_finite (sy, _, _) -> B754_infinity (xorb sx sy)
     | _ -> B754_nan)
  | B754_nan -> B754_nan
  | B754_finite (sx, mx, ex) ->
    (match y with
     | B754_zero sy -> B754_zero (xorb sx sy)
     | B754_infinity sy -> B754_infinity (xorb sx sy)
     | B754_nan -> B754_nan
     | B754_finite (sy, my, ey) ->
       sF2B prec0 emax0
         (binary_round_aux prec0 emax0 m (xorb sx sy) (Zpos (Pos.mul mx my))
           (Z.add ex ey) Loc_Exact))

(** val shl_align_fexp : z -> z -> positive -> z -> positive * z **)

let shl_align_fexp prec0 emax0 mx ex =
  shl_align mx ex (fexp prec0 emax0 (Z.add (Zpos (digits2_pos mx)) ex))

(** val binary_round :
    z -> z -> mode -> bool -> positive -> z -> spec_float **)

let binary_round prec0 emax0 m sx mx ex =
  let (mz, ez) = shl_align_fexp prec0 emax0 mx ex in
  binary_round_aux prec0 emax0 m sx (Zpos mz) ez Loc_Exact

(** val binary_normalize :
    z -> z -> mode -> z -> z -> bool -> binary_float **)

let binary_normalize prec0 emax0 mode0 m e szero =
  match m with
  | Z0 -> B754_zero szero
  | Zpos m0 -> sF2B prec0 emax0 (binary_round prec0 emax0 mode0 false m0 e)
  | Zneg m0 -> sF2B prec0 emax0 (binary_round prec0 emax0 mode0 true m0 e)

(** val fplus_naive :
    bool -> positive -> z -> bool -> positive -> z -> z -> z **)

let fplus_naive sx mx ex sy my ey ez =
  Z.add (cond_Zopp sx (Zpos (fst (shl_align mx ex ez))))
    (cond_Zopp sy (Zpos (fst (shl_align my ey ez))))

(** val bplus :
    z -> z -> mode -> binary_float -> binary_float -> binary_float **)

let bplus prec0 emax0 m x y =
  match x with
  | B754_zero sx ->
    (match y with
     | B754_zero sy ->
       if eqb sx sy
       then x
       else (match m with
             | Mode_DN -> B754_zero true
             | _ -> B754_zero false)
     | B754_nan -> B754_nan
     | _ -> y)
  | B754_infinity sx ->
    (match y with
     | B754_infinity sy -> if eqb sx sy then x else B754_nan
     | B754_nan -> B754_nan
     | _ -> x)
  | B754_nan -> B754_nan
  | B754_finite (sx, mx, ex) ->
    (match y with
     | B754_zero _ -> x
     | B754_infinity _ -> y
     | B754_nan -> B754_nan
     | B754_finite (sy, my, ey) ->
       let ez = Z.min ex ey in
       binary_normalize prec0 emax0 m (fplus_naive sx mx ex sy my ey ez) ez
         (match m with
          | Mode_DN -> true
          | _ -> false))

(** val bminus :
    z -> z -> mode -> binary_float -> binary_float -> binary_float **)

let bminus prec0 emax0 m x y =
  match x with
  | B754_zero sx ->
    (match y with
     | B754_zero sy ->
       if eqb sx (negb sy)
       then x
       else (match m with
             | Mode_DN -> B754_zero true
             | _ -> B754_zero false)
     | B754_infinity sy -> B754_infinity (negb sy)
     | B754_nan -> B754_nan
     | B754_finite (sy, my, ey) -> B754_finite ((negb sy), my, ey))
  | B754_infinity sx ->
    (match y with
     | B754_infinity sy -> if eqb sx (negb sy) then x else B754_nan
     | B754_nan -> B754_nan
     | _ -> x)
  | B754_nan -> B754_nan
  | B754_finite (sx, mx, ex) ->
    (match y with
     | B754_zero _ -> x
     | B754_infinity sy -> B754_infinity (negb sy)
     | B754_nan -> B754_nan
     | B754_finite (sy, my, ey) ->
       let ez = Z.min ex ey in
       binary_normalize prec0 emax0 m
         (fplus_naive sx mx ex (negb sy) my ey ez) ez
         (match m with
          | Mode_DN -> true
          | _ -> false))

(** val bdiv :
    z -> z -> mode -> binary_float -> binary_float -> binary_float **)

let bdiv prec0 emax0 m x y =
  match x with
  | B754_zero sx ->
    (match y with
     | B754_infinity sy -> B754_zero (xorb sx sy)
     | B754_finite (sy, _, _) -> B754_zero (xorb sx sy)
     | _ -> B754_nan)
  | B754_infinity sx ->
    (match y with
     | B754_zero sy -> B754_infinity (xorb sx sy)
     | B754_finite (sy, _, _) -> B754_infinity (xorb sx sy)
     | _ -> B754_nan)
  | B754_nan -> B754_nan
  | B754_finite (sx, mx, ex) ->
    (match y with
     | B754_zero sy -> B754_infinity (xorb sx sy)
     | B754_infinity sy -> B754_zero (xorb sx sy)
     | B754_nan -> B754_nan
     | B754_finite (sy, my, ey) ->
       sF2B prec0 emax0
         (let (p, lz) =
            sFdiv_core_binary prec0 emax0 (Zpos mx) ex (Zpos my) ey
          in
          let (mz, ez) = p in
          binary_round_aux prec0 emax0 m (xorb sx sy) mz ez lz))

(** val sFnearbyint_binary_aux : z -> mode -> bool -> positive -> z -> z **)

let sFnearbyint_binary_aux prec0 m sx mx ex =
  if Z.leb Z0 ex
  then Z.mul (Zpos mx) (Z.pow (Zpos (XO XH)) ex)
  else let mrs = { shr_m = (Zpos mx); shr_r = false; shr_s = false } in
       let mrs' =
         if Z.ltb ex (Z.opp prec0)
         then { shr_m = Z0; shr_r = false; shr_s = true }
         else fst (shr mrs ex (Z.opp ex))
       in
       let l' = loc_of_shr_record mrs' in
       let mx' = mrs'.shr_m in choice_mode m sx mx' l'

(** val btrunc : z -> z -> binary_float -> z **)

let btrunc prec0 _ = function
| B754_finite (s, m, e) ->
  cond_Zopp s (sFnearbyint_binary_aux prec0 Mode_ZR s m e)
| _ -> Z0

(** val prec : z **)

let prec =
  Zpos (XO (XO (XO (XI XH))))

(** val emax : z **)

let emax =
  Zpos (XO (XO (XO (XO (XO (XO (XO XH)))))))

type f32 = binary_float

(** val fadd : f32 -> f32 -> f32 **)

let fadd =
  bplus prec emax Mode_NE

(** val fsub : f32 -> f32 -> f32 **)

let fsub =
  bminus prec emax Mode_NE

(** val fmul : f32 -> f32 -> f32 **)

let fmul =
  bmult prec emax Mode_NE

(** val fdiv : f32 -> f32 -> f32 **)

let fdiv =
  bdiv prec emax Mode_NE

(** val fneg : f32 -> f32 **)

let fneg =
  bopp prec emax

(** val flt : f32 -> f32 -> bool **)

let flt =
  bltb prec emax

(** val fle : f32 -> f32 -> bool **)

let fle =
  bleb prec emax

(** val fmax : f32 -> f32 -> f32 **)

let fmax a b =
  if is_nan prec emax a
  then b
  else if is_nan prec emax b then a else if flt a b then b else a

(** val fmin : f32 -> f32 -> f32 **)

let fmin a b =
  if is_nan prec emax a
  then b
  else if is_nan prec emax b then a else if flt b a then b else a

(** val fclamp : f32 -> f32 -> f32 -> f32 **)

let fclamp x lo hi =
  if flt x lo then lo else if flt hi x then hi else x

(** val of_Z : z -> f32 **)

let of_Z z0 =
  binary_normalize prec emax Mode_NE z0 Z0 false

(** val u32_MAX : z **)

let u32_MAX =
  Zpos (XI (XI (XI (XI (XI (XI (XI (XI (XI (XI (XI (XI (XI (XI (XI (XI (XI
    (XI (XI (XI (XI (XI (XI (XI (XI (XI (XI (XI (XI (XI (XI
    XH)))))))))))))))))))))))))))))))

(** val to_u32 : f32 -> z **)

let to_u32 x = match x with
| B754_infinity s -> if s then Z0 else u32_MAX
| B754_finite (_, _, _) -> Z.max Z0 (Z.min u32_MAX (btrunc prec emax x))
| _ -> Z0

(** val frem1 : f32 -> f32 **)

let frem1 x = match x with
| B754_zero s -> B754_zero s
| B754_finite (s, _, _) ->
  let r = fsub x (of_Z (btrunc prec emax x)) in
  (match r with
   | B754_zero _ -> B754_zero s
   | _ -> r)
| _ -> B754_nan

(** val of_bits : z -> f32 **)

let of_bits b =
  let s = Z.testbit b (Zpos (XI (XI (XI (XI XH))))) in
  let e =
    Z.coq_land (Z.shiftr b (Zpos (XI (XI (XI (XO XH)))))) (Zpos (XI (XI (XI
      (XI (XI (XI (XI XH))))))))
  in
  let m =
    Z.coq_land b (Zpos (XI (XI (XI (XI (XI (XI (XI (XI (XI (XI (XI (XI (XI
      (XI (XI (XI (XI (XI (XI (XI (XI (XI XH)))))))))))))))))))))))
  in
  if Z.eqb e (Zpos (XI (XI (XI (XI (XI (XI (XI XH))))))))
  then if Z.eqb m Z0 then B754_infinity s else B754_nan
  else if Z.eqb e Z0
       then if Z.eqb m Z0
            then B754_zero s
            else binary_normalize prec emax Mode_NE
                   (if s then Z.opp m else m) (Zneg (XI (XO (XI (XO (XI (XO
                   (XO XH)))))))) s
       else binary_normalize prec emax Mode_NE
              (if s
               then Z.opp
                      (Z.add m (Zpos (XO (XO (XO (XO (XO (XO (XO (XO (XO (XO
                        (XO (XO (XO (XO (XO (XO (XO (XO (XO (XO (XO (XO (XO
                        XH)))))))))))))))))))))))))
               else Z.add m (Zpos (XO (XO (XO (XO (XO (XO (XO (XO (XO (XO (XO
                      (XO (XO (XO (XO (XO (XO (XO (XO (XO (XO (XO (XO
                      XH)))))))))))))))))))))))))
              (Z.sub e (Zpos (XO (XI (XI (XO (XI (XO (XO XH))))))))) s

(** val to_bits : f32 -> z option **)

let to_bits = function
| B754_zero s ->
  Some
    (if s
     then Zpos (XO (XO (XO (XO (XO (XO (XO (XO (XO (XO (XO (XO (XO (XO (XO
            (XO (XO (XO (XO (XO (XO (XO (XO (XO (XO (XO (XO (XO (XO (XO (XO
            XH)))))))))))))))))))))))))))))))
     else Z0)
| B754_infinity s ->
  Some
    (Z.add
      (if s
       then Zpos (XO (XO (XO (XO (XO (XO (XO (XO (XO (XO (XO (XO (XO (XO (XO
              (XO (XO (XO (XO (XO (XO (XO (XO (XO (XO (XO (XO (XO (XO (XO (XO
              XH)))))))))))))))))))))))))))))))
       else Z0) (Zpos (XO (XO (XO (XO (XO (XO (XO (XO (XO (XO (XO (XO (XO (XO
      (XO (XO (XO (XO (XO (XO (XO (XO (XO (XI (XI (XI (XI (XI (XI (XI
      XH))))))))))))))))))))))))))))))))
| B754_nan -> None
| B754_finite (s, m, e) ->
  let sb =
    if s
    then Zpos (XO (XO (XO (XO (XO (XO (XO (XO (XO (XO (XO (XO (XO (XO (XO (XO
           (XO (XO (XO (XO (XO (XO (XO (XO (XO (XO (XO (XO (XO (XO (XO
           XH)))))))))))))))))))))))))))))))
    else Z0
  in
  if Z.ltb (Zpos m) (Zpos (XO (XO (XO (XO (XO (XO (XO (XO (XO (XO (XO (XO (XO
       (XO (XO (XO (XO (XO (XO (XO (XO (XO (XO XH))))))))))))))))))))))))
  then Some (Z.add sb (Zpos m))
  else Some
         (Z.add
           (Z.add sb
             (Z.mul (Z.add e (Zpos (XO (XI (XI (XO (XI (XO (XO XH)))))))))
               (Zpos (XO (XO (XO (XO (XO (XO (XO (XO (XO (XO (XO (XO (XO (XO
               (XO (XO (XO (XO (XO (XO (XO (XO (XO XH))))))))))))))))))))))))))
           (Z.sub (Zpos m) (Zpos (XO (XO (XO (XO (XO (XO (XO (XO (XO (XO (XO
             (XO (XO (XO (XO (XO (XO (XO (XO (XO (XO (XO (XO
             XH))))))))))))))))))))))))))

(** val f_0 : f32 **)

let f_0 =
  B754_zero false

(** val f_n0 : f32 **)

let f_n0 =
  B754_zero true

(** val f_1 : f32 **)

let f_1 =
  of_Z (Zpos XH)

(** val f_2 : f32 **)

let f_2 =
  of_Z (Zpos (XO XH))

(** val f_3 : f32 **)

let f_3 =
  of_Z (Zpos (XI XH))

(** val f_4 : f32 **)

let f_4 =
  of_Z (Zpos (XO (XO XH)))

(** val f_12 : f32 **)

let f_12 =
  of_Z (Zpos (XO (XO (XI XH))))

(** val f_127 : f32 **)

let f_127 =
  of_Z (Zpos (XI (XI (XI (XI (XI (XI XH)))))))

(** val f_half : f32 **)

let f_half =
  of_bits (Zpos (XO (XO (XO (XO (XO (XO (XO (XO (XO (XO (XO (XO (XO (XO (XO
    (XO (XO (XO (XO (XO (XO (XO (XO (XO (XI (XI (XI (XI (XI
    XH))))))))))))))))))))))))))))))

(** val f_m1 : f32 **)

let f_m1 =
  of_Z (Zneg XH)

(** val f_MIN : f32 **)

let f_MIN =
  of_bits (Zpos (XI (XI (XI (XI (XI (XI (XI (XI (XI (XI (XI (XI (XI (XI (XI
    (XI (XI (XI (XI (XI (XI (XI (XI (XO (XI (XI (XI (XI (XI (XI (XI
    XH))))))))))))))))))))))))))))))))

(** val fsum : f32 list -> f32 **)

let fsum l =
  fold_left fadd l f_n0

(** val prec64 : z **)

let prec64 =
  Zpos (XI (XO (XI (XO (XI XH)))))

(** val emax64 : z **)

let emax64 =
  Zpos (XO (XO (XO (XO (XO (XO (XO (XO (XO (XO XH))))))))))

type f64 = binary_float

(** val dadd : f64 -> f64 -> f64 **)

let dadd =
  bplus prec64 emax64 Mode_NE

(** val dsub : f64 -> f64 -> f64 **)

let dsub =
  bminus prec64 emax64 Mode_NE

(** val dmul : f64 -> f64 -> f64 **)

let dmul =
  bmult prec64 emax64 Mode_NE

(** val ddiv : f64 -> f64 -> f64 **)

let ddiv =
  bdiv prec64 emax64 Mode_NE

(** val d_of_Z : z -> f64 **)

let d_of_Z z0 =
  binary_normalize prec64 emax64 Mode_NE z0 Z0 false

(** val f32_to_f64 : f32 -> f64 **)

let f32_to_f64 = function
| B754_finite (s, m, e) ->
  binary_normalize prec64 emax64 Mode_NE (if s then Zneg m else Zpos m) e s
| x0 -> x0

(** val f64_to_f32 : f64 -> f32 **)

let f64_to_f32 = function
| B754_finite (s, m, e) ->
  binary_normalize prec emax Mode_NE (if s then Zneg m else Zpos m) e s
| x0 -> x0

(** val d_of_bits : z -> f64 **)

let d_of_bits b =
  let s = Z.testbit b (Zpos (XI (XI (XI (XI (XI XH)))))) in
  let e =
    Z.coq_land (Z.shiftr b (Zpos (XO (XO (XI (XO (XI XH))))))) (Zpos (XI (XI
      (XI (XI (XI (XI (XI (XI (XI (XI XH)))))))))))
  in
  let m =
    Z.coq_land b (Zpos (XI (XI (XI (XI (XI (XI (XI (XI (XI (XI (XI (XI (XI
      (XI (XI (XI (XI (XI (XI (XI (XI (XI (XI (XI (XI (XI (XI (XI (XI (XI (XI
      (XI (XI (XI (XI (XI (XI (XI (XI (XI (XI (XI (XI (XI (XI (XI (XI (XI (XI
      (XI (XI XH))))))))))))))))))))))))))))))))))))))))))))))))))))
  in
  if Z.eqb e (Zpos (XI (XI (XI (XI (XI (XI (XI (XI (XI (XI XH)))))))))))
  then if Z.eqb m Z0 then B754_infinity s else B754_nan
  else if Z.eqb e Z0
       then if Z.eqb m Z0
            then B754_zero s
            else binary_normalize prec64 emax64 Mode_NE
                   (if s then Z.opp m else m) (Zneg (XO (XI (XO (XO (XI (XI
                   (XO (XO (XO (XO XH))))))))))) s
       else binary_normalize prec64 emax64 Mode_NE
              (if s
               then Z.opp
                      (Z.add m (Zpos (XO (XO (XO (XO (XO (XO (XO (XO (XO (XO
                        (XO (XO (XO (XO (XO (XO (XO (XO (XO (XO (XO (XO (XO
                        (XO (XO (XO (XO (XO (XO (XO (XO (XO (XO (XO (XO (XO
                        (XO (XO (XO (XO (XO (XO (XO (XO (XO (XO (XO (XO (XO
                        (XO (XO (XO
                        XH))))))))))))))))))))))))))))))))))))))))))))))))))))))
               else Z.add m (Zpos (XO (XO (XO (XO (XO (XO (XO (XO (XO (XO (XO
                      (XO (XO (XO (XO (XO (XO (XO (XO (XO (XO (XO (XO (XO (XO
                      (XO (XO (XO (XO (XO (XO (XO (XO (XO (XO (XO (XO (XO (XO
                      (XO (XO (XO (XO (XO (XO (XO (XO (XO (XO (XO (XO (XO
                      XH))))))))))))))))))))))))))))))))))))))))))))))))))))))
              (Z.sub e (Zpos (XI (XI (XO (XO (XI (XI (XO (XO (XO (XO
                XH)))))))))))) s

(** val linear_interp : f32 -> f32 -> f32 -> f32 **)

let linear_interp y0 y1 frac =
  fadd y0 (fmul (fsub y1 y0) frac)

(** val ilog_2 : z -> z **)

let ilog_2 =
  Z.log2

(** val fabs : f32 -> f32 **)

let fabs v =
  if flt v f_0 then fneg v else v

(** val is_almost : f32 -> f32 -> f32 -> bool **)

let is_almost v1 v2 eps =
  fle (fabs (fsub v1 v2)) eps

type pa = { pa_fs : f32; pa_acc : z; pa_last : z; pa_inc : z; pa_rolled : bool }

(** val pa_acc : pa -> z **)

let pa_acc p =
  p.pa_acc

(** val two_tot : z -> z **)

let two_tot tOT0 =
  Z.pow (Zpos (XO XH)) tOT0

(** val mask : z -> z **)

let mask tOT0 =
  Z.sub (Z.pow (Zpos (XO XH)) tOT0) (Zpos XH)

(** val frac_bits : z -> z -> z **)

let frac_bits =
  Z.sub

(** val pa_new : f32 -> pa **)

let pa_new fs =
  { pa_fs = fs; pa_acc = Z0; pa_last = Z0; pa_inc = Z0; pa_rolled = false }

(** val pa_tick_ok : pa -> bool **)

let pa_tick_ok p =
  Z.leb (Z.add p.pa_acc p.pa_inc) u32_MAX

(** val pa_tick : z -> pa -> pa **)

let pa_tick tOT0 p =
  let sum =
    Z.modulo (Z.add p.pa_acc p.pa_inc)
      (Z.pow (Zpos (XO XH)) (Zpos (XO (XO (XO (XO (XO XH)))))))
  in
  let carried = Z.ltb (mask tOT0) sum in
  let acc' = Z.coq_land sum (mask tOT0) in
  { pa_fs = p.pa_fs; pa_acc = acc'; pa_last = acc'; pa_inc = p.pa_inc;
  pa_rolled =
  (if (||) carried (Z.ltb acc' p.pa_last) then true else p.pa_rolled) }

(** val pa_set_frequency : z -> pa -> f32 -> pa **)

let pa_set_frequency tOT0 p f =
  { pa_fs = p.pa_fs; pa_acc = p.pa_acc; pa_last = p.pa_last; pa_inc =
    (to_u32 (fdiv (fmul (of_Z (two_tot tOT0)) f) p.pa_fs)); pa_rolled =
    p.pa_rolled }

(** val pa_set_period : z -> pa -> f32 -> pa **)

let pa_set_period tOT0 p t =
  pa_set_frequency tOT0 p (fdiv f_1 t)

(** val pa_reset : pa -> pa **)

let pa_reset p =
  { pa_fs = p.pa_fs; pa_acc = Z0; pa_last = Z0; pa_inc = p.pa_inc;
    pa_rolled = false }

(** val pa_set_phase : z -> pa -> f32 -> pa **)

let pa_set_phase tOT0 p phase0 =
  let p0 = pa_reset p in
  let ph = if flt phase0 f_0 then fmul phase0 f_m1 else phase0 in
  { pa_fs = p0.pa_fs; pa_acc = (to_u32 (fmul (of_Z (mask tOT0)) (frem1 ph)));
  pa_last = p0.pa_last; pa_inc = p0.pa_inc; pa_rolled = p0.pa_rolled }

(** val pa_ramp : z -> pa -> f32 **)

let pa_ramp tOT0 p =
  fdiv (of_Z p.pa_acc) (of_Z (two_tot tOT0))

(** val pa_index : z -> z -> pa -> z **)

let pa_index tOT0 iDX0 p =
  Z.shiftr p.pa_acc (frac_bits tOT0 iDX0)

(** val pa_fraction : z -> z -> pa -> f32 **)

let pa_fraction tOT0 iDX0 p =
  fdiv
    (of_Z
      (Z.coq_land p.pa_acc
        (Z.sub (Z.pow (Zpos (XO XH)) (frac_bits tOT0 iDX0)) (Zpos XH))))
    (of_Z (Z.pow (Zpos (XO XH)) (frac_bits tOT0 iDX0)))

(** val pa_take_rolled : pa -> bool * pa **)

let pa_take_rolled p =
  (p.pa_rolled, { pa_fs = p.pa_fs; pa_acc = p.pa_acc; pa_last = p.pa_last;
    pa_inc = p.pa_inc; pa_rolled = false })

(** val sINE_TABLE_bits : z list **)

let sINE_TABLE_bits =
  Z0 :: ((Zpos (XO (XO (XO (XI (XI (XO (XI (XI (XI (XO (XO (XO (XO (XO (XI
    (XO (XI (XO (XO (XI (XO (XO (XI (XI (XI (XI (XO (XI (XI
    XH)))))))))))))))))))))))))))))) :: ((Zpos (XI (XI (XI (XI (XI (XO (XI
    (XI (XO (XO (XO (XO (XO (XO (XI (XO (XI (XO (XO (XI (XO (XO (XI (XO (XO
    (XO (XI (XI (XI XH)))))))))))))))))))))))))))))) :: ((Zpos (XI (XO (XO
    (XO (XI (XI (XI (XO (XI (XI (XI (XI (XO (XI (XI (XI (XO (XI (XI (XO (XI
    (XO (XO (XI (XO (XO (XI (XI (XI
    XH)))))))))))))))))))))))))))))) :: ((Zpos (XO (XO (XI (XI (XI (XI (XI
    (XI (XO (XO (XI (XI (XI (XI (XO (XO (XI (XO (XO (XI (XO (XO (XI (XI (XO
    (XO (XI (XI (XI XH)))))))))))))))))))))))))))))) :: ((Zpos (XI (XI (XI
    (XO (XI (XO (XO (XI (XO (XO (XO (XI (XO (XO (XO (XI (XI (XI (XO (XI (XI
    (XI (XI (XI (XO (XO (XI (XI (XI
    XH)))))))))))))))))))))))))))))) :: ((Zpos (XO (XI (XO (XO (XO (XI (XI
    (XI (XO (XO (XO (XI (XO (XI (XI (XI (XO (XI (XI (XO (XI (XO (XO (XO (XI
    (XO (XI (XI (XI XH)))))))))))))))))))))))))))))) :: ((Zpos (XI (XI (XO
    (XO (XO (XO (XO (XO (XO (XO (XI (XI (XO (XO (XO (XO (XO (XO (XO (XO (XI
    (XI (XO (XO (XI (XO (XI (XI (XI
    XH)))))))))))))))))))))))))))))) :: ((Zpos (XI (XO (XO (XO (XI (XI (XI
    (XO (XI (XO (XI (XI (XO (XI (XO (XO (XI (XO (XO (XI (XO (XO (XI (XO (XI
    (XO (XI (XI (XI XH)))))))))))))))))))))))))))))) :: ((Zpos (XI (XO (XI
    (XI (XO (XI (XI (XI (XO (XO (XI (XI (XO (XO (XI (XO (XO (XI (XO (XO (XO
    (XI (XI (XO (XI (XO (XI (XI (XI
    XH)))))))))))))))))))))))))))))) :: ((Zpos (XO (XI (XO (XI (XI (XI (XO
    (XO (XO (XI (XO (XI (XO (XI (XI (XO (XI (XI (XO (XI (XI (XI (XI (XO (XI
    (XO (XI (XI (XI XH)))))))))))))))))))))))))))))) :: ((Zpos (XI (XO (XI
    (XI (XO (XO (XO (XI (XO (XI (XO (XO (XO (XO (XI (XO (XO (XI (XO (XI (XO
    (XO (XO (XI (XI (XO (XI (XI (XI
    XH)))))))))))))))))))))))))))))) :: ((Zpos (XI (XI (XI (XO (XO (XI (XO
    (XI (XO (XI (XI (XI (XO (XO (XI (XI (XO (XI (XI (XO (XI (XO (XO (XI (XI
    (XO (XI (XI (XI XH)))))))))))))))))))))))))))))) :: ((Zpos (XO (XO (XI
    (XI (XO (XO (XI (XO (XI (XO (XO (XI (XI (XO (XI (XO (XI (XI (XO (XO (XO
    (XI (XO (XI (XI (XO (XI (XI (XI
    XH)))))))))))))))))))))))))))))) :: ((Zpos (XI (XO (XI (XI (XI (XO (XI
    (XO (XO (XI (XO (XO (XO (XI (XI (XI (XI (XI (XI (XI (XO (XI (XO (XI (XI
    (XO (XI (XI (XI XH)))))))))))))))))))))))))))))) :: ((Zpos (XO (XO (XI
    (XI (XI (XI (XO (XI (XI (XO (XO (XI (XO (XI (XI (XO (XO (XO (XI (XI (XI
    (XI (XO (XI (XI (XO (XI (XI (XI
    XH)))))))))))))))))))))))))))))) :: ((Zpos (XO (XO (XO (XI (XO (XO (XI
    (XO (XI (XI (XI (XI (XO (XI (XI (XI (XO (XO (XO (XI (XO (XO (XI (XI (XI
    (XO (XI (XI (XI XH)))))))))))))))))))))))))))))) :: ((Zpos (XO (XO (XI
    (XO (XO (XI (XI (XI (XO (XI (XO (XO (XI (XI (XI (XO (XI (XO (XI (XO (XI
    (XO (XI (XI (XI (XO (XI (XI (XI
    XH)))))))))))))))))))))))))))))) :: ((Zpos (XO (XO (XO (XO (XI (XI (XI
    (XO (XO (XO (XI (XO (XI (XI (XI (XI (XI (XO (XO (XO (XO (XI (XI (XI (XI
    (XO (XI (XI (XI XH)))))))))))))))))))))))))))))) :: ((Zpos (XO (XI (XI
    (XI (XO (XO (XI (XI (XI (XI (XO (XO (XI (XI (XI (XO (XO (XI (XI (XI (XO
    (XI (XI (XI (XI (XO (XI (XI (XI
    XH)))))))))))))))))))))))))))))) :: ((Zpos (XO (XI (XI (XI (XI (XO (XI
    (XI (XO (XO (XO (XO (XI (XI (XI (XI (XO (XI (XO (XI (XI (XI (XI (XI (XI
    (XO (XI (XI (XI XH)))))))))))))))))))))))))))))) :: ((Zpos (XI (XO (XO
    (XO (XO (XO (XI (XI (XI (XO (XI (XO (XI (XI (XO (XI (XI (XI (XO (XO (XO
    (XO (XO (XO (XO (XI (XI (XI (XI
    XH)))))))))))))))))))))))))))))) :: ((Zpos (XI (XO (XI (XI (XO (XO (XI
    (XI (XI (XO (XO (XO (XI (XI (XI (XI (XI (XO (XO (XI (XO (XO (XO (XO (XO
    (XI (XI (XI (XI XH)))))))))))))))))))))))))))))) :: ((Zpos (XO (XO (XI
    (XO (XO (XO (XO (XI (XO (XO (XI (XI (XO (XI (XO (XO (XO (XO (XO (XO (XI
    (XO (XO (XO (XO (XI (XI (XI (XI
    XH)))))))))))))))))))))))))))))) :: ((Zpos (XI (XI (XI (XO (XI (XO (XI
    (XI (XI (XO (XI (XO (XO (XI (XI (XO (XO (XI (XI (XO (XI (XO (XO (XO (XO
    (XI (XI (XI (XI XH)))))))))))))))))))))))))))))) :: ((Zpos (XO (XI (XI
    (XO (XI (XI (XO (XI (XI (XO (XI (XI (XI (XO (XO (XI (XO (XO (XI (XI (XI
    (XO (XO (XO (XO (XI (XI (XI (XI
    XH)))))))))))))))))))))))))))))) :: ((Zpos (XO (XI (XO (XO (XI (XO (XO
    (XO (XO (XO (XI (XO (XI (XO (XI (XI (XO (XI (XO (XO (XO (XI (XO (XO (XO
    (XI (XI (XI (XI XH)))))))))))))))))))))))))))))) :: ((Zpos (XI (XI (XO
    (XI (XI (XO (XI (XI (XO (XO (XO (XI (XO (XO (XO (XO (XI (XO (XO (XI (XO
    (XI (XO (XO (XO (XI (XI (XI (XI
    XH)))))))))))))))))))))))))))))) :: ((Zpos (XI (XI (XO (XO (XO (XO (XO
    (XO (XO (XO (XI (XI (XI (XI (XO (XO (XI (XI (XI (XI (XO (XI (XO (XO (XO
    (XI (XI (XI (XI XH)))))))))))))))))))))))))))))) :: ((Zpos (XI (XO (XO
    (XI (XI (XI (XI (XO (XI (XO (XI (XI (XO (XI (XI (XO (XI (XO (XI (XO (XI
    (XI (XO (XO (XO (XI (XI (XI (XI
    XH)))))))))))))))))))))))))))))) :: ((Zpos (XO (XI (XI (XI (XO (XI (XO
    (XO (XI (XO (XI (XI (XI (XO (XO (XI (XI (XI (XO (XI (XI (XI (XO (XO (XO
    (XI (XI (XI (XI XH)))))))))))))))))))))))))))))) :: ((Zpos (XO (XO (XI
    (XO (XI (XO (XO (XO (XI (XI (XO (XI (XO (XO (XI (XI (XI (XO (XO (XO (XO
    (XO (XI (XO (XO (XI (XI (XI (XI
    XH)))))))))))))))))))))))))))))) :: ((Zpos (XI (XI (XO (XI (XI (XO (XO
    (XO (XI (XI (XI (XO (XI (XI (XI (XI (XI (XI (XI (XO (XO (XO (XI (XO (XO
    (XI (XI (XI (XI XH)))))))))))))))))))))))))))))) :: ((Zpos (XI (XI (XO
    (XO (XI (XI (XO (XO (XI (XO (XO (XO (XO (XI (XO (XO (XO (XI (XI (XI (XO
    (XO (XI (XO (XO (XI (XI (XI (XI
    XH)))))))))))))))))))))))))))))) :: ((Zpos (XO (XI (XI (XI (XO (XO (XI
    (XO (XI (XO (XO (XI (XO (XO (XI (XO (XO (XO (XI (XO (XI (XO (XI (XO (XO
    (XI (XI (XI (XI XH)))))))))))))))))))))))))))))) :: ((Zpos (XO (XO (XI
    (XI (XI (XO (XI (XO (XI (XI (XI (XI (XO (XI (XI (XO (XO (XI (XO (XI (XI
    (XO (XI (XO (XO (XI (XI (XI (XI
    XH)))))))))))))))))))))))))))))) :: ((Zpos (XO (XI (XI (XI (XO (XO (XI
    (XO (XI (XI (XO (XO (XI (XO (XO (XI (XO (XO (XO (XO (XO (XI (XI (XO (XO
    (XI (XI (XI (XI XH)))))))))))))))))))))))))))))) :: ((Zpos (XO (XO (XI
    (XO (XI (XO (XO (XO (XI (XO (XI (XO (XI (XI (XO (XI (XO (XI (XI (XO (XO
    (XI (XI (XO (XO (XI (XI (XI (XI
    XH)))))))))))))))))))))))))))))) :: ((Zpos (XI (XO (XO (XO (XO (XI (XO
    (XI (XO (XO (XI (XO (XI (XO (XI (XI (XO (XO (XI (XI (XO (XI (XI (XO (XO
    (XI (XI (XI (XI XH)))))))))))))))))))))))))))))) :: ((Zpos (XI (XI (XO
    (XO (XO (XI (XI (XI (XI (XO (XO (XO (XI (XI (XI (XI (XO (XI (XO (XO (XI
    (XI (XI (XO (XO (XI (XI (XI (XI
    XH)))))))))))))))))))))))))))))) :: ((Zpos (XO (XI (XI (XI (XO (XO (XI
    (XI (XO (XO (XI (XI (XO (XO (XO (XO (XI (XO (XO (XI (XI (XI (XI (XO (XO
    (XI (XI (XI (XI XH)))))))))))))))))))))))))))))) :: ((Zpos (XO (XO (XO
    (XO (XI (XO (XI (XO (XI (XO (XI (XO (XO (XI (XO (XO (XI (XI (XI (XI (XI
    (XI (XI (XO (XO (XI (XI (XI (XI
    XH)))))))))))))))))))))))))))))) :: ((Zpos (XO (XI (XI (XI (XO (XI (XO
    (XI (XI (XO (XI (XI (XI (XO (XO (XI (XO (XI (XO (XO (XO (XO (XO (XI (XO
    (XI (XI (XI (XI XH)))))))))))))))))))))))))))))) :: ((Zpos (XI (XO (XO
    (XO (XI (XI (XI (XO (XI (XI (XI (XO (XO (XI (XO (XI (XI (XO (XI (XO (XO
    (XO (XO (XI (XO (XI (XI (XI (XI
    XH)))))))))))))))))))))))))))))) :: ((Zpos (XI (XO (XO (XI (XO (XI (XI
    (XI (XI (XI (XI (XI (XO (XI (XO (XI (XO (XO (XO (XI (XO (XO (XO (XI (XO
    (XI (XI (XI (XI XH)))))))))))))))))))))))))))))) :: ((Zpos (XO (XO (XO
    (XO (XI (XO (XO (XO (XI (XI (XI (XO (XI (XI (XO (XI (XI (XI (XO (XI (XO
    (XO (XO (XI (XO (XI (XI (XI (XI
    XH)))))))))))))))))))))))))))))) :: ((Zpos (XI (XO (XI (XI (XI (XO (XI
    (XI (XO (XO (XI (XI (XI (XI (XO (XI (XO (XI (XI (XI (XO (XO (XO (XI (XO
    (XI (XI (XI (XI XH)))))))))))))))))))))))))))))) :: ((Zpos (XO (XI (XO
    (XI (XO (XO (XI (XO (XI (XO (XO (XO (XO (XO (XI (XI (XI (XO (XO (XO (XI
    (XO (XO (XI (XO (XI (XI (XI (XI
    XH)))))))))))))))))))))))))))))) :: ((Zpos (XI (XO (XI (XI (XO (XO (XI
    (XO (XO (XO (XI (XO (XO (XO (XI (XI (XO (XO (XI (XO (XI (XO (XO (XI (XO
    (XI (XI (XI (XI XH)))))))))))))))))))))))))))))) :: ((Zpos (XO (XI (XO
    (XO (XO (XI (XI (XI (XI (XO (XI (XO (XO (XO (XI (XI (XI (XI (XI (XO (XI
    (XO (XO (XI (XO (XI (XI (XI (XI
    XH)))))))))))))))))))))))))))))) :: ((Zpos (XI (XI (XI (XI (XI (XI (XI
    (XI (XI (XO (XI (XO (XO (XO (XI (XI (XO (XI (XO (XI (XI (XO (XO (XI (XO
    (XI (XI (XI (XI XH)))))))))))))))))))))))))))))) :: ((Zpos (XI (XO (XI
    (XI (XI (XO (XO (XI (XO (XO (XI (XO (XO (XO (XI (XI (XI (XO (XI (XI (XI
    (XO (XO (XI (XO (XI (XI (XI (XI
    XH)))))))))))))))))))))))))))))) :: ((Zpos (XI (XO (XI (XO (XI (XI (XO
    (XI (XI (XO (XO (XO (XO (XO (XI (XI (XO (XO (XO (XO (XO (XI (XO (XI (XO
    (XI (XI (XI (XI XH)))))))))))))))))))))))))))))) :: ((Zpos (XO (XO (XO
    (XO (XO (XO (XI (XO (XI (XO (XI (XI (XI (XI (XO (XI (XI (XI (XO (XO (XO
    (XI (XO (XI (XO (XI (XI (XI (XI
    XH)))))))))))))))))))))))))))))) :: ((Zpos (XO (XI (XI (XO (XI (XI (XO
    (XO (XI (XI (XI (XO (XI (XI (XO (XI (XO (XI (XI (XO (XO (XI (XO (XI (XO
    (XI (XI (XI (XI XH)))))))))))))))))))))))))))))) :: ((Zpos (XO (XO (XO
    (XO (XI (XO (XO (XI (XI (XI (XI (XI (XO (XI (XO (XI (XI (XO (XO (XI (XO
    (XI (XO (XI (XO (XI (XI (XI (XI
    XH)))))))))))))))))))))))))))))) :: ((Zpos (XI (XI (XI (XO (XO (XO (XI
    (XO (XO (XI (XI (XO (XO (XI (XO (XI (XO (XO (XI (XI (XO (XI (XO (XI (XO
    (XI (XI (XI (XI XH)))))))))))))))))))))))))))))) :: ((Zpos (XO (XI (XO
    (XO (XI (XO (XI (XO (XI (XI (XO (XI (XI (XO (XO (XI (XI (XI (XI (XI (XO
    (XI (XO (XI (XO (XI (XI (XI (XI
    XH)))))))))))))))))))))))))))))) :: ((Zpos (XO (XO (XI (XI (XO (XI (XO
    (XI (XO (XI (XI (XI (XO (XO (XO (XI (XO (XI (XO (XO (XI (XI (XO (XI (XO
    (XI (XI (XI (XI XH)))))))))))))))))))))))))))))) :: ((Zpos (XO (XO (XI
    (XI (XO (XO (XI (XO (XO (XO (XO (XO (XO (XO (XO (XI (XI (XO (XI (XO (XI
    (XI (XO (XI (XO (XI (XI (XI (XI
    XH)))))))))))))))))))))))))))))) :: ((Zpos (XI (XI (XO (XI (XO (XI (XO
    (XO (XO (XO (XO (XO (XI (XI (XI (XO (XO (XO (XO (XI (XI (XI (XO (XI (XO
    (XI (XI (XI (XI XH)))))))))))))))))))))))))))))) :: ((Zpos (XO (XI (XO
    (XO (XO (XO (XI (XO (XO (XI (XI (XI (XI (XO (XI (XO (XI (XI (XO (XI (XI
    (XI (XO (XI (XO (XI (XI (XI (XI
    XH)))))))))))))))))))))))))))))) :: ((Zpos (XI (XI (XO (XI (XO (XO (XO
    (XI (XO (XI (XO (XI (XO (XO (XI (XO (XO (XI (XI (XI (XI (XI (XO (XI (XO
    (XI (XI (XI (XI XH)))))))))))))))))))))))))))))) :: ((Zpos (XO (XO (XI
    (XI (XI (XI (XI (XI (XO (XO (XI (XO (XI (XI (XO (XO (XI (XO (XO (XO (XO
    (XO (XI (XI (XO (XI (XI (XI (XI
    XH)))))))))))))))))))))))))))))) :: ((Zpos (XO (XO (XO (XO (XI (XO (XO
    (XI (XI (XO (XI (XI (XI (XO (XO (XO (XO (XO (XI (XO (XO (XO (XI (XI (XO
    (XI (XI (XI (XI XH)))))))))))))))))))))))))))))) :: ((Zpos (XO (XO (XO
    (XO (XO (XO (XI (XO (XO (XO (XI (XO (XO (XO (XO (XO (XI (XI (XI (XO (XO
    (XO (XI (XI (XO (XI (XI (XI (XI
    XH)))))))))))))))))))))))))))))) :: ((Zpos (XI (XI (XO (XO (XO (XO (XO
    (XO (XI (XO (XO (XI (XO (XI (XI (XI (XI (XO (XO (XI (XO (XO (XI (XI (XO
    (XI (XI (XI (XI XH)))))))))))))))))))))))))))))) :: ((Zpos (XI (XI (XO
    (XO (XI (XO (XI (XI (XI (XI (XO (XI (XO (XO (XI (XI (XO (XO (XI (XI (XO
    (XO (XI (XI (XO (XI (XI (XI (XI
    XH)))))))))))))))))))))))))))))) :: ((Zpos (XO (XO (XO (XI (XO (XI (XO
    (XI (XO (XO (XI (XI (XO (XI (XO (XI (XI (XI (XI (XI (XO (XO (XI (XI (XO
    (XI (XI (XI (XI XH)))))))))))))))))))))))))))))) :: ((Zpos (XI (XO (XI
    (XI (XI (XI (XI (XO (XI (XI (XO (XI (XO (XO (XO (XI (XO (XI (XO (XO (XI
    (XO (XI (XI (XO (XI (XI (XI (XI
    XH)))))))))))))))))))))))))))))) :: ((Zpos (XI (XO (XO (XI (XO (XO (XI
    (XO (XO (XO (XO (XI (XO (XI (XI (XO (XI (XO (XI (XO (XI (XO (XI (XI (XO
    (XI (XI (XI (XI XH)))))))))))))))))))))))))))))) :: ((Zpos (XI (XO (XI
    (XO (XO (XO (XO (XO (XI (XI (XO (XO (XO (XO (XI (XO (XO (XO (XO (XI (XI
    (XO (XI (XI (XO (XI (XI (XI (XI
    XH)))))))))))))))))))))))))))))) :: ((Zpos (XO (XI (XO (XI (XO (XI (XO
    (XI (XI (XI (XO (XI (XI (XO (XO (XO (XI (XI (XO (XI (XI (XO (XI (XI (XO
    (XI (XI (XI (XI XH)))))))))))))))))))))))))))))) :: ((Zpos (XO (XI (XO
    (XO (XI (XI (XO (XO (XO (XI (XO (XO (XI (XI (XI (XI (XI (XO (XI (XI (XI
    (XO (XI (XI (XO (XI (XI (XI (XI
    XH)))))))))))))))))))))))))))))) :: ((Zpos (XI (XO (XI (XO (XI (XO (XO
    (XI (XO (XI (XI (XO (XO (XO (XI (XI (XO (XO (XO (XO (XO (XI (XI (XI (XO
    (XI (XI (XI (XI XH)))))))))))))))))))))))))))))) :: ((Zpos (XI (XO (XI
    (XI (XO (XO (XI (XI (XO (XO (XO (XI (XI (XO (XO (XI (XI (XI (XO (XO (XO
    (XI (XI (XI (XO (XI (XI (XI (XI
    XH)))))))))))))))))))))))))))))) :: ((Zpos (XO (XI (XO (XO (XI (XO (XI
    (XI (XO (XO (XO (XI (XO (XI (XI (XO (XO (XI (XI (XO (XO (XI (XI (XI (XO
    (XI (XI (XI (XI XH)))))))))))))))))))))))))))))) :: ((Zpos (XI (XO (XI
    (XI (XI (XO (XO (XI (XO (XI (XI (XO (XI (XI (XO (XO (XI (XO (XO (XI (XO
    (XI (XI (XI (XO (XI (XI (XI (XI
    XH)))))))))))))))))))))))))))))) :: ((Zpos (XI (XI (XI (XO (XO (XI (XO
    (XO (XO (XI (XO (XO (XO (XO (XO (XO (XO (XO (XI (XI (XO (XI (XI (XI (XO
    (XI (XI (XI (XI XH)))))))))))))))))))))))))))))) :: ((Zpos (XI (XI (XO
    (XI (XO (XI (XI (XO (XI (XI (XO (XI (XO (XO (XI (XI (XO (XI (XI (XI (XO
    (XI (XI (XI (XO (XI (XI (XI (XI
    XH)))))))))))))))))))))))))))))) :: ((Zpos (XI (XI (XI (XI (XI (XO (XI
    (XO (XO (XI (XO (XO (XI (XO (XO (XI (XI (XO (XO (XO (XI (XI (XI (XI (XO
    (XI (XI (XI (XI XH)))))))))))))))))))))))))))))) :: ((Zpos (XI (XI (XI
    (XI (XI (XI (XI (XI (XO (XI (XI (XO (XI (XO (XI (XO (XO (XO (XI (XO (XI
    (XI (XI (XI (XO (XI (XI (XI (XI
    XH)))))))))))))))))))))))))))))) :: ((Zpos (XI (XI (XO (XO (XO (XO (XI
    (XO (XI (XO (XO (XI (XI (XO (XO (XO (XI (XI (XI (XO (XI (XI (XI (XI (XO
    (XI (XI (XI (XI XH)))))))))))))))))))))))))))))) :: ((Zpos (XI (XI (XO
    (XO (XO (XI (XO (XO (XI (XO (XO (XI (XI (XO (XI (XI (XI (XO (XO (XI (XI
    (XI (XI (XI (XO (XI (XI (XI (XI
    XH)))))))))))))))))))))))))))))) :: ((Zpos (XO (XI (XO (XI (XI (XO (XO
    (XI (XO (XI (XI (XO (XI (XO (XO (XI (XO (XO (XI (XI (XI (XI (XI (XI (XO
    (XI (XI (XI (XI XH)))))))))))))))))))))))))))))) :: ((Zpos (XI (XO (XO
    (XO (XO (XI (XO (XI (XI (XO (XO (XO (XI (XO (XI (XO (XI (XI (XI (XI (XI
    (XI (XI (XI (XO (XI (XI (XI (XI
    XH)))))))))))))))))))))))))))))) :: ((Zpos (XO (XO (XO (XI (XI (XO (XO
    (XO (XI (XO (XI (XO (XO (XO (XO (XO (XI (XO (XO (XO (XO (XO (XO (XO (XI
    (XI (XI (XI (XI XH)))))))))))))))))))))))))))))) :: ((Zpos (XI (XO (XO
    (XO (XO (XI (XO (XO (XO (XO (XO (XO (XO (XI (XI (XO (XO (XI (XO (XO (XO
    (XO (XO (XO (XI (XI (XI (XI (XI
    XH)))))))))))))))))))))))))))))) :: ((Zpos (XI (XI (XI (XO (XO (XI (XI
    (XI (XI (XO (XO (XI (XI (XI (XO (XI (XI (XI (XO (XO (XO (XO (XO (XO (XI
    (XI (XI (XI (XI XH)))))))))))))))))))))))))))))) :: ((Zpos (XO (XO (XO
    (XI (XO (XI (XI (XO (XO (XI (XO (XO (XI (XO (XO (XO (XI (XO (XI (XO (XO
    (XO (XO (XO (XI (XI (XI (XI (XI
    XH)))))))))))))))))))))))))))))) :: ((Zpos (XO (XO (XO (XO (XO (XI (XO
    (XI (XI (XO (XO (XI (XO (XI (XI (XO (XO (XI (XI (XO (XO (XO (XO (XO (XI
    (XI (XI (XI (XI XH)))))))))))))))))))))))))))))) :: ((Zpos (XI (XI (XO
    (XI (XO (XO (XO (XI (XI (XI (XI (XI (XI (XI (XO (XI (XI (XI (XI (XO (XO
    (XO (XO (XO (XI (XI (XI (XI (XI
    XH)))))))))))))))))))))))))))))) :: ((Zpos (XI (XI (XI (XO (XO (XI (XO
    (XO (XO (XO (XI (XO (XI (XO (XO (XO (XI (XO (XO (XI (XO (XO (XO (XO (XI
    (XI (XI (XI (XI XH)))))))))))))))))))))))))))))) :: ((Zpos (XO (XO (XO
    (XO (XI (XI (XI (XO (XI (XI (XI (XO (XO (XI (XI (XO (XO (XI (XO (XI (XO
    (XO (XO (XO (XI (XI (XI (XI (XI
    XH)))))))))))))))))))))))))))))) :: ((Zpos (XI (XI (XO (XO (XO (XI (XI
    (XO (XI (XO (XO (XI (XI (XI (XO (XI (XI (XI (XO (XI (XO (XO (XO (XO (XI
    (XI (XI (XI (XI XH)))))))))))))))))))))))))))))) :: ((Zpos (XO (XO (XI
    (XI (XI (XI (XI (XI (XI (XO (XO (XI (XO (XO (XO (XO (XI (XO (XI (XI (XO
    (XO (XO (XO (XI (XI (XI (XI (XI
    XH)))))))))))))))))))))))))))))) :: ((Zpos (XI (XO (XO (XI (XI (XI (XO
    (XO (XI (XO (XO (XI (XI (XO (XI (XO (XO (XI (XI (XI (XO (XO (XO (XO (XI
    (XI (XI (XI (XI XH)))))))))))))))))))))))))))))) :: ((Zpos (XI (XO (XI
    (XO (XI (XO (XO (XO (XI (XI (XI (XO (XO (XI (XO (XI (XI (XI (XI (XI (XO
    (XO (XO (XO (XI (XI (XI (XI (XI
    XH)))))))))))))))))))))))))))))) :: ((Zpos (XI (XI (XI (XI (XO (XO (XO
    (XI (XI (XI (XO (XO (XI (XI (XI (XI (XO (XO (XO (XO (XI (XO (XO (XO (XI
    (XI (XI (XI (XI XH)))))))))))))))))))))))))))))) :: ((Zpos (XO (XI (XO
    (XO (XO (XI (XO (XI (XO (XI (XI (XI (XI (XI (XO (XO (XO (XI (XO (XO (XI
    (XO (XO (XO (XI (XI (XI (XI (XI
    XH)))))))))))))))))))))))))))))) :: ((Zpos (XO (XO (XI (XI (XO (XO (XI
    (XO (XO (XO (XO (XI (XO (XO (XO (XI (XI (XI (XO (XO (XI (XO (XO (XO (XI
    (XI (XI (XI (XI XH)))))))))))))))))))))))))))))) :: ((Zpos (XI (XO (XO
    (XI (XO (XO (XO (XI (XO (XO (XO (XO (XI (XO (XI (XI (XO (XO (XI (XO (XI
    (XO (XO (XO (XI (XI (XI (XI (XI
    XH)))))))))))))))))))))))))))))) :: ((Zpos (XO (XI (XI (XO (XI (XO (XI
    (XO (XI (XI (XI (XO (XI (XO (XO (XO (XO (XI (XI (XO (XI (XO (XO (XO (XI
    (XI (XI (XI (XI XH)))))))))))))))))))))))))))))) :: ((Zpos (XO (XO (XO
    (XO (XI (XI (XO (XI (XO (XO (XI (XI (XI (XO (XI (XO (XI (XI (XI (XO (XI
    (XO (XO (XO (XI (XI (XI (XI (XI
    XH)))))))))))))))))))))))))))))) :: ((Zpos (XO (XO (XI (XO (XI (XO (XO
    (XI (XO (XO (XO (XO (XO (XI (XO (XI (XO (XO (XO (XI (XI (XO (XO (XO (XI
    (XI (XI (XI (XI XH)))))))))))))))))))))))))))))) :: ((Zpos (XO (XI (XI
    (XI (XI (XI (XI (XI (XO (XI (XO (XO (XO (XI (XI (XI (XI (XO (XO (XI (XI
    (XO (XO (XO (XI (XI (XI (XI (XI
    XH)))))))))))))))))))))))))))))) :: ((Zpos (XO (XO (XI (XI (XO (XI (XI
    (XI (XI (XI (XO (XO (XO (XI (XO (XO (XI (XI (XO (XI (XI (XO (XO (XO (XI
    (XI (XI (XI (XI XH)))))))))))))))))))))))))))))) :: ((Zpos (XI (XI (XO
    (XI (XI (XO (XI (XO (XI (XI (XO (XO (XO (XI (XI (XO (XO (XO (XI (XI (XI
    (XO (XO (XO (XI (XI (XI (XI (XI
    XH)))))))))))))))))))))))))))))) :: ((Zpos (XI (XI (XI (XO (XO (XO (XI
    (XO (XI (XO (XO (XO (XO (XI (XO (XI (XI (XO (XI (XI (XI (XO (XO (XO (XI
    (XI (XI (XI (XI XH)))))))))))))))))))))))))))))) :: ((Zpos (XI (XO (XI
    (XI (XO (XI (XO (XI (XI (XO (XI (XI (XI (XO (XI (XI (XO (XI (XI (XI (XI
    (XO (XO (XO (XI (XI (XI (XI (XI
    XH)))))))))))))))))))))))))))))) :: ((Zpos (XO (XI (XO (XI (XO (XO (XO
    (XI (XO (XO (XO (XI (XI (XO (XO (XO (XO (XO (XO (XO (XO (XI (XO (XO (XI
    (XI (XI (XI (XI XH)))))))))))))))))))))))))))))) :: ((Zpos (XO (XO (XI
    (XI (XI (XO (XI (XI (XI (XO (XO (XO (XI (XO (XI (XO (XI (XO (XO (XO (XO
    (XI (XO (XO (XI (XI (XI (XI (XI
    XH)))))))))))))))))))))))))))))) :: ((Zpos (XI (XI (XI (XI (XI (XO (XO
    (XI (XI (XO (XO (XI (XO (XO (XO (XI (XO (XI (XO (XO (XO (XI (XO (XO (XI
    (XI (XI (XI (XI XH)))))))))))))))))))))))))))))) :: ((Zpos (XO (XO (XO
    (XO (XI (XO (XI (XI (XI (XI (XI (XI (XI (XI (XO (XI (XI (XI (XO (XO (XO
    (XI (XO (XO (XI (XI (XI (XI (XI
    XH)))))))))))))))))))))))))))))) :: ((Zpos (XO (XO (XI (XI (XO (XI (XI
    (XO (XO (XO (XI (XO (XI (XI (XI (XI (XO (XO (XI (XO (XO (XI (XO (XO (XI
    (XI (XI (XI (XI XH)))))))))))))))))))))))))))))) :: ((Zpos (XI (XO (XO
    (XO (XI (XI (XI (XO (XI (XI (XI (XO (XO (XI (XO (XO (XO (XI (XI (XO (XO
    (XI (XO (XO (XI (XI (XI (XI (XI
    XH)))))))))))))))))))))))))))))) :: ((Zpos (XO (XI (XO (XI (XI (XO (XI
    (XI (XO (XO (XO (XI (XI (XO (XI (XO (XI (XI (XI (XO (XO (XI (XO (XO (XI
    (XI (XI (XI (XI XH)))))))))))))))))))))))))))))) :: ((Zpos (XO (XI (XI
    (XO (XO (XI (XO (XI (XO (XO (XO (XI (XO (XO (XO (XI (XO (XO (XO (XI (XO
    (XI (XO (XO (XI (XI (XI (XI (XI
    XH)))))))))))))))))))))))))))))) :: ((Zpos (XI (XO (XO (XO (XI (XO (XI
    (XI (XO (XI (XI (XO (XI (XI (XO (XI (XI (XO (XO (XI (XO (XI (XO (XO (XI
    (XI (XI (XI (XI XH)))))))))))))))))))))))))))))) :: ((Zpos (XI (XO (XO
    (XI (XI (XO (XI (XO (XI (XI (XO (XO (XO (XI (XI (XI (XO (XI (XO (XI (XO
    (XI (XO (XO (XI (XI (XI (XI (XI
    XH)))))))))))))))))))))))))))))) :: ((Zpos (XO (XI (XO (XI (XI (XI (XO
    (XO (XO (XI (XI (XI (XO (XO (XO (XO (XO (XO (XI (XI (XO (XI (XO (XO (XI
    (XI (XI (XI (XI XH)))))))))))))))))))))))))))))) :: ((Zpos (XO (XI (XO
    (XO (XI (XI (XI (XO (XI (XI (XI (XO (XI (XI (XO (XO (XI (XO (XI (XI (XO
    (XI (XO (XO (XI (XI (XI (XI (XI
    XH)))))))))))))))))))))))))))))) :: ((Zpos (XO (XI (XI (XI (XI (XI (XI
    (XI (XO (XI (XI (XI (XI (XO (XI (XO (XO (XI (XI (XI (XO (XI (XO (XO (XI
    (XI (XI (XI (XI XH)))))))))))))))))))))))))))))) :: ((Zpos (XO (XI (XO
    (XI (XI (XO (XI (XI (XO (XO (XI (XO (XO (XO (XO (XI (XI (XI (XI (XI (XO
    (XI (XO (XO (XI (XI (XI (XI (XI
    XH)))))))))))))))))))))))))))))) :: ((Zpos (XI (XO (XI (XO (XO (XO (XO
    (XO (XI (XO (XO (XI (XO (XI (XO (XI (XO (XO (XO (XO (XI (XI (XO (XO (XI
    (XI (XI (XI (XI XH)))))))))))))))))))))))))))))) :: ((Zpos (XO (XI (XO
    (XI (XI (XI (XI (XO (XI (XI (XO (XI (XO (XO (XI (XI (XI (XO (XO (XO (XI
    (XI (XO (XO (XI (XI (XI (XI (XI
    XH)))))))))))))))))))))))))))))) :: ((Zpos (XI (XO (XO (XI (XI (XI (XO
    (XO (XO (XO (XI (XI (XO (XI (XI (XI (XO (XI (XO (XO (XI (XI (XO (XO (XI
    (XI (XI (XI (XI XH)))))))))))))))))))))))))))))) :: ((Zpos (XI (XO (XI
    (XI (XI (XI (XO (XO (XI (XI (XO (XI (XO (XO (XO (XO (XO (XO (XI (XO (XI
    (XI (XO (XO (XI (XI (XI (XI (XI
    XH)))))))))))))))))))))))))))))) :: ((Zpos (XO (XO (XI (XO (XO (XO (XO
    (XI (XO (XO (XO (XI (XO (XI (XO (XO (XI (XO (XI (XO (XI (XI (XO (XO (XI
    (XI (XI (XI (XI XH)))))))))))))))))))))))))))))) :: ((Zpos (XI (XI (XO
    (XI (XO (XO (XO (XO (XO (XO (XI (XO (XO (XO (XI (XO (XO (XI (XI (XO (XI
    (XI (XO (XO (XI (XI (XI (XI (XI
    XH)))))))))))))))))))))))))))))) :: ((Zpos (XI (XI (XI (XI (XO (XO (XI
    (XI (XI (XO (XI (XI (XI (XO (XI (XO (XI (XI (XI (XO (XI (XI (XO (XO (XI
    (XI (XI (XI (XI XH)))))))))))))))))))))))))))))) :: ((Zpos (XO (XI (XI
    (XI (XO (XO (XI (XI (XI (XO (XI (XO (XI (XI (XI (XO (XO (XO (XO (XI (XI
    (XI (XO (XO (XI (XI (XI (XI (XI
    XH)))))))))))))))))))))))))))))) :: ((Zpos (XI (XO (XI (XO (XO (XO (XO
    (XO (XO (XO (XI (XI (XO (XO (XO (XI (XI (XO (XO (XI (XI (XI (XO (XO (XI
    (XI (XI (XI (XI XH)))))))))))))))))))))))))))))) :: ((Zpos (XI (XO (XO
    (XO (XI (XI (XI (XO (XO (XO (XO (XO (XO (XI (XO (XI (XO (XI (XO (XI (XI
    (XI (XO (XO (XI (XI (XI (XI (XI
    XH)))))))))))))))))))))))))))))) :: ((Zpos (XO (XO (XO (XO (XI (XO (XO
    (XO (XI (XI (XO (XO (XI (XI (XO (XI (XI (XI (XO (XI (XI (XI (XO (XO (XI
    (XI (XI (XI (XI XH)))))))))))))))))))))))))))))) :: ((Zpos (XI (XI (XI
    (XI (XI (XO (XI (XI (XI (XI (XO (XO (XO (XO (XI (XI (XO (XO (XI (XI (XI
    (XI (XO (XO (XI (XI (XI (XI (XI
    XH)))))))))))))))))))))))))))))) :: ((Zpos (XO (XO (XI (XI (XI (XO (XI
    (XI (XO (XI (XO (XO (XI (XO (XI (XI (XI (XO (XI (XI (XI (XI (XO (XO (XI
    (XI (XI (XI (XI XH)))))))))))))))))))))))))))))) :: ((Zpos (XI (XI (XO
    (XO (XO (XO (XO (XO (XO (XO (XO (XO (XO (XI (XI (XI (XO (XI (XI (XI (XI
    (XI (XO (XO (XI (XI (XI (XI (XI
    XH)))))))))))))))))))))))))))))) :: ((Zpos (XO (XI (XO (XO (XI (XO (XI
    (XO (XI (XI (XO (XI (XO (XI (XI (XI (XI (XI (XI (XI (XI (XI (XO (XO (XI
    (XI (XI (XI (XI XH)))))))))))))))))))))))))))))) :: ((Zpos (XO (XI (XI
    (XO (XO (XO (XI (XI (XO (XO (XI (XO (XI (XI (XI (XI (XO (XO (XO (XO (XO
    (XO (XI (XO (XI (XI (XI (XI (XI
    XH)))))))))))))))))))))))))))))) :: ((Zpos (XO (XI (XI (XI (XI (XO (XI
    (XO (XO (XO (XI (XI (XI (XI (XI (XI (XI (XO (XO (XO (XO (XO (XI (XO (XI
    (XI (XI (XI (XI XH)))))))))))))))))))))))))))))) :: ((Zpos (XO (XI (XI
    (XO (XI (XO (XO (XO (XO (XI (XO (XO (XO (XO (XO (XO (XI (XI (XO (XO (XO
    (XO (XI (XO (XI (XI (XI (XI (XI
    XH)))))))))))))))))))))))))))))) :: ((Zpos (XO (XO (XI (XI (XO (XI (XI
    (XI (XI (XO (XI (XO (XO (XO (XO (XO (XO (XO (XI (XO (XO (XO (XI (XO (XI
    (XI (XI (XI (XI XH)))))))))))))))))))))))))))))) :: ((Zpos (XI (XO (XI
    (XI (XI (XO (XI (XI (XI (XI (XI (XO (XO (XO (XO (XO (XI (XO (XI (XO (XO
    (XO (XI (XO (XI (XI (XI (XI (XI
    XH)))))))))))))))))))))))))))))) :: ((Zpos (XI (XI (XI (XO (XO (XI (XI
    (XI (XI (XI (XI (XO (XO (XO (XO (XO (XO (XI (XI (XO (XO (XO (XI (XO (XI
    (XI (XI (XI (XI XH)))))))))))))))))))))))))))))) :: ((Zpos (XO (XO (XO
    (XI (XO (XO (XO (XO (XO (XI (XI (XO (XO (XO (XO (XO (XI (XI (XI (XO (XO
    (XO (XI (XO (XI (XI (XI (XI (XI
    XH)))))))))))))))))))))))))))))) :: ((Zpos (XO (XO (XI (XI (XI (XI (XO
    (XO (XO (XI (XO (XO (XO (XO (XO (XO (XO (XO (XO (XI (XO (XO (XI (XO (XI
    (XI (XI (XI (XI XH)))))))))))))))))))))))))))))) :: ((Zpos (XI (XI (XO
    (XO (XO (XO (XO (XI (XO (XO (XI (XI (XI (XI (XI (XI (XO (XO (XO (XI (XO
    (XO (XI (XO (XI (XI (XI (XI (XI
    XH)))))))))))))))))))))))))))))) :: ((Zpos (XO (XO (XO (XI (XI (XO (XI
    (XI (XO (XO (XI (XO (XI (XI (XI (XI (XI (XO (XO (XI (XO (XO (XI (XO (XI
    (XI (XI (XI (XI XH)))))))))))))))))))))))))))))) :: ((Zpos (XO (XI (XO
    (XI (XI (XI (XO (XO (XI (XI (XO (XI (XO (XI (XI (XI (XO (XI (XO (XI (XO
    (XO (XI (XO (XI (XI (XI (XI (XI
    XH)))))))))))))))))))))))))))))) :: ((Zpos (XO (XI (XI (XO (XO (XI (XO
    (XI (XI (XI (XI (XI (XI (XO (XI (XI (XI (XI (XO (XI (XO (XO (XI (XO (XI
    (XI (XI (XI (XI XH)))))))))))))))))))))))))))))) :: ((Zpos (XO (XI (XO
    (XI (XI (XO (XO (XO (XO (XI (XO (XO (XI (XO (XI (XI (XO (XO (XI (XI (XO
    (XO (XI (XO (XI (XI (XI (XI (XI
    XH)))))))))))))))))))))))))))))) :: ((Zpos (XO (XO (XI (XO (XI (XO (XO
    (XI (XO (XI (XO (XO (XO (XO (XI (XI (XI (XO (XI (XI (XO (XO (XI (XO (XI
    (XI (XI (XI (XI XH)))))))))))))))))))))))))))))) :: ((Zpos (XI (XO (XO
    (XO (XI (XO (XO (XO (XI (XO (XO (XO (XI (XI (XO (XI (XO (XI (XI (XI (XO
    (XO (XI (XO (XI (XI (XI (XI (XI
    XH)))))))))))))))))))))))))))))) :: ((Zpos (XO (XO (XO (XO (XI (XO (XO
    (XI (XI (XO (XI (XI (XI (XO (XO (XI (XI (XI (XI (XI (XO (XO (XI (XO (XI
    (XI (XI (XI (XI XH)))))))))))))))))))))))))))))) :: ((Zpos (XI (XO (XI
    (XI (XO (XO (XO (XO (XO (XO (XO (XI (XO (XO (XO (XI (XO (XO (XO (XO (XI
    (XO (XI (XO (XI (XI (XI (XI (XI
    XH)))))))))))))))))))))))))))))) :: ((Zpos (XO (XI (XI (XO (XO (XO (XO
    (XI (XO (XO (XO (XO (XI (XI (XI (XO (XI (XO (XO (XO (XI (XO (XI (XO (XI
    (XI (XI (XI (XI XH)))))))))))))))))))))))))))))) :: ((Zpos (XO (XI (XO
    (XI (XI (XI (XI (XI (XO (XI (XI (XO (XI (XO (XI (XO (XO (XI (XO (XO (XI
    (XO (XI (XO (XI (XI (XI (XI (XI
    XH)))))))))))))))))))))))))))))) :: ((Zpos (XI (XO (XI (XO (XO (XI (XI
    (XO (XI (XI (XO (XI (XI (XI (XO (XO (XI (XI (XO (XO (XI (XO (XI (XO (XI
    (XI (XI (XI (XI XH)))))))))))))))))))))))))))))) :: ((Zpos (XI (XI (XI
    (XO (XO (XO (XI (XI (XI (XO (XI (XI (XI (XO (XO (XO (XO (XO (XI (XO (XI
    (XO (XI (XO (XI (XI (XI (XI (XI
    XH)))))))))))))))))))))))))))))) :: ((Zpos (XO (XO (XI (XI (XI (XO (XO
    (XO (XO (XI (XI (XI (XI (XI (XI (XI (XO (XO (XI (XO (XI (XO (XI (XO (XI
    (XI (XI (XI (XI XH)))))))))))))))))))))))))))))) :: ((Zpos (XO (XI (XO
    (XO (XO (XI (XI (XO (XO (XO (XI (XI (XI (XO (XI (XI (XI (XO (XI (XO (XI
    (XO (XI (XO (XI (XI (XI (XI (XI
    XH)))))))))))))))))))))))))))))) :: ((Zpos (XO (XO (XO (XI (XI (XO (XO
    (XI (XO (XO (XO (XI (XI (XI (XO (XI (XO (XI (XI (XO (XI (XO (XI (XO (XI
    (XI (XI (XI (XI XH)))))))))))))))))))))))))))))) :: ((Zpos (XI (XI (XO
    (XI (XI (XI (XO (XI (XO (XI (XO (XO (XI (XO (XO (XI (XI (XI (XI (XO (XI
    (XO (XI (XO (XI (XI (XI (XI (XI
    XH)))))))))))))))))))))))))))))) :: ((Zpos (XI (XO (XO (XI (XO (XO (XI
    (XI (XO (XI (XO (XI (XO (XI (XI (XO (XO (XO (XO (XI (XI (XO (XI (XO (XI
    (XI (XI (XI (XI XH)))))))))))))))))))))))))))))) :: ((Zpos (XO (XO (XO
    (XO (XO (XO (XI (XI (XO (XO (XO (XO (XO (XO (XI (XO (XI (XO (XO (XI (XI
    (XO (XI (XO (XI (XI (XI (XI (XI
    XH)))))))))))))))))))))))))))))) :: ((Zpos (XO (XI (XI (XI (XI (XO (XO
    (XI (XO (XO (XI (XO (XI (XO (XO (XO (XO (XI (XO (XI (XI (XO (XI (XO (XI
    (XI (XI (XI (XI XH)))))))))))))))))))))))))))))) :: ((Zpos (XI (XO (XO
    (XO (XO (XI (XI (XO (XO (XI (XI (XO (XO (XI (XI (XI (XO (XI (XO (XI (XI
    (XO (XI (XO (XI (XI (XI (XI (XI
    XH)))))))))))))))))))))))))))))) :: ((Zpos (XO (XI (XI (XO (XO (XO (XO
    (XO (XO (XI (XI (XO (XI (XI (XO (XI (XI (XI (XO (XI (XI (XO (XI (XO (XI
    (XI (XI (XI (XI XH)))))))))))))))))))))))))))))) :: ((Zpos (XO (XO (XI
    (XI (XO (XO (XO (XI (XI (XI (XO (XO (XO (XO (XO (XI (XO (XO (XI (XI (XI
    (XO (XI (XO (XI (XI (XI (XI (XI
    XH)))))))))))))))))))))))))))))) :: ((Zpos (XO (XI (XO (XO (XI (XI (XI
    (XI (XO (XI (XI (XI (XO (XO (XI (XO (XI (XO (XI (XI (XI (XO (XI (XO (XI
    (XI (XI (XI (XI XH)))))))))))))))))))))))))))))) :: ((Zpos (XO (XO (XI
    (XO (XI (XI (XO (XO (XO (XO (XO (XI (XI (XO (XO (XO (XO (XI (XI (XI (XI
    (XO (XI (XO (XI (XI (XI (XI (XI
    XH)))))))))))))))))))))))))))))) :: ((Zpos (XI (XO (XO (XO (XI (XO (XI
    (XO (XI (XI (XI (XI (XI (XO (XI (XI (XO (XI (XI (XI (XI (XO (XI (XO (XI
    (XI (XI (XI (XI XH)))))))))))))))))))))))))))))) :: ((Zpos (XI (XI (XI
    (XO (XO (XO (XI (XO (XO (XO (XI (XO (XO (XI (XO (XI (XI (XI (XI (XI (XI
    (XO (XI (XO (XI (XI (XI (XI (XI
    XH)))))))))))))))))))))))))))))) :: ((Zpos (XO (XO (XI (XO (XI (XO (XO
    (XO (XI (XI (XI (XO (XO (XI (XI (XO (XO (XO (XO (XO (XO (XI (XI (XO (XI
    (XI (XI (XI (XI XH)))))))))))))))))))))))))))))) :: ((Zpos (XO (XI (XI
    (XO (XI (XI (XO (XI (XI (XI (XI (XO (XO (XI (XO (XO (XI (XO (XO (XO (XO
    (XI (XI (XO (XI (XI (XI (XI (XI
    XH)))))))))))))))))))))))))))))) :: ((Zpos (XO (XO (XI (XI (XO (XI (XO
    (XO (XO (XI (XI (XO (XO (XI (XI (XI (XI (XO (XO (XO (XO (XI (XI (XO (XI
    (XI (XI (XI (XI XH)))))))))))))))))))))))))))))) :: ((Zpos (XI (XI (XO
    (XO (XI (XI (XI (XO (XO (XI (XO (XO (XO (XI (XO (XI (XO (XI (XO (XO (XO
    (XI (XI (XO (XI (XI (XI (XI (XI
    XH)))))))))))))))))))))))))))))) :: ((Zpos (XO (XI (XO (XI (XO (XO (XO
    (XI (XO (XO (XI (XI (XI (XO (XI (XO (XI (XI (XO (XO (XO (XI (XI (XO (XI
    (XI (XI (XI (XI XH)))))))))))))))))))))))))))))) :: ((Zpos (XI (XI (XI
    (XI (XO (XI (XI (XO (XO (XO (XI (XO (XI (XO (XO (XO (XO (XO (XI (XO (XO
    (XI (XI (XO (XI (XI (XI (XI (XI
    XH)))))))))))))))))))))))))))))) :: ((Zpos (XO (XO (XO (XO (XO (XI (XO
    (XO (XO (XI (XO (XI (XO (XO (XI (XI (XO (XO (XI (XO (XO (XI (XI (XO (XI
    (XI (XI (XI (XI XH)))))))))))))))))))))))))))))) :: ((Zpos (XO (XO (XI
    (XI (XI (XO (XO (XI (XI (XO (XI (XI (XI (XI (XI (XO (XI (XO (XI (XO (XO
    (XI (XI (XO (XI (XI (XI (XI (XI
    XH)))))))))))))))))))))))))))))) :: ((Zpos (XO (XO (XO (XO (XO (XI (XI
    (XI (XO (XI (XI (XI (XO (XI (XO (XO (XO (XI (XI (XO (XO (XI (XI (XO (XI
    (XI (XI (XI (XI XH)))))))))))))))))))))))))))))) :: ((Zpos (XI (XI (XO
    (XI (XO (XI (XI (XI (XI (XO (XI (XI (XI (XO (XI (XI (XO (XI (XI (XO (XO
    (XI (XI (XO (XI (XI (XI (XI (XI
    XH)))))))))))))))))))))))))))))) :: ((Zpos (XI (XI (XO (XI (XI (XI (XO
    (XI (XO (XI (XO (XI (XO (XO (XO (XI (XI (XI (XI (XO (XO (XI (XI (XO (XI
    (XI (XI (XI (XI XH)))))))))))))))))))))))))))))) :: ((Zpos (XI (XI (XI
    (XI (XO (XO (XI (XO (XI (XO (XI (XO (XI (XI (XO (XO (XO (XO (XO (XI (XO
    (XI (XI (XO (XI (XI (XI (XI (XI
    XH)))))))))))))))))))))))))))))) :: ((Zpos (XO (XO (XI (XO (XO (XI (XO
    (XI (XI (XO (XI (XI (XI (XO (XI (XI (XO (XO (XO (XI (XO (XI (XI (XO (XI
    (XI (XI (XI (XI XH)))))))))))))))))))))))))))))) :: ((Zpos (XI (XI (XO
    (XI (XI (XI (XO (XI (XI (XI (XO (XO (XO (XO (XO (XI (XI (XO (XO (XI (XO
    (XI (XI (XO (XI (XI (XI (XI (XI
    XH)))))))))))))))))))))))))))))) :: ((Zpos (XI (XI (XI (XI (XO (XO (XO
    (XI (XI (XI (XI (XO (XO (XI (XO (XO (XO (XI (XO (XI (XO (XI (XI (XO (XI
    (XI (XI (XI (XI XH)))))))))))))))))))))))))))))) :: ((Zpos (XI (XO (XO
    (XO (XO (XI (XO (XO (XI (XO (XO (XI (XO (XO (XI (XI (XO (XI (XO (XI (XO
    (XI (XI (XO (XI (XI (XI (XI (XI
    XH)))))))))))))))))))))))))))))) :: ((Zpos (XI (XI (XI (XI (XO (XI (XI
    (XO (XO (XO (XO (XI (XO (XI (XI (XO (XI (XI (XO (XI (XO (XI (XI (XO (XI
    (XI (XI (XI (XI XH)))))))))))))))))))))))))))))) :: ((Zpos (XO (XI (XI
    (XO (XI (XI (XI (XO (XI (XO (XI (XO (XO (XO (XO (XO (XO (XO (XI (XI (XO
    (XI (XI (XO (XI (XI (XI (XI (XI
    XH)))))))))))))))))))))))))))))) :: ((Zpos (XO (XI (XI (XO (XI (XI (XO
    (XO (XO (XO (XO (XO (XO (XI (XO (XI (XO (XO (XI (XI (XO (XI (XI (XO (XI
    (XI (XI (XI (XI XH)))))))))))))))))))))))))))))) :: ((Zpos (XI (XO (XI
    (XI (XO (XI (XO (XI (XO (XO (XO (XI (XI (XI (XO (XO (XI (XO (XI (XI (XO
    (XI (XI (XO (XI (XI (XI (XI (XI
    XH)))))))))))))))))))))))))))))) :: ((Zpos (XI (XO (XO (XI (XI (XO (XI
    (XI (XO (XI (XI (XI (XO (XO (XI (XI (XI (XO (XI (XI (XO (XI (XI (XO (XI
    (XI (XI (XI (XI XH)))))))))))))))))))))))))))))) :: ((Zpos (XO (XI (XO
    (XI (XI (XI (XO (XI (XO (XI (XO (XO (XO (XI (XI (XO (XO (XI (XI (XI (XO
    (XI (XI (XO (XI (XI (XI (XI (XI
    XH)))))))))))))))))))))))))))))) :: ((Zpos (XI (XO (XI (XI (XO (XO (XI
    (XO (XO (XO (XI (XO (XI (XI (XI (XI (XO (XI (XI (XI (XO (XI (XI (XO (XI
    (XI (XI (XI (XI XH)))))))))))))))))))))))))))))) :: ((Zpos (XO (XI (XO
    (XO (XI (XO (XO (XI (XI (XI (XO (XO (XO (XO (XO (XI (XI (XI (XI (XI (XO
    (XI (XI (XO (XI (XI (XI (XI (XI
    XH)))))))))))))))))))))))))))))) :: ((Zpos (XO (XI (XI (XO (XO (XO (XO
    (XI (XO (XO (XO (XO (XI (XO (XO (XO (XO (XO (XO (XO (XI (XI (XI (XO (XI
    (XI (XI (XI (XI XH)))))))))))))))))))))))))))))) :: ((Zpos (XI (XO (XO
    (XI (XO (XI (XO (XO (XI (XI (XO (XI (XI (XO (XO (XI (XO (XO (XO (XO (XI
    (XI (XI (XO (XI (XI (XI (XI (XI
    XH)))))))))))))))))))))))))))))) :: ((Zpos (XI (XO (XO (XI (XI (XI (XI
    (XO (XI (XI (XO (XO (XO (XI (XO (XO (XI (XO (XO (XO (XI (XI (XI (XO (XI
    (XI (XI (XI (XI XH)))))))))))))))))))))))))))))) :: ((Zpos (XI (XO (XI
    (XO (XI (XI (XI (XO (XI (XO (XO (XI (XO (XI (XO (XI (XI (XO (XO (XO (XI
    (XI (XI (XO (XI (XI (XI (XI (XI
    XH)))))))))))))))))))))))))))))) :: ((Zpos (XI (XI (XO (XI (XI (XO (XO
    (XO (XI (XO (XI (XI (XO (XI (XO (XO (XO (XI (XO (XO (XI (XI (XI (XO (XI
    (XI (XI (XI (XI XH)))))))))))))))))))))))))))))) :: ((Zpos (XI (XI (XO
    (XI (XO (XI (XI (XO (XO (XI (XI (XI (XO (XI (XO (XI (XO (XI (XO (XO (XI
    (XI (XI (XO (XI (XI (XI (XI (XI
    XH)))))))))))))))))))))))))))))) :: ((Zpos (XI (XI (XO (XO (XO (XI (XI
    (XO (XI (XO (XI (XI (XO (XI (XO (XO (XI (XI (XO (XO (XI (XI (XI (XO (XI
    (XI (XI (XI (XI XH)))))))))))))))))))))))))))))) :: ((Zpos (XI (XO (XO
    (XO (XO (XO (XO (XO (XO (XI (XO (XI (XO (XI (XO (XI (XI (XI (XO (XO (XI
    (XI (XI (XO (XI (XI (XI (XI (XI
    XH)))))))))))))))))))))))))))))) :: ((Zpos (XO (XI (XI (XO (XO (XO (XI
    (XO (XO (XO (XI (XO (XO (XI (XO (XO (XO (XO (XI (XO (XI (XI (XI (XO (XI
    (XI (XI (XI (XI XH)))))))))))))))))))))))))))))) :: ((Zpos (XO (XI (XI
    (XI (XO (XI (XO (XO (XO (XO (XI (XI (XI (XO (XO (XI (XO (XO (XI (XO (XI
    (XI (XI (XO (XI (XI (XI (XI (XI
    XH)))))))))))))))))))))))))))))) :: ((Zpos (XO (XI (XO (XI (XI (XI (XO
    (XI (XI (XO (XO (XO (XI (XO (XO (XO (XI (XO (XI (XO (XI (XI (XI (XO (XI
    (XI (XI (XI (XI XH)))))))))))))))))))))))))))))) :: ((Zpos (XO (XO (XO
    (XI (XO (XI (XI (XI (XO (XO (XI (XO (XO (XO (XO (XI (XI (XO (XI (XO (XI
    (XI (XI (XO (XI (XI (XI (XI (XI
    XH)))))))))))))))))))))))))))))) :: ((Zpos (XI (XI (XI (XO (XI (XI (XO
    (XI (XI (XO (XI (XO (XI (XI (XI (XI (XI (XO (XI (XO (XI (XI (XI (XO (XI
    (XI (XI (XI (XI XH)))))))))))))))))))))))))))))) :: ((Zpos (XO (XI (XI
    (XO (XO (XI (XO (XO (XO (XO (XI (XO (XO (XI (XI (XO (XO (XI (XI (XO (XI
    (XI (XI (XO (XI (XI (XI (XI (XI
    XH)))))))))))))))))))))))))))))) :: ((Zpos (XO (XO (XI (XO (XI (XI (XO
    (XO (XO (XO (XO (XO (XI (XO (XI (XI (XO (XI (XI (XO (XI (XI (XI (XO (XI
    (XI (XI (XI (XI XH)))))))))))))))))))))))))))))) :: ((Zpos (XO (XO (XO
    (XO (XO (XI (XI (XI (XI (XO (XO (XI (XI (XI (XO (XO (XI (XI (XI (XO (XI
    (XI (XI (XO (XI (XI (XI (XI (XI
    XH)))))))))))))))))))))))))))))) :: ((Zpos (XO (XO (XO (XI (XO (XI (XO
    (XO (XI (XO (XO (XO (XO (XI (XO (XI (XI (XI (XI (XO (XI (XI (XI (XO (XI
    (XI (XI (XI (XI XH)))))))))))))))))))))))))))))) :: ((Zpos (XO (XO (XI
    (XI (XO (XO (XO (XO (XO (XI (XI (XO (XO (XO (XO (XO (XO (XO (XO (XI (XI
    (XI (XI (XO (XI (XI (XI (XI (XI
    XH)))))))))))))))))))))))))))))) :: ((Zpos (XO (XO (XI (XI (XO (XO (XO
    (XI (XO (XO (XO (XI (XO (XI (XI (XO (XO (XO (XO (XI (XI (XI (XI (XO (XI
    (XI (XI (XI (XI XH)))))))))))))))))))))))))))))) :: ((Zpos (XI (XO (XI
    (XO (XO (XI (XO (XI (XO (XO (XO (XI (XO (XO (XI (XI (XO (XO (XO (XI (XI
    (XI (XI (XO (XI (XI (XI (XI (XI
    XH)))))))))))))))))))))))))))))) :: ((Zpos (XI (XI (XI (XO (XI (XO (XI
    (XO (XO (XI (XI (XO (XO (XI (XO (XO (XI (XO (XO (XI (XI (XI (XI (XO (XI
    (XI (XI (XI (XI XH)))))))))))))))))))))))))))))) :: ((Zpos (XI (XO (XO
    (XO (XO (XI (XO (XI (XI (XO (XO (XO (XO (XO (XO (XI (XI (XO (XO (XI (XI
    (XI (XI (XO (XI (XI (XI (XI (XI
    XH)))))))))))))))))))))))))))))) :: ((Zpos (XO (XI (XO (XO (XO (XO (XO
    (XI (XO (XI (XO (XI (XI (XO (XI (XI (XI (XO (XO (XI (XI (XI (XI (XO (XI
    (XI (XI (XI (XI XH)))))))))))))))))))))))))))))) :: ((Zpos (XI (XO (XO
    (XI (XI (XI (XI (XI (XO (XO (XO (XO (XI (XI (XO (XO (XO (XI (XO (XI (XI
    (XI (XI (XO (XI (XI (XI (XI (XI
    XH)))))))))))))))))))))))))))))) :: ((Zpos (XO (XI (XI (XO (XO (XO (XO
    (XO (XI (XO (XI (XO (XO (XO (XO (XI (XO (XI (XO (XI (XI (XI (XI (XO (XI
    (XI (XI (XI (XI XH)))))))))))))))))))))))))))))) :: ((Zpos (XO (XO (XO
    (XI (XO (XI (XO (XI (XO (XI (XI (XO (XI (XO (XI (XI (XO (XI (XO (XI (XI
    (XI (XI (XO (XI (XI (XI (XI (XI
    XH)))))))))))))))))))))))))))))) :: ((Zpos (XI (XO (XI (XI (XI (XO (XI
    (XI (XI (XO (XI (XO (XO (XI (XO (XO (XI (XI (XO (XI (XI (XI (XI (XO (XI
    (XI (XI (XI (XI XH)))))))))))))))))))))))))))))) :: ((Zpos (XO (XI (XI
    (XO (XO (XI (XO (XI (XO (XI (XO (XO (XI (XI (XI (XO (XI (XI (XO (XI (XI
    (XI (XI (XO (XI (XI (XI (XI (XI
    XH)))))))))))))))))))))))))))))) :: ((Zpos (XI (XO (XO (XO (XO (XO (XO
    (XO (XI (XO (XI (XI (XI (XI (XO (XI (XI (XI (XO (XI (XI (XI (XI (XO (XI
    (XI (XI (XI (XI XH)))))))))))))))))))))))))))))) :: ((Zpos (XI (XO (XI
    (XI (XO (XI (XI (XI (XO (XO (XI (XO (XO (XO (XO (XO (XO (XO (XI (XI (XI
    (XI (XI (XO (XI (XI (XI (XI (XI
    XH)))))))))))))))))))))))))))))) :: ((Zpos (XI (XI (XO (XI (XO (XI (XI
    (XO (XO (XI (XO (XI (XO (XO (XI (XO (XO (XO (XI (XI (XI (XI (XI (XO (XI
    (XI (XI (XI (XI XH)))))))))))))))))))))))))))))) :: ((Zpos (XI (XO (XO
    (XI (XI (XI (XI (XO (XI (XO (XI (XI (XO (XO (XO (XI (XO (XO (XI (XI (XI
    (XI (XI (XO (XI (XI (XI (XI (XI
    XH)))))))))))))))))))))))))))))) :: ((Zpos (XO (XI (XI (XO (XI (XO (XO
    (XO (XO (XI (XI (XI (XO (XO (XI (XI (XO (XO (XI (XI (XI (XI (XI (XO (XI
    (XI (XI (XI (XI XH)))))))))))))))))))))))))))))) :: ((Zpos (XI (XI (XO
    (XO (XO (XO (XI (XO (XO (XO (XI (XI (XO (XO (XO (XO (XI (XO (XI (XI (XI
    (XI (XI (XO (XI (XI (XI (XI (XI
    XH)))))))))))))))))))))))))))))) :: ((Zpos (XI (XO (XI (XI (XI (XI (XI
    (XI (XI (XI (XI (XO (XO (XO (XI (XO (XI (XO (XI (XI (XI (XI (XI (XO (XI
    (XI (XI (XI (XI XH)))))))))))))))))))))))))))))) :: ((Zpos (XO (XI (XI
    (XO (XO (XO (XI (XO (XI (XO (XO (XO (XO (XO (XO (XI (XI (XO (XI (XI (XI
    (XI (XI (XO (XI (XI (XI (XI (XI
    XH)))))))))))))))))))))))))))))) :: ((Zpos (XO (XO (XI (XI (XI (XO (XO
    (XO (XO (XO (XO (XI (XI (XI (XO (XI (XI (XO (XI (XI (XI (XI (XI (XO (XI
    (XI (XI (XI (XI XH)))))))))))))))))))))))))))))) :: ((Zpos (XI (XI (XI
    (XI (XI (XI (XI (XO (XO (XO (XI (XI (XO (XI (XI (XI (XI (XO (XI (XI (XI
    (XI (XI (XO (XI (XI (XI (XI (XI
    XH)))))))))))))))))))))))))))))) :: ((Zpos (XO (XI (XI (XI (XO (XI (XI
    (XO (XO (XI (XI (XI (XI (XO (XO (XO (XO (XI (XI (XI (XI (XI (XI (XO (XI
    (XI (XI (XI (XI XH)))))))))))))))))))))))))))))) :: ((Zpos (XI (XO (XO
    (XI (XO (XI (XI (XI (XI (XO (XI (XI (XO (XO (XI (XO (XO (XI (XI (XI (XI
    (XI (XI (XO (XI (XI (XI (XI (XI
    XH)))))))))))))))))))))))))))))) :: ((Zpos (XI (XI (XI (XI (XO (XI (XI
    (XI (XO (XI (XO (XI (XI (XI (XI (XO (XO (XI (XI (XI (XI (XI (XI (XO (XI
    (XI (XI (XI (XI XH)))))))))))))))))))))))))))))) :: ((Zpos (XO (XO (XO
    (XO (XO (XO (XO (XI (XI (XO (XI (XO (XO (XI (XO (XI (XO (XI (XI (XI (XI
    (XI (XI (XO (XI (XI (XI (XI (XI
    XH)))))))))))))))))))))))))))))) :: ((Zpos (XI (XI (XO (XI (XI (XO (XO
    (XI (XI (XO (XI (XI (XO (XO (XI (XI (XO (XI (XI (XI (XI (XI (XI (XO (XI
    (XI (XI (XI (XI XH)))))))))))))))))))))))))))))) :: ((Zpos (XO (XO (XO
    (XO (XO (XO (XI (XO (XI (XI (XO (XO (XI (XI (XI (XI (XO (XI (XI (XI (XI
    (XI (XI (XO (XI (XI (XI (XI (XI
    XH)))))))))))))))))))))))))))))) :: ((Zpos (XO (XO (XO (XO (XI (XI (XI
    (XO (XO (XI (XI (XO (XI (XO (XO (XO (XI (XI (XI (XI (XI (XI (XI (XO (XI
    (XI (XI (XI (XI XH)))))))))))))))))))))))))))))) :: ((Zpos (XO (XO (XO
    (XI (XO (XI (XO (XO (XI (XI (XI (XO (XI (XI (XO (XO (XI (XI (XI (XI (XI
    (XI (XI (XO (XI (XI (XI (XI (XI
    XH)))))))))))))))))))))))))))))) :: ((Zpos (XO (XI (XO (XI (XO (XI (XI
    (XO (XI (XO (XI (XO (XI (XO (XI (XO (XI (XI (XI (XI (XI (XI (XI (XO (XI
    (XI (XI (XI (XI XH)))))))))))))))))))))))))))))) :: ((Zpos (XO (XO (XI
    (XO (XI (XI (XO (XO (XI (XO (XO (XO (XI (XI (XI (XO (XI (XI (XI (XI (XI
    (XI (XI (XO (XI (XI (XI (XI (XI
    XH)))))))))))))))))))))))))))))) :: ((Zpos (XI (XI (XI (XO (XO (XO (XO
    (XI (XO (XI (XO (XI (XO (XO (XO (XI (XI (XI (XI (XI (XI (XI (XI (XO (XI
    (XI (XI (XI (XI XH)))))))))))))))))))))))))))))) :: ((Zpos (XO (XI (XO
    (XO (XO (XI (XI (XO (XI (XO (XO (XO (XO (XI (XO (XI (XI (XI (XI (XI (XI
    (XI (XI (XO (XI (XI (XI (XI (XI
    XH)))))))))))))))))))))))))))))) :: ((Zpos (XI (XO (XI (XO (XO (XO (XI
    (XI (XI (XO (XI (XO (XI (XI (XO (XI (XI (XI (XI (XI (XI (XI (XI (XO (XI
    (XI (XI (XI (XI XH)))))))))))))))))))))))))))))) :: ((Zpos (XO (XO (XO
    (XO (XI (XI (XO (XI (XI (XI (XI (XO (XO (XO (XI (XI (XI (XI (XI (XI (XI
    (XI (XI (XO (XI (XI (XI (XI (XI
    XH)))))))))))))))))))))))))))))) :: ((Zpos (XI (XI (XO (XO (XO (XI (XO
    (XO (XI (XI (XI (XO (XI (XO (XI (XI (XI (XI (XI (XI (XI (XI (XI (XO (XI
    (XI (XI (XI (XI XH)))))))))))))))))))))))))))))) :: ((Zpos (XI (XO (XI
    (XI (XI (XO (XO (XO (XO (XO (XI (XO (XO (XI (XI (XI (XI (XI (XI (XI (XI
    (XI (XI (XO (XI (XI (XI (XI (XI
    XH)))))))))))))))))))))))))))))) :: ((Zpos (XO (XI (XI (XI (XI (XO (XO
    (XI (XO (XI (XI (XI (XO (XI (XI (XI (XI (XI (XI (XI (XI (XI (XI (XO (XI
    (XI (XI (XI (XI XH)))))))))))))))))))))))))))))) :: ((Zpos (XI (XI (XI
    (XO (XO (XI (XO (XI (XO (XI (XI (XO (XI (XI (XI (XI (XI (XI (XI (XI (XI
    (XI (XI (XO (XI (XI (XI (XI (XI
    XH)))))))))))))))))))))))))))))) :: ((Zpos (XI (XI (XI (XO (XI (XI (XO
    (XO (XO (XO (XI (XI (XI (XI (XI (XI (XI (XI (XI (XI (XI (XI (XI (XO (XI
    (XI (XI (XI (XI XH)))))))))))))))))))))))))))))) :: ((Zpos (XO (XI (XI
    (XI (XO (XO (XI (XO (XI (XI (XI (XI (XI (XI (XI (XI (XI (XI (XI (XI (XI
    (XI (XI (XO (XI (XI (XI (XI (XI
    XH)))))))))))))))))))))))))))))) :: ((Zpos (XO (XO (XI (XI (XO (XI (XI
    (XI (XI (XI (XI (XI (XI (XI (XI (XI (XI (XI (XI (XI (XI (XI (XI (XO (XI
    (XI (XI (XI (XI XH)))))))))))))))))))))))))))))) :: ((Zpos (XO (XI (XO
    (XO (XI (XO (XO (XO (XO (XI (XI (XI (XI (XI (XI (XI (XI (XI (XI (XI (XI
    (XI (XI (XO (XI (XI (XI (XI (XI
    XH)))))))))))))))))))))))))))))) :: ((Zpos (XO (XI (XI (XI (XI (XI (XO
    (XI (XI (XO (XO (XI (XI (XI (XI (XI (XI (XI (XI (XI (XI (XI (XI (XO (XI
    (XI (XI (XI (XI XH)))))))))))))))))))))))))))))) :: ((Zpos (XO (XI (XO
    (XO (XI (XI (XI (XI (XO (XI (XO (XO (XI (XI (XI (XI (XI (XI (XI (XI (XI
    (XI (XI (XO (XI (XI (XI (XI (XI
    XH)))))))))))))))))))))))))))))) :: ((Zpos (XI (XO (XI (XI (XO (XI (XO
    (XI (XI (XO (XO (XI (XO (XI (XI (XI (XI (XI (XI (XI (XI (XI (XI (XO (XI
    (XI (XI (XI (XI XH)))))))))))))))))))))))))))))) :: ((Zpos (XI (XI (XI
    (XI (XO (XI (XI (XI (XI (XO (XI (XI (XI (XO (XI (XI (XI (XI (XI (XI (XI
    (XI (XI (XO (XI (XI (XI (XI (XI
    XH)))))))))))))))))))))))))))))) :: ((Zpos (XO (XO (XO (XI (XI (XI (XO
    (XI (XI (XI (XI (XI (XO (XO (XI (XI (XI (XI (XI (XI (XI (XI (XI (XO (XI
    (XI (XI (XI (XI XH)))))))))))))))))))))))))))))) :: ((Zpos (XO (XI (XO
    (XI (XO (XO (XO (XO (XI (XI (XI (XI (XI (XI (XO (XI (XI (XI (XI (XI (XI
    (XI (XI (XO (XI (XI (XI (XI (XI
    XH)))))))))))))))))))))))))))))) :: ((Zpos (XI (XI (XO (XO (XO (XI (XI
    (XI (XI (XI (XO (XI (XO (XI (XO (XI (XI (XI (XI (XI (XI (XI (XI (XO (XI
    (XI (XI (XI (XI XH)))))))))))))))))))))))))))))) :: ((Zpos (XI (XI (XO
    (XO (XO (XO (XI (XO (XO (XI (XI (XO (XI (XO (XO (XI (XI (XI (XI (XI (XI
    (XI (XI (XO (XI (XI (XI (XI (XI
    XH)))))))))))))))))))))))))))))) :: ((Zpos (XO (XO (XI (XI (XO (XI (XO
    (XO (XO (XI (XI (XI (XI (XI (XI (XO (XI (XI (XI (XI (XI (XI (XI (XO (XI
    (XI (XI (XI (XI XH)))))))))))))))))))))))))))))) :: ((Zpos (XO (XI (XI
    (XI (XI (XO (XO (XI (XI (XI (XO (XO (XO (XI (XI (XO (XI (XI (XI (XI (XI
    (XI (XI (XO (XI (XI (XI (XI (XI
    XH)))))))))))))))))))))))))))))) :: ((Zpos (XO (XO (XO (XI (XI (XO (XO
    (XI (XO (XI (XI (XO (XO (XO (XI (XO (XI (XI (XI (XI (XI (XI (XI (XO (XI
    (XI (XI (XI (XI XH)))))))))))))))))))))))))))))) :: ((Zpos (XI (XI (XO
    (XI (XI (XO (XO (XO (XI (XI (XI (XO (XO (XI (XO (XO (XI (XI (XI (XI (XI
    (XI (XI (XO (XI (XI (XI (XI (XI
    XH)))))))))))))))))))))))))))))) :: ((Zpos (XI (XI (XI (XO (XO (XI (XO
    (XO (XI (XO (XI (XO (XO (XO (XO (XO (XI (XI (XI (XI (XI (XI (XI (XO (XI
    (XI (XI (XI (XI XH)))))))))))))))))))))))))))))) :: ((Zpos (XI (XO (XI
    (XI (XI (XI (XO (XI (XO (XO (XO (XO (XO (XI (XI (XI (XO (XI (XI (XI (XI
    (XI (XI (XO (XI (XI (XI (XI (XI
    XH)))))))))))))))))))))))))))))) :: ((Zpos (XO (XO (XI (XI (XI (XO (XI
    (XI (XI (XO (XO (XI (XI (XI (XO (XI (XO (XI (XI (XI (XI (XI (XI (XO (XI
    (XI (XI (XI (XI XH)))))))))))))))))))))))))))))) :: ((Zpos (XO (XI (XI
    (XO (XO (XO (XO (XI (XO (XO (XO (XO (XI (XO (XO (XI (XO (XI (XI (XI (XI
    (XI (XI (XO (XI (XI (XI (XI (XI
    XH)))))))))))))))))))))))))))))) :: ((Zpos (XO (XI (XO (XI (XI (XI (XO
    (XI (XO (XO (XI (XO (XO (XI (XI (XO (XO (XI (XI (XI (XI (XI (XI (XO (XI
    (XI (XI (XI (XI XH)))))))))))))))))))))))))))))) :: ((Zpos (XO (XI (XO
    (XI (XI (XI (XI (XO (XO (XI (XI (XO (XI (XI (XO (XO (XO (XI (XI (XI (XI
    (XI (XI (XO (XI (XI (XI (XI (XI
    XH)))))))))))))))))))))))))))))) :: ((Zpos (XI (XO (XI (XO (XO (XO (XI
    (XI (XI (XO (XI (XO (XO (XO (XO (XO (XO (XI (XI (XI (XI (XI (XI (XO (XI
    (XI (XI (XI (XI XH)))))))))))))))))))))))))))))) :: ((Zpos (XO (XO (XI
    (XI (XI (XO (XO (XI (XO (XI (XO (XO (XI (XO (XI (XI (XI (XO (XI (XI (XI
    (XI (XI (XO (XI (XI (XI (XI (XI
    XH)))))))))))))))))))))))))))))) :: ((Zpos (XO (XO (XO (XO (XO (XO (XO
    (XO (XI (XO (XI (XI (XI (XO (XO (XI (XI (XO (XI (XI (XI (XI (XI (XO (XI
    (XI (XI (XI (XI XH)))))))))))))))))))))))))))))) :: ((Zpos (XO (XO (XO
    (XO (XI (XI (XI (XI (XO (XO (XI (XO (XO (XI (XI (XO (XI (XO (XI (XI (XI
    (XI (XI (XO (XI (XI (XI (XI (XI
    XH)))))))))))))))))))))))))))))) :: ((Zpos (XO (XI (XI (XI (XO (XI (XI
    (XO (XO (XI (XO (XI (XO (XI (XO (XO (XI (XO (XI (XI (XI (XI (XI (XO (XI
    (XI (XI (XI (XI XH)))))))))))))))))))))))))))))) :: ((Zpos (XI (XI (XO
    (XI (XI (XI (XI (XO (XI (XO (XI (XI (XO (XI (XI (XI (XO (XO (XI (XI (XI
    (XI (XI (XO (XI (XI (XI (XI (XI
    XH)))))))))))))))))))))))))))))) :: ((Zpos (XI (XO (XI (XO (XI (XO (XO
    (XO (XO (XI (XI (XI (XO (XI (XO (XI (XO (XO (XI (XI (XI (XI (XI (XO (XI
    (XI (XI (XI (XI XH)))))))))))))))))))))))))))))) :: ((Zpos (XO (XO (XO
    (XO (XO (XO (XI (XO (XO (XO (XI (XI (XO (XI (XI (XO (XO (XO (XI (XI (XI
    (XI (XI (XO (XI (XI (XI (XI (XI
    XH)))))))))))))))))))))))))))))) :: ((Zpos (XO (XI (XO (XI (XI (XI (XI
    (XI (XI (XI (XI (XO (XO (XI (XO (XO (XO (XO (XI (XI (XI (XI (XI (XO (XI
    (XI (XI (XI (XI XH)))))))))))))))))))))))))))))) :: ((Zpos (XI (XO (XI
    (XO (XO (XO (XI (XO (XI (XO (XO (XO (XO (XI (XI (XI (XI (XI (XO (XI (XI
    (XI (XI (XO (XI (XI (XI (XI (XI
    XH)))))))))))))))))))))))))))))) :: ((Zpos (XI (XO (XO (XO (XO (XI (XO
    (XO (XO (XO (XO (XI (XI (XO (XO (XI (XI (XI (XO (XI (XI (XI (XI (XO (XI
    (XI (XI (XI (XI XH)))))))))))))))))))))))))))))) :: ((Zpos (XI (XI (XI
    (XI (XO (XO (XO (XI (XO (XO (XI (XI (XO (XO (XI (XO (XI (XI (XO (XI (XI
    (XI (XI (XO (XI (XI (XI (XI (XI
    XH)))))))))))))))))))))))))))))) :: ((Zpos (XO (XO (XO (XO (XI (XO (XO
    (XI (XO (XI (XI (XI (XI (XI (XI (XI (XO (XI (XO (XI (XI (XI (XI (XO (XI
    (XI (XI (XI (XI XH)))))))))))))))))))))))))))))) :: ((Zpos (XO (XO (XI
    (XO (XO (XI (XO (XO (XO (XI (XI (XI (XO (XI (XO (XI (XO (XI (XO (XI (XI
    (XI (XI (XO (XI (XI (XI (XI (XI
    XH)))))))))))))))))))))))))))))) :: ((Zpos (XI (XO (XI (XI (XO (XO (XI
    (XO (XI (XI (XO (XI (XI (XO (XI (XO (XO (XI (XO (XI (XI (XI (XI (XO (XI
    (XI (XI (XI (XI XH)))))))))))))))))))))))))))))) :: ((Zpos (XI (XI (XO
    (XI (XO (XO (XO (XO (XO (XI (XI (XO (XO (XO (XO (XO (XO (XI (XO (XI (XI
    (XI (XI (XO (XI (XI (XI (XI (XI
    XH)))))))))))))))))))))))))))))) :: ((Zpos (XO (XI (XI (XI (XI (XO (XI
    (XO (XO (XI (XI (XI (XO (XI (XO (XI (XI (XO (XO (XI (XI (XI (XI (XO (XI
    (XI (XI (XI (XI XH)))))))))))))))))))))))))))))) :: ((Zpos (XI (XO (XO
    (XI (XO (XO (XI (XO (XO (XO (XI (XO (XI (XO (XI (XO (XI (XO (XO (XI (XI
    (XI (XI (XO (XI (XI (XI (XI (XI
    XH)))))))))))))))))))))))))))))) :: ((Zpos (XI (XI (XO (XI (XO (XO (XI
    (XI (XI (XI (XI (XO (XI (XI (XI (XI (XO (XO (XO (XI (XI (XI (XI (XO (XI
    (XI (XI (XI (XI XH)))))))))))))))))))))))))))))) :: ((Zpos (XI (XO (XI
    (XO (XO (XI (XI (XI (XO (XO (XO (XI (XI (XO (XO (XI (XO (XO (XO (XI (XI
    (XI (XI (XO (XI (XI (XI (XI (XI
    XH)))))))))))))))))))))))))))))) :: ((Zpos (XI (XO (XO (XI (XI (XO (XO
    (XI (XI (XI (XI (XO (XI (XI (XO (XO (XO (XO (XO (XI (XI (XI (XI (XO (XI
    (XI (XI (XI (XI XH)))))))))))))))))))))))))))))) :: ((Zpos (XI (XI (XI
    (XO (XO (XI (XI (XI (XI (XI (XO (XO (XI (XO (XI (XI (XI (XI (XI (XO (XI
    (XI (XI (XO (XI (XI (XI (XI (XI
    XH)))))))))))))))))))))))))))))) :: ((Zpos (XO (XO (XO (XO (XI (XO (XI
    (XI (XI (XO (XI (XI (XO (XI (XI (XO (XI (XI (XI (XO (XI (XI (XI (XO (XI
    (XI (XI (XI (XI XH)))))))))))))))))))))))))))))) :: ((Zpos (XO (XI (XI
    (XO (XI (XO (XI (XO (XI (XO (XI (XO (XO (XO (XO (XO (XI (XI (XI (XO (XI
    (XI (XI (XO (XI (XI (XI (XI (XI
    XH)))))))))))))))))))))))))))))) :: ((Zpos (XI (XO (XO (XI (XI (XI (XI
    (XO (XO (XI (XO (XI (XI (XO (XO (XI (XO (XI (XI (XO (XI (XI (XI (XO (XI
    (XI (XI (XI (XI XH)))))))))))))))))))))))))))))) :: ((Zpos (XI (XI (XO
    (XI (XI (XI (XO (XO (XI (XO (XI (XI (XO (XI (XO (XO (XO (XI (XI (XO (XI
    (XI (XI (XO (XI (XI (XI (XI (XI
    XH)))))))))))))))))))))))))))))) :: ((Zpos (XO (XO (XI (XI (XI (XO (XO
    (XI (XI (XO (XI (XI (XI (XI (XO (XI (XI (XO (XI (XO (XI (XI (XI (XO (XI
    (XI (XI (XI (XI XH)))))))))))))))))))))))))))))) :: ((Zpos (XI (XO (XI
    (XI (XI (XO (XO (XI (XI (XI (XO (XI (XO (XO (XI (XO (XI (XO (XI (XO (XI
    (XI (XI (XO (XI (XI (XI (XI (XI
    XH)))))))))))))))))))))))))))))) :: ((Zpos (XO (XO (XO (XO (XO (XO (XI
    (XO (XI (XI (XI (XO (XI (XO (XI (XI (XO (XO (XI (XO (XI (XI (XI (XO (XI
    (XI (XI (XI (XI XH)))))))))))))))))))))))))))))) :: ((Zpos (XI (XO (XI
    (XO (XO (XO (XO (XI (XO (XO (XO (XO (XO (XI (XI (XO (XO (XO (XI (XO (XI
    (XI (XI (XO (XI (XI (XI (XI (XI
    XH)))))))))))))))))))))))))))))) :: ((Zpos (XI (XI (XI (XI (XO (XI (XI
    (XO (XI (XI (XI (XO (XO (XI (XI (XI (XI (XI (XO (XO (XI (XI (XI (XO (XI
    (XI (XI (XI (XI XH)))))))))))))))))))))))))))))) :: ((Zpos (XI (XO (XI
    (XI (XI (XI (XI (XI (XI (XI (XO (XI (XO (XI (XI (XO (XI (XI (XO (XO (XI
    (XI (XI (XO (XI (XI (XI (XI (XI
    XH)))))))))))))))))))))))))))))) :: ((Zpos (XO (XI (XO (XO (XI (XI (XO
    (XO (XO (XI (XI (XI (XO (XI (XI (XI (XO (XI (XO (XO (XI (XI (XI (XO (XI
    (XI (XI (XI (XI XH)))))))))))))))))))))))))))))) :: ((Zpos (XO (XI (XI
    (XI (XO (XO (XO (XO (XO (XI (XI (XI (XO (XI (XI (XO (XO (XI (XO (XO (XI
    (XI (XI (XO (XI (XI (XI (XI (XI
    XH)))))))))))))))))))))))))))))) :: ((Zpos (XI (XI (XO (XO (XI (XO (XO
    (XI (XI (XI (XO (XI (XO (XI (XI (XI (XI (XO (XO (XO (XI (XI (XI (XO (XI
    (XI (XI (XI (XI XH)))))))))))))))))))))))))))))) :: ((Zpos (XO (XI (XO
    (XO (XO (XO (XI (XI (XO (XI (XI (XO (XO (XI (XI (XO (XI (XO (XO (XO (XI
    (XI (XI (XO (XI (XI (XI (XI (XI
    XH)))))))))))))))))))))))))))))) :: ((Zpos (XI (XI (XO (XI (XI (XO (XO
    (XI (XI (XI (XI (XI (XI (XO (XI (XI (XO (XO (XO (XO (XI (XI (XI (XO (XI
    (XI (XI (XI (XI XH)))))))))))))))))))))))))))))) :: ((Zpos (XO (XI (XO
    (XO (XO (XI (XO (XO (XO (XI (XI (XO (XI (XO (XI (XO (XO (XO (XO (XO (XI
    (XI (XI (XO (XI (XI (XI (XI (XI
    XH)))))))))))))))))))))))))))))) :: ((Zpos (XO (XI (XI (XO (XI (XO (XI
    (XO (XO (XI (XO (XI (XO (XO (XI (XI (XI (XI (XI (XI (XO (XI (XI (XO (XI
    (XI (XI (XI (XI XH)))))))))))))))))))))))))))))) :: ((Zpos (XI (XO (XO
    (XI (XI (XI (XO (XO (XO (XO (XI (XI (XI (XI (XO (XO (XI (XI (XI (XI (XO
    (XI (XI (XO (XI (XI (XI (XI (XI
    XH)))))))))))))))))))))))))))))) :: ((Zpos (XI (XO (XI (XI (XO (XO (XI
    (XI (XI (XI (XO (XI (XO (XI (XO (XI (XO (XI (XI (XI (XO (XI (XI (XO (XI
    (XI (XI (XI (XI XH)))))))))))))))))))))))))))))) :: ((Zpos (XI (XI (XO
    (XO (XI (XO (XO (XO (XI (XO (XO (XI (XI (XO (XO (XO (XO (XI (XI (XI (XO
    (XI (XI (XO (XI (XI (XI (XI (XI
    XH)))))))))))))))))))))))))))))) :: ((Zpos (XI (XO (XI (XI (XO (XO (XO
    (XO (XO (XO (XI (XO (XO (XO (XO (XI (XI (XO (XI (XI (XO (XI (XI (XO (XI
    (XI (XI (XI (XI XH)))))))))))))))))))))))))))))) :: ((Zpos (XI (XI (XO
    (XI (XI (XI (XO (XI (XO (XO (XI (XI (XO (XI (XI (XI (XO (XO (XI (XI (XO
    (XI (XI (XO (XI (XI (XI (XI (XI
    XH)))))))))))))))))))))))))))))) :: ((Zpos (XI (XI (XI (XI (XI (XO (XO
    (XO (XI (XI (XO (XO (XI (XO (XI (XO (XO (XO (XI (XI (XO (XI (XI (XO (XI
    (XI (XI (XI (XI XH)))))))))))))))))))))))))))))) :: ((Zpos (XI (XI (XO
    (XI (XI (XI (XO (XO (XI (XI (XI (XO (XI (XI (XO (XI (XI (XI (XO (XI (XO
    (XI (XI (XO (XI (XI (XI (XI (XI
    XH)))))))))))))))))))))))))))))) :: ((Zpos (XO (XO (XO (XO (XI (XO (XO
    (XO (XI (XO (XO (XI (XI (XO (XO (XO (XI (XI (XO (XI (XO (XI (XI (XO (XI
    (XI (XI (XI (XI XH)))))))))))))))))))))))))))))) :: ((Zpos (XI (XO (XO
    (XO (XO (XI (XO (XI (XO (XO (XO (XI (XI (XI (XI (XO (XO (XI (XO (XI (XO
    (XI (XI (XO (XI (XI (XI (XI (XI
    XH)))))))))))))))))))))))))))))) :: ((Zpos (XI (XO (XI (XI (XO (XI (XI
    (XI (XI (XO (XI (XO (XI (XO (XI (XI (XI (XO (XO (XI (XO (XI (XI (XO (XI
    (XI (XI (XI (XI XH)))))))))))))))))))))))))))))) :: ((Zpos (XO (XO (XO
    (XI (XI (XI (XI (XI (XO (XO (XO (XO (XI (XI (XO (XO (XI (XO (XO (XI (XO
    (XI (XI (XO (XI (XI (XI (XI (XI
    XH)))))))))))))))))))))))))))))) :: ((Zpos (XI (XO (XO (XO (XO (XO (XI
    (XI (XI (XO (XO (XI (XO (XO (XO (XI (XO (XO (XO (XI (XO (XI (XI (XO (XI
    (XI (XI (XI (XI XH)))))))))))))))))))))))))))))) :: ((Zpos (XO (XO (XI
    (XI (XO (XO (XI (XO (XO (XO (XO (XO (XO (XI (XI (XI (XI (XI (XI (XO (XO
    (XI (XI (XO (XI (XI (XI (XI (XI
    XH)))))))))))))))))))))))))))))) :: ((Zpos (XO (XI (XO (XI (XI (XO (XO
    (XI (XO (XO (XI (XO (XI (XI (XO (XO (XI (XI (XI (XO (XO (XI (XI (XO (XI
    (XI (XI (XI (XI XH)))))))))))))))))))))))))))))) :: ((Zpos (XO (XO (XI
    (XI (XO (XI (XO (XI (XO (XI (XI (XO (XO (XO (XO (XI (XO (XI (XI (XO (XO
    (XI (XI (XO (XI (XI (XI (XI (XI
    XH)))))))))))))))))))))))))))))) :: ((Zpos (XI (XO (XI (XO (XO (XO (XO
    (XI (XO (XI (XI (XO (XI (XO (XI (XI (XI (XO (XI (XO (XO (XI (XI (XO (XI
    (XI (XI (XI (XI XH)))))))))))))))))))))))))))))) :: ((Zpos (XI (XO (XI
    (XO (XO (XI (XO (XO (XO (XO (XI (XO (XO (XI (XO (XO (XI (XO (XI (XO (XO
    (XI (XI (XO (XI (XI (XI (XI (XI
    XH)))))))))))))))))))))))))))))) :: ((Zpos (XO (XI (XI (XI (XO (XO (XO
    (XI (XI (XI (XI (XI (XO (XI (XI (XO (XO (XO (XI (XO (XO (XI (XI (XO (XI
    (XI (XI (XI (XI XH)))))))))))))))))))))))))))))) :: ((Zpos (XI (XI (XO
    (XO (XO (XO (XI (XI (XO (XO (XO (XI (XI (XI (XO (XI (XI (XI (XO (XO (XO
    (XI (XI (XO (XI (XI (XI (XI (XI
    XH)))))))))))))))))))))))))))))) :: ((Zpos (XI (XO (XI (XO (XO (XO (XI
    (XI (XI (XI (XI (XI (XI (XI (XI (XI (XO (XI (XO (XO (XO (XI (XI (XO (XI
    (XI (XI (XI (XI XH)))))))))))))))))))))))))))))) :: ((Zpos (XO (XI (XI
    (XO (XI (XO (XO (XI (XO (XO (XI (XO (XO (XO (XI (XO (XO (XI (XO (XO (XO
    (XI (XI (XO (XI (XI (XI (XI (XI
    XH)))))))))))))))))))))))))))))) :: ((Zpos (XI (XI (XI (XO (XI (XI (XO
    (XO (XI (XI (XI (XO (XO (XO (XO (XI (XI (XO (XO (XO (XO (XI (XI (XO (XI
    (XI (XI (XI (XI XH)))))))))))))))))))))))))))))) :: ((Zpos (XI (XI (XO
    (XI (XO (XI (XO (XI (XI (XI (XI (XO (XO (XO (XI (XI (XO (XO (XO (XO (XO
    (XI (XI (XO (XI (XI (XI (XI (XI
    XH)))))))))))))))))))))))))))))) :: ((Zpos (XI (XI (XO (XO (XI (XI (XI
    (XI (XI (XO (XI (XO (XO (XO (XO (XO (XO (XO (XO (XO (XO (XI (XI (XO (XI
    (XI (XI (XI (XI XH)))))))))))))))))))))))))))))) :: ((Zpos (XI (XO (XO
    (XO (XI (XO (XO (XO (XO (XI (XO (XO (XO (XO (XI (XO (XI (XI (XI (XI (XI
    (XO (XI (XO (XI (XI (XI (XI (XI
    XH)))))))))))))))))))))))))))))) :: ((Zpos (XI (XI (XI (XO (XO (XO (XO
    (XO (XO (XO (XI (XI (XI (XI (XI (XO (XO (XI (XI (XI (XI (XO (XI (XO (XI
    (XI (XI (XI (XI XH)))))))))))))))))))))))))))))) :: ((Zpos (XI (XI (XI
    (XO (XI (XO (XI (XI (XI (XI (XO (XO (XI (XI (XO (XI (XI (XO (XI (XI (XI
    (XO (XI (XO (XI (XI (XI (XI (XI
    XH)))))))))))))))))))))))))))))) :: ((Zpos (XI (XI (XO (XO (XO (XO (XO
    (XI (XI (XO (XO (XI (XO (XI (XI (XI (XO (XO (XI (XI (XI (XO (XI (XO (XI
    (XI (XI (XI (XI XH)))))))))))))))))))))))))))))) :: ((Zpos (XI (XO (XI
    (XI (XO (XO (XO (XO (XI (XO (XI (XI (XI (XO (XO (XO (XO (XO (XI (XI (XI
    (XO (XI (XO (XI (XI (XI (XI (XI
    XH)))))))))))))))))))))))))))))) :: ((Zpos (XI (XI (XI (XO (XI (XI (XI
    (XO (XO (XI (XI (XI (XO (XO (XI (XO (XI (XI (XO (XI (XI (XO (XI (XO (XI
    (XI (XI (XI (XI XH)))))))))))))))))))))))))))))) :: ((Zpos (XI (XI (XO
    (XO (XO (XO (XI (XI (XI (XO (XI (XI (XI (XI (XI (XO (XO (XI (XO (XI (XI
    (XO (XI (XO (XI (XI (XI (XI (XI
    XH)))))))))))))))))))))))))))))) :: ((Zpos (XO (XI (XO (XO (XI (XI (XI
    (XI (XO (XI (XO (XI (XO (XI (XO (XI (XI (XO (XO (XI (XI (XO (XI (XO (XI
    (XI (XI (XI (XI XH)))))))))))))))))))))))))))))) :: ((Zpos (XO (XO (XO
    (XI (XO (XO (XO (XO (XO (XI (XI (XO (XI (XO (XI (XI (XO (XO (XO (XI (XI
    (XO (XI (XO (XI (XI (XI (XI (XI
    XH)))))))))))))))))))))))))))))) :: ((Zpos (XI (XO (XI (XO (XO (XO (XO
    (XO (XI (XI (XI (XI (XI (XI (XI (XI (XI (XI (XI (XO (XI (XO (XI (XO (XI
    (XI (XI (XI (XI XH)))))))))))))))))))))))))))))) :: ((Zpos (XO (XO (XI
    (XI (XO (XI (XI (XI (XI (XO (XI (XO (XO (XI (XO (XO (XI (XI (XI (XO (XI
    (XO (XI (XO (XI (XI (XI (XI (XI
    XH)))))))))))))))))))))))))))))) :: ((Zpos (XI (XI (XI (XI (XI (XI (XO
    (XI (XO (XI (XO (XI (XO (XO (XI (XO (XO (XI (XI (XO (XI (XO (XI (XO (XI
    (XI (XI (XI (XI XH)))))))))))))))))))))))))))))) :: ((Zpos (XI (XO (XO
    (XO (XO (XO (XO (XI (XI (XO (XI (XI (XO (XI (XI (XO (XI (XO (XI (XO (XI
    (XO (XI (XO (XI (XI (XI (XI (XI
    XH)))))))))))))))))))))))))))))) :: ((Zpos (XI (XI (XO (XO (XI (XI (XO
    (XO (XO (XI (XI (XI (XO (XO (XO (XI (XO (XO (XI (XO (XI (XO (XI (XO (XI
    (XI (XI (XI (XI XH)))))))))))))))))))))))))))))) :: ((Zpos (XO (XO (XO
    (XI (XI (XO (XI (XI (XO (XO (XI (XI (XO (XI (XO (XI (XI (XI (XO (XO (XI
    (XO (XI (XO (XI (XI (XI (XI (XI
    XH)))))))))))))))))))))))))))))) :: ((Zpos (XI (XO (XO (XO (XI (XI (XI
    (XO (XI (XO (XO (XI (XO (XO (XI (XI (XO (XI (XO (XO (XI (XO (XI (XO (XI
    (XI (XI (XI (XI XH)))))))))))))))))))))))))))))) :: ((Zpos (XI (XO (XO
    (XO (XO (XO (XO (XO (XO (XO (XI (XO (XO (XI (XI (XI (XI (XO (XO (XO (XI
    (XO (XI (XO (XI (XI (XI (XI (XI
    XH)))))))))))))))))))))))))))))) :: ((Zpos (XO (XI (XO (XI (XO (XO (XO
    (XI (XO (XO (XI (XI (XI (XI (XI (XI (XO (XO (XO (XO (XI (XO (XI (XO (XI
    (XI (XI (XI (XI XH)))))))))))))))))))))))))))))) :: ((Zpos (XI (XI (XI
    (XI (XO (XO (XO (XO (XI (XI (XO (XO (XI (XO (XO (XO (XO (XO (XO (XO (XI
    (XO (XI (XO (XI (XI (XI (XI (XI
    XH)))))))))))))))))))))))))))))) :: ((Zpos (XI (XO (XO (XO (XI (XO (XO
    (XI (XI (XI (XI (XO (XO (XI (XO (XO (XI (XI (XI (XI (XO (XO (XI (XO (XI
    (XI (XI (XI (XI XH)))))))))))))))))))))))))))))) :: ((Zpos (XI (XI (XO
    (XO (XI (XO (XO (XO (XO (XI (XO (XI (XI (XI (XO (XO (XO (XI (XI (XI (XO
    (XO (XI (XO (XI (XI (XI (XI (XI
    XH)))))))))))))))))))))))))))))) :: ((Zpos (XI (XI (XI (XO (XI (XO (XO
    (XI (XO (XI (XO (XI (XO (XO (XI (XO (XI (XO (XI (XI (XO (XO (XI (XO (XI
    (XI (XI (XI (XI XH)))))))))))))))))))))))))))))) :: ((Zpos (XI (XI (XI
    (XI (XI (XO (XO (XO (XI (XO (XO (XI (XI (XO (XI (XO (XO (XO (XI (XI (XO
    (XO (XI (XO (XI (XI (XI (XI (XI
    XH)))))))))))))))))))))))))))))) :: ((Zpos (XI (XI (XI (XI (XO (XI (XO
    (XI (XI (XO (XI (XO (XO (XI (XI (XO (XI (XI (XO (XI (XO (XO (XI (XO (XI
    (XI (XI (XI (XI XH)))))))))))))))))))))))))))))) :: ((Zpos (XI (XI (XI
    (XO (XO (XO (XI (XO (XO (XO (XO (XO (XI (XI (XI (XO (XO (XI (XO (XI (XO
    (XO (XI (XO (XI (XI (XI (XI (XI
    XH)))))))))))))))))))))))))))))) :: ((Zpos (XI (XI (XO (XI (XO (XI (XI
    (XI (XO (XO (XO (XI (XI (XI (XI (XO (XI (XO (XO (XI (XO (XO (XI (XO (XI
    (XI (XI (XI (XI XH)))))))))))))))))))))))))))))) :: ((Zpos (XI (XO (XI
    (XI (XI (XO (XO (XI (XI (XI (XI (XI (XI (XI (XI (XO (XO (XO (XO (XI (XO
    (XO (XI (XO (XI (XI (XI (XI (XI
    XH)))))))))))))))))))))))))))))) :: ((Zpos (XO (XO (XO (XO (XO (XI (XI
    (XO (XO (XO (XI (XO (XO (XO (XO (XI (XI (XI (XI (XO (XO (XO (XI (XO (XI
    (XI (XI (XI (XI XH)))))))))))))))))))))))))))))) :: ((Zpos (XI (XO (XI
    (XO (XI (XI (XO (XO (XI (XI (XI (XO (XO (XO (XO (XI (XO (XI (XI (XO (XO
    (XO (XI (XO (XI (XI (XI (XI (XI
    XH)))))))))))))))))))))))))))))) :: ((Zpos (XI (XI (XI (XI (XI (XO (XO
    (XO (XO (XO (XO (XI (XO (XO (XO (XI (XI (XO (XI (XO (XO (XO (XI (XO (XI
    (XI (XI (XI (XI XH)))))))))))))))))))))))))))))) :: ((Zpos (XI (XO (XO
    (XO (XO (XI (XO (XO (XI (XI (XI (XO (XO (XO (XO (XI (XO (XO (XI (XO (XO
    (XO (XI (XO (XI (XI (XI (XI (XI
    XH)))))))))))))))))))))))))))))) :: ((Zpos (XI (XO (XI (XI (XI (XI (XO
    (XO (XO (XO (XI (XO (XO (XO (XO (XI (XI (XI (XO (XO (XO (XO (XI (XO (XI
    (XI (XI (XI (XI XH)))))))))))))))))))))))))))))) :: ((Zpos (XO (XI (XI
    (XO (XI (XI (XI (XO (XI (XI (XI (XI (XI (XI (XI (XO (XO (XI (XO (XO (XO
    (XO (XI (XO (XI (XI (XI (XI (XI
    XH)))))))))))))))))))))))))))))) :: ((Zpos (XO (XI (XI (XI (XO (XO (XI
    (XI (XO (XO (XO (XI (XI (XI (XI (XO (XI (XO (XO (XO (XO (XO (XI (XO (XI
    (XI (XI (XI (XI XH)))))))))))))))))))))))))))))) :: ((Zpos (XI (XI (XI
    (XO (XO (XO (XI (XO (XO (XO (XO (XO (XI (XI (XI (XO (XO (XO (XO (XO (XO
    (XO (XI (XO (XI (XI (XI (XI (XI
    XH)))))))))))))))))))))))))))))) :: ((Zpos (XI (XO (XI (XO (XO (XI (XI
    (XI (XI (XO (XI (XO (XO (XI (XI (XO (XI (XI (XI (XI (XI (XI (XO (XO (XI
    (XI (XI (XI (XI XH)))))))))))))))))))))))))))))) :: ((Zpos (XO (XI (XO
    (XI (XO (XI (XO (XI (XI (XO (XO (XI (XI (XO (XI (XO (XO (XI (XI (XI (XI
    (XI (XO (XO (XI (XI (XI (XI (XI
    XH)))))))))))))))))))))))))))))) :: ((Zpos (XO (XO (XO (XI (XI (XO (XO
    (XI (XI (XI (XO (XI (XO (XO (XI (XO (XI (XO (XI (XI (XI (XI (XO (XO (XI
    (XI (XI (XI (XI XH)))))))))))))))))))))))))))))) :: ((Zpos (XO (XI (XO
    (XO (XI (XI (XO (XI (XI (XI (XO (XI (XI (XI (XO (XO (XO (XO (XI (XI (XI
    (XI (XO (XO (XI (XI (XI (XI (XI
    XH)))))))))))))))))))))))))))))) :: ((Zpos (XI (XI (XO (XI (XI (XI (XI
    (XI (XI (XO (XO (XI (XO (XI (XO (XO (XI (XI (XO (XI (XI (XI (XO (XO (XI
    (XI (XI (XI (XI XH)))))))))))))))))))))))))))))) :: ((Zpos (XI (XO (XI
    (XO (XI (XI (XI (XO (XO (XI (XI (XO (XI (XO (XO (XO (XO (XI (XO (XI (XI
    (XI (XO (XO (XI (XI (XI (XI (XI
    XH)))))))))))))))))))))))))))))) :: ((Zpos (XI (XI (XO (XO (XO (XI (XO
    (XO (XI (XO (XO (XO (XO (XO (XO (XO (XI (XO (XO (XI (XI (XI (XO (XO (XI
    (XI (XI (XI (XI XH)))))))))))))))))))))))))))))) :: ((Zpos (XI (XI (XI
    (XO (XO (XO (XO (XO (XO (XI (XO (XI (XO (XI (XI (XI (XI (XI (XI (XO (XI
    (XI (XO (XO (XI (XI (XI (XI (XI
    XH)))))))))))))))))))))))))))))) :: ((Zpos (XI (XO (XI (XO (XO (XI (XO
    (XO (XI (XO (XO (XO (XI (XO (XI (XI (XO (XI (XI (XO (XI (XI (XO (XO (XI
    (XI (XI (XI (XI XH)))))))))))))))))))))))))))))) :: ((Zpos (XI (XI (XI
    (XI (XI (XI (XI (XO (XO (XI (XI (XO (XI (XI (XO (XI (XI (XO (XI (XO (XI
    (XI (XO (XO (XI (XI (XI (XI (XI
    XH)))))))))))))))))))))))))))))) :: ((Zpos (XO (XO (XO (XI (XI (XO (XO
    (XO (XO (XI (XO (XI (XI (XO (XO (XI (XO (XO (XI (XO (XI (XI (XO (XO (XI
    (XI (XI (XI (XI XH)))))))))))))))))))))))))))))) :: ((Zpos (XO (XI (XO
    (XO (XI (XI (XI (XI (XI (XI (XO (XI (XI (XI (XI (XO (XI (XI (XO (XO (XI
    (XI (XO (XO (XI (XI (XI (XI (XI
    XH)))))))))))))))))))))))))))))) :: ((Zpos (XI (XO (XO (XO (XI (XO (XO
    (XO (XO (XO (XI (XI (XI (XO (XI (XO (XO (XI (XO (XO (XI (XI (XO (XO (XI
    (XI (XI (XI (XI XH)))))))))))))))))))))))))))))) :: ((Zpos (XO (XI (XI
    (XO (XI (XI (XI (XO (XO (XI (XO (XI (XI (XI (XO (XO (XI (XO (XO (XO (XI
    (XI (XO (XO (XI (XI (XI (XI (XI
    XH)))))))))))))))))))))))))))))) :: ((Zpos (XO (XI (XI (XO (XO (XI (XO
    (XO (XI (XI (XI (XO (XI (XO (XO (XO (XO (XO (XO (XO (XI (XI (XO (XO (XI
    (XI (XI (XI (XI XH)))))))))))))))))))))))))))))) :: ((Zpos (XO (XI (XO
    (XO (XO (XI (XO (XO (XO (XI (XO (XO (XI (XI (XI (XI (XO (XI (XI (XI (XO
    (XI (XO (XO (XI (XI (XI (XI (XI
    XH)))))))))))))))))))))))))))))) :: ((Zpos (XI (XO (XI (XI (XO (XI (XI
    (XO (XI (XI (XO (XI (XO (XO (XI (XI (XI (XO (XI (XI (XO (XI (XO (XO (XI
    (XI (XI (XI (XI XH)))))))))))))))))))))))))))))) :: ((Zpos (XI (XI (XO
    (XI (XO (XO (XO (XO (XI (XI (XO (XO (XO (XI (XO (XI (XO (XO (XI (XI (XO
    (XI (XO (XO (XI (XI (XI (XI (XI
    XH)))))))))))))))))))))))))))))) :: ((Zpos (XO (XI (XI (XI (XI (XI (XI
    (XI (XO (XO (XO (XI (XI (XI (XI (XO (XI (XI (XO (XI (XO (XI (XO (XO (XI
    (XI (XI (XI (XI XH)))))))))))))))))))))))))))))) :: ((Zpos (XO (XI (XO
    (XI (XO (XO (XI (XO (XI (XO (XI (XI (XO (XO (XI (XO (XO (XI (XO (XI (XO
    (XI (XO (XO (XI (XI (XI (XI (XI
    XH)))))))))))))))))))))))))))))) :: ((Zpos (XO (XO (XO (XO (XI (XI (XI
    (XI (XI (XI (XI (XI (XI (XO (XO (XO (XI (XO (XO (XI (XO (XI (XO (XO (XI
    (XI (XI (XI (XI XH)))))))))))))))))))))))))))))) :: ((Zpos (XO (XO (XI
    (XO (XI (XI (XI (XI (XO (XO (XO (XO (XI (XI (XI (XI (XI (XI (XI (XO (XO
    (XI (XO (XO (XI (XI (XI (XI (XI
    XH)))))))))))))))))))))))))))))) :: ((Zpos (XI (XO (XO (XI (XI (XO (XI
    (XO (XO (XO (XO (XO (XO (XO (XI (XI (XO (XI (XI (XO (XO (XI (XO (XO (XI
    (XI (XI (XI (XI XH)))))))))))))))))))))))))))))) :: ((Zpos (XI (XO (XO
    (XO (XO (XI (XO (XO (XO (XI (XI (XI (XO (XO (XO (XI (XI (XO (XI (XO (XO
    (XI (XO (XO (XI (XI (XI (XI (XI
    XH)))))))))))))))))))))))))))))) :: ((Zpos (XI (XO (XO (XO (XI (XO (XI
    (XO (XO (XI (XO (XI (XI (XO (XI (XO (XO (XO (XI (XO (XO (XI (XO (XO (XI
    (XI (XI (XI (XI XH)))))))))))))))))))))))))))))) :: ((Zpos (XO (XI (XO
    (XI (XO (XI (XI (XI (XO (XO (XI (XO (XO (XI (XO (XO (XI (XI (XO (XO (XO
    (XI (XO (XO (XI (XI (XI (XI (XI
    XH)))))))))))))))))))))))))))))) :: ((Zpos (XO (XO (XO (XO (XI (XI (XI
    (XI (XI (XO (XI (XI (XO (XI (XI (XI (XI (XO (XO (XO (XO (XI (XO (XO (XI
    (XI (XI (XI (XI XH)))))))))))))))))))))))))))))) :: ((Zpos (XI (XO (XI
    (XO (XO (XI (XI (XO (XI (XO (XI (XO (XI (XI (XO (XI (XO (XO (XO (XO (XO
    (XI (XO (XO (XI (XI (XI (XI (XI
    XH)))))))))))))))))))))))))))))) :: ((Zpos (XI (XO (XI (XI (XO (XO (XI
    (XO (XI (XI (XO (XI (XI (XI (XI (XO (XI (XI (XI (XI (XI (XO (XO (XO (XI
    (XI (XI (XI (XI XH)))))))))))))))))))))))))))))) :: ((Zpos (XI (XI (XO
    (XI (XO (XI (XO (XI (XI (XI (XI (XI (XI (XI (XO (XO (XO (XI (XI (XI (XI
    (XO (XO (XO (XI (XI (XI (XI (XI
    XH)))))))))))))))))))))))))))))) :: ((Zpos (XI (XO (XO (XO (XO (XO (XO
    (XI (XO (XI (XO (XO (XO (XO (XO (XO (XI (XO (XI (XI (XI (XO (XO (XO (XI
    (XI (XI (XI (XI XH)))))))))))))))))))))))))))))) :: ((Zpos (XO (XO (XI
    (XO (XI (XO (XI (XI (XI (XI (XO (XO (XO (XO (XI (XI (XI (XI (XO (XI (XI
    (XO (XO (XO (XI (XI (XI (XI (XI
    XH)))))))))))))))))))))))))))))) :: ((Zpos (XI (XO (XI (XO (XO (XI (XO
    (XI (XI (XI (XO (XO (XO (XO (XO (XI (XO (XI (XO (XI (XI (XO (XO (XO (XI
    (XI (XI (XI (XI XH)))))))))))))))))))))))))))))) :: ((Zpos (XO (XO (XO
    (XI (XI (XI (XI (XI (XI (XO (XO (XO (XO (XO (XI (XO (XI (XO (XO (XI (XI
    (XO (XO (XO (XI (XI (XI (XI (XI
    XH)))))))))))))))))))))))))))))) :: ((Zpos (XI (XO (XO (XO (XI (XO (XI
    (XI (XO (XI (XI (XI (XI (XI (XI (XI (XI (XI (XI (XO (XI (XO (XO (XO (XI
    (XI (XI (XI (XI XH)))))))))))))))))))))))))))))) :: ((Zpos (XO (XI (XO
    (XO (XI (XI (XO (XO (XO (XI (XO (XI (XI (XI (XO (XI (XO (XI (XI (XO (XI
    (XO (XO (XO (XI (XI (XI (XI (XI
    XH)))))))))))))))))))))))))))))) :: ((Zpos (XO (XI (XI (XI (XI (XO (XO
    (XO (XO (XO (XI (XO (XI (XI (XI (XO (XI (XO (XI (XO (XI (XO (XO (XO (XI
    (XI (XI (XI (XI XH)))))))))))))))))))))))))))))) :: ((Zpos (XO (XO (XO
    (XI (XI (XO (XO (XI (XO (XO (XI (XI (XO (XI (XO (XO (XO (XO (XI (XO (XI
    (XO (XO (XO (XI (XI (XI (XI (XI
    XH)))))))))))))))))))))))))))))) :: ((Zpos (XO (XO (XI (XO (XO (XI (XO
    (XI (XI (XI (XO (XO (XO (XI (XI (XI (XO (XI (XO (XO (XI (XO (XO (XO (XI
    (XI (XI (XI (XI XH)))))))))))))))))))))))))))))) :: ((Zpos (XO (XI (XI
    (XO (XO (XO (XI (XO (XI (XO (XO (XI (XI (XO (XO (XI (XI (XO (XO (XO (XI
    (XO (XO (XO (XI (XI (XI (XI (XI
    XH)))))))))))))))))))))))))))))) :: ((Zpos (XI (XI (XI (XI (XI (XI (XI
    (XO (XI (XO (XI (XI (XO (XO (XI (XO (XO (XO (XO (XO (XI (XO (XO (XO (XI
    (XI (XI (XI (XI XH)))))))))))))))))))))))))))))) :: ((Zpos (XI (XI (XO
    (XO (XI (XO (XI (XO (XO (XO (XO (XO (XO (XO (XO (XO (XI (XI (XI (XI (XO
    (XO (XO (XO (XI (XI (XI (XI (XI
    XH)))))))))))))))))))))))))))))) :: ((Zpos (XO (XI (XI (XO (XO (XO (XI
    (XI (XI (XO (XO (XO (XI (XI (XO (XI (XI (XO (XI (XI (XO (XO (XO (XO (XI
    (XI (XI (XI (XI XH)))))))))))))))))))))))))))))) :: ((Zpos (XI (XI (XO
    (XI (XI (XO (XI (XI (XI (XO (XO (XO (XO (XI (XI (XO (XO (XO (XI (XI (XO
    (XO (XO (XO (XI (XI (XI (XI (XI
    XH)))))))))))))))))))))))))))))) :: ((Zpos (XO (XO (XI (XO (XI (XO (XO
    (XI (XO (XO (XO (XO (XI (XO (XO (XO (XI (XI (XO (XI (XO (XO (XO (XO (XI
    (XI (XI (XI (XI XH)))))))))))))))))))))))))))))) :: ((Zpos (XO (XI (XI
    (XO (XI (XI (XI (XI (XI (XO (XI (XI (XI (XI (XO (XI (XI (XO (XO (XI (XO
    (XO (XO (XO (XI (XI (XI (XI (XI
    XH)))))))))))))))))))))))))))))) :: ((Zpos (XI (XI (XO (XO (XO (XO (XO
    (XO (XO (XI (XO (XI (XO (XI (XI (XO (XO (XO (XO (XI (XO (XO (XO (XO (XI
    (XI (XI (XI (XI XH)))))))))))))))))))))))))))))) :: ((Zpos (XI (XI (XI
    (XI (XI (XI (XO (XI (XO (XO (XI (XO (XI (XO (XO (XO (XI (XI (XI (XO (XO
    (XO (XO (XO (XI (XI (XI (XI (XI
    XH)))))))))))))))))))))))))))))) :: ((Zpos (XI (XO (XI (XI (XO (XI (XO
    (XO (XO (XI (XI (XI (XI (XI (XO (XI (XI (XO (XI (XO (XO (XO (XO (XO (XI
    (XI (XI (XI (XI XH)))))))))))))))))))))))))))))) :: ((Zpos (XO (XO (XO
    (XO (XI (XO (XI (XO (XO (XI (XI (XO (XO (XI (XI (XO (XO (XO (XI (XO (XO
    (XO (XO (XO (XI (XI (XI (XI (XI
    XH)))))))))))))))))))))))))))))) :: ((Zpos (XO (XO (XI (XI (XO (XI (XO
    (XO (XI (XO (XI (XI (XO (XO (XO (XO (XI (XI (XO (XO (XO (XO (XO (XO (XI
    (XI (XI (XI (XI XH)))))))))))))))))))))))))))))) :: ((Zpos (XO (XO (XI
    (XO (XO (XO (XI (XI (XO (XI (XO (XO (XI (XI (XO (XI (XI (XO (XO (XO (XO
    (XO (XO (XO (XI (XI (XI (XI (XI
    XH)))))))))))))))))))))))))))))) :: ((Zpos (XO (XO (XI (XI (XI (XO (XO
    (XO (XI (XI (XI (XO (XI (XO (XI (XO (XO (XO (XO (XO (XO (XO (XO (XO (XI
    (XI (XI (XI (XI XH)))))))))))))))))))))))))))))) :: ((Zpos (XO (XO (XI
    (XI (XO (XI (XI (XO (XO (XO (XI (XO (XI (XI (XI (XI (XI (XO (XI (XI (XI
    (XI (XI (XI (XO (XI (XI (XI (XI
    XH)))))))))))))))))))))))))))))) :: ((Zpos (XO (XO (XI (XI (XO (XI (XO
    (XO (XO (XO (XO (XI (XI (XI (XO (XO (XI (XI (XO (XI (XI (XI (XI (XI (XO
    (XI (XI (XI (XI XH)))))))))))))))))))))))))))))) :: ((Zpos (XO (XO (XO
    (XO (XO (XO (XO (XI (XI (XO (XO (XI (XI (XI (XI (XO (XO (XO (XO (XI (XI
    (XI (XI (XI (XO (XI (XI (XI (XI
    XH)))))))))))))))))))))))))))))) :: ((Zpos (XI (XO (XI (XI (XO (XI (XI
    (XO (XO (XO (XO (XI (XI (XI (XO (XI (XI (XO (XI (XO (XI (XI (XI (XI (XO
    (XI (XI (XI (XI XH)))))))))))))))))))))))))))))) :: ((Zpos (XO (XI (XO
    (XI (XI (XI (XI (XI (XO (XO (XI (XO (XI (XI (XI (XI (XO (XI (XO (XO (XI
    (XI (XI (XI (XO (XI (XI (XI (XI
    XH)))))))))))))))))))))))))))))) :: ((Zpos (XI (XI (XI (XI (XO (XI (XO
    (XO (XI (XI (XI (XI (XO (XI (XO (XO (XO (XO (XO (XO (XI (XI (XI (XI (XO
    (XI (XI (XI (XI XH)))))))))))))))))))))))))))))) :: ((Zpos (XO (XI (XO
    (XO (XI (XO (XO (XO (XI (XI (XI (XO (XO (XI (XI (XO (XI (XO (XI (XI (XO
    (XI (XI (XI (XO (XI (XI (XI (XI
    XH)))))))))))))))))))))))))))))) :: ((Zpos (XI (XI (XO (XI (XO (XI (XO
    (XI (XO (XO (XI (XI (XI (XO (XO (XI (XO (XI (XO (XI (XO (XI (XI (XI (XO
    (XI (XI (XI (XI XH)))))))))))))))))))))))))))))) :: ((Zpos (XI (XI (XI
    (XI (XI (XI (XI (XI (XI (XI (XI (XI (XO (XO (XI (XI (XI (XI (XI (XO (XO
    (XI (XI (XI (XO (XI (XI (XI (XI
    XH)))))))))))))))))))))))))))))) :: ((Zpos (XO (XI (XI (XO (XI (XO (XO
    (XO (XI (XO (XO (XO (XO (XO (XO (XO (XI (XO (XI (XO (XO (XI (XI (XI (XO
    (XI (XI (XI (XI XH)))))))))))))))))))))))))))))) :: ((Zpos (XI (XI (XI
    (XO (XI (XI (XI (XI (XI (XI (XI (XI (XO (XI (XO (XO (XO (XI (XO (XO (XO
    (XI (XI (XI (XO (XI (XI (XI (XI
    XH)))))))))))))))))))))))))))))) :: ((Zpos (XI (XO (XO (XI (XO (XI (XO
    (XI (XO (XO (XI (XI (XI (XO (XI (XO (XI (XI (XI (XI (XI (XO (XI (XI (XO
    (XI (XI (XI (XI XH)))))))))))))))))))))))))))))) :: ((Zpos (XO (XI (XO
    (XO (XI (XI (XO (XO (XI (XI (XI (XO (XO (XO (XO (XI (XO (XO (XI (XI (XI
    (XO (XI (XI (XO (XI (XI (XI (XI
    XH)))))))))))))))))))))))))))))) :: ((Zpos (XI (XI (XO (XI (XI (XO (XO
    (XI (XI (XI (XI (XI (XO (XI (XO (XI (XI (XO (XO (XI (XI (XO (XI (XI (XO
    (XI (XI (XI (XI XH)))))))))))))))))))))))))))))) :: ((Zpos (XI (XO (XO
    (XI (XO (XI (XI (XI (XI (XO (XI (XO (XI (XO (XI (XI (XO (XI (XI (XO (XI
    (XO (XI (XI (XO (XI (XI (XI (XI
    XH)))))))))))))))))))))))))))))) :: ((Zpos (XO (XO (XI (XO (XO (XI (XO
    (XO (XO (XI (XO (XI (XI (XI (XI (XI (XI (XI (XO (XO (XI (XO (XI (XI (XO
    (XI (XI (XI (XI XH)))))))))))))))))))))))))))))) :: ((Zpos (XI (XI (XO
    (XO (XI (XO (XI (XO (XO (XO (XI (XI (XI (XO (XO (XO (XI (XO (XO (XO (XI
    (XO (XI (XI (XO (XI (XI (XI (XI
    XH)))))))))))))))))))))))))))))) :: ((Zpos (XI (XO (XI (XI (XI (XI (XI
    (XO (XO (XO (XI (XI (XI (XI (XO (XO (XO (XI (XI (XI (XO (XO (XI (XI (XO
    (XI (XI (XI (XI XH)))))))))))))))))))))))))))))) :: ((Zpos (XO (XI (XO
    (XI (XO (XI (XO (XI (XO (XI (XO (XI (XI (XO (XI (XO (XI (XI (XO (XI (XO
    (XO (XI (XI (XO (XI (XI (XI (XI
    XH)))))))))))))))))))))))))))))) :: ((Zpos (XI (XI (XI (XI (XI (XO (XI
    (XI (XO (XI (XI (XO (XI (XI (XI (XO (XO (XO (XO (XI (XO (XO (XI (XI (XO
    (XI (XI (XI (XI XH)))))))))))))))))))))))))))))) :: ((Zpos (XI (XO (XI
    (XO (XO (XI (XO (XO (XI (XO (XO (XO (XI (XO (XO (XI (XI (XO (XI (XO (XO
    (XO (XI (XI (XO (XI (XI (XI (XI
    XH)))))))))))))))))))))))))))))) :: ((Zpos (XO (XI (XO (XO (XO (XO (XO
    (XI (XI (XO (XO (XI (XO (XI (XO (XI (XO (XI (XO (XO (XO (XO (XI (XI (XO
    (XI (XI (XI (XI XH)))))))))))))))))))))))))))))) :: ((Zpos (XI (XI (XI
    (XI (XI (XI (XI (XI (XI (XI (XI (XI (XI (XI (XO (XI (XI (XI (XI (XI (XI
    (XI (XO (XI (XO (XI (XI (XI (XI
    XH)))))))))))))))))))))))))))))) :: ((Zpos (XI (XO (XO (XO (XO (XI (XO
    (XI (XO (XO (XI (XO (XI (XO (XI (XI (XO (XO (XI (XI (XI (XI (XO (XI (XO
    (XI (XI (XI (XI XH)))))))))))))))))))))))))))))) :: ((Zpos (XO (XO (XO
    (XO (XI (XI (XI (XO (XI (XI (XI (XO (XO (XI (XI (XI (XI (XO (XO (XI (XI
    (XI (XO (XI (XO (XI (XI (XI (XI
    XH)))))))))))))))))))))))))))))) :: ((Zpos (XO (XO (XI (XO (XI (XI (XI
    (XO (XO (XO (XO (XI (XI (XI (XI (XI (XO (XI (XI (XO (XI (XI (XO (XI (XO
    (XI (XI (XI (XI XH)))))))))))))))))))))))))))))) :: ((Zpos (XI (XI (XO
    (XO (XI (XI (XO (XI (XI (XI (XI (XO (XO (XO (XO (XO (XO (XO (XI (XO (XI
    (XI (XO (XI (XO (XI (XI (XI (XI
    XH)))))))))))))))))))))))))))))) :: ((Zpos (XO (XI (XI (XO (XI (XI (XO
    (XO (XI (XO (XI (XO (XI (XO (XO (XO (XI (XO (XO (XO (XI (XI (XO (XI (XO
    (XI (XI (XI (XI XH)))))))))))))))))))))))))))))) :: ((Zpos (XO (XI (XO
    (XO (XO (XO (XO (XO (XI (XO (XO (XO (XO (XI (XO (XO (XO (XI (XI (XI (XO
    (XI (XO (XI (XO (XI (XI (XI (XI
    XH)))))))))))))))))))))))))))))) :: ((Zpos (XO (XO (XO (XO (XO (XI (XO
    (XO (XI (XI (XO (XI (XO (XI (XO (XO (XI (XI (XO (XI (XO (XI (XO (XI (XO
    (XI (XI (XI (XI XH)))))))))))))))))))))))))))))) :: ((Zpos (XI (XI (XI
    (XO (XI (XO (XO (XI (XI (XI (XO (XO (XI (XI (XO (XO (XO (XO (XO (XI (XO
    (XI (XO (XI (XO (XI (XI (XI (XI
    XH)))))))))))))))))))))))))))))) :: ((Zpos (XO (XI (XI (XI (XO (XI (XI
    (XO (XO (XI (XO (XI (XI (XI (XO (XO (XI (XO (XI (XO (XO (XI (XO (XI (XO
    (XI (XI (XI (XI XH)))))))))))))))))))))))))))))) :: ((Zpos (XI (XO (XI
    (XI (XO (XI (XO (XI (XI (XI (XI (XI (XI (XI (XO (XO (XO (XI (XO (XO (XO
    (XI (XO (XI (XO (XI (XI (XI (XI
    XH)))))))))))))))))))))))))))))) :: ((Zpos (XO (XI (XO (XI (XI (XO (XI
    (XO (XI (XI (XO (XO (XO (XO (XI (XO (XI (XI (XI (XI (XI (XO (XO (XI (XO
    (XI (XI (XI (XI XH)))))))))))))))))))))))))))))) :: ((Zpos (XO (XI (XI
    (XI (XI (XI (XI (XO (XI (XO (XI (XO (XO (XO (XI (XO (XO (XO (XI (XI (XI
    (XO (XO (XI (XO (XI (XI (XI (XI
    XH)))))))))))))))))))))))))))))) :: ((Zpos (XO (XO (XO (XO (XO (XI (XO
    (XO (XO (XI (XI (XO (XO (XO (XI (XO (XI (XO (XO (XI (XI (XO (XO (XI (XO
    (XI (XI (XI (XI XH)))))))))))))))))))))))))))))) :: ((Zpos (XO (XI (XI
    (XO (XO (XO (XI (XO (XI (XO (XI (XO (XO (XO (XI (XO (XO (XI (XI (XO (XI
    (XO (XO (XI (XO (XI (XI (XI (XI
    XH)))))))))))))))))))))))))))))) :: ((Zpos (XI (XO (XO (XI (XI (XI (XI
    (XI (XO (XI (XO (XO (XO (XO (XI (XO (XI (XI (XO (XO (XI (XO (XO (XI (XO
    (XI (XI (XI (XI XH)))))))))))))))))))))))))))))) :: ((Zpos (XO (XO (XO
    (XO (XO (XO (XI (XO (XI (XI (XI (XI (XI (XI (XO (XO (XO (XO (XO (XO (XI
    (XO (XO (XI (XO (XI (XI (XI (XI
    XH)))))))))))))))))))))))))))))) :: ((Zpos (XO (XI (XO (XO (XO (XI (XO
    (XO (XO (XI (XO (XI (XI (XI (XO (XO (XI (XO (XI (XI (XO (XO (XO (XI (XO
    (XI (XI (XI (XI XH)))))))))))))))))))))))))))))) :: ((Zpos (XI (XI (XI
    (XO (XO (XI (XO (XI (XI (XI (XO (XO (XI (XI (XO (XO (XO (XI (XO (XI (XO
    (XO (XO (XI (XO (XI (XI (XI (XI
    XH)))))))))))))))))))))))))))))) :: ((Zpos (XI (XI (XI (XO (XI (XO (XI
    (XI (XI (XI (XO (XI (XO (XI (XO (XO (XI (XI (XI (XO (XO (XO (XO (XI (XO
    (XI (XI (XI (XI XH)))))))))))))))))))))))))))))) :: ((Zpos (XO (XO (XO
    (XI (XI (XI (XO (XI (XO (XI (XO (XO (XO (XI (XO (XO (XO (XO (XI (XO (XO
    (XO (XO (XI (XO (XI (XI (XI (XI
    XH)))))))))))))))))))))))))))))) :: ((Zpos (XI (XI (XO (XO (XI (XO (XI
    (XO (XO (XO (XO (XI (XI (XO (XO (XO (XI (XO (XO (XO (XO (XO (XO (XI (XO
    (XI (XI (XI (XI XH)))))))))))))))))))))))))))))) :: ((Zpos (XI (XO (XI
    (XI (XI (XO (XI (XO (XI (XO (XO (XI (XI (XO (XO (XO (XO (XO (XI (XI (XI
    (XI (XI (XO (XO (XI (XI (XI (XI
    XH)))))))))))))))))))))))))))))) :: ((Zpos (XO (XO (XI (XO (XO (XI (XO
    (XI (XI (XI (XI (XI (XI (XI (XI (XI (XI (XO (XI (XO (XI (XI (XI (XO (XO
    (XI (XI (XI (XI XH)))))))))))))))))))))))))))))) :: ((Zpos (XO (XO (XI
    (XI (XO (XO (XO (XI (XI (XI (XO (XO (XO (XI (XI (XI (XI (XI (XI (XI (XO
    (XI (XI (XO (XO (XI (XI (XI (XI
    XH)))))))))))))))))))))))))))))) :: ((Zpos (XI (XI (XO (XO (XO (XI (XO
    (XO (XI (XO (XI (XO (XO (XO (XI (XI (XI (XO (XO (XI (XO (XI (XI (XO (XO
    (XI (XI (XI (XI XH)))))))))))))))))))))))))))))) :: ((Zpos (XI (XI (XI
    (XO (XI (XI (XI (XO (XO (XO (XI (XO (XO (XI (XO (XI (XI (XI (XO (XO (XO
    (XI (XI (XO (XO (XI (XI (XI (XI
    XH)))))))))))))))))))))))))))))) :: ((Zpos (XI (XO (XO (XI (XI (XO (XO
    (XI (XI (XO (XO (XO (XO (XO (XO (XI (XI (XO (XI (XI (XI (XO (XI (XO (XO
    (XI (XI (XI (XI XH)))))))))))))))))))))))))))))) :: ((Zpos (XI (XI (XI
    (XO (XI (XO (XO (XI (XO (XO (XI (XI (XI (XO (XI (XO (XI (XI (XI (XO (XI
    (XO (XI (XO (XO (XI (XI (XI (XI
    XH)))))))))))))))))))))))))))))) :: ((Zpos (XI (XO (XO (XO (XO (XO (XO
    (XI (XI (XO (XI (XO (XI (XI (XO (XO (XI (XO (XO (XO (XI (XO (XI (XO (XO
    (XI (XI (XI (XI XH)))))))))))))))))))))))))))))) :: ((Zpos (XO (XI (XI
    (XO (XO (XI (XI (XO (XO (XO (XI (XI (XO (XO (XO (XO (XI (XI (XO (XI (XO
    (XO (XI (XO (XO (XI (XI (XI (XI
    XH)))))))))))))))))))))))))))))) :: ((Zpos (XO (XO (XI (XO (XI (XO (XI
    (XO (XI (XO (XO (XO (XO (XI (XI (XI (XO (XO (XI (XO (XO (XO (XI (XO (XO
    (XI (XI (XI (XI XH)))))))))))))))))))))))))))))) :: ((Zpos (XO (XO (XI
    (XI (XI (XO (XI (XO (XO (XO (XI (XO (XI (XI (XO (XI (XO (XI (XI (XI (XI
    (XI (XO (XO (XO (XI (XI (XI (XI
    XH)))))))))))))))))))))))))))))) :: ((Zpos (XO (XO (XI (XI (XO (XO (XO
    (XI (XI (XO (XI (XO (XO (XO (XO (XI (XO (XO (XO (XI (XI (XI (XO (XO (XO
    (XI (XI (XI (XI XH)))))))))))))))))))))))))))))) :: ((Zpos (XI (XO (XI
    (XO (XI (XI (XI (XI (XO (XO (XI (XO (XI (XO (XI (XO (XO (XI (XO (XO (XI
    (XI (XO (XO (XO (XI (XI (XI (XI
    XH)))))))))))))))))))))))))))))) :: ((Zpos (XO (XO (XI (XO (XO (XI (XO
    (XI (XO (XI (XO (XO (XO (XI (XO (XO (XO (XO (XI (XI (XO (XI (XO (XO (XO
    (XI (XI (XI (XI XH)))))))))))))))))))))))))))))) :: ((Zpos (XO (XI (XO
    (XI (XO (XI (XO (XI (XO (XI (XI (XI (XO (XI (XI (XI (XI (XO (XI (XO (XO
    (XI (XO (XO (XO (XI (XI (XI (XI
    XH)))))))))))))))))))))))))))))) :: ((Zpos (XI (XO (XI (XO (XI (XO (XO
    (XO (XI (XO (XO (XI (XI (XI (XO (XI (XI (XI (XI (XI (XI (XO (XO (XO (XO
    (XI (XI (XI (XI XH)))))))))))))))))))))))))))))) :: ((Zpos (XO (XI (XI
    (XO (XI (XI (XI (XI (XI (XO (XO (XO (XO (XO (XO (XI (XI (XO (XO (XI (XI
    (XO (XO (XO (XO (XI (XI (XI (XI
    XH)))))))))))))))))))))))))))))) :: ((Zpos (XI (XI (XO (XI (XI (XO (XI
    (XO (XI (XO (XO (XI (XO (XO (XI (XO (XI (XI (XO (XO (XI (XO (XO (XO (XO
    (XI (XI (XI (XI XH)))))))))))))))))))))))))))))) :: ((Zpos (XO (XO (XI
    (XO (XI (XO (XI (XO (XI (XI (XI (XI (XO (XO (XO (XO (XI (XO (XI (XI (XO
    (XO (XO (XO (XO (XI (XI (XI (XI
    XH)))))))))))))))))))))))))))))) :: ((Zpos (XI (XO (XO (XO (XI (XI (XI
    (XI (XI (XI (XO (XO (XI (XO (XI (XI (XO (XI (XI (XO (XO (XO (XO (XO (XO
    (XI (XI (XI (XI XH)))))))))))))))))))))))))))))) :: ((Zpos (XO (XO (XO
    (XO (XO (XO (XI (XO (XI (XI (XI (XO (XI (XO (XO (XI (XO (XO (XO (XO (XO
    (XO (XO (XO (XO (XI (XI (XI (XI
    XH)))))))))))))))))))))))))))))) :: ((Zpos (XO (XI (XO (XO (XO (XI (XO
    (XI (XO (XI (XO (XO (XI (XI (XO (XI (XO (XO (XI (XO (XI (XI (XI (XI (XI
    (XO (XI (XI (XI XH)))))))))))))))))))))))))))))) :: ((Zpos (XI (XI (XI
    (XO (XO (XI (XI (XO (XO (XO (XI (XO (XI (XI (XO (XO (XO (XO (XO (XI (XO
    (XI (XI (XI (XI (XO (XI (XI (XI
    XH)))))))))))))))))))))))))))))) :: ((Zpos (XO (XI (XI (XI (XO (XI (XI
    (XI (XI (XI (XO (XO (XI (XI (XO (XI (XI (XI (XO (XI (XI (XO (XI (XI (XI
    (XO (XI (XI (XI XH)))))))))))))))))))))))))))))) :: ((Zpos (XO (XI (XI
    (XO (XI (XO (XI (XO (XI (XO (XO (XO (XI (XI (XO (XO (XI (XI (XI (XI (XO
    (XO (XI (XI (XI (XO (XI (XI (XI
    XH)))))))))))))))))))))))))))))) :: ((Zpos (XO (XI (XI (XI (XI (XI (XO
    (XI (XO (XO (XI (XI (XO (XI (XO (XI (XO (XI (XO (XO (XO (XO (XI (XI (XI
    (XO (XI (XI (XI XH)))))))))))))))))))))))))))))) :: ((Zpos (XI (XO (XI
    (XO (XO (XO (XI (XO (XO (XI (XI (XO (XO (XI (XO (XO (XO (XI (XI (XO (XI
    (XI (XO (XI (XI (XO (XI (XI (XI
    XH)))))))))))))))))))))))))))))) :: ((Zpos (XI (XO (XO (XI (XO (XO (XO
    (XO (XO (XI (XI (XI (XI (XO (XO (XI (XI (XO (XO (XI (XO (XI (XO (XI (XI
    (XO (XI (XI (XI XH)))))))))))))))))))))))))))))) :: ((Zpos (XO (XI (XO
    (XI (XO (XI (XO (XO (XO (XO (XI (XO (XI (XO (XO (XO (XI (XO (XI (XI (XI
    (XO (XO (XI (XI (XO (XI (XI (XI
    XH)))))))))))))))))))))))))))))) :: ((Zpos (XO (XI (XI (XO (XO (XO (XI
    (XI (XO (XO (XO (XI (XO (XO (XO (XI (XO (XO (XO (XO (XI (XO (XO (XI (XI
    (XO (XI (XI (XI XH)))))))))))))))))))))))))))))) :: ((Zpos (XO (XI (XI
    (XI (XI (XI (XI (XI (XI (XI (XO (XI (XI (XI (XI (XI (XI (XI (XO (XO (XO
    (XO (XO (XI (XI (XO (XI (XI (XI
    XH)))))))))))))))))))))))))))))) :: ((Zpos (XI (XO (XI (XI (XI (XO (XI
    (XI (XI (XI (XO (XI (XI (XO (XI (XI (XO (XI (XI (XI (XO (XI (XI (XO (XI
    (XO (XI (XI (XI XH)))))))))))))))))))))))))))))) :: ((Zpos (XI (XO (XO
    (XO (XI (XI (XI (XO (XI (XO (XI (XI (XI (XI (XO (XI (XI (XO (XI (XO (XI
    (XO (XI (XO (XI (XO (XI (XI (XI
    XH)))))))))))))))))))))))))))))) :: ((Zpos (XO (XO (XI (XO (XI (XI (XI
    (XI (XO (XO (XI (XI (XI (XO (XO (XI (XO (XO (XI (XI (XI (XI (XO (XO (XI
    (XO (XI (XI (XI XH)))))))))))))))))))))))))))))) :: ((Zpos (XI (XO (XI
    (XO (XO (XI (XO (XI (XO (XI (XO (XI (XI (XI (XI (XO (XI (XI (XO (XO (XO
    (XI (XO (XO (XI (XO (XI (XI (XI
    XH)))))))))))))))))))))))))))))) :: ((Zpos (XI (XO (XO (XO (XO (XO (XI
    (XI (XO (XI (XI (XO (XI (XO (XI (XO (XO (XI (XO (XI (XO (XO (XO (XO (XI
    (XO (XI (XI (XI XH)))))))))))))))))))))))))))))) :: ((Zpos (XI (XI (XI
    (XI (XO (XO (XO (XO (XI (XI (XO (XO (XO (XI (XI (XO (XO (XI (XO (XO (XO
    (XI (XI (XI (XO (XO (XI (XI (XI
    XH)))))))))))))))))))))))))))))) :: ((Zpos (XI (XO (XI (XI (XO (XI (XI
    (XO (XO (XI (XI (XO (XI (XO (XO (XO (XO (XO (XO (XO (XI (XI (XO (XI (XO
    (XO (XI (XI (XI XH)))))))))))))))))))))))))))))) :: ((Zpos (XO (XI (XI
    (XI (XO (XI (XO (XO (XO (XO (XO (XO (XI (XO (XO (XI (XI (XI (XO (XI (XI
    (XI (XI (XO (XO (XO (XI (XI (XI
    XH)))))))))))))))))))))))))))))) :: ((Zpos (XO (XO (XI (XO (XI (XO (XO
    (XO (XI (XO (XO (XO (XI (XI (XI (XI (XO (XI (XI (XO (XI (XO (XO (XO (XO
    (XO (XI (XI (XI XH)))))))))))))))))))))))))))))) :: ((Zpos (XO (XI (XI
    (XO (XI (XO (XO (XO (XO (XI (XO (XO (XO (XO (XI (XO (XI (XO (XO (XI (XO
    (XO (XI (XO (XI (XI (XO (XI (XI
    XH)))))))))))))))))))))))))))))) :: ((Zpos (XO (XI (XI (XO (XI (XO (XO
    (XO (XO (XI (XO (XO (XO (XO (XI (XO (XI (XO (XO (XI (XO (XO (XI (XO (XI
    (XI (XO (XI (XI (XI (XO XH)))))))))))))))))))))))))))))))) :: ((Zpos (XO
    (XO (XI (XO (XI (XO (XO (XO (XI (XO (XO (XO (XI (XI (XI (XI (XO (XI (XI
    (XO (XI (XO (XO (XO (XO (XO (XI (XI (XI (XI (XO
    XH)))))))))))))))))))))))))))))))) :: ((Zpos (XO (XI (XI (XI (XO (XI (XO
    (XO (XO (XO (XO (XO (XI (XO (XO (XI (XI (XI (XO (XI (XI (XI (XI (XO (XO
    (XO (XI (XI (XI (XI (XO XH)))))))))))))))))))))))))))))))) :: ((Zpos (XI
    (XO (XI (XI (XO (XI (XI (XO (XO (XI (XI (XO (XI (XO (XO (XO (XO (XO (XO
    (XO (XI (XI (XO (XI (XO (XO (XI (XI (XI (XI (XO
    XH)))))))))))))))))))))))))))))))) :: ((Zpos (XI (XI (XI (XI (XO (XO (XO
    (XO (XI (XI (XO (XO (XO (XI (XI (XO (XO (XI (XO (XO (XO (XI (XI (XI (XO
    (XO (XI (XI (XI (XI (XO XH)))))))))))))))))))))))))))))))) :: ((Zpos (XI
    (XO (XO (XO (XO (XO (XI (XI (XO (XI (XI (XO (XI (XO (XI (XO (XO (XI (XO
    (XI (XO (XO (XO (XO (XI (XO (XI (XI (XI (XI (XO
    XH)))))))))))))))))))))))))))))))) :: ((Zpos (XI (XO (XI (XO (XO (XI (XO
    (XI (XO (XI (XO (XI (XI (XI (XI (XO (XI (XI (XO (XO (XO (XI (XO (XO (XI
    (XO (XI (XI (XI (XI (XO XH)))))))))))))))))))))))))))))))) :: ((Zpos (XO
    (XO (XI (XO (XI (XI (XI (XI (XO (XO (XI (XI (XI (XO (XO (XI (XO (XO (XI
    (XI (XI (XI (XO (XO (XI (XO (XI (XI (XI (XI (XO
    XH)))))))))))))))))))))))))))))))) :: ((Zpos (XI (XO (XO (XO (XI (XI (XI
    (XO (XI (XO (XI (XI (XI (XI (XO (XI (XI (XO (XI (XO (XI (XO (XI (XO (XI
    (XO (XI (XI (XI (XI (XO XH)))))))))))))))))))))))))))))))) :: ((Zpos (XI
    (XO (XI (XI (XI (XO (XI (XI (XI (XI (XO (XI (XI (XO (XI (XI (XO (XI (XI
    (XI (XO (XI (XI (XO (XI (XO (XI (XI (XI (XI (XO
    XH)))))))))))))))))))))))))))))))) :: ((Zpos (XO (XI (XI (XI (XI (XI (XI
    (XI (XI (XI (XO (XI (XI (XI (XI (XI (XI (XI (XO (XO (XO (XO (XO (XI (XI
    (XO (XI (XI (XI (XI (XO XH)))))))))))))))))))))))))))))))) :: ((Zpos (XO
    (XI (XI (XO (XO (XO (XI (XI (XO (XO (XO (XI (XO (XO (XO (XI (XO (XO (XO
    (XO (XI (XO (XO (XI (XI (XO (XI (XI (XI (XI (XO
    XH)))))))))))))))))))))))))))))))) :: ((Zpos (XO (XI (XO (XI (XO (XI (XO
    (XO (XO (XO (XI (XO (XI (XO (XO (XO (XI (XO (XI (XI (XI (XO (XO (XI (XI
    (XO (XI (XI (XI (XI (XO XH)))))))))))))))))))))))))))))))) :: ((Zpos (XI
    (XO (XO (XI (XO (XO (XO (XO (XO (XI (XI (XI (XI (XO (XO (XI (XI (XO (XO
    (XI (XO (XI (XO (XI (XI (XO (XI (XI (XI (XI (XO
    XH)))))))))))))))))))))))))))))))) :: ((Zpos (XI (XO (XI (XO (XO (XO (XI
    (XO (XO (XI (XI (XO (XO (XI (XO (XO (XO (XI (XI (XO (XI (XI (XO (XI (XI
    (XO (XI (XI (XI (XI (XO XH)))))))))))))))))))))))))))))))) :: ((Zpos (XO
    (XI (XI (XI (XI (XI (XO (XI (XO (XO (XI (XI (XO (XI (XO (XI (XO (XI (XO
    (XO (XO (XO (XI (XI (XI (XO (XI (XI (XI (XI (XO
    XH)))))))))))))))))))))))))))))))) :: ((Zpos (XO (XI (XI (XO (XI (XO (XI
    (XO (XI (XO (XO (XO (XI (XI (XO (XO (XI (XI (XI (XI (XO (XO (XI (XI (XI
    (XO (XI (XI (XI (XI (XO XH)))))))))))))))))))))))))))))))) :: ((Zpos (XO
    (XI (XI (XI (XO (XI (XI (XI (XI (XI (XO (XO (XI (XI (XO (XI (XI (XI (XO
    (XI (XI (XO (XI (XI (XI (XO (XI (XI (XI (XI (XO
    XH)))))))))))))))))))))))))))))))) :: ((Zpos (XI (XI (XI (XO (XO (XI (XI
    (XO (XO (XO (XI (XO (XI (XI (XO (XO (XO (XO (XO (XI (XO (XI (XI (XI (XI
    (XO (XI (XI (XI (XI (XO XH)))))))))))))))))))))))))))))))) :: ((Zpos (XO
    (XI (XO (XO (XO (XI (XO (XI (XO (XI (XO (XO (XI (XI (XO (XI (XO (XO (XI
    (XO (XI (XI (XI (XI (XI (XO (XI (XI (XI (XI (XO
    XH)))))))))))))))))))))))))))))))) :: ((Zpos (XO (XO (XO (XO (XO (XO (XI
    (XO (XI (XI (XI (XO (XI (XO (XO (XI (XO (XO (XO (XO (XO (XO (XO (XO (XO
    (XI (XI (XI (XI (XI (XO XH)))))))))))))))))))))))))))))))) :: ((Zpos (XI
    (XO (XO (XO (XI (XI (XI (XI (XI (XI (XO (XO (XI (XO (XI (XI (XO (XI (XI
    (XO (XO (XO (XO (XO (XO (XI (XI (XI (XI (XI (XO
    XH)))))))))))))))))))))))))))))))) :: ((Zpos (XO (XO (XI (XO (XI (XO (XI
    (XO (XI (XI (XI (XI (XO (XO (XO (XO (XI (XO (XI (XI (XO (XO (XO (XO (XO
    (XI (XI (XI (XI (XI (XO XH)))))))))))))))))))))))))))))))) :: ((Zpos (XI
    (XI (XO (XI (XI (XO (XI (XO (XI (XO (XO (XI (XO (XO (XI (XO (XI (XI (XO
    (XO (XI (XO (XO (XO (XO (XI (XI (XI (XI (XI (XO
    XH)))))))))))))))))))))))))))))))) :: ((Zpos (XO (XI (XI (XO (XI (XI (XI
    (XI (XI (XO (XO (XO (XO (XO (XO (XI (XI (XO (XO (XI (XI (XO (XO (XO (XO
    (XI (XI (XI (XI (XI (XO XH)))))))))))))))))))))))))))))))) :: ((Zpos (XI
    (XO (XI (XO (XI (XO (XO (XO (XI (XO (XO (XI (XI (XI (XO (XI (XI (XI (XI
    (XI (XI (XO (XO (XO (XO (XI (XI (XI (XI (XI (XO
    XH)))))))))))))))))))))))))))))))) :: ((Zpos (XO (XI (XO (XI (XO (XI (XO
    (XI (XO (XI (XI (XI (XO (XI (XI (XI (XI (XO (XI (XO (XO (XI (XO (XO (XO
    (XI (XI (XI (XI (XI (XO XH)))))))))))))))))))))))))))))))) :: ((Zpos (XO
    (XO (XI (XO (XO (XI (XO (XI (XO (XI (XO (XO (XO (XI (XO (XO (XO (XO (XI
    (XI (XO (XI (XO (XO (XO (XI (XI (XI (XI (XI (XO
    XH)))))))))))))))))))))))))))))))) :: ((Zpos (XI (XO (XI (XO (XI (XI (XI
    (XI (XO (XO (XI (XO (XI (XO (XI (XO (XO (XI (XO (XO (XI (XI (XO (XO (XO
    (XI (XI (XI (XI (XI (XO XH)))))))))))))))))))))))))))))))) :: ((Zpos (XO
    (XO (XI (XI (XO (XO (XO (XI (XI (XO (XI (XO (XO (XO (XO (XI (XO (XO (XO
    (XI (XI (XI (XO (XO (XO (XI (XI (XI (XI (XI (XO
    XH)))))))))))))))))))))))))))))))) :: ((Zpos (XO (XO (XI (XI (XI (XO (XI
    (XO (XO (XO (XI (XO (XI (XI (XO (XI (XO (XI (XI (XI (XI (XI (XO (XO (XO
    (XI (XI (XI (XI (XI (XO XH)))))))))))))))))))))))))))))))) :: ((Zpos (XO
    (XO (XI (XO (XI (XO (XI (XO (XI (XO (XO (XO (XO (XI (XI (XI (XO (XO (XI
    (XO (XO (XO (XI (XO (XO (XI (XI (XI (XI (XI (XO
    XH)))))))))))))))))))))))))))))))) :: ((Zpos (XO (XI (XI (XO (XO (XI (XI
    (XO (XO (XO (XI (XI (XO (XO (XO (XO (XI (XI (XO (XI (XO (XO (XI (XO (XO
    (XI (XI (XI (XI (XI (XO XH)))))))))))))))))))))))))))))))) :: ((Zpos (XI
    (XO (XO (XO (XO (XO (XO (XI (XI (XO (XI (XO (XI (XI (XO (XO (XI (XO (XO
    (XO (XI (XO (XI (XO (XO (XI (XI (XI (XI (XI (XO
    XH)))))))))))))))))))))))))))))))) :: ((Zpos (XI (XI (XI (XO (XI (XO (XO
    (XI (XO (XO (XI (XI (XI (XO (XI (XO (XI (XI (XI (XO (XI (XO (XI (XO (XO
    (XI (XI (XI (XI (XI (XO XH)))))))))))))))))))))))))))))))) :: ((Zpos (XI
    (XO (XO (XI (XI (XO (XO (XI (XI (XO (XO (XO (XO (XO (XO (XI (XI (XO (XI
    (XI (XI (XO (XI (XO (XO (XI (XI (XI (XI (XI (XO
    XH)))))))))))))))))))))))))))))))) :: ((Zpos (XI (XI (XI (XO (XI (XI (XI
    (XO (XO (XO (XI (XO (XO (XI (XO (XI (XI (XI (XO (XO (XO (XI (XI (XO (XO
    (XI (XI (XI (XI (XI (XO XH)))))))))))))))))))))))))))))))) :: ((Zpos (XI
    (XI (XO (XO (XO (XI (XO (XO (XI (XO (XI (XO (XO (XO (XI (XI (XI (XO (XO
    (XI (XO (XI (XI (XO (XO (XI (XI (XI (XI (XI (XO
    XH)))))))))))))))))))))))))))))))) :: ((Zpos (XO (XO (XI (XI (XO (XO (XO
    (XI (XI (XI (XO (XO (XO (XI (XI (XI (XI (XI (XI (XI (XO (XI (XI (XO (XO
    (XI (XI (XI (XI (XI (XO XH)))))))))))))))))))))))))))))))) :: ((Zpos (XO
    (XO (XI (XO (XO (XI (XO (XI (XI (XI (XI (XI (XI (XI (XI (XI (XI (XO (XI
    (XO (XI (XI (XI (XO (XO (XI (XI (XI (XI (XI (XO
    XH)))))))))))))))))))))))))))))))) :: ((Zpos (XI (XO (XI (XI (XI (XO (XI
    (XO (XI (XO (XO (XI (XI (XO (XO (XO (XO (XO (XI (XI (XI (XI (XI (XO (XO
    (XI (XI (XI (XI (XI (XO XH)))))))))))))))))))))))))))))))) :: ((Zpos (XI
    (XI (XO (XO (XI (XO (XI (XO (XO (XO (XO (XI (XI (XO (XO (XO (XI (XO (XO
    (XO (XO (XO (XO (XI (XO (XI (XI (XI (XI (XI (XO
    XH)))))))))))))))))))))))))))))))) :: ((Zpos (XO (XO (XO (XI (XI (XI (XO
    (XI (XO (XI (XO (XO (XO (XI (XO (XO (XO (XO (XI (XO (XO (XO (XO (XI (XO
    (XI (XI (XI (XI (XI (XO XH)))))))))))))))))))))))))))))))) :: ((Zpos (XI
    (XI (XI (XO (XI (XO (XI (XI (XI (XI (XO (XI (XO (XI (XO (XO (XI (XI (XI
    (XO (XO (XO (XO (XI (XO (XI (XI (XI (XI (XI (XO
    XH)))))))))))))))))))))))))))))))) :: ((Zpos (XI (XI (XI (XO (XO (XI (XO
    (XI (XI (XI (XO (XO (XI (XI (XO (XO (XO (XI (XO (XI (XO (XO (XO (XI (XO
    (XI (XI (XI (XI (XI (XO XH)))))))))))))))))))))))))))))))) :: ((Zpos (XO
    (XI (XO (XO (XO (XI (XO (XO (XO (XI (XO (XI (XI (XI (XO (XO (XI (XO (XI
    (XI (XO (XO (XO (XI (XO (XI (XI (XI (XI (XI (XO
    XH)))))))))))))))))))))))))))))))) :: ((Zpos (XO (XO (XO (XO (XO (XO (XI
    (XO (XI (XI (XI (XI (XI (XI (XO (XO (XO (XO (XO (XO (XI (XO (XO (XI (XO
    (XI (XI (XI (XI (XI (XO XH)))))))))))))))))))))))))))))))) :: ((Zpos (XI
    (XO (XO (XI (XI (XI (XI (XI (XO (XI (XO (XO (XO (XO (XI (XO (XI (XI (XO
    (XO (XI (XO (XO (XI (XO (XI (XI (XI (XI (XI (XO
    XH)))))))))))))))))))))))))))))))) :: ((Zpos (XO (XI (XI (XO (XO (XO (XI
    (XO (XI (XO (XI (XO (XO (XO (XI (XO (XO (XI (XI (XO (XI (XO (XO (XI (XO
    (XI (XI (XI (XI (XI (XO XH)))))))))))))))))))))))))))))))) :: ((Zpos (XO
    (XO (XO (XO (XO (XI (XO (XO (XO (XI (XI (XO (XO (XO (XI (XO (XI (XO (XO
    (XI (XI (XO (XO (XI (XO (XI (XI (XI (XI (XI (XO
    XH)))))))))))))))))))))))))))))))) :: ((Zpos (XO (XI (XI (XI (XI (XI (XI
    (XO (XI (XO (XI (XO (XO (XO (XI (XO (XO (XO (XI (XI (XI (XO (XO (XI (XO
    (XI (XI (XI (XI (XI (XO XH)))))))))))))))))))))))))))))))) :: ((Zpos (XO
    (XI (XO (XI (XI (XO (XI (XO (XI (XI (XO (XO (XO (XO (XI (XO (XI (XI (XI
    (XI (XI (XO (XO (XI (XO (XI (XI (XI (XI (XI (XO
    XH)))))))))))))))))))))))))))))))) :: ((Zpos (XI (XO (XI (XI (XO (XI (XO
    (XI (XI (XI (XI (XI (XI (XI (XO (XO (XO (XI (XO (XO (XO (XI (XO (XI (XO
    (XI (XI (XI (XI (XI (XO XH)))))))))))))))))))))))))))))))) :: ((Zpos (XO
    (XI (XI (XI (XO (XI (XI (XO (XO (XI (XO (XI (XI (XI (XO (XO (XI (XO (XI
    (XO (XO (XI (XO (XI (XO (XI (XI (XI (XI (XI (XO
    XH)))))))))))))))))))))))))))))))) :: ((Zpos (XI (XI (XI (XO (XI (XO (XO
    (XI (XI (XI (XO (XO (XI (XI (XO (XO (XO (XO (XO (XI (XO (XI (XO (XI (XO
    (XI (XI (XI (XI (XI (XO XH)))))))))))))))))))))))))))))))) :: ((Zpos (XO
    (XO (XO (XO (XO (XI (XO (XO (XI (XI (XO (XI (XO (XI (XO (XO (XI (XI (XO
    (XI (XO (XI (XO (XI (XO (XI (XI (XI (XI (XI (XO
    XH)))))))))))))))))))))))))))))))) :: ((Zpos (XO (XI (XO (XO (XO (XO (XO
    (XO (XI (XO (XO (XO (XO (XI (XO (XO (XO (XI (XI (XI (XO (XI (XO (XI (XO
    (XI (XI (XI (XI (XI (XO XH)))))))))))))))))))))))))))))))) :: ((Zpos (XO
    (XI (XI (XO (XI (XI (XO (XO (XI (XO (XI (XO (XI (XO (XO (XO (XI (XO (XO
    (XO (XI (XI (XO (XI (XO (XI (XI (XI (XI (XI (XO
    XH)))))))))))))))))))))))))))))))) :: ((Zpos (XI (XI (XO (XO (XI (XI (XO
    (XI (XI (XI (XI (XO (XO (XO (XO (XO (XO (XO (XI (XO (XI (XI (XO (XI (XO
    (XI (XI (XI (XI (XI (XO XH)))))))))))))))))))))))))))))))) :: ((Zpos (XO
    (XO (XI (XO (XI (XI (XI (XO (XO (XO (XO (XI (XI (XI (XI (XI (XO (XI (XI
    (XO (XI (XI (XO (XI (XO (XI (XI (XI (XI (XI (XO
    XH)))))))))))))))))))))))))))))))) :: ((Zpos (XO (XO (XO (XO (XI (XI (XI
    (XO (XI (XI (XI (XO (XO (XI (XI (XI (XI (XO (XO (XI (XI (XI (XO (XI (XO
    (XI (XI (XI (XI (XI (XO XH)))))))))))))))))))))))))))))))) :: ((Zpos (XI
    (XO (XO (XO (XO (XI (XO (XI (XO (XO (XI (XO (XI (XO (XI (XI (XO (XO (XI
    (XI (XI (XI (XO (XI (XO (XI (XI (XI (XI (XI (XO
    XH)))))))))))))))))))))))))))))))) :: ((Zpos (XI (XI (XI (XI (XI (XI (XI
    (XI (XI (XI (XI (XI (XI (XI (XO (XI (XI (XI (XI (XI (XI (XI (XO (XI (XO
    (XI (XI (XI (XI (XI (XO XH)))))))))))))))))))))))))))))))) :: ((Zpos (XO
    (XI (XO (XO (XO (XO (XO (XI (XI (XO (XO (XI (XO (XI (XO (XI (XO (XI (XO
    (XO (XO (XO (XI (XI (XO (XI (XI (XI (XI (XI (XO
    XH)))))))))))))))))))))))))))))))) :: ((Zpos (XI (XO (XI (XO (XO (XI (XO
    (XO (XI (XO (XO (XO (XI (XO (XO (XI (XI (XO (XI (XO (XO (XO (XI (XI (XO
    (XI (XI (XI (XI (XI (XO XH)))))))))))))))))))))))))))))))) :: ((Zpos (XI
    (XI (XI (XI (XI (XO (XI (XI (XO (XI (XI (XO (XI (XI (XI (XO (XO (XO (XO
    (XI (XO (XO (XI (XI (XO (XI (XI (XI (XI (XI (XO
    XH)))))))))))))))))))))))))))))))) :: ((Zpos (XO (XI (XO (XI (XO (XI (XO
    (XI (XO (XI (XO (XI (XI (XO (XI (XO (XI (XI (XO (XI (XO (XO (XI (XI (XO
    (XI (XI (XI (XI (XI (XO XH)))))))))))))))))))))))))))))))) :: ((Zpos (XI
    (XO (XI (XI (XI (XI (XI (XO (XO (XO (XI (XI (XI (XI (XO (XO (XO (XI (XI
    (XI (XO (XO (XI (XI (XO (XI (XI (XI (XI (XI (XO
    XH)))))))))))))))))))))))))))))))) :: ((Zpos (XI (XI (XO (XO (XI (XO (XI
    (XO (XO (XO (XI (XI (XI (XO (XO (XO (XI (XO (XO (XO (XI (XO (XI (XI (XO
    (XI (XI (XI (XI (XI (XO XH)))))))))))))))))))))))))))))))) :: ((Zpos (XO
    (XO (XI (XO (XO (XI (XO (XO (XO (XI (XO (XI (XI (XI (XI (XI (XI (XI (XO
    (XO (XI (XO (XI (XI (XO (XI (XI (XI (XI (XI (XO
    XH)))))))))))))))))))))))))))))))) :: ((Zpos (XI (XO (XO (XI (XO (XI (XI
    (XI (XI (XO (XI (XO (XI (XO (XI (XI (XO (XI (XI (XO (XI (XO (XI (XI (XO
    (XI (XI (XI (XI (XI (XO XH)))))))))))))))))))))))))))))))) :: ((Zpos (XI
    (XI (XO (XI (XI (XO (XO (XI (XI (XI (XI (XI (XO (XI (XO (XI (XI (XO (XO
    (XI (XI (XO (XI (XI (XO (XI (XI (XI (XI (XI (XO
    XH)))))))))))))))))))))))))))))))) :: ((Zpos (XO (XI (XO (XO (XI (XI (XO
    (XO (XI (XI (XI (XO (XO (XO (XO (XI (XO (XO (XI (XI (XI (XO (XI (XI (XO
    (XI (XI (XI (XI (XI (XO XH)))))))))))))))))))))))))))))))) :: ((Zpos (XI
    (XO (XO (XI (XO (XI (XO (XI (XO (XO (XI (XI (XI (XO (XI (XO (XI (XI (XI
    (XI (XI (XO (XI (XI (XO (XI (XI (XI (XI (XI (XO
    XH)))))))))))))))))))))))))))))))) :: ((Zpos (XI (XI (XI (XO (XI (XI (XI
    (XI (XI (XI (XI (XI (XO (XI (XO (XO (XO (XI (XO (XO (XO (XI (XI (XI (XO
    (XI (XI (XI (XI (XI (XO XH)))))))))))))))))))))))))))))))) :: ((Zpos (XO
    (XI (XI (XO (XI (XO (XO (XO (XI (XO (XO (XO (XO (XO (XO (XO (XI (XO (XI
    (XO (XO (XI (XI (XI (XO (XI (XI (XI (XI (XI (XO
    XH)))))))))))))))))))))))))))))))) :: ((Zpos (XI (XI (XI (XI (XI (XI (XI
    (XI (XI (XI (XI (XI (XO (XO (XI (XI (XI (XI (XI (XO (XO (XI (XI (XI (XO
    (XI (XI (XI (XI (XI (XO XH)))))))))))))))))))))))))))))))) :: ((Zpos (XI
    (XI (XO (XI (XO (XI (XO (XI (XO (XO (XI (XI (XI (XO (XO (XI (XO (XI (XO
    (XI (XO (XI (XI (XI (XO (XI (XI (XI (XI (XI (XO
    XH)))))))))))))))))))))))))))))))) :: ((Zpos (XO (XI (XO (XO (XI (XO (XO
    (XO (XI (XI (XI (XO (XO (XI (XI (XO (XI (XO (XI (XI (XO (XI (XI (XI (XO
    (XI (XI (XI (XI (XI (XO XH)))))))))))))))))))))))))))))))) :: ((Zpos (XI
    (XI (XI (XI (XO (XI (XO (XO (XI (XI (XI (XI (XO (XI (XO (XO (XO (XO (XO
    (XO (XI (XI (XI (XI (XO (XI (XI (XI (XI (XI (XO
    XH)))))))))))))))))))))))))))))))) :: ((Zpos (XO (XI (XO (XI (XI (XI (XI
    (XI (XO (XO (XI (XO (XI (XI (XI (XI (XO (XI (XO (XO (XI (XI (XI (XI (XO
    (XI (XI (XI (XI (XI (XO XH)))))))))))))))))))))))))))))))) :: ((Zpos (XI
    (XO (XI (XI (XO (XI (XI (XO (XO (XO (XO (XI (XI (XI (XO (XI (XI (XO (XI
    (XO (XI (XI (XI (XI (XO (XI (XI (XI (XI (XI (XO
    XH)))))))))))))))))))))))))))))))) :: ((Zpos (XO (XO (XO (XO (XO (XO (XO
    (XI (XI (XO (XO (XI (XI (XI (XI (XO (XO (XO (XO (XI (XI (XI (XI (XI (XO
    (XI (XI (XI (XI (XI (XO XH)))))))))))))))))))))))))))))))) :: ((Zpos (XO
    (XO (XI (XI (XO (XI (XO (XO (XO (XO (XO (XI (XI (XI (XO (XO (XI (XI (XO
    (XI (XI (XI (XI (XI (XO (XI (XI (XI (XI (XI (XO
    XH)))))))))))))))))))))))))))))))) :: ((Zpos (XO (XO (XI (XI (XO (XI (XI
    (XO (XO (XO (XI (XO (XI (XI (XI (XI (XI (XO (XI (XI (XI (XI (XI (XI (XO
    (XI (XI (XI (XI (XI (XO XH)))))))))))))))))))))))))))))))) :: ((Zpos (XO
    (XO (XI (XI (XI (XO (XO (XO (XI (XI (XI (XO (XI (XO (XI (XO (XO (XO (XO
    (XO (XO (XO (XO (XO (XI (XI (XI (XI (XI (XI (XO
    XH)))))))))))))))))))))))))))))))) :: ((Zpos (XO (XO (XI (XO (XO (XO (XI
    (XI (XO (XI (XO (XO (XI (XI (XO (XI (XI (XO (XO (XO (XO (XO (XO (XO (XI
    (XI (XI (XI (XI (XI (XO XH)))))))))))))))))))))))))))))))) :: ((Zpos (XO
    (XO (XI (XI (XO (XI (XO (XO (XI (XO (XI (XI (XO (XO (XO (XO (XI (XI (XO
    (XO (XO (XO (XO (XO (XI (XI (XI (XI (XI (XI (XO
    XH)))))))))))))))))))))))))))))))) :: ((Zpos (XO (XO (XO (XO (XI (XO (XI
    (XO (XO (XI (XI (XO (XO (XI (XI (XO (XO (XO (XI (XO (XO (XO (XO (XO (XI
    (XI (XI (XI (XI (XI (XO XH)))))))))))))))))))))))))))))))) :: ((Zpos (XI
    (XO (XI (XI (XO (XI (XO (XO (XO (XI (XI (XI (XI (XI (XO (XI (XI (XO (XI
    (XO (XO (XO (XO (XO (XI (XI (XI (XI (XI (XI (XO
    XH)))))))))))))))))))))))))))))))) :: ((Zpos (XI (XI (XI (XI (XI (XI (XO
    (XI (XO (XO (XI (XO (XI (XO (XO (XO (XI (XI (XI (XO (XO (XO (XO (XO (XI
    (XI (XI (XI (XI (XI (XO XH)))))))))))))))))))))))))))))))) :: ((Zpos (XI
    (XI (XO (XO (XO (XO (XO (XO (XO (XI (XO (XI (XO (XI (XI (XO (XO (XO (XO
    (XI (XO (XO (XO (XO (XI (XI (XI (XI (XI (XI (XO
    XH)))))))))))))))))))))))))))))))) :: ((Zpos (XO (XI (XI (XO (XI (XI (XI
    (XI (XI (XO (XI (XI (XI (XI (XO (XI (XI (XO (XO (XI (XO (XO (XO (XO (XI
    (XI (XI (XI (XI (XI (XO XH)))))))))))))))))))))))))))))))) :: ((Zpos (XO
    (XO (XI (XO (XI (XO (XO (XI (XO (XO (XO (XO (XI (XO (XO (XO (XI (XI (XO
    (XI (XO (XO (XO (XO (XI (XI (XI (XI (XI (XI (XO
    XH)))))))))))))))))))))))))))))))) :: ((Zpos (XI (XI (XO (XI (XI (XO (XI
    (XI (XI (XO (XO (XO (XO (XI (XI (XO (XO (XO (XI (XI (XO (XO (XO (XO (XI
    (XI (XI (XI (XI (XI (XO XH)))))))))))))))))))))))))))))))) :: ((Zpos (XO
    (XI (XI (XO (XO (XO (XI (XI (XI (XO (XO (XO (XI (XI (XO (XI (XI (XO (XI
    (XI (XO (XO (XO (XO (XI (XI (XI (XI (XI (XI (XO
    XH)))))))))))))))))))))))))))))))) :: ((Zpos (XI (XI (XO (XO (XI (XO (XI
    (XO (XO (XO (XO (XO (XO (XO (XO (XO (XI (XI (XI (XI (XO (XO (XO (XO (XI
    (XI (XI (XI (XI (XI (XO XH)))))))))))))))))))))))))))))))) :: ((Zpos (XI
    (XI (XI (XI (XI (XI (XI (XO (XI (XO (XI (XI (XO (XO (XI (XO (XO (XO (XO
    (XO (XI (XO (XO (XO (XI (XI (XI (XI (XI (XI (XO
    XH)))))))))))))))))))))))))))))))) :: ((Zpos (XO (XI (XI (XO (XO (XO (XI
    (XO (XI (XO (XO (XI (XI (XO (XO (XI (XI (XO (XO (XO (XI (XO (XO (XO (XI
    (XI (XI (XI (XI (XI (XO XH)))))))))))))))))))))))))))))))) :: ((Zpos (XO
    (XO (XI (XO (XO (XI (XO (XI (XI (XI (XO (XO (XO (XI (XI (XI (XO (XI (XO
    (XO (XI (XO (XO (XO (XI (XI (XI (XI (XI (XI (XO
    XH)))))))))))))))))))))))))))))))) :: ((Zpos (XO (XO (XO (XI (XI (XO (XO
    (XI (XO (XO (XI (XI (XO (XI (XO (XO (XO (XO (XI (XO (XI (XO (XO (XO (XI
    (XI (XI (XI (XI (XI (XO XH)))))))))))))))))))))))))))))))) :: ((Zpos (XO
    (XI (XI (XI (XI (XO (XO (XO (XO (XO (XI (XO (XI (XI (XI (XO (XI (XO (XI
    (XO (XI (XO (XO (XO (XI (XI (XI (XI (XI (XI (XO
    XH)))))))))))))))))))))))))))))))) :: ((Zpos (XO (XI (XO (XO (XI (XI (XO
    (XO (XO (XI (XO (XI (XI (XI (XO (XI (XO (XI (XI (XO (XI (XO (XO (XO (XI
    (XI (XI (XI (XI (XI (XO XH)))))))))))))))))))))))))))))))) :: ((Zpos (XI
    (XO (XO (XO (XI (XO (XI (XI (XO (XI (XI (XI (XI (XI (XI (XI (XI (XI (XI
    (XO (XI (XO (XO (XO (XI (XI (XI (XI (XI (XI (XO
    XH)))))))))))))))))))))))))))))))) :: ((Zpos (XO (XO (XO (XI (XI (XI (XI
    (XI (XI (XO (XO (XO (XO (XO (XI (XO (XI (XO (XO (XI (XI (XO (XO (XO (XI
    (XI (XI (XI (XI (XI (XO XH)))))))))))))))))))))))))))))))) :: ((Zpos (XI
    (XO (XI (XO (XO (XI (XO (XI (XI (XI (XO (XO (XO (XO (XO (XI (XO (XI (XO
    (XI (XI (XO (XO (XO (XI (XI (XI (XI (XI (XI (XO
    XH)))))))))))))))))))))))))))))))) :: ((Zpos (XO (XO (XI (XO (XI (XO (XI
    (XI (XI (XI (XO (XO (XO (XO (XI (XI (XI (XI (XO (XI (XI (XO (XO (XO (XI
    (XI (XI (XI (XI (XI (XO XH)))))))))))))))))))))))))))))))) :: ((Zpos (XI
    (XO (XO (XO (XO (XO (XO (XI (XO (XI (XO (XO (XO (XO (XO (XO (XI (XO (XI
    (XI (XI (XO (XO (XO (XI (XI (XI (XI (XI (XI (XO
    XH)))))))))))))))))))))))))))))))) :: ((Zpos (XI (XI (XO (XI (XO (XI (XO
    (XI (XI (XI (XI (XI (XI (XI (XO (XO (XO (XI (XI (XI (XI (XO (XO (XO (XI
    (XI (XI (XI (XI (XI (XO XH)))))))))))))))))))))))))))))))) :: ((Zpos (XI
    (XO (XI (XI (XO (XO (XI (XO (XI (XI (XO (XI (XI (XI (XI (XO (XI (XI (XI
    (XI (XI (XO (XO (XO (XI (XI (XI (XI (XI (XI (XO
    XH)))))))))))))))))))))))))))))))) :: ((Zpos (XI (XO (XI (XO (XO (XI (XI
    (XO (XI (XO (XI (XO (XI (XI (XO (XI (XO (XO (XO (XO (XO (XI (XO (XO (XI
    (XI (XI (XI (XI (XI (XO XH)))))))))))))))))))))))))))))))) :: ((Zpos (XO
    (XO (XO (XO (XI (XI (XI (XI (XI (XO (XI (XI (XO (XI (XI (XI (XI (XO (XO
    (XO (XO (XI (XO (XO (XI (XI (XI (XI (XI (XI (XO
    XH)))))))))))))))))))))))))))))))) :: ((Zpos (XO (XI (XO (XI (XO (XI (XI
    (XI (XO (XO (XI (XO (XO (XI (XO (XO (XI (XI (XO (XO (XO (XI (XO (XO (XI
    (XI (XI (XI (XI (XI (XO XH)))))))))))))))))))))))))))))))) :: ((Zpos (XI
    (XO (XO (XO (XI (XO (XI (XO (XO (XI (XO (XI (XI (XO (XI (XO (XO (XO (XI
    (XO (XO (XI (XO (XO (XI (XI (XI (XI (XI (XI (XO
    XH)))))))))))))))))))))))))))))))) :: ((Zpos (XI (XO (XO (XO (XO (XI (XO
    (XO (XO (XI (XI (XI (XO (XO (XO (XI (XI (XO (XI (XO (XO (XI (XO (XO (XI
    (XI (XI (XI (XI (XI (XO XH)))))))))))))))))))))))))))))))) :: ((Zpos (XI
    (XO (XO (XI (XI (XO (XI (XO (XO (XO (XO (XO (XO (XO (XI (XI (XO (XI (XI
    (XO (XO (XI (XO (XO (XI (XI (XI (XI (XI (XI (XO
    XH)))))))))))))))))))))))))))))))) :: ((Zpos (XO (XO (XI (XO (XI (XI (XI
    (XI (XO (XO (XO (XO (XI (XI (XI (XI (XI (XI (XI (XO (XO (XI (XO (XO (XI
    (XI (XI (XI (XI (XI (XO XH)))))))))))))))))))))))))))))))) :: ((Zpos (XO
    (XO (XO (XO (XI (XI (XI (XI (XI (XI (XI (XI (XI (XO (XO (XO (XI (XO (XO
    (XI (XO (XI (XO (XO (XI (XI (XI (XI (XI (XI (XO
    XH)))))))))))))))))))))))))))))))) :: ((Zpos (XO (XI (XO (XI (XO (XO (XI
    (XO (XI (XO (XI (XI (XO (XO (XI (XO (XO (XI (XO (XI (XO (XI (XO (XO (XI
    (XI (XI (XI (XI (XI (XO XH)))))))))))))))))))))))))))))))) :: ((Zpos (XO
    (XI (XI (XI (XI (XI (XI (XI (XO (XO (XO (XI (XI (XI (XI (XO (XI (XI (XO
    (XI (XO (XI (XO (XO (XI (XI (XI (XI (XI (XI (XO
    XH)))))))))))))))))))))))))))))))) :: ((Zpos (XI (XI (XO (XI (XO (XO (XO
    (XO (XI (XI (XO (XO (XO (XI (XO (XI (XO (XO (XI (XI (XO (XI (XO (XO (XI
    (XI (XI (XI (XI (XI (XO XH)))))))))))))))))))))))))))))))) :: ((Zpos (XI
    (XO (XI (XI (XO (XI (XI (XO (XI (XI (XO (XI (XO (XO (XI (XI (XI (XO (XI
    (XI (XO (XI (XO (XO (XI (XI (XI (XI (XI (XI (XO
    XH)))))))))))))))))))))))))))))))) :: ((Zpos (XO (XI (XO (XO (XO (XI (XO
    (XO (XO (XI (XO (XO (XI (XI (XI (XI (XO (XI (XI (XI (XO (XI (XO (XO (XI
    (XI (XI (XI (XI (XI (XO XH)))))))))))))))))))))))))))))))) :: ((Zpos (XO
    (XI (XI (XO (XO (XI (XO (XO (XI (XI (XI (XO (XI (XO (XO (XO (XO (XO (XO
    (XO (XI (XI (XO (XO (XI (XI (XI (XI (XI (XI (XO
    XH)))))))))))))))))))))))))))))))) :: ((Zpos (XO (XI (XI (XO (XI (XI (XI
    (XO (XO (XI (XO (XI (XI (XI (XO (XO (XI (XO (XO (XO (XI (XI (XO (XO (XI
    (XI (XI (XI (XI (XI (XO XH)))))))))))))))))))))))))))))))) :: ((Zpos (XI
    (XO (XO (XO (XI (XO (XO (XO (XO (XO (XI (XI (XI (XO (XI (XO (XO (XI (XO
    (XO (XI (XI (XO (XO (XI (XI (XI (XI (XI (XI (XO
    XH)))))))))))))))))))))))))))))))) :: ((Zpos (XO (XI (XO (XO (XI (XI (XI
    (XI (XI (XI (XO (XI (XI (XI (XI (XO (XI (XI (XO (XO (XI (XI (XO (XO (XI
    (XI (XI (XI (XI (XI (XO XH)))))))))))))))))))))))))))))))) :: ((Zpos (XO
    (XO (XO (XI (XI (XO (XO (XO (XO (XI (XO (XI (XI (XO (XO (XI (XO (XO (XI
    (XO (XI (XI (XO (XO (XI (XI (XI (XI (XI (XI (XO
    XH)))))))))))))))))))))))))))))))) :: ((Zpos (XI (XI (XI (XI (XI (XI (XI
    (XO (XO (XI (XI (XO (XI (XI (XO (XI (XI (XO (XI (XO (XI (XI (XO (XO (XI
    (XI (XI (XI (XI (XI (XO XH)))))))))))))))))))))))))))))))) :: ((Zpos (XI
    (XO (XI (XO (XO (XI (XO (XO (XI (XO (XO (XO (XI (XO (XI (XI (XO (XI (XI
    (XO (XI (XI (XO (XO (XI (XI (XI (XI (XI (XI (XO
    XH)))))))))))))))))))))))))))))))) :: ((Zpos (XI (XI (XI (XO (XO (XO (XO
    (XO (XO (XI (XO (XI (XO (XI (XI (XI (XI (XI (XI (XO (XI (XI (XO (XO (XI
    (XI (XI (XI (XI (XI (XO XH)))))))))))))))))))))))))))))))) :: ((Zpos (XI
    (XI (XO (XO (XO (XI (XO (XO (XI (XO (XO (XO (XO (XO (XO (XO (XI (XO (XO
    (XI (XI (XI (XO (XO (XI (XI (XI (XI (XI (XI (XO
    XH)))))))))))))))))))))))))))))))) :: ((Zpos (XI (XO (XI (XO (XI (XI (XI
    (XO (XO (XI (XI (XO (XI (XO (XO (XO (XO (XI (XO (XI (XI (XI (XO (XO (XI
    (XI (XI (XI (XI (XI (XO XH)))))))))))))))))))))))))))))))) :: ((Zpos (XI
    (XI (XO (XI (XI (XI (XI (XI (XI (XO (XO (XI (XO (XI (XO (XO (XI (XI (XO
    (XI (XI (XI (XO (XO (XI (XI (XI (XI (XI (XI (XO
    XH)))))))))))))))))))))))))))))))) :: ((Zpos (XO (XI (XO (XO (XI (XI (XO
    (XI (XI (XI (XO (XI (XI (XI (XO (XO (XO (XO (XI (XI (XI (XI (XO (XO (XI
    (XI (XI (XI (XI (XI (XO XH)))))))))))))))))))))))))))))))) :: ((Zpos (XO
    (XO (XO (XI (XI (XO (XO (XI (XI (XI (XO (XI (XO (XO (XI (XO (XI (XO (XI
    (XI (XI (XI (XO (XO (XI (XI (XI (XI (XI (XI (XO
    XH)))))))))))))))))))))))))))))))) :: ((Zpos (XO (XI (XO (XI (XO (XI (XO
    (XI (XI (XO (XO (XI (XI (XO (XI (XO (XO (XI (XI (XI (XI (XI (XO (XO (XI
    (XI (XI (XI (XI (XI (XO XH)))))))))))))))))))))))))))))))) :: ((Zpos (XI
    (XO (XI (XO (XO (XI (XI (XI (XI (XO (XI (XO (XO (XI (XI (XO (XI (XI (XI
    (XI (XI (XI (XO (XO (XI (XI (XI (XI (XI (XI (XO
    XH)))))))))))))))))))))))))))))))) :: ((Zpos (XI (XI (XI (XO (XO (XO (XI
    (XO (XO (XO (XO (XO (XI (XI (XI (XO (XO (XO (XO (XO (XO (XO (XI (XO (XI
    (XI (XI (XI (XI (XI (XO XH)))))))))))))))))))))))))))))))) :: ((Zpos (XO
    (XI (XI (XI (XO (XO (XI (XI (XO (XO (XO (XI (XI (XI (XI (XO (XI (XO (XO
    (XO (XO (XO (XI (XO (XI (XI (XI (XI (XI (XI (XO
    XH)))))))))))))))))))))))))))))))) :: ((Zpos (XO (XI (XI (XO (XI (XI (XI
    (XO (XI (XI (XI (XI (XI (XI (XI (XO (XO (XI (XO (XO (XO (XO (XI (XO (XI
    (XI (XI (XI (XI (XI (XO XH)))))))))))))))))))))))))))))))) :: ((Zpos (XI
    (XO (XI (XI (XI (XI (XO (XO (XO (XO (XI (XO (XO (XO (XO (XI (XI (XI (XO
    (XO (XO (XO (XI (XO (XI (XI (XI (XI (XI (XI (XO
    XH)))))))))))))))))))))))))))))))) :: ((Zpos (XI (XO (XO (XO (XO (XI (XO
    (XO (XI (XI (XI (XO (XO (XO (XO (XI (XO (XO (XI (XO (XO (XO (XI (XO (XI
    (XI (XI (XI (XI (XI (XO XH)))))))))))))))))))))))))))))))) :: ((Zpos (XI
    (XI (XI (XI (XI (XO (XO (XO (XO (XO (XO (XI (XO (XO (XO (XI (XI (XO (XI
    (XO (XO (XO (XI (XO (XI (XI (XI (XI (XI (XI (XO
    XH)))))))))))))))))))))))))))))))) :: ((Zpos (XI (XO (XI (XO (XI (XI (XO
    (XO (XI (XI (XI (XO (XO (XO (XO (XI (XO (XI (XI (XO (XO (XO (XI (XO (XI
    (XI (XI (XI (XI (XI (XO XH)))))))))))))))))))))))))))))))) :: ((Zpos (XO
    (XO (XO (XO (XO (XI (XI (XO (XO (XO (XI (XO (XO (XO (XO (XI (XI (XI (XI
    (XO (XO (XO (XI (XO (XI (XI (XI (XI (XI (XI (XO
    XH)))))))))))))))))))))))))))))))) :: ((Zpos (XI (XO (XI (XI (XI (XO (XO
    (XI (XI (XI (XI (XI (XI (XI (XI (XO (XO (XO (XO (XI (XO (XO (XI (XO (XI
    (XI (XI (XI (XI (XI (XO XH)))))))))))))))))))))))))))))))) :: ((Zpos (XI
    (XI (XO (XI (XO (XI (XI (XI (XO (XO (XO (XI (XI (XI (XI (XO (XI (XO (XO
    (XI (XO (XO (XI (XO (XI (XI (XI (XI (XI (XI (XO
    XH)))))))))))))))))))))))))))))))) :: ((Zpos (XI (XI (XI (XO (XO (XO (XI
    (XO (XO (XO (XO (XO (XI (XI (XI (XO (XO (XI (XO (XI (XO (XO (XI (XO (XI
    (XI (XI (XI (XI (XI (XO XH)))))))))))))))))))))))))))))))) :: ((Zpos (XI
    (XI (XI (XI (XO (XI (XO (XI (XI (XO (XI (XO (XO (XI (XI (XO (XI (XI (XO
    (XI (XO (XO (XI (XO (XI (XI (XI (XI (XI (XI (XO
    XH)))))))))))))))))))))))))))))))) :: ((Zpos (XI (XI (XI (XI (XI (XO (XO
    (XO (XI (XO (XO (XI (XI (XO (XI (XO (XO (XO (XI (XI (XO (XO (XI (XO (XI
    (XI (XI (XI (XI (XI (XO XH)))))))))))))))))))))))))))))))) :: ((Zpos (XI
    (XI (XI (XO (XI (XO (XO (XI (XO (XI (XO (XI (XO (XO (XI (XO (XI (XO (XI
    (XI (XO (XO (XI (XO (XI (XI (XI (XI (XI (XI (XO
    XH)))))))))))))))))))))))))))))))) :: ((Zpos (XI (XI (XO (XO (XI (XO (XO
    (XO (XO (XI (XO (XI (XI (XI (XO (XO (XO (XI (XI (XI (XO (XO (XI (XO (XI
    (XI (XI (XI (XI (XI (XO XH)))))))))))))))))))))))))))))))) :: ((Zpos (XI
    (XO (XO (XO (XI (XO (XO (XI (XI (XI (XI (XO (XO (XI (XO (XO (XI (XI (XI
    (XI (XO (XO (XI (XO (XI (XI (XI (XI (XI (XI (XO
    XH)))))))))))))))))))))))))))))))) :: ((Zpos (XI (XI (XI (XI (XO (XO (XO
    (XO (XI (XI (XO (XO (XI (XO (XO (XO (XO (XO (XO (XO (XI (XO (XI (XO (XI
    (XI (XI (XI (XI (XI (XO XH)))))))))))))))))))))))))))))))) :: ((Zpos (XO
    (XI (XO (XI (XO (XO (XO (XI (XO (XO (XI (XI (XI (XI (XI (XI (XO (XO (XO
    (XO (XI (XO (XI (XO (XI (XI (XI (XI (XI (XI (XO
    XH)))))))))))))))))))))))))))))))) :: ((Zpos (XI (XO (XO (XO (XO (XO (XO
    (XO (XO (XO (XI (XO (XO (XI (XI (XI (XI (XO (XO (XO (XI (XO (XI (XO (XI
    (XI (XI (XI (XI (XI (XO XH)))))))))))))))))))))))))))))))) :: ((Zpos (XI
    (XO (XO (XO (XI (XI (XI (XO (XI (XO (XO (XI (XO (XO (XI (XI (XO (XI (XO
    (XO (XI (XO (XI (XO (XI (XI (XI (XI (XI (XI (XO
    XH)))))))))))))))))))))))))))))))) :: ((Zpos (XO (XO (XO (XI (XI (XO (XI
    (XI (XO (XO (XI (XI (XO (XI (XO (XI (XI (XI (XO (XO (XI (XO (XI (XO (XI
    (XI (XI (XI (XI (XI (XO XH)))))))))))))))))))))))))))))))) :: ((Zpos (XI
    (XI (XO (XO (XI (XI (XO (XO (XO (XI (XI (XI (XO (XO (XO (XI (XO (XO (XI
    (XO (XI (XO (XI (XO (XI (XI (XI (XI (XI (XI (XO
    XH)))))))))))))))))))))))))))))))) :: ((Zpos (XI (XO (XO (XO (XO (XO (XO
    (XI (XI (XO (XI (XI (XO (XI (XI (XO (XI (XO (XI (XO (XI (XO (XI (XO (XI
    (XI (XI (XI (XI (XI (XO XH)))))))))))))))))))))))))))))))) :: ((Zpos (XI
    (XI (XI (XI (XI (XI (XO (XI (XO (XI (XO (XI (XO (XO (XI (XO (XO (XI (XI
    (XO (XI (XO (XI (XO (XI (XI (XI (XI (XI (XI (XO
    XH)))))))))))))))))))))))))))))))) :: ((Zpos (XO (XO (XI (XI (XO (XI (XI
    (XI (XI (XO (XI (XO (XO (XI (XO (XO (XI (XI (XI (XO (XI (XO (XI (XO (XI
    (XI (XI (XI (XI (XI (XO XH)))))))))))))))))))))))))))))))) :: ((Zpos (XI
    (XO (XI (XO (XO (XO (XO (XO (XI (XI (XI (XI (XI (XI (XI (XI (XI (XI (XI
    (XO (XI (XO (XI (XO (XI (XI (XI (XI (XI (XI (XO
    XH)))))))))))))))))))))))))))))))) :: ((Zpos (XO (XO (XO (XI (XO (XO (XO
    (XO (XO (XI (XI (XO (XI (XO (XI (XI (XO (XO (XO (XI (XI (XO (XI (XO (XI
    (XI (XI (XI (XI (XI (XO XH)))))))))))))))))))))))))))))))) :: ((Zpos (XO
    (XI (XO (XO (XI (XI (XI (XI (XO (XI (XO (XI (XO (XI (XO (XI (XI (XO (XO
    (XI (XI (XO (XI (XO (XI (XI (XI (XI (XI (XI (XO
    XH)))))))))))))))))))))))))))))))) :: ((Zpos (XI (XI (XO (XO (XO (XO (XI
    (XI (XI (XO (XI (XI (XI (XI (XI (XO (XO (XI (XO (XI (XI (XO (XI (XO (XI
    (XI (XI (XI (XI (XI (XO XH)))))))))))))))))))))))))))))))) :: ((Zpos (XI
    (XI (XI (XO (XI (XI (XI (XO (XO (XI (XI (XI (XO (XO (XI (XO (XI (XI (XO
    (XI (XI (XO (XI (XO (XI (XI (XI (XI (XI (XI (XO
    XH)))))))))))))))))))))))))))))))) :: ((Zpos (XI (XO (XI (XI (XO (XO (XO
    (XO (XI (XO (XI (XI (XI (XO (XO (XO (XO (XO (XI (XI (XI (XO (XI (XO (XI
    (XI (XI (XI (XI (XI (XO XH)))))))))))))))))))))))))))))))) :: ((Zpos (XI
    (XI (XO (XO (XO (XO (XO (XI (XI (XO (XO (XI (XO (XI (XI (XI (XO (XO (XI
    (XI (XI (XO (XI (XO (XI (XI (XI (XI (XI (XI (XO
    XH)))))))))))))))))))))))))))))))) :: ((Zpos (XI (XI (XI (XO (XI (XO (XI
    (XI (XI (XI (XO (XO (XI (XI (XO (XI (XI (XO (XI (XI (XI (XO (XI (XO (XI
    (XI (XI (XI (XI (XI (XO XH)))))))))))))))))))))))))))))))) :: ((Zpos (XI
    (XI (XI (XO (XO (XO (XO (XO (XO (XO (XI (XI (XI (XI (XI (XO (XO (XI (XI
    (XI (XI (XO (XI (XO (XI (XI (XI (XI (XI (XI (XO
    XH)))))))))))))))))))))))))))))))) :: ((Zpos (XI (XO (XO (XO (XI (XO (XO
    (XO (XO (XI (XO (XO (XO (XO (XI (XO (XI (XI (XI (XI (XI (XO (XI (XO (XI
    (XI (XI (XI (XI (XI (XO XH)))))))))))))))))))))))))))))))) :: ((Zpos (XI
    (XI (XO (XO (XI (XI (XI (XI (XI (XO (XI (XO (XO (XO (XO (XO (XO (XO (XO
    (XO (XO (XI (XI (XO (XI (XI (XI (XI (XI (XI (XO
    XH)))))))))))))))))))))))))))))))) :: ((Zpos (XI (XI (XO (XI (XO (XI (XO
    (XI (XI (XI (XI (XO (XO (XO (XI (XI (XO (XO (XO (XO (XO (XI (XI (XO (XI
    (XI (XI (XI (XI (XI (XO XH)))))))))))))))))))))))))))))))) :: ((Zpos (XI
    (XI (XI (XO (XI (XI (XO (XO (XI (XI (XI (XO (XO (XO (XO (XI (XI (XO (XO
    (XO (XO (XI (XI (XO (XI (XI (XI (XI (XI (XI (XO
    XH)))))))))))))))))))))))))))))))) :: ((Zpos (XO (XI (XI (XO (XI (XO (XO
    (XI (XO (XO (XI (XO (XO (XO (XI (XO (XO (XI (XO (XO (XO (XI (XI (XO (XI
    (XI (XI (XI (XI (XI (XO XH)))))))))))))))))))))))))))))))) :: ((Zpos (XI
    (XO (XI (XO (XO (XO (XI (XI (XI (XI (XI (XI (XI (XI (XI (XI (XO (XI (XO
    (XO (XO (XI (XI (XO (XI (XI (XI (XI (XI (XI (XO
    XH)))))))))))))))))))))))))))))))) :: ((Zpos (XI (XI (XO (XO (XO (XO (XI
    (XI (XO (XO (XO (XI (XI (XI (XO (XI (XI (XI (XO (XO (XO (XI (XI (XO (XI
    (XI (XI (XI (XI (XI (XO XH)))))))))))))))))))))))))))))))) :: ((Zpos (XO
    (XI (XI (XI (XO (XO (XO (XI (XI (XI (XI (XI (XO (XI (XI (XO (XO (XO (XI
    (XO (XO (XI (XI (XO (XI (XI (XI (XI (XI (XI (XO
    XH)))))))))))))))))))))))))))))))) :: ((Zpos (XI (XO (XI (XO (XO (XI (XO
    (XO (XO (XO (XI (XO (XO (XI (XO (XO (XI (XO (XI (XO (XO (XI (XI (XO (XI
    (XI (XI (XI (XI (XI (XO XH)))))))))))))))))))))))))))))))) :: ((Zpos (XI
    (XO (XI (XO (XO (XO (XO (XI (XO (XI (XI (XO (XI (XO (XI (XI (XI (XO (XI
    (XO (XO (XI (XI (XO (XI (XI (XI (XI (XI (XI (XO
    XH)))))))))))))))))))))))))))))))) :: ((Zpos (XO (XO (XI (XI (XO (XI (XO
    (XI (XO (XI (XI (XO (XO (XO (XO (XI (XO (XI (XI (XO (XO (XI (XI (XO (XI
    (XI (XI (XI (XI (XI (XO XH)))))))))))))))))))))))))))))))) :: ((Zpos (XO
    (XI (XO (XI (XI (XO (XO (XI (XO (XO (XI (XO (XI (XI (XO (XO (XI (XI (XI
    (XO (XO (XI (XI (XO (XI (XI (XI (XI (XI (XI (XO
    XH)))))))))))))))))))))))))))))))) :: ((Zpos (XO (XO (XI (XI (XO (XO (XI
    (XO (XO (XO (XO (XO (XO (XI (XI (XI (XI (XI (XI (XO (XO (XI (XI (XO (XI
    (XI (XI (XI (XI (XI (XO XH)))))))))))))))))))))))))))))))) :: ((Zpos (XI
    (XO (XO (XO (XO (XO (XI (XI (XI (XO (XO (XI (XO (XO (XO (XI (XO (XO (XO
    (XI (XO (XI (XI (XO (XI (XI (XI (XI (XI (XI (XO
    XH)))))))))))))))))))))))))))))))) :: ((Zpos (XO (XO (XO (XI (XI (XI (XI
    (XI (XO (XO (XO (XO (XI (XI (XO (XO (XI (XO (XO (XI (XO (XI (XI (XO (XI
    (XI (XI (XI (XI (XI (XO XH)))))))))))))))))))))))))))))))) :: ((Zpos (XI
    (XO (XI (XI (XO (XI (XI (XI (XI (XO (XI (XO (XI (XO (XI (XI (XI (XO (XO
    (XI (XO (XI (XI (XO (XI (XI (XI (XI (XI (XI (XO
    XH)))))))))))))))))))))))))))))))) :: ((Zpos (XI (XO (XO (XO (XO (XI (XO
    (XI (XO (XO (XO (XI (XI (XI (XI (XO (XO (XI (XO (XI (XO (XI (XI (XO (XI
    (XI (XI (XI (XI (XI (XO XH)))))))))))))))))))))))))))))))) :: ((Zpos (XO
    (XO (XO (XO (XI (XO (XO (XO (XI (XO (XO (XI (XI (XO (XO (XO (XI (XI (XO
    (XI (XO (XI (XI (XO (XI (XI (XI (XI (XI (XI (XO
    XH)))))))))))))))))))))))))))))))) :: ((Zpos (XI (XI (XO (XI (XI (XI (XO
    (XO (XI (XI (XI (XO (XI (XI (XO (XI (XI (XI (XO (XI (XO (XI (XI (XO (XI
    (XI (XI (XI (XI (XI (XO XH)))))))))))))))))))))))))))))))) :: ((Zpos (XI
    (XI (XI (XI (XI (XO (XO (XO (XI (XI (XO (XO (XI (XO (XI (XO (XO (XO (XI
    (XI (XO (XI (XI (XO (XI (XI (XI (XI (XI (XI (XO
    XH)))))))))))))))))))))))))))))))) :: ((Zpos (XI (XI (XO (XI (XI (XI (XO
    (XI (XO (XO (XI (XI (XO (XI (XI (XI (XO (XO (XI (XI (XO (XI (XI (XO (XI
    (XI (XI (XI (XI (XI (XO XH)))))))))))))))))))))))))))))))) :: ((Zpos (XI
    (XO (XI (XI (XO (XO (XO (XO (XO (XO (XI (XO (XO (XO (XO (XI (XI (XO (XI
    (XI (XO (XI (XI (XO (XI (XI (XI (XI (XI (XI (XO
    XH)))))))))))))))))))))))))))))))) :: ((Zpos (XI (XI (XO (XO (XI (XO (XO
    (XO (XI (XO (XO (XI (XI (XO (XO (XO (XO (XI (XI (XI (XO (XI (XI (XO (XI
    (XI (XI (XI (XI (XI (XO XH)))))))))))))))))))))))))))))))) :: ((Zpos (XI
    (XO (XI (XI (XO (XO (XI (XI (XI (XI (XO (XI (XO (XI (XO (XI (XO (XI (XI
    (XI (XO (XI (XI (XO (XI (XI (XI (XI (XI (XI (XO
    XH)))))))))))))))))))))))))))))))) :: ((Zpos (XI (XO (XO (XI (XI (XI (XO
    (XO (XO (XO (XI (XI (XI (XI (XO (XO (XI (XI (XI (XI (XO (XI (XI (XO (XI
    (XI (XI (XI (XI (XI (XO XH)))))))))))))))))))))))))))))))) :: ((Zpos (XO
    (XI (XI (XO (XI (XO (XI (XO (XO (XI (XO (XI (XO (XO (XI (XI (XI (XI (XI
    (XI (XO (XI (XI (XO (XI (XI (XI (XI (XI (XI (XO
    XH)))))))))))))))))))))))))))))))) :: ((Zpos (XO (XI (XO (XO (XO (XI (XO
    (XO (XO (XI (XI (XO (XI (XO (XI (XO (XO (XO (XO (XO (XI (XI (XI (XO (XI
    (XI (XI (XI (XI (XI (XO XH)))))))))))))))))))))))))))))))) :: ((Zpos (XI
    (XI (XO (XI (XI (XO (XO (XI (XI (XI (XI (XI (XI (XO (XI (XI (XO (XO (XO
    (XO (XI (XI (XI (XO (XI (XI (XI (XI (XI (XI (XO
    XH)))))))))))))))))))))))))))))))) :: ((Zpos (XO (XI (XO (XO (XO (XO (XI
    (XI (XO (XI (XI (XO (XO (XI (XI (XO (XI (XO (XO (XO (XI (XI (XI (XO (XI
    (XI (XI (XI (XI (XI (XO XH)))))))))))))))))))))))))))))))) :: ((Zpos (XI
    (XI (XO (XO (XI (XO (XO (XI (XI (XI (XO (XI (XO (XI (XI (XI (XI (XO (XO
    (XO (XI (XI (XI (XO (XI (XI (XI (XI (XI (XI (XO
    XH)))))))))))))))))))))))))))))))) :: ((Zpos (XO (XI (XI (XI (XO (XO (XO
    (XO (XO (XI (XI (XI (XO (XI (XI (XO (XO (XI (XO (XO (XI (XI (XI (XO (XI
    (XI (XI (XI (XI (XI (XO XH)))))))))))))))))))))))))))))))) :: ((Zpos (XO
    (XI (XO (XO (XI (XI (XO (XO (XO (XI (XI (XI (XO (XI (XI (XI (XO (XI (XO
    (XO (XI (XI (XI (XO (XI (XI (XI (XI (XI (XI (XO
    XH)))))))))))))))))))))))))))))))) :: ((Zpos (XI (XO (XI (XI (XI (XI (XI
    (XI (XI (XI (XO (XI (XO (XI (XI (XO (XI (XI (XO (XO (XI (XI (XI (XO (XI
    (XI (XI (XI (XI (XI (XO XH)))))))))))))))))))))))))))))))) :: ((Zpos (XI
    (XI (XI (XI (XO (XI (XI (XO (XI (XI (XI (XO (XO (XI (XI (XI (XI (XI (XO
    (XO (XI (XI (XI (XO (XI (XI (XI (XI (XI (XI (XO
    XH)))))))))))))))))))))))))))))))) :: ((Zpos (XI (XO (XI (XO (XO (XO (XO
    (XI (XO (XO (XO (XO (XO (XI (XI (XO (XO (XO (XI (XO (XI (XI (XI (XO (XI
    (XI (XI (XI (XI (XI (XO XH)))))))))))))))))))))))))))))))) :: ((Zpos (XO
    (XO (XO (XO (XO (XO (XI (XO (XI (XI (XI (XO (XI (XO (XI (XI (XO (XO (XI
    (XO (XI (XI (XI (XO (XI (XI (XI (XI (XI (XI (XO
    XH)))))))))))))))))))))))))))))))) :: ((Zpos (XI (XO (XI (XI (XI (XO (XO
    (XI (XI (XI (XO (XI (XO (XO (XI (XO (XI (XO (XI (XO (XI (XI (XI (XO (XI
    (XI (XI (XI (XI (XI (XO XH)))))))))))))))))))))))))))))))) :: ((Zpos (XO
    (XO (XI (XI (XI (XO (XO (XI (XI (XO (XI (XI (XI (XI (XO (XI (XI (XO (XI
    (XO (XI (XI (XI (XO (XI (XI (XI (XI (XI (XI (XO
    XH)))))))))))))))))))))))))))))))) :: ((Zpos (XI (XI (XO (XI (XI (XI (XO
    (XO (XI (XO (XI (XI (XO (XI (XO (XO (XO (XI (XI (XO (XI (XI (XI (XO (XI
    (XI (XI (XI (XI (XI (XO XH)))))))))))))))))))))))))))))))) :: ((Zpos (XI
    (XO (XO (XI (XI (XI (XI (XO (XO (XI (XO (XI (XI (XO (XO (XI (XO (XI (XI
    (XO (XI (XI (XI (XO (XI (XI (XI (XI (XI (XI (XO
    XH)))))))))))))))))))))))))))))))) :: ((Zpos (XO (XI (XI (XO (XI (XO (XI
    (XO (XI (XO (XI (XO (XO (XO (XO (XO (XI (XI (XI (XO (XI (XI (XI (XO (XI
    (XI (XI (XI (XI (XI (XO XH)))))))))))))))))))))))))))))))) :: ((Zpos (XO
    (XO (XO (XO (XI (XO (XI (XI (XI (XO (XI (XI (XO (XI (XI (XO (XI (XI (XI
    (XO (XI (XI (XI (XO (XI (XI (XI (XI (XI (XI (XO
    XH)))))))))))))))))))))))))))))))) :: ((Zpos (XI (XI (XI (XO (XO (XI (XI
    (XI (XI (XI (XO (XO (XI (XO (XI (XI (XI (XI (XI (XO (XI (XI (XI (XO (XI
    (XI (XI (XI (XI (XI (XO XH)))))))))))))))))))))))))))))))) :: ((Zpos (XI
    (XO (XO (XI (XI (XO (XO (XI (XI (XI (XI (XO (XI (XI (XO (XO (XO (XO (XO
    (XI (XI (XI (XI (XO (XI (XI (XI (XI (XI (XI (XO
    XH)))))))))))))))))))))))))))))))) :: ((Zpos (XI (XO (XI (XO (XO (XI (XI
    (XI (XO (XO (XO (XI (XI (XO (XO (XI (XO (XO (XO (XI (XI (XI (XI (XO (XI
    (XI (XI (XI (XI (XI (XO XH)))))))))))))))))))))))))))))))) :: ((Zpos (XI
    (XI (XO (XI (XO (XO (XI (XI (XI (XI (XI (XO (XI (XI (XI (XI (XO (XO (XO
    (XI (XI (XI (XI (XO (XI (XI (XI (XI (XI (XI (XO
    XH)))))))))))))))))))))))))))))))) :: ((Zpos (XI (XO (XO (XI (XO (XO (XI
    (XO (XO (XO (XI (XO (XI (XO (XI (XO (XI (XO (XO (XI (XI (XI (XI (XO (XI
    (XI (XI (XI (XI (XI (XO XH)))))))))))))))))))))))))))))))) :: ((Zpos (XO
    (XI (XI (XI (XI (XO (XI (XO (XO (XI (XI (XI (XO (XI (XO (XI (XI (XO (XO
    (XI (XI (XI (XI (XO (XI (XI (XI (XI (XI (XI (XO
    XH)))))))))))))))))))))))))))))))) :: ((Zpos (XI (XI (XO (XI (XO (XO (XO
    (XO (XO (XI (XI (XO (XO (XO (XO (XO (XO (XI (XO (XI (XI (XI (XI (XO (XI
    (XI (XI (XI (XI (XI (XO XH)))))))))))))))))))))))))))))))) :: ((Zpos (XI
    (XO (XI (XI (XO (XO (XI (XO (XI (XI (XO (XI (XI (XO (XI (XO (XO (XI (XO
    (XI (XI (XI (XI (XO (XI (XI (XI (XI (XI (XI (XO
    XH)))))))))))))))))))))))))))))))) :: ((Zpos (XO (XO (XI (XO (XO (XI (XO
    (XO (XO (XI (XI (XI (XO (XI (XO (XI (XO (XI (XO (XI (XI (XI (XI (XO (XI
    (XI (XI (XI (XI (XI (XO XH)))))))))))))))))))))))))))))))) :: ((Zpos (XO
    (XO (XO (XO (XI (XO (XO (XI (XO (XI (XI (XI (XI (XI (XI (XI (XO (XI (XO
    (XI (XI (XI (XI (XO (XI (XI (XI (XI (XI (XI (XO
    XH)))))))))))))))))))))))))))))))) :: ((Zpos (XI (XI (XI (XI (XO (XO (XO
    (XI (XO (XO (XI (XI (XO (XO (XI (XO (XI (XI (XO (XI (XI (XI (XI (XO (XI
    (XI (XI (XI (XI (XI (XO XH)))))))))))))))))))))))))))))))) :: ((Zpos (XI
    (XO (XO (XO (XO (XI (XO (XO (XO (XO (XO (XI (XI (XO (XO (XI (XI (XI (XO
    (XI (XI (XI (XI (XO (XI (XI (XI (XI (XI (XI (XO
    XH)))))))))))))))))))))))))))))))) :: ((Zpos (XI (XO (XI (XO (XO (XO (XI
    (XO (XI (XO (XO (XO (XO (XI (XI (XI (XI (XI (XO (XI (XI (XI (XI (XO (XI
    (XI (XI (XI (XI (XI (XO XH)))))))))))))))))))))))))))))))) :: ((Zpos (XO
    (XI (XO (XI (XI (XI (XI (XI (XI (XI (XI (XO (XO (XI (XO (XO (XO (XO (XI
    (XI (XI (XI (XI (XO (XI (XI (XI (XI (XI (XI (XO
    XH)))))))))))))))))))))))))))))))) :: ((Zpos (XO (XO (XO (XO (XO (XO (XI
    (XO (XO (XO (XI (XI (XO (XI (XI (XO (XO (XO (XI (XI (XI (XI (XI (XO (XI
    (XI (XI (XI (XI (XI (XO XH)))))))))))))))))))))))))))))))) :: ((Zpos (XI
    (XO (XI (XO (XI (XO (XO (XO (XO (XI (XI (XI (XO (XI (XO (XI (XO (XO (XI
    (XI (XI (XI (XI (XO (XI (XI (XI (XI (XI (XI (XO
    XH)))))))))))))))))))))))))))))))) :: ((Zpos (XI (XI (XO (XI (XI (XI (XI
    (XO (XI (XO (XI (XI (XO (XI (XI (XI (XO (XO (XI (XI (XI (XI (XI (XO (XI
    (XI (XI (XI (XI (XI (XO XH)))))))))))))))))))))))))))))))) :: ((Zpos (XO
    (XI (XI (XI (XO (XI (XI (XO (XO (XI (XO (XI (XO (XI (XO (XO (XI (XO (XI
    (XI (XI (XI (XI (XO (XI (XI (XI (XI (XI (XI (XO
    XH)))))))))))))))))))))))))))))))) :: ((Zpos (XO (XO (XO (XO (XI (XI (XI
    (XI (XO (XO (XI (XO (XO (XI (XI (XO (XI (XO (XI (XI (XI (XI (XI (XO (XI
    (XI (XI (XI (XI (XI (XO XH)))))))))))))))))))))))))))))))) :: ((Zpos (XO
    (XO (XO (XO (XO (XO (XO (XO (XI (XO (XI (XI (XI (XO (XO (XI (XI (XO (XI
    (XI (XI (XI (XI (XO (XI (XI (XI (XI (XI (XI (XO
    XH)))))))))))))))))))))))))))))))) :: ((Zpos (XO (XO (XI (XI (XI (XO (XO
    (XI (XO (XI (XO (XO (XI (XO (XI (XI (XI (XO (XI (XI (XI (XI (XI (XO (XI
    (XI (XI (XI (XI (XI (XO XH)))))))))))))))))))))))))))))))) :: ((Zpos (XI
    (XO (XI (XO (XO (XO (XI (XI (XI (XO (XI (XO (XO (XO (XO (XO (XO (XI (XI
    (XI (XI (XI (XI (XO (XI (XI (XI (XI (XI (XI (XO
    XH)))))))))))))))))))))))))))))))) :: ((Zpos (XO (XI (XO (XI (XI (XI (XI
    (XO (XO (XI (XI (XO (XI (XI (XO (XO (XO (XI (XI (XI (XI (XI (XI (XO (XI
    (XI (XI (XI (XI (XI (XO XH)))))))))))))))))))))))))))))))) :: ((Zpos (XO
    (XI (XO (XI (XI (XI (XO (XI (XO (XO (XI (XO (XO (XI (XI (XO (XO (XI (XI
    (XI (XI (XI (XI (XO (XI (XI (XI (XI (XI (XI (XO
    XH)))))))))))))))))))))))))))))))) :: ((Zpos (XO (XI (XI (XO (XO (XO (XO
    (XI (XO (XO (XO (XO (XI (XO (XO (XI (XO (XI (XI (XI (XI (XI (XI (XO (XI
    (XI (XI (XI (XI (XI (XO XH)))))))))))))))))))))))))))))))) :: ((Zpos (XO
    (XO (XI (XI (XI (XO (XI (XI (XI (XO (XO (XI (XI (XI (XO (XI (XO (XI (XI
    (XI (XI (XI (XI (XO (XI (XI (XI (XI (XI (XI (XO
    XH)))))))))))))))))))))))))))))))) :: ((Zpos (XI (XO (XI (XI (XI (XI (XO
    (XI (XO (XO (XO (XO (XO (XI (XI (XI (XO (XI (XI (XI (XI (XI (XI (XO (XI
    (XI (XI (XI (XI (XI (XO XH)))))))))))))))))))))))))))))))) :: ((Zpos (XI
    (XI (XI (XO (XO (XI (XO (XO (XI (XO (XI (XO (XO (XO (XO (XO (XI (XI (XI
    (XI (XI (XI (XI (XO (XI (XI (XI (XI (XI (XI (XO
    XH)))))))))))))))))))))))))))))))) :: ((Zpos (XI (XI (XO (XI (XI (XO (XO
    (XO (XI (XI (XI (XO (XO (XI (XO (XO (XI (XI (XI (XI (XI (XI (XI (XO (XI
    (XI (XI (XI (XI (XI (XO XH)))))))))))))))))))))))))))))))) :: ((Zpos (XO
    (XO (XO (XI (XI (XO (XO (XI (XO (XI (XI (XO (XO (XO (XI (XO (XI (XI (XI
    (XI (XI (XI (XI (XO (XI (XI (XI (XI (XI (XI (XO
    XH)))))))))))))))))))))))))))))))) :: ((Zpos (XO (XI (XI (XI (XI (XO (XO
    (XI (XI (XI (XO (XO (XO (XI (XI (XO (XI (XI (XI (XI (XI (XI (XI (XO (XI
    (XI (XI (XI (XI (XI (XO XH)))))))))))))))))))))))))))))))) :: ((Zpos (XO
    (XO (XI (XI (XO (XI (XO (XO (XO (XI (XI (XI (XI (XI (XI (XO (XI (XI (XI
    (XI (XI (XI (XI (XO (XI (XI (XI (XI (XI (XI (XO
    XH)))))))))))))))))))))))))))))))) :: ((Zpos (XI (XI (XO (XO (XO (XO (XI
    (XO (XO (XI (XI (XO (XI (XO (XO (XI (XI (XI (XI (XI (XI (XI (XI (XO (XI
    (XI (XI (XI (XI (XI (XO XH)))))))))))))))))))))))))))))))) :: ((Zpos (XI
    (XI (XO (XO (XO (XI (XI (XI (XI (XI (XO (XI (XO (XI (XO (XI (XI (XI (XI
    (XI (XI (XI (XI (XO (XI (XI (XI (XI (XI (XI (XO
    XH)))))))))))))))))))))))))))))))) :: ((Zpos (XO (XI (XO (XI (XO (XO (XO
    (XO (XI (XI (XI (XI (XI (XI (XO (XI (XI (XI (XI (XI (XI (XI (XI (XO (XI
    (XI (XI (XI (XI (XI (XO XH)))))))))))))))))))))))))))))))) :: ((Zpos (XO
    (XO (XO (XI (XI (XI (XO (XI (XI (XI (XI (XI (XO (XO (XI (XI (XI (XI (XI
    (XI (XI (XI (XI (XO (XI (XI (XI (XI (XI (XI (XO
    XH)))))))))))))))))))))))))))))))) :: ((Zpos (XI (XI (XI (XI (XO (XI (XI
    (XI (XI (XO (XI (XI (XI (XO (XI (XI (XI (XI (XI (XI (XI (XI (XI (XO (XI
    (XI (XI (XI (XI (XI (XO XH)))))))))))))))))))))))))))))))) :: ((Zpos (XI
    (XO (XI (XI (XO (XI (XO (XI (XI (XO (XO (XI (XO (XI (XI (XI (XI (XI (XI
    (XI (XI (XI (XI (XO (XI (XI (XI (XI (XI (XI (XO
    XH)))))))))))))))))))))))))))))))) :: ((Zpos (XO (XI (XO (XO (XI (XI (XI
    (XI (XO (XI (XO (XO (XI (XI (XI (XI (XI (XI (XI (XI (XI (XI (XI (XO (XI
    (XI (XI (XI (XI (XI (XO XH)))))))))))))))))))))))))))))))) :: ((Zpos (XO
    (XI (XI (XI (XI (XI (XO (XI (XI (XO (XO (XI (XI (XI (XI (XI (XI (XI (XI
    (XI (XI (XI (XI (XO (XI (XI (XI (XI (XI (XI (XO
    XH)))))))))))))))))))))))))))))))) :: ((Zpos (XO (XI (XO (XO (XI (XO (XO
    (XO (XO (XI (XI (XI (XI (XI (XI (XI (XI (XI (XI (XI (XI (XI (XI (XO (XI
    (XI (XI (XI (XI (XI (XO XH)))))))))))))))))))))))))))))))) :: ((Zpos (XO
    (XO (XI (XI (XO (XI (XI (XI (XI (XI (XI (XI (XI (XI (XI (XI (XI (XI (XI
    (XI (XI (XI (XI (XO (XI (XI (XI (XI (XI (XI (XO
    XH)))))))))))))))))))))))))))))))) :: ((Zpos (XO (XI (XI (XI (XO (XO (XI
    (XO (XI (XI (XI (XI (XI (XI (XI (XI (XI (XI (XI (XI (XI (XI (XI (XO (XI
    (XI (XI (XI (XI (XI (XO XH)))))))))))))))))))))))))))))))) :: ((Zpos (XI
    (XI (XI (XO (XI (XI (XO (XO (XO (XO (XI (XI (XI (XI (XI (XI (XI (XI (XI
    (XI (XI (XI (XI (XO (XI (XI (XI (XI (XI (XI (XO
    XH)))))))))))))))))))))))))))))))) :: ((Zpos (XI (XI (XI (XO (XO (XI (XO
    (XI (XO (XI (XI (XO (XI (XI (XI (XI (XI (XI (XI (XI (XI (XI (XI (XO (XI
    (XI (XI (XI (XI (XI (XO XH)))))))))))))))))))))))))))))))) :: ((Zpos (XO
    (XI (XI (XI (XI (XO (XO (XI (XO (XI (XI (XI (XO (XI (XI (XI (XI (XI (XI
    (XI (XI (XI (XI (XO (XI (XI (XI (XI (XI (XI (XO
    XH)))))))))))))))))))))))))))))))) :: ((Zpos (XI (XO (XI (XI (XI (XO (XO
    (XO (XO (XO (XI (XO (XO (XI (XI (XI (XI (XI (XI (XI (XI (XI (XI (XO (XI
    (XI (XI (XI (XI (XI (XO XH)))))))))))))))))))))))))))))))) :: ((Zpos (XI
    (XI (XO (XO (XO (XI (XO (XO (XI (XI (XI (XO (XI (XO (XI (XI (XI (XI (XI
    (XI (XI (XI (XI (XO (XI (XI (XI (XI (XI (XI (XO
    XH)))))))))))))))))))))))))))))))) :: ((Zpos (XO (XO (XO (XO (XI (XI (XO
    (XI (XI (XI (XI (XO (XO (XO (XI (XI (XI (XI (XI (XI (XI (XI (XI (XO (XI
    (XI (XI (XI (XI (XI (XO XH)))))))))))))))))))))))))))))))) :: ((Zpos (XI
    (XO (XI (XO (XO (XO (XI (XI (XI (XO (XI (XO (XI (XI (XO (XI (XI (XI (XI
    (XI (XI (XI (XI (XO (XI (XI (XI (XI (XI (XI (XO
    XH)))))))))))))))))))))))))))))))) :: ((Zpos (XO (XI (XO (XO (XO (XI (XI
    (XO (XI (XO (XO (XO (XO (XI (XO (XI (XI (XI (XI (XI (XI (XI (XI (XO (XI
    (XI (XI (XI (XI (XI (XO XH)))))))))))))))))))))))))))))))) :: ((Zpos (XI
    (XI (XI (XO (XO (XO (XO (XI (XO (XI (XO (XI (XO (XO (XO (XI (XI (XI (XI
    (XI (XI (XI (XI (XO (XI (XI (XI (XI (XI (XI (XO
    XH)))))))))))))))))))))))))))))))) :: ((Zpos (XO (XO (XI (XO (XI (XI (XO
    (XO (XI (XO (XO (XO (XI (XI (XI (XO (XI (XI (XI (XI (XI (XI (XI (XO (XI
    (XI (XI (XI (XI (XI (XO XH)))))))))))))))))))))))))))))))) :: ((Zpos (XO
    (XI (XO (XI (XO (XI (XI (XO (XI (XO (XI (XO (XI (XO (XI (XO (XI (XI (XI
    (XI (XI (XI (XI (XO (XI (XI (XI (XI (XI (XI (XO
    XH)))))))))))))))))))))))))))))))) :: ((Zpos (XO (XO (XO (XI (XO (XI (XO
    (XO (XI (XI (XI (XO (XI (XI (XO (XO (XI (XI (XI (XI (XI (XI (XI (XO (XI
    (XI (XI (XI (XI (XI (XO XH)))))))))))))))))))))))))))))))) :: ((Zpos (XO
    (XO (XO (XO (XI (XI (XI (XO (XO (XI (XI (XO (XI (XO (XO (XO (XI (XI (XI
    (XI (XI (XI (XI (XO (XI (XI (XI (XI (XI (XI (XO
    XH)))))))))))))))))))))))))))))))) :: ((Zpos (XO (XO (XO (XO (XO (XO (XI
    (XO (XI (XI (XO (XO (XI (XI (XI (XI (XO (XI (XI (XI (XI (XI (XI (XO (XI
    (XI (XI (XI (XI (XI (XO XH)))))))))))))))))))))))))))))))) :: ((Zpos (XI
    (XI (XO (XI (XI (XO (XO (XI (XI (XO (XI (XI (XO (XO (XI (XI (XO (XI (XI
    (XI (XI (XI (XI (XO (XI (XI (XI (XI (XI (XI (XO
    XH)))))))))))))))))))))))))))))))) :: ((Zpos (XO (XO (XO (XO (XO (XO (XO
    (XI (XI (XO (XI (XO (XO (XI (XO (XI (XO (XI (XI (XI (XI (XI (XI (XO (XI
    (XI (XI (XI (XI (XI (XO XH)))))))))))))))))))))))))))))))) :: ((Zpos (XI
    (XI (XI (XI (XO (XI (XI (XI (XO (XI (XO (XI (XI (XI (XI (XO (XO (XI (XI
    (XI (XI (XI (XI (XO (XI (XI (XI (XI (XI (XI (XO
    XH)))))))))))))))))))))))))))))))) :: ((Zpos (XI (XO (XO (XI (XO (XI (XI
    (XI (XI (XO (XI (XI (XO (XO (XI (XO (XO (XI (XI (XI (XI (XI (XI (XO (XI
    (XI (XI (XI (XI (XI (XO XH)))))))))))))))))))))))))))))))) :: ((Zpos (XO
    (XI (XI (XI (XO (XI (XI (XO (XO (XI (XI (XI (XI (XO (XO (XO (XO (XI (XI
    (XI (XI (XI (XI (XO (XI (XI (XI (XI (XI (XI (XO
    XH)))))))))))))))))))))))))))))))) :: ((Zpos (XI (XI (XI (XI (XI (XI (XI
    (XO (XO (XO (XI (XI (XO (XI (XI (XI (XI (XO (XI (XI (XI (XI (XI (XO (XI
    (XI (XI (XI (XI (XI (XO XH)))))))))))))))))))))))))))))))) :: ((Zpos (XO
    (XO (XI (XI (XI (XO (XO (XO (XO (XO (XO (XI (XI (XI (XO (XI (XI (XO (XI
    (XI (XI (XI (XI (XO (XI (XI (XI (XI (XI (XI (XO
    XH)))))))))))))))))))))))))))))))) :: ((Zpos (XO (XI (XI (XO (XO (XO (XI
    (XO (XI (XO (XO (XO (XO (XO (XO (XI (XI (XO (XI (XI (XI (XI (XI (XO (XI
    (XI (XI (XI (XI (XI (XO XH)))))))))))))))))))))))))))))))) :: ((Zpos (XI
    (XO (XI (XI (XI (XI (XI (XI (XI (XI (XI (XO (XO (XO (XI (XO (XI (XO (XI
    (XI (XI (XI (XI (XO (XI (XI (XI (XI (XI (XI (XO
    XH)))))))))))))))))))))))))))))))) :: ((Zpos (XI (XI (XO (XO (XO (XO (XI
    (XO (XO (XO (XI (XI (XO (XO (XO (XO (XI (XO (XI (XI (XI (XI (XI (XO (XI
    (XI (XI (XI (XI (XI (XO XH)))))))))))))))))))))))))))))))) :: ((Zpos (XO
    (XI (XI (XO (XI (XO (XO (XO (XO (XI (XI (XI (XO (XO (XI (XI (XO (XO (XI
    (XI (XI (XI (XI (XO (XI (XI (XI (XI (XI (XI (XO
    XH)))))))))))))))))))))))))))))))) :: ((Zpos (XI (XO (XO (XI (XI (XI (XI
    (XO (XI (XO (XI (XI (XO (XO (XO (XI (XO (XO (XI (XI (XI (XI (XI (XO (XI
    (XI (XI (XI (XI (XI (XO XH)))))))))))))))))))))))))))))))) :: ((Zpos (XI
    (XI (XO (XI (XO (XI (XI (XO (XO (XI (XO (XI (XO (XO (XI (XO (XO (XO (XI
    (XI (XI (XI (XI (XO (XI (XI (XI (XI (XI (XI (XO
    XH)))))))))))))))))))))))))))))))) :: ((Zpos (XI (XO (XI (XI (XO (XI (XI
    (XI (XO (XO (XI (XO (XO (XO (XO (XO (XO (XO (XI (XI (XI (XI (XI (XO (XI
    (XI (XI (XI (XI (XI (XO XH)))))))))))))))))))))))))))))))) :: ((Zpos (XI
    (XO (XO (XO (XO (XO (XO (XO (XI (XO (XI (XI (XI (XI (XO (XI (XI (XI (XO
    (XI (XI (XI (XI (XO (XI (XI (XI (XI (XI (XI (XO
    XH)))))))))))))))))))))))))))))))) :: ((Zpos (XO (XI (XI (XO (XO (XI (XO
    (XI (XO (XI (XO (XO (XI (XI (XI (XO (XI (XI (XO (XI (XI (XI (XI (XO (XI
    (XI (XI (XI (XI (XI (XO XH)))))))))))))))))))))))))))))))) :: ((Zpos (XI
    (XO (XI (XI (XI (XO (XI (XI (XI (XO (XI (XO (XO (XI (XO (XO (XI (XI (XO
    (XI (XI (XI (XI (XO (XI (XI (XI (XI (XI (XI (XO
    XH)))))))))))))))))))))))))))))))) :: ((Zpos (XO (XO (XO (XI (XO (XI (XO
    (XI (XO (XI (XI (XO (XI (XO (XI (XI (XO (XI (XO (XI (XI (XI (XI (XO (XI
    (XI (XI (XI (XI (XI (XO XH)))))))))))))))))))))))))))))))) :: ((Zpos (XO
    (XI (XI (XO (XO (XO (XO (XO (XI (XO (XI (XO (XO (XO (XO (XI (XO (XI (XO
    (XI (XI (XI (XI (XO (XI (XI (XI (XI (XI (XI (XO
    XH)))))))))))))))))))))))))))))))) :: ((Zpos (XI (XO (XO (XI (XI (XI (XI
    (XI (XO (XO (XO (XO (XI (XI (XO (XO (XO (XI (XO (XI (XI (XI (XI (XO (XI
    (XI (XI (XI (XI (XI (XO XH)))))))))))))))))))))))))))))))) :: ((Zpos (XO
    (XI (XO (XO (XO (XO (XO (XI (XO (XI (XO (XI (XI (XO (XI (XI (XI (XO (XO
    (XI (XI (XI (XI (XO (XI (XI (XI (XI (XI (XI (XO
    XH)))))))))))))))))))))))))))))))) :: ((Zpos (XI (XO (XO (XO (XO (XI (XO
    (XI (XI (XO (XO (XO (XO (XO (XO (XI (XI (XO (XO (XI (XI (XI (XI (XO (XI
    (XI (XI (XI (XI (XI (XO XH)))))))))))))))))))))))))))))))) :: ((Zpos (XI
    (XI (XI (XO (XI (XO (XI (XO (XO (XI (XI (XO (XO (XI (XO (XO (XI (XO (XO
    (XI (XI (XI (XI (XO (XI (XI (XI (XI (XI (XI (XO
    XH)))))))))))))))))))))))))))))))) :: ((Zpos (XI (XO (XI (XO (XO (XI (XO
    (XI (XO (XO (XO (XI (XO (XO (XI (XI (XO (XO (XO (XI (XI (XI (XI (XO (XI
    (XI (XI (XI (XI (XI (XO XH)))))))))))))))))))))))))))))))) :: ((Zpos (XO
    (XO (XI (XI (XO (XO (XO (XI (XO (XO (XO (XI (XO (XI (XI (XO (XO (XO (XO
    (XI (XI (XI (XI (XO (XI (XI (XI (XI (XI (XI (XO
    XH)))))))))))))))))))))))))))))))) :: ((Zpos (XO (XO (XI (XI (XO (XO (XO
    (XO (XO (XI (XI (XO (XO (XO (XO (XO (XO (XO (XO (XI (XI (XI (XI (XO (XI
    (XI (XI (XI (XI (XI (XO XH)))))))))))))))))))))))))))))))) :: ((Zpos (XO
    (XO (XO (XI (XO (XI (XO (XO (XI (XO (XO (XO (XO (XI (XO (XI (XI (XI (XI
    (XO (XI (XI (XI (XO (XI (XI (XI (XI (XI (XI (XO
    XH)))))))))))))))))))))))))))))))) :: ((Zpos (XO (XO (XO (XO (XO (XI (XI
    (XI (XI (XO (XO (XI (XI (XI (XO (XO (XI (XI (XI (XO (XI (XI (XI (XO (XI
    (XI (XI (XI (XI (XI (XO XH)))))))))))))))))))))))))))))))) :: ((Zpos (XO
    (XO (XI (XO (XI (XI (XO (XO (XO (XO (XO (XO (XI (XO (XI (XI (XO (XI (XI
    (XO (XI (XI (XI (XO (XI (XI (XI (XI (XI (XI (XO
    XH)))))))))))))))))))))))))))))))) :: ((Zpos (XO (XI (XI (XO (XO (XI (XO
    (XO (XO (XO (XI (XO (XO (XI (XI (XO (XO (XI (XI (XO (XI (XI (XI (XO (XI
    (XI (XI (XI (XI (XI (XO XH)))))))))))))))))))))))))))))))) :: ((Zpos (XI
    (XI (XI (XO (XI (XI (XO (XI (XI (XO (XI (XO (XI (XI (XI (XI (XI (XO (XI
    (XO (XI (XI (XI (XO (XI (XI (XI (XI (XI (XI (XO
    XH)))))))))))))))))))))))))))))))) :: ((Zpos (XO (XO (XO (XI (XO (XI (XI
    (XI (XO (XO (XI (XO (XO (XO (XO (XI (XI (XO (XI (XO (XI (XI (XI (XO (XI
    (XI (XI (XI (XI (XI (XO XH)))))))))))))))))))))))))))))))) :: ((Zpos (XO
    (XI (XO (XI (XI (XI (XO (XI (XI (XO (XO (XO (XI (XO (XO (XO (XI (XO (XI
    (XO (XI (XI (XI (XO (XI (XI (XI (XI (XI (XI (XO
    XH)))))))))))))))))))))))))))))))) :: ((Zpos (XO (XI (XI (XI (XO (XI (XO
    (XO (XO (XO (XI (XI (XI (XO (XO (XI (XO (XO (XI (XO (XI (XI (XI (XO (XI
    (XI (XI (XI (XI (XI (XO XH)))))))))))))))))))))))))))))))) :: ((Zpos (XO
    (XI (XI (XO (XO (XO (XI (XO (XO (XO (XI (XO (XO (XI (XO (XO (XO (XO (XI
    (XO (XI (XI (XI (XO (XI (XI (XI (XI (XI (XI (XO
    XH)))))))))))))))))))))))))))))))) :: ((Zpos (XI (XO (XO (XO (XO (XO (XO
    (XO (XO (XI (XO (XI (XO (XI (XO (XI (XI (XI (XO (XO (XI (XI (XI (XO (XI
    (XI (XI (XI (XI (XI (XO XH)))))))))))))))))))))))))))))))) :: ((Zpos (XI
    (XI (XO (XO (XO (XI (XI (XO (XI (XO (XI (XI (XO (XI (XO (XO (XI (XI (XO
    (XO (XI (XI (XI (XO (XI (XI (XI (XI (XI (XI (XO
    XH)))))))))))))))))))))))))))))))) :: ((Zpos (XI (XI (XO (XI (XO (XI (XI
    (XO (XO (XI (XI (XI (XO (XI (XO (XI (XO (XI (XO (XO (XI (XI (XI (XO (XI
    (XI (XI (XI (XI (XI (XO XH)))))))))))))))))))))))))))))))) :: ((Zpos (XI
    (XI (XO (XI (XI (XO (XO (XO (XI (XO (XI (XI (XO (XI (XO (XO (XO (XI (XO
    (XO (XI (XI (XI (XO (XI (XI (XI (XI (XI (XI (XO
    XH)))))))))))))))))))))))))))))))) :: ((Zpos (XI (XO (XI (XO (XI (XI (XI
    (XO (XI (XO (XO (XI (XO (XI (XO (XI (XI (XO (XO (XO (XI (XI (XI (XO (XI
    (XI (XI (XI (XI (XI (XO XH)))))))))))))))))))))))))))))))) :: ((Zpos (XI
    (XO (XO (XI (XI (XI (XI (XO (XI (XI (XO (XO (XO (XI (XO (XO (XI (XO (XO
    (XO (XI (XI (XI (XO (XI (XI (XI (XI (XI (XI (XO
    XH)))))))))))))))))))))))))))))))) :: ((Zpos (XI (XO (XO (XI (XO (XI (XO
    (XO (XI (XI (XO (XI (XI (XO (XO (XI (XO (XO (XO (XO (XI (XI (XI (XO (XI
    (XI (XI (XI (XI (XI (XO XH)))))))))))))))))))))))))))))))) :: ((Zpos (XO
    (XI (XI (XO (XO (XO (XO (XI (XO (XO (XO (XO (XI (XO (XO (XO (XO (XO (XO
    (XO (XI (XI (XI (XO (XI (XI (XI (XI (XI (XI (XO
    XH)))))))))))))))))))))))))))))))) :: ((Zpos (XO (XI (XO (XO (XI (XO (XO
    (XI (XI (XI (XO (XO (XO (XO (XO (XI (XI (XI (XI (XI (XO (XI (XI (XO (XI
    (XI (XI (XI (XI (XI (XO XH)))))))))))))))))))))))))))))))) :: ((Zpos (XI
    (XO (XI (XI (XO (XO (XI (XO (XO (XO (XI (XO (XI (XI (XI (XI (XO (XI (XI
    (XI (XO (XI (XI (XO (XI (XI (XI (XI (XI (XI (XO
    XH)))))))))))))))))))))))))))))))) :: ((Zpos (XO (XI (XO (XI (XI (XI (XO
    (XI (XO (XI (XO (XO (XO (XI (XI (XO (XO (XI (XI (XI (XO (XI (XI (XO (XI
    (XI (XI (XI (XI (XI (XO XH)))))))))))))))))))))))))))))))) :: ((Zpos (XI
    (XO (XO (XI (XI (XO (XI (XI (XO (XI (XI (XI (XO (XO (XI (XI (XI (XO (XI
    (XI (XO (XI (XI (XO (XI (XI (XI (XI (XI (XI (XO
    XH)))))))))))))))))))))))))))))))) :: ((Zpos (XI (XO (XI (XI (XO (XI (XO
    (XI (XO (XO (XO (XI (XI (XI (XO (XO (XI (XO (XI (XI (XO (XI (XI (XO (XI
    (XI (XI (XI (XI (XI (XO XH)))))))))))))))))))))))))))))))) :: ((Zpos (XO
    (XI (XI (XO (XI (XI (XO (XO (XO (XO (XO (XO (XO (XI (XO (XI (XO (XO (XI
    (XI (XO (XI (XI (XO (XI (XI (XI (XI (XI (XI (XO
    XH)))))))))))))))))))))))))))))))) :: ((Zpos (XO (XI (XI (XO (XI (XI (XI
    (XO (XI (XO (XI (XO (XO (XO (XO (XO (XO (XO (XI (XI (XO (XI (XI (XO (XI
    (XI (XI (XI (XI (XI (XO XH)))))))))))))))))))))))))))))))) :: ((Zpos (XI
    (XI (XI (XI (XO (XI (XI (XO (XO (XO (XO (XI (XO (XI (XI (XO (XI (XI (XO
    (XI (XO (XI (XI (XO (XI (XI (XI (XI (XI (XI (XO
    XH)))))))))))))))))))))))))))))))) :: ((Zpos (XI (XO (XO (XO (XO (XI (XO
    (XO (XI (XO (XO (XI (XO (XO (XI (XI (XO (XI (XO (XI (XO (XI (XI (XO (XI
    (XI (XI (XI (XI (XI (XO XH)))))))))))))))))))))))))))))))) :: ((Zpos (XI
    (XI (XI (XI (XO (XO (XO (XI (XI (XI (XI (XO (XO (XI (XO (XO (XO (XI (XO
    (XI (XO (XI (XI (XO (XI (XI (XI (XI (XI (XI (XO
    XH)))))))))))))))))))))))))))))))) :: ((Zpos (XI (XI (XO (XI (XI (XI (XO
    (XI (XI (XI (XO (XO (XO (XO (XO (XI (XI (XO (XO (XI (XO (XI (XI (XO (XI
    (XI (XI (XI (XI (XI (XO XH)))))))))))))))))))))))))))))))) :: ((Zpos (XO
    (XO (XI (XO (XO (XI (XO (XI (XI (XO (XI (XI (XI (XO (XI (XI (XO (XO (XO
    (XI (XO (XI (XI (XO (XI (XI (XI (XI (XI (XI (XO
    XH)))))))))))))))))))))))))))))))) :: ((Zpos (XI (XI (XI (XI (XO (XO (XI
    (XO (XI (XO (XI (XO (XI (XI (XO (XO (XO (XO (XO (XI (XO (XI (XI (XO (XI
    (XI (XI (XI (XI (XI (XO XH)))))))))))))))))))))))))))))))) :: ((Zpos (XI
    (XI (XO (XI (XI (XI (XO (XI (XO (XI (XO (XI (XO (XO (XO (XI (XI (XI (XI
    (XO (XO (XI (XI (XO (XI (XI (XI (XI (XI (XI (XO
    XH)))))))))))))))))))))))))))))))) :: ((Zpos (XI (XI (XO (XI (XO (XI (XI
    (XI (XI (XO (XI (XI (XI (XO (XI (XI (XO (XI (XI (XO (XO (XI (XI (XO (XI
    (XI (XI (XI (XI (XI (XO XH)))))))))))))))))))))))))))))))) :: ((Zpos (XO
    (XO (XO (XO (XO (XI (XI (XI (XO (XI (XI (XI (XO (XI (XO (XO (XO (XI (XI
    (XO (XO (XI (XI (XO (XI (XI (XI (XI (XI (XI (XO
    XH)))))))))))))))))))))))))))))))) :: ((Zpos (XO (XO (XI (XI (XI (XO (XO
    (XI (XI (XO (XI (XI (XI (XI (XI (XO (XI (XO (XI (XO (XO (XI (XI (XO (XI
    (XI (XI (XI (XI (XI (XO XH)))))))))))))))))))))))))))))))) :: ((Zpos (XO
    (XO (XO (XO (XO (XI (XO (XO (XO (XI (XO (XI (XO (XO (XI (XI (XO (XO (XI
    (XO (XO (XI (XI (XO (XI (XI (XI (XI (XI (XI (XO
    XH)))))))))))))))))))))))))))))))) :: ((Zpos (XI (XI (XI (XI (XO (XI (XI
    (XO (XO (XO (XI (XO (XI (XO (XO (XO (XO (XO (XI (XO (XO (XI (XI (XO (XI
    (XI (XI (XI (XI (XI (XO XH)))))))))))))))))))))))))))))))) :: ((Zpos (XO
    (XI (XO (XI (XO (XO (XO (XI (XO (XO (XI (XI (XI (XO (XI (XO (XI (XI (XO
    (XO (XO (XI (XI (XO (XI (XI (XI (XI (XI (XI (XO
    XH)))))))))))))))))))))))))))))))) :: ((Zpos (XI (XI (XO (XO (XI (XI (XI
    (XO (XO (XI (XO (XO (XO (XI (XO (XI (XO (XI (XO (XO (XO (XI (XI (XO (XI
    (XI (XI (XI (XI (XI (XO XH)))))))))))))))))))))))))))))))) :: ((Zpos (XO
    (XO (XI (XI (XO (XI (XO (XO (XO (XI (XI (XO (XO (XI (XI (XI (XI (XO (XO
    (XO (XO (XI (XI (XO (XI (XI (XI (XI (XI (XI (XO
    XH)))))))))))))))))))))))))))))))) :: ((Zpos (XO (XI (XI (XO (XI (XI (XO
    (XI (XI (XI (XI (XO (XO (XI (XO (XO (XI (XO (XO (XO (XO (XI (XI (XO (XI
    (XI (XI (XI (XI (XI (XO XH)))))))))))))))))))))))))))))))) :: ((Zpos (XO
    (XO (XI (XO (XI (XO (XO (XO (XI (XI (XI (XO (XO (XI (XI (XO (XO (XO (XO
    (XO (XO (XI (XI (XO (XI (XI (XI (XI (XI (XI (XO
    XH)))))))))))))))))))))))))))))))) :: ((Zpos (XI (XI (XI (XO (XO (XO (XI
    (XO (XO (XO (XI (XO (XO (XI (XO (XI (XI (XI (XI (XI (XI (XO (XI (XO (XI
    (XI (XI (XI (XI (XI (XO XH)))))))))))))))))))))))))))))))) :: ((Zpos (XI
    (XO (XO (XO (XI (XO (XI (XO (XI (XI (XI (XI (XI (XO (XI (XI (XO (XI (XI
    (XI (XI (XO (XI (XO (XI (XI (XI (XI (XI (XI (XO
    XH)))))))))))))))))))))))))))))))) :: ((Zpos (XO (XO (XI (XO (XI (XI (XO
    (XO (XO (XO (XO (XI (XI (XO (XO (XO (XO (XI (XI (XI (XI (XO (XI (XO (XI
    (XI (XI (XI (XI (XI (XO XH)))))))))))))))))))))))))))))))) :: ((Zpos (XO
    (XI (XO (XO (XI (XI (XI (XI (XO (XI (XI (XI (XO (XO (XI (XO (XI (XO (XI
    (XI (XI (XO (XI (XO (XI (XI (XI (XI (XI (XI (XO
    XH)))))))))))))))))))))))))))))))) :: ((Zpos (XO (XO (XI (XI (XO (XO (XO
    (XI (XI (XI (XO (XO (XO (XO (XO (XI (XO (XO (XI (XI (XI (XO (XI (XO (XI
    (XI (XI (XI (XI (XI (XO XH)))))))))))))))))))))))))))))))) :: ((Zpos (XO
    (XI (XI (XO (XO (XO (XO (XO (XO (XI (XI (XO (XI (XI (XO (XI (XI (XI (XO
    (XI (XI (XO (XI (XO (XI (XI (XI (XI (XI (XI (XO
    XH)))))))))))))))))))))))))))))))) :: ((Zpos (XI (XO (XO (XO (XO (XI (XI
    (XO (XO (XI (XI (XO (XO (XI (XI (XI (XO (XI (XO (XI (XI (XO (XI (XO (XI
    (XI (XI (XI (XI (XI (XO XH)))))))))))))))))))))))))))))))) :: ((Zpos (XO
    (XI (XI (XI (XI (XO (XO (XI (XO (XO (XI (XO (XI (XO (XO (XO (XO (XI (XO
    (XI (XI (XO (XI (XO (XI (XI (XI (XI (XI (XI (XO
    XH)))))))))))))))))))))))))))))))) :: ((Zpos (XO (XO (XO (XO (XO (XO (XI
    (XI (XO (XO (XO (XO (XO (XO (XI (XO (XI (XO (XO (XI (XI (XO (XI (XO (XI
    (XI (XI (XI (XI (XI (XO XH)))))))))))))))))))))))))))))))) :: ((Zpos (XI
    (XO (XO (XI (XO (XO (XI (XI (XO (XI (XO (XI (XO (XI (XI (XO (XO (XO (XO
    (XI (XI (XO (XI (XO (XI (XI (XI (XI (XI (XI (XO
    XH)))))))))))))))))))))))))))))))) :: ((Zpos (XI (XI (XO (XI (XI (XI (XO
    (XI (XO (XI (XO (XO (XI (XO (XO (XI (XI (XI (XI (XO (XI (XO (XI (XO (XI
    (XI (XI (XI (XI (XI (XO XH)))))))))))))))))))))))))))))))) :: ((Zpos (XO
    (XO (XO (XI (XI (XO (XO (XI (XO (XO (XO (XI (XI (XI (XO (XI (XO (XI (XI
    (XO (XI (XO (XI (XO (XI (XI (XI (XI (XI (XI (XO
    XH)))))))))))))))))))))))))))))))) :: ((Zpos (XO (XI (XO (XO (XO (XI (XI
    (XO (XO (XO (XI (XI (XI (XO (XI (XI (XI (XO (XI (XO (XI (XO (XI (XO (XI
    (XI (XI (XI (XI (XI (XO XH)))))))))))))))))))))))))))))))) :: ((Zpos (XO
    (XO (XI (XI (XI (XO (XO (XO (XO (XI (XI (XI (XI (XI (XI (XI (XO (XO (XI
    (XO (XI (XO (XI (XO (XI (XI (XI (XI (XI (XI (XO
    XH)))))))))))))))))))))))))))))))) :: ((Zpos (XI (XI (XI (XO (XO (XO (XI
    (XI (XI (XO (XI (XI (XI (XO (XO (XO (XO (XO (XI (XO (XI (XO (XI (XO (XI
    (XI (XI (XI (XI (XI (XO XH)))))))))))))))))))))))))))))))) :: ((Zpos (XI
    (XO (XI (XO (XO (XI (XI (XO (XI (XI (XO (XI (XI (XI (XO (XO (XI (XI (XO
    (XO (XI (XO (XI (XO (XI (XI (XI (XI (XI (XI (XO
    XH)))))))))))))))))))))))))))))))) :: ((Zpos (XO (XI (XO (XI (XI (XI (XI
    (XI (XO (XI (XI (XO (XI (XO (XI (XO (XO (XI (XO (XO (XI (XO (XI (XO (XI
    (XI (XI (XI (XI (XI (XO XH)))))))))))))))))))))))))))))))) :: ((Zpos (XO
    (XI (XI (XO (XO (XO (XO (XI (XO (XO (XO (XO (XI (XI (XI (XO (XI (XO (XO
    (XO (XI (XO (XI (XO (XI (XI (XI (XI (XI (XI (XO
    XH)))))))))))))))))))))))))))))))) :: ((Zpos (XI (XO (XI (XI (XO (XO (XO
    (XO (XO (XO (XO (XI (XO (XO (XO (XI (XO (XO (XO (XO (XI (XO (XI (XO (XI
    (XI (XI (XI (XI (XI (XO XH)))))))))))))))))))))))))))))))) :: ((Zpos (XO
    (XO (XO (XO (XI (XO (XO (XI (XI (XO (XI (XI (XI (XO (XO (XI (XI (XI (XI
    (XI (XO (XO (XI (XO (XI (XI (XI (XI (XI (XI (XO
    XH)))))))))))))))))))))))))))))))) :: ((Zpos (XI (XO (XO (XO (XI (XO (XO
    (XO (XI (XO (XO (XO (XI (XI (XO (XI (XO (XI (XI (XI (XO (XO (XI (XO (XI
    (XI (XI (XI (XI (XI (XO XH)))))))))))))))))))))))))))))))) :: ((Zpos (XO
    (XO (XI (XO (XI (XO (XO (XI (XO (XI (XO (XO (XO (XO (XI (XI (XI (XO (XI
    (XI (XO (XO (XI (XO (XI (XI (XI (XI (XI (XI (XO
    XH)))))))))))))))))))))))))))))))) :: ((Zpos (XO (XI (XO (XI (XI (XO (XO
    (XO (XO (XI (XO (XO (XI (XO (XI (XI (XO (XO (XI (XI (XO (XO (XI (XO (XI
    (XI (XI (XI (XI (XI (XO XH)))))))))))))))))))))))))))))))) :: ((Zpos (XO
    (XI (XI (XO (XO (XI (XO (XI (XI (XI (XI (XI (XI (XO (XI (XI (XI (XI (XO
    (XI (XO (XO (XI (XO (XI (XI (XI (XI (XI (XI (XO
    XH)))))))))))))))))))))))))))))))) :: ((Zpos (XO (XI (XO (XI (XI (XI (XO
    (XO (XI (XI (XO (XI (XO (XI (XI (XI (XO (XI (XO (XI (XO (XO (XI (XO (XI
    (XI (XI (XI (XI (XI (XO XH)))))))))))))))))))))))))))))))) :: ((Zpos (XO
    (XO (XO (XI (XI (XO (XI (XI (XO (XO (XI (XO (XI (XI (XI (XI (XI (XO (XO
    (XI (XO (XO (XI (XO (XI (XI (XI (XI (XI (XI (XO
    XH)))))))))))))))))))))))))))))))) :: ((Zpos (XI (XI (XO (XO (XO (XO (XO
    (XI (XO (XO (XI (XI (XI (XI (XI (XI (XO (XO (XO (XI (XO (XO (XI (XO (XI
    (XI (XI (XI (XI (XI (XO XH)))))))))))))))))))))))))))))))) :: ((Zpos (XO
    (XO (XI (XI (XI (XI (XO (XO (XO (XI (XO (XO (XO (XO (XO (XO (XO (XO (XO
    (XI (XO (XO (XI (XO (XI (XI (XI (XI (XI (XI (XO
    XH)))))))))))))))))))))))))))))))) :: ((Zpos (XO (XO (XO (XI (XO (XO (XO
    (XO (XO (XI (XI (XO (XO (XO (XO (XO (XI (XI (XI (XO (XO (XO (XI (XO (XI
    (XI (XI (XI (XI (XI (XO XH)))))))))))))))))))))))))))))))) :: ((Zpos (XI
    (XI (XI (XO (XO (XI (XI (XI (XI (XI (XI (XO (XO (XO (XO (XO (XO (XI (XI
    (XO (XO (XO (XI (XO (XI (XI (XI (XI (XI (XI (XO
    XH)))))))))))))))))))))))))))))))) :: ((Zpos (XI (XO (XI (XI (XI (XO (XI
    (XI (XI (XI (XI (XO (XO (XO (XO (XO (XI (XO (XI (XO (XO (XO (XI (XO (XI
    (XI (XI (XI (XI (XI (XO XH)))))))))))))))))))))))))))))))) :: ((Zpos (XO
    (XO (XI (XI (XO (XI (XI (XI (XI (XO (XI (XO (XO (XO (XO (XO (XO (XO (XI
    (XO (XO (XO (XI (XO (XI (XI (XI (XI (XI (XI (XO
    XH)))))))))))))))))))))))))))))))) :: ((Zpos (XO (XI (XI (XO (XI (XO (XO
    (XO (XO (XI (XO (XO (XO (XO (XO (XO (XI (XI (XO (XO (XO (XO (XI (XO (XI
    (XI (XI (XI (XI (XI (XO XH)))))))))))))))))))))))))))))))) :: ((Zpos (XO
    (XI (XI (XI (XI (XO (XI (XO (XO (XO (XI (XI (XI (XI (XI (XI (XI (XO (XO
    (XO (XO (XO (XI (XO (XI (XI (XI (XI (XI (XI (XO
    XH)))))))))))))))))))))))))))))))) :: ((Zpos (XO (XI (XI (XO (XO (XO (XI
    (XI (XO (XO (XI (XO (XI (XI (XI (XI (XO (XO (XO (XO (XO (XO (XI (XO (XI
    (XI (XI (XI (XI (XI (XO XH)))))))))))))))))))))))))))))))) :: ((Zpos (XO
    (XI (XO (XO (XI (XO (XI (XO (XI (XI (XO (XI (XO (XI (XI (XI (XI (XI (XI
    (XI (XI (XI (XO (XO (XI (XI (XI (XI (XI (XI (XO
    XH)))))))))))))))))))))))))))))))) :: ((Zpos (XI (XI (XO (XO (XO (XO (XO
    (XO (XO (XO (XO (XO (XO (XI (XI (XI (XO (XI (XI (XI (XI (XI (XO (XO (XI
    (XI (XI (XI (XI (XI (XO XH)))))))))))))))))))))))))))))))) :: ((Zpos (XO
    (XO (XI (XI (XI (XO (XI (XI (XO (XI (XO (XO (XI (XO (XI (XI (XI (XO (XI
    (XI (XI (XI (XO (XO (XI (XI (XI (XI (XI (XI (XO
    XH)))))))))))))))))))))))))))))))) :: ((Zpos (XI (XI (XI (XI (XI (XO (XI
    (XI (XI (XI (XO (XO (XO (XO (XI (XI (XO (XO (XI (XI (XI (XI (XO (XO (XI
    (XI (XI (XI (XI (XI (XO XH)))))))))))))))))))))))))))))))) :: ((Zpos (XO
    (XO (XO (XO (XI (XO (XO (XO (XI (XI (XO (XO (XI (XI (XO (XI (XI (XI (XO
    (XI (XI (XI (XO (XO (XI (XI (XI (XI (XI (XI (XO
    XH)))))))))))))))))))))))))))))))) :: ((Zpos (XI (XO (XO (XO (XI (XI (XI
    (XO (XO (XO (XO (XO (XO (XI (XO (XI (XO (XI (XO (XI (XI (XI (XO (XO (XI
    (XI (XI (XI (XI (XI (XO XH)))))))))))))))))))))))))))))))) :: ((Zpos (XI
    (XO (XI (XO (XO (XO (XO (XO (XO (XO (XI (XI (XO (XO (XO (XI (XI (XO (XO
    (XI (XI (XI (XO (XO (XI (XI (XI (XI (XI (XI (XO
    XH)))))))))))))))))))))))))))))))) :: ((Zpos (XO (XI (XI (XI (XO (XO (XI
    (XI (XI (XO (XI (XO (XI (XI (XI (XO (XO (XO (XO (XI (XI (XI (XO (XO (XI
    (XI (XI (XI (XI (XI (XO XH)))))))))))))))))))))))))))))))) :: ((Zpos (XI
    (XI (XI (XI (XO (XO (XI (XI (XI (XO (XI (XI (XI (XO (XI (XO (XI (XI (XI
    (XO (XI (XI (XO (XO (XI (XI (XI (XI (XI (XI (XO
    XH)))))))))))))))))))))))))))))))) :: ((Zpos (XI (XI (XO (XI (XO (XO (XO
    (XO (XO (XO (XI (XO (XO (XO (XI (XO (XO (XI (XI (XO (XI (XI (XO (XO (XI
    (XI (XI (XI (XI (XI (XO XH)))))))))))))))))))))))))))))))) :: ((Zpos (XO
    (XO (XI (XO (XO (XO (XO (XI (XO (XO (XO (XI (XO (XI (XO (XO (XI (XO (XI
    (XO (XI (XI (XO (XO (XI (XI (XI (XI (XI (XI (XO
    XH)))))))))))))))))))))))))))))))) :: ((Zpos (XI (XO (XI (XI (XI (XI (XO
    (XO (XI (XI (XO (XI (XO (XO (XO (XO (XO (XO (XI (XO (XI (XI (XO (XO (XI
    (XI (XI (XI (XI (XI (XO XH)))))))))))))))))))))))))))))))) :: ((Zpos (XI
    (XO (XO (XI (XI (XI (XO (XO (XO (XO (XI (XI (XO (XI (XI (XI (XO (XI (XO
    (XO (XI (XI (XO (XO (XI (XI (XI (XI (XI (XI (XO
    XH)))))))))))))))))))))))))))))))) :: ((Zpos (XO (XI (XO (XI (XI (XI (XI
    (XO (XI (XI (XO (XI (XO (XO (XI (XI (XI (XO (XO (XO (XI (XI (XO (XO (XI
    (XI (XI (XI (XI (XI (XO XH)))))))))))))))))))))))))))))))) :: ((Zpos (XI
    (XO (XI (XO (XO (XO (XO (XO (XI (XO (XO (XI (XO (XI (XO (XI (XO (XO (XO
    (XO (XI (XI (XO (XO (XI (XI (XI (XI (XI (XI (XO
    XH)))))))))))))))))))))))))))))))) :: ((Zpos (XO (XI (XO (XI (XI (XO (XI
    (XI (XO (XO (XI (XO (XO (XO (XO (XI (XI (XI (XI (XI (XO (XI (XO (XO (XI
    (XI (XI (XI (XI (XI (XO XH)))))))))))))))))))))))))))))))) :: ((Zpos (XO
    (XI (XI (XI (XI (XI (XI (XI (XO (XI (XI (XI (XI (XO (XI (XO (XO (XI (XI
    (XI (XO (XI (XO (XO (XI (XI (XI (XI (XI (XI (XO
    XH)))))))))))))))))))))))))))))))) :: ((Zpos (XO (XI (XO (XO (XI (XI (XI
    (XO (XI (XI (XI (XO (XI (XI (XO (XO (XI (XO (XI (XI (XO (XI (XO (XO (XI
    (XI (XI (XI (XI (XI (XO XH)))))))))))))))))))))))))))))))) :: ((Zpos (XO
    (XI (XO (XI (XI (XI (XO (XO (XO (XI (XI (XI (XO (XO (XO (XO (XO (XO (XI
    (XI (XO (XI (XO (XO (XI (XI (XI (XI (XI (XI (XO
    XH)))))))))))))))))))))))))))))))) :: ((Zpos (XI (XO (XO (XI (XI (XO (XI
    (XO (XI (XI (XO (XO (XO (XI (XI (XI (XO (XI (XO (XI (XO (XI (XO (XO (XI
    (XI (XI (XI (XI (XI (XO XH)))))))))))))))))))))))))))))))) :: ((Zpos (XI
    (XO (XO (XO (XI (XO (XI (XI (XO (XI (XI (XO (XI (XI (XO (XI (XI (XO (XO
    (XI (XO (XI (XO (XO (XI (XI (XI (XI (XI (XI (XO
    XH)))))))))))))))))))))))))))))))) :: ((Zpos (XO (XI (XI (XO (XO (XI (XO
    (XI (XO (XO (XO (XI (XO (XO (XO (XI (XO (XO (XO (XI (XO (XI (XO (XO (XI
    (XI (XI (XI (XI (XI (XO XH)))))))))))))))))))))))))))))))) :: ((Zpos (XO
    (XI (XO (XI (XI (XO (XI (XI (XO (XO (XO (XI (XI (XO (XI (XO (XI (XI (XI
    (XO (XO (XI (XO (XO (XI (XI (XI (XI (XI (XI (XO
    XH)))))))))))))))))))))))))))))))) :: ((Zpos (XI (XO (XO (XO (XI (XI (XI
    (XO (XI (XI (XI (XO (XO (XI (XO (XO (XO (XI (XI (XO (XO (XI (XO (XO (XI
    (XI (XI (XI (XI (XI (XO XH)))))))))))))))))))))))))))))))) :: ((Zpos (XO
    (XO (XI (XI (XO (XI (XI (XO (XO (XO (XI (XO (XI (XI (XI (XI (XO (XO (XI
    (XO (XO (XI (XO (XO (XI (XI (XI (XI (XI (XI (XO
    XH)))))))))))))))))))))))))))))))) :: ((Zpos (XO (XO (XO (XO (XI (XO (XI
    (XI (XI (XI (XI (XI (XI (XI (XO (XI (XI (XI (XO (XO (XO (XI (XO (XO (XI
    (XI (XI (XI (XI (XI (XO XH)))))))))))))))))))))))))))))))) :: ((Zpos (XI
    (XI (XI (XI (XI (XO (XO (XI (XI (XO (XO (XI (XO (XO (XO (XI (XO (XI (XO
    (XO (XO (XI (XO (XO (XI (XI (XI (XI (XI (XI (XO
    XH)))))))))))))))))))))))))))))))) :: ((Zpos (XO (XO (XI (XI (XI (XO (XI
    (XI (XI (XO (XO (XO (XI (XO (XI (XO (XI (XO (XO (XO (XO (XI (XO (XO (XI
    (XI (XI (XI (XI (XI (XO XH)))))))))))))))))))))))))))))))) :: ((Zpos (XO
    (XI (XO (XI (XO (XO (XO (XI (XO (XO (XO (XI (XI (XO (XO (XO (XO (XO (XO
    (XO (XO (XI (XO (XO (XI (XI (XI (XI (XI (XI (XO
    XH)))))))))))))))))))))))))))))))) :: ((Zpos (XI (XO (XI (XI (XO (XI (XO
    (XI (XI (XO (XI (XI (XI (XO (XI (XI (XO (XI (XI (XI (XI (XO (XO (XO (XI
    (XI (XI (XI (XI (XI (XO XH)))))))))))))))))))))))))))))))) :: ((Zpos (XI
    (XI (XI (XO (XO (XO (XI (XO (XI (XO (XO (XO (XO (XI (XO (XI (XI (XO (XI
    (XI (XI (XO (XO (XO (XI (XI (XI (XI (XI (XI (XO
    XH)))))))))))))))))))))))))))))))) :: ((Zpos (XI (XI (XO (XI (XI (XO (XI
    (XO (XI (XI (XO (XO (XO (XI (XI (XO (XO (XO (XI (XI (XI (XO (XO (XO (XI
    (XI (XI (XI (XI (XI (XO XH)))))))))))))))))))))))))))))))) :: ((Zpos (XO
    (XO (XI (XI (XO (XI (XI (XI (XI (XI (XO (XO (XO (XI (XO (XO (XI (XI (XO
    (XI (XI (XO (XO (XO (XI (XI (XI (XI (XI (XI (XO
    XH)))))))))))))))))))))))))))))))) :: ((Zpos (XO (XI (XI (XI (XI (XI (XI
    (XI (XO (XI (XO (XO (XO (XI (XI (XI (XI (XO (XO (XI (XI (XO (XO (XO (XI
    (XI (XI (XI (XI (XI (XO XH)))))))))))))))))))))))))))))))) :: ((Zpos (XO
    (XO (XI (XO (XI (XO (XO (XI (XO (XO (XO (XO (XO (XI (XO (XI (XO (XO (XO
    (XI (XI (XO (XO (XO (XI (XI (XI (XI (XI (XI (XO
    XH)))))))))))))))))))))))))))))))) :: ((Zpos (XO (XO (XO (XO (XI (XI (XO
    (XI (XO (XO (XI (XI (XI (XO (XI (XO (XI (XI (XI (XO (XI (XO (XO (XO (XI
    (XI (XI (XI (XI (XI (XO XH)))))))))))))))))))))))))))))))) :: ((Zpos (XO
    (XI (XI (XO (XI (XO (XI (XO (XI (XI (XI (XO (XI (XO (XO (XO (XO (XI (XI
    (XO (XI (XO (XO (XO (XI (XI (XI (XI (XI (XI (XO
    XH)))))))))))))))))))))))))))))))) :: ((Zpos (XI (XO (XO (XI (XO (XO (XO
    (XI (XO (XO (XO (XO (XI (XO (XI (XI (XO (XO (XI (XO (XI (XO (XO (XO (XI
    (XI (XI (XI (XI (XI (XO XH)))))))))))))))))))))))))))))))) :: ((Zpos (XO
    (XO (XI (XI (XO (XO (XI (XO (XO (XO (XO (XI (XO (XO (XO (XI (XI (XI (XO
    (XO (XI (XO (XO (XO (XI (XI (XI (XI (XI (XI (XO
    XH)))))))))))))))))))))))))))))))) :: ((Zpos (XO (XI (XO (XO (XO (XI (XO
    (XI (XO (XI (XI (XI (XI (XI (XO (XO (XO (XI (XO (XO (XI (XO (XO (XO (XI
    (XI (XI (XI (XI (XI (XO XH)))))))))))))))))))))))))))))))) :: ((Zpos (XI
    (XI (XI (XI (XO (XO (XO (XI (XI (XI (XO (XO (XI (XI (XI (XI (XO (XO (XO
    (XO (XI (XO (XO (XO (XI (XI (XI (XI (XI (XI (XO
    XH)))))))))))))))))))))))))))))))) :: ((Zpos (XI (XO (XI (XO (XI (XO (XO
    (XO (XI (XI (XI (XO (XO (XI (XO (XI (XI (XI (XI (XI (XO (XO (XO (XO (XI
    (XI (XI (XI (XI (XI (XO XH)))))))))))))))))))))))))))))))) :: ((Zpos (XI
    (XO (XO (XI (XI (XI (XO (XO (XI (XO (XO (XI (XI (XO (XI (XO (XO (XI (XI
    (XI (XO (XO (XO (XO (XI (XI (XI (XI (XI (XI (XO
    XH)))))))))))))))))))))))))))))))) :: ((Zpos (XO (XO (XI (XI (XI (XI (XI
    (XI (XI (XO (XO (XI (XO (XO (XO (XO (XI (XO (XI (XI (XO (XO (XO (XO (XI
    (XI (XI (XI (XI (XI (XO XH)))))))))))))))))))))))))))))))) :: ((Zpos (XI
    (XI (XO (XO (XO (XI (XI (XO (XI (XO (XO (XI (XI (XI (XO (XI (XI (XI (XO
    (XI (XO (XO (XO (XO (XI (XI (XI (XI (XI (XI (XO
    XH)))))))))))))))))))))))))))))))) :: ((Zpos (XO (XO (XO (XO (XI (XI (XI
    (XO (XI (XI (XI (XO (XO (XI (XI (XO (XO (XI (XO (XI (XO (XO (XO (XO (XI
    (XI (XI (XI (XI (XI (XO XH)))))))))))))))))))))))))))))))) :: ((Zpos (XI
    (XI (XI (XO (XO (XI (XO (XO (XO (XO (XI (XO (XI (XO (XO (XO (XI (XO (XO
    (XI (XO (XO (XO (XO (XI (XI (XI (XI (XI (XI (XO
    XH)))))))))))))))))))))))))))))))) :: ((Zpos (XI (XI (XO (XI (XO (XO (XO
    (XI (XI (XI (XI (XI (XI (XI (XO (XI (XI (XI (XI (XO (XO (XO (XO (XO (XI
    (XI (XI (XI (XI (XI (XO XH)))))))))))))))))))))))))))))))) :: ((Zpos (XO
    (XO (XO (XO (XO (XI (XO (XI (XI (XO (XO (XI (XO (XI (XI (XO (XO (XI (XI
    (XO (XO (XO (XO (XO (XI (XI (XI (XI (XI (XI (XO
    XH)))))))))))))))))))))))))))))))) :: ((Zpos (XO (XO (XO (XI (XO (XI (XI
    (XO (XO (XI (XO (XO (XI (XO (XO (XO (XI (XO (XI (XO (XO (XO (XO (XO (XI
    (XI (XI (XI (XI (XI (XO XH)))))))))))))))))))))))))))))))) :: ((Zpos (XI
    (XI (XI (XO (XO (XI (XI (XI (XI (XO (XO (XI (XI (XI (XO (XI (XI (XI (XO
    (XO (XO (XO (XO (XO (XI (XI (XI (XI (XI (XI (XO
    XH)))))))))))))))))))))))))))))))) :: ((Zpos (XI (XO (XO (XO (XO (XI (XO
    (XO (XO (XO (XO (XO (XO (XI (XI (XO (XO (XI (XO (XO (XO (XO (XO (XO (XI
    (XI (XI (XI (XI (XI (XO XH)))))))))))))))))))))))))))))))) :: ((Zpos (XO
    (XO (XO (XI (XI (XO (XO (XO (XI (XO (XI (XO (XO (XO (XO (XO (XI (XO (XO
    (XO (XO (XO (XO (XO (XI (XI (XI (XI (XI (XI (XO
    XH)))))))))))))))))))))))))))))))) :: ((Zpos (XI (XO (XO (XO (XO (XI (XO
    (XI (XI (XO (XO (XO (XI (XO (XI (XO (XI (XI (XI (XI (XI (XI (XI (XI (XO
    (XI (XI (XI (XI (XI (XO XH)))))))))))))))))))))))))))))))) :: ((Zpos (XO
    (XI (XO (XI (XI (XO (XO (XI (XO (XI (XI (XO (XI (XO (XO (XI (XO (XO (XI
    (XI (XI (XI (XI (XI (XO (XI (XI (XI (XI (XI (XO
    XH)))))))))))))))))))))))))))))))) :: ((Zpos (XI (XI (XO (XO (XO (XI (XO
    (XO (XI (XO (XO (XI (XI (XO (XI (XI (XI (XO (XO (XI (XI (XI (XI (XI (XO
    (XI (XI (XI (XI (XI (XO XH)))))))))))))))))))))))))))))))) :: ((Zpos (XI
    (XI (XO (XO (XO (XO (XI (XO (XI (XO (XO (XI (XI (XO (XO (XO (XI (XI (XI
    (XO (XI (XI (XI (XI (XO (XI (XI (XI (XI (XI (XO
    XH)))))))))))))))))))))))))))))))) :: ((Zpos (XI (XI (XI (XI (XI (XI (XI
    (XI (XO (XI (XI (XO (XI (XO (XI (XO (XO (XO (XI (XO (XI (XI (XI (XI (XO
    (XI (XI (XI (XI (XI (XO XH)))))))))))))))))))))))))))))))) :: ((Zpos (XI
    (XI (XI (XI (XI (XO (XI (XO (XO (XI (XO (XO (XI (XO (XO (XI (XI (XO (XO
    (XO (XI (XI (XI (XI (XO (XI (XI (XI (XI (XI (XO
    XH)))))))))))))))))))))))))))))))) :: ((Zpos (XI (XI (XO (XI (XO (XI (XI
    (XO (XI (XI (XO (XI (XO (XO (XI (XI (XO (XI (XI (XI (XO (XI (XI (XI (XO
    (XI (XI (XI (XI (XI (XO XH)))))))))))))))))))))))))))))))) :: ((Zpos (XI
    (XI (XI (XO (XO (XI (XO (XO (XO (XI (XO (XO (XO (XO (XO (XO (XO (XO (XI
    (XI (XO (XI (XI (XI (XO (XI (XI (XI (XI (XI (XO
    XH)))))))))))))))))))))))))))))))) :: ((Zpos (XI (XO (XI (XI (XI (XO (XO
    (XI (XO (XI (XI (XO (XI (XI (XO (XO (XI (XO (XO (XI (XO (XI (XI (XI (XO
    (XI (XI (XI (XI (XI (XO XH)))))))))))))))))))))))))))))))) :: ((Zpos (XO
    (XI (XO (XO (XI (XO (XI (XI (XO (XO (XO (XI (XO (XI (XI (XO (XO (XI (XI
    (XO (XO (XI (XI (XI (XO (XI (XI (XI (XI (XI (XO
    XH)))))))))))))))))))))))))))))))) :: ((Zpos (XI (XO (XI (XI (XO (XO (XI
    (XI (XO (XO (XO (XI (XI (XO (XO (XI (XI (XI (XO (XO (XO (XI (XI (XI (XO
    (XI (XI (XI (XI (XI (XO XH)))))))))))))))))))))))))))))))) :: ((Zpos (XI
    (XO (XI (XO (XI (XO (XO (XI (XO (XI (XI (XO (XO (XO (XI (XI (XO (XO (XO
    (XO (XO (XI (XI (XI (XO (XI (XI (XI (XI (XI (XO
    XH)))))))))))))))))))))))))))))))) :: ((Zpos (XO (XI (XO (XO (XI (XI (XO
    (XO (XO (XI (XO (XO (XI (XI (XI (XI (XI (XO (XI (XI (XI (XO (XI (XI (XO
    (XI (XI (XI (XI (XI (XO XH)))))))))))))))))))))))))))))))) :: ((Zpos (XO
    (XI (XO (XI (XO (XI (XO (XI (XI (XI (XO (XI (XI (XO (XO (XO (XI (XI (XO
    (XI (XI (XO (XI (XI (XO (XI (XI (XI (XI (XI (XO
    XH)))))))))))))))))))))))))))))))) :: ((Zpos (XI (XO (XI (XO (XO (XO (XO
    (XO (XI (XI (XO (XO (XO (XO (XI (XO (XO (XO (XO (XI (XI (XO (XI (XI (XO
    (XI (XI (XI (XI (XI (XO XH)))))))))))))))))))))))))))))))) :: ((Zpos (XI
    (XO (XO (XI (XO (XO (XI (XO (XO (XO (XO (XI (XO (XI (XI (XO (XI (XO (XI
    (XO (XI (XO (XI (XI (XO (XI (XI (XI (XI (XI (XO
    XH)))))))))))))))))))))))))))))))) :: ((Zpos (XI (XO (XI (XI (XI (XI (XI
    (XO (XI (XI (XO (XI (XO (XO (XO (XI (XO (XI (XO (XO (XI (XO (XI (XI (XO
    (XI (XI (XI (XI (XI (XO XH)))))))))))))))))))))))))))))))) :: ((Zpos (XO
    (XO (XO (XI (XO (XI (XO (XI (XO (XO (XI (XI (XO (XI (XO (XI (XI (XI (XI
    (XI (XO (XO (XI (XI (XO (XI (XI (XI (XI (XI (XO
    XH)))))))))))))))))))))))))))))))) :: ((Zpos (XI (XI (XO (XO (XI (XO (XI
    (XI (XI (XI (XO (XI (XO (XO (XI (XI (XO (XO (XI (XI (XO (XO (XI (XI (XO
    (XI (XI (XI (XI (XI (XO XH)))))))))))))))))))))))))))))))) :: ((Zpos (XI
    (XI (XO (XO (XO (XO (XO (XO (XI (XO (XO (XI (XO (XI (XI (XI (XI (XO (XO
    (XI (XO (XO (XI (XI (XO (XI (XI (XI (XI (XI (XO
    XH)))))))))))))))))))))))))))))))) :: ((Zpos (XO (XO (XO (XO (XO (XO (XI
    (XO (XO (XO (XI (XO (XO (XO (XO (XO (XI (XI (XI (XO (XO (XO (XI (XI (XO
    (XI (XI (XI (XI (XI (XO XH)))))))))))))))))))))))))))))))) :: ((Zpos (XO
    (XO (XO (XO (XI (XO (XO (XI (XI (XO (XI (XI (XI (XO (XO (XO (XO (XO (XI
    (XO (XO (XO (XI (XI (XO (XI (XI (XI (XI (XI (XO
    XH)))))))))))))))))))))))))))))))) :: ((Zpos (XO (XO (XI (XI (XI (XI (XI
    (XI (XO (XO (XI (XO (XI (XI (XO (XO (XI (XO (XO (XO (XO (XO (XI (XI (XO
    (XI (XI (XI (XI (XI (XO XH)))))))))))))))))))))))))))))))) :: ((Zpos (XI
    (XI (XO (XI (XO (XO (XO (XI (XO (XI (XO (XI (XO (XO (XI (XO (XO (XI (XI
    (XI (XI (XI (XO (XI (XO (XI (XI (XI (XI (XI (XO
    XH)))))))))))))))))))))))))))))))) :: ((Zpos (XO (XI (XO (XO (XO (XO (XI
    (XO (XO (XI (XI (XI (XI (XO (XI (XO (XI (XI (XO (XI (XI (XI (XO (XI (XO
    (XI (XI (XI (XI (XI (XO XH)))))))))))))))))))))))))))))))) :: ((Zpos (XI
    (XI (XO (XI (XO (XI (XO (XO (XO (XO (XO (XO (XI (XI (XI (XO (XO (XO (XO
    (XI (XI (XI (XO (XI (XO (XI (XI (XI (XI (XI (XO
    XH)))))))))))))))))))))))))))))))) :: ((Zpos (XO (XO (XI (XI (XO (XO (XI
    (XO (XO (XO (XO (XO (XO (XO (XO (XI (XI (XO (XI (XO (XI (XI (XO (XI (XO
    (XI (XI (XI (XI (XI (XO XH)))))))))))))))))))))))))))))))) :: ((Zpos (XO
    (XO (XI (XI (XO (XI (XO (XI (XO (XI (XI (XI (XO (XO (XO (XI (XO (XI (XO
    (XO (XI (XI (XO (XI (XO (XI (XI (XI (XI (XI (XO
    XH)))))))))))))))))))))))))))))))) :: ((Zpos (XO (XI (XO (XO (XI (XO (XI
    (XO (XI (XI (XO (XI (XI (XO (XO (XI (XI (XI (XI (XI (XO (XI (XO (XI (XO
    (XI (XI (XI (XI (XI (XO XH)))))))))))))))))))))))))))))))) :: ((Zpos (XI
    (XI (XI (XO (XO (XO (XI (XO (XO (XI (XI (XO (XO (XI (XO (XI (XO (XO (XI
    (XI (XO (XI (XO (XI (XO (XI (XI (XI (XI (XI (XO
    XH)))))))))))))))))))))))))))))))) :: ((Zpos (XO (XO (XO (XO (XI (XO (XO
    (XI (XI (XI (XI (XI (XO (XI (XO (XI (XI (XO (XO (XI (XO (XI (XO (XI (XO
    (XI (XI (XI (XI (XI (XO XH)))))))))))))))))))))))))))))))) :: ((Zpos (XO
    (XI (XI (XO (XI (XI (XO (XO (XI (XI (XI (XO (XI (XI (XO (XI (XO (XI (XI
    (XO (XO (XI (XO (XI (XO (XI (XI (XI (XI (XI (XO
    XH)))))))))))))))))))))))))))))))) :: ((Zpos (XO (XO (XO (XO (XO (XO (XI
    (XO (XI (XO (XI (XI (XI (XI (XO (XI (XI (XI (XO (XO (XO (XI (XO (XI (XO
    (XI (XI (XI (XI (XI (XO XH)))))))))))))))))))))))))))))))) :: ((Zpos (XI
    (XO (XI (XO (XI (XI (XO (XI (XI (XO (XO (XO (XO (XO (XI (XI (XO (XO (XO
    (XO (XO (XI (XO (XI (XO (XI (XI (XI (XI (XI (XO
    XH)))))))))))))))))))))))))))))))) :: ((Zpos (XI (XO (XI (XI (XI (XO (XO
    (XI (XO (XO (XI (XO (XO (XO (XI (XI (XI (XO (XI (XI (XI (XO (XO (XI (XO
    (XI (XI (XI (XI (XI (XO XH)))))))))))))))))))))))))))))))) :: ((Zpos (XI
    (XI (XI (XI (XI (XI (XI (XI (XI (XO (XI (XO (XO (XO (XI (XI (XO (XI (XO
    (XI (XI (XO (XO (XI (XO (XI (XI (XI (XI (XI (XO
    XH)))))))))))))))))))))))))))))))) :: ((Zpos (XO (XI (XO (XO (XO (XI (XI
    (XI (XI (XO (XI (XO (XO (XO (XI (XI (XI (XI (XI (XO (XI (XO (XO (XI (XO
    (XI (XI (XI (XI (XI (XO XH)))))))))))))))))))))))))))))))) :: ((Zpos (XI
    (XO (XI (XI (XO (XO (XI (XO (XO (XO (XI (XO (XO (XO (XI (XI (XO (XO (XI
    (XO (XI (XO (XO (XI (XO (XI (XI (XI (XI (XI (XO
    XH)))))))))))))))))))))))))))))))) :: ((Zpos (XO (XI (XO (XI (XO (XO (XI
    (XO (XI (XO (XO (XO (XO (XO (XI (XI (XI (XO (XO (XO (XI (XO (XO (XI (XO
    (XI (XI (XI (XI (XI (XO XH)))))))))))))))))))))))))))))))) :: ((Zpos (XI
    (XO (XI (XI (XI (XO (XI (XI (XO (XO (XI (XI (XI (XI (XO (XI (XO (XI (XI
    (XI (XO (XO (XO (XI (XO (XI (XI (XI (XI (XI (XO
    XH)))))))))))))))))))))))))))))))) :: ((Zpos (XO (XO (XO (XO (XI (XO (XO
    (XO (XI (XI (XI (XO (XI (XI (XO (XI (XI (XI (XO (XI (XO (XO (XO (XI (XO
    (XI (XI (XI (XI (XI (XO XH)))))))))))))))))))))))))))))))) :: ((Zpos (XI
    (XO (XO (XI (XO (XI (XI (XI (XI (XI (XI (XI (XO (XI (XO (XI (XO (XO (XO
    (XI (XO (XO (XO (XI (XO (XI (XI (XI (XI (XI (XO
    XH)))))))))))))))))))))))))))))))) :: ((Zpos (XI (XO (XO (XO (XI (XI (XI
    (XO (XI (XI (XI (XO (XO (XI (XO (XI (XI (XO (XI (XO (XO (XO (XO (XI (XO
    (XI (XI (XI (XI (XI (XO XH)))))))))))))))))))))))))))))))) :: ((Zpos (XO
    (XI (XI (XI (XO (XI (XO (XI (XI (XO (XI (XI (XI (XO (XO (XI (XO (XI (XO
    (XO (XO (XO (XO (XI (XO (XI (XI (XI (XI (XI (XO
    XH)))))))))))))))))))))))))))))))) :: ((Zpos (XO (XO (XO (XO (XI (XO (XI
    (XO (XI (XO (XI (XO (XO (XI (XO (XO (XI (XI (XI (XI (XI (XI (XI (XO (XO
    (XI (XI (XI (XI (XI (XO XH)))))))))))))))))))))))))))))))) :: ((Zpos (XO
    (XI (XI (XI (XO (XO (XI (XI (XO (XO (XI (XI (XO (XO (XO (XO (XI (XO (XO
    (XI (XI (XI (XI (XO (XO (XI (XI (XI (XI (XI (XO
    XH)))))))))))))))))))))))))))))))) :: ((Zpos (XI (XI (XO (XO (XO (XI (XI
    (XI (XI (XO (XO (XO (XI (XI (XI (XI (XO (XI (XO (XO (XI (XI (XI (XO (XO
    (XI (XI (XI (XI (XI (XO XH)))))))))))))))))))))))))))))))) :: ((Zpos (XI
    (XO (XO (XO (XO (XI (XO (XI (XO (XO (XI (XO (XI (XO (XI (XI (XO (XO (XI
    (XI (XO (XI (XI (XO (XO (XI (XI (XI (XI (XI (XO
    XH)))))))))))))))))))))))))))))))) :: ((Zpos (XO (XO (XI (XO (XI (XO (XO
    (XO (XI (XO (XI (XO (XI (XI (XO (XI (XO (XI (XI (XO (XO (XI (XI (XO (XO
    (XI (XI (XI (XI (XI (XO XH)))))))))))))))))))))))))))))))) :: ((Zpos (XO
    (XI (XI (XI (XO (XO (XI (XO (XI (XI (XO (XO (XI (XO (XO (XI (XO (XO (XO
    (XO (XO (XI (XI (XO (XO (XI (XI (XI (XI (XI (XO
    XH)))))))))))))))))))))))))))))))) :: ((Zpos (XO (XO (XI (XI (XI (XO (XI
    (XO (XI (XI (XI (XI (XO (XI (XI (XO (XO (XI (XO (XI (XI (XO (XI (XO (XO
    (XI (XI (XI (XI (XI (XO XH)))))))))))))))))))))))))))))))) :: ((Zpos (XO
    (XI (XI (XI (XO (XO (XI (XO (XI (XO (XO (XI (XO (XO (XI (XO (XO (XO (XI
    (XO (XI (XO (XI (XO (XO (XI (XI (XI (XI (XI (XO
    XH)))))))))))))))))))))))))))))))) :: ((Zpos (XI (XI (XO (XO (XI (XI (XO
    (XO (XI (XO (XO (XO (XO (XI (XO (XO (XO (XI (XI (XI (XO (XO (XI (XO (XO
    (XI (XI (XI (XI (XI (XO XH)))))))))))))))))))))))))))))))) :: ((Zpos (XI
    (XI (XO (XI (XI (XO (XO (XO (XI (XI (XI (XO (XI (XI (XI (XI (XI (XI (XI
    (XO (XO (XO (XI (XO (XO (XI (XI (XI (XI (XI (XO
    XH)))))))))))))))))))))))))))))))) :: ((Zpos (XO (XO (XI (XO (XI (XO (XO
    (XO (XI (XI (XO (XI (XO (XO (XI (XI (XI (XO (XO (XO (XO (XO (XI (XO (XO
    (XI (XI (XI (XI (XI (XO XH)))))))))))))))))))))))))))))))) :: ((Zpos (XO
    (XI (XI (XI (XO (XI (XO (XO (XI (XO (XI (XI (XI (XO (XO (XI (XI (XI (XO
    (XI (XI (XI (XO (XO (XO (XI (XI (XI (XI (XI (XO
    XH)))))))))))))))))))))))))))))))) :: ((Zpos (XI (XO (XO (XI (XI (XI (XI
    (XO (XI (XO (XI (XI (XO (XI (XI (XO (XI (XO (XI (XO (XI (XI (XO (XO (XO
    (XI (XI (XI (XI (XI (XO XH)))))))))))))))))))))))))))))))) :: ((Zpos (XI
    (XI (XO (XO (XO (XO (XO (XO (XO (XO (XI (XI (XI (XI (XO (XO (XI (XI (XI
    (XI (XO (XI (XO (XO (XO (XI (XI (XI (XI (XI (XO
    XH)))))))))))))))))))))))))))))))) :: ((Zpos (XI (XI (XO (XI (XI (XO (XI
    (XI (XO (XO (XO (XI (XO (XO (XO (XO (XI (XO (XO (XI (XO (XI (XO (XO (XO
    (XI (XI (XI (XI (XI (XO XH)))))))))))))))))))))))))))))))) :: ((Zpos (XO
    (XI (XO (XO (XI (XO (XO (XO (XO (XO (XI (XO (XI (XO (XI (XI (XO (XI (XO
    (XO (XO (XI (XO (XO (XO (XI (XI (XI (XI (XI (XO
    XH)))))))))))))))))))))))))))))))) :: ((Zpos (XO (XI (XI (XO (XI (XI (XO
    (XI (XI (XO (XI (XI (XI (XO (XO (XI (XO (XO (XI (XI (XI (XO (XO (XO (XO
    (XI (XI (XI (XI (XI (XO XH)))))))))))))))))))))))))))))))) :: ((Zpos (XI
    (XI (XI (XO (XI (XO (XI (XI (XI (XO (XI (XO (XO (XI (XI (XO (XO (XI (XI
    (XO (XI (XO (XO (XO (XO (XI (XI (XI (XI (XI (XO
    XH)))))))))))))))))))))))))))))))) :: ((Zpos (XO (XO (XI (XO (XO (XO (XO
    (XI (XO (XO (XI (XI (XO (XI (XO (XO (XO (XO (XO (XO (XI (XO (XO (XO (XO
    (XI (XI (XI (XI (XI (XO XH)))))))))))))))))))))))))))))))) :: ((Zpos (XI
    (XO (XI (XI (XO (XO (XI (XI (XI (XO (XO (XO (XI (XI (XI (XI (XI (XO (XO
    (XI (XO (XO (XO (XO (XO (XI (XI (XI (XI (XI (XO
    XH)))))))))))))))))))))))))))))))) :: ((Zpos (XI (XO (XO (XO (XO (XO (XI
    (XI (XI (XO (XI (XO (XI (XI (XO (XI (XI (XI (XO (XO (XO (XO (XO (XO (XO
    (XI (XI (XI (XI (XI (XO XH)))))))))))))))))))))))))))))))) :: ((Zpos (XO
    (XI (XI (XI (XI (XO (XI (XI (XO (XO (XO (XO (XI (XI (XI (XI (XO (XI (XO
    (XI (XI (XI (XI (XI (XI (XO (XI (XI (XI (XI (XO
    XH)))))))))))))))))))))))))))))))) :: ((Zpos (XO (XI (XI (XI (XO (XO (XI
    (XI (XI (XI (XO (XO (XI (XI (XI (XO (XO (XI (XI (XI (XO (XI (XI (XI (XI
    (XO (XI (XI (XI (XI (XO XH)))))))))))))))))))))))))))))))) :: ((Zpos (XO
    (XO (XO (XO (XI (XI (XI (XO (XO (XO (XI (XO (XI (XI (XI (XI (XI (XO (XO
    (XO (XO (XI (XI (XI (XI (XO (XI (XI (XI (XI (XO
    XH)))))))))))))))))))))))))))))))) :: ((Zpos (XO (XO (XI (XO (XO (XI (XI
    (XI (XO (XI (XO (XO (XI (XI (XI (XO (XI (XO (XI (XO (XI (XO (XI (XI (XI
    (XO (XI (XI (XI (XI (XO XH)))))))))))))))))))))))))))))))) :: ((Zpos (XO
    (XO (XO (XI (XO (XO (XI (XO (XI (XI (XI (XI (XO (XI (XI (XI (XO (XO (XO
    (XI (XO (XO (XI (XI (XI (XO (XI (XI (XI (XI (XO
    XH)))))))))))))))))))))))))))))))) :: ((Zpos (XO (XO (XI (XI (XI (XI (XO
    (XI (XI (XO (XO (XI (XO (XI (XI (XO (XO (XO (XI (XI (XI (XI (XO (XI (XI
    (XO (XI (XI (XI (XI (XO XH)))))))))))))))))))))))))))))))) :: ((Zpos (XI
    (XO (XI (XI (XI (XO (XI (XO (XO (XI (XO (XO (XO (XI (XI (XI (XI (XI (XI
    (XI (XO (XI (XO (XI (XI (XO (XI (XI (XI (XI (XO
    XH)))))))))))))))))))))))))))))))) :: ((Zpos (XO (XO (XI (XI (XO (XO (XI
    (XO (XI (XO (XO (XI (XI (XO (XI (XO (XI (XI (XO (XO (XO (XI (XO (XI (XI
    (XO (XI (XI (XI (XI (XO XH)))))))))))))))))))))))))))))))) :: ((Zpos (XI
    (XI (XI (XO (XO (XI (XO (XI (XO (XI (XI (XI (XO (XO (XI (XI (XO (XI (XI
    (XO (XI (XO (XO (XI (XI (XO (XI (XI (XI (XI (XO
    XH)))))))))))))))))))))))))))))))) :: ((Zpos (XI (XO (XI (XI (XO (XO (XO
    (XI (XO (XI (XO (XO (XO (XO (XI (XO (XO (XI (XO (XI (XO (XO (XO (XI (XI
    (XO (XI (XI (XI (XI (XO XH)))))))))))))))))))))))))))))))) :: ((Zpos (XO
    (XI (XO (XI (XI (XI (XO (XO (XO (XI (XO (XI (XO (XI (XI (XO (XI (XI (XO
    (XI (XI (XI (XI (XO (XI (XO (XI (XI (XI (XI (XO
    XH)))))))))))))))))))))))))))))))) :: ((Zpos (XI (XO (XI (XI (XO (XI (XI
    (XI (XO (XO (XI (XI (XO (XO (XI (XO (XO (XI (XO (XO (XO (XI (XI (XO (XI
    (XO (XI (XI (XI (XI (XO XH)))))))))))))))))))))))))))))))) :: ((Zpos (XI
    (XO (XO (XO (XI (XI (XI (XO (XI (XO (XI (XI (XO (XI (XO (XO (XI (XO (XO
    (XI (XO (XO (XI (XO (XI (XO (XI (XI (XI (XI (XO
    XH)))))))))))))))))))))))))))))))) :: ((Zpos (XI (XI (XO (XO (XO (XO (XO
    (XO (XO (XO (XI (XI (XO (XO (XO (XO (XO (XO (XO (XO (XI (XI (XO (XO (XI
    (XO (XI (XI (XI (XI (XO XH)))))))))))))))))))))))))))))))) :: ((Zpos (XO
    (XI (XO (XO (XO (XI (XI (XI (XO (XO (XO (XI (XO (XI (XI (XI (XO (XI (XI
    (XO (XI (XO (XO (XO (XI (XO (XI (XI (XI (XI (XO
    XH)))))))))))))))))))))))))))))))) :: ((Zpos (XI (XI (XI (XO (XI (XO (XO
    (XI (XO (XO (XO (XI (XO (XO (XO (XI (XI (XI (XO (XI (XI (XI (XI (XI (XO
    (XO (XI (XI (XI (XI (XO XH)))))))))))))))))))))))))))))))) :: ((Zpos (XO
    (XO (XI (XI (XI (XI (XI (XI (XO (XO (XI (XI (XI (XI (XO (XO (XI (XO (XO
    (XI (XO (XO (XI (XI (XO (XO (XI (XI (XI (XI (XO
    XH)))))))))))))))))))))))))))))))) :: ((Zpos (XI (XO (XO (XO (XI (XI (XI
    (XO (XI (XI (XI (XI (XO (XI (XI (XI (XO (XI (XI (XO (XI (XO (XO (XI (XO
    (XO (XI (XI (XI (XI (XO XH)))))))))))))))))))))))))))))))) :: ((Zpos (XI
    (XI (XI (XI (XI (XO (XI (XI (XO (XO (XO (XO (XO (XO (XI (XO (XI (XO (XO
    (XI (XO (XO (XI (XO (XO (XO (XI (XI (XI (XI (XO
    XH)))))))))))))))))))))))))))))))) :: ((Zpos (XO (XO (XO (XI (XI (XO (XI
    (XI (XI (XO (XO (XO (XO (XO (XI (XO (XI (XO (XO (XI (XO (XO (XI (XI (XI
    (XI (XO (XI (XI (XI (XO XH)))))))))))))))))))))))))))))))) :: ((Zpos (XO
    (XI (XO (XO (XI (XI (XO (XO (XI (XO (XO (XO (XI (XI (XO (XO (XI (XO (XI
    (XI (XO (XO (XO (XI (XI (XO (XI (XO (XO (XI (XO
    XH)))))))))))))))))))))))))))))))) :: [])))))))))))))))))))))))))))))))))))))))))))))))))))))))))))))))))))))))))))))))))))))))))))))))))))))))))))))))))))))))))))))))))))))))))))))))))))))))))))))))))))))))))))))))))))))))))))))))))))))))))))))))))))))))))))))))))))))))))))))))))))))))))))))))))))))))))))))))))))))))))))))))))))))))))))))))))))))))))))))))))))))))))))))))))))))))))))))))))))))))))))))))))))))))))))))))))))))))))))))))))))))))))))))))))))))))))))))))))))))))))))))))))))))))))))))))))))))))))))))))))))))))))))))))))))))))))))))))))))))))))))))))))))))))))))))))))))))))))))))))))))))))))))))))))))))))))))))))))))))))))))))))))))))))))))))))))))))))))))))))))))))))))))))))))))))))))))))))))))))))))))))))))))))))))))))))))))))))))))))))))))))))))))))))))))))))))))))))))))))))))))))))))))))))))))))))))))))))))))))))))))))))))))))))))))))))))))))))))))))))))))))))))))))))))))))))))))))))))))))))))))))))))))))))))))))))))))))))))))))))))))))))))))))))))))))))))))))))))))))))))))))))))))))))))))))))))))))))))))))))))))))))))))))))))))))))

(** val aDSR_ATTACK_TABLE_bits : z list **)

let aDSR_ATTACK_TABLE_bits =
  Z0 :: ((Zpos (XO (XO (XO (XI (XO (XI (XO (XO (XI (XO (XI (XO (XI (XO (XI
    (XI (XI (XI (XI (XO (XO (XI (XI (XI (XO (XI (XO (XI (XI
    XH)))))))))))))))))))))))))))))) :: ((Zpos (XI (XO (XO (XO (XO (XO (XO
    (XI (XO (XI (XI (XI (XO (XI (XO (XI (XI (XI (XI (XO (XO (XI (XI (XO (XI
    (XI (XO (XI (XI XH)))))))))))))))))))))))))))))) :: ((Zpos (XO (XI (XO
    (XI (XO (XI (XI (XI (XI (XO (XI (XO (XO (XI (XO (XI (XI (XO (XI (XI (XO
    (XI (XO (XI (XI (XI (XO (XI (XI
    XH)))))))))))))))))))))))))))))) :: ((Zpos (XI (XO (XI (XI (XO (XO (XI
    (XO (XI (XO (XO (XO (XO (XI (XI (XO (XI (XI (XI (XO (XO (XI (XI (XI (XI
    (XI (XO (XI (XI XH)))))))))))))))))))))))))))))) :: ((Zpos (XO (XO (XO
    (XI (XI (XI (XO (XI (XO (XO (XI (XO (XO (XO (XO (XI (XO (XO (XO (XO (XI
    (XO (XO (XO (XO (XO (XI (XI (XI
    XH)))))))))))))))))))))))))))))) :: ((Zpos (XI (XO (XI (XI (XO (XI (XO
    (XO (XI (XI (XI (XI (XO (XO (XI (XO (XI (XO (XI (XI (XO (XI (XO (XO (XO
    (XO (XI (XI (XI XH)))))))))))))))))))))))))))))) :: ((Zpos (XO (XO (XO
    (XI (XO (XO (XO (XO (XO (XO (XO (XO (XI (XO (XO (XO (XO (XI (XO (XI (XO
    (XO (XI (XO (XO (XO (XI (XI (XI
    XH)))))))))))))))))))))))))))))) :: ((Zpos (XI (XO (XI (XI (XO (XO (XI
    (XO (XI (XI (XI (XO (XO (XO (XI (XI (XO (XI (XI (XO (XO (XI (XI (XO (XO
    (XO (XI (XI (XI XH)))))))))))))))))))))))))))))) :: ((Zpos (XI (XI (XI
    (XI (XI (XI (XI (XO (XO (XI (XO (XI (XI (XI (XO (XI (XI (XO (XO (XO (XO
    (XO (XO (XI (XO (XO (XI (XI (XI
    XH)))))))))))))))))))))))))))))) :: ((Zpos (XO (XO (XO (XO (XI (XO (XO
    (XI (XO (XO (XI (XI (XO (XO (XO (XO (XO (XO (XO (XO (XI (XO (XO (XI (XO
    (XO (XI (XI (XI XH)))))))))))))))))))))))))))))) :: ((Zpos (XO (XI (XO
    (XI (XI (XO (XI (XI (XI (XO (XO (XI (XI (XO (XI (XO (XO (XI (XI (XI (XI
    (XO (XO (XI (XO (XO (XI (XI (XI
    XH)))))))))))))))))))))))))))))) :: ((Zpos (XI (XI (XI (XI (XI (XO (XI
    (XO (XO (XI (XO (XO (XO (XI (XO (XI (XO (XO (XI (XI (XO (XI (XO (XI (XO
    (XO (XI (XI (XI XH)))))))))))))))))))))))))))))) :: ((Zpos (XO (XI (XO
    (XO (XO (XI (XO (XO (XO (XI (XI (XO (XO (XI (XI (XI (XO (XI (XO (XI (XI
    (XI (XO (XI (XO (XO (XI (XI (XI
    XH)))))))))))))))))))))))))))))) :: ((Zpos (XO (XI (XO (XO (XO (XI (XO
    (XO (XI (XO (XI (XO (XO (XI (XO (XO (XI (XO (XO (XI (XO (XO (XI (XI (XO
    (XO (XI (XI (XI XH)))))))))))))))))))))))))))))) :: ((Zpos (XI (XI (XO
    (XO (XO (XI (XI (XO (XI (XI (XI (XI (XI (XO (XI (XO (XI (XI (XI (XO (XI
    (XO (XI (XI (XO (XO (XI (XI (XI
    XH)))))))))))))))))))))))))))))) :: ((Zpos (XI (XO (XI (XO (XO (XI (XI
    (XI (XO (XO (XI (XO (XI (XO (XO (XI (XI (XO (XI (XO (XO (XI (XI (XI (XO
    (XO (XI (XI (XI XH)))))))))))))))))))))))))))))) :: ((Zpos (XO (XI (XO
    (XI (XO (XI (XO (XI (XI (XO (XI (XO (XO (XO (XI (XI (XI (XI (XO (XO (XI
    (XI (XI (XI (XO (XO (XI (XI (XI
    XH)))))))))))))))))))))))))))))) :: ((Zpos (XO (XI (XO (XI (XI (XO (XI
    (XI (XO (XO (XO (XI (XI (XI (XI (XI (XO (XO (XO (XO (XO (XO (XO (XO (XI
    (XO (XI (XI (XI XH)))))))))))))))))))))))))))))) :: ((Zpos (XO (XI (XO
    (XO (XO (XO (XO (XI (XO (XO (XI (XI (XO (XO (XO (XO (XO (XO (XO (XI (XO
    (XO (XO (XO (XI (XO (XI (XI (XI
    XH)))))))))))))))))))))))))))))) :: ((Zpos (XO (XI (XI (XI (XO (XO (XI
    (XI (XI (XO (XI (XI (XI (XO (XO (XO (XI (XI (XI (XI (XO (XO (XO (XO (XI
    (XO (XI (XI (XI XH)))))))))))))))))))))))))))))) :: ((Zpos (XI (XI (XI
    (XI (XI (XI (XO (XI (XO (XO (XI (XI (XO (XI (XO (XO (XO (XI (XI (XO (XI
    (XO (XO (XO (XI (XO (XI (XI (XI
    XH)))))))))))))))))))))))))))))) :: ((Zpos (XI (XO (XI (XO (XI (XO (XI
    (XO (XI (XO (XO (XI (XI (XI (XO (XO (XI (XO (XI (XI (XI (XO (XO (XO (XI
    (XO (XI (XI (XI XH)))))))))))))))))))))))))))))) :: ((Zpos (XI (XO (XO
    (XO (XI (XO (XO (XI (XI (XI (XO (XO (XO (XO (XI (XO (XO (XO (XI (XO (XO
    (XI (XO (XO (XI (XO (XI (XI (XI
    XH)))))))))))))))))))))))))))))) :: ((Zpos (XI (XO (XI (XO (XI (XI (XI
    (XO (XI (XI (XO (XI (XO (XO (XI (XO (XI (XI (XO (XI (XO (XI (XO (XO (XI
    (XO (XI (XI (XI XH)))))))))))))))))))))))))))))) :: ((Zpos (XO (XO (XO
    (XO (XO (XO (XO (XO (XI (XO (XO (XO (XI (XO (XI (XO (XO (XI (XO (XO (XI
    (XI (XO (XO (XI (XO (XI (XI (XI
    XH)))))))))))))))))))))))))))))) :: ((Zpos (XO (XO (XI (XO (XI (XI (XO
    (XO (XO (XO (XI (XO (XI (XO (XI (XO (XI (XO (XO (XI (XI (XI (XO (XO (XI
    (XO (XI (XI (XI XH)))))))))))))))))))))))))))))) :: ((Zpos (XI (XO (XO
    (XO (XI (XO (XO (XO (XI (XO (XI (XO (XI (XO (XI (XO (XO (XO (XO (XO (XO
    (XO (XI (XO (XI (XO (XI (XI (XI
    XH)))))))))))))))))))))))))))))) :: ((Zpos (XI (XO (XO (XI (XI (XO (XO
    (XI (XI (XI (XO (XO (XI (XO (XI (XO (XI (XI (XI (XO (XO (XO (XI (XO (XI
    (XO (XI (XI (XI XH)))))))))))))))))))))))))))))) :: ((Zpos (XI (XI (XO
    (XI (XO (XO (XI (XI (XI (XI (XI (XI (XO (XO (XI (XO (XO (XI (XI (XI (XO
    (XO (XI (XO (XI (XO (XI (XI (XI
    XH)))))))))))))))))))))))))))))) :: ((Zpos (XI (XO (XO (XI (XO (XI (XO
    (XI (XI (XO (XO (XI (XO (XO (XI (XO (XI (XO (XI (XO (XI (XO (XI (XO (XI
    (XO (XI (XI (XI XH)))))))))))))))))))))))))))))) :: ((Zpos (XO (XO (XI
    (XO (XI (XI (XO (XO (XI (XO (XO (XO (XO (XO (XI (XO (XO (XO (XI (XI (XI
    (XO (XI (XO (XI (XO (XI (XI (XI
    XH)))))))))))))))))))))))))))))) :: ((Zpos (XO (XO (XI (XI (XO (XI (XI
    (XO (XO (XI (XI (XO (XI (XI (XO (XO (XI (XI (XO (XO (XO (XI (XI (XO (XI
    (XO (XI (XI (XI XH)))))))))))))))))))))))))))))) :: ((Zpos (XO (XI (XO
    (XO (XI (XO (XI (XO (XI (XO (XO (XI (XO (XI (XO (XO (XO (XI (XO (XI (XO
    (XI (XI (XO (XI (XO (XI (XI (XI
    XH)))))))))))))))))))))))))))))) :: ((Zpos (XI (XI (XI (XO (XO (XI (XI
    (XI (XI (XO (XO (XI (XI (XO (XO (XO (XI (XO (XO (XO (XI (XI (XI (XO (XI
    (XO (XI (XI (XI XH)))))))))))))))))))))))))))))) :: ((Zpos (XO (XO (XI
    (XI (XO (XI (XO (XO (XO (XO (XO (XI (XO (XO (XO (XO (XO (XO (XO (XI (XI
    (XI (XI (XO (XI (XO (XI (XI (XI
    XH)))))))))))))))))))))))))))))) :: ((Zpos (XI (XO (XO (XO (XO (XI (XO
    (XO (XO (XO (XI (XO (XI (XI (XI (XI (XO (XI (XI (XI (XI (XI (XI (XO (XI
    (XO (XI (XI (XI XH)))))))))))))))))))))))))))))) :: ((Zpos (XO (XO (XI
    (XO (XO (XI (XI (XI (XO (XI (XI (XI (XO (XI (XI (XI (XO (XI (XO (XO (XO
    (XO (XO (XI (XI (XO (XI (XI (XI
    XH)))))))))))))))))))))))))))))) :: ((Zpos (XO (XO (XO (XO (XI (XO (XO
    (XI (XO (XI (XO (XO (XO (XI (XI (XO (XO (XI (XI (XO (XO (XO (XO (XI (XI
    (XO (XI (XI (XI XH)))))))))))))))))))))))))))))) :: ((Zpos (XI (XO (XI
    (XO (XI (XO (XO (XO (XI (XO (XI (XO (XI (XO (XI (XI (XI (XO (XO (XI (XO
    (XO (XO (XI (XI (XO (XI (XI (XI
    XH)))))))))))))))))))))))))))))) :: ((Zpos (XO (XO (XI (XO (XI (XI (XI
    (XO (XO (XI (XI (XO (XO (XO (XI (XO (XI (XO (XI (XI (XO (XO (XO (XI (XI
    (XO (XI (XI (XI XH)))))))))))))))))))))))))))))) :: ((Zpos (XI (XO (XI
    (XI (XO (XI (XO (XI (XO (XI (XI (XO (XI (XI (XO (XI (XO (XO (XO (XO (XI
    (XO (XO (XI (XI (XO (XI (XI (XI
    XH)))))))))))))))))))))))))))))) :: ((Zpos (XI (XO (XO (XO (XO (XO (XI
    (XI (XI (XO (XI (XO (XO (XI (XO (XO (XO (XO (XI (XO (XI (XO (XO (XI (XI
    (XO (XI (XI (XI XH)))))))))))))))))))))))))))))) :: ((Zpos (XI (XI (XI
    (XI (XO (XI (XO (XI (XI (XI (XO (XO (XI (XO (XO (XI (XI (XI (XI (XO (XI
    (XO (XO (XI (XI (XO (XI (XI (XI
    XH)))))))))))))))))))))))))))))) :: ((Zpos (XI (XO (XO (XI (XI (XI (XI
    (XO (XO (XO (XO (XO (XO (XO (XO (XO (XI (XI (XO (XI (XI (XO (XO (XI (XI
    (XO (XI (XI (XI XH)))))))))))))))))))))))))))))) :: ((Zpos (XI (XI (XI
    (XI (XI (XO (XO (XO (XO (XO (XI (XI (XO (XI (XI (XO (XO (XI (XI (XI (XI
    (XO (XO (XI (XI (XO (XI (XI (XI
    XH)))))))))))))))))))))))))))))) :: ((Zpos (XO (XO (XO (XO (XO (XI (XO
    (XI (XO (XI (XI (XO (XI (XO (XI (XI (XI (XO (XO (XO (XO (XI (XO (XI (XI
    (XO (XI (XI (XI XH)))))))))))))))))))))))))))))) :: ((Zpos (XO (XI (XI
    (XI (XI (XI (XI (XI (XI (XI (XI (XI (XI (XI (XO (XO (XI (XO (XI (XO (XO
    (XI (XO (XI (XI (XO (XI (XI (XI
    XH)))))))))))))))))))))))))))))) :: ((Zpos (XI (XO (XO (XI (XI (XI (XO
    (XO (XO (XO (XO (XI (XO (XI (XO (XI (XO (XO (XO (XI (XO (XI (XO (XI (XI
    (XO (XI (XI (XI XH)))))))))))))))))))))))))))))) :: ((Zpos (XI (XO (XO
    (XO (XI (XO (XI (XO (XI (XI (XI (XI (XO (XO (XO (XO (XO (XO (XI (XI (XO
    (XI (XO (XI (XI (XO (XI (XI (XI
    XH)))))))))))))))))))))))))))))) :: ((Zpos (XO (XI (XI (XO (XO (XO (XI
    (XO (XI (XO (XI (XO (XI (XI (XI (XO (XI (XI (XI (XI (XO (XI (XO (XI (XI
    (XO (XI (XI (XI XH)))))))))))))))))))))))))))))) :: ((Zpos (XO (XI (XO
    (XI (XI (XO (XO (XO (XO (XI (XO (XI (XI (XO (XI (XI (XO (XI (XO (XO (XI
    (XI (XO (XI (XI (XO (XI (XI (XI
    XH)))))))))))))))))))))))))))))) :: ((Zpos (XI (XI (XO (XI (XO (XO (XI
    (XI (XI (XO (XI (XI (XI (XI (XO (XO (XO (XI (XI (XO (XI (XI (XO (XI (XI
    (XO (XI (XI (XI XH)))))))))))))))))))))))))))))) :: ((Zpos (XI (XI (XO
    (XI (XI (XO (XI (XO (XO (XO (XO (XO (XO (XI (XO (XI (XI (XO (XO (XI (XI
    (XI (XO (XI (XI (XO (XI (XI (XI
    XH)))))))))))))))))))))))))))))) :: ((Zpos (XI (XI (XO (XI (XO (XO (XI
    (XI (XI (XO (XO (XO (XO (XO (XO (XO (XI (XO (XI (XI (XI (XI (XO (XI (XI
    (XO (XI (XI (XI XH)))))))))))))))))))))))))))))) :: ((Zpos (XO (XI (XO
    (XI (XI (XO (XO (XO (XO (XI (XO (XO (XO (XI (XI (XO (XO (XO (XO (XO (XO
    (XO (XI (XI (XI (XO (XI (XI (XI
    XH)))))))))))))))))))))))))))))) :: ((Zpos (XO (XO (XO (XI (XO (XO (XI
    (XO (XI (XO (XO (XO (XO (XO (XI (XI (XI (XI (XO (XO (XO (XO (XI (XI (XI
    (XO (XI (XI (XI XH)))))))))))))))))))))))))))))) :: ((Zpos (XI (XI (XI
    (XO (XI (XO (XI (XO (XI (XI (XI (XI (XI (XO (XO (XO (XI (XI (XI (XO (XO
    (XO (XI (XI (XI (XO (XI (XI (XI
    XH)))))))))))))))))))))))))))))) :: ((Zpos (XO (XI (XI (XO (XO (XO (XI
    (XO (XO (XO (XI (XI (XI (XI (XI (XO (XO (XI (XO (XI (XO (XO (XI (XI (XI
    (XO (XI (XI (XI XH)))))))))))))))))))))))))))))) :: ((Zpos (XO (XI (XI
    (XO (XI (XO (XO (XO (XO (XO (XO (XI (XI (XO (XI (XI (XI (XO (XI (XI (XO
    (XO (XI (XI (XI (XO (XI (XI (XI
    XH)))))))))))))))))))))))))))))) :: ((Zpos (XO (XO (XO (XI (XO (XO (XI
    (XI (XO (XI (XO (XO (XI (XI (XO (XO (XI (XO (XO (XO (XI (XO (XI (XI (XI
    (XO (XI (XI (XI XH)))))))))))))))))))))))))))))) :: ((Zpos (XI (XI (XO
    (XI (XI (XO (XI (XO (XO (XO (XI (XI (XO (XO (XO (XI (XO (XO (XI (XO (XI
    (XO (XI (XI (XI (XO (XI (XI (XI
    XH)))))))))))))))))))))))))))))) :: ((Zpos (XO (XO (XO (XO (XI (XO (XI
    (XI (XO (XO (XI (XO (XO (XI (XI (XI (XI (XI (XI (XO (XI (XO (XI (XI (XI
    (XO (XI (XI (XI XH)))))))))))))))))))))))))))))) :: ((Zpos (XO (XO (XO
    (XI (XO (XI (XO (XO (XO (XO (XI (XI (XI (XI (XO (XO (XI (XI (XO (XI (XI
    (XO (XI (XI (XI (XO (XI (XI (XI
    XH)))))))))))))))))))))))))))))) :: ((Zpos (XI (XI (XO (XO (XO (XI (XI
    (XO (XO (XI (XO (XO (XI (XO (XO (XI (XO (XI (XI (XI (XI (XO (XI (XI (XI
    (XO (XI (XI (XI XH)))))))))))))))))))))))))))))) :: ((Zpos (XO (XO (XO
    (XO (XO (XO (XO (XI (XI (XI (XI (XO (XO (XI (XI (XI (XI (XO (XO (XO (XO
    (XI (XI (XI (XI (XO (XI (XI (XI
    XH)))))))))))))))))))))))))))))) :: ((Zpos (XI (XO (XO (XO (XO (XO (XO
    (XI (XI (XI (XO (XI (XI (XI (XO (XO (XI (XO (XI (XO (XO (XI (XI (XI (XI
    (XO (XI (XI (XI XH)))))))))))))))))))))))))))))) :: ((Zpos (XI (XI (XI
    (XO (XO (XI (XI (XO (XO (XI (XI (XI (XO (XO (XO (XI (XO (XO (XO (XI (XO
    (XI (XI (XI (XI (XO (XI (XI (XI
    XH)))))))))))))))))))))))))))))) :: ((Zpos (XO (XO (XO (XO (XI (XI (XO
    (XO (XO (XO (XO (XO (XO (XI (XI (XI (XI (XI (XO (XI (XO (XI (XI (XI (XI
    (XO (XI (XI (XI XH)))))))))))))))))))))))))))))) :: ((Zpos (XO (XI (XI
    (XI (XI (XO (XI (XI (XO (XO (XO (XO (XI (XI (XO (XO (XI (XI (XI (XI (XO
    (XI (XI (XI (XI (XO (XI (XI (XI
    XH)))))))))))))))))))))))))))))) :: ((Zpos (XI (XO (XO (XO (XI (XI (XI
    (XO (XO (XO (XO (XO (XO (XO (XO (XI (XO (XI (XO (XO (XI (XI (XI (XI (XI
    (XO (XI (XI (XI XH)))))))))))))))))))))))))))))) :: ((Zpos (XI (XO (XO
    (XI (XO (XI (XI (XI (XO (XI (XI (XI (XO (XO (XI (XI (XI (XO (XI (XO (XI
    (XI (XI (XI (XI (XO (XI (XI (XI
    XH)))))))))))))))))))))))))))))) :: ((Zpos (XI (XI (XI (XO (XO (XO (XI
    (XO (XO (XO (XI (XI (XI (XO (XO (XO (XI (XO (XO (XI (XI (XI (XI (XI (XI
    (XO (XI (XI (XI XH)))))))))))))))))))))))))))))) :: ((Zpos (XO (XO (XI
    (XI (XO (XO (XO (XI (XO (XO (XO (XI (XO (XI (XI (XO (XO (XO (XI (XI (XI
    (XI (XI (XI (XI (XO (XI (XI (XI
    XH)))))))))))))))))))))))))))))) :: ((Zpos (XO (XI (XI (XO (XI (XI (XO
    (XI (XI (XI (XO (XO (XI (XI (XO (XI (XI (XI (XI (XI (XI (XI (XI (XI (XI
    (XO (XI (XI (XI XH)))))))))))))))))))))))))))))) :: ((Zpos (XO (XO (XI
    (XO (XO (XI (XI (XI (XO (XI (XI (XI (XI (XI (XI (XO (XI (XO (XO (XO (XO
    (XO (XO (XO (XO (XI (XI (XI (XI
    XH)))))))))))))))))))))))))))))) :: ((Zpos (XO (XO (XO (XO (XO (XI (XI
    (XO (XI (XI (XO (XO (XO (XI (XO (XO (XI (XI (XO (XO (XO (XO (XO (XO (XO
    (XI (XI (XI (XI XH)))))))))))))))))))))))))))))) :: ((Zpos (XI (XO (XO
    (XO (XI (XO (XI (XO (XI (XI (XI (XO (XO (XO (XI (XI (XO (XO (XI (XO (XO
    (XO (XO (XO (XO (XI (XI (XI (XI
    XH)))))))))))))))))))))))))))))) :: ((Zpos (XI (XO (XI (XO (XI (XI (XO
    (XI (XO (XI (XO (XI (XO (XI (XI (XO (XO (XI (XI (XO (XO (XO (XO (XO (XO
    (XI (XI (XI (XI XH)))))))))))))))))))))))))))))) :: ((Zpos (XI (XO (XI
    (XI (XO (XO (XO (XI (XI (XO (XI (XI (XO (XO (XO (XO (XO (XO (XO (XI (XO
    (XO (XO (XO (XO (XI (XI (XI (XI
    XH)))))))))))))))))))))))))))))) :: ((Zpos (XO (XI (XO (XI (XI (XO (XI
    (XI (XI (XI (XI (XI (XO (XI (XO (XI (XI (XO (XO (XI (XO (XO (XO (XO (XO
    (XI (XI (XI (XI XH)))))))))))))))))))))))))))))) :: ((Zpos (XI (XI (XO
    (XI (XI (XO (XO (XI (XI (XO (XO (XO (XI (XO (XI (XO (XI (XI (XO (XI (XO
    (XO (XO (XO (XO (XI (XI (XI (XI
    XH)))))))))))))))))))))))))))))) :: ((Zpos (XI (XO (XO (XO (XI (XO (XI
    (XI (XO (XI (XO (XO (XI (XI (XI (XI (XO (XO (XI (XI (XO (XO (XO (XO (XO
    (XI (XI (XI (XI XH)))))))))))))))))))))))))))))) :: ((Zpos (XO (XO (XI
    (XI (XI (XI (XI (XO (XI (XI (XO (XO (XI (XO (XO (XI (XO (XI (XI (XI (XO
    (XO (XO (XO (XO (XI (XI (XI (XI
    XH)))))))))))))))))))))))))))))) :: ((Zpos (XO (XO (XI (XI (XI (XO (XO
    (XI (XI (XI (XO (XO (XI (XI (XO (XO (XO (XO (XO (XO (XI (XO (XO (XO (XO
    (XI (XI (XI (XI XH)))))))))))))))))))))))))))))) :: ((Zpos (XI (XO (XO
    (XO (XI (XI (XO (XO (XI (XI (XO (XO (XI (XO (XI (XI (XI (XO (XO (XO (XI
    (XO (XO (XO (XO (XI (XI (XI (XI
    XH)))))))))))))))))))))))))))))) :: ((Zpos (XI (XI (XO (XI (XI (XI (XO
    (XO (XO (XI (XO (XO (XI (XI (XI (XO (XI (XI (XO (XO (XI (XO (XO (XO (XO
    (XI (XI (XI (XI XH)))))))))))))))))))))))))))))) :: ((Zpos (XI (XI (XO
    (XI (XI (XI (XO (XI (XO (XO (XO (XO (XI (XO (XO (XO (XI (XO (XI (XO (XI
    (XO (XO (XO (XO (XI (XI (XI (XI
    XH)))))))))))))))))))))))))))))) :: ((Zpos (XI (XO (XO (XO (XI (XI (XO
    (XI (XO (XI (XI (XI (XO (XI (XO (XI (XO (XI (XI (XO (XI (XO (XO (XO (XO
    (XI (XI (XI (XI XH)))))))))))))))))))))))))))))) :: ((Zpos (XI (XO (XI
    (XI (XI (XO (XO (XO (XO (XO (XI (XI (XO (XO (XI (XO (XO (XO (XO (XI (XI
    (XO (XO (XO (XO (XI (XI (XI (XI
    XH)))))))))))))))))))))))))))))) :: ((Zpos (XI (XI (XI (XI (XI (XI (XI
    (XI (XO (XO (XO (XI (XO (XI (XI (XI (XI (XO (XO (XI (XI (XO (XO (XO (XO
    (XI (XI (XI (XI XH)))))))))))))))))))))))))))))) :: ((Zpos (XO (XO (XO
    (XI (XI (XO (XI (XO (XI (XO (XI (XO (XO (XO (XO (XI (XI (XI (XO (XI (XI
    (XO (XO (XO (XO (XI (XI (XI (XI
    XH)))))))))))))))))))))))))))))) :: ((Zpos (XI (XI (XI (XO (XO (XI (XO
    (XO (XI (XO (XO (XO (XO (XI (XO (XO (XI (XO (XI (XI (XI (XO (XO (XO (XO
    (XI (XI (XI (XI XH)))))))))))))))))))))))))))))) :: ((Zpos (XO (XO (XI
    (XI (XO (XI (XI (XO (XO (XO (XI (XI (XI (XI (XO (XI (XO (XI (XI (XI (XI
    (XO (XO (XO (XO (XI (XI (XI (XI
    XH)))))))))))))))))))))))))))))) :: ((Zpos (XO (XO (XO (XI (XO (XI (XO
    (XO (XI (XI (XI (XO (XI (XO (XI (XO (XO (XO (XO (XO (XO (XI (XO (XO (XO
    (XI (XI (XI (XI XH)))))))))))))))))))))))))))))) :: ((Zpos (XO (XO (XI
    (XI (XI (XO (XI (XO (XI (XO (XO (XO (XI (XI (XI (XI (XI (XO (XO (XO (XO
    (XI (XO (XO (XO (XI (XI (XI (XI
    XH)))))))))))))))))))))))))))))) :: ((Zpos (XI (XI (XI (XO (XO (XO (XO
    (XO (XI (XI (XO (XI (XO (XO (XO (XI (XI (XI (XO (XO (XO (XI (XO (XO (XO
    (XI (XI (XI (XI XH)))))))))))))))))))))))))))))) :: ((Zpos (XI (XO (XO
    (XI (XO (XI (XO (XO (XO (XO (XI (XO (XO (XI (XO (XO (XI (XO (XI (XO (XO
    (XI (XO (XO (XO (XI (XI (XI (XI
    XH)))))))))))))))))))))))))))))) :: ((Zpos (XO (XI (XO (XO (XO (XO (XI
    (XI (XO (XO (XI (XI (XI (XI (XO (XI (XO (XI (XI (XO (XO (XI (XO (XO (XO
    (XI (XI (XI (XI XH)))))))))))))))))))))))))))))) :: ((Zpos (XO (XO (XI
    (XO (XI (XO (XI (XI (XO (XO (XI (XO (XI (XO (XI (XO (XO (XO (XO (XI (XO
    (XI (XO (XO (XO (XI (XI (XI (XI
    XH)))))))))))))))))))))))))))))) :: ((Zpos (XI (XO (XI (XI (XI (XO (XI
    (XO (XO (XO (XI (XI (XO (XI (XI (XI (XI (XO (XO (XI (XO (XI (XO (XO (XO
    (XI (XI (XI (XI XH)))))))))))))))))))))))))))))) :: ((Zpos (XI (XI (XI
    (XI (XI (XO (XI (XO (XI (XI (XO (XO (XO (XO (XO (XI (XI (XI (XO (XI (XO
    (XI (XO (XO (XO (XI (XI (XI (XI
    XH)))))))))))))))))))))))))))))) :: ((Zpos (XO (XO (XO (XI (XI (XO (XI
    (XI (XI (XO (XO (XI (XI (XO (XO (XO (XI (XO (XI (XI (XO (XI (XO (XO (XO
    (XI (XI (XI (XI XH)))))))))))))))))))))))))))))) :: ((Zpos (XI (XI (XO
    (XI (XO (XO (XI (XI (XI (XI (XI (XI (XO (XI (XO (XI (XO (XI (XI (XI (XO
    (XI (XO (XO (XO (XI (XI (XI (XI
    XH)))))))))))))))))))))))))))))) :: ((Zpos (XI (XO (XI (XO (XI (XI (XO
    (XO (XI (XO (XI (XO (XO (XO (XI (XO (XO (XO (XO (XO (XI (XI (XO (XO (XO
    (XI (XI (XI (XI XH)))))))))))))))))))))))))))))) :: ((Zpos (XI (XO (XO
    (XI (XI (XO (XO (XO (XO (XI (XO (XI (XI (XO (XI (XI (XI (XO (XO (XO (XI
    (XI (XO (XO (XO (XI (XI (XI (XI
    XH)))))))))))))))))))))))))))))) :: ((Zpos (XO (XI (XI (XO (XI (XI (XI
    (XO (XO (XI (XI (XI (XO (XI (XI (XO (XI (XI (XO (XO (XI (XI (XO (XO (XO
    (XI (XI (XI (XI XH)))))))))))))))))))))))))))))) :: ((Zpos (XO (XO (XI
    (XI (XO (XO (XI (XO (XO (XI (XO (XO (XO (XO (XO (XO (XI (XO (XI (XO (XI
    (XI (XO (XO (XO (XI (XI (XI (XI
    XH)))))))))))))))))))))))))))))) :: ((Zpos (XI (XI (XO (XI (XI (XO (XO
    (XI (XI (XO (XI (XO (XI (XO (XO (XI (XO (XI (XI (XO (XI (XI (XO (XO (XO
    (XI (XI (XI (XI XH)))))))))))))))))))))))))))))) :: ((Zpos (XO (XO (XI
    (XO (XO (XI (XI (XO (XO (XO (XO (XI (XO (XI (XO (XO (XO (XO (XO (XI (XI
    (XI (XO (XO (XO (XI (XI (XI (XI
    XH)))))))))))))))))))))))))))))) :: ((Zpos (XO (XI (XI (XO (XO (XI (XO
    (XI (XO (XI (XO (XI (XI (XI (XO (XI (XI (XO (XO (XI (XI (XI (XO (XO (XO
    (XI (XI (XI (XI XH)))))))))))))))))))))))))))))) :: ((Zpos (XO (XI (XO
    (XO (XO (XI (XI (XO (XO (XO (XI (XI (XO (XO (XI (XO (XI (XI (XO (XI (XI
    (XI (XO (XO (XO (XI (XI (XI (XI
    XH)))))))))))))))))))))))))))))) :: ((Zpos (XI (XO (XO (XI (XI (XO (XO
    (XI (XI (XO (XI (XI (XI (XO (XI (XI (XO (XO (XI (XI (XI (XI (XO (XO (XO
    (XI (XI (XI (XI XH)))))))))))))))))))))))))))))) :: ((Zpos (XI (XO (XO
    (XI (XO (XO (XI (XO (XO (XI (XI (XI (XO (XI (XI (XO (XO (XI (XI (XI (XI
    (XI (XO (XO (XO (XI (XI (XI (XI
    XH)))))))))))))))))))))))))))))) :: ((Zpos (XO (XO (XI (XO (XI (XI (XI
    (XO (XO (XI (XI (XI (XI (XI (XI (XI (XI (XI (XI (XI (XI (XI (XO (XO (XO
    (XI (XI (XI (XI XH)))))))))))))))))))))))))))))) :: ((Zpos (XI (XO (XO
    (XI (XI (XO (XO (XO (XO (XI (XI (XI (XO (XO (XO (XI (XI (XO (XO (XO (XO
    (XO (XI (XO (XO (XI (XI (XI (XI
    XH)))))))))))))))))))))))))))))) :: ((Zpos (XO (XI (XO (XI (XI (XI (XO
    (XO (XI (XO (XI (XI (XI (XO (XO (XO (XI (XI (XO (XO (XO (XO (XI (XO (XO
    (XI (XI (XI (XI XH)))))))))))))))))))))))))))))) :: ((Zpos (XI (XO (XI
    (XO (XI (XO (XI (XI (XI (XI (XO (XI (XO (XI (XO (XI (XO (XO (XI (XO (XO
    (XO (XI (XO (XO (XI (XI (XI (XI
    XH)))))))))))))))))))))))))))))) :: ((Zpos (XI (XI (XO (XI (XO (XI (XI
    (XI (XI (XO (XO (XI (XI (XI (XO (XO (XO (XI (XI (XO (XO (XO (XI (XO (XO
    (XI (XI (XI (XI XH)))))))))))))))))))))))))))))) :: ((Zpos (XI (XO (XI
    (XI (XI (XI (XI (XO (XI (XI (XI (XO (XO (XO (XI (XI (XI (XI (XI (XO (XO
    (XO (XI (XO (XO (XI (XI (XI (XI
    XH)))))))))))))))))))))))))))))) :: ((Zpos (XO (XI (XO (XI (XO (XO (XO
    (XI (XO (XO (XI (XO (XI (XO (XI (XO (XI (XO (XO (XI (XO (XO (XI (XO (XO
    (XI (XI (XI (XI XH)))))))))))))))))))))))))))))) :: ((Zpos (XO (XI (XO
    (XO (XI (XO (XO (XO (XI (XO (XO (XO (XO (XI (XI (XI (XO (XI (XO (XI (XO
    (XO (XI (XO (XO (XI (XI (XI (XI
    XH)))))))))))))))))))))))))))))) :: ((Zpos (XO (XI (XI (XO (XI (XO (XO
    (XO (XI (XO (XI (XI (XO (XI (XI (XO (XO (XO (XI (XI (XO (XO (XI (XO (XO
    (XI (XI (XI (XI XH)))))))))))))))))))))))))))))) :: ((Zpos (XI (XI (XI
    (XO (XI (XO (XO (XI (XO (XO (XO (XI (XI (XI (XI (XI (XI (XO (XI (XI (XO
    (XO (XI (XO (XO (XI (XI (XI (XI
    XH)))))))))))))))))))))))))))))) :: ((Zpos (XI (XI (XO (XO (XI (XO (XO
    (XI (XI (XI (XO (XO (XO (XO (XO (XI (XI (XI (XI (XI (XO (XO (XI (XO (XO
    (XI (XI (XI (XI XH)))))))))))))))))))))))))))))) :: ((Zpos (XO (XO (XI
    (XI (XO (XO (XO (XO (XO (XI (XI (XI (XO (XO (XO (XO (XI (XO (XO (XO (XI
    (XO (XI (XO (XO (XI (XI (XI (XI
    XH)))))))))))))))))))))))))))))) :: ((Zpos (XI (XO (XO (XO (XO (XO (XO
    (XO (XO (XO (XO (XI (XI (XO (XO (XI (XO (XI (XO (XO (XI (XO (XI (XO (XO
    (XI (XI (XI (XI XH)))))))))))))))))))))))))))))) :: ((Zpos (XI (XI (XO
    (XO (XI (XI (XI (XO (XI (XO (XO (XO (XO (XI (XO (XO (XO (XO (XI (XO (XI
    (XO (XI (XO (XO (XI (XI (XI (XI
    XH)))))))))))))))))))))))))))))) :: ((Zpos (XI (XO (XO (XO (XO (XI (XI
    (XO (XO (XI (XO (XI (XO (XI (XO (XI (XI (XO (XI (XO (XI (XO (XI (XO (XO
    (XI (XI (XI (XI XH)))))))))))))))))))))))))))))) :: ((Zpos (XI (XO (XI
    (XI (XO (XO (XI (XI (XO (XI (XO (XO (XI (XI (XO (XO (XI (XI (XI (XO (XI
    (XO (XI (XO (XO (XI (XI (XI (XI
    XH)))))))))))))))))))))))))))))) :: ((Zpos (XO (XI (XI (XO (XI (XI (XO
    (XI (XO (XI (XO (XI (XI (XI (XO (XI (XO (XO (XO (XI (XI (XO (XI (XO (XO
    (XI (XI (XI (XI XH)))))))))))))))))))))))))))))) :: ((Zpos (XO (XO (XI
    (XI (XI (XO (XO (XO (XO (XI (XO (XO (XO (XO (XI (XO (XO (XI (XO (XI (XI
    (XO (XI (XO (XO (XI (XI (XI (XI
    XH)))))))))))))))))))))))))))))) :: ((Zpos (XI (XI (XI (XI (XI (XI (XI
    (XI (XO (XO (XO (XI (XO (XO (XI (XI (XI (XI (XO (XI (XI (XO (XI (XO (XO
    (XI (XI (XI (XI XH)))))))))))))))))))))))))))))) :: ((Zpos (XO (XO (XO
    (XO (XO (XI (XI (XO (XI (XI (XI (XI (XO (XO (XI (XO (XI (XO (XI (XI (XI
    (XO (XI (XO (XO (XI (XI (XI (XI
    XH)))))))))))))))))))))))))))))) :: ((Zpos (XI (XI (XI (XI (XI (XI (XO
    (XO (XI (XO (XI (XO (XI (XO (XI (XI (XO (XI (XI (XI (XI (XO (XI (XO (XO
    (XI (XI (XI (XI XH)))))))))))))))))))))))))))))) :: ((Zpos (XO (XO (XI
    (XI (XI (XO (XO (XI (XO (XI (XO (XI (XI (XO (XI (XO (XO (XO (XO (XO (XO
    (XI (XI (XO (XO (XI (XI (XI (XI
    XH)))))))))))))))))))))))))))))) :: ((Zpos (XO (XO (XO (XI (XI (XI (XI
    (XO (XI (XI (XI (XI (XI (XO (XI (XI (XI (XO (XO (XO (XO (XI (XI (XO (XO
    (XI (XI (XI (XI XH)))))))))))))))))))))))))))))) :: ((Zpos (XI (XO (XO
    (XO (XI (XO (XI (XI (XI (XI (XO (XO (XO (XI (XI (XO (XI (XI (XO (XO (XO
    (XI (XI (XO (XO (XI (XI (XI (XI
    XH)))))))))))))))))))))))))))))) :: ((Zpos (XI (XO (XO (XI (XO (XI (XO
    (XI (XI (XI (XI (XO (XO (XI (XI (XI (XO (XO (XI (XO (XO (XI (XI (XO (XO
    (XI (XI (XI (XI XH)))))))))))))))))))))))))))))) :: ((Zpos (XO (XO (XO
    (XO (XO (XO (XO (XO (XI (XI (XO (XI (XO (XI (XI (XO (XO (XI (XI (XO (XO
    (XI (XI (XO (XO (XI (XI (XI (XI
    XH)))))))))))))))))))))))))))))) :: ((Zpos (XO (XI (XI (XO (XI (XO (XI
    (XI (XI (XO (XI (XI (XO (XI (XI (XI (XI (XI (XI (XO (XO (XI (XI (XO (XO
    (XI (XI (XI (XI XH)))))))))))))))))))))))))))))) :: ((Zpos (XO (XI (XO
    (XI (XO (XI (XO (XO (XO (XO (XO (XO (XI (XI (XI (XO (XI (XO (XO (XI (XO
    (XI (XI (XO (XO (XI (XI (XI (XI
    XH)))))))))))))))))))))))))))))) :: ((Zpos (XO (XI (XI (XI (XI (XI (XI
    (XI (XI (XO (XO (XO (XI (XI (XI (XI (XO (XI (XO (XI (XO (XI (XI (XO (XO
    (XI (XI (XI (XI XH)))))))))))))))))))))))))))))) :: ((Zpos (XI (XO (XO
    (XO (XI (XO (XI (XO (XI (XI (XO (XO (XI (XI (XI (XO (XO (XO (XI (XI (XO
    (XI (XI (XO (XO (XI (XI (XI (XI
    XH)))))))))))))))))))))))))))))) :: ((Zpos (XO (XO (XI (XO (XO (XI (XO
    (XO (XO (XO (XI (XO (XI (XI (XI (XI (XI (XO (XI (XI (XO (XI (XI (XO (XO
    (XI (XI (XI (XI XH)))))))))))))))))))))))))))))) :: ((Zpos (XO (XI (XI
    (XO (XI (XI (XI (XO (XO (XO (XI (XO (XI (XI (XI (XO (XI (XI (XI (XI (XO
    (XI (XI (XO (XO (XI (XI (XI (XI
    XH)))))))))))))))))))))))))))))) :: ((Zpos (XO (XO (XO (XI (XO (XO (XI
    (XO (XO (XO (XI (XO (XI (XI (XI (XI (XO (XO (XO (XO (XI (XI (XI (XO (XO
    (XI (XI (XI (XI XH)))))))))))))))))))))))))))))) :: ((Zpos (XO (XI (XO
    (XI (XI (XO (XO (XI (XI (XI (XO (XO (XI (XI (XI (XO (XO (XI (XO (XO (XI
    (XI (XI (XO (XO (XI (XI (XI (XI
    XH)))))))))))))))))))))))))))))) :: ((Zpos (XI (XO (XI (XI (XO (XI (XI
    (XO (XO (XI (XO (XO (XI (XI (XI (XI (XI (XI (XO (XO (XI (XI (XI (XO (XO
    (XI (XI (XI (XI XH)))))))))))))))))))))))))))))) :: ((Zpos (XO (XO (XO
    (XO (XO (XO (XI (XI (XO (XO (XO (XO (XI (XI (XI (XO (XI (XO (XI (XO (XI
    (XI (XI (XO (XO (XI (XI (XI (XI
    XH)))))))))))))))))))))))))))))) :: ((Zpos (XI (XI (XO (XO (XI (XO (XO
    (XI (XO (XI (XI (XI (XO (XI (XI (XI (XO (XI (XI (XO (XI (XI (XI (XO (XO
    (XI (XI (XI (XI XH)))))))))))))))))))))))))))))) :: ((Zpos (XI (XI (XI
    (XO (XO (XI (XI (XI (XI (XI (XO (XI (XO (XI (XI (XO (XO (XO (XO (XI (XI
    (XI (XI (XO (XO (XI (XI (XI (XI
    XH)))))))))))))))))))))))))))))) :: ((Zpos (XI (XI (XO (XI (XI (XI (XO
    (XI (XO (XO (XO (XI (XO (XI (XI (XI (XI (XO (XO (XI (XI (XI (XI (XO (XO
    (XI (XI (XI (XI XH)))))))))))))))))))))))))))))) :: ((Zpos (XI (XO (XO
    (XO (XI (XO (XO (XO (XI (XO (XI (XO (XO (XI (XI (XO (XI (XI (XO (XI (XI
    (XI (XI (XO (XO (XI (XI (XI (XI
    XH)))))))))))))))))))))))))))))) :: ((Zpos (XO (XO (XO (XI (XO (XI (XI
    (XI (XO (XO (XO (XO (XO (XI (XI (XI (XO (XO (XI (XI (XI (XI (XI (XO (XO
    (XI (XI (XI (XI XH)))))))))))))))))))))))))))))) :: ((Zpos (XI (XO (XO
    (XO (XO (XO (XI (XO (XO (XO (XI (XI (XI (XO (XI (XO (XO (XI (XI (XI (XI
    (XI (XI (XO (XO (XI (XI (XI (XI
    XH)))))))))))))))))))))))))))))) :: ((Zpos (XO (XI (XO (XI (XI (XO (XO
    (XO (XI (XI (XI (XO (XI (XO (XI (XI (XI (XI (XI (XI (XI (XI (XI (XO (XO
    (XI (XI (XI (XI XH)))))))))))))))))))))))))))))) :: ((Zpos (XI (XI (XO
    (XI (XI (XI (XO (XI (XO (XO (XO (XI (XO (XI (XO (XI (XO (XO (XO (XO (XO
    (XO (XO (XI (XO (XI (XI (XI (XI
    XH)))))))))))))))))))))))))))))) :: ((Zpos (XO (XI (XO (XI (XO (XI (XO
    (XI (XI (XO (XI (XO (XO (XI (XI (XO (XI (XO (XO (XO (XO (XO (XO (XI (XO
    (XI (XI (XI (XI XH)))))))))))))))))))))))))))))) :: ((Zpos (XI (XO (XO
    (XI (XI (XO (XI (XO (XO (XI (XO (XO (XO (XI (XO (XO (XO (XI (XO (XO (XO
    (XO (XO (XI (XO (XI (XI (XI (XI
    XH)))))))))))))))))))))))))))))) :: ((Zpos (XO (XI (XO (XI (XO (XO (XI
    (XI (XO (XI (XI (XI (XI (XO (XI (XI (XO (XI (XO (XO (XO (XO (XO (XI (XO
    (XI (XI (XI (XI XH)))))))))))))))))))))))))))))) :: ((Zpos (XO (XO (XI
    (XI (XI (XI (XI (XI (XO (XI (XO (XI (XI (XO (XO (XI (XI (XI (XO (XO (XO
    (XO (XO (XI (XO (XI (XI (XI (XI
    XH)))))))))))))))))))))))))))))) :: ((Zpos (XI (XI (XI (XI (XO (XI (XI
    (XI (XO (XI (XI (XO (XI (XO (XI (XO (XO (XO (XI (XO (XO (XO (XO (XI (XO
    (XI (XI (XI (XI XH)))))))))))))))))))))))))))))) :: ((Zpos (XO (XO (XI
    (XO (XO (XI (XO (XI (XO (XI (XO (XO (XI (XO (XO (XO (XI (XO (XI (XO (XO
    (XO (XO (XI (XO (XI (XI (XI (XI
    XH)))))))))))))))))))))))))))))) :: ((Zpos (XO (XI (XO (XI (XI (XO (XO
    (XO (XO (XI (XI (XI (XO (XO (XI (XI (XI (XO (XI (XO (XO (XO (XO (XI (XO
    (XI (XI (XI (XI XH)))))))))))))))))))))))))))))) :: ((Zpos (XI (XO (XO
    (XO (XI (XO (XI (XO (XI (XO (XO (XI (XO (XO (XO (XI (XO (XI (XI (XO (XO
    (XO (XO (XI (XO (XI (XI (XI (XI
    XH)))))))))))))))))))))))))))))) :: ((Zpos (XO (XI (XO (XI (XO (XO (XI
    (XO (XO (XO (XI (XO (XO (XO (XI (XO (XI (XI (XI (XO (XO (XO (XO (XI (XO
    (XI (XI (XI (XI XH)))))))))))))))))))))))))))))) :: ((Zpos (XI (XO (XI
    (XO (XO (XO (XO (XO (XI (XI (XI (XI (XI (XI (XI (XI (XI (XI (XI (XO (XO
    (XO (XO (XI (XO (XI (XI (XI (XI
    XH)))))))))))))))))))))))))))))) :: ((Zpos (XI (XO (XO (XO (XO (XO (XO
    (XI (XI (XO (XO (XI (XI (XI (XO (XI (XO (XO (XO (XI (XO (XO (XO (XI (XO
    (XI (XI (XI (XI XH)))))))))))))))))))))))))))))) :: ((Zpos (XI (XI (XI
    (XI (XI (XI (XO (XI (XI (XI (XO (XO (XI (XI (XI (XO (XI (XO (XO (XI (XO
    (XO (XO (XI (XO (XI (XI (XI (XI
    XH)))))))))))))))))))))))))))))) :: ((Zpos (XI (XI (XI (XI (XI (XI (XO
    (XI (XI (XO (XI (XI (XO (XI (XO (XO (XO (XI (XO (XI (XO (XO (XO (XI (XO
    (XI (XI (XI (XI XH)))))))))))))))))))))))))))))) :: ((Zpos (XI (XO (XO
    (XO (XO (XO (XO (XI (XI (XI (XI (XO (XO (XI (XI (XI (XO (XI (XO (XI (XO
    (XO (XO (XI (XO (XI (XI (XI (XI
    XH)))))))))))))))))))))))))))))) :: ((Zpos (XI (XO (XI (XO (XO (XO (XO
    (XO (XI (XO (XO (XO (XO (XI (XO (XI (XI (XI (XO (XI (XO (XO (XO (XI (XO
    (XI (XI (XI (XI XH)))))))))))))))))))))))))))))) :: ((Zpos (XO (XO (XI
    (XI (XO (XO (XI (XO (XO (XI (XO (XI (XI (XO (XI (XO (XO (XO (XI (XI (XO
    (XO (XO (XI (XO (XI (XI (XI (XI
    XH)))))))))))))))))))))))))))))) :: ((Zpos (XO (XO (XI (XO (XI (XO (XI
    (XO (XI (XI (XO (XO (XI (XO (XO (XO (XI (XO (XI (XI (XO (XO (XO (XI (XO
    (XI (XI (XI (XI XH)))))))))))))))))))))))))))))) :: ((Zpos (XI (XI (XI
    (XI (XI (XO (XO (XO (XO (XO (XI (XI (XO (XO (XI (XI (XI (XO (XI (XI (XO
    (XO (XO (XI (XO (XI (XI (XI (XI
    XH)))))))))))))))))))))))))))))) :: ((Zpos (XO (XO (XI (XI (XO (XI (XO
    (XI (XO (XO (XI (XO (XO (XO (XO (XI (XO (XI (XI (XI (XO (XO (XO (XI (XO
    (XI (XI (XI (XI XH)))))))))))))))))))))))))))))) :: ((Zpos (XO (XO (XI
    (XI (XI (XI (XI (XI (XO (XO (XI (XI (XI (XI (XO (XO (XI (XI (XI (XI (XO
    (XO (XO (XI (XO (XI (XI (XI (XI
    XH)))))))))))))))))))))))))))))) :: ((Zpos (XO (XI (XI (XI (XO (XO (XO
    (XO (XI (XO (XI (XO (XI (XI (XI (XI (XI (XI (XI (XI (XO (XO (XO (XI (XO
    (XI (XI (XI (XI XH)))))))))))))))))))))))))))))) :: ((Zpos (XI (XI (XO
    (XO (XO (XI (XI (XI (XO (XO (XI (XI (XO (XI (XO (XI (XO (XO (XO (XO (XI
    (XO (XO (XI (XO (XI (XI (XI (XI
    XH)))))))))))))))))))))))))))))) :: ((Zpos (XO (XI (XO (XI (XI (XI (XI
    (XO (XO (XO (XI (XO (XO (XI (XI (XO (XI (XO (XO (XO (XI (XO (XO (XI (XO
    (XI (XI (XI (XI XH)))))))))))))))))))))))))))))) :: ((Zpos (XI (XO (XI
    (XO (XI (XO (XI (XI (XI (XI (XO (XI (XI (XO (XO (XO (XO (XI (XO (XO (XI
    (XO (XO (XI (XO (XI (XI (XI (XI
    XH)))))))))))))))))))))))))))))) :: ((Zpos (XO (XI (XO (XO (XI (XI (XI
    (XI (XO (XI (XO (XO (XI (XO (XI (XI (XO (XI (XO (XO (XI (XO (XO (XI (XO
    (XI (XI (XI (XI XH)))))))))))))))))))))))))))))) :: ((Zpos (XO (XI (XO
    (XO (XI (XO (XI (XI (XI (XO (XO (XI (XO (XO (XO (XI (XI (XI (XO (XO (XI
    (XO (XO (XI (XO (XI (XI (XI (XI
    XH)))))))))))))))))))))))))))))) :: ((Zpos (XI (XO (XI (XO (XI (XI (XI
    (XO (XO (XO (XO (XO (XO (XO (XI (XO (XO (XO (XI (XO (XI (XO (XO (XI (XO
    (XI (XI (XI (XI XH)))))))))))))))))))))))))))))) :: ((Zpos (XI (XI (XO
    (XI (XI (XO (XI (XI (XO (XI (XI (XO (XI (XI (XI (XI (XO (XO (XI (XO (XI
    (XO (XO (XI (XO (XI (XI (XI (XI
    XH)))))))))))))))))))))))))))))) :: ((Zpos (XI (XO (XI (XO (XO (XO (XO
    (XO (XI (XO (XI (XI (XO (XI (XO (XI (XI (XO (XI (XO (XI (XO (XO (XI (XO
    (XI (XI (XI (XI XH)))))))))))))))))))))))))))))) :: ((Zpos (XI (XO (XO
    (XO (XI (XI (XI (XI (XO (XI (XO (XO (XO (XI (XI (XO (XO (XI (XI (XO (XI
    (XO (XO (XI (XO (XI (XI (XI (XI
    XH)))))))))))))))))))))))))))))) :: ((Zpos (XI (XO (XO (XO (XO (XI (XO
    (XI (XO (XO (XO (XI (XI (XO (XO (XO (XI (XI (XI (XO (XI (XO (XO (XI (XO
    (XI (XI (XI (XI XH)))))))))))))))))))))))))))))) :: ((Zpos (XI (XO (XI
    (XO (XI (XO (XO (XO (XO (XI (XI (XI (XO (XO (XI (XI (XI (XI (XI (XO (XI
    (XO (XO (XI (XO (XI (XI (XI (XI
    XH)))))))))))))))))))))))))))))) :: ((Zpos (XO (XO (XI (XI (XO (XO (XI
    (XO (XI (XI (XO (XO (XO (XO (XO (XI (XO (XO (XO (XI (XI (XO (XO (XI (XO
    (XI (XI (XI (XI XH)))))))))))))))))))))))))))))) :: ((Zpos (XO (XI (XI
    (XO (XO (XO (XI (XO (XO (XO (XO (XI (XI (XI (XO (XO (XI (XO (XO (XI (XI
    (XO (XO (XI (XO (XI (XI (XI (XI
    XH)))))))))))))))))))))))))))))) :: ((Zpos (XO (XO (XI (XO (XO (XO (XO
    (XO (XI (XO (XI (XI (XO (XI (XI (XI (XI (XO (XO (XI (XI (XO (XO (XI (XO
    (XI (XI (XI (XI XH)))))))))))))))))))))))))))))) :: ((Zpos (XO (XI (XI
    (XO (XO (XO (XO (XI (XI (XO (XO (XO (XO (XI (XO (XI (XO (XI (XO (XI (XI
    (XO (XO (XI (XO (XI (XI (XI (XI
    XH)))))))))))))))))))))))))))))) :: ((Zpos (XO (XO (XI (XI (XO (XO (XI
    (XI (XI (XO (XI (XO (XI (XO (XI (XO (XI (XI (XO (XI (XI (XO (XO (XI (XO
    (XI (XI (XI (XI XH)))))))))))))))))))))))))))))) :: ((Zpos (XI (XO (XI
    (XO (XI (XO (XI (XI (XI (XO (XO (XI (XO (XO (XO (XO (XO (XO (XI (XI (XI
    (XO (XO (XI (XO (XI (XI (XI (XI
    XH)))))))))))))))))))))))))))))) :: ((Zpos (XI (XI (XO (XO (XO (XI (XO
    (XI (XI (XO (XI (XI (XI (XI (XO (XI (XO (XO (XI (XI (XI (XO (XO (XI (XO
    (XI (XI (XI (XI XH)))))))))))))))))))))))))))))) :: ((Zpos (XO (XO (XI
    (XO (XI (XI (XO (XO (XI (XO (XO (XO (XI (XI (XI (XO (XI (XO (XI (XI (XI
    (XO (XO (XI (XO (XI (XI (XI (XI
    XH)))))))))))))))))))))))))))))) :: ((Zpos (XO (XI (XO (XI (XO (XO (XO
    (XI (XO (XO (XI (XO (XO (XI (XO (XO (XO (XI (XI (XI (XI (XO (XO (XI (XO
    (XI (XI (XI (XI XH)))))))))))))))))))))))))))))) :: ((Zpos (XO (XO (XI
    (XO (XO (XI (XO (XI (XI (XI (XI (XO (XI (XO (XI (XI (XO (XI (XI (XI (XI
    (XO (XO (XI (XO (XI (XI (XI (XI
    XH)))))))))))))))))))))))))))))) :: ((Zpos (XO (XI (XO (XO (XO (XO (XO
    (XI (XO (XI (XO (XI (XO (XO (XO (XI (XI (XI (XI (XI (XI (XO (XO (XI (XO
    (XI (XI (XI (XI XH)))))))))))))))))))))))))))))) :: ((Zpos (XI (XO (XI
    (XO (XO (XI (XO (XO (XI (XO (XI (XI (XI (XI (XO (XO (XO (XO (XO (XO (XO
    (XI (XO (XI (XO (XI (XI (XI (XI
    XH)))))))))))))))))))))))))))))) :: ((Zpos (XO (XO (XI (XI (XO (XO (XO
    (XI (XI (XI (XI (XI (XO (XI (XI (XI (XO (XO (XO (XO (XO (XI (XO (XI (XO
    (XI (XI (XI (XI XH)))))))))))))))))))))))))))))) :: ((Zpos (XI (XI (XI
    (XO (XI (XI (XO (XI (XI (XO (XO (XO (XO (XI (XO (XI (XI (XO (XO (XO (XO
    (XI (XO (XI (XO (XI (XI (XI (XI
    XH)))))))))))))))))))))))))))))) :: ((Zpos (XI (XI (XI (XO (XO (XI (XO
    (XI (XI (XI (XO (XO (XI (XO (XI (XO (XO (XI (XO (XO (XO (XI (XO (XI (XO
    (XI (XI (XI (XI XH)))))))))))))))))))))))))))))) :: ((Zpos (XO (XO (XI
    (XI (XI (XO (XI (XO (XI (XO (XI (XO (XO (XO (XO (XO (XI (XI (XO (XO (XO
    (XI (XO (XI (XO (XI (XI (XI (XI
    XH)))))))))))))))))))))))))))))) :: ((Zpos (XO (XI (XI (XO (XI (XO (XI
    (XI (XO (XI (XI (XO (XI (XI (XO (XI (XI (XI (XO (XO (XO (XI (XO (XI (XO
    (XI (XI (XI (XI XH)))))))))))))))))))))))))))))) :: ((Zpos (XO (XO (XI
    (XO (XI (XO (XO (XO (XO (XO (XO (XI (XO (XI (XI (XO (XO (XO (XI (XO (XO
    (XI (XO (XI (XO (XI (XI (XI (XI
    XH)))))))))))))))))))))))))))))) :: ((Zpos (XI (XI (XI (XO (XI (XO (XO
    (XO (XI (XO (XO (XI (XI (XO (XO (XO (XI (XO (XI (XO (XO (XI (XO (XI (XO
    (XI (XI (XI (XI XH)))))))))))))))))))))))))))))) :: ((Zpos (XI (XI (XI
    (XI (XI (XO (XI (XI (XI (XO (XO (XI (XO (XO (XI (XI (XI (XO (XI (XO (XO
    (XI (XO (XI (XO (XI (XI (XI (XI
    XH)))))))))))))))))))))))))))))) :: ((Zpos (XI (XO (XI (XI (XO (XI (XI
    (XO (XO (XI (XO (XI (XI (XI (XI (XO (XO (XI (XI (XO (XO (XI (XO (XI (XO
    (XI (XI (XI (XI XH)))))))))))))))))))))))))))))) :: ((Zpos (XI (XI (XI
    (XI (XI (XI (XO (XI (XO (XI (XO (XI (XO (XI (XO (XO (XI (XI (XI (XO (XO
    (XI (XO (XI (XO (XI (XI (XI (XI
    XH)))))))))))))))))))))))))))))) :: ((Zpos (XI (XI (XI (XO (XI (XO (XI
    (XI (XO (XI (XO (XI (XI (XO (XI (XI (XI (XI (XI (XO (XO (XI (XO (XI (XO
    (XI (XI (XI (XI XH)))))))))))))))))))))))))))))) :: ((Zpos (XO (XO (XI
    (XO (XI (XI (XO (XI (XO (XI (XO (XI (XO (XO (XO (XI (XO (XO (XO (XI (XO
    (XI (XO (XI (XO (XI (XI (XI (XI
    XH)))))))))))))))))))))))))))))) :: ((Zpos (XO (XI (XI (XO (XI (XO (XI
    (XO (XO (XI (XO (XI (XI (XI (XO (XO (XI (XO (XO (XI (XO (XI (XO (XI (XO
    (XI (XI (XI (XI XH)))))))))))))))))))))))))))))) :: ((Zpos (XI (XO (XI
    (XI (XI (XI (XO (XI (XI (XO (XO (XI (XO (XI (XI (XI (XI (XO (XO (XI (XO
    (XI (XO (XI (XO (XI (XI (XI (XI
    XH)))))))))))))))))))))))))))))) :: ((Zpos (XI (XI (XO (XI (XO (XI (XI
    (XI (XO (XO (XO (XI (XI (XO (XO (XI (XO (XI (XO (XI (XO (XI (XO (XI (XO
    (XI (XI (XI (XI XH)))))))))))))))))))))))))))))) :: ((Zpos (XI (XO (XI
    (XI (XI (XO (XI (XI (XI (XI (XI (XO (XO (XO (XI (XO (XI (XI (XO (XI (XO
    (XI (XO (XI (XO (XI (XI (XI (XI
    XH)))))))))))))))))))))))))))))) :: ((Zpos (XO (XI (XI (XO (XI (XO (XO
    (XI (XO (XI (XI (XO (XI (XI (XI (XI (XI (XI (XO (XI (XO (XI (XO (XI (XO
    (XI (XI (XI (XI XH)))))))))))))))))))))))))))))) :: ((Zpos (XO (XO (XI
    (XO (XI (XO (XO (XO (XI (XO (XI (XO (XO (XI (XO (XI (XO (XO (XI (XI (XO
    (XI (XO (XI (XO (XI (XI (XI (XI
    XH)))))))))))))))))))))))))))))) :: ((Zpos (XO (XO (XO (XI (XI (XO (XI
    (XO (XI (XI (XO (XO (XI (XO (XI (XO (XI (XO (XI (XI (XO (XI (XO (XI (XO
    (XI (XI (XI (XI XH)))))))))))))))))))))))))))))) :: ((Zpos (XO (XI (XO
    (XO (XO (XI (XI (XO (XI (XO (XO (XO (XO (XO (XO (XO (XO (XI (XI (XI (XO
    (XI (XO (XI (XO (XI (XI (XI (XI
    XH)))))))))))))))))))))))))))))) :: ((Zpos (XO (XI (XO (XO (XI (XI (XO
    (XO (XI (XI (XI (XI (XO (XI (XO (XI (XO (XI (XI (XI (XO (XI (XO (XI (XO
    (XI (XI (XI (XI XH)))))))))))))))))))))))))))))) :: ((Zpos (XO (XO (XO
    (XI (XO (XO (XI (XI (XO (XO (XI (XI (XI (XO (XI (XO (XI (XI (XI (XI (XO
    (XI (XO (XI (XO (XI (XI (XI (XI
    XH)))))))))))))))))))))))))))))) :: ((Zpos (XO (XO (XI (XO (XO (XI (XO
    (XO (XO (XI (XO (XI (XO (XO (XO (XO (XO (XO (XO (XO (XI (XI (XO (XI (XO
    (XI (XI (XI (XI XH)))))))))))))))))))))))))))))) :: ((Zpos (XO (XI (XI
    (XO (XO (XO (XI (XO (XI (XI (XI (XO (XI (XI (XO (XI (XO (XO (XO (XO (XI
    (XI (XO (XI (XO (XI (XI (XI (XI
    XH)))))))))))))))))))))))))))))) :: ((Zpos (XO (XI (XI (XI (XO (XI (XO
    (XO (XO (XO (XI (XO (XO (XI (XI (XO (XI (XO (XO (XO (XI (XI (XO (XI (XO
    (XI (XI (XI (XI XH)))))))))))))))))))))))))))))) :: ((Zpos (XI (XO (XI
    (XI (XI (XO (XI (XI (XO (XO (XO (XO (XI (XO (XO (XO (XO (XI (XO (XO (XI
    (XI (XO (XI (XO (XI (XI (XI (XI
    XH)))))))))))))))))))))))))))))) :: ((Zpos (XI (XI (XO (XO (XI (XO (XI
    (XO (XI (XO (XI (XI (XI (XI (XO (XI (XO (XI (XO (XO (XI (XI (XO (XI (XO
    (XI (XI (XI (XI XH)))))))))))))))))))))))))))))) :: ((Zpos (XO (XI (XI
    (XI (XO (XO (XO (XI (XI (XO (XO (XI (XO (XI (XI (XO (XI (XI (XO (XO (XI
    (XI (XO (XI (XO (XI (XI (XI (XI
    XH)))))))))))))))))))))))))))))) :: ((Zpos (XI (XO (XO (XO (XI (XO (XO
    (XI (XI (XO (XI (XO (XI (XO (XO (XO (XO (XO (XI (XO (XI (XI (XO (XI (XO
    (XI (XI (XI (XI XH)))))))))))))))))))))))))))))) :: ((Zpos (XO (XI (XO
    (XI (XI (XO (XI (XO (XI (XO (XO (XO (XO (XO (XI (XI (XO (XO (XI (XO (XI
    (XI (XO (XI (XO (XI (XI (XI (XI
    XH)))))))))))))))))))))))))))))) :: ((Zpos (XI (XO (XO (XI (XO (XI (XI
    (XI (XO (XO (XI (XI (XO (XI (XI (XO (XI (XO (XI (XO (XI (XI (XO (XI (XO
    (XI (XI (XI (XI XH)))))))))))))))))))))))))))))) :: ((Zpos (XO (XO (XO
    (XO (XO (XO (XI (XO (XO (XO (XO (XI (XI (XO (XO (XO (XO (XI (XI (XO (XI
    (XI (XO (XI (XO (XI (XI (XI (XI
    XH)))))))))))))))))))))))))))))) :: ((Zpos (XI (XO (XI (XI (XI (XO (XI
    (XO (XI (XI (XO (XO (XO (XO (XI (XI (XO (XI (XI (XO (XI (XI (XO (XI (XO
    (XI (XI (XI (XI XH)))))))))))))))))))))))))))))) :: ((Zpos (XI (XO (XO
    (XO (XO (XO (XI (XO (XO (XI (XI (XI (XO (XI (XI (XO (XI (XI (XI (XO (XI
    (XI (XO (XI (XO (XI (XI (XI (XI
    XH)))))))))))))))))))))))))))))) :: ((Zpos (XI (XO (XI (XI (XO (XI (XI
    (XI (XO (XO (XO (XI (XI (XO (XO (XO (XO (XO (XO (XI (XI (XI (XO (XI (XO
    (XI (XI (XI (XI XH)))))))))))))))))))))))))))))) :: ((Zpos (XI (XI (XI
    (XI (XI (XO (XI (XO (XI (XI (XO (XO (XO (XO (XI (XI (XO (XO (XO (XI (XI
    (XI (XO (XI (XO (XI (XI (XI (XI
    XH)))))))))))))))))))))))))))))) :: ((Zpos (XI (XO (XO (XI (XI (XO (XO
    (XI (XI (XO (XI (XI (XO (XI (XI (XO (XI (XO (XO (XI (XI (XI (XO (XI (XO
    (XI (XI (XI (XI XH)))))))))))))))))))))))))))))) :: ((Zpos (XI (XO (XO
    (XI (XI (XO (XO (XI (XI (XI (XI (XO (XI (XO (XO (XO (XO (XI (XO (XI (XI
    (XI (XO (XI (XO (XI (XI (XI (XI
    XH)))))))))))))))))))))))))))))) :: ((Zpos (XO (XI (XO (XO (XO (XI (XI
    (XO (XI (XO (XO (XO (XO (XO (XI (XI (XO (XI (XO (XI (XI (XI (XO (XI (XO
    (XI (XI (XI (XI XH)))))))))))))))))))))))))))))) :: ((Zpos (XI (XO (XO
    (XO (XI (XI (XI (XI (XO (XI (XO (XI (XO (XI (XI (XO (XI (XI (XO (XI (XI
    (XI (XO (XI (XO (XI (XI (XI (XI
    XH)))))))))))))))))))))))))))))) :: ((Zpos (XO (XO (XO (XI (XO (XO (XI
    (XO (XO (XO (XI (XO (XI (XO (XO (XO (XO (XO (XI (XI (XI (XI (XO (XI (XO
    (XI (XI (XI (XI XH)))))))))))))))))))))))))))))) :: ((Zpos (XI (XI (XI
    (XO (XO (XI (XI (XO (XI (XO (XI (XI (XI (XI (XO (XI (XO (XO (XI (XI (XI
    (XI (XO (XI (XO (XI (XI (XI (XI
    XH)))))))))))))))))))))))))))))) :: ((Zpos (XI (XO (XI (XI (XO (XO (XI
    (XO (XO (XI (XI (XO (XO (XI (XI (XO (XI (XO (XI (XI (XI (XI (XO (XI (XO
    (XI (XI (XI (XI XH)))))))))))))))))))))))))))))) :: ((Zpos (XO (XI (XO
    (XI (XI (XI (XI (XI (XO (XI (XI (XI (XO (XO (XO (XO (XO (XI (XI (XI (XI
    (XI (XO (XI (XO (XI (XI (XI (XI
    XH)))))))))))))))))))))))))))))) :: ((Zpos (XO (XO (XO (XO (XI (XI (XI
    (XO (XI (XI (XI (XO (XI (XI (XO (XI (XO (XI (XI (XI (XI (XI (XO (XI (XO
    (XI (XI (XI (XI XH)))))))))))))))))))))))))))))) :: ((Zpos (XI (XO (XI
    (XI (XO (XI (XO (XI (XI (XI (XI (XI (XI (XO (XI (XO (XI (XI (XI (XI (XI
    (XI (XO (XI (XO (XI (XI (XI (XI
    XH)))))))))))))))))))))))))))))) :: ((Zpos (XI (XI (XO (XO (XI (XI (XO
    (XI (XI (XI (XI (XO (XO (XO (XO (XO (XO (XO (XO (XO (XO (XO (XI (XI (XO
    (XI (XI (XI (XI XH)))))))))))))))))))))))))))))) :: ((Zpos (XO (XO (XO
    (XO (XO (XO (XO (XI (XI (XI (XI (XI (XO (XI (XO (XI (XO (XO (XO (XO (XO
    (XO (XI (XI (XO (XI (XI (XI (XI
    XH)))))))))))))))))))))))))))))) :: ((Zpos (XI (XO (XI (XO (XI (XO (XO
    (XO (XI (XI (XI (XO (XI (XO (XI (XO (XI (XO (XO (XO (XO (XO (XI (XI (XO
    (XI (XI (XI (XI XH)))))))))))))))))))))))))))))) :: ((Zpos (XI (XI (XO
    (XO (XI (XI (XI (XO (XO (XI (XI (XI (XI (XI (XI (XI (XI (XO (XO (XO (XO
    (XO (XI (XI (XO (XI (XI (XI (XI
    XH)))))))))))))))))))))))))))))) :: ((Zpos (XO (XO (XO (XI (XI (XO (XO
    (XI (XI (XO (XI (XO (XO (XI (XO (XI (XO (XI (XO (XO (XO (XO (XI (XI (XO
    (XI (XI (XI (XI XH)))))))))))))))))))))))))))))) :: ((Zpos (XO (XI (XI
    (XO (XO (XO (XO (XI (XO (XO (XI (XI (XO (XO (XI (XO (XI (XI (XO (XO (XO
    (XO (XI (XI (XO (XI (XI (XI (XI
    XH)))))))))))))))))))))))))))))) :: ((Zpos (XO (XO (XI (XI (XI (XI (XO
    (XO (XI (XI (XO (XO (XI (XI (XI (XI (XI (XI (XO (XO (XO (XO (XI (XI (XO
    (XI (XI (XI (XI XH)))))))))))))))))))))))))))))) :: ((Zpos (XI (XI (XO
    (XI (XI (XI (XO (XI (XI (XO (XO (XI (XI (XO (XO (XI (XO (XO (XI (XO (XO
    (XO (XI (XI (XO (XI (XI (XI (XI
    XH)))))))))))))))))))))))))))))) :: ((Zpos (XO (XI (XO (XO (XO (XO (XO
    (XO (XO (XO (XO (XO (XO (XO (XI (XO (XI (XO (XI (XO (XO (XO (XI (XI (XO
    (XI (XI (XI (XI XH)))))))))))))))))))))))))))))) :: ((Zpos (XO (XI (XO
    (XO (XI (XO (XO (XO (XO (XI (XI (XO (XO (XI (XI (XI (XI (XO (XI (XO (XO
    (XO (XI (XI (XO (XI (XI (XI (XI
    XH)))))))))))))))))))))))))))))) :: ((Zpos (XO (XI (XO (XI (XO (XI (XI
    (XI (XI (XI (XO (XI (XO (XO (XO (XI (XO (XI (XI (XO (XO (XO (XI (XI (XO
    (XI (XI (XI (XI XH)))))))))))))))))))))))))))))) :: ((Zpos (XI (XI (XO
    (XI (XO (XO (XO (XI (XI (XO (XO (XO (XI (XI (XO (XO (XI (XI (XI (XO (XO
    (XO (XI (XI (XO (XI (XI (XI (XI
    XH)))))))))))))))))))))))))))))) :: ((Zpos (XI (XO (XI (XO (XI (XI (XI
    (XI (XO (XI (XI (XO (XI (XO (XI (XI (XI (XI (XI (XO (XO (XO (XI (XI (XO
    (XI (XI (XI (XI XH)))))))))))))))))))))))))))))) :: ((Zpos (XI (XI (XI
    (XO (XO (XI (XO (XO (XO (XO (XI (XI (XI (XI (XI (XO (XO (XO (XO (XI (XO
    (XO (XI (XI (XO (XI (XI (XI (XI
    XH)))))))))))))))))))))))))))))) :: ((Zpos (XI (XI (XO (XO (XO (XI (XO
    (XO (XI (XO (XO (XO (XO (XI (XO (XO (XI (XO (XO (XI (XO (XO (XI (XI (XO
    (XI (XI (XI (XI XH)))))))))))))))))))))))))))))) :: ((Zpos (XO (XO (XO
    (XI (XO (XI (XI (XI (XI (XO (XI (XO (XO (XO (XI (XI (XI (XO (XO (XI (XO
    (XO (XI (XI (XO (XI (XI (XI (XI
    XH)))))))))))))))))))))))))))))) :: ((Zpos (XI (XO (XI (XO (XI (XI (XI
    (XO (XO (XI (XO (XI (XO (XI (XI (XO (XO (XI (XO (XI (XO (XO (XI (XI (XO
    (XI (XI (XI (XI XH)))))))))))))))))))))))))))))) :: ((Zpos (XO (XO (XI
    (XI (XO (XO (XI (XI (XO (XI (XI (XI (XO (XO (XO (XO (XI (XI (XO (XI (XO
    (XO (XI (XI (XO (XI (XI (XI (XI
    XH)))))))))))))))))))))))))))))) :: ((Zpos (XO (XO (XI (XI (XO (XI (XI
    (XI (XO (XI (XO (XO (XI (XI (XO (XI (XI (XI (XO (XI (XO (XO (XI (XI (XO
    (XI (XI (XI (XI XH)))))))))))))))))))))))))))))) :: ((Zpos (XI (XO (XI
    (XO (XI (XO (XI (XI (XO (XI (XI (XO (XI (XO (XI (XO (XO (XO (XI (XI (XO
    (XO (XI (XI (XO (XI (XI (XI (XI
    XH)))))))))))))))))))))))))))))) :: ((Zpos (XI (XI (XI (XO (XO (XO (XO
    (XI (XO (XI (XO (XI (XI (XI (XI (XI (XO (XO (XI (XI (XO (XO (XI (XI (XO
    (XI (XI (XI (XI XH)))))))))))))))))))))))))))))) :: ((Zpos (XI (XI (XO
    (XO (XO (XO (XO (XO (XO (XI (XI (XI (XI (XO (XO (XI (XI (XO (XI (XI (XO
    (XO (XI (XI (XO (XI (XI (XI (XI
    XH)))))))))))))))))))))))))))))) :: ((Zpos (XI (XO (XO (XI (XO (XO (XI
    (XO (XI (XO (XO (XO (XO (XO (XI (XO (XO (XI (XI (XI (XO (XO (XI (XI (XO
    (XI (XI (XI (XI XH)))))))))))))))))))))))))))))) :: ((Zpos (XO (XO (XO
    (XI (XI (XO (XI (XO (XO (XO (XI (XO (XO (XI (XI (XI (XO (XI (XI (XI (XO
    (XO (XI (XI (XO (XI (XI (XI (XI
    XH)))))))))))))))))))))))))))))) :: ((Zpos (XO (XO (XO (XO (XI (XI (XO
    (XO (XI (XI (XI (XO (XO (XO (XO (XI (XI (XI (XI (XI (XO (XO (XI (XI (XO
    (XI (XI (XI (XI XH)))))))))))))))))))))))))))))) :: ((Zpos (XI (XI (XO
    (XO (XI (XO (XI (XI (XI (XO (XO (XI (XO (XI (XO (XO (XO (XO (XO (XO (XI
    (XO (XI (XI (XO (XI (XI (XI (XI
    XH)))))))))))))))))))))))))))))) :: ((Zpos (XI (XI (XI (XI (XI (XI (XO
    (XO (XO (XO (XI (XI (XO (XO (XI (XI (XO (XO (XO (XO (XI (XO (XI (XI (XO
    (XI (XI (XI (XI XH)))))))))))))))))))))))))))))) :: ((Zpos (XI (XO (XI
    (XO (XI (XI (XI (XO (XO (XI (XI (XI (XO (XI (XI (XO (XI (XO (XO (XO (XI
    (XO (XI (XI (XO (XI (XI (XI (XI
    XH)))))))))))))))))))))))))))))) :: ((Zpos (XI (XO (XI (XO (XI (XI (XI
    (XO (XO (XO (XO (XO (XI (XO (XO (XO (XO (XI (XO (XO (XI (XO (XI (XI (XO
    (XI (XI (XI (XI XH)))))))))))))))))))))))))))))) :: ((Zpos (XI (XI (XI
    (XI (XI (XI (XO (XO (XO (XI (XO (XO (XI (XI (XO (XI (XO (XI (XO (XO (XI
    (XO (XI (XI (XO (XI (XI (XI (XI
    XH)))))))))))))))))))))))))))))) :: ((Zpos (XO (XI (XO (XO (XI (XO (XI
    (XI (XI (XI (XO (XO (XI (XO (XI (XO (XI (XI (XO (XO (XI (XO (XI (XI (XO
    (XI (XI (XI (XI XH)))))))))))))))))))))))))))))) :: ((Zpos (XO (XO (XO
    (XO (XI (XI (XO (XO (XI (XO (XI (XO (XI (XI (XI (XI (XI (XI (XO (XO (XI
    (XO (XI (XI (XO (XI (XI (XI (XI
    XH)))))))))))))))))))))))))))))) :: ((Zpos (XI (XO (XO (XI (XI (XO (XI
    (XO (XO (XI (XI (XO (XI (XO (XO (XI (XO (XO (XI (XO (XI (XO (XI (XI (XO
    (XI (XI (XI (XI XH)))))))))))))))))))))))))))))) :: ((Zpos (XI (XI (XO
    (XI (XO (XO (XI (XO (XI (XI (XI (XO (XI (XI (XO (XO (XI (XO (XI (XO (XI
    (XO (XI (XI (XO (XI (XI (XI (XI
    XH)))))))))))))))))))))))))))))) :: ((Zpos (XO (XO (XO (XI (XO (XO (XO
    (XO (XO (XO (XO (XI (XI (XO (XI (XI (XI (XO (XI (XO (XI (XO (XI (XI (XO
    (XI (XI (XI (XI XH)))))))))))))))))))))))))))))) :: ((Zpos (XI (XI (XI
    (XI (XO (XO (XO (XI (XO (XO (XO (XI (XI (XI (XI (XO (XO (XI (XI (XO (XI
    (XO (XI (XI (XO (XI (XI (XI (XI
    XH)))))))))))))))))))))))))))))) :: ((Zpos (XI (XO (XO (XO (XO (XI (XI
    (XI (XO (XO (XO (XI (XI (XO (XO (XO (XI (XI (XI (XO (XI (XO (XI (XI (XO
    (XI (XI (XI (XI XH)))))))))))))))))))))))))))))) :: ((Zpos (XI (XO (XI
    (XI (XI (XI (XI (XI (XO (XO (XO (XI (XI (XI (XO (XI (XI (XI (XI (XO (XI
    (XO (XI (XI (XO (XI (XI (XI (XI
    XH)))))))))))))))))))))))))))))) :: ((Zpos (XO (XO (XI (XO (XO (XI (XI
    (XI (XO (XO (XO (XI (XI (XO (XI (XO (XO (XO (XO (XI (XI (XO (XI (XI (XO
    (XI (XI (XI (XI XH)))))))))))))))))))))))))))))) :: ((Zpos (XI (XO (XI
    (XO (XI (XO (XO (XI (XO (XO (XO (XI (XI (XI (XI (XI (XO (XO (XO (XI (XI
    (XO (XI (XI (XO (XI (XI (XI (XI
    XH)))))))))))))))))))))))))))))) :: ((Zpos (XO (XI (XO (XO (XI (XO (XO
    (XO (XO (XO (XO (XI (XI (XO (XO (XI (XI (XO (XO (XI (XI (XO (XI (XI (XO
    (XI (XI (XI (XI XH)))))))))))))))))))))))))))))) :: ((Zpos (XI (XO (XO
    (XI (XI (XO (XI (XO (XI (XI (XI (XO (XI (XI (XO (XO (XO (XI (XO (XI (XI
    (XO (XI (XI (XO (XI (XI (XI (XI
    XH)))))))))))))))))))))))))))))) :: ((Zpos (XI (XI (XO (XI (XO (XI (XI
    (XO (XO (XI (XI (XO (XI (XO (XI (XI (XO (XI (XO (XI (XI (XO (XI (XI (XO
    (XI (XI (XI (XI XH)))))))))))))))))))))))))))))) :: ((Zpos (XO (XO (XO
    (XI (XO (XO (XI (XO (XI (XO (XI (XO (XI (XI (XI (XO (XI (XI (XO (XI (XI
    (XO (XI (XI (XO (XI (XI (XI (XI
    XH)))))))))))))))))))))))))))))) :: ((Zpos (XO (XO (XO (XO (XI (XI (XI
    (XI (XI (XI (XO (XO (XI (XO (XO (XO (XO (XO (XI (XI (XI (XO (XI (XI (XO
    (XI (XI (XI (XI XH)))))))))))))))))))))))))))))) :: ((Zpos (XI (XI (XO
    (XO (XO (XI (XI (XO (XO (XI (XO (XO (XI (XI (XO (XI (XO (XO (XI (XI (XI
    (XO (XI (XI (XO (XI (XI (XI (XI
    XH)))))))))))))))))))))))))))))) :: ((Zpos (XI (XO (XO (XO (XO (XI (XO
    (XI (XO (XO (XO (XO (XI (XO (XI (XO (XI (XO (XI (XI (XI (XO (XI (XI (XO
    (XI (XI (XI (XI XH)))))))))))))))))))))))))))))) :: ((Zpos (XO (XI (XO
    (XI (XO (XI (XO (XI (XO (XI (XI (XI (XO (XI (XI (XI (XI (XO (XI (XI (XI
    (XO (XI (XI (XO (XI (XI (XI (XI
    XH)))))))))))))))))))))))))))))) :: ((Zpos (XI (XI (XI (XI (XI (XI (XI
    (XO (XO (XO (XI (XI (XO (XO (XO (XI (XO (XI (XI (XI (XI (XO (XI (XI (XO
    (XI (XI (XI (XI XH)))))))))))))))))))))))))))))) :: ((Zpos (XI (XI (XI
    (XI (XI (XO (XO (XO (XO (XI (XO (XI (XO (XI (XO (XO (XI (XI (XI (XI (XI
    (XO (XI (XI (XO (XI (XI (XI (XI
    XH)))))))))))))))))))))))))))))) :: ((Zpos (XI (XI (XO (XI (XO (XO (XO
    (XI (XI (XI (XI (XO (XO (XO (XI (XI (XI (XI (XI (XI (XI (XO (XI (XI (XO
    (XI (XI (XI (XI XH)))))))))))))))))))))))))))))) :: ((Zpos (XO (XI (XO
    (XO (XO (XO (XI (XI (XO (XO (XI (XO (XO (XI (XI (XO (XO (XO (XO (XO (XO
    (XI (XI (XI (XO (XI (XI (XI (XI
    XH)))))))))))))))))))))))))))))) :: ((Zpos (XI (XO (XI (XO (XO (XO (XI
    (XI (XI (XO (XO (XO (XO (XO (XO (XO (XI (XO (XO (XO (XO (XI (XI (XI (XO
    (XI (XI (XI (XI XH)))))))))))))))))))))))))))))) :: ((Zpos (XI (XI (XO
    (XO (XI (XO (XO (XI (XO (XI (XI (XI (XI (XO (XO (XI (XI (XO (XO (XO (XO
    (XI (XI (XI (XO (XI (XI (XI (XI
    XH)))))))))))))))))))))))))))))) :: ((Zpos (XI (XO (XI (XI (XO (XI (XO
    (XO (XI (XI (XO (XI (XI (XI (XO (XO (XO (XI (XO (XO (XO (XI (XI (XI (XO
    (XI (XI (XI (XI XH)))))))))))))))))))))))))))))) :: ((Zpos (XI (XI (XO
    (XO (XI (XO (XO (XI (XI (XI (XI (XO (XI (XO (XI (XI (XO (XI (XO (XO (XO
    (XI (XI (XI (XO (XI (XI (XI (XI
    XH)))))))))))))))))))))))))))))) :: ((Zpos (XO (XO (XI (XO (XO (XO (XI
    (XI (XI (XI (XO (XO (XI (XI (XI (XO (XI (XI (XO (XO (XO (XI (XI (XI (XO
    (XI (XI (XI (XI XH)))))))))))))))))))))))))))))) :: ((Zpos (XO (XI (XO
    (XO (XO (XO (XI (XI (XI (XI (XI (XI (XO (XO (XO (XO (XO (XO (XI (XO (XO
    (XI (XI (XI (XO (XI (XI (XI (XI
    XH)))))))))))))))))))))))))))))) :: ((Zpos (XO (XO (XI (XI (XO (XO (XO
    (XI (XI (XI (XO (XI (XO (XI (XO (XI (XO (XO (XI (XO (XO (XI (XI (XI (XO
    (XI (XI (XI (XI XH)))))))))))))))))))))))))))))) :: ((Zpos (XI (XO (XO
    (XO (XO (XI (XO (XO (XI (XI (XI (XO (XO (XO (XI (XO (XI (XO (XI (XO (XO
    (XI (XI (XI (XO (XI (XI (XI (XI
    XH)))))))))))))))))))))))))))))) :: ((Zpos (XI (XI (XO (XO (XO (XO (XO
    (XI (XO (XI (XO (XO (XO (XI (XI (XI (XI (XO (XI (XO (XO (XI (XI (XI (XO
    (XI (XI (XI (XI XH)))))))))))))))))))))))))))))) :: ((Zpos (XI (XO (XO
    (XO (XI (XI (XO (XI (XI (XO (XI (XI (XI (XI (XI (XO (XO (XI (XI (XO (XO
    (XI (XI (XI (XO (XI (XI (XI (XI
    XH)))))))))))))))))))))))))))))) :: ((Zpos (XI (XI (XO (XI (XO (XI (XO
    (XI (XO (XO (XO (XI (XI (XO (XO (XO (XI (XI (XI (XO (XO (XI (XI (XI (XO
    (XI (XI (XI (XI XH)))))))))))))))))))))))))))))) :: ((Zpos (XO (XI (XO
    (XO (XI (XI (XI (XO (XI (XI (XO (XO (XI (XI (XO (XI (XI (XI (XI (XO (XO
    (XI (XI (XI (XO (XI (XI (XI (XI
    XH)))))))))))))))))))))))))))))) :: ((Zpos (XO (XO (XI (XO (XO (XO (XO
    (XO (XO (XI (XI (XI (XO (XO (XI (XO (XO (XO (XO (XI (XO (XI (XI (XI (XO
    (XI (XI (XI (XI XH)))))))))))))))))))))))))))))) :: ((Zpos (XO (XO (XI
    (XO (XO (XI (XI (XO (XO (XO (XO (XI (XO (XI (XI (XI (XO (XO (XO (XI (XO
    (XI (XI (XI (XO (XI (XI (XI (XI
    XH)))))))))))))))))))))))))))))) :: ((Zpos (XO (XO (XO (XO (XI (XO (XO
    (XI (XO (XI (XO (XO (XO (XO (XO (XI (XI (XO (XO (XI (XO (XI (XI (XI (XO
    (XI (XI (XI (XI XH)))))))))))))))))))))))))))))) :: ((Zpos (XO (XO (XO
    (XI (XO (XO (XO (XI (XO (XO (XI (XI (XI (XO (XO (XO (XO (XI (XO (XI (XO
    (XI (XI (XI (XO (XI (XI (XI (XI
    XH)))))))))))))))))))))))))))))) :: ((Zpos (XI (XO (XI (XI (XO (XO (XI
    (XO (XO (XI (XI (XO (XI (XI (XO (XI (XO (XI (XO (XI (XO (XI (XI (XI (XO
    (XI (XI (XI (XI XH)))))))))))))))))))))))))))))) :: ((Zpos (XI (XI (XI
    (XI (XI (XO (XI (XI (XI (XI (XI (XI (XO (XO (XI (XO (XI (XI (XO (XI (XO
    (XI (XI (XI (XO (XI (XI (XI (XI
    XH)))))))))))))))))))))))))))))) :: ((Zpos (XO (XI (XI (XI (XI (XI (XO
    (XO (XI (XO (XO (XI (XO (XI (XI (XI (XI (XI (XO (XI (XO (XI (XI (XI (XO
    (XI (XI (XI (XI XH)))))))))))))))))))))))))))))) :: ((Zpos (XI (XO (XO
    (XI (XO (XI (XI (XO (XO (XI (XO (XO (XO (XO (XO (XI (XO (XO (XI (XI (XO
    (XI (XI (XI (XO (XI (XI (XI (XI
    XH)))))))))))))))))))))))))))))) :: ((Zpos (XO (XI (XO (XO (XO (XI (XI
    (XO (XI (XI (XO (XI (XI (XO (XO (XO (XI (XO (XI (XI (XO (XI (XI (XI (XO
    (XI (XI (XI (XI XH)))))))))))))))))))))))))))))) :: ((Zpos (XI (XI (XI
    (XO (XO (XI (XO (XO (XO (XO (XI (XO (XI (XI (XO (XI (XI (XO (XI (XI (XO
    (XI (XI (XI (XO (XI (XI (XI (XI
    XH)))))))))))))))))))))))))))))) :: ((Zpos (XO (XI (XO (XI (XI (XI (XO
    (XI (XO (XO (XI (XI (XO (XO (XI (XO (XO (XI (XI (XI (XO (XI (XI (XI (XO
    (XI (XI (XI (XI XH)))))))))))))))))))))))))))))) :: ((Zpos (XI (XO (XO
    (XI (XI (XO (XO (XO (XI (XO (XI (XO (XO (XI (XI (XI (XO (XI (XI (XI (XO
    (XI (XI (XI (XO (XI (XI (XI (XI
    XH)))))))))))))))))))))))))))))) :: ((Zpos (XO (XI (XI (XO (XO (XO (XI
    (XO (XI (XO (XI (XI (XI (XI (XI (XO (XI (XI (XI (XI (XO (XI (XI (XI (XO
    (XI (XI (XI (XI XH)))))))))))))))))))))))))))))) :: ((Zpos (XO (XO (XO
    (XO (XO (XO (XI (XO (XI (XO (XI (XO (XI (XO (XO (XO (XO (XO (XO (XO (XI
    (XI (XI (XI (XO (XI (XI (XI (XI
    XH)))))))))))))))))))))))))))))) :: ((Zpos (XO (XO (XO (XI (XO (XO (XO
    (XO (XI (XO (XI (XI (XO (XI (XO (XI (XO (XO (XO (XO (XI (XI (XI (XI (XO
    (XI (XI (XI (XI XH)))))))))))))))))))))))))))))) :: ((Zpos (XI (XO (XI
    (XI (XI (XO (XO (XI (XO (XO (XI (XO (XO (XO (XI (XO (XI (XO (XO (XO (XI
    (XI (XI (XI (XO (XI (XI (XI (XI
    XH)))))))))))))))))))))))))))))) :: ((Zpos (XI (XI (XI (XI (XI (XI (XI
    (XI (XI (XI (XO (XI (XI (XO (XI (XI (XI (XO (XO (XO (XI (XI (XI (XI (XO
    (XI (XI (XI (XI XH)))))))))))))))))))))))))))))) :: ((Zpos (XI (XI (XI
    (XI (XO (XI (XO (XO (XI (XI (XO (XO (XI (XI (XI (XO (XO (XI (XO (XO (XI
    (XI (XI (XI (XO (XI (XI (XI (XI
    XH)))))))))))))))))))))))))))))) :: ((Zpos (XO (XO (XI (XI (XO (XI (XO
    (XO (XO (XI (XO (XI (XO (XO (XO (XO (XI (XI (XO (XO (XI (XI (XI (XI (XO
    (XI (XI (XI (XI XH)))))))))))))))))))))))))))))) :: ((Zpos (XI (XI (XI
    (XO (XI (XI (XI (XI (XO (XO (XO (XO (XO (XI (XO (XI (XI (XI (XO (XO (XI
    (XI (XI (XI (XO (XI (XI (XI (XI
    XH)))))))))))))))))))))))))))))) :: ((Zpos (XO (XO (XO (XO (XI (XO (XO
    (XI (XI (XI (XI (XO (XI (XI (XO (XO (XO (XO (XI (XO (XI (XI (XI (XI (XO
    (XI (XI (XI (XI XH)))))))))))))))))))))))))))))) :: ((Zpos (XO (XI (XI
    (XO (XI (XI (XI (XI (XI (XO (XI (XI (XO (XO (XI (XI (XO (XO (XI (XO (XI
    (XI (XI (XI (XO (XI (XI (XI (XI
    XH)))))))))))))))))))))))))))))) :: ((Zpos (XI (XI (XO (XI (XO (XI (XO
    (XO (XO (XO (XI (XO (XO (XI (XI (XO (XI (XO (XI (XO (XI (XI (XI (XI (XO
    (XI (XI (XI (XI XH)))))))))))))))))))))))))))))) :: ((Zpos (XI (XO (XI
    (XI (XO (XI (XO (XO (XO (XI (XO (XI (XI (XI (XI (XI (XI (XO (XI (XO (XI
    (XI (XI (XI (XO (XI (XI (XI (XI
    XH)))))))))))))))))))))))))))))) :: ((Zpos (XI (XO (XI (XI (XI (XI (XI
    (XI (XI (XI (XI (XI (XO (XO (XO (XI (XO (XI (XI (XO (XI (XI (XI (XI (XO
    (XI (XI (XI (XI XH)))))))))))))))))))))))))))))) :: ((Zpos (XI (XI (XO
    (XI (XI (XO (XO (XI (XI (XO (XI (XO (XO (XI (XO (XO (XI (XI (XI (XO (XI
    (XI (XI (XI (XO (XI (XI (XI (XI
    XH)))))))))))))))))))))))))))))) :: ((Zpos (XO (XO (XO (XI (XO (XO (XO
    (XO (XI (XI (XO (XI (XI (XI (XO (XI (XI (XI (XI (XO (XI (XI (XI (XI (XO
    (XI (XI (XI (XI XH)))))))))))))))))))))))))))))) :: ((Zpos (XO (XI (XO
    (XO (XO (XO (XI (XO (XO (XO (XO (XO (XI (XO (XI (XO (XO (XO (XO (XI (XI
    (XI (XI (XI (XO (XI (XI (XI (XI
    XH)))))))))))))))))))))))))))))) :: ((Zpos (XI (XI (XO (XI (XO (XO (XI
    (XO (XI (XO (XI (XO (XO (XI (XI (XI (XO (XO (XO (XI (XI (XI (XI (XI (XO
    (XI (XI (XI (XI XH)))))))))))))))))))))))))))))) :: ((Zpos (XO (XI (XO
    (XO (XO (XI (XO (XO (XO (XI (XO (XI (XI (XI (XI (XO (XI (XO (XO (XI (XI
    (XI (XI (XI (XO (XI (XI (XI (XI
    XH)))))))))))))))))))))))))))))) :: ((Zpos (XO (XO (XO (XI (XO (XO (XI
    (XI (XO (XI (XI (XI (XO (XO (XO (XO (XO (XI (XO (XI (XI (XI (XI (XI (XO
    (XI (XI (XI (XI XH)))))))))))))))))))))))))))))) :: ((Zpos (XO (XO (XI
    (XI (XI (XI (XO (XO (XI (XI (XO (XO (XO (XI (XO (XI (XO (XI (XO (XI (XI
    (XI (XI (XI (XO (XI (XI (XI (XI
    XH)))))))))))))))))))))))))))))) :: ((Zpos (XO (XI (XI (XI (XI (XI (XI
    (XO (XI (XI (XI (XO (XI (XI (XO (XO (XI (XI (XO (XI (XI (XI (XI (XI (XO
    (XI (XI (XI (XI XH)))))))))))))))))))))))))))))) :: ((Zpos (XI (XI (XI
    (XI (XO (XO (XO (XI (XI (XI (XO (XI (XO (XO (XI (XI (XI (XI (XO (XI (XI
    (XI (XI (XI (XO (XI (XI (XI (XI
    XH)))))))))))))))))))))))))))))) :: ((Zpos (XI (XI (XI (XI (XO (XI (XI
    (XO (XI (XI (XI (XI (XI (XO (XI (XO (XO (XO (XI (XI (XI (XI (XI (XI (XO
    (XI (XI (XI (XI XH)))))))))))))))))))))))))))))) :: ((Zpos (XI (XO (XI
    (XI (XI (XO (XO (XO (XI (XI (XO (XO (XI (XI (XI (XI (XO (XO (XI (XI (XI
    (XI (XI (XI (XO (XI (XI (XI (XI
    XH)))))))))))))))))))))))))))))) :: ((Zpos (XO (XI (XO (XI (XI (XO (XO
    (XI (XO (XI (XI (XO (XO (XO (XO (XI (XI (XO (XI (XI (XI (XI (XI (XI (XO
    (XI (XI (XI (XI XH)))))))))))))))))))))))))))))) :: ((Zpos (XO (XI (XI
    (XO (XO (XI (XI (XI (XI (XO (XO (XI (XI (XO (XO (XO (XO (XI (XI (XI (XI
    (XI (XI (XI (XO (XI (XI (XI (XI
    XH)))))))))))))))))))))))))))))) :: ((Zpos (XI (XO (XO (XO (XO (XO (XO
    (XO (XI (XO (XI (XI (XO (XI (XO (XI (XO (XI (XI (XI (XI (XI (XI (XI (XO
    (XI (XI (XI (XI XH)))))))))))))))))))))))))))))) :: ((Zpos (XI (XI (XO
    (XI (XO (XI (XI (XI (XI (XI (XI (XI (XI (XI (XO (XO (XI (XI (XI (XI (XI
    (XI (XI (XI (XO (XI (XI (XI (XI
    XH)))))))))))))))))))))))))))))) :: ((Zpos (XO (XO (XI (XO (XO (XI (XO
    (XI (XO (XI (XO (XO (XI (XO (XI (XI (XI (XI (XI (XI (XI (XI (XI (XI (XO
    (XI (XI (XI (XI XH)))))))))))))))))))))))))))))) :: ((Zpos (XO (XI (XI
    (XO (XI (XO (XO (XI (XO (XI (XO (XO (XI (XI (XO (XO (XO (XO (XO (XO (XO
    (XO (XO (XO (XI (XI (XI (XI (XI
    XH)))))))))))))))))))))))))))))) :: ((Zpos (XI (XO (XO (XO (XO (XO (XI
    (XI (XI (XI (XO (XI (XI (XI (XI (XO (XO (XO (XO (XO (XO (XO (XO (XO (XI
    (XI (XI (XI (XI XH)))))))))))))))))))))))))))))) :: ((Zpos (XO (XO (XI
    (XO (XI (XO (XI (XI (XO (XO (XI (XO (XO (XO (XI (XI (XO (XO (XO (XO (XO
    (XO (XO (XO (XI (XI (XI (XI (XI
    XH)))))))))))))))))))))))))))))) :: ((Zpos (XI (XI (XI (XI (XO (XO (XI
    (XI (XI (XO (XI (XI (XO (XO (XO (XO (XI (XO (XO (XO (XO (XO (XO (XO (XI
    (XI (XI (XI (XI XH)))))))))))))))))))))))))))))) :: ((Zpos (XI (XO (XO
    (XO (XI (XI (XO (XI (XO (XI (XI (XO (XI (XO (XI (XO (XI (XO (XO (XO (XO
    (XO (XO (XO (XI (XI (XI (XI (XI
    XH)))))))))))))))))))))))))))))) :: ((Zpos (XO (XO (XI (XI (XI (XI (XI
    (XO (XI (XI (XI (XI (XI (XO (XO (XI (XI (XO (XO (XO (XO (XO (XO (XO (XI
    (XI (XI (XI (XI XH)))))))))))))))))))))))))))))) :: ((Zpos (XI (XO (XI
    (XI (XO (XI (XO (XO (XO (XO (XO (XI (XO (XI (XI (XI (XI (XO (XO (XO (XO
    (XO (XO (XO (XI (XI (XI (XI (XI
    XH)))))))))))))))))))))))))))))) :: ((Zpos (XI (XI (XI (XO (XO (XO (XI
    (XI (XO (XO (XO (XO (XI (XI (XO (XO (XO (XI (XO (XO (XO (XO (XO (XO (XI
    (XI (XI (XI (XI XH)))))))))))))))))))))))))))))) :: ((Zpos (XO (XO (XO
    (XI (XO (XO (XI (XO (XI (XO (XO (XI (XI (XI (XI (XO (XO (XI (XO (XO (XO
    (XO (XO (XO (XI (XI (XI (XI (XI
    XH)))))))))))))))))))))))))))))) :: ((Zpos (XI (XO (XO (XO (XI (XI (XO
    (XI (XI (XO (XO (XO (XO (XO (XI (XI (XO (XI (XO (XO (XO (XO (XO (XO (XI
    (XI (XI (XI (XI XH)))))))))))))))))))))))))))))) :: ((Zpos (XI (XI (XO
    (XO (XO (XO (XO (XO (XO (XI (XO (XI (XO (XO (XO (XO (XI (XI (XO (XO (XO
    (XO (XO (XO (XI (XI (XI (XI (XI
    XH)))))))))))))))))))))))))))))) :: ((Zpos (XI (XI (XO (XI (XI (XI (XO
    (XO (XO (XI (XO (XO (XI (XO (XI (XO (XI (XI (XO (XO (XO (XO (XO (XO (XI
    (XI (XI (XI (XI XH)))))))))))))))))))))))))))))) :: ((Zpos (XO (XO (XI
    (XI (XI (XO (XI (XO (XO (XI (XO (XI (XI (XO (XO (XI (XI (XI (XO (XO (XO
    (XO (XO (XO (XI (XI (XI (XI (XI
    XH)))))))))))))))))))))))))))))) :: ((Zpos (XI (XO (XI (XO (XO (XI (XI
    (XO (XO (XI (XO (XO (XO (XI (XI (XI (XI (XI (XO (XO (XO (XO (XO (XO (XI
    (XI (XI (XI (XI XH)))))))))))))))))))))))))))))) :: ((Zpos (XO (XI (XI
    (XO (XI (XO (XI (XO (XO (XI (XO (XI (XO (XI (XO (XO (XO (XO (XI (XO (XO
    (XO (XO (XO (XI (XI (XI (XI (XI
    XH)))))))))))))))))))))))))))))) :: ((Zpos (XI (XI (XI (XI (XO (XI (XO
    (XO (XO (XI (XO (XO (XI (XI (XI (XO (XO (XO (XI (XO (XO (XO (XO (XO (XI
    (XI (XI (XI (XI XH)))))))))))))))))))))))))))))) :: ((Zpos (XO (XO (XO
    (XO (XI (XI (XI (XI (XI (XO (XO (XI (XI (XI (XO (XI (XO (XO (XI (XO (XO
    (XO (XO (XO (XI (XI (XI (XI (XI
    XH)))))))))))))))))))))))))))))) :: ((Zpos (XO (XO (XO (XI (XI (XO (XO
    (XI (XI (XO (XO (XO (XO (XO (XO (XO (XI (XO (XI (XO (XO (XO (XO (XO (XI
    (XI (XI (XI (XI XH)))))))))))))))))))))))))))))) :: ((Zpos (XI (XO (XO
    (XI (XO (XI (XO (XO (XI (XO (XO (XI (XO (XO (XI (XO (XI (XO (XI (XO (XO
    (XO (XO (XO (XI (XI (XI (XI (XI
    XH)))))))))))))))))))))))))))))) :: ((Zpos (XI (XI (XO (XO (XO (XI (XO
    (XI (XO (XO (XO (XO (XI (XO (XO (XI (XI (XO (XI (XO (XO (XO (XO (XO (XI
    (XI (XI (XI (XI XH)))))))))))))))))))))))))))))) :: ((Zpos (XO (XO (XI
    (XO (XO (XO (XO (XO (XO (XO (XO (XI (XI (XO (XI (XI (XI (XO (XI (XO (XO
    (XO (XO (XO (XI (XI (XI (XI (XI
    XH)))))))))))))))))))))))))))))) :: ((Zpos (XI (XO (XI (XI (XO (XO (XI
    (XO (XI (XI (XI (XI (XI (XO (XO (XO (XO (XI (XI (XO (XO (XO (XO (XO (XI
    (XI (XI (XI (XI XH)))))))))))))))))))))))))))))) :: ((Zpos (XI (XI (XI
    (XI (XI (XI (XI (XO (XO (XI (XI (XO (XO (XI (XI (XO (XO (XI (XI (XO (XO
    (XO (XO (XO (XI (XI (XI (XI (XI
    XH)))))))))))))))))))))))))))))) :: ((Zpos (XI (XO (XO (XI (XI (XO (XO
    (XI (XI (XO (XI (XI (XO (XI (XO (XI (XO (XI (XI (XO (XO (XO (XO (XO (XI
    (XI (XI (XI (XI XH)))))))))))))))))))))))))))))) :: ((Zpos (XO (XO (XI
    (XI (XI (XO (XO (XI (XO (XO (XI (XO (XI (XI (XI (XI (XO (XI (XI (XO (XO
    (XO (XO (XO (XI (XI (XI (XI (XI
    XH)))))))))))))))))))))))))))))) :: ((Zpos (XO (XI (XI (XO (XO (XO (XO
    (XI (XI (XI (XO (XI (XI (XI (XO (XO (XI (XI (XI (XO (XO (XO (XO (XO (XI
    (XI (XI (XI (XI XH)))))))))))))))))))))))))))))) :: ((Zpos (XI (XO (XO
    (XI (XI (XO (XI (XO (XO (XI (XO (XO (XO (XO (XO (XI (XI (XI (XI (XO (XO
    (XO (XO (XO (XI (XI (XI (XI (XI
    XH)))))))))))))))))))))))))))))) :: ((Zpos (XO (XO (XI (XO (XI (XO (XO
    (XO (XI (XO (XO (XI (XO (XO (XI (XI (XI (XI (XI (XO (XO (XO (XO (XO (XI
    (XI (XI (XI (XI XH)))))))))))))))))))))))))))))) :: ((Zpos (XO (XO (XO
    (XI (XI (XI (XO (XI (XI (XI (XI (XI (XO (XO (XO (XO (XO (XO (XO (XI (XO
    (XO (XO (XO (XI (XI (XI (XI (XI
    XH)))))))))))))))))))))))))))))) :: ((Zpos (XO (XO (XI (XO (XO (XO (XI
    (XO (XO (XI (XI (XO (XI (XO (XI (XO (XO (XO (XO (XI (XO (XO (XO (XO (XI
    (XI (XI (XI (XI XH)))))))))))))))))))))))))))))) :: ((Zpos (XI (XO (XO
    (XI (XI (XI (XO (XI (XO (XO (XI (XI (XI (XO (XO (XI (XO (XO (XO (XI (XO
    (XO (XO (XO (XI (XI (XI (XI (XI
    XH)))))))))))))))))))))))))))))) :: ((Zpos (XO (XI (XI (XO (XI (XO (XO
    (XO (XI (XI (XO (XO (XO (XI (XI (XI (XO (XO (XO (XI (XO (XO (XO (XO (XI
    (XI (XI (XI (XI XH)))))))))))))))))))))))))))))) :: ((Zpos (XO (XO (XI
    (XI (XI (XO (XI (XO (XI (XO (XO (XI (XO (XI (XO (XO (XI (XO (XO (XI (XO
    (XO (XO (XO (XI (XI (XI (XI (XI
    XH)))))))))))))))))))))))))))))) :: ((Zpos (XO (XI (XO (XI (XO (XO (XO
    (XI (XI (XI (XI (XI (XO (XI (XI (XO (XI (XO (XO (XI (XO (XO (XO (XO (XI
    (XI (XI (XI (XI XH)))))))))))))))))))))))))))))) :: ((Zpos (XI (XO (XO
    (XO (XO (XI (XO (XI (XI (XO (XI (XO (XI (XI (XO (XI (XI (XO (XO (XI (XO
    (XO (XO (XO (XI (XI (XI (XI (XI
    XH)))))))))))))))))))))))))))))) :: ((Zpos (XI (XO (XO (XO (XO (XI (XO
    (XI (XI (XI (XO (XI (XI (XI (XI (XI (XI (XO (XO (XI (XO (XO (XO (XO (XI
    (XI (XI (XI (XI XH)))))))))))))))))))))))))))))) :: ((Zpos (XI (XO (XO
    (XI (XO (XO (XO (XI (XI (XO (XO (XO (XO (XO (XI (XO (XO (XI (XO (XI (XO
    (XO (XO (XO (XI (XI (XI (XI (XI
    XH)))))))))))))))))))))))))))))) :: ((Zpos (XO (XI (XO (XI (XI (XO (XI
    (XO (XI (XI (XI (XO (XO (XO (XO (XI (XO (XI (XO (XI (XO (XO (XO (XO (XI
    (XI (XI (XI (XI XH)))))))))))))))))))))))))))))) :: ((Zpos (XO (XO (XI
    (XO (XI (XO (XO (XO (XI (XO (XI (XI (XO (XO (XI (XI (XO (XI (XO (XI (XO
    (XO (XO (XO (XI (XI (XI (XI (XI
    XH)))))))))))))))))))))))))))))) :: ((Zpos (XO (XI (XI (XO (XI (XI (XO
    (XI (XO (XI (XO (XO (XI (XO (XO (XO (XI (XI (XO (XI (XO (XO (XO (XO (XI
    (XI (XI (XI (XI XH)))))))))))))))))))))))))))))) :: ((Zpos (XI (XO (XO
    (XO (XO (XO (XI (XO (XO (XO (XO (XI (XI (XO (XI (XO (XI (XI (XO (XI (XO
    (XO (XO (XO (XI (XI (XI (XI (XI
    XH)))))))))))))))))))))))))))))) :: ((Zpos (XI (XO (XI (XO (XI (XI (XO
    (XI (XI (XO (XI (XI (XI (XO (XO (XI (XI (XI (XO (XI (XO (XO (XO (XO (XI
    (XI (XI (XI (XI XH)))))))))))))))))))))))))))))) :: ((Zpos (XO (XI (XO
    (XO (XI (XO (XO (XO (XI (XI (XO (XO (XO (XI (XI (XI (XI (XI (XO (XI (XO
    (XO (XO (XO (XI (XI (XI (XI (XI
    XH)))))))))))))))))))))))))))))) :: ((Zpos (XO (XO (XO (XI (XI (XO (XI
    (XO (XO (XO (XO (XI (XO (XI (XO (XO (XO (XO (XI (XI (XO (XO (XO (XO (XI
    (XI (XI (XI (XI XH)))))))))))))))))))))))))))))) :: ((Zpos (XO (XI (XI
    (XO (XO (XO (XO (XI (XI (XO (XI (XI (XO (XI (XI (XO (XO (XO (XI (XI (XO
    (XO (XO (XO (XI (XI (XI (XI (XI
    XH)))))))))))))))))))))))))))))) :: ((Zpos (XO (XI (XI (XI (XI (XO (XO
    (XI (XO (XI (XO (XO (XI (XI (XO (XI (XO (XO (XI (XI (XO (XO (XO (XO (XI
    (XI (XI (XI (XI XH)))))))))))))))))))))))))))))) :: ((Zpos (XO (XI (XI
    (XI (XI (XO (XO (XI (XI (XI (XI (XO (XI (XI (XI (XI (XO (XO (XI (XI (XO
    (XO (XO (XO (XI (XI (XI (XI (XI
    XH)))))))))))))))))))))))))))))) :: ((Zpos (XO (XO (XO (XI (XO (XO (XO
    (XI (XO (XO (XI (XI (XI (XI (XO (XO (XI (XO (XI (XI (XO (XO (XO (XO (XI
    (XI (XI (XI (XI XH)))))))))))))))))))))))))))))) :: ((Zpos (XO (XI (XO
    (XI (XI (XO (XI (XO (XI (XO (XO (XO (XO (XO (XO (XI (XI (XO (XI (XI (XO
    (XO (XO (XO (XI (XI (XI (XI (XI
    XH)))))))))))))))))))))))))))))) :: ((Zpos (XO (XI (XI (XO (XI (XO (XO
    (XO (XO (XI (XI (XO (XO (XO (XI (XI (XI (XO (XI (XI (XO (XO (XO (XO (XI
    (XI (XI (XI (XI XH)))))))))))))))))))))))))))))) :: ((Zpos (XO (XI (XO
    (XI (XI (XI (XO (XI (XO (XI (XO (XI (XO (XO (XO (XO (XO (XI (XI (XI (XO
    (XO (XO (XO (XI (XI (XI (XI (XI
    XH)))))))))))))))))))))))))))))) :: ((Zpos (XO (XO (XO (XI (XO (XO (XI
    (XO (XI (XI (XI (XI (XO (XO (XI (XO (XO (XI (XI (XI (XO (XO (XO (XO (XI
    (XI (XI (XI (XI XH)))))))))))))))))))))))))))))) :: ((Zpos (XI (XI (XI
    (XI (XI (XI (XO (XI (XI (XI (XO (XO (XI (XO (XO (XI (XO (XI (XI (XI (XO
    (XO (XO (XO (XI (XI (XI (XI (XI
    XH)))))))))))))))))))))))))))))) :: ((Zpos (XI (XI (XI (XI (XI (XO (XO
    (XO (XO (XO (XO (XI (XI (XO (XI (XI (XO (XI (XI (XI (XO (XO (XO (XO (XI
    (XI (XI (XI (XI XH)))))))))))))))))))))))))))))) :: ((Zpos (XO (XO (XO
    (XI (XO (XI (XI (XO (XO (XO (XI (XI (XI (XO (XO (XO (XI (XI (XI (XI (XO
    (XO (XO (XO (XI (XI (XI (XI (XI
    XH)))))))))))))))))))))))))))))) :: ((Zpos (XO (XI (XO (XI (XI (XO (XO
    (XI (XO (XO (XO (XO (XO (XI (XI (XO (XI (XI (XI (XI (XO (XO (XO (XO (XI
    (XI (XI (XI (XI XH)))))))))))))))))))))))))))))) :: ((Zpos (XO (XI (XI
    (XO (XI (XI (XO (XI (XO (XO (XI (XO (XO (XI (XO (XI (XI (XI (XI (XI (XO
    (XO (XO (XO (XI (XI (XI (XI (XI
    XH)))))))))))))))))))))))))))))) :: ((Zpos (XI (XI (XO (XI (XI (XI (XO
    (XI (XO (XO (XO (XI (XO (XI (XI (XI (XI (XI (XI (XI (XO (XO (XO (XO (XI
    (XI (XI (XI (XI XH)))))))))))))))))))))))))))))) :: ((Zpos (XO (XI (XO
    (XI (XO (XI (XO (XI (XO (XO (XI (XI (XO (XI (XO (XO (XO (XO (XO (XO (XI
    (XO (XO (XO (XI (XI (XI (XI (XI
    XH)))))))))))))))))))))))))))))) :: ((Zpos (XI (XO (XO (XO (XO (XO (XO
    (XI (XO (XO (XO (XO (XI (XI (XI (XO (XO (XO (XO (XO (XI (XO (XO (XO (XI
    (XI (XI (XI (XI XH)))))))))))))))))))))))))))))) :: ((Zpos (XO (XI (XO
    (XO (XO (XO (XI (XO (XO (XO (XI (XO (XI (XI (XO (XI (XO (XO (XO (XO (XI
    (XO (XO (XO (XI (XI (XI (XI (XI
    XH)))))))))))))))))))))))))))))) :: ((Zpos (XI (XO (XI (XI (XO (XI (XI
    (XI (XI (XI (XI (XO (XI (XI (XI (XI (XO (XO (XO (XO (XI (XO (XO (XO (XI
    (XI (XI (XI (XI XH)))))))))))))))))))))))))))))) :: ((Zpos (XI (XO (XO
    (XO (XO (XO (XO (XI (XI (XI (XO (XI (XI (XI (XO (XO (XI (XO (XO (XO (XI
    (XO (XO (XO (XI (XI (XI (XI (XI
    XH)))))))))))))))))))))))))))))) :: ((Zpos (XO (XI (XI (XI (XI (XI (XI
    (XI (XO (XI (XI (XI (XI (XI (XI (XO (XI (XO (XO (XO (XI (XO (XO (XO (XI
    (XI (XI (XI (XI XH)))))))))))))))))))))))))))))) :: ((Zpos (XI (XO (XI
    (XO (XO (XI (XI (XO (XO (XI (XO (XO (XO (XO (XI (XI (XI (XO (XO (XO (XI
    (XO (XO (XO (XI (XI (XI (XI (XI
    XH)))))))))))))))))))))))))))))) :: ((Zpos (XI (XO (XI (XO (XI (XI (XO
    (XI (XI (XO (XI (XO (XO (XO (XO (XO (XO (XI (XO (XO (XI (XO (XO (XO (XI
    (XI (XI (XI (XI XH)))))))))))))))))))))))))))))) :: ((Zpos (XI (XI (XI
    (XI (XO (XI (XI (XI (XO (XO (XO (XI (XO (XO (XI (XO (XO (XI (XO (XO (XI
    (XO (XO (XO (XI (XI (XI (XI (XI
    XH)))))))))))))))))))))))))))))) :: ((Zpos (XI (XI (XO (XO (XI (XO (XO
    (XO (XO (XO (XI (XI (XO (XO (XO (XI (XO (XI (XO (XO (XI (XO (XO (XO (XI
    (XI (XI (XI (XI XH)))))))))))))))))))))))))))))) :: ((Zpos (XO (XO (XO
    (XO (XO (XI (XO (XO (XI (XI (XI (XI (XO (XO (XI (XI (XO (XI (XO (XO (XI
    (XO (XO (XO (XI (XI (XI (XI (XI
    XH)))))))))))))))))))))))))))))) :: ((Zpos (XI (XI (XI (XO (XI (XO (XO
    (XO (XO (XI (XO (XO (XI (XO (XO (XO (XI (XI (XO (XO (XI (XO (XO (XO (XI
    (XI (XI (XI (XI XH)))))))))))))))))))))))))))))) :: ((Zpos (XI (XI (XI
    (XO (XI (XI (XI (XI (XO (XO (XI (XO (XI (XO (XI (XO (XI (XI (XO (XO (XI
    (XO (XO (XO (XI (XI (XI (XI (XI
    XH)))))))))))))))))))))))))))))) :: ((Zpos (XI (XO (XO (XO (XO (XO (XI
    (XI (XI (XI (XI (XO (XI (XO (XO (XI (XI (XI (XO (XO (XI (XO (XO (XO (XI
    (XI (XI (XI (XI XH)))))))))))))))))))))))))))))) :: ((Zpos (XI (XO (XI
    (XO (XI (XI (XI (XO (XO (XI (XO (XI (XI (XO (XI (XI (XI (XI (XO (XO (XI
    (XO (XO (XO (XI (XI (XI (XI (XI
    XH)))))))))))))))))))))))))))))) :: ((Zpos (XI (XI (XO (XO (XI (XO (XO
    (XO (XI (XO (XI (XI (XI (XO (XO (XO (XO (XO (XI (XO (XI (XO (XO (XO (XI
    (XI (XI (XI (XI XH)))))))))))))))))))))))))))))) :: ((Zpos (XO (XI (XO
    (XI (XI (XO (XO (XI (XI (XI (XI (XI (XI (XO (XI (XO (XO (XO (XI (XO (XI
    (XO (XO (XO (XI (XI (XI (XI (XI
    XH)))))))))))))))))))))))))))))) :: ((Zpos (XO (XO (XI (XI (XO (XO (XO
    (XO (XO (XI (XO (XO (XO (XI (XO (XI (XO (XO (XI (XO (XI (XO (XO (XO (XI
    (XI (XI (XI (XI XH)))))))))))))))))))))))))))))) :: ((Zpos (XI (XI (XI
    (XO (XO (XI (XI (XO (XO (XO (XI (XO (XO (XI (XI (XI (XO (XO (XI (XO (XI
    (XO (XO (XO (XI (XI (XI (XI (XI
    XH)))))))))))))))))))))))))))))) :: ((Zpos (XO (XO (XI (XI (XO (XI (XO
    (XI (XO (XI (XI (XO (XO (XI (XO (XO (XI (XO (XI (XO (XI (XO (XO (XO (XI
    (XI (XI (XI (XI XH)))))))))))))))))))))))))))))) :: ((Zpos (XI (XI (XO
    (XI (XI (XO (XI (XI (XO (XO (XO (XI (XO (XI (XI (XO (XI (XO (XI (XO (XI
    (XO (XO (XO (XI (XI (XI (XI (XI
    XH)))))))))))))))))))))))))))))) :: ((Zpos (XI (XI (XO (XO (XI (XI (XI
    (XI (XO (XI (XO (XI (XO (XI (XO (XI (XI (XO (XI (XO (XI (XO (XO (XO (XI
    (XI (XI (XI (XI XH)))))))))))))))))))))))))))))) :: ((Zpos (XO (XI (XI
    (XO (XI (XI (XI (XI (XO (XO (XI (XI (XO (XI (XI (XI (XI (XO (XI (XO (XI
    (XO (XO (XO (XI (XI (XI (XI (XI
    XH)))))))))))))))))))))))))))))) :: ((Zpos (XI (XI (XO (XO (XO (XI (XI
    (XI (XO (XI (XI (XI (XO (XI (XO (XO (XO (XI (XI (XO (XI (XO (XO (XO (XI
    (XI (XI (XI (XI XH)))))))))))))))))))))))))))))) :: ((Zpos (XO (XI (XO
    (XI (XI (XI (XO (XI (XO (XO (XO (XO (XI (XI (XI (XO (XO (XI (XI (XO (XI
    (XO (XO (XO (XI (XI (XI (XI (XI
    XH)))))))))))))))))))))))))))))) :: ((Zpos (XI (XI (XO (XI (XI (XI (XI
    (XO (XO (XI (XO (XO (XI (XI (XO (XI (XO (XI (XI (XO (XI (XO (XO (XO (XI
    (XI (XI (XI (XI XH)))))))))))))))))))))))))))))) :: ((Zpos (XI (XO (XI
    (XO (XO (XI (XO (XO (XO (XO (XI (XO (XI (XI (XI (XI (XO (XI (XI (XO (XI
    (XO (XO (XO (XI (XI (XI (XI (XI
    XH)))))))))))))))))))))))))))))) :: ((Zpos (XO (XI (XO (XI (XI (XI (XO
    (XI (XI (XO (XI (XO (XI (XI (XO (XO (XI (XI (XI (XO (XI (XO (XO (XO (XI
    (XI (XI (XI (XI XH)))))))))))))))))))))))))))))) :: ((Zpos (XO (XI (XO
    (XI (XI (XI (XO (XO (XI (XI (XI (XO (XI (XI (XI (XO (XI (XI (XI (XO (XI
    (XO (XO (XO (XI (XI (XI (XI (XI
    XH)))))))))))))))))))))))))))))) :: ((Zpos (XI (XI (XO (XO (XO (XI (XO
    (XI (XO (XO (XO (XI (XI (XI (XO (XI (XI (XI (XI (XO (XI (XO (XO (XO (XI
    (XI (XI (XI (XI XH)))))))))))))))))))))))))))))) :: ((Zpos (XO (XI (XI
    (XO (XI (XI (XI (XI (XI (XO (XO (XI (XI (XI (XI (XI (XI (XI (XI (XO (XI
    (XO (XO (XO (XI (XI (XI (XI (XI
    XH)))))))))))))))))))))))))))))) :: ((Zpos (XO (XO (XI (XO (XI (XI (XO
    (XO (XI (XI (XO (XI (XI (XI (XO (XO (XO (XO (XO (XI (XI (XO (XO (XO (XI
    (XI (XI (XI (XI XH)))))))))))))))))))))))))))))) :: ((Zpos (XO (XO (XI
    (XI (XI (XO (XI (XO (XO (XO (XI (XI (XI (XI (XI (XO (XO (XO (XO (XI (XI
    (XO (XO (XO (XI (XI (XI (XI (XI
    XH)))))))))))))))))))))))))))))) :: ((Zpos (XO (XI (XI (XI (XO (XI (XI
    (XO (XI (XO (XI (XI (XI (XI (XO (XI (XO (XO (XO (XI (XI (XO (XO (XO (XI
    (XI (XI (XI (XI XH)))))))))))))))))))))))))))))) :: ((Zpos (XI (XI (XO
    (XI (XO (XI (XI (XO (XO (XI (XI (XI (XI (XI (XI (XI (XO (XO (XO (XI (XI
    (XO (XO (XO (XI (XI (XI (XI (XI
    XH)))))))))))))))))))))))))))))) :: ((Zpos (XO (XI (XO (XO (XI (XO (XI
    (XO (XI (XI (XI (XI (XI (XI (XO (XO (XI (XO (XO (XI (XI (XO (XO (XO (XI
    (XI (XI (XI (XI XH)))))))))))))))))))))))))))))) :: ((Zpos (XI (XI (XO
    (XO (XO (XI (XO (XO (XO (XO (XO (XO (XO (XO (XO (XI (XI (XO (XO (XI (XI
    (XO (XO (XO (XI (XI (XI (XI (XI
    XH)))))))))))))))))))))))))))))) :: ((Zpos (XO (XI (XI (XI (XI (XO (XI
    (XI (XO (XO (XO (XO (XO (XO (XI (XI (XI (XO (XO (XI (XI (XO (XO (XO (XI
    (XI (XI (XI (XI XH)))))))))))))))))))))))))))))) :: ((Zpos (XO (XO (XI
    (XO (XO (XO (XO (XI (XI (XO (XO (XO (XO (XO (XO (XO (XO (XI (XO (XI (XI
    (XO (XO (XO (XI (XI (XI (XI (XI
    XH)))))))))))))))))))))))))))))) :: ((Zpos (XI (XO (XI (XO (XI (XO (XO
    (XO (XO (XI (XO (XO (XO (XO (XI (XO (XO (XI (XO (XI (XI (XO (XO (XO (XI
    (XI (XI (XI (XI XH)))))))))))))))))))))))))))))) :: ((Zpos (XO (XO (XO
    (XO (XI (XO (XO (XI (XO (XI (XO (XO (XO (XO (XO (XI (XO (XI (XO (XI (XI
    (XO (XO (XO (XI (XI (XI (XI (XI
    XH)))))))))))))))))))))))))))))) :: ((Zpos (XI (XO (XI (XO (XI (XI (XI
    (XI (XO (XI (XO (XO (XO (XO (XI (XI (XO (XI (XO (XI (XI (XO (XO (XO (XI
    (XI (XI (XI (XI XH)))))))))))))))))))))))))))))) :: ((Zpos (XI (XO (XI
    (XO (XO (XO (XI (XO (XI (XI (XO (XO (XO (XO (XO (XO (XI (XI (XO (XI (XI
    (XO (XO (XO (XI (XI (XI (XI (XI
    XH)))))))))))))))))))))))))))))) :: ((Zpos (XO (XO (XO (XO (XO (XO (XO
    (XI (XI (XI (XO (XO (XO (XO (XI (XO (XI (XI (XO (XI (XI (XO (XO (XO (XI
    (XI (XI (XI (XI XH)))))))))))))))))))))))))))))) :: ((Zpos (XI (XO (XI
    (XO (XO (XI (XO (XI (XI (XI (XO (XO (XO (XO (XO (XI (XI (XI (XO (XI (XI
    (XO (XO (XO (XI (XI (XI (XI (XI
    XH)))))))))))))))))))))))))))))) :: ((Zpos (XI (XO (XI (XO (XI (XI (XO
    (XI (XI (XI (XO (XO (XO (XO (XI (XI (XI (XI (XO (XI (XI (XO (XO (XO (XI
    (XI (XI (XI (XI XH)))))))))))))))))))))))))))))) :: ((Zpos (XI (XI (XI
    (XI (XO (XI (XO (XI (XI (XI (XO (XO (XO (XO (XO (XO (XO (XO (XI (XI (XI
    (XO (XO (XO (XI (XI (XI (XI (XI
    XH)))))))))))))))))))))))))))))) :: ((Zpos (XO (XO (XI (XO (XI (XO (XO
    (XI (XI (XI (XO (XO (XO (XO (XI (XO (XO (XO (XI (XI (XI (XO (XO (XO (XI
    (XI (XI (XI (XI XH)))))))))))))))))))))))))))))) :: ((Zpos (XO (XO (XI
    (XO (XO (XI (XI (XO (XI (XI (XO (XO (XO (XO (XO (XI (XO (XO (XI (XI (XI
    (XO (XO (XO (XI (XI (XI (XI (XI
    XH)))))))))))))))))))))))))))))) :: ((Zpos (XO (XI (XI (XI (XI (XO (XO
    (XO (XI (XI (XO (XO (XO (XO (XI (XI (XO (XO (XI (XI (XI (XO (XO (XO (XI
    (XI (XI (XI (XI XH)))))))))))))))))))))))))))))) :: ((Zpos (XI (XI (XO
    (XO (XO (XO (XI (XI (XO (XI (XO (XO (XO (XO (XO (XO (XI (XO (XI (XI (XI
    (XO (XO (XO (XI (XI (XI (XI (XI
    XH)))))))))))))))))))))))))))))) :: ((Zpos (XI (XI (XO (XO (XI (XO (XI
    (XO (XO (XI (XO (XO (XO (XO (XI (XO (XI (XO (XI (XI (XI (XO (XO (XO (XI
    (XI (XI (XI (XI XH)))))))))))))))))))))))))))))) :: ((Zpos (XO (XI (XI
    (XI (XO (XO (XI (XI (XI (XO (XO (XO (XO (XO (XO (XI (XI (XO (XI (XI (XI
    (XO (XO (XO (XI (XI (XI (XI (XI
    XH)))))))))))))))))))))))))))))) :: ((Zpos (XO (XO (XI (XO (XI (XI (XO
    (XO (XI (XO (XO (XO (XO (XO (XI (XI (XI (XO (XI (XI (XI (XO (XO (XO (XI
    (XI (XI (XI (XI XH)))))))))))))))))))))))))))))) :: ((Zpos (XO (XO (XI
    (XO (XO (XO (XO (XI (XO (XO (XO (XO (XO (XO (XO (XO (XO (XI (XI (XI (XI
    (XO (XO (XO (XI (XI (XI (XI (XI
    XH)))))))))))))))))))))))))))))) :: ((Zpos (XI (XI (XI (XI (XI (XI (XO
    (XI (XI (XI (XI (XI (XI (XI (XO (XO (XO (XI (XI (XI (XI (XO (XO (XO (XI
    (XI (XI (XI (XI XH)))))))))))))))))))))))))))))) :: ((Zpos (XO (XI (XI
    (XO (XO (XI (XI (XI (XO (XI (XI (XI (XI (XI (XI (XO (XO (XI (XI (XI (XI
    (XO (XO (XO (XI (XI (XI (XI (XI
    XH)))))))))))))))))))))))))))))) :: ((Zpos (XI (XI (XI (XO (XI (XI (XI
    (XI (XI (XO (XI (XI (XI (XI (XO (XI (XO (XI (XI (XI (XI (XO (XO (XO (XI
    (XI (XI (XI (XI XH)))))))))))))))))))))))))))))) :: ((Zpos (XI (XI (XO
    (XO (XI (XI (XI (XI (XO (XO (XI (XI (XI (XI (XI (XI (XO (XI (XI (XI (XI
    (XO (XO (XO (XI (XI (XI (XI (XI
    XH)))))))))))))))))))))))))))))) :: ((Zpos (XO (XI (XO (XI (XI (XO (XI
    (XI (XI (XI (XO (XI (XI (XI (XO (XO (XI (XI (XI (XI (XI (XO (XO (XO (XI
    (XI (XI (XI (XI XH)))))))))))))))))))))))))))))) :: ((Zpos (XO (XO (XI
    (XI (XO (XI (XO (XI (XO (XI (XO (XI (XI (XI (XI (XO (XI (XI (XI (XI (XI
    (XO (XO (XO (XI (XI (XI (XI (XI
    XH)))))))))))))))))))))))))))))) :: ((Zpos (XO (XI (XO (XI (XO (XI (XI
    (XO (XI (XO (XO (XI (XI (XI (XO (XI (XI (XI (XI (XI (XI (XO (XO (XO (XI
    (XI (XI (XI (XI XH)))))))))))))))))))))))))))))) :: ((Zpos (XO (XI (XO
    (XO (XI (XO (XO (XO (XO (XO (XO (XI (XI (XI (XI (XI (XI (XI (XI (XI (XI
    (XO (XO (XO (XI (XI (XI (XI (XI
    XH)))))))))))))))))))))))))))))) :: ((Zpos (XI (XO (XI (XO (XO (XI (XO
    (XI (XO (XI (XI (XO (XI (XI (XO (XO (XO (XO (XO (XO (XO (XI (XO (XO (XI
    (XI (XI (XI (XI XH)))))))))))))))))))))))))))))) :: ((Zpos (XO (XO (XI
    (XO (XO (XI (XO (XO (XI (XO (XI (XO (XI (XI (XI (XO (XO (XO (XO (XO (XO
    (XI (XO (XO (XI (XI (XI (XI (XI
    XH)))))))))))))))))))))))))))))) :: ((Zpos (XO (XI (XI (XI (XO (XO (XO
    (XI (XI (XI (XO (XO (XI (XI (XO (XI (XO (XO (XO (XO (XO (XI (XO (XO (XI
    (XI (XI (XI (XI XH)))))))))))))))))))))))))))))) :: ((Zpos (XI (XI (XO
    (XO (XO (XI (XI (XI (XI (XO (XO (XO (XI (XI (XI (XI (XO (XO (XO (XO (XO
    (XI (XO (XO (XI (XI (XI (XI (XI
    XH)))))))))))))))))))))))))))))) :: ((Zpos (XI (XI (XO (XO (XO (XI (XO
    (XO (XO (XO (XO (XO (XI (XI (XO (XO (XI (XO (XO (XO (XO (XI (XO (XO (XI
    (XI (XI (XI (XI XH)))))))))))))))))))))))))))))) :: ((Zpos (XO (XI (XI
    (XI (XO (XO (XI (XO (XO (XI (XI (XI (XO (XI (XI (XO (XI (XO (XO (XO (XO
    (XI (XO (XO (XI (XI (XI (XI (XI
    XH)))))))))))))))))))))))))))))) :: ((Zpos (XI (XO (XI (XO (XO (XI (XI
    (XO (XO (XO (XI (XI (XO (XI (XO (XI (XI (XO (XO (XO (XO (XI (XO (XO (XI
    (XI (XI (XI (XI XH)))))))))))))))))))))))))))))) :: ((Zpos (XI (XI (XI
    (XO (XO (XI (XI (XO (XO (XI (XO (XI (XO (XI (XI (XI (XI (XO (XO (XO (XO
    (XI (XO (XO (XI (XI (XI (XI (XI
    XH)))))))))))))))))))))))))))))) :: ((Zpos (XO (XO (XI (XO (XI (XO (XI
    (XO (XO (XO (XO (XI (XO (XI (XO (XO (XO (XI (XO (XO (XO (XI (XO (XO (XI
    (XI (XI (XI (XI XH)))))))))))))))))))))))))))))) :: ((Zpos (XI (XO (XI
    (XI (XO (XI (XO (XO (XO (XI (XI (XO (XO (XI (XI (XO (XO (XI (XO (XO (XO
    (XI (XO (XO (XI (XI (XI (XI (XI
    XH)))))))))))))))))))))))))))))) :: ((Zpos (XI (XO (XO (XO (XI (XI (XI
    (XI (XI (XI (XO (XO (XO (XI (XO (XI (XO (XI (XO (XO (XO (XI (XO (XO (XI
    (XI (XI (XI (XI XH)))))))))))))))))))))))))))))) :: ((Zpos (XO (XO (XO
    (XO (XO (XI (XO (XI (XI (XO (XO (XO (XO (XI (XI (XI (XO (XI (XO (XO (XO
    (XI (XO (XO (XI (XI (XI (XI (XI
    XH)))))))))))))))))))))))))))))) :: ((Zpos (XI (XI (XO (XI (XI (XI (XO
    (XO (XI (XI (XI (XI (XI (XO (XO (XO (XI (XI (XO (XO (XO (XI (XO (XO (XI
    (XI (XI (XI (XI XH)))))))))))))))))))))))))))))) :: ((Zpos (XI (XO (XO
    (XO (XO (XO (XI (XI (XO (XO (XI (XI (XI (XO (XI (XO (XI (XI (XO (XO (XO
    (XI (XO (XO (XI (XI (XI (XI (XI
    XH)))))))))))))))))))))))))))))) :: ((Zpos (XI (XI (XO (XO (XI (XI (XO
    (XO (XO (XI (XO (XI (XI (XO (XO (XI (XI (XI (XO (XO (XO (XI (XO (XO (XI
    (XI (XI (XI (XI XH)))))))))))))))))))))))))))))) :: ((Zpos (XO (XO (XO
    (XO (XI (XO (XO (XI (XI (XI (XI (XO (XI (XO (XI (XI (XI (XI (XO (XO (XO
    (XI (XO (XO (XI (XI (XI (XI (XI
    XH)))))))))))))))))))))))))))))) :: ((Zpos (XI (XO (XO (XI (XI (XO (XI
    (XI (XO (XO (XI (XO (XI (XO (XO (XO (XO (XO (XI (XO (XO (XI (XO (XO (XI
    (XI (XI (XI (XI XH)))))))))))))))))))))))))))))) :: ((Zpos (XO (XI (XI
    (XI (XO (XO (XO (XO (XO (XI (XO (XO (XI (XO (XI (XO (XO (XO (XI (XO (XO
    (XI (XO (XO (XI (XI (XI (XI (XI
    XH)))))))))))))))))))))))))))))) :: ((Zpos (XO (XI (XI (XI (XO (XI (XO
    (XO (XI (XI (XI (XI (XO (XO (XO (XI (XO (XO (XI (XO (XO (XI (XO (XO (XI
    (XI (XI (XI (XI XH)))))))))))))))))))))))))))))) :: ((Zpos (XI (XO (XO
    (XI (XI (XI (XO (XO (XO (XO (XI (XI (XO (XO (XI (XI (XO (XO (XI (XO (XO
    (XI (XO (XO (XI (XI (XI (XI (XI
    XH)))))))))))))))))))))))))))))) :: ((Zpos (XI (XO (XO (XO (XI (XI (XO
    (XO (XI (XO (XO (XI (XO (XO (XO (XO (XI (XO (XI (XO (XO (XI (XO (XO (XI
    (XI (XI (XI (XI XH)))))))))))))))))))))))))))))) :: ((Zpos (XI (XI (XO
    (XO (XI (XO (XO (XO (XO (XI (XI (XO (XO (XO (XI (XO (XI (XO (XI (XO (XO
    (XI (XO (XO (XI (XI (XI (XI (XI
    XH)))))))))))))))))))))))))))))) :: ((Zpos (XO (XI (XO (XO (XO (XI (XI
    (XI (XO (XI (XO (XO (XO (XO (XO (XI (XI (XO (XI (XO (XO (XI (XO (XO (XI
    (XI (XI (XI (XI XH)))))))))))))))))))))))))))))) :: ((Zpos (XO (XO (XI
    (XI (XI (XO (XO (XI (XI (XI (XI (XI (XI (XI (XO (XI (XI (XO (XI (XO (XO
    (XI (XO (XO (XI (XI (XI (XI (XI
    XH)))))))))))))))))))))))))))))) :: ((Zpos (XI (XI (XO (XO (XO (XO (XI
    (XO (XO (XO (XI (XI (XI (XI (XI (XI (XI (XO (XI (XO (XO (XI (XO (XO (XI
    (XI (XI (XI (XI XH)))))))))))))))))))))))))))))) :: ((Zpos (XO (XO (XI
    (XO (XI (XO (XI (XI (XO (XO (XO (XI (XI (XI (XO (XO (XO (XI (XI (XO (XO
    (XI (XO (XO (XI (XI (XI (XI (XI
    XH)))))))))))))))))))))))))))))) :: ((Zpos (XO (XI (XO (XO (XI (XO (XI
    (XO (XI (XO (XI (XO (XI (XI (XI (XO (XO (XI (XI (XO (XO (XI (XO (XO (XI
    (XI (XI (XI (XI XH)))))))))))))))))))))))))))))) :: ((Zpos (XO (XO (XI
    (XI (XI (XI (XO (XI (XI (XO (XO (XO (XI (XI (XO (XI (XO (XI (XI (XO (XO
    (XI (XO (XO (XI (XI (XI (XI (XI
    XH)))))))))))))))))))))))))))))) :: ((Zpos (XI (XO (XO (XO (XI (XO (XO
    (XO (XO (XI (XI (XI (XO (XI (XI (XI (XO (XI (XI (XO (XO (XI (XO (XO (XI
    (XI (XI (XI (XI XH)))))))))))))))))))))))))))))) :: ((Zpos (XO (XI (XO
    (XO (XI (XO (XI (XO (XO (XI (XO (XI (XO (XI (XO (XO (XI (XI (XI (XO (XO
    (XI (XO (XO (XI (XI (XI (XI (XI
    XH)))))))))))))))))))))))))))))) :: ((Zpos (XI (XI (XI (XI (XI (XI (XI
    (XO (XO (XI (XI (XO (XO (XI (XI (XO (XI (XI (XI (XO (XO (XI (XO (XO (XI
    (XI (XI (XI (XI XH)))))))))))))))))))))))))))))) :: ((Zpos (XO (XO (XO
    (XI (XI (XO (XO (XI (XO (XI (XO (XO (XO (XI (XO (XI (XI (XI (XI (XO (XO
    (XI (XO (XO (XI (XI (XI (XI (XI
    XH)))))))))))))))))))))))))))))) :: ((Zpos (XO (XI (XI (XI (XI (XO (XO
    (XI (XO (XI (XI (XI (XI (XO (XI (XI (XI (XI (XI (XO (XO (XI (XO (XO (XI
    (XI (XI (XI (XI XH)))))))))))))))))))))))))))))) :: ((Zpos (XI (XI (XI
    (XI (XO (XO (XO (XI (XO (XI (XO (XI (XI (XO (XO (XO (XO (XO (XO (XI (XO
    (XI (XO (XO (XI (XI (XI (XI (XI
    XH)))))))))))))))))))))))))))))) :: ((Zpos (XO (XO (XI (XI (XO (XI (XI
    (XO (XO (XI (XI (XO (XI (XO (XI (XO (XO (XO (XO (XI (XO (XI (XO (XO (XI
    (XI (XI (XI (XI XH)))))))))))))))))))))))))))))) :: ((Zpos (XI (XO (XI
    (XO (XI (XI (XO (XO (XO (XI (XO (XO (XI (XO (XO (XI (XO (XO (XO (XI (XO
    (XI (XO (XO (XI (XI (XI (XI (XI
    XH)))))))))))))))))))))))))))))) :: ((Zpos (XO (XI (XO (XI (XO (XI (XI
    (XI (XI (XO (XI (XI (XO (XO (XI (XI (XO (XO (XO (XI (XO (XI (XO (XO (XI
    (XI (XI (XI (XI XH)))))))))))))))))))))))))))))) :: ((Zpos (XI (XI (XO
    (XI (XO (XO (XO (XI (XI (XO (XO (XI (XO (XO (XO (XO (XI (XO (XO (XI (XO
    (XI (XO (XO (XI (XI (XI (XI (XI
    XH)))))))))))))))))))))))))))))) :: ((Zpos (XI (XO (XO (XI (XI (XO (XO
    (XO (XI (XO (XI (XO (XO (XO (XI (XO (XI (XO (XO (XI (XO (XI (XO (XO (XI
    (XI (XI (XI (XI XH)))))))))))))))))))))))))))))) :: ((Zpos (XO (XI (XO
    (XO (XI (XO (XO (XI (XO (XO (XO (XO (XO (XO (XO (XI (XI (XO (XO (XI (XO
    (XI (XO (XO (XI (XI (XI (XI (XI
    XH)))))))))))))))))))))))))))))) :: ((Zpos (XO (XO (XO (XI (XI (XI (XI
    (XI (XI (XI (XO (XI (XI (XI (XO (XI (XI (XO (XO (XI (XO (XI (XO (XO (XI
    (XI (XI (XI (XI XH)))))))))))))))))))))))))))))) :: ((Zpos (XO (XI (XO
    (XI (XO (XO (XI (XO (XI (XI (XI (XO (XI (XI (XI (XI (XI (XO (XO (XI (XO
    (XI (XO (XO (XI (XI (XI (XI (XI
    XH)))))))))))))))))))))))))))))) :: ((Zpos (XO (XO (XO (XI (XO (XO (XO
    (XI (XO (XI (XO (XO (XI (XI (XO (XO (XO (XI (XO (XI (XO (XI (XO (XO (XI
    (XI (XI (XI (XI XH)))))))))))))))))))))))))))))) :: ((Zpos (XO (XI (XO
    (XO (XI (XI (XO (XI (XI (XO (XI (XI (XO (XI (XI (XO (XO (XI (XO (XI (XO
    (XI (XO (XO (XI (XI (XI (XI (XI
    XH)))))))))))))))))))))))))))))) :: ((Zpos (XI (XO (XO (XI (XO (XO (XI
    (XI (XO (XO (XO (XI (XO (XI (XO (XI (XO (XI (XO (XI (XO (XI (XO (XO (XI
    (XI (XI (XI (XI XH)))))))))))))))))))))))))))))) :: ((Zpos (XO (XO (XI
    (XI (XO (XO (XI (XI (XI (XI (XO (XO (XO (XI (XI (XI (XO (XI (XO (XI (XO
    (XI (XO (XO (XI (XI (XI (XI (XI
    XH)))))))))))))))))))))))))))))) :: ((Zpos (XI (XI (XO (XI (XI (XI (XO
    (XI (XO (XI (XI (XI (XI (XO (XO (XO (XI (XI (XO (XI (XO (XI (XO (XO (XI
    (XI (XI (XI (XI XH)))))))))))))))))))))))))))))) :: ((Zpos (XO (XI (XI
    (XO (XI (XO (XO (XI (XI (XO (XO (XI (XI (XO (XI (XO (XI (XI (XO (XI (XO
    (XI (XO (XO (XI (XI (XI (XI (XI
    XH)))))))))))))))))))))))))))))) :: ((Zpos (XO (XI (XI (XI (XI (XO (XI
    (XO (XO (XO (XI (XO (XI (XO (XO (XI (XI (XI (XO (XI (XO (XI (XO (XO (XI
    (XI (XI (XI (XI XH)))))))))))))))))))))))))))))) :: ((Zpos (XI (XI (XO
    (XO (XI (XO (XO (XO (XI (XI (XI (XI (XO (XO (XI (XI (XI (XI (XO (XI (XO
    (XI (XO (XO (XI (XI (XI (XI (XI
    XH)))))))))))))))))))))))))))))) :: ((Zpos (XI (XI (XO (XO (XI (XI (XO
    (XI (XI (XO (XO (XI (XO (XO (XO (XO (XO (XO (XI (XI (XO (XI (XO (XO (XI
    (XI (XI (XI (XI XH)))))))))))))))))))))))))))))) :: ((Zpos (XI (XO (XO
    (XO (XO (XO (XI (XO (XO (XO (XI (XO (XO (XO (XI (XO (XO (XO (XI (XI (XO
    (XI (XO (XO (XI (XI (XI (XI (XI
    XH)))))))))))))))))))))))))))))) :: ((Zpos (XO (XI (XO (XI (XI (XI (XO
    (XI (XO (XI (XI (XI (XI (XI (XI (XO (XO (XO (XI (XI (XO (XI (XO (XO (XI
    (XI (XI (XI (XI XH)))))))))))))))))))))))))))))) :: ((Zpos (XI (XO (XO
    (XO (XO (XI (XO (XO (XI (XO (XO (XI (XI (XI (XO (XI (XO (XO (XI (XI (XO
    (XI (XO (XO (XI (XI (XI (XI (XI
    XH)))))))))))))))))))))))))))))) :: ((Zpos (XI (XI (XO (XO (XI (XI (XI
    (XO (XI (XI (XO (XO (XI (XI (XI (XI (XO (XO (XI (XI (XO (XI (XO (XO (XI
    (XI (XI (XI (XI XH)))))))))))))))))))))))))))))) :: ((Zpos (XI (XI (XO
    (XO (XI (XI (XO (XI (XI (XO (XI (XI (XO (XI (XO (XO (XI (XO (XI (XI (XO
    (XI (XO (XO (XI (XI (XI (XI (XI
    XH)))))))))))))))))))))))))))))) :: ((Zpos (XO (XI (XI (XI (XI (XO (XI
    (XI (XI (XI (XI (XO (XO (XI (XI (XO (XI (XO (XI (XI (XO (XI (XO (XO (XI
    (XI (XI (XI (XI XH)))))))))))))))))))))))))))))) :: ((Zpos (XI (XI (XI
    (XO (XI (XI (XI (XI (XI (XO (XO (XO (XO (XI (XO (XI (XI (XO (XI (XI (XO
    (XI (XO (XO (XI (XI (XI (XI (XI
    XH)))))))))))))))))))))))))))))) :: ((Zpos (XO (XO (XI (XI (XI (XI (XI
    (XI (XI (XI (XO (XI (XI (XO (XI (XI (XI (XO (XI (XI (XO (XI (XO (XO (XI
    (XI (XI (XI (XI XH)))))))))))))))))))))))))))))) :: ((Zpos (XO (XI (XI
    (XI (XO (XI (XI (XI (XI (XO (XI (XO (XI (XO (XO (XO (XO (XI (XI (XI (XO
    (XI (XO (XO (XI (XI (XI (XI (XI
    XH)))))))))))))))))))))))))))))) :: ((Zpos (XO (XO (XI (XI (XO (XO (XI
    (XI (XI (XI (XI (XI (XO (XO (XI (XO (XO (XI (XI (XI (XO (XI (XO (XO (XI
    (XI (XI (XI (XI XH)))))))))))))))))))))))))))))) :: ((Zpos (XI (XI (XI
    (XO (XI (XO (XO (XI (XI (XO (XO (XI (XO (XO (XO (XI (XO (XI (XI (XI (XO
    (XI (XO (XO (XI (XI (XI (XI (XI
    XH)))))))))))))))))))))))))))))) :: ((Zpos (XI (XI (XI (XI (XO (XO (XI
    (XO (XI (XI (XO (XO (XO (XO (XI (XI (XO (XI (XI (XI (XO (XI (XO (XO (XI
    (XI (XI (XI (XI XH)))))))))))))))))))))))))))))) :: ((Zpos (XO (XO (XI
    (XO (XI (XI (XI (XI (XO (XO (XI (XI (XI (XI (XI (XI (XO (XI (XI (XI (XO
    (XI (XO (XO (XI (XI (XI (XI (XI
    XH)))))))))))))))))))))))))))))) :: ((Zpos (XI (XO (XI (XO (XO (XO (XO
    (XI (XO (XI (XI (XO (XI (XI (XO (XO (XI (XI (XI (XI (XO (XI (XO (XO (XI
    (XI (XI (XI (XI XH)))))))))))))))))))))))))))))) :: ((Zpos (XI (XI (XO
    (XO (XO (XO (XO (XO (XO (XO (XO (XO (XI (XI (XI (XO (XI (XI (XI (XI (XO
    (XI (XO (XO (XI (XI (XI (XI (XI
    XH)))))))))))))))))))))))))))))) :: ((Zpos (XI (XI (XI (XI (XO (XI (XI
    (XO (XI (XO (XO (XI (XO (XI (XO (XI (XI (XI (XI (XI (XO (XI (XO (XO (XI
    (XI (XI (XI (XI XH)))))))))))))))))))))))))))))) :: ((Zpos (XO (XI (XI
    (XO (XO (XO (XI (XI (XO (XI (XO (XO (XO (XI (XI (XI (XI (XI (XI (XI (XO
    (XI (XO (XO (XI (XI (XI (XI (XI
    XH)))))))))))))))))))))))))))))) :: ((Zpos (XI (XI (XO (XI (XO (XO (XO
    (XO (XO (XO (XI (XI (XI (XO (XO (XO (XO (XO (XO (XO (XI (XI (XO (XO (XI
    (XI (XI (XI (XI XH)))))))))))))))))))))))))))))) :: ((Zpos (XI (XO (XI
    (XI (XI (XI (XO (XO (XI (XO (XI (XO (XI (XO (XI (XO (XO (XO (XO (XO (XI
    (XI (XO (XO (XI (XI (XI (XI (XI
    XH)))))))))))))))))))))))))))))) :: ((Zpos (XI (XI (XO (XI (XI (XO (XI
    (XO (XO (XI (XI (XI (XO (XO (XO (XI (XO (XO (XO (XO (XI (XI (XO (XO (XI
    (XI (XI (XI (XI XH)))))))))))))))))))))))))))))) :: ((Zpos (XI (XI (XI
    (XO (XO (XI (XI (XO (XI (XI (XI (XO (XO (XO (XI (XI (XO (XO (XO (XO (XI
    (XI (XO (XO (XI (XI (XI (XI (XI
    XH)))))))))))))))))))))))))))))) :: ((Zpos (XO (XO (XO (XO (XO (XI (XI
    (XO (XO (XO (XO (XO (XO (XO (XO (XO (XI (XO (XO (XO (XI (XI (XO (XO (XI
    (XI (XI (XI (XI XH)))))))))))))))))))))))))))))) :: ((Zpos (XI (XO (XI
    (XO (XO (XO (XI (XO (XI (XO (XO (XI (XI (XI (XO (XO (XI (XO (XO (XO (XI
    (XI (XO (XO (XI (XI (XI (XI (XI
    XH)))))))))))))))))))))))))))))) :: ((Zpos (XO (XO (XO (XI (XI (XO (XO
    (XO (XO (XI (XO (XO (XI (XI (XI (XO (XI (XO (XO (XO (XI (XI (XO (XO (XI
    (XI (XI (XI (XI XH)))))))))))))))))))))))))))))) :: ((Zpos (XI (XI (XI
    (XO (XI (XO (XI (XI (XO (XI (XO (XI (XO (XI (XO (XI (XI (XO (XO (XO (XI
    (XI (XO (XO (XI (XI (XI (XI (XI
    XH)))))))))))))))))))))))))))))) :: ((Zpos (XO (XO (XI (XO (XO (XO (XO
    (XI (XI (XI (XO (XO (XO (XI (XI (XI (XI (XO (XO (XO (XI (XI (XO (XO (XI
    (XI (XI (XI (XI XH)))))))))))))))))))))))))))))) :: ((Zpos (XO (XI (XI
    (XI (XI (XO (XO (XO (XO (XO (XI (XI (XI (XO (XO (XO (XO (XI (XO (XO (XI
    (XI (XO (XO (XI (XI (XI (XI (XI
    XH)))))))))))))))))))))))))))))) :: ((Zpos (XI (XO (XI (XO (XO (XI (XO
    (XI (XO (XO (XI (XO (XI (XO (XI (XO (XO (XI (XO (XO (XI (XI (XO (XO (XI
    (XI (XI (XI (XI XH)))))))))))))))))))))))))))))) :: ((Zpos (XI (XO (XO
    (XI (XI (XO (XO (XO (XI (XO (XI (XI (XO (XO (XO (XI (XO (XI (XO (XO (XI
    (XI (XO (XO (XI (XI (XI (XI (XI
    XH)))))))))))))))))))))))))))))) :: ((Zpos (XO (XI (XO (XI (XI (XI (XI
    (XO (XI (XO (XI (XO (XO (XO (XI (XI (XO (XI (XO (XO (XI (XI (XO (XO (XI
    (XI (XI (XI (XI XH)))))))))))))))))))))))))))))) :: ((Zpos (XO (XO (XO
    (XI (XO (XO (XI (XI (XI (XO (XI (XI (XI (XI (XI (XI (XO (XI (XO (XO (XI
    (XI (XO (XO (XI (XI (XI (XI (XI
    XH)))))))))))))))))))))))))))))) :: ((Zpos (XO (XO (XI (XO (XO (XO (XO
    (XO (XO (XI (XI (XO (XI (XI (XO (XO (XI (XI (XO (XO (XI (XI (XO (XO (XI
    (XI (XI (XI (XI XH)))))))))))))))))))))))))))))) :: ((Zpos (XI (XO (XI
    (XI (XO (XI (XO (XO (XO (XI (XI (XI (XO (XI (XI (XO (XI (XI (XO (XO (XI
    (XI (XO (XO (XI (XI (XI (XI (XI
    XH)))))))))))))))))))))))))))))) :: ((Zpos (XI (XI (XO (XO (XO (XO (XI
    (XO (XO (XI (XI (XO (XO (XI (XO (XI (XI (XI (XO (XO (XI (XI (XO (XO (XI
    (XI (XI (XI (XI XH)))))))))))))))))))))))))))))) :: ((Zpos (XI (XI (XI
    (XO (XO (XO (XI (XO (XO (XI (XI (XI (XI (XO (XI (XI (XI (XI (XO (XO (XI
    (XI (XO (XO (XI (XI (XI (XI (XI
    XH)))))))))))))))))))))))))))))) :: ((Zpos (XO (XO (XO (XI (XI (XI (XO
    (XO (XO (XI (XI (XO (XI (XO (XO (XO (XO (XO (XI (XO (XI (XI (XO (XO (XI
    (XI (XI (XI (XI XH)))))))))))))))))))))))))))))) :: ((Zpos (XO (XI (XI
    (XO (XI (XO (XO (XO (XO (XI (XI (XI (XO (XO (XI (XO (XO (XO (XI (XO (XI
    (XI (XO (XO (XI (XI (XI (XI (XI
    XH)))))))))))))))))))))))))))))) :: ((Zpos (XI (XO (XO (XO (XO (XI (XI
    (XI (XI (XO (XI (XO (XO (XO (XO (XI (XO (XO (XI (XO (XI (XI (XO (XO (XI
    (XI (XI (XI (XI XH)))))))))))))))))))))))))))))) :: ((Zpos (XO (XI (XO
    (XI (XI (XO (XO (XI (XI (XO (XI (XI (XI (XI (XO (XI (XO (XO (XI (XO (XI
    (XI (XO (XO (XI (XI (XI (XI (XI
    XH)))))))))))))))))))))))))))))) :: ((Zpos (XI (XO (XO (XO (XO (XO (XI
    (XO (XI (XO (XI (XO (XI (XI (XI (XI (XO (XO (XI (XO (XI (XI (XO (XO (XI
    (XI (XI (XI (XI XH)))))))))))))))))))))))))))))) :: ((Zpos (XO (XO (XI
    (XO (XI (XO (XI (XI (XO (XO (XI (XI (XO (XI (XO (XO (XI (XO (XI (XO (XI
    (XI (XO (XO (XI (XI (XI (XI (XI
    XH)))))))))))))))))))))))))))))) :: ((Zpos (XO (XI (XI (XO (XI (XO (XI
    (XO (XO (XO (XI (XO (XO (XI (XI (XO (XI (XO (XI (XO (XI (XI (XO (XO (XI
    (XI (XI (XI (XI XH)))))))))))))))))))))))))))))) :: ((Zpos (XO (XO (XI
    (XO (XO (XO (XI (XI (XI (XI (XO (XI (XI (XO (XO (XI (XI (XO (XI (XO (XI
    (XI (XO (XO (XI (XI (XI (XI (XI
    XH)))))))))))))))))))))))))))))) :: ((Zpos (XI (XO (XO (XO (XO (XI (XO
    (XO (XI (XI (XO (XO (XI (XO (XI (XI (XI (XO (XI (XO (XI (XI (XO (XO (XI
    (XI (XI (XI (XI XH)))))))))))))))))))))))))))))) :: ((Zpos (XI (XI (XO
    (XI (XO (XI (XI (XO (XO (XI (XO (XI (XO (XO (XO (XO (XO (XI (XI (XO (XI
    (XI (XO (XO (XI (XI (XI (XI (XI
    XH)))))))))))))))))))))))))))))) :: ((Zpos (XO (XI (XO (XO (XO (XI (XO
    (XI (XI (XO (XO (XO (XO (XO (XI (XO (XO (XI (XI (XO (XI (XI (XO (XO (XI
    (XI (XI (XI (XI XH)))))))))))))))))))))))))))))) :: ((Zpos (XI (XI (XI
    (XO (XO (XO (XI (XI (XO (XO (XO (XI (XI (XI (XI (XO (XO (XI (XI (XO (XI
    (XI (XO (XO (XI (XI (XI (XI (XI
    XH)))))))))))))))))))))))))))))) :: ((Zpos (XI (XO (XO (XI (XI (XO (XI
    (XI (XI (XI (XI (XI (XO (XI (XO (XI (XO (XI (XI (XO (XI (XI (XO (XO (XI
    (XI (XI (XI (XI XH)))))))))))))))))))))))))))))) :: ((Zpos (XO (XI (XO
    (XI (XI (XO (XI (XI (XO (XI (XI (XO (XO (XI (XI (XI (XO (XI (XI (XO (XI
    (XI (XO (XO (XI (XI (XI (XI (XI
    XH)))))))))))))))))))))))))))))) :: ((Zpos (XO (XO (XO (XI (XO (XO (XI
    (XI (XI (XO (XI (XI (XI (XO (XO (XO (XI (XI (XI (XO (XI (XI (XO (XO (XI
    (XI (XI (XI (XI XH)))))))))))))))))))))))))))))) :: ((Zpos (XI (XI (XO
    (XO (XO (XI (XO (XI (XO (XO (XI (XO (XI (XO (XI (XO (XI (XI (XI (XO (XI
    (XI (XO (XO (XI (XI (XI (XI (XI
    XH)))))))))))))))))))))))))))))) :: ((Zpos (XO (XO (XI (XI (XO (XI (XI
    (XO (XI (XI (XO (XI (XO (XO (XO (XI (XI (XI (XI (XO (XI (XI (XO (XO (XI
    (XI (XI (XI (XI XH)))))))))))))))))))))))))))))) :: ((Zpos (XI (XI (XO
    (XO (XO (XI (XO (XO (XO (XI (XO (XO (XO (XO (XI (XI (XI (XI (XI (XO (XI
    (XI (XO (XO (XI (XI (XI (XI (XI
    XH)))))))))))))))))))))))))))))) :: ((Zpos (XO (XO (XO (XI (XO (XO (XI
    (XI (XO (XO (XO (XI (XI (XI (XI (XI (XI (XI (XI (XO (XI (XI (XO (XO (XI
    (XI (XI (XI (XI XH)))))))))))))))))))))))))))))) :: ((Zpos (XI (XI (XO
    (XI (XI (XO (XI (XO (XI (XI (XI (XI (XO (XI (XO (XO (XO (XO (XO (XI (XI
    (XI (XO (XO (XI (XI (XI (XI (XI
    XH)))))))))))))))))))))))))))))) :: ((Zpos (XI (XI (XO (XI (XI (XO (XI
    (XI (XI (XO (XI (XO (XO (XI (XI (XO (XO (XO (XO (XI (XI (XI (XO (XO (XI
    (XI (XI (XI (XI XH)))))))))))))))))))))))))))))) :: ((Zpos (XI (XO (XO
    (XI (XO (XO (XI (XO (XO (XO (XI (XI (XI (XO (XO (XI (XO (XO (XO (XI (XI
    (XI (XO (XO (XI (XI (XI (XI (XI
    XH)))))))))))))))))))))))))))))) :: ((Zpos (XI (XO (XI (XO (XO (XI (XO
    (XI (XO (XI (XO (XO (XI (XO (XI (XI (XO (XO (XO (XI (XI (XI (XO (XO (XI
    (XI (XI (XI (XI XH)))))))))))))))))))))))))))))) :: ((Zpos (XI (XI (XI
    (XI (XO (XI (XI (XI (XO (XO (XO (XI (XO (XO (XO (XO (XI (XO (XO (XI (XI
    (XI (XO (XO (XI (XI (XI (XI (XI
    XH)))))))))))))))))))))))))))))) :: ((Zpos (XI (XI (XI (XO (XO (XI (XO
    (XO (XI (XI (XI (XI (XI (XI (XO (XO (XI (XO (XO (XI (XI (XI (XO (XO (XI
    (XI (XI (XI (XI XH)))))))))))))))))))))))))))))) :: ((Zpos (XI (XO (XI
    (XI (XO (XO (XI (XO (XI (XO (XI (XO (XI (XI (XI (XO (XI (XO (XO (XI (XI
    (XI (XO (XO (XI (XI (XI (XI (XI
    XH)))))))))))))))))))))))))))))) :: ((Zpos (XO (XO (XO (XO (XO (XI (XI
    (XO (XI (XI (XO (XI (XO (XI (XO (XI (XI (XO (XO (XI (XI (XI (XO (XO (XI
    (XI (XI (XI (XI XH)))))))))))))))))))))))))))))) :: ((Zpos (XO (XI (XO
    (XO (XO (XI (XI (XO (XI (XO (XO (XO (XO (XI (XI (XI (XI (XO (XO (XI (XI
    (XI (XO (XO (XI (XI (XI (XI (XI
    XH)))))))))))))))))))))))))))))) :: ((Zpos (XO (XI (XO (XO (XI (XO (XI
    (XO (XI (XI (XI (XO (XI (XO (XO (XO (XO (XI (XO (XI (XI (XI (XO (XO (XI
    (XI (XI (XI (XI XH)))))))))))))))))))))))))))))) :: ((Zpos (XI (XI (XI
    (XI (XO (XI (XO (XO (XI (XO (XI (XI (XO (XO (XI (XO (XO (XI (XO (XI (XI
    (XI (XO (XO (XI (XI (XI (XI (XI
    XH)))))))))))))))))))))))))))))) :: ((Zpos (XI (XI (XO (XI (XI (XI (XI
    (XI (XO (XI (XO (XO (XO (XO (XO (XI (XO (XI (XO (XI (XI (XI (XO (XO (XI
    (XI (XI (XI (XI XH)))))))))))))))))))))))))))))) :: ((Zpos (XI (XO (XI
    (XO (XI (XI (XO (XI (XO (XO (XO (XI (XI (XI (XO (XI (XO (XI (XO (XI (XI
    (XI (XO (XO (XI (XI (XI (XI (XI
    XH)))))))))))))))))))))))))))))) :: ((Zpos (XO (XO (XI (XI (XI (XO (XI
    (XO (XO (XI (XI (XI (XO (XI (XI (XI (XO (XI (XO (XI (XI (XI (XO (XO (XI
    (XI (XI (XI (XI XH)))))))))))))))))))))))))))))) :: ((Zpos (XO (XI (XO
    (XO (XI (XI (XI (XI (XI (XI (XO (XO (XO (XI (XO (XO (XI (XI (XO (XI (XI
    (XI (XO (XO (XI (XI (XI (XI (XI
    XH)))))))))))))))))))))))))))))) :: ((Zpos (XO (XI (XI (XO (XI (XI (XI
    (XO (XI (XO (XO (XI (XI (XO (XI (XO (XI (XI (XO (XI (XI (XI (XO (XO (XI
    (XI (XI (XI (XI XH)))))))))))))))))))))))))))))) :: ((Zpos (XI (XO (XO
    (XI (XO (XI (XI (XI (XO (XI (XI (XI (XO (XO (XO (XI (XI (XI (XO (XI (XI
    (XI (XO (XO (XI (XI (XI (XI (XI
    XH)))))))))))))))))))))))))))))) :: ((Zpos (XI (XO (XO (XI (XO (XO (XI
    (XO (XO (XO (XI (XO (XO (XO (XI (XI (XI (XI (XO (XI (XI (XI (XO (XO (XI
    (XI (XI (XI (XI XH)))))))))))))))))))))))))))))) :: ((Zpos (XO (XO (XO
    (XI (XI (XO (XO (XI (XI (XO (XO (XI (XI (XI (XI (XI (XI (XI (XO (XI (XI
    (XI (XO (XO (XI (XI (XI (XI (XI
    XH)))))))))))))))))))))))))))))) :: ((Zpos (XO (XO (XI (XO (XI (XO (XI
    (XI (XO (XI (XI (XI (XO (XI (XO (XO (XO (XO (XI (XI (XI (XI (XO (XO (XI
    (XI (XI (XI (XI XH)))))))))))))))))))))))))))))) :: ((Zpos (XO (XO (XO
    (XO (XO (XO (XO (XO (XO (XO (XI (XO (XO (XI (XI (XO (XO (XO (XI (XI (XI
    (XI (XO (XO (XI (XI (XI (XI (XI
    XH)))))))))))))))))))))))))))))) :: ((Zpos (XI (XO (XO (XI (XI (XO (XO
    (XO (XI (XO (XO (XI (XI (XO (XO (XI (XO (XO (XI (XI (XI (XI (XO (XO (XI
    (XI (XI (XI (XI XH)))))))))))))))))))))))))))))) :: ((Zpos (XI (XO (XO
    (XO (XO (XI (XO (XO (XO (XI (XI (XI (XO (XO (XI (XI (XO (XO (XI (XI (XI
    (XI (XO (XO (XI (XI (XI (XI (XI
    XH)))))))))))))))))))))))))))))) :: ((Zpos (XO (XI (XI (XO (XI (XO (XO
    (XO (XI (XI (XO (XO (XO (XO (XO (XO (XI (XO (XI (XI (XI (XI (XO (XO (XI
    (XI (XI (XI (XI XH)))))))))))))))))))))))))))))) :: ((Zpos (XI (XI (XO
    (XI (XI (XI (XI (XI (XI (XI (XI (XO (XI (XI (XO (XO (XI (XO (XI (XI (XI
    (XI (XO (XO (XI (XI (XI (XI (XI
    XH)))))))))))))))))))))))))))))) :: ((Zpos (XI (XO (XI (XI (XO (XO (XI
    (XI (XO (XO (XI (XI (XO (XI (XI (XO (XI (XO (XI (XI (XI (XI (XO (XO (XI
    (XI (XI (XI (XI XH)))))))))))))))))))))))))))))) :: ((Zpos (XO (XI (XI
    (XI (XO (XO (XO (XI (XI (XO (XO (XO (XO (XI (XO (XI (XI (XO (XI (XI (XI
    (XI (XO (XO (XI (XI (XI (XI (XI
    XH)))))))))))))))))))))))))))))) :: ((Zpos (XO (XI (XI (XI (XI (XI (XO
    (XO (XO (XI (XI (XO (XI (XO (XI (XI (XI (XO (XI (XI (XI (XI (XO (XO (XI
    (XI (XI (XI (XI XH)))))))))))))))))))))))))))))) :: ((Zpos (XO (XO (XI
    (XI (XI (XO (XI (XI (XO (XI (XO (XI (XO (XO (XO (XO (XO (XI (XI (XI (XI
    (XI (XO (XO (XI (XI (XI (XI (XI
    XH)))))))))))))))))))))))))))))) :: ((Zpos (XO (XO (XO (XI (XO (XI (XI
    (XO (XI (XI (XI (XI (XI (XI (XO (XO (XO (XI (XI (XI (XI (XI (XO (XO (XI
    (XI (XI (XI (XI XH)))))))))))))))))))))))))))))) :: ((Zpos (XI (XI (XO
    (XO (XO (XI (XI (XI (XI (XI (XO (XO (XI (XI (XI (XO (XO (XI (XI (XI (XI
    (XI (XO (XO (XI (XI (XI (XI (XI
    XH)))))))))))))))))))))))))))))) :: ((Zpos (XO (XO (XI (XI (XO (XO (XI
    (XO (XO (XO (XO (XI (XO (XI (XO (XI (XO (XI (XI (XI (XI (XI (XO (XO (XI
    (XI (XI (XI (XI XH)))))))))))))))))))))))))))))) :: ((Zpos (XO (XO (XI
    (XO (XO (XI (XO (XI (XO (XO (XI (XI (XI (XO (XI (XI (XO (XI (XI (XI (XI
    (XI (XO (XO (XI (XI (XI (XI (XI
    XH)))))))))))))))))))))))))))))) :: ((Zpos (XI (XI (XO (XI (XO (XI (XI
    (XI (XO (XO (XO (XO (XI (XO (XO (XO (XI (XI (XI (XI (XI (XI (XO (XO (XI
    (XI (XI (XI (XI XH)))))))))))))))))))))))))))))) :: ((Zpos (XO (XO (XO
    (XO (XO (XI (XO (XO (XI (XO (XI (XO (XO (XO (XI (XO (XI (XI (XI (XI (XI
    (XI (XO (XO (XI (XI (XI (XI (XI
    XH)))))))))))))))))))))))))))))) :: ((Zpos (XI (XI (XO (XO (XO (XO (XI
    (XO (XI (XO (XO (XI (XI (XI (XI (XO (XI (XI (XI (XI (XI (XI (XO (XO (XI
    (XI (XI (XI (XI XH)))))))))))))))))))))))))))))) :: ((Zpos (XI (XO (XI
    (XO (XI (XO (XI (XO (XI (XO (XI (XI (XO (XI (XO (XI (XI (XI (XI (XI (XI
    (XI (XO (XO (XI (XI (XI (XI (XI
    XH)))))))))))))))))))))))))))))) :: ((Zpos (XO (XI (XI (XO (XI (XO (XI
    (XO (XI (XO (XO (XO (XO (XI (XI (XI (XI (XI (XI (XI (XI (XI (XO (XO (XI
    (XI (XI (XI (XI XH)))))))))))))))))))))))))))))) :: ((Zpos (XO (XI (XI
    (XO (XO (XO (XI (XO (XI (XO (XI (XO (XI (XO (XO (XO (XO (XO (XO (XO (XO
    (XO (XI (XO (XI (XI (XI (XI (XI
    XH)))))))))))))))))))))))))))))) :: ((Zpos (XO (XO (XI (XO (XO (XI (XO
    (XO (XI (XO (XO (XI (XO (XO (XI (XO (XO (XO (XO (XO (XO (XO (XI (XO (XI
    (XI (XI (XI (XI XH)))))))))))))))))))))))))))))) :: ((Zpos (XI (XO (XO
    (XO (XI (XI (XI (XI (XO (XO (XI (XI (XI (XI (XI (XO (XO (XO (XO (XO (XO
    (XO (XI (XO (XI (XI (XI (XI (XI
    XH)))))))))))))))))))))))))))))) :: ((Zpos (XO (XO (XI (XI (XO (XI (XO
    (XI (XO (XO (XO (XO (XI (XI (XO (XI (XO (XO (XO (XO (XO (XO (XI (XO (XI
    (XI (XI (XI (XI XH)))))))))))))))))))))))))))))) :: ((Zpos (XO (XI (XI
    (XO (XI (XO (XI (XO (XO (XO (XI (XO (XO (XI (XI (XI (XO (XO (XO (XO (XO
    (XO (XI (XO (XI (XI (XI (XI (XI
    XH)))))))))))))))))))))))))))))) :: ((Zpos (XO (XO (XO (XO (XI (XI (XI
    (XI (XI (XI (XI (XO (XI (XO (XO (XO (XI (XO (XO (XO (XO (XO (XI (XO (XI
    (XI (XI (XI (XI XH)))))))))))))))))))))))))))))) :: ((Zpos (XI (XI (XI
    (XO (XI (XI (XI (XO (XI (XI (XO (XI (XO (XO (XI (XO (XI (XO (XO (XO (XO
    (XO (XI (XO (XI (XI (XI (XI (XI
    XH)))))))))))))))))))))))))))))) :: ((Zpos (XO (XI (XI (XI (XO (XI (XI
    (XI (XO (XI (XI (XI (XI (XI (XI (XO (XI (XO (XO (XO (XO (XO (XI (XO (XI
    (XI (XI (XI (XI XH)))))))))))))))))))))))))))))) :: ((Zpos (XO (XO (XI
    (XO (XI (XO (XI (XO (XO (XI (XO (XO (XI (XI (XO (XI (XI (XO (XO (XO (XO
    (XO (XI (XO (XI (XI (XI (XI (XI
    XH)))))))))))))))))))))))))))))) :: ((Zpos (XO (XO (XO (XI (XO (XI (XO
    (XI (XI (XO (XI (XO (XO (XI (XI (XI (XI (XO (XO (XO (XO (XO (XI (XO (XI
    (XI (XI (XI (XI XH)))))))))))))))))))))))))))))) :: ((Zpos (XI (XI (XO
    (XI (XO (XI (XI (XI (XO (XO (XO (XI (XI (XO (XO (XO (XO (XI (XO (XO (XO
    (XO (XI (XO (XI (XI (XI (XI (XI
    XH)))))))))))))))))))))))))))))) :: ((Zpos (XO (XI (XI (XI (XI (XO (XO
    (XO (XO (XO (XI (XI (XO (XO (XI (XO (XO (XI (XO (XO (XO (XO (XI (XO (XI
    (XI (XI (XI (XI XH)))))))))))))))))))))))))))))) :: ((Zpos (XI (XI (XI
    (XI (XI (XI (XO (XO (XI (XI (XI (XI (XI (XI (XI (XO (XO (XI (XO (XO (XO
    (XO (XI (XO (XI (XI (XI (XI (XI
    XH)))))))))))))))))))))))))))))) :: ((Zpos (XI (XI (XI (XI (XO (XO (XI
    (XO (XO (XI (XO (XO (XI (XI (XO (XI (XO (XI (XO (XO (XO (XO (XI (XO (XI
    (XI (XI (XI (XI XH)))))))))))))))))))))))))))))) :: ((Zpos (XO (XI (XI
    (XI (XO (XO (XI (XO (XI (XO (XI (XO (XO (XI (XI (XI (XO (XI (XO (XO (XO
    (XO (XI (XO (XI (XI (XI (XI (XI
    XH)))))))))))))))))))))))))))))) :: ((Zpos (XO (XO (XI (XI (XI (XI (XO
    (XO (XO (XO (XO (XI (XI (XO (XO (XO (XI (XI (XO (XO (XO (XO (XI (XO (XI
    (XI (XI (XI (XI XH)))))))))))))))))))))))))))))) :: ((Zpos (XI (XO (XO
    (XI (XI (XO (XO (XO (XI (XI (XO (XI (XO (XO (XI (XO (XI (XI (XO (XO (XO
    (XO (XI (XO (XI (XI (XI (XI (XI
    XH)))))))))))))))))))))))))))))) :: ((Zpos (XI (XO (XI (XO (XO (XI (XI
    (XI (XI (XO (XI (XI (XI (XI (XI (XO (XI (XI (XO (XO (XO (XO (XI (XO (XI
    (XI (XI (XI (XI XH)))))))))))))))))))))))))))))) :: ((Zpos (XO (XO (XO
    (XO (XO (XI (XO (XI (XO (XO (XO (XO (XI (XI (XO (XI (XI (XI (XO (XO (XO
    (XO (XI (XO (XI (XI (XI (XI (XI
    XH)))))))))))))))))))))))))))))) :: ((Zpos (XI (XI (XO (XI (XO (XO (XI
    (XO (XI (XI (XO (XO (XO (XI (XI (XI (XI (XI (XO (XO (XO (XO (XI (XO (XI
    (XI (XI (XI (XI XH)))))))))))))))))))))))))))))) :: ((Zpos (XO (XO (XI
    (XO (XO (XI (XI (XI (XI (XO (XI (XO (XI (XO (XO (XO (XO (XO (XI (XO (XO
    (XO (XI (XO (XI (XI (XI (XI (XI
    XH)))))))))))))))))))))))))))))) :: ((Zpos (XI (XO (XI (XI (XO (XI (XI
    (XO (XO (XO (XO (XI (XO (XO (XI (XO (XO (XO (XI (XO (XO (XO (XI (XO (XI
    (XI (XI (XI (XI XH)))))))))))))))))))))))))))))) :: ((Zpos (XO (XO (XI
    (XO (XO (XI (XI (XI (XO (XI (XO (XI (XI (XI (XI (XO (XO (XO (XI (XO (XO
    (XO (XI (XO (XI (XI (XI (XI (XI
    XH)))))))))))))))))))))))))))))) :: ((Zpos (XI (XI (XO (XI (XO (XO (XI
    (XO (XI (XO (XI (XI (XO (XI (XO (XI (XO (XO (XI (XO (XO (XO (XI (XO (XI
    (XI (XI (XI (XI XH)))))))))))))))))))))))))))))) :: ((Zpos (XI (XO (XO
    (XO (XO (XI (XO (XI (XI (XI (XI (XI (XI (XO (XI (XI (XO (XO (XI (XO (XO
    (XO (XI (XO (XI (XI (XI (XI (XI
    XH)))))))))))))))))))))))))))))) :: ((Zpos (XO (XI (XI (XO (XO (XI (XI
    (XI (XI (XO (XO (XO (XI (XO (XO (XO (XI (XO (XI (XO (XO (XO (XI (XO (XI
    (XI (XI (XI (XI XH)))))))))))))))))))))))))))))) :: ((Zpos (XI (XI (XO
    (XI (XI (XO (XO (XO (XO (XO (XI (XO (XO (XO (XI (XO (XI (XO (XI (XO (XO
    (XO (XI (XO (XI (XI (XI (XI (XI
    XH)))))))))))))))))))))))))))))) :: ((Zpos (XI (XI (XI (XI (XI (XI (XO
    (XO (XO (XI (XI (XO (XI (XI (XI (XO (XI (XO (XI (XO (XO (XO (XI (XO (XI
    (XI (XI (XI (XI XH)))))))))))))))))))))))))))))) :: ((Zpos (XO (XI (XO
    (XO (XI (XO (XI (XO (XO (XO (XO (XI (XO (XI (XO (XI (XI (XO (XI (XO (XO
    (XO (XI (XO (XI (XI (XI (XI (XI
    XH)))))))))))))))))))))))))))))) :: ((Zpos (XO (XO (XI (XO (XI (XO (XI
    (XO (XO (XI (XO (XI (XI (XO (XI (XI (XI (XO (XI (XO (XO (XO (XI (XO (XI
    (XI (XI (XI (XI XH)))))))))))))))))))))))))))))) :: ((Zpos (XI (XO (XI
    (XO (XO (XO (XI (XO (XO (XO (XI (XI (XO (XO (XO (XO (XO (XI (XI (XO (XO
    (XO (XI (XO (XI (XI (XI (XI (XI
    XH)))))))))))))))))))))))))))))) :: ((Zpos (XO (XI (XI (XO (XO (XI (XO
    (XO (XO (XI (XI (XI (XI (XI (XO (XO (XO (XI (XI (XO (XO (XO (XI (XO (XI
    (XI (XI (XI (XI XH)))))))))))))))))))))))))))))) :: ((Zpos (XI (XI (XI
    (XO (XI (XI (XI (XI (XI (XI (XI (XI (XO (XI (XI (XO (XO (XI (XI (XO (XO
    (XO (XI (XO (XI (XI (XI (XI (XI
    XH)))))))))))))))))))))))))))))) :: ((Zpos (XI (XI (XI (XO (XI (XI (XO
    (XI (XI (XO (XO (XO (XO (XI (XO (XI (XO (XI (XI (XO (XO (XO (XI (XO (XI
    (XI (XI (XI (XI XH)))))))))))))))))))))))))))))) :: ((Zpos (XO (XI (XI
    (XO (XO (XI (XI (XO (XI (XI (XO (XO (XI (XO (XI (XI (XO (XI (XI (XO (XO
    (XO (XI (XO (XI (XI (XI (XI (XI
    XH)))))))))))))))))))))))))))))) :: ((Zpos (XO (XO (XI (XO (XO (XO (XO
    (XO (XI (XO (XI (XO (XO (XO (XO (XO (XI (XI (XI (XO (XO (XO (XI (XO (XI
    (XI (XI (XI (XI XH)))))))))))))))))))))))))))))) :: ((Zpos (XO (XI (XO
    (XO (XI (XO (XO (XI (XO (XI (XI (XO (XI (XI (XO (XO (XI (XI (XI (XO (XO
    (XO (XI (XO (XI (XI (XI (XI (XI
    XH)))))))))))))))))))))))))))))) :: ((Zpos (XO (XO (XO (XO (XI (XO (XO
    (XO (XO (XO (XO (XI (XO (XI (XI (XO (XI (XI (XI (XO (XO (XO (XI (XO (XI
    (XI (XI (XI (XI XH)))))))))))))))))))))))))))))) :: ((Zpos (XI (XO (XI
    (XI (XI (XI (XI (XO (XI (XO (XO (XI (XI (XO (XO (XI (XI (XI (XI (XO (XO
    (XO (XI (XO (XI (XI (XI (XI (XI
    XH)))))))))))))))))))))))))))))) :: ((Zpos (XI (XO (XO (XI (XI (XO (XI
    (XI (XO (XI (XO (XI (XO (XO (XI (XI (XI (XI (XI (XO (XO (XO (XI (XO (XI
    (XI (XI (XI (XI XH)))))))))))))))))))))))))))))) :: ((Zpos (XI (XO (XI
    (XO (XO (XI (XO (XO (XO (XO (XI (XI (XI (XI (XI (XI (XI (XI (XI (XO (XO
    (XO (XI (XO (XI (XI (XI (XI (XI
    XH)))))))))))))))))))))))))))))) :: ((Zpos (XI (XO (XO (XO (XO (XI (XI
    (XO (XI (XO (XI (XI (XO (XI (XO (XO (XO (XO (XO (XI (XO (XO (XI (XO (XI
    (XI (XI (XI (XI XH)))))))))))))))))))))))))))))) :: ((Zpos (XO (XO (XI
    (XI (XO (XO (XO (XI (XO (XI (XI (XI (XI (XO (XI (XO (XO (XO (XO (XI (XO
    (XO (XI (XO (XI (XI (XI (XI (XI
    XH)))))))))))))))))))))))))))))) :: ((Zpos (XI (XI (XI (XO (XO (XI (XO
    (XI (XI (XI (XI (XI (XO (XO (XO (XI (XO (XO (XO (XI (XO (XO (XI (XO (XI
    (XI (XI (XI (XI XH)))))))))))))))))))))))))))))) :: ((Zpos (XO (XI (XO
    (XO (XI (XI (XO (XI (XO (XO (XO (XO (XO (XO (XI (XI (XO (XO (XO (XI (XO
    (XO (XI (XO (XI (XI (XI (XI (XI
    XH)))))))))))))))))))))))))))))) :: ((Zpos (XO (XO (XI (XI (XO (XI (XO
    (XI (XI (XO (XO (XO (XI (XI (XI (XI (XO (XO (XO (XI (XO (XO (XI (XO (XI
    (XI (XI (XI (XI XH)))))))))))))))))))))))))))))) :: ((Zpos (XO (XI (XI
    (XO (XI (XO (XO (XI (XO (XI (XO (XO (XO (XI (XO (XO (XI (XO (XO (XI (XO
    (XO (XI (XO (XI (XI (XI (XI (XI
    XH)))))))))))))))))))))))))))))) :: ((Zpos (XI (XI (XI (XI (XO (XI (XI
    (XO (XI (XI (XO (XO (XI (XO (XI (XO (XI (XO (XO (XI (XO (XO (XI (XO (XI
    (XI (XI (XI (XI XH)))))))))))))))))))))))))))))) :: ((Zpos (XO (XO (XO
    (XI (XI (XI (XO (XO (XO (XO (XI (XO (XO (XO (XO (XI (XI (XO (XO (XI (XO
    (XO (XI (XO (XI (XI (XI (XI (XI
    XH)))))))))))))))))))))))))))))) :: ((Zpos (XI (XO (XO (XO (XI (XI (XI
    (XI (XO (XO (XI (XO (XI (XI (XO (XI (XI (XO (XO (XI (XO (XO (XI (XO (XI
    (XI (XI (XI (XI XH)))))))))))))))))))))))))))))) :: ((Zpos (XO (XI (XO
    (XI (XI (XO (XO (XI (XI (XO (XI (XO (XO (XI (XI (XI (XI (XO (XO (XI (XO
    (XO (XI (XO (XI (XI (XI (XI (XI
    XH)))))))))))))))))))))))))))))) :: ((Zpos (XO (XI (XO (XO (XI (XI (XO
    (XO (XO (XI (XI (XO (XI (XO (XO (XO (XO (XI (XO (XI (XO (XO (XI (XO (XI
    (XI (XI (XI (XI XH)))))))))))))))))))))))))))))) :: ((Zpos (XO (XI (XO
    (XI (XI (XI (XO (XI (XO (XI (XI (XO (XO (XO (XI (XO (XO (XI (XO (XI (XO
    (XO (XI (XO (XI (XI (XI (XI (XI
    XH)))))))))))))))))))))))))))))) :: ((Zpos (XO (XI (XO (XO (XI (XI (XO
    (XO (XI (XI (XI (XO (XI (XI (XI (XO (XO (XI (XO (XI (XO (XO (XI (XO (XI
    (XI (XI (XI (XI XH)))))))))))))))))))))))))))))) :: ((Zpos (XO (XI (XO
    (XI (XI (XO (XO (XI (XI (XI (XI (XO (XO (XI (XO (XI (XO (XI (XO (XI (XO
    (XO (XI (XO (XI (XI (XI (XI (XI
    XH)))))))))))))))))))))))))))))) :: ((Zpos (XO (XI (XO (XO (XI (XI (XI
    (XI (XI (XI (XI (XO (XI (XO (XI (XI (XO (XI (XO (XI (XO (XO (XI (XO (XI
    (XI (XI (XI (XI XH)))))))))))))))))))))))))))))) :: ((Zpos (XO (XI (XO
    (XI (XI (XI (XO (XO (XO (XO (XO (XI (XO (XO (XO (XO (XI (XI (XO (XI (XO
    (XO (XI (XO (XI (XI (XI (XI (XI
    XH)))))))))))))))))))))))))))))) :: ((Zpos (XI (XO (XO (XO (XI (XI (XI
    (XO (XO (XO (XO (XI (XI (XI (XO (XO (XI (XI (XO (XI (XO (XO (XI (XO (XI
    (XI (XI (XI (XI XH)))))))))))))))))))))))))))))) :: ((Zpos (XI (XO (XO
    (XI (XI (XO (XO (XI (XO (XO (XO (XI (XO (XI (XI (XO (XI (XI (XO (XI (XO
    (XO (XI (XO (XI (XI (XI (XI (XI
    XH)))))))))))))))))))))))))))))) :: ((Zpos (XO (XO (XO (XO (XI (XI (XO
    (XI (XO (XO (XO (XI (XI (XO (XO (XI (XI (XI (XO (XI (XO (XO (XI (XO (XI
    (XI (XI (XI (XI XH)))))))))))))))))))))))))))))) :: ((Zpos (XI (XI (XI
    (XO (XI (XI (XO (XI (XO (XO (XO (XI (XO (XO (XI (XI (XI (XI (XO (XI (XO
    (XO (XI (XO (XI (XI (XI (XI (XI
    XH)))))))))))))))))))))))))))))) :: ((Zpos (XI (XI (XI (XI (XO (XI (XO
    (XI (XO (XO (XO (XI (XI (XI (XI (XI (XI (XI (XO (XI (XO (XO (XI (XO (XI
    (XI (XI (XI (XI XH)))))))))))))))))))))))))))))) :: ((Zpos (XO (XI (XI
    (XO (XI (XO (XO (XI (XO (XO (XO (XI (XO (XI (XO (XO (XO (XO (XI (XI (XO
    (XO (XI (XO (XI (XI (XI (XI (XI
    XH)))))))))))))))))))))))))))))) :: ((Zpos (XO (XI (XI (XI (XO (XI (XI
    (XO (XO (XO (XO (XI (XI (XO (XI (XO (XO (XO (XI (XI (XO (XO (XI (XO (XI
    (XI (XI (XI (XI XH)))))))))))))))))))))))))))))) :: ((Zpos (XI (XO (XI
    (XO (XI (XI (XO (XO (XO (XO (XO (XI (XO (XO (XO (XI (XO (XO (XI (XI (XO
    (XO (XI (XO (XI (XI (XI (XI (XI
    XH)))))))))))))))))))))))))))))) :: ((Zpos (XO (XO (XI (XI (XO (XI (XI
    (XI (XI (XI (XI (XO (XI (XI (XO (XI (XO (XO (XI (XI (XO (XO (XI (XO (XI
    (XI (XI (XI (XI XH)))))))))))))))))))))))))))))) :: ((Zpos (XO (XO (XI
    (XO (XI (XO (XO (XI (XI (XI (XI (XO (XO (XI (XI (XI (XO (XO (XI (XI (XO
    (XO (XI (XO (XI (XI (XI (XI (XI
    XH)))))))))))))))))))))))))))))) :: ((Zpos (XO (XO (XI (XI (XO (XI (XO
    (XO (XI (XI (XI (XO (XI (XO (XO (XO (XI (XO (XI (XI (XO (XO (XI (XO (XI
    (XI (XI (XI (XI XH)))))))))))))))))))))))))))))) :: ((Zpos (XO (XO (XI
    (XO (XI (XI (XO (XI (XO (XI (XI (XO (XO (XO (XI (XO (XI (XO (XI (XI (XO
    (XO (XI (XO (XI (XI (XI (XI (XI
    XH)))))))))))))))))))))))))))))) :: ((Zpos (XO (XO (XI (XI (XO (XI (XO
    (XO (XO (XI (XI (XO (XI (XI (XI (XO (XI (XO (XI (XI (XO (XO (XI (XO (XI
    (XI (XI (XI (XI XH)))))))))))))))))))))))))))))) :: ((Zpos (XO (XO (XI
    (XO (XI (XO (XO (XI (XI (XO (XI (XO (XO (XI (XO (XI (XI (XO (XI (XI (XO
    (XO (XI (XO (XI (XI (XI (XI (XI
    XH)))))))))))))))))))))))))))))) :: ((Zpos (XO (XO (XI (XI (XO (XI (XI
    (XI (XO (XO (XI (XO (XI (XO (XI (XI (XI (XO (XI (XI (XO (XO (XI (XO (XI
    (XI (XI (XI (XI XH)))))))))))))))))))))))))))))) :: ((Zpos (XI (XO (XI
    (XO (XI (XI (XO (XO (XO (XO (XI (XO (XO (XO (XO (XO (XO (XI (XI (XI (XO
    (XO (XI (XO (XI (XI (XI (XI (XI
    XH)))))))))))))))))))))))))))))) :: ((Zpos (XI (XO (XI (XI (XO (XI (XI
    (XO (XI (XI (XO (XO (XI (XI (XO (XO (XO (XI (XI (XI (XO (XO (XI (XO (XI
    (XI (XI (XI (XI XH)))))))))))))))))))))))))))))) :: ((Zpos (XO (XI (XI
    (XO (XI (XO (XO (XI (XO (XI (XO (XO (XO (XI (XI (XO (XO (XI (XI (XI (XO
    (XO (XI (XO (XI (XI (XI (XI (XI
    XH)))))))))))))))))))))))))))))) :: ((Zpos (XO (XO (XO (XO (XI (XI (XO
    (XI (XI (XO (XO (XO (XI (XO (XO (XI (XO (XI (XI (XI (XO (XO (XI (XO (XI
    (XI (XI (XI (XI XH)))))))))))))))))))))))))))))) :: ((Zpos (XI (XO (XO
    (XI (XI (XI (XO (XI (XO (XO (XO (XO (XO (XO (XI (XI (XO (XI (XI (XI (XO
    (XO (XI (XO (XI (XI (XI (XI (XI
    XH)))))))))))))))))))))))))))))) :: ((Zpos (XI (XI (XO (XO (XI (XI (XO
    (XI (XI (XI (XI (XI (XO (XI (XI (XI (XO (XI (XI (XI (XO (XO (XI (XO (XI
    (XI (XI (XI (XI XH)))))))))))))))))))))))))))))) :: ((Zpos (XO (XI (XI
    (XI (XI (XO (XO (XI (XO (XI (XI (XI (XI (XO (XO (XO (XI (XI (XI (XI (XO
    (XO (XI (XO (XI (XI (XI (XI (XI
    XH)))))))))))))))))))))))))))))) :: ((Zpos (XO (XO (XO (XI (XI (XI (XI
    (XO (XI (XO (XI (XI (XO (XO (XI (XO (XI (XI (XI (XI (XO (XO (XI (XO (XI
    (XI (XI (XI (XI XH)))))))))))))))))))))))))))))) :: ((Zpos (XI (XI (XO
    (XO (XO (XO (XI (XO (XO (XO (XI (XI (XI (XI (XI (XO (XI (XI (XI (XI (XO
    (XO (XI (XO (XI (XI (XI (XI (XI
    XH)))))))))))))))))))))))))))))) :: ((Zpos (XI (XI (XI (XI (XI (XI (XI
    (XI (XO (XI (XO (XI (XO (XI (XO (XI (XI (XI (XI (XI (XO (XO (XI (XO (XI
    (XI (XI (XI (XI XH)))))))))))))))))))))))))))))) :: ((Zpos (XO (XI (XO
    (XI (XO (XI (XO (XI (XI (XO (XO (XI (XI (XO (XI (XI (XI (XI (XI (XI (XO
    (XO (XI (XO (XI (XI (XI (XI (XI
    XH)))))))))))))))))))))))))))))) :: ((Zpos (XI (XI (XI (XO (XO (XO (XI
    (XO (XO (XO (XO (XI (XO (XO (XO (XO (XO (XO (XO (XO (XI (XO (XI (XO (XI
    (XI (XI (XI (XI XH)))))))))))))))))))))))))))))) :: ((Zpos (XI (XI (XO
    (XO (XI (XO (XI (XI (XO (XI (XI (XO (XI (XI (XO (XO (XO (XO (XO (XO (XI
    (XO (XI (XO (XI (XI (XI (XI (XI
    XH)))))))))))))))))))))))))))))) :: ((Zpos (XO (XO (XO (XO (XI (XO (XI
    (XO (XI (XO (XI (XO (XO (XI (XI (XO (XO (XO (XO (XO (XI (XO (XI (XO (XI
    (XI (XI (XI (XI XH)))))))))))))))))))))))))))))) :: ((Zpos (XO (XI (XI
    (XI (XI (XI (XO (XI (XI (XI (XO (XO (XI (XO (XO (XI (XO (XO (XO (XO (XI
    (XO (XI (XO (XI (XI (XI (XI (XI
    XH)))))))))))))))))))))))))))))) :: ((Zpos (XO (XO (XI (XI (XI (XO (XO
    (XO (XO (XI (XO (XO (XO (XO (XI (XI (XO (XO (XO (XO (XI (XO (XI (XO (XI
    (XI (XI (XI (XI XH)))))))))))))))))))))))))))))) :: ((Zpos (XI (XI (XO
    (XI (XO (XI (XI (XO (XO (XO (XO (XO (XI (XI (XI (XI (XO (XO (XO (XO (XI
    (XO (XI (XO (XI (XI (XI (XI (XI
    XH)))))))))))))))))))))))))))))) :: ((Zpos (XO (XI (XO (XI (XO (XI (XO
    (XI (XO (XI (XI (XI (XI (XO (XO (XO (XI (XO (XO (XO (XI (XO (XI (XO (XI
    (XI (XI (XI (XI XH)))))))))))))))))))))))))))))) :: ((Zpos (XO (XI (XO
    (XI (XI (XO (XI (XI (XO (XO (XI (XI (XO (XO (XI (XO (XI (XO (XO (XO (XI
    (XO (XI (XO (XI (XI (XI (XI (XI
    XH)))))))))))))))))))))))))))))) :: ((Zpos (XI (XI (XO (XI (XI (XI (XI
    (XI (XO (XI (XO (XI (XI (XI (XI (XO (XI (XO (XO (XO (XI (XO (XI (XO (XI
    (XI (XI (XI (XI XH)))))))))))))))))))))))))))))) :: ((Zpos (XO (XO (XI
    (XI (XO (XO (XO (XO (XI (XO (XO (XI (XO (XI (XO (XI (XI (XO (XO (XO (XI
    (XO (XI (XO (XI (XI (XI (XI (XI
    XH)))))))))))))))))))))))))))))) :: ((Zpos (XO (XI (XI (XI (XO (XO (XO
    (XO (XI (XI (XI (XO (XI (XO (XI (XI (XI (XO (XO (XO (XI (XO (XI (XO (XI
    (XI (XI (XI (XI XH)))))))))))))))))))))))))))))) :: ((Zpos (XO (XO (XO
    (XO (XO (XO (XO (XO (XI (XO (XI (XO (XO (XO (XO (XO (XO (XI (XO (XO (XI
    (XO (XI (XO (XI (XI (XI (XI (XI
    XH)))))))))))))))))))))))))))))) :: ((Zpos (XI (XI (XO (XO (XO (XI (XI
    (XI (XO (XI (XO (XO (XI (XI (XO (XO (XO (XI (XO (XO (XI (XO (XI (XO (XI
    (XI (XI (XI (XI XH)))))))))))))))))))))))))))))) :: ((Zpos (XI (XI (XI
    (XO (XI (XI (XO (XI (XO (XO (XO (XO (XO (XI (XI (XO (XO (XI (XO (XO (XI
    (XO (XI (XO (XI (XI (XI (XI (XI
    XH)))))))))))))))))))))))))))))) :: ((Zpos (XI (XI (XO (XI (XI (XI (XI
    (XO (XO (XI (XI (XI (XO (XO (XO (XI (XO (XI (XO (XO (XI (XO (XI (XO (XI
    (XI (XI (XI (XI XH)))))))))))))))))))))))))))))) :: ((Zpos (XI (XO (XO
    (XO (XI (XI (XO (XO (XO (XO (XI (XI (XI (XI (XO (XI (XO (XI (XO (XO (XI
    (XO (XI (XO (XI (XI (XI (XI (XI
    XH)))))))))))))))))))))))))))))) :: ((Zpos (XI (XI (XI (XO (XI (XO (XI
    (XI (XI (XO (XO (XI (XO (XI (XI (XI (XO (XI (XO (XO (XI (XO (XI (XO (XI
    (XI (XI (XI (XI XH)))))))))))))))))))))))))))))) :: ((Zpos (XI (XO (XI
    (XI (XO (XI (XI (XO (XI (XI (XI (XO (XI (XO (XO (XO (XI (XI (XO (XO (XI
    (XO (XI (XO (XI (XI (XI (XI (XI
    XH)))))))))))))))))))))))))))))) :: ((Zpos (XI (XO (XI (XO (XI (XI (XI
    (XI (XO (XO (XI (XO (XO (XO (XI (XO (XI (XI (XO (XO (XI (XO (XI (XO (XI
    (XI (XI (XI (XI XH)))))))))))))))))))))))))))))) :: ((Zpos (XI (XO (XI
    (XI (XO (XI (XI (XO (XO (XI (XO (XO (XI (XI (XI (XO (XI (XI (XO (XO (XI
    (XO (XI (XO (XI (XI (XI (XI (XI
    XH)))))))))))))))))))))))))))))) :: ((Zpos (XI (XI (XI (XO (XI (XO (XI
    (XI (XI (XI (XI (XI (XI (XO (XO (XI (XI (XI (XO (XO (XI (XO (XI (XO (XI
    (XI (XI (XI (XI XH)))))))))))))))))))))))))))))) :: ((Zpos (XI (XO (XO
    (XO (XI (XI (XO (XO (XI (XO (XI (XI (XO (XO (XI (XI (XI (XI (XO (XO (XI
    (XO (XI (XO (XI (XI (XI (XI (XI
    XH)))))))))))))))))))))))))))))) :: ((Zpos (XO (XO (XI (XI (XI (XI (XI
    (XO (XO (XI (XO (XI (XI (XI (XI (XI (XI (XI (XO (XO (XI (XO (XI (XO (XI
    (XI (XI (XI (XI XH)))))))))))))))))))))))))))))) :: ((Zpos (XI (XI (XI
    (XO (XI (XI (XO (XI (XI (XI (XI (XO (XO (XI (XO (XO (XO (XO (XI (XO (XI
    (XO (XI (XO (XI (XI (XI (XI (XI
    XH)))))))))))))))))))))))))))))) :: ((Zpos (XO (XO (XI (XO (XO (XI (XI
    (XI (XO (XO (XI (XO (XI (XO (XI (XO (XO (XO (XI (XO (XI (XO (XI (XO (XI
    (XI (XI (XI (XI XH)))))))))))))))))))))))))))))) :: ((Zpos (XO (XI (XO
    (XO (XO (XO (XO (XO (XO (XI (XO (XO (XO (XO (XO (XI (XO (XO (XI (XO (XI
    (XO (XI (XO (XI (XI (XI (XI (XI
    XH)))))))))))))))))))))))))))))) :: ((Zpos (XI (XO (XO (XO (XI (XO (XO
    (XO (XI (XI (XI (XI (XO (XI (XO (XI (XO (XO (XI (XO (XI (XO (XI (XO (XI
    (XI (XI (XI (XI XH)))))))))))))))))))))))))))))) :: ((Zpos (XO (XO (XO
    (XO (XI (XO (XO (XO (XO (XO (XI (XI (XI (XO (XI (XI (XO (XO (XI (XO (XI
    (XO (XI (XO (XI (XI (XI (XI (XI
    XH)))))))))))))))))))))))))))))) :: ((Zpos (XI (XO (XO (XO (XO (XO (XO
    (XO (XI (XO (XO (XI (XO (XO (XO (XO (XI (XO (XI (XO (XI (XO (XI (XO (XI
    (XI (XI (XI (XI XH)))))))))))))))))))))))))))))) :: ((Zpos (XI (XI (XO
    (XO (XO (XI (XI (XI (XI (XO (XI (XO (XI (XI (XO (XO (XI (XO (XI (XO (XI
    (XO (XI (XO (XI (XI (XI (XI (XI
    XH)))))))))))))))))))))))))))))) :: ((Zpos (XI (XO (XI (XO (XI (XI (XO
    (XI (XO (XI (XO (XO (XO (XI (XI (XO (XI (XO (XI (XO (XI (XO (XI (XO (XI
    (XI (XI (XI (XI XH)))))))))))))))))))))))))))))) :: ((Zpos (XI (XO (XO
    (XI (XI (XI (XI (XO (XI (XI (XI (XI (XO (XO (XO (XI (XI (XO (XI (XO (XI
    (XO (XI (XO (XI (XI (XI (XI (XI
    XH)))))))))))))))))))))))))))))) :: ((Zpos (XO (XI (XI (XI (XO (XI (XO
    (XO (XO (XO (XI (XI (XI (XI (XO (XI (XI (XO (XI (XO (XI (XO (XI (XO (XI
    (XI (XI (XI (XI XH)))))))))))))))))))))))))))))) :: ((Zpos (XO (XO (XI
    (XO (XI (XO (XI (XI (XO (XO (XO (XI (XO (XI (XI (XI (XI (XO (XI (XO (XI
    (XO (XI (XO (XI (XI (XI (XI (XI
    XH)))))))))))))))))))))))))))))) :: ((Zpos (XI (XI (XO (XI (XO (XI (XI
    (XO (XI (XO (XI (XO (XI (XO (XO (XO (XO (XI (XI (XO (XI (XO (XI (XO (XI
    (XI (XI (XI (XI XH)))))))))))))))))))))))))))))) :: ((Zpos (XI (XI (XO
    (XO (XI (XI (XI (XI (XI (XO (XO (XO (XO (XO (XI (XO (XO (XI (XI (XO (XI
    (XO (XI (XO (XI (XI (XI (XI (XI
    XH)))))))))))))))))))))))))))))) :: ((Zpos (XO (XO (XI (XI (XO (XI (XI
    (XO (XO (XI (XI (XI (XO (XI (XI (XO (XO (XI (XI (XO (XI (XO (XI (XO (XI
    (XI (XI (XI (XI XH)))))))))))))))))))))))))))))) :: ((Zpos (XI (XI (XI
    (XO (XI (XO (XI (XI (XO (XI (XO (XI (XI (XO (XO (XI (XO (XI (XI (XO (XI
    (XO (XI (XO (XI (XI (XI (XI (XI
    XH)))))))))))))))))))))))))))))) :: ((Zpos (XO (XI (XO (XO (XI (XI (XO
    (XO (XI (XI (XI (XO (XO (XO (XI (XI (XO (XI (XI (XO (XI (XO (XI (XO (XI
    (XI (XI (XI (XI XH)))))))))))))))))))))))))))))) :: ((Zpos (XI (XI (XI
    (XI (XI (XI (XI (XO (XI (XI (XO (XO (XI (XI (XI (XI (XO (XI (XI (XO (XI
    (XO (XI (XO (XI (XI (XI (XI (XI
    XH)))))))))))))))))))))))))))))) :: ((Zpos (XI (XO (XI (XI (XI (XI (XO
    (XI (XI (XI (XI (XI (XI (XO (XO (XO (XI (XI (XI (XO (XI (XO (XI (XO (XI
    (XI (XI (XI (XI XH)))))))))))))))))))))))))))))) :: ((Zpos (XI (XO (XI
    (XI (XO (XI (XI (XI (XI (XI (XO (XI (XO (XO (XI (XO (XI (XI (XI (XO (XI
    (XO (XI (XO (XI (XI (XI (XI (XI
    XH)))))))))))))))))))))))))))))) :: ((Zpos (XI (XO (XI (XI (XO (XO (XO
    (XO (XO (XO (XO (XI (XI (XI (XI (XO (XI (XI (XI (XO (XI (XO (XI (XO (XI
    (XI (XI (XI (XI XH)))))))))))))))))))))))))))))) :: ((Zpos (XI (XI (XI
    (XI (XI (XO (XO (XO (XO (XO (XI (XO (XO (XI (XO (XI (XI (XI (XI (XO (XI
    (XO (XI (XO (XI (XI (XI (XI (XI
    XH)))))))))))))))))))))))))))))) :: ((Zpos (XO (XI (XO (XO (XO (XI (XO
    (XO (XO (XO (XO (XO (XI (XO (XI (XI (XI (XI (XI (XO (XI (XO (XI (XO (XI
    (XI (XI (XI (XI XH)))))))))))))))))))))))))))))) :: ((Zpos (XI (XI (XI
    (XO (XI (XO (XO (XO (XO (XO (XI (XI (XI (XI (XI (XI (XI (XI (XI (XO (XI
    (XO (XI (XO (XI (XI (XI (XI (XI
    XH)))))))))))))))))))))))))))))) :: ((Zpos (XI (XO (XI (XI (XI (XI (XI
    (XI (XI (XI (XI (XO (XO (XI (XO (XO (XO (XO (XO (XI (XI (XO (XI (XO (XI
    (XI (XI (XI (XI XH)))))))))))))))))))))))))))))) :: ((Zpos (XO (XO (XI
    (XO (XI (XO (XI (XI (XI (XI (XO (XO (XI (XO (XI (XO (XO (XO (XO (XI (XI
    (XO (XI (XO (XI (XI (XI (XI (XI
    XH)))))))))))))))))))))))))))))) :: ((Zpos (XI (XO (XI (XI (XI (XO (XO
    (XI (XI (XI (XI (XI (XI (XI (XI (XO (XO (XO (XO (XI (XI (XO (XI (XO (XI
    (XI (XI (XI (XI XH)))))))))))))))))))))))))))))) :: ((Zpos (XI (XI (XI
    (XO (XI (XO (XI (XO (XI (XI (XO (XI (XO (XI (XO (XI (XO (XO (XO (XI (XI
    (XO (XI (XO (XI (XI (XI (XI (XI
    XH)))))))))))))))))))))))))))))) :: ((Zpos (XO (XI (XO (XO (XO (XO (XO
    (XO (XI (XI (XI (XO (XI (XO (XI (XI (XO (XO (XO (XI (XI (XO (XI (XO (XI
    (XI (XI (XI (XI XH)))))))))))))))))))))))))))))) :: ((Zpos (XI (XI (XI
    (XI (XI (XO (XO (XI (XO (XI (XO (XO (XO (XO (XO (XO (XI (XO (XO (XI (XI
    (XO (XI (XO (XI (XI (XI (XI (XI
    XH)))))))))))))))))))))))))))))) :: ((Zpos (XI (XO (XI (XI (XO (XI (XO
    (XO (XO (XI (XI (XI (XO (XI (XO (XO (XI (XO (XO (XI (XI (XO (XI (XO (XI
    (XI (XI (XI (XI XH)))))))))))))))))))))))))))))) :: ((Zpos (XI (XO (XI
    (XI (XO (XI (XO (XI (XI (XO (XO (XI (XI (XO (XI (XO (XI (XO (XO (XI (XI
    (XO (XI (XO (XI (XI (XI (XI (XI
    XH)))))))))))))))))))))))))))))) :: ((Zpos (XI (XI (XI (XI (XI (XO (XO
    (XO (XI (XO (XI (XO (XO (XO (XO (XI (XI (XO (XO (XI (XI (XO (XI (XO (XI
    (XI (XI (XI (XI XH)))))))))))))))))))))))))))))) :: ((Zpos (XI (XO (XO
    (XO (XO (XO (XO (XI (XO (XO (XO (XO (XI (XI (XO (XI (XI (XO (XO (XI (XI
    (XO (XI (XO (XI (XI (XI (XI (XI
    XH)))))))))))))))))))))))))))))) :: ((Zpos (XO (XI (XI (XO (XI (XO (XI
    (XI (XI (XI (XO (XI (XI (XO (XI (XI (XI (XO (XO (XI (XI (XO (XI (XO (XI
    (XI (XI (XI (XI XH)))))))))))))))))))))))))))))) :: ((Zpos (XO (XO (XI
    (XI (XI (XO (XO (XO (XI (XI (XI (XO (XO (XO (XO (XO (XO (XI (XO (XI (XI
    (XO (XI (XO (XI (XI (XI (XI (XI
    XH)))))))))))))))))))))))))))))) :: ((Zpos (XI (XI (XO (XO (XI (XO (XI
    (XO (XO (XI (XO (XO (XI (XI (XO (XO (XO (XI (XO (XI (XI (XO (XI (XO (XI
    (XI (XI (XI (XI XH)))))))))))))))))))))))))))))) :: ((Zpos (XO (XO (XI
    (XI (XI (XI (XI (XO (XI (XO (XI (XI (XI (XO (XI (XO (XO (XI (XO (XI (XI
    (XO (XI (XO (XI (XI (XI (XI (XI
    XH)))))))))))))))))))))))))))))) :: ((Zpos (XI (XI (XI (XO (XI (XO (XO
    (XI (XO (XO (XO (XI (XO (XO (XO (XI (XO (XI (XO (XI (XI (XO (XI (XO (XI
    (XI (XI (XI (XI XH)))))))))))))))))))))))))))))) :: ((Zpos (XI (XI (XO
    (XO (XO (XI (XO (XI (XI (XI (XO (XO (XI (XI (XO (XI (XO (XI (XO (XI (XI
    (XO (XI (XO (XI (XI (XI (XI (XI
    XH)))))))))))))))))))))))))))))) :: ((Zpos (XI (XO (XO (XO (XO (XI (XO
    (XI (XO (XI (XI (XI (XI (XO (XI (XI (XO (XI (XO (XI (XI (XO (XI (XO (XI
    (XI (XI (XI (XI XH)))))))))))))))))))))))))))))) :: ((Zpos (XI (XO (XO
    (XO (XI (XO (XO (XI (XI (XO (XO (XI (XO (XO (XO (XO (XI (XI (XO (XI (XI
    (XO (XI (XO (XI (XI (XI (XI (XI
    XH)))))))))))))))))))))))))))))) :: ((Zpos (XO (XI (XO (XO (XI (XI (XI
    (XO (XO (XO (XI (XO (XI (XI (XO (XO (XI (XI (XO (XI (XI (XO (XI (XO (XI
    (XI (XI (XI (XI XH)))))))))))))))))))))))))))))) :: ((Zpos (XI (XO (XI
    (XO (XO (XO (XI (XO (XI (XI (XI (XI (XI (XO (XI (XO (XI (XI (XO (XI (XI
    (XO (XI (XO (XI (XI (XI (XI (XI
    XH)))))))))))))))))))))))))))))) :: ((Zpos (XO (XI (XO (XI (XO (XO (XO
    (XO (XO (XI (XO (XI (XO (XO (XO (XI (XI (XI (XO (XI (XI (XO (XI (XO (XI
    (XI (XI (XI (XI XH)))))))))))))))))))))))))))))) :: ((Zpos (XO (XO (XO
    (XO (XO (XO (XI (XI (XO (XO (XI (XO (XI (XI (XO (XI (XI (XI (XO (XI (XI
    (XO (XI (XO (XI (XI (XI (XI (XI
    XH)))))))))))))))))))))))))))))) :: ((Zpos (XI (XO (XO (XI (XO (XI (XI
    (XO (XI (XI (XI (XI (XI (XO (XI (XI (XI (XI (XO (XI (XI (XO (XI (XO (XI
    (XI (XI (XI (XI XH)))))))))))))))))))))))))))))) :: ((Zpos (XI (XI (XO
    (XO (XO (XO (XO (XO (XO (XI (XO (XI (XO (XO (XO (XO (XO (XO (XI (XI (XI
    (XO (XI (XO (XI (XI (XI (XI (XI
    XH)))))))))))))))))))))))))))))) :: ((Zpos (XO (XI (XI (XI (XO (XO (XO
    (XI (XO (XO (XI (XO (XI (XI (XO (XO (XO (XO (XI (XI (XI (XO (XI (XO (XI
    (XI (XI (XI (XI XH)))))))))))))))))))))))))))))) :: ((Zpos (XO (XO (XI
    (XI (XO (XO (XO (XO (XI (XI (XI (XI (XI (XO (XI (XO (XO (XO (XI (XI (XI
    (XO (XI (XO (XI (XI (XI (XI (XI
    XH)))))))))))))))))))))))))))))) :: ((Zpos (XI (XI (XO (XI (XI (XI (XI
    (XO (XI (XO (XO (XI (XO (XO (XO (XI (XO (XO (XI (XI (XI (XO (XI (XO (XI
    (XI (XI (XI (XI XH)))))))))))))))))))))))))))))) :: ((Zpos (XI (XO (XI
    (XI (XI (XO (XI (XI (XI (XI (XO (XO (XI (XI (XO (XI (XO (XO (XI (XI (XI
    (XO (XI (XO (XI (XI (XI (XI (XI
    XH)))))))))))))))))))))))))))))) :: ((Zpos (XO (XO (XO (XO (XI (XI (XO
    (XO (XO (XI (XI (XI (XI (XO (XI (XI (XO (XO (XI (XI (XI (XO (XI (XO (XI
    (XI (XI (XI (XI XH)))))))))))))))))))))))))))))) :: ((Zpos (XI (XO (XI
    (XO (XI (XI (XI (XO (XO (XO (XO (XI (XO (XO (XO (XO (XI (XO (XI (XI (XI
    (XO (XI (XO (XI (XI (XI (XI (XI
    XH)))))))))))))))))))))))))))))) :: ((Zpos (XO (XO (XI (XI (XO (XI (XO
    (XI (XO (XI (XO (XO (XI (XI (XO (XO (XI (XO (XI (XI (XI (XO (XI (XO (XI
    (XI (XI (XI (XI XH)))))))))))))))))))))))))))))) :: ((Zpos (XI (XO (XI
    (XO (XI (XO (XI (XI (XO (XO (XI (XI (XI (XO (XI (XO (XI (XO (XI (XI (XI
    (XO (XI (XO (XI (XI (XI (XI (XI
    XH)))))))))))))))))))))))))))))) :: ((Zpos (XO (XO (XO (XO (XI (XI (XI
    (XI (XO (XI (XI (XO (XO (XO (XO (XI (XI (XO (XI (XI (XI (XO (XI (XO (XI
    (XI (XI (XI (XI XH)))))))))))))))))))))))))))))) :: ((Zpos (XO (XO (XI
    (XI (XI (XI (XI (XI (XO (XO (XO (XO (XI (XI (XO (XI (XI (XO (XI (XI (XI
    (XO (XI (XO (XI (XI (XI (XI (XI
    XH)))))))))))))))))))))))))))))) :: ((Zpos (XI (XI (XO (XI (XI (XI (XI
    (XI (XO (XI (XO (XI (XI (XO (XI (XI (XI (XO (XI (XI (XI (XO (XI (XO (XI
    (XI (XI (XI (XI XH)))))))))))))))))))))))))))))) :: ((Zpos (XO (XO (XI
    (XI (XO (XI (XI (XI (XO (XO (XI (XO (XO (XO (XO (XO (XO (XI (XI (XI (XI
    (XO (XI (XO (XI (XI (XI (XI (XI
    XH)))))))))))))))))))))))))))))) :: ((Zpos (XI (XI (XI (XI (XO (XO (XI
    (XI (XO (XI (XI (XI (XO (XI (XO (XO (XO (XI (XI (XI (XI (XO (XI (XO (XI
    (XI (XI (XI (XI XH)))))))))))))))))))))))))))))) :: ((Zpos (XI (XI (XO
    (XO (XO (XI (XO (XI (XO (XO (XO (XI (XI (XO (XI (XO (XO (XI (XI (XI (XI
    (XO (XI (XO (XI (XI (XI (XI (XI
    XH)))))))))))))))))))))))))))))) :: ((Zpos (XO (XI (XO (XI (XO (XI (XI
    (XO (XO (XI (XO (XO (XO (XO (XO (XI (XO (XI (XI (XI (XI (XO (XI (XO (XI
    (XI (XI (XI (XI XH)))))))))))))))))))))))))))))) :: ((Zpos (XI (XI (XO
    (XO (XO (XI (XO (XO (XO (XO (XI (XI (XO (XI (XO (XI (XO (XI (XI (XI (XI
    (XO (XI (XO (XI (XI (XI (XI (XI
    XH)))))))))))))))))))))))))))))) :: ((Zpos (XO (XI (XI (XI (XO (XO (XI
    (XI (XI (XO (XI (XO (XI (XO (XI (XI (XO (XI (XI (XI (XI (XO (XI (XO (XI
    (XI (XI (XI (XI XH)))))))))))))))))))))))))))))) :: ((Zpos (XI (XI (XO
    (XI (XO (XI (XI (XO (XI (XI (XI (XI (XI (XI (XI (XI (XO (XI (XI (XI (XI
    (XO (XI (XO (XI (XI (XI (XI (XI
    XH)))))))))))))))))))))))))))))) :: ((Zpos (XI (XI (XO (XI (XI (XI (XI
    (XI (XO (XO (XO (XI (XO (XI (XO (XO (XI (XI (XI (XI (XI (XO (XI (XO (XI
    (XI (XI (XI (XI XH)))))))))))))))))))))))))))))) :: ((Zpos (XO (XO (XI
    (XI (XI (XI (XI (XO (XO (XI (XO (XO (XI (XO (XI (XO (XI (XI (XI (XI (XI
    (XO (XI (XO (XI (XI (XI (XI (XI
    XH)))))))))))))))))))))))))))))) :: ((Zpos (XO (XO (XO (XO (XI (XI (XI
    (XI (XI (XI (XO (XI (XI (XI (XI (XO (XI (XI (XI (XI (XI (XO (XI (XO (XI
    (XI (XI (XI (XI XH)))))))))))))))))))))))))))))) :: ((Zpos (XI (XO (XI
    (XO (XI (XO (XI (XO (XI (XO (XI (XO (XO (XI (XO (XI (XI (XI (XI (XI (XI
    (XO (XI (XO (XI (XI (XI (XI (XI
    XH)))))))))))))))))))))))))))))) :: ((Zpos (XI (XO (XI (XI (XO (XI (XO
    (XI (XO (XI (XI (XI (XO (XO (XI (XI (XI (XI (XI (XI (XI (XO (XI (XO (XI
    (XI (XI (XI (XI XH)))))))))))))))))))))))))))))) :: ((Zpos (XI (XI (XI
    (XO (XI (XI (XI (XI (XI (XI (XI (XO (XI (XI (XI (XI (XI (XI (XI (XI (XI
    (XO (XI (XO (XI (XI (XI (XI (XI
    XH)))))))))))))))))))))))))))))) :: ((Zpos (XO (XO (XI (XO (XI (XI (XO
    (XO (XI (XO (XO (XO (XO (XI (XO (XO (XO (XO (XO (XO (XO (XI (XI (XO (XI
    (XI (XI (XI (XI XH)))))))))))))))))))))))))))))) :: ((Zpos (XO (XI (XO
    (XO (XO (XI (XI (XO (XO (XI (XO (XI (XO (XO (XI (XO (XO (XO (XO (XO (XO
    (XI (XI (XO (XI (XI (XI (XI (XI
    XH)))))))))))))))))))))))))))))) :: ((Zpos (XI (XI (XO (XO (XO (XO (XO
    (XI (XI (XI (XO (XO (XI (XI (XI (XO (XO (XO (XO (XO (XO (XI (XI (XO (XI
    (XI (XI (XI (XI XH)))))))))))))))))))))))))))))) :: ((Zpos (XO (XI (XI
    (XO (XI (XO (XO (XI (XO (XO (XI (XI (XI (XO (XO (XI (XO (XO (XO (XO (XO
    (XI (XI (XO (XI (XI (XI (XI (XI
    XH)))))))))))))))))))))))))))))) :: ((Zpos (XO (XO (XI (XI (XI (XO (XO
    (XI (XI (XO (XI (XO (XO (XO (XI (XI (XO (XO (XO (XO (XO (XI (XI (XO (XI
    (XI (XI (XI (XI XH)))))))))))))))))))))))))))))) :: ((Zpos (XO (XO (XI
    (XO (XI (XO (XO (XI (XO (XI (XI (XI (XO (XI (XI (XI (XO (XO (XO (XO (XO
    (XI (XI (XO (XI (XI (XI (XI (XI
    XH)))))))))))))))))))))))))))))) :: ((Zpos (XO (XI (XI (XI (XI (XI (XI
    (XO (XI (XI (XI (XO (XI (XO (XO (XO (XI (XO (XO (XO (XO (XI (XI (XO (XI
    (XI (XI (XI (XI XH)))))))))))))))))))))))))))))) :: ((Zpos (XO (XI (XO
    (XI (XI (XO (XI (XO (XO (XO (XO (XO (XO (XO (XI (XO (XI (XO (XO (XO (XO
    (XI (XI (XO (XI (XI (XI (XI (XI
    XH)))))))))))))))))))))))))))))) :: ((Zpos (XI (XO (XO (XI (XO (XI (XO
    (XO (XI (XO (XO (XI (XO (XI (XI (XO (XI (XO (XO (XO (XO (XI (XI (XO (XI
    (XI (XI (XI (XI XH)))))))))))))))))))))))))))))) :: ((Zpos (XO (XI (XO
    (XI (XO (XI (XI (XI (XI (XO (XO (XO (XI (XO (XO (XI (XI (XO (XO (XO (XO
    (XI (XI (XO (XI (XI (XI (XI (XI
    XH)))))))))))))))))))))))))))))) :: ((Zpos (XO (XI (XI (XI (XI (XO (XO
    (XI (XO (XI (XO (XI (XI (XI (XO (XI (XI (XO (XO (XO (XO (XI (XI (XO (XI
    (XI (XI (XI (XI XH)))))))))))))))))))))))))))))) :: ((Zpos (XO (XO (XI
    (XO (XO (XO (XI (XO (XI (XI (XO (XO (XO (XI (XI (XI (XI (XO (XO (XO (XO
    (XI (XI (XO (XI (XI (XI (XI (XI
    XH)))))))))))))))))))))))))))))) :: ((Zpos (XI (XO (XI (XI (XI (XO (XI
    (XI (XI (XI (XO (XI (XO (XO (XO (XO (XO (XI (XO (XO (XO (XI (XI (XO (XI
    (XI (XI (XI (XI XH)))))))))))))))))))))))))))))) :: ((Zpos (XO (XO (XO
    (XI (XO (XI (XI (XO (XO (XO (XI (XO (XI (XI (XO (XO (XO (XI (XO (XO (XO
    (XI (XI (XO (XI (XI (XI (XI (XI
    XH)))))))))))))))))))))))))))))) :: ((Zpos (XI (XO (XI (XO (XO (XI (XI
    (XI (XO (XO (XI (XI (XI (XO (XI (XO (XO (XI (XO (XO (XO (XI (XI (XO (XI
    (XI (XI (XI (XI XH)))))))))))))))))))))))))))))) :: ((Zpos (XI (XO (XI
    (XO (XI (XO (XI (XO (XI (XO (XI (XO (XO (XO (XO (XI (XO (XI (XO (XO (XO
    (XI (XI (XO (XI (XI (XI (XI (XI
    XH)))))))))))))))))))))))))))))) :: ((Zpos (XO (XO (XO (XI (XI (XI (XO
    (XI (XI (XO (XI (XI (XO (XI (XO (XI (XO (XI (XO (XO (XO (XI (XI (XO (XI
    (XI (XI (XI (XI XH)))))))))))))))))))))))))))))) :: ((Zpos (XI (XO (XI
    (XI (XO (XO (XO (XO (XO (XI (XI (XO (XI (XO (XI (XI (XO (XI (XO (XO (XO
    (XI (XI (XO (XI (XI (XI (XI (XI
    XH)))))))))))))))))))))))))))))) :: ((Zpos (XO (XO (XI (XO (XI (XO (XI
    (XO (XO (XI (XI (XI (XI (XI (XI (XI (XO (XI (XO (XO (XO (XI (XI (XO (XI
    (XI (XI (XI (XI XH)))))))))))))))))))))))))))))) :: ((Zpos (XI (XI (XI
    (XI (XO (XO (XO (XI (XO (XI (XI (XO (XO (XI (XO (XO (XI (XI (XO (XO (XO
    (XI (XI (XO (XI (XI (XI (XI (XI
    XH)))))))))))))))))))))))))))))) :: ((Zpos (XI (XI (XO (XI (XI (XI (XO
    (XI (XO (XI (XI (XI (XO (XO (XI (XO (XI (XI (XO (XO (XO (XI (XI (XO (XI
    (XI (XI (XI (XI XH)))))))))))))))))))))))))))))) :: ((Zpos (XI (XI (XO
    (XI (XI (XO (XI (XI (XO (XI (XI (XO (XI (XI (XI (XO (XI (XI (XO (XO (XO
    (XI (XI (XO (XI (XI (XI (XI (XI
    XH)))))))))))))))))))))))))))))) :: ((Zpos (XI (XO (XI (XI (XO (XI (XI
    (XI (XO (XI (XI (XI (XI (XO (XO (XI (XI (XI (XO (XO (XO (XI (XI (XO (XI
    (XI (XI (XI (XI XH)))))))))))))))))))))))))))))) :: ((Zpos (XI (XO (XO
    (XO (XI (XI (XI (XI (XO (XI (XI (XO (XO (XO (XI (XI (XI (XI (XO (XO (XO
    (XI (XI (XO (XI (XI (XI (XI (XI
    XH)))))))))))))))))))))))))))))) :: ((Zpos (XO (XO (XO (XI (XO (XI (XI
    (XI (XO (XI (XI (XI (XO (XI (XI (XI (XI (XI (XO (XO (XO (XI (XI (XO (XI
    (XI (XI (XI (XI XH)))))))))))))))))))))))))))))) :: ((Zpos (XO (XI (XO
    (XO (XI (XO (XI (XI (XO (XI (XI (XO (XI (XO (XO (XO (XO (XO (XI (XO (XO
    (XI (XI (XO (XI (XI (XI (XI (XI
    XH)))))))))))))))))))))))))))))) :: ((Zpos (XI (XI (XI (XI (XO (XI (XO
    (XI (XO (XI (XI (XI (XI (XI (XO (XO (XO (XO (XI (XO (XO (XI (XI (XO (XI
    (XI (XI (XI (XI XH)))))))))))))))))))))))))))))) :: ((Zpos (XO (XI (XI
    (XI (XI (XI (XI (XO (XO (XI (XI (XO (XO (XI (XI (XO (XO (XO (XI (XO (XO
    (XI (XI (XO (XI (XI (XI (XI (XI
    XH)))))))))))))))))))))))))))))) :: ((Zpos (XO (XO (XO (XO (XO (XO (XI
    (XO (XO (XI (XI (XI (XO (XO (XO (XI (XO (XO (XI (XO (XO (XI (XI (XO (XI
    (XI (XI (XI (XI XH)))))))))))))))))))))))))))))) :: ((Zpos (XI (XO (XI
    (XO (XI (XI (XI (XI (XI (XO (XI (XO (XI (XI (XO (XI (XO (XO (XI (XO (XO
    (XI (XI (XO (XI (XI (XI (XI (XI
    XH)))))))))))))))))))))))))))))) :: ((Zpos (XI (XO (XI (XI (XI (XO (XO
    (XI (XI (XO (XI (XI (XI (XO (XI (XI (XO (XO (XI (XO (XO (XI (XI (XO (XI
    (XI (XI (XI (XI XH)))))))))))))))))))))))))))))) :: ((Zpos (XI (XI (XI
    (XO (XI (XI (XO (XO (XI (XO (XI (XO (XO (XO (XO (XO (XI (XO (XI (XO (XO
    (XI (XI (XO (XI (XI (XI (XI (XI
    XH)))))))))))))))))))))))))))))) :: ((Zpos (XO (XO (XI (XO (XO (XO (XI
    (XI (XO (XO (XI (XI (XO (XI (XO (XO (XI (XO (XI (XO (XO (XI (XI (XO (XI
    (XI (XI (XI (XI XH)))))))))))))))))))))))))))))) :: ((Zpos (XO (XO (XI
    (XO (XO (XO (XI (XO (XO (XO (XI (XO (XI (XO (XI (XO (XI (XO (XI (XO (XO
    (XI (XI (XO (XI (XI (XI (XI (XI
    XH)))))))))))))))))))))))))))))) :: ((Zpos (XI (XI (XI (XO (XI (XI (XO
    (XI (XI (XI (XO (XI (XI (XI (XI (XO (XI (XO (XI (XO (XO (XI (XI (XO (XI
    (XI (XI (XI (XI XH)))))))))))))))))))))))))))))) :: ((Zpos (XI (XO (XI
    (XI (XI (XO (XO (XO (XI (XI (XO (XO (XO (XI (XO (XI (XI (XO (XI (XO (XO
    (XI (XI (XO (XI (XI (XI (XI (XI
    XH)))))))))))))))))))))))))))))) :: ((Zpos (XI (XO (XI (XO (XI (XI (XI
    (XO (XO (XI (XO (XI (XO (XO (XI (XI (XI (XO (XI (XO (XO (XI (XI (XO (XI
    (XI (XI (XI (XI XH)))))))))))))))))))))))))))))) :: ((Zpos (XI (XO (XO
    (XO (XO (XO (XI (XI (XI (XO (XO (XO (XI (XI (XI (XI (XI (XO (XI (XO (XO
    (XI (XI (XO (XI (XI (XI (XI (XI
    XH)))))))))))))))))))))))))))))) :: ((Zpos (XI (XI (XI (XI (XI (XI (XI
    (XI (XO (XO (XO (XI (XI (XO (XO (XO (XO (XI (XI (XO (XO (XI (XI (XO (XI
    (XI (XI (XI (XI XH)))))))))))))))))))))))))))))) :: ((Zpos (XO (XO (XO
    (XO (XI (XI (XO (XO (XO (XO (XO (XO (XO (XO (XI (XO (XO (XI (XI (XO (XO
    (XI (XI (XO (XI (XI (XI (XI (XI
    XH)))))))))))))))))))))))))))))) :: ((Zpos (XO (XO (XI (XO (XI (XO (XI
    (XO (XI (XI (XI (XO (XO (XI (XI (XO (XO (XI (XI (XO (XO (XI (XI (XO (XI
    (XI (XI (XI (XI XH)))))))))))))))))))))))))))))) :: ((Zpos (XI (XI (XO
    (XI (XO (XI (XI (XO (XO (XI (XI (XI (XO (XO (XO (XI (XO (XI (XI (XO (XO
    (XI (XI (XO (XI (XI (XI (XI (XI
    XH)))))))))))))))))))))))))))))) :: ((Zpos (XI (XO (XI (XO (XI (XI (XI
    (XO (XI (XO (XI (XO (XI (XI (XO (XI (XO (XI (XI (XO (XO (XI (XI (XO (XI
    (XI (XI (XI (XI XH)))))))))))))))))))))))))))))) :: ((Zpos (XO (XI (XO
    (XO (XI (XI (XI (XO (XO (XO (XI (XI (XI (XO (XI (XI (XO (XI (XI (XO (XO
    (XI (XI (XO (XI (XI (XI (XI (XI
    XH)))))))))))))))))))))))))))))) :: ((Zpos (XO (XI (XO (XO (XO (XI (XI
    (XO (XI (XI (XO (XO (XO (XO (XO (XO (XI (XI (XI (XO (XO (XI (XI (XO (XI
    (XI (XI (XI (XI XH)))))))))))))))))))))))))))))) :: ((Zpos (XI (XO (XI
    (XO (XO (XO (XI (XO (XO (XI (XO (XI (XO (XI (XO (XO (XI (XI (XI (XO (XO
    (XI (XI (XO (XI (XI (XI (XI (XI
    XH)))))))))))))))))))))))))))))) :: ((Zpos (XI (XI (XO (XI (XI (XO (XO
    (XO (XI (XO (XO (XO (XI (XO (XI (XO (XI (XI (XI (XO (XO (XI (XI (XO (XI
    (XI (XI (XI (XI XH)))))))))))))))))))))))))))))) :: ((Zpos (XI (XO (XI
    (XO (XO (XI (XI (XI (XI (XI (XI (XO (XI (XI (XI (XO (XI (XI (XI (XO (XO
    (XI (XI (XO (XI (XI (XI (XI (XI
    XH)))))))))))))))))))))))))))))) :: ((Zpos (XI (XO (XO (XO (XO (XI (XO
    (XI (XO (XI (XI (XI (XI (XO (XO (XI (XI (XI (XI (XO (XO (XI (XI (XO (XI
    (XI (XI (XI (XI XH)))))))))))))))))))))))))))))) :: ((Zpos (XO (XO (XO
    (XO (XI (XO (XI (XO (XI (XO (XI (XO (XO (XO (XI (XI (XI (XI (XI (XO (XO
    (XI (XI (XO (XI (XI (XI (XI (XI
    XH)))))))))))))))))))))))))))))) :: ((Zpos (XO (XI (XO (XO (XI (XI (XI
    (XI (XI (XI (XO (XI (XO (XI (XI (XI (XI (XI (XI (XO (XO (XI (XI (XO (XI
    (XI (XI (XI (XI XH)))))))))))))))))))))))))))))) :: ((Zpos (XO (XO (XO
    (XI (XO (XO (XO (XI (XO (XI (XO (XO (XI (XO (XO (XO (XO (XO (XO (XI (XO
    (XI (XI (XO (XI (XI (XI (XI (XI
    XH)))))))))))))))))))))))))))))) :: ((Zpos (XO (XO (XO (XO (XI (XO (XO
    (XO (XI (XO (XO (XI (XI (XI (XO (XO (XO (XO (XO (XI (XO (XI (XI (XO (XI
    (XI (XI (XI (XI XH)))))))))))))))))))))))))))))) :: ((Zpos (XO (XO (XI
    (XI (XO (XO (XO (XI (XI (XI (XI (XI (XI (XO (XI (XO (XO (XO (XO (XI (XO
    (XI (XI (XO (XI (XI (XI (XI (XI
    XH)))))))))))))))))))))))))))))) :: ((Zpos (XI (XI (XO (XI (XI (XI (XI
    (XI (XI (XO (XI (XO (XO (XO (XO (XI (XO (XO (XO (XI (XO (XI (XI (XO (XI
    (XI (XI (XI (XI XH)))))))))))))))))))))))))))))) :: ((Zpos (XI (XO (XI
    (XI (XI (XO (XI (XO (XO (XO (XI (XI (XO (XI (XO (XI (XO (XO (XO (XI (XO
    (XI (XI (XO (XI (XI (XI (XI (XI
    XH)))))))))))))))))))))))))))))) :: ((Zpos (XI (XI (XO (XO (XI (XI (XO
    (XI (XO (XI (XO (XO (XI (XO (XI (XI (XO (XO (XO (XI (XO (XI (XI (XO (XI
    (XI (XI (XI (XI XH)))))))))))))))))))))))))))))) :: ((Zpos (XI (XI (XO
    (XI (XI (XI (XI (XI (XO (XO (XO (XI (XI (XI (XI (XI (XO (XO (XO (XI (XO
    (XI (XI (XO (XI (XI (XI (XI (XI
    XH)))))))))))))))))))))))))))))) :: ((Zpos (XI (XI (XI (XO (XI (XI (XO
    (XO (XI (XI (XI (XI (XI (XO (XO (XO (XI (XO (XO (XI (XO (XI (XI (XO (XI
    (XI (XI (XI (XI XH)))))))))))))))))))))))))))))) :: ((Zpos (XO (XI (XI
    (XO (XO (XI (XI (XO (XI (XO (XI (XO (XO (XO (XI (XO (XI (XO (XO (XI (XO
    (XI (XI (XO (XI (XI (XI (XI (XI
    XH)))))))))))))))))))))))))))))) :: ((Zpos (XO (XO (XO (XI (XO (XO (XO
    (XI (XI (XI (XO (XI (XO (XI (XI (XO (XI (XO (XO (XI (XO (XI (XI (XO (XI
    (XI (XI (XI (XI XH)))))))))))))))))))))))))))))) :: ((Zpos (XO (XI (XI
    (XI (XI (XO (XO (XI (XI (XO (XO (XO (XI (XO (XO (XI (XI (XO (XO (XI (XO
    (XI (XI (XO (XI (XI (XI (XI (XI
    XH)))))))))))))))))))))))))))))) :: ((Zpos (XI (XI (XI (XO (XO (XI (XO
    (XI (XI (XI (XI (XO (XI (XI (XO (XI (XI (XO (XO (XI (XO (XI (XI (XO (XI
    (XI (XI (XI (XI XH)))))))))))))))))))))))))))))) :: ((Zpos (XI (XI (XO
    (XO (XO (XI (XO (XI (XI (XO (XI (XI (XI (XO (XI (XI (XI (XO (XO (XI (XO
    (XI (XI (XO (XI (XI (XI (XI (XI
    XH)))))))))))))))))))))))))))))) :: ((Zpos (XO (XI (XO (XO (XI (XO (XO
    (XI (XI (XI (XO (XO (XO (XO (XO (XO (XO (XI (XO (XI (XO (XI (XI (XO (XI
    (XI (XI (XI (XI XH)))))))))))))))))))))))))))))) :: ((Zpos (XI (XO (XI
    (XO (XI (XI (XI (XO (XI (XO (XO (XI (XO (XI (XO (XO (XO (XI (XO (XI (XO
    (XI (XI (XO (XI (XI (XI (XI (XI
    XH)))))))))))))))))))))))))))))) :: ((Zpos (XO (XO (XI (XI (XO (XO (XI
    (XO (XI (XI (XI (XI (XO (XO (XI (XO (XO (XI (XO (XI (XO (XI (XI (XO (XI
    (XI (XI (XI (XI XH)))))))))))))))))))))))))))))) :: ((Zpos (XI (XO (XI
    (XO (XI (XO (XO (XO (XI (XO (XI (XO (XI (XI (XI (XO (XO (XI (XO (XI (XO
    (XI (XI (XO (XI (XI (XI (XI (XI
    XH)))))))))))))))))))))))))))))) :: ((Zpos (XO (XI (XO (XO (XI (XO (XI
    (XI (XO (XI (XO (XI (XI (XO (XO (XI (XO (XI (XO (XI (XO (XI (XI (XO (XI
    (XI (XI (XI (XI XH)))))))))))))))))))))))))))))) :: ((Zpos (XI (XI (XO
    (XO (XO (XO (XO (XI (XO (XO (XO (XO (XO (XO (XI (XI (XO (XI (XO (XI (XO
    (XI (XI (XO (XI (XI (XI (XI (XI
    XH)))))))))))))))))))))))))))))) :: ((Zpos (XI (XI (XI (XO (XO (XI (XO
    (XO (XO (XI (XI (XO (XO (XI (XI (XI (XO (XI (XO (XI (XO (XI (XI (XO (XI
    (XI (XI (XI (XI XH)))))))))))))))))))))))))))))) :: ((Zpos (XO (XI (XI
    (XI (XI (XI (XO (XI (XI (XI (XO (XI (XO (XO (XO (XO (XI (XI (XO (XI (XO
    (XI (XI (XO (XI (XI (XI (XI (XI
    XH)))))))))))))))))))))))))))))) :: ((Zpos (XI (XO (XO (XI (XO (XO (XI
    (XO (XI (XO (XO (XO (XI (XI (XO (XO (XI (XI (XO (XI (XO (XI (XI (XO (XI
    (XI (XI (XI (XI XH)))))))))))))))))))))))))))))) :: ((Zpos (XI (XI (XI
    (XO (XO (XO (XI (XI (XO (XI (XI (XO (XI (XO (XI (XO (XI (XI (XO (XI (XO
    (XI (XI (XO (XI (XI (XI (XI (XI
    XH)))))))))))))))))))))))))))))) :: ((Zpos (XI (XO (XO (XI (XI (XI (XO
    (XO (XO (XO (XI (XI (XI (XI (XI (XO (XI (XI (XO (XI (XO (XI (XI (XO (XI
    (XI (XI (XI (XI XH)))))))))))))))))))))))))))))) :: ((Zpos (XO (XI (XI
    (XI (XI (XO (XO (XI (XI (XO (XO (XO (XO (XI (XO (XI (XI (XI (XO (XI (XO
    (XI (XI (XO (XI (XI (XI (XI (XI
    XH)))))))))))))))))))))))))))))) :: ((Zpos (XI (XI (XI (XO (XI (XI (XI
    (XI (XO (XI (XI (XO (XO (XO (XI (XI (XI (XI (XO (XI (XO (XI (XI (XO (XI
    (XI (XI (XI (XI XH)))))))))))))))))))))))))))))) :: ((Zpos (XI (XI (XO
    (XO (XO (XO (XI (XO (XO (XO (XI (XI (XO (XI (XI (XI (XI (XI (XO (XI (XO
    (XI (XI (XO (XI (XI (XI (XI (XI
    XH)))))))))))))))))))))))))))))) :: ((Zpos (XI (XI (XO (XO (XO (XO (XO
    (XI (XI (XO (XO (XO (XI (XO (XO (XO (XO (XO (XI (XI (XO (XI (XI (XO (XI
    (XI (XI (XI (XI XH)))))))))))))))))))))))))))))) :: ((Zpos (XI (XI (XI
    (XO (XI (XI (XO (XI (XO (XI (XI (XO (XI (XI (XO (XO (XO (XO (XI (XI (XO
    (XI (XI (XO (XI (XI (XI (XI (XI
    XH)))))))))))))))))))))))))))))) :: ((Zpos (XO (XI (XI (XI (XI (XO (XI
    (XI (XI (XI (XO (XI (XI (XO (XI (XO (XO (XO (XI (XI (XO (XI (XI (XO (XI
    (XI (XI (XI (XI XH)))))))))))))))))))))))))))))) :: ((Zpos (XI (XO (XO
    (XI (XI (XI (XI (XI (XO (XO (XO (XO (XO (XO (XO (XI (XO (XO (XI (XI (XO
    (XI (XI (XO (XI (XI (XI (XI (XI
    XH)))))))))))))))))))))))))))))) :: ((Zpos (XI (XI (XI (XO (XO (XO (XO
    (XO (XO (XI (XI (XO (XO (XI (XO (XI (XO (XO (XI (XI (XO (XI (XI (XO (XI
    (XI (XI (XI (XI XH)))))))))))))))))))))))))))))) :: ((Zpos (XI (XO (XO
    (XI (XO (XO (XO (XO (XI (XI (XO (XI (XO (XO (XI (XI (XO (XO (XI (XI (XO
    (XI (XI (XO (XI (XI (XI (XI (XI
    XH)))))))))))))))))))))))))))))) :: ((Zpos (XI (XI (XI (XI (XI (XI (XI
    (XI (XI (XI (XI (XI (XO (XI (XI (XI (XO (XO (XI (XI (XO (XI (XI (XO (XI
    (XI (XI (XI (XI XH)))))))))))))))))))))))))))))) :: ((Zpos (XO (XO (XO
    (XI (XO (XI (XI (XI (XO (XO (XI (XO (XI (XO (XO (XO (XI (XO (XI (XI (XO
    (XI (XI (XO (XI (XI (XI (XI (XI
    XH)))))))))))))))))))))))))))))) :: ((Zpos (XI (XO (XI (XO (XO (XO (XI
    (XI (XI (XO (XO (XI (XI (XI (XO (XO (XI (XO (XI (XI (XO (XI (XI (XO (XI
    (XI (XI (XI (XI XH)))))))))))))))))))))))))))))) :: ((Zpos (XO (XI (XI
    (XO (XI (XO (XO (XI (XO (XI (XI (XI (XI (XO (XI (XO (XI (XO (XI (XI (XO
    (XI (XI (XO (XI (XI (XI (XI (XI
    XH)))))))))))))))))))))))))))))) :: ((Zpos (XO (XI (XO (XI (XI (XO (XI
    (XO (XI (XI (XO (XO (XO (XO (XO (XI (XI (XO (XI (XI (XO (XI (XI (XO (XI
    (XI (XI (XI (XI XH)))))))))))))))))))))))))))))) :: ((Zpos (XO (XI (XO
    (XO (XI (XO (XO (XO (XO (XO (XO (XI (XO (XI (XO (XI (XI (XO (XI (XI (XO
    (XI (XI (XO (XI (XI (XI (XI (XI
    XH)))))))))))))))))))))))))))))) :: ((Zpos (XO (XI (XI (XI (XI (XI (XO
    (XI (XO (XO (XI (XI (XO (XO (XI (XI (XI (XO (XI (XI (XO (XI (XI (XO (XI
    (XI (XI (XI (XI XH)))))))))))))))))))))))))))))) :: ((Zpos (XO (XI (XI
    (XI (XI (XO (XI (XO (XI (XO (XO (XO (XI (XI (XI (XI (XI (XO (XI (XI (XO
    (XI (XI (XO (XI (XI (XI (XI (XI
    XH)))))))))))))))))))))))))))))) :: ((Zpos (XO (XI (XO (XO (XI (XI (XI
    (XI (XI (XO (XI (XO (XI (XO (XO (XO (XO (XI (XI (XI (XO (XI (XI (XO (XI
    (XI (XI (XI (XI XH)))))))))))))))))))))))))))))) :: ((Zpos (XI (XO (XO
    (XI (XI (XI (XI (XO (XO (XI (XO (XI (XI (XI (XO (XO (XO (XI (XI (XI (XO
    (XI (XI (XO (XI (XI (XI (XI (XI
    XH)))))))))))))))))))))))))))))) :: ((Zpos (XO (XO (XI (XO (XI (XI (XI
    (XI (XO (XI (XI (XI (XI (XO (XI (XO (XO (XI (XI (XI (XO (XI (XI (XO (XI
    (XI (XI (XI (XI XH)))))))))))))))))))))))))))))) :: ((Zpos (XI (XI (XO
    (XO (XO (XI (XI (XO (XI (XI (XO (XO (XO (XO (XO (XI (XO (XI (XI (XI (XO
    (XI (XI (XO (XI (XI (XI (XI (XI
    XH)))))))))))))))))))))))))))))) :: ((Zpos (XO (XI (XI (XO (XO (XO (XI
    (XI (XI (XI (XI (XO (XO (XI (XO (XI (XO (XI (XI (XI (XO (XI (XI (XO (XI
    (XI (XI (XI (XI XH)))))))))))))))))))))))))))))) :: ((Zpos (XI (XO (XI
    (XI (XI (XO (XO (XO (XO (XO (XI (XI (XO (XO (XI (XI (XO (XI (XI (XI (XO
    (XI (XI (XO (XI (XI (XI (XI (XI
    XH)))))))))))))))))))))))))))))) :: ((Zpos (XI (XI (XI (XO (XO (XI (XI
    (XO (XO (XO (XO (XO (XI (XI (XI (XI (XO (XI (XI (XI (XO (XI (XI (XO (XI
    (XI (XI (XI (XI XH)))))))))))))))))))))))))))))) :: ((Zpos (XO (XI (XI
    (XO (XO (XI (XO (XI (XO (XO (XI (XO (XI (XO (XO (XO (XI (XI (XI (XI (XO
    (XI (XI (XO (XI (XI (XI (XI (XI
    XH)))))))))))))))))))))))))))))) :: ((Zpos (XO (XO (XO (XI (XI (XO (XI
    (XI (XO (XO (XO (XI (XI (XI (XO (XO (XI (XI (XI (XI (XO (XI (XI (XO (XI
    (XI (XI (XI (XI XH)))))))))))))))))))))))))))))) :: ((Zpos (XO (XI (XI
    (XI (XI (XI (XI (XI (XO (XO (XI (XI (XI (XO (XI (XO (XI (XI (XI (XI (XO
    (XI (XI (XO (XI (XI (XI (XI (XI
    XH)))))))))))))))))))))))))))))) :: ((Zpos (XI (XO (XO (XI (XI (XO (XO
    (XO (XI (XO (XO (XO (XO (XO (XO (XI (XI (XI (XI (XI (XO (XI (XI (XO (XI
    (XI (XI (XI (XI XH)))))))))))))))))))))))))))))) :: ((Zpos (XI (XI (XI
    (XO (XO (XI (XO (XO (XI (XO (XI (XO (XO (XI (XO (XI (XI (XI (XI (XI (XO
    (XI (XI (XO (XI (XI (XI (XI (XI
    XH)))))))))))))))))))))))))))))) :: ((Zpos (XI (XO (XO (XI (XO (XI (XO
    (XO (XI (XO (XO (XI (XO (XO (XI (XI (XI (XI (XI (XI (XO (XI (XI (XO (XI
    (XI (XI (XI (XI XH)))))))))))))))))))))))))))))) :: ((Zpos (XI (XI (XI
    (XI (XI (XO (XO (XO (XI (XO (XI (XI (XO (XI (XI (XI (XI (XI (XI (XI (XO
    (XI (XI (XO (XI (XI (XI (XI (XI
    XH)))))))))))))))))))))))))))))) :: ((Zpos (XI (XO (XO (XI (XO (XO (XO
    (XO (XI (XO (XO (XO (XI (XO (XO (XO (XO (XO (XO (XO (XI (XI (XI (XO (XI
    (XI (XI (XI (XI XH)))))))))))))))))))))))))))))) :: ((Zpos (XO (XO (XO
    (XI (XO (XI (XI (XI (XO (XO (XI (XO (XI (XI (XO (XO (XO (XO (XO (XO (XI
    (XI (XI (XO (XI (XI (XI (XI (XI
    XH)))))))))))))))))))))))))))))) :: ((Zpos (XO (XI (XO (XI (XI (XI (XO
    (XI (XO (XO (XO (XI (XI (XO (XI (XO (XO (XO (XO (XO (XI (XI (XI (XO (XI
    (XI (XI (XI (XI XH)))))))))))))))))))))))))))))) :: ((Zpos (XO (XO (XO
    (XO (XO (XO (XO (XI (XO (XO (XI (XI (XI (XI (XI (XO (XO (XO (XO (XO (XI
    (XI (XI (XO (XI (XI (XI (XI (XI
    XH)))))))))))))))))))))))))))))) :: ((Zpos (XI (XI (XO (XI (XI (XI (XO
    (XO (XO (XO (XO (XO (XO (XI (XO (XI (XO (XO (XO (XO (XI (XI (XI (XO (XI
    (XI (XI (XI (XI XH)))))))))))))))))))))))))))))) :: ((Zpos (XI (XO (XO
    (XI (XO (XI (XI (XI (XI (XI (XO (XO (XO (XO (XI (XI (XO (XO (XO (XO (XI
    (XI (XI (XO (XI (XI (XI (XI (XI
    XH)))))))))))))))))))))))))))))) :: ((Zpos (XO (XO (XI (XI (XO (XO (XO
    (XI (XI (XI (XI (XO (XO (XI (XI (XI (XO (XO (XO (XO (XI (XI (XI (XO (XI
    (XI (XI (XI (XI XH)))))))))))))))))))))))))))))) :: ((Zpos (XO (XI (XO
    (XO (XO (XI (XO (XO (XI (XI (XO (XI (XO (XO (XO (XO (XI (XO (XO (XO (XI
    (XI (XI (XO (XI (XI (XI (XI (XI
    XH)))))))))))))))))))))))))))))) :: ((Zpos (XI (XO (XI (XI (XO (XI (XO
    (XI (XO (XI (XI (XI (XO (XI (XO (XO (XI (XO (XO (XO (XI (XI (XI (XO (XI
    (XI (XI (XI (XI XH)))))))))))))))))))))))))))))) :: ((Zpos (XO (XO (XI
    (XI (XO (XI (XO (XO (XO (XI (XO (XO (XI (XO (XI (XO (XI (XO (XO (XO (XI
    (XI (XI (XO (XI (XI (XI (XI (XI
    XH)))))))))))))))))))))))))))))) :: ((Zpos (XI (XI (XI (XI (XI (XO (XO
    (XI (XI (XO (XI (XO (XI (XI (XI (XO (XI (XO (XO (XO (XI (XI (XI (XO (XI
    (XI (XI (XI (XI XH)))))))))))))))))))))))))))))) :: ((Zpos (XI (XI (XI
    (XO (XO (XO (XO (XO (XI (XO (XO (XI (XI (XO (XO (XI (XI (XO (XO (XO (XI
    (XI (XI (XO (XI (XI (XI (XI (XI
    XH)))))))))))))))))))))))))))))) :: ((Zpos (XO (XI (XO (XO (XO (XI (XI
    (XO (XO (XO (XI (XI (XI (XI (XO (XI (XI (XO (XO (XO (XI (XI (XI (XO (XI
    (XI (XI (XI (XI XH)))))))))))))))))))))))))))))) :: ((Zpos (XO (XI (XO
    (XO (XI (XI (XO (XI (XI (XI (XI (XI (XI (XO (XI (XI (XI (XO (XO (XO (XI
    (XI (XI (XO (XI (XI (XI (XI (XI
    XH)))))))))))))))))))))))))))))) :: ((Zpos (XO (XI (XI (XO (XI (XI (XI
    (XI (XO (XI (XO (XO (XO (XO (XO (XO (XO (XI (XO (XO (XI (XI (XI (XO (XI
    (XI (XI (XI (XI XH)))))))))))))))))))))))))))))) :: ((Zpos (XO (XI (XI
    (XI (XO (XI (XO (XO (XO (XI (XI (XO (XO (XI (XO (XO (XO (XI (XO (XO (XI
    (XI (XI (XO (XI (XI (XI (XI (XI
    XH)))))))))))))))))))))))))))))) :: ((Zpos (XI (XI (XO (XI (XI (XO (XI
    (XO (XI (XO (XO (XI (XO (XO (XI (XO (XO (XI (XO (XO (XI (XI (XI (XO (XI
    (XI (XI (XI (XI XH)))))))))))))))))))))))))))))) :: ((Zpos (XI (XI (XO
    (XI (XI (XI (XI (XO (XO (XO (XI (XI (XO (XI (XI (XO (XO (XI (XO (XO (XI
    (XI (XI (XO (XI (XI (XI (XI (XI
    XH)))))))))))))))))))))))))))))) :: ((Zpos (XO (XO (XO (XO (XI (XO (XO
    (XI (XI (XI (XI (XI (XO (XO (XO (XI (XO (XI (XO (XO (XI (XI (XI (XO (XI
    (XI (XI (XI (XI XH)))))))))))))))))))))))))))))) :: ((Zpos (XO (XI (XO
    (XI (XI (XO (XO (XI (XO (XI (XO (XO (XI (XI (XO (XI (XO (XI (XO (XO (XI
    (XI (XI (XO (XI (XI (XI (XI (XI
    XH)))))))))))))))))))))))))))))) :: ((Zpos (XI (XI (XI (XO (XI (XO (XO
    (XI (XI (XO (XI (XO (XI (XO (XI (XI (XO (XI (XO (XO (XI (XI (XI (XO (XI
    (XI (XI (XI (XI XH)))))))))))))))))))))))))))))) :: ((Zpos (XI (XO (XO
    (XI (XO (XO (XO (XI (XO (XO (XO (XI (XI (XI (XI (XI (XO (XI (XO (XO (XI
    (XI (XI (XO (XI (XI (XI (XI (XI
    XH)))))))))))))))))))))))))))))) :: ((Zpos (XO (XO (XO (XO (XI (XI (XI
    (XO (XI (XI (XO (XI (XI (XO (XO (XO (XI (XI (XO (XO (XI (XI (XI (XO (XI
    (XI (XI (XI (XI XH)))))))))))))))))))))))))))))) :: ((Zpos (XO (XI (XO
    (XI (XO (XO (XI (XO (XO (XI (XI (XI (XI (XI (XO (XO (XI (XI (XO (XO (XI
    (XI (XI (XO (XI (XI (XI (XI (XI
    XH)))))))))))))))))))))))))))))) :: ((Zpos (XI (XO (XO (XI (XI (XO (XO
    (XO (XI (XO (XO (XO (XO (XI (XI (XO (XI (XI (XO (XO (XI (XI (XI (XO (XI
    (XI (XI (XI (XI XH)))))))))))))))))))))))))))))) :: ((Zpos (XI (XO (XI
    (XI (XI (XO (XI (XI (XI (XI (XO (XO (XO (XO (XO (XI (XI (XI (XO (XO (XI
    (XI (XI (XO (XI (XI (XI (XI (XI
    XH)))))))))))))))))))))))))))))) :: ((Zpos (XI (XO (XI (XO (XI (XO (XO
    (XI (XO (XI (XI (XO (XO (XI (XO (XI (XI (XI (XO (XO (XI (XI (XI (XO (XI
    (XI (XI (XI (XI XH)))))))))))))))))))))))))))))) :: ((Zpos (XI (XO (XO
    (XO (XO (XO (XI (XO (XI (XO (XO (XI (XO (XO (XI (XI (XI (XI (XO (XO (XI
    (XI (XI (XO (XI (XI (XI (XI (XI
    XH)))))))))))))))))))))))))))))) :: ((Zpos (XO (XI (XO (XO (XO (XI (XI
    (XI (XI (XI (XO (XI (XO (XI (XI (XI (XI (XI (XO (XO (XI (XI (XI (XO (XI
    (XI (XI (XI (XI XH)))))))))))))))))))))))))))))) :: ((Zpos (XI (XI (XI
    (XO (XI (XI (XI (XO (XO (XI (XI (XI (XO (XO (XO (XO (XO (XO (XI (XO (XI
    (XI (XI (XO (XI (XI (XI (XI (XI
    XH)))))))))))))))))))))))))))))) :: ((Zpos (XO (XO (XO (XO (XO (XO (XO
    (XO (XI (XO (XO (XO (XI (XI (XO (XO (XO (XO (XI (XO (XI (XI (XI (XO (XI
    (XI (XI (XI (XI XH)))))))))))))))))))))))))))))) :: ((Zpos (XI (XI (XI
    (XI (XI (XI (XI (XO (XI (XI (XO (XO (XI (XO (XI (XO (XO (XO (XI (XO (XI
    (XI (XI (XO (XI (XI (XI (XI (XI
    XH)))))))))))))))))))))))))))))) :: ((Zpos (XI (XO (XO (XO (XI (XI (XI
    (XI (XI (XO (XI (XO (XI (XI (XI (XO (XO (XO (XI (XO (XI (XI (XI (XO (XI
    (XI (XI (XI (XI XH)))))))))))))))))))))))))))))) :: ((Zpos (XO (XO (XO
    (XI (XI (XO (XI (XO (XO (XO (XO (XI (XI (XO (XO (XI (XO (XO (XI (XO (XI
    (XI (XI (XO (XI (XI (XI (XI (XI
    XH)))))))))))))))))))))))))))))) :: ((Zpos (XO (XO (XI (XO (XI (XI (XO
    (XI (XO (XI (XO (XI (XI (XI (XO (XI (XO (XO (XI (XO (XI (XI (XI (XO (XI
    (XI (XI (XI (XI XH)))))))))))))))))))))))))))))) :: ((Zpos (XO (XO (XI
    (XO (XO (XO (XO (XO (XI (XO (XI (XI (XI (XO (XI (XI (XO (XO (XI (XO (XI
    (XI (XI (XO (XI (XI (XI (XI (XI
    XH)))))))))))))))))))))))))))))) :: ((Zpos (XI (XO (XO (XI (XO (XO (XI
    (XO (XI (XI (XI (XI (XI (XI (XI (XI (XO (XO (XI (XO (XI (XI (XI (XO (XI
    (XI (XI (XI (XI XH)))))))))))))))))))))))))))))) :: ((Zpos (XO (XI (XO
    (XO (XO (XO (XO (XI (XI (XO (XO (XO (XO (XI (XO (XO (XI (XO (XI (XO (XI
    (XI (XI (XO (XI (XI (XI (XI (XI
    XH)))))))))))))))))))))))))))))) :: ((Zpos (XO (XO (XO (XO (XI (XI (XO
    (XI (XI (XI (XO (XO (XO (XO (XI (XO (XI (XO (XI (XO (XI (XI (XI (XO (XI
    (XI (XI (XI (XI XH)))))))))))))))))))))))))))))) :: ((Zpos (XI (XI (XO
    (XO (XI (XO (XI (XI (XI (XO (XI (XO (XO (XI (XI (XO (XI (XO (XI (XO (XI
    (XI (XI (XO (XI (XI (XI (XI (XI
    XH)))))))))))))))))))))))))))))) :: ((Zpos (XO (XI (XO (XI (XO (XI (XI
    (XI (XI (XI (XI (XO (XO (XO (XO (XI (XI (XO (XI (XO (XI (XI (XI (XO (XI
    (XI (XI (XI (XI XH)))))))))))))))))))))))))))))) :: ((Zpos (XO (XI (XI
    (XO (XI (XI (XI (XI (XI (XO (XO (XI (XO (XI (XO (XI (XI (XO (XI (XO (XI
    (XI (XI (XO (XI (XI (XI (XI (XI
    XH)))))))))))))))))))))))))))))) :: ((Zpos (XO (XI (XI (XO (XI (XI (XI
    (XI (XI (XI (XO (XI (XO (XO (XI (XI (XI (XO (XI (XO (XI (XI (XI (XO (XI
    (XI (XI (XI (XI XH)))))))))))))))))))))))))))))) :: ((Zpos (XI (XI (XO
    (XI (XO (XI (XI (XI (XI (XO (XI (XI (XO (XI (XI (XI (XI (XO (XI (XO (XI
    (XI (XI (XO (XI (XI (XI (XI (XI
    XH)))))))))))))))))))))))))))))) :: ((Zpos (XI (XO (XI (XO (XI (XO (XI
    (XI (XI (XI (XI (XI (XO (XO (XO (XO (XO (XI (XI (XO (XI (XI (XI (XO (XI
    (XI (XI (XI (XI XH)))))))))))))))))))))))))))))) :: ((Zpos (XI (XI (XO
    (XO (XI (XI (XO (XI (XI (XO (XO (XO (XI (XI (XO (XO (XO (XI (XI (XO (XI
    (XI (XI (XO (XI (XI (XI (XI (XI
    XH)))))))))))))))))))))))))))))) :: ((Zpos (XI (XI (XI (XO (XO (XO (XO
    (XI (XI (XI (XO (XO (XI (XO (XI (XO (XO (XI (XI (XO (XI (XI (XI (XO (XI
    (XI (XI (XI (XI XH)))))))))))))))))))))))))))))) :: ((Zpos (XI (XI (XI
    (XI (XO (XO (XI (XO (XI (XO (XI (XO (XI (XI (XI (XO (XO (XI (XI (XO (XI
    (XI (XI (XO (XI (XI (XI (XI (XI
    XH)))))))))))))))))))))))))))))) :: ((Zpos (XI (XI (XO (XI (XO (XO (XO
    (XO (XI (XI (XI (XO (XI (XO (XO (XI (XO (XI (XI (XO (XI (XI (XI (XO (XI
    (XI (XI (XI (XI XH)))))))))))))))))))))))))))))) :: ((Zpos (XI (XO (XI
    (XI (XI (XI (XO (XI (XO (XO (XO (XI (XI (XI (XO (XI (XO (XI (XI (XO (XI
    (XI (XI (XO (XI (XI (XI (XI (XI
    XH)))))))))))))))))))))))))))))) :: ((Zpos (XI (XI (XO (XO (XO (XI (XI
    (XO (XO (XI (XO (XI (XI (XO (XI (XI (XO (XI (XI (XO (XI (XI (XI (XO (XI
    (XI (XI (XI (XI XH)))))))))))))))))))))))))))))) :: ((Zpos (XO (XI (XI
    (XI (XI (XI (XI (XI (XI (XI (XO (XI (XI (XI (XI (XI (XO (XI (XI (XO (XI
    (XI (XI (XO (XI (XI (XI (XI (XI
    XH)))))))))))))))))))))))))))))) :: ((Zpos (XI (XO (XI (XI (XO (XO (XO
    (XI (XI (XO (XI (XI (XI (XO (XO (XO (XI (XI (XI (XO (XI (XI (XI (XO (XI
    (XI (XI (XI (XI XH)))))))))))))))))))))))))))))) :: ((Zpos (XO (XI (XO
    (XO (XI (XO (XO (XO (XI (XI (XI (XI (XI (XI (XO (XO (XI (XI (XI (XO (XI
    (XI (XI (XO (XI (XI (XI (XI (XI
    XH)))))))))))))))))))))))))))))) :: ((Zpos (XI (XI (XO (XI (XO (XO (XO
    (XI (XO (XO (XO (XO (XO (XI (XI (XO (XI (XI (XI (XO (XI (XI (XI (XO (XI
    (XI (XI (XI (XI XH)))))))))))))))))))))))))))))) :: ((Zpos (XI (XO (XO
    (XI (XI (XI (XI (XI (XI (XO (XO (XO (XO (XO (XO (XI (XI (XI (XI (XO (XI
    (XI (XI (XO (XI (XI (XI (XI (XI
    XH)))))))))))))))))))))))))))))) :: ((Zpos (XO (XO (XI (XI (XI (XO (XI
    (XO (XI (XI (XO (XO (XO (XI (XO (XI (XI (XI (XI (XO (XI (XI (XI (XO (XI
    (XI (XI (XI (XI XH)))))))))))))))))))))))))))))) :: ((Zpos (XO (XO (XI
    (XO (XI (XI (XO (XI (XO (XO (XI (XO (XO (XO (XI (XI (XI (XI (XI (XO (XI
    (XI (XI (XO (XI (XI (XI (XI (XI
    XH)))))))))))))))))))))))))))))) :: ((Zpos (XI (XO (XO (XO (XO (XO (XO
    (XO (XO (XI (XI (XO (XO (XI (XI (XI (XI (XI (XI (XO (XI (XI (XI (XO (XI
    (XI (XI (XI (XI XH)))))))))))))))))))))))))))))) :: ((Zpos (XI (XI (XO
    (XO (XO (XO (XI (XO (XI (XI (XI (XO (XO (XO (XO (XO (XO (XO (XO (XI (XI
    (XI (XI (XO (XI (XI (XI (XI (XI
    XH)))))))))))))))))))))))))))))) :: ((Zpos (XI (XO (XO (XI (XI (XI (XI
    (XO (XO (XO (XO (XI (XO (XI (XO (XO (XO (XO (XO (XI (XI (XI (XI (XO (XI
    (XI (XI (XI (XI XH)))))))))))))))))))))))))))))) :: ((Zpos (XI (XO (XI
    (XO (XO (XI (XO (XI (XI (XO (XO (XI (XO (XO (XI (XO (XO (XO (XO (XI (XI
    (XI (XI (XO (XI (XI (XI (XI (XI
    XH)))))))))))))))))))))))))))))) :: ((Zpos (XI (XO (XI (XO (XO (XO (XI
    (XI (XO (XI (XO (XI (XO (XI (XI (XO (XO (XO (XO (XI (XI (XI (XI (XO (XI
    (XI (XI (XI (XI XH)))))))))))))))))))))))))))))) :: ((Zpos (XI (XI (XO
    (XI (XI (XO (XI (XI (XI (XI (XO (XI (XO (XO (XO (XI (XO (XO (XO (XI (XI
    (XI (XI (XO (XI (XI (XI (XI (XI
    XH)))))))))))))))))))))))))))))) :: ((Zpos (XI (XO (XI (XO (XO (XI (XI
    (XI (XO (XO (XI (XI (XO (XI (XO (XI (XO (XO (XO (XI (XI (XI (XI (XO (XI
    (XI (XI (XI (XI XH)))))))))))))))))))))))))))))) :: ((Zpos (XI (XO (XI
    (XO (XO (XI (XI (XI (XI (XO (XI (XI (XO (XO (XI (XI (XO (XO (XO (XI (XI
    (XI (XI (XO (XI (XI (XI (XI (XI
    XH)))))))))))))))))))))))))))))) :: ((Zpos (XI (XO (XO (XI (XI (XO (XI
    (XI (XO (XI (XI (XI (XO (XI (XI (XI (XO (XO (XO (XI (XI (XI (XI (XO (XI
    (XI (XI (XI (XI XH)))))))))))))))))))))))))))))) :: ((Zpos (XO (XI (XO
    (XO (XO (XO (XI (XI (XI (XI (XI (XI (XO (XO (XO (XO (XI (XO (XO (XI (XI
    (XI (XI (XO (XI (XI (XI (XI (XI
    XH)))))))))))))))))))))))))))))) :: ((Zpos (XI (XO (XO (XO (XO (XI (XO
    (XI (XO (XO (XO (XO (XI (XI (XO (XO (XI (XO (XO (XI (XI (XI (XI (XO (XI
    (XI (XI (XI (XI XH)))))))))))))))))))))))))))))) :: ((Zpos (XO (XO (XI
    (XO (XI (XI (XI (XO (XI (XO (XO (XO (XI (XO (XI (XO (XI (XO (XO (XI (XI
    (XI (XI (XO (XI (XI (XI (XI (XI
    XH)))))))))))))))))))))))))))))) :: ((Zpos (XI (XO (XI (XI (XI (XI (XO
    (XO (XO (XI (XO (XO (XI (XI (XI (XO (XI (XO (XO (XI (XI (XI (XI (XO (XI
    (XI (XI (XI (XI XH)))))))))))))))))))))))))))))) :: ((Zpos (XO (XI (XO
    (XI (XI (XI (XI (XI (XO (XI (XO (XO (XI (XO (XO (XI (XI (XO (XO (XI (XI
    (XI (XI (XO (XI (XI (XI (XI (XI
    XH)))))))))))))))))))))))))))))) :: ((Zpos (XI (XO (XI (XI (XO (XI (XO
    (XI (XI (XI (XO (XO (XI (XI (XO (XI (XI (XO (XO (XI (XI (XI (XI (XO (XI
    (XI (XI (XI (XI XH)))))))))))))))))))))))))))))) :: ((Zpos (XI (XO (XI
    (XO (XI (XO (XI (XO (XO (XO (XI (XO (XI (XO (XI (XI (XI (XO (XO (XI (XI
    (XI (XI (XO (XI (XI (XI (XI (XI
    XH)))))))))))))))))))))))))))))) :: ((Zpos (XO (XI (XO (XO (XI (XI (XI
    (XI (XO (XO (XI (XO (XI (XI (XI (XI (XI (XO (XO (XI (XI (XI (XI (XO (XI
    (XI (XI (XI (XI XH)))))))))))))))))))))))))))))) :: ((Zpos (XO (XO (XI
    (XO (XO (XO (XO (XI (XI (XO (XI (XO (XI (XO (XO (XO (XO (XI (XO (XI (XI
    (XI (XI (XO (XI (XI (XI (XI (XI
    XH)))))))))))))))))))))))))))))) :: ((Zpos (XI (XI (XO (XI (XO (XO (XO
    (XO (XO (XI (XI (XO (XI (XI (XO (XO (XO (XI (XO (XI (XI (XI (XI (XO (XI
    (XI (XI (XI (XI XH)))))))))))))))))))))))))))))) :: ((Zpos (XI (XI (XI
    (XO (XO (XO (XO (XI (XO (XI (XI (XO (XI (XO (XI (XO (XO (XI (XO (XI (XI
    (XI (XI (XO (XI (XI (XI (XI (XI
    XH)))))))))))))))))))))))))))))) :: ((Zpos (XO (XO (XO (XI (XI (XI (XI
    (XI (XO (XI (XI (XO (XI (XI (XI (XO (XO (XI (XO (XI (XI (XI (XI (XO (XI
    (XI (XI (XI (XI XH)))))))))))))))))))))))))))))) :: ((Zpos (XI (XI (XI
    (XI (XI (XO (XI (XO (XI (XI (XI (XO (XI (XO (XO (XI (XO (XI (XO (XI (XI
    (XI (XI (XO (XI (XI (XI (XI (XI
    XH)))))))))))))))))))))))))))))) :: ((Zpos (XI (XI (XO (XI (XI (XI (XO
    (XI (XI (XI (XI (XO (XI (XI (XO (XI (XO (XI (XO (XI (XI (XI (XI (XO (XI
    (XI (XI (XI (XI XH)))))))))))))))))))))))))))))) :: ((Zpos (XO (XO (XI
    (XI (XO (XO (XO (XO (XO (XO (XO (XI (XI (XO (XI (XI (XO (XI (XO (XI (XI
    (XI (XI (XO (XI (XI (XI (XI (XI
    XH)))))))))))))))))))))))))))))) :: ((Zpos (XO (XI (XO (XO (XI (XO (XI
    (XO (XO (XO (XO (XI (XI (XI (XI (XI (XO (XI (XO (XI (XI (XI (XI (XO (XI
    (XI (XI (XI (XI XH)))))))))))))))))))))))))))))) :: ((Zpos (XO (XI (XI
    (XI (XO (XO (XO (XI (XO (XO (XO (XI (XI (XO (XO (XO (XI (XI (XO (XI (XI
    (XI (XI (XO (XI (XI (XI (XI (XI
    XH)))))))))))))))))))))))))))))) :: ((Zpos (XO (XI (XI (XI (XI (XI (XO
    (XI (XO (XO (XO (XI (XI (XI (XO (XO (XI (XI (XO (XI (XI (XI (XI (XO (XI
    (XI (XI (XI (XI XH)))))))))))))))))))))))))))))) :: ((Zpos (XO (XO (XI
    (XO (XO (XI (XI (XI (XO (XO (XO (XI (XI (XO (XI (XO (XI (XI (XO (XI (XI
    (XI (XI (XO (XI (XI (XI (XI (XI
    XH)))))))))))))))))))))))))))))) :: ((Zpos (XO (XO (XO (XO (XO (XO (XO
    (XO (XI (XO (XO (XI (XI (XI (XI (XO (XI (XI (XO (XI (XI (XI (XI (XO (XI
    (XI (XI (XI (XI XH)))))))))))))))))))))))))))))) :: ((Zpos (XO (XO (XO
    (XO (XI (XO (XO (XO (XI (XO (XO (XI (XI (XO (XO (XI (XI (XI (XO (XI (XI
    (XI (XI (XO (XI (XI (XI (XI (XI
    XH)))))))))))))))))))))))))))))) :: ((Zpos (XO (XI (XI (XO (XI (XO (XO
    (XO (XI (XO (XO (XI (XI (XI (XO (XI (XI (XI (XO (XI (XI (XI (XI (XO (XI
    (XI (XI (XI (XI XH)))))))))))))))))))))))))))))) :: ((Zpos (XI (XO (XO
    (XO (XI (XO (XO (XO (XI (XO (XO (XI (XI (XO (XI (XI (XI (XI (XO (XI (XI
    (XI (XI (XO (XI (XI (XI (XI (XI
    XH)))))))))))))))))))))))))))))) :: ((Zpos (XO (XI (XO (XO (XO (XO (XO
    (XO (XI (XO (XO (XI (XI (XI (XI (XI (XI (XI (XO (XI (XI (XI (XI (XO (XI
    (XI (XI (XI (XI XH)))))))))))))))))))))))))))))) :: ((Zpos (XO (XO (XO
    (XI (XO (XI (XI (XI (XO (XO (XO (XI (XI (XO (XO (XO (XO (XO (XI (XI (XI
    (XI (XI (XO (XI (XI (XI (XI (XI
    XH)))))))))))))))))))))))))))))) :: ((Zpos (XI (XI (XO (XO (XO (XO (XI
    (XI (XO (XO (XO (XI (XI (XI (XO (XO (XO (XO (XI (XI (XI (XI (XI (XO (XI
    (XI (XI (XI (XI XH)))))))))))))))))))))))))))))) :: ((Zpos (XO (XO (XI
    (XO (XI (XO (XO (XI (XO (XO (XO (XI (XI (XO (XI (XO (XO (XO (XI (XI (XI
    (XI (XI (XO (XI (XI (XI (XI (XI
    XH)))))))))))))))))))))))))))))) :: ((Zpos (XO (XI (XO (XI (XI (XO (XI
    (XO (XO (XO (XO (XI (XI (XI (XI (XO (XO (XO (XI (XI (XI (XI (XI (XO (XI
    (XI (XI (XI (XI XH)))))))))))))))))))))))))))))) :: ((Zpos (XI (XO (XI
    (XO (XI (XO (XO (XO (XO (XO (XO (XI (XI (XO (XO (XI (XO (XO (XI (XI (XI
    (XI (XI (XO (XI (XI (XI (XI (XI
    XH)))))))))))))))))))))))))))))) :: ((Zpos (XO (XI (XI (XO (XO (XO (XI
    (XI (XI (XI (XI (XO (XI (XI (XO (XI (XO (XO (XI (XI (XI (XI (XI (XO (XI
    (XI (XI (XI (XI XH)))))))))))))))))))))))))))))) :: ((Zpos (XI (XO (XI
    (XI (XO (XI (XI (XO (XI (XI (XI (XO (XI (XO (XI (XI (XO (XO (XI (XI (XI
    (XI (XI (XO (XI (XI (XI (XI (XI
    XH)))))))))))))))))))))))))))))) :: ((Zpos (XO (XO (XO (XI (XO (XO (XO
    (XO (XI (XI (XI (XO (XI (XI (XI (XI (XO (XO (XI (XI (XI (XI (XI (XO (XI
    (XI (XI (XI (XI XH)))))))))))))))))))))))))))))) :: ((Zpos (XI (XO (XO
    (XI (XI (XO (XO (XI (XO (XI (XI (XO (XI (XO (XO (XO (XI (XO (XI (XI (XI
    (XI (XI (XO (XI (XI (XI (XI (XI
    XH)))))))))))))))))))))))))))))) :: ((Zpos (XO (XO (XO (XO (XO (XI (XO
    (XO (XO (XI (XI (XO (XI (XI (XO (XO (XI (XO (XI (XI (XI (XI (XI (XO (XI
    (XI (XI (XI (XI XH)))))))))))))))))))))))))))))) :: ((Zpos (XO (XO (XI
    (XI (XI (XO (XO (XI (XI (XO (XI (XO (XI (XO (XI (XO (XI (XO (XI (XI (XI
    (XI (XI (XO (XI (XI (XI (XI (XI
    XH)))))))))))))))))))))))))))))) :: ((Zpos (XO (XI (XI (XI (XO (XO (XO
    (XO (XI (XO (XI (XO (XI (XI (XI (XO (XI (XO (XI (XI (XI (XI (XI (XO (XI
    (XI (XI (XI (XI XH)))))))))))))))))))))))))))))) :: ((Zpos (XI (XO (XI
    (XO (XI (XI (XI (XO (XO (XO (XI (XO (XI (XO (XO (XI (XI (XO (XI (XI (XI
    (XI (XI (XO (XI (XI (XI (XI (XI
    XH)))))))))))))))))))))))))))))) :: ((Zpos (XO (XI (XO (XO (XI (XO (XI
    (XI (XI (XI (XO (XO (XI (XI (XO (XI (XI (XO (XI (XI (XI (XI (XI (XO (XI
    (XI (XI (XI (XI XH)))))))))))))))))))))))))))))) :: ((Zpos (XO (XO (XI
    (XO (XO (XI (XO (XO (XI (XI (XO (XO (XI (XO (XI (XI (XI (XO (XI (XI (XI
    (XI (XI (XO (XI (XI (XI (XI (XI
    XH)))))))))))))))))))))))))))))) :: ((Zpos (XO (XO (XI (XI (XO (XI (XI
    (XO (XO (XI (XO (XO (XI (XI (XI (XI (XI (XO (XI (XI (XI (XI (XI (XO (XI
    (XI (XI (XI (XI XH)))))))))))))))))))))))))))))) :: ((Zpos (XI (XO (XO
    (XI (XO (XI (XO (XI (XI (XO (XO (XO (XI (XO (XO (XO (XO (XI (XI (XI (XI
    (XI (XI (XO (XI (XI (XI (XI (XI
    XH)))))))))))))))))))))))))))))) :: ((Zpos (XO (XO (XI (XI (XI (XO (XI
    (XI (XO (XO (XO (XO (XI (XI (XO (XO (XO (XI (XI (XI (XI (XI (XI (XO (XI
    (XI (XI (XI (XI XH)))))))))))))))))))))))))))))) :: ((Zpos (XI (XO (XI
    (XO (XO (XO (XO (XO (XO (XO (XO (XO (XI (XO (XI (XO (XO (XI (XI (XI (XI
    (XI (XI (XO (XI (XI (XI (XI (XI
    XH)))))))))))))))))))))))))))))) :: ((Zpos (XI (XI (XO (XO (XO (XI (XO
    (XO (XI (XI (XI (XI (XO (XI (XI (XO (XO (XI (XI (XI (XI (XI (XI (XO (XI
    (XI (XI (XI (XI XH)))))))))))))))))))))))))))))) :: ((Zpos (XI (XI (XI
    (XO (XI (XI (XO (XO (XO (XI (XI (XI (XO (XO (XO (XI (XO (XI (XI (XI (XI
    (XI (XI (XO (XI (XI (XI (XI (XI
    XH)))))))))))))))))))))))))))))) :: ((Zpos (XO (XO (XO (XO (XO (XO (XI
    (XO (XI (XO (XI (XI (XO (XI (XO (XI (XO (XI (XI (XI (XI (XI (XI (XO (XI
    (XI (XI (XI (XI XH)))))))))))))))))))))))))))))) :: ((Zpos (XI (XI (XI
    (XI (XI (XI (XO (XO (XO (XO (XI (XI (XO (XO (XI (XI (XO (XI (XI (XI (XI
    (XI (XI (XO (XI (XI (XI (XI (XI
    XH)))))))))))))))))))))))))))))) :: ((Zpos (XO (XO (XI (XO (XI (XI (XO
    (XO (XI (XI (XO (XI (XO (XI (XI (XI (XO (XI (XI (XI (XI (XI (XI (XO (XI
    (XI (XI (XI (XI XH)))))))))))))))))))))))))))))) :: ((Zpos (XI (XI (XI
    (XI (XI (XO (XO (XO (XO (XI (XO (XI (XO (XO (XO (XO (XI (XI (XI (XI (XI
    (XI (XI (XO (XI (XI (XI (XI (XI
    XH)))))))))))))))))))))))))))))) :: ((Zpos (XI (XI (XI (XI (XI (XI (XI
    (XI (XO (XO (XO (XI (XO (XI (XO (XO (XI (XI (XI (XI (XI (XI (XI (XO (XI
    (XI (XI (XI (XI XH)))))))))))))))))))))))))))))) :: ((Zpos (XO (XO (XI
    (XO (XI (XO (XI (XI (XI (XI (XI (XO (XO (XO (XI (XO (XI (XI (XI (XI (XI
    (XI (XI (XO (XI (XI (XI (XI (XI
    XH)))))))))))))))))))))))))))))) :: ((Zpos (XO (XO (XO (XO (XO (XI (XO
    (XI (XO (XI (XI (XO (XO (XI (XI (XO (XI (XI (XI (XI (XI (XI (XI (XO (XI
    (XI (XI (XI (XI XH)))))))))))))))))))))))))))))) :: ((Zpos (XI (XO (XO
    (XO (XO (XI (XI (XO (XI (XO (XI (XO (XO (XO (XO (XI (XI (XI (XI (XI (XI
    (XI (XI (XO (XI (XI (XI (XI (XI
    XH)))))))))))))))))))))))))))))) :: ((Zpos (XO (XO (XO (XI (XI (XO (XO
    (XO (XO (XO (XI (XO (XO (XI (XO (XI (XI (XI (XI (XI (XI (XI (XI (XO (XI
    (XI (XI (XI (XI XH)))))))))))))))))))))))))))))) :: ((Zpos (XI (XO (XI
    (XO (XO (XO (XI (XI (XO (XI (XO (XO (XO (XO (XI (XI (XI (XI (XI (XI (XI
    (XI (XI (XO (XI (XI (XI (XI (XI
    XH)))))))))))))))))))))))))))))) :: ((Zpos (XO (XO (XO (XI (XO (XI (XI
    (XO (XI (XO (XO (XO (XO (XI (XI (XI (XI (XI (XI (XI (XI (XI (XI (XO (XI
    (XI (XI (XI (XI XH)))))))))))))))))))))))))))))) :: ((Zpos (XO (XO (XO
    (XO (XO (XO (XO (XO (XO (XO (XO (XO (XO (XO (XO (XO (XO (XO (XO (XO (XO
    (XO (XO (XI (XI (XI (XI (XI (XI
    XH)))))))))))))))))))))))))))))) :: [])))))))))))))))))))))))))))))))))))))))))))))))))))))))))))))))))))))))))))))))))))))))))))))))))))))))))))))))))))))))))))))))))))))))))))))))))))))))))))))))))))))))))))))))))))))))))))))))))))))))))))))))))))))))))))))))))))))))))))))))))))))))))))))))))))))))))))))))))))))))))))))))))))))))))))))))))))))))))))))))))))))))))))))))))))))))))))))))))))))))))))))))))))))))))))))))))))))))))))))))))))))))))))))))))))))))))))))))))))))))))))))))))))))))))))))))))))))))))))))))))))))))))))))))))))))))))))))))))))))))))))))))))))))))))))))))))))))))))))))))))))))))))))))))))))))))))))))))))))))))))))))))))))))))))))))))))))))))))))))))))))))))))))))))))))))))))))))))))))))))))))))))))))))))))))))))))))))))))))))))))))))))))))))))))))))))))))))))))))))))))))))))))))))))))))))))))))))))))))))))))))))))))))))))))))))))))))))))))))))))))))))))))))))))))))))))))))))))))))))))))))))))))))))))))))))))))))))))))))))))))))))))))))))))))))))))))))))))))))))))))))))))))))))))))))))))))))))))))))))))))))))))))))))))))))))))

(** val aDSR_DECAY_TABLE_bits : z list **)

let aDSR_DECAY_TABLE_bits =
  (Zpos (XO (XO (XO (XO (XO (XO (XO (XO (XO (XO (XO (XO (XO (XO (XO (XO (XO
    (XO (XO (XO (XO (XO (XO (XI (XI (XI (XI (XI (XI
    XH)))))))))))))))))))))))))))))) :: ((Zpos (XO (XI (XO (XI (XI (XI (XI
    (XO (XI (XI (XO (XI (XI (XI (XI (XI (XO (XI (XI (XI (XI (XI (XI (XO (XI
    (XI (XI (XI (XI XH)))))))))))))))))))))))))))))) :: ((Zpos (XI (XO (XO
    (XI (XI (XI (XI (XI (XI (XI (XI (XO (XI (XI (XI (XI (XI (XO (XI (XI (XI
    (XI (XI (XO (XI (XI (XI (XI (XI
    XH)))))))))))))))))))))))))))))) :: ((Zpos (XI (XI (XO (XI (XI (XI (XI
    (XO (XI (XO (XI (XO (XI (XI (XI (XI (XO (XO (XI (XI (XI (XI (XI (XO (XI
    (XI (XI (XI (XI XH)))))))))))))))))))))))))))))) :: ((Zpos (XI (XI (XI
    (XI (XI (XI (XI (XI (XI (XI (XO (XO (XI (XI (XI (XI (XI (XI (XO (XI (XI
    (XI (XI (XO (XI (XI (XI (XI (XI
    XH)))))))))))))))))))))))))))))) :: ((Zpos (XI (XO (XI (XO (XO (XO (XO
    (XI (XI (XI (XO (XO (XI (XI (XI (XI (XO (XI (XO (XI (XI (XI (XI (XO (XI
    (XI (XI (XI (XI XH)))))))))))))))))))))))))))))) :: ((Zpos (XI (XI (XO
    (XI (XO (XO (XO (XO (XO (XO (XI (XO (XI (XI (XI (XI (XI (XO (XO (XI (XI
    (XI (XI (XO (XI (XI (XI (XI (XI
    XH)))))))))))))))))))))))))))))) :: ((Zpos (XO (XO (XO (XO (XI (XO (XO
    (XI (XI (XO (XI (XO (XI (XI (XI (XI (XO (XO (XO (XI (XI (XI (XI (XO (XI
    (XI (XI (XI (XI XH)))))))))))))))))))))))))))))) :: ((Zpos (XI (XI (XO
    (XO (XI (XO (XO (XO (XO (XO (XO (XI (XI (XI (XI (XI (XI (XI (XI (XO (XI
    (XI (XI (XO (XI (XI (XI (XI (XI
    XH)))))))))))))))))))))))))))))) :: ((Zpos (XI (XI (XO (XO (XI (XO (XO
    (XI (XI (XI (XO (XI (XI (XI (XI (XI (XO (XI (XI (XO (XI (XI (XI (XO (XI
    (XI (XI (XI (XI XH)))))))))))))))))))))))))))))) :: ((Zpos (XO (XO (XO
    (XO (XI (XO (XO (XO (XO (XO (XO (XO (XO (XO (XO (XO (XO (XI (XI (XO (XI
    (XI (XI (XO (XI (XI (XI (XI (XI
    XH)))))))))))))))))))))))))))))) :: ((Zpos (XO (XO (XO (XI (XO (XO (XO
    (XI (XI (XO (XI (XO (XO (XO (XO (XO (XI (XO (XI (XO (XI (XI (XI (XO (XI
    (XI (XI (XI (XI XH)))))))))))))))))))))))))))))) :: ((Zpos (XO (XI (XO
    (XI (XI (XI (XI (XI (XI (XI (XO (XI (XO (XO (XO (XO (XO (XO (XI (XO (XI
    (XI (XI (XO (XI (XI (XI (XI (XI
    XH)))))))))))))))))))))))))))))) :: ((Zpos (XI (XO (XI (XO (XO (XI (XI
    (XO (XI (XI (XO (XO (XI (XO (XO (XO (XI (XI (XO (XO (XI (XI (XI (XO (XI
    (XI (XI (XI (XI XH)))))))))))))))))))))))))))))) :: ((Zpos (XI (XO (XO
    (XI (XO (XO (XI (XI (XI (XI (XO (XI (XI (XO (XO (XO (XO (XI (XO (XO (XI
    (XI (XI (XO (XI (XI (XI (XI (XI
    XH)))))))))))))))))))))))))))))) :: ((Zpos (XI (XO (XI (XO (XO (XI (XO
    (XO (XI (XO (XI (XO (XO (XI (XO (XO (XI (XO (XO (XO (XI (XI (XI (XO (XI
    (XI (XI (XI (XI XH)))))))))))))))))))))))))))))) :: ((Zpos (XO (XI (XI
    (XO (XI (XI (XI (XO (XI (XI (XI (XI (XO (XI (XO (XO (XO (XO (XO (XO (XI
    (XI (XI (XO (XI (XI (XI (XI (XI
    XH)))))))))))))))))))))))))))))) :: ((Zpos (XI (XO (XI (XI (XI (XI (XO
    (XI (XO (XI (XO (XI (XI (XI (XO (XO (XI (XI (XI (XI (XO (XI (XI (XO (XI
    (XI (XI (XI (XI XH)))))))))))))))))))))))))))))) :: ((Zpos (XI (XO (XO
    (XI (XI (XI (XI (XI (XO (XI (XI (XO (XO (XO (XI (XO (XO (XI (XI (XI (XO
    (XI (XI (XO (XI (XI (XI (XI (XI
    XH)))))))))))))))))))))))))))))) :: ((Zpos (XO (XO (XO (XI (XO (XI (XO
    (XO (XO (XO (XI (XO (XI (XO (XI (XO (XI (XO (XI (XI (XO (XI (XI (XO (XI
    (XI (XI (XI (XI XH)))))))))))))))))))))))))))))) :: ((Zpos (XO (XI (XO
    (XI (XO (XO (XI (XO (XO (XI (XO (XO (XO (XI (XI (XO (XO (XO (XI (XI (XO
    (XI (XI (XO (XI (XI (XI (XI (XI
    XH)))))))))))))))))))))))))))))) :: ((Zpos (XI (XO (XI (XI (XI (XO (XI
    (XO (XI (XO (XO (XO (XI (XI (XI (XO (XI (XI (XO (XI (XO (XI (XI (XO (XI
    (XI (XI (XI (XI XH)))))))))))))))))))))))))))))) :: ((Zpos (XI (XO (XO
    (XO (XO (XI (XI (XO (XI (XO (XO (XO (XO (XO (XO (XI (XO (XI (XO (XI (XO
    (XI (XI (XO (XI (XI (XI (XI (XI
    XH)))))))))))))))))))))))))))))) :: ((Zpos (XI (XO (XI (XO (XI (XO (XI
    (XO (XO (XI (XO (XO (XI (XO (XO (XI (XI (XO (XO (XI (XO (XI (XI (XO (XI
    (XI (XI (XI (XI XH)))))))))))))))))))))))))))))) :: ((Zpos (XI (XI (XI
    (XO (XI (XI (XO (XO (XO (XO (XI (XO (XO (XI (XO (XI (XO (XO (XO (XI (XO
    (XI (XI (XO (XI (XI (XI (XI (XI
    XH)))))))))))))))))))))))))))))) :: ((Zpos (XO (XO (XO (XI (XO (XO (XO
    (XO (XI (XI (XI (XO (XI (XI (XO (XI (XI (XI (XI (XO (XO (XI (XI (XO (XI
    (XI (XI (XI (XI XH)))))))))))))))))))))))))))))) :: ((Zpos (XI (XO (XI
    (XO (XO (XO (XI (XI (XO (XI (XO (XI (XO (XO (XI (XI (XO (XI (XI (XO (XO
    (XI (XI (XO (XI (XI (XI (XI (XI
    XH)))))))))))))))))))))))))))))) :: ((Zpos (XO (XI (XI (XI (XO (XI (XI
    (XO (XI (XI (XI (XI (XI (XO (XI (XI (XI (XO (XI (XO (XO (XI (XI (XO (XI
    (XI (XI (XI (XI XH)))))))))))))))))))))))))))))) :: ((Zpos (XI (XI (XO
    (XO (XO (XO (XO (XO (XI (XO (XI (XO (XI (XI (XI (XI (XO (XO (XI (XO (XO
    (XI (XI (XO (XI (XI (XI (XI (XI
    XH)))))))))))))))))))))))))))))) :: ((Zpos (XO (XI (XO (XO (XO (XO (XO
    (XI (XI (XI (XO (XI (XO (XO (XO (XO (XO (XO (XI (XO (XO (XI (XI (XO (XI
    (XI (XI (XI (XI XH)))))))))))))))))))))))))))))) :: ((Zpos (XO (XI (XO
    (XI (XO (XI (XI (XI (XO (XI (XO (XO (XO (XI (XO (XO (XI (XI (XO (XO (XO
    (XI (XI (XO (XI (XI (XI (XI (XI
    XH)))))))))))))))))))))))))))))) :: ((Zpos (XO (XI (XO (XI (XI (XI (XO
    (XO (XI (XI (XO (XI (XI (XI (XO (XO (XO (XI (XO (XO (XO (XI (XI (XO (XI
    (XI (XI (XI (XI XH)))))))))))))))))))))))))))))) :: ((Zpos (XO (XI (XO
    (XO (XI (XI (XI (XO (XO (XO (XI (XO (XI (XO (XI (XO (XI (XO (XO (XO (XO
    (XI (XI (XO (XI (XI (XI (XI (XI
    XH)))))))))))))))))))))))))))))) :: ((Zpos (XO (XO (XO (XO (XI (XO (XO
    (XI (XO (XI (XI (XI (XO (XI (XI (XO (XO (XO (XO (XO (XO (XI (XI (XO (XI
    (XI (XI (XI (XI XH)))))))))))))))))))))))))))))) :: ((Zpos (XO (XO (XI
    (XO (XI (XO (XO (XI (XI (XO (XO (XI (XO (XO (XO (XI (XI (XI (XI (XI (XI
    (XO (XI (XO (XI (XI (XI (XI (XI
    XH)))))))))))))))))))))))))))))) :: ((Zpos (XI (XO (XI (XI (XI (XI (XI
    (XO (XI (XO (XI (XO (XO (XI (XO (XI (XO (XI (XI (XI (XI (XO (XI (XO (XI
    (XI (XI (XI (XI XH)))))))))))))))))))))))))))))) :: ((Zpos (XO (XI (XO
    (XI (XO (XO (XI (XO (XO (XI (XO (XO (XO (XO (XI (XI (XI (XO (XI (XI (XI
    (XO (XI (XO (XI (XI (XI (XI (XI
    XH)))))))))))))))))))))))))))))) :: ((Zpos (XI (XO (XO (XI (XI (XI (XI
    (XI (XI (XI (XI (XI (XI (XO (XI (XI (XO (XO (XI (XI (XI (XO (XI (XO (XI
    (XI (XI (XI (XI XH)))))))))))))))))))))))))))))) :: ((Zpos (XI (XI (XO
    (XI (XO (XO (XO (XI (XO (XI (XI (XI (XI (XI (XI (XI (XI (XI (XO (XI (XI
    (XO (XI (XO (XI (XI (XI (XI (XI
    XH)))))))))))))))))))))))))))))) :: ((Zpos (XO (XI (XI (XI (XI (XI (XI
    (XI (XI (XO (XI (XI (XI (XO (XO (XO (XI (XI (XO (XI (XI (XO (XI (XO (XI
    (XI (XI (XI (XI XH)))))))))))))))))))))))))))))) :: ((Zpos (XI (XO (XO
    (XO (XI (XO (XI (XO (XO (XI (XI (XI (XI (XI (XO (XO (XO (XI (XO (XI (XI
    (XO (XI (XO (XI (XI (XI (XI (XI
    XH)))))))))))))))))))))))))))))) :: ((Zpos (XO (XO (XI (XO (XO (XO (XO
    (XI (XI (XI (XI (XI (XI (XO (XI (XO (XI (XO (XO (XI (XI (XO (XI (XO (XI
    (XI (XI (XI (XI XH)))))))))))))))))))))))))))))) :: ((Zpos (XI (XO (XI
    (XO (XI (XO (XO (XI (XI (XO (XO (XO (XO (XO (XO (XI (XO (XO (XO (XI (XI
    (XO (XI (XO (XI (XI (XI (XI (XI
    XH)))))))))))))))))))))))))))))) :: ((Zpos (XO (XO (XI (XO (XO (XO (XO
    (XI (XO (XO (XI (XO (XO (XI (XO (XI (XI (XI (XI (XO (XI (XO (XI (XO (XI
    (XI (XI (XI (XI XH)))))))))))))))))))))))))))))) :: ((Zpos (XO (XO (XO
    (XO (XI (XO (XI (XO (XO (XO (XO (XI (XO (XO (XI (XI (XO (XI (XI (XO (XI
    (XO (XI (XO (XI (XI (XI (XI (XI
    XH)))))))))))))))))))))))))))))) :: ((Zpos (XO (XO (XO (XI (XI (XI (XI
    (XI (XO (XO (XI (XI (XO (XI (XI (XI (XI (XO (XI (XO (XI (XO (XI (XO (XI
    (XI (XI (XI (XI XH)))))))))))))))))))))))))))))) :: ((Zpos (XI (XI (XO
    (XI (XI (XI (XI (XO (XO (XI (XO (XO (XI (XO (XO (XO (XI (XO (XI (XO (XI
    (XO (XI (XO (XI (XI (XI (XI (XI
    XH)))))))))))))))))))))))))))))) :: ((Zpos (XO (XO (XO (XI (XI (XO (XI
    (XI (XO (XO (XO (XI (XI (XI (XO (XO (XO (XO (XI (XO (XI (XO (XI (XO (XI
    (XI (XI (XI (XI XH)))))))))))))))))))))))))))))) :: ((Zpos (XI (XI (XI
    (XI (XO (XO (XO (XO (XO (XO (XO (XO (XO (XI (XI (XO (XI (XI (XO (XO (XI
    (XO (XI (XO (XI (XI (XI (XI (XI
    XH)))))))))))))))))))))))))))))) :: ((Zpos (XO (XI (XI (XI (XI (XO (XO
    (XO (XO (XO (XO (XI (XO (XO (XO (XI (XO (XI (XO (XO (XI (XO (XI (XO (XI
    (XI (XI (XI (XI XH)))))))))))))))))))))))))))))) :: ((Zpos (XI (XO (XI
    (XO (XO (XO (XO (XO (XI (XO (XO (XO (XI (XI (XO (XI (XI (XO (XO (XO (XI
    (XO (XI (XO (XI (XI (XI (XI (XI
    XH)))))))))))))))))))))))))))))) :: ((Zpos (XI (XI (XO (XO (XO (XO (XI
    (XI (XO (XI (XO (XI (XI (XO (XI (XI (XO (XO (XO (XO (XI (XO (XI (XO (XI
    (XI (XI (XI (XI XH)))))))))))))))))))))))))))))) :: ((Zpos (XI (XI (XI
    (XO (XI (XO (XI (XO (XI (XO (XI (XO (XO (XO (XO (XO (XO (XO (XO (XO (XI
    (XO (XI (XO (XI (XI (XI (XI (XI
    XH)))))))))))))))))))))))))))))) :: ((Zpos (XO (XO (XO (XO (XO (XO (XI
    (XI (XO (XO (XO (XO (XI (XI (XO (XO (XI (XI (XI (XI (XO (XO (XI (XO (XI
    (XI (XI (XI (XI XH)))))))))))))))))))))))))))))) :: ((Zpos (XO (XI (XI
    (XI (XI (XI (XI (XI (XO (XO (XI (XI (XI (XO (XI (XO (XO (XI (XI (XI (XO
    (XO (XI (XO (XI (XI (XI (XI (XI
    XH)))))))))))))))))))))))))))))) :: ((Zpos (XI (XI (XI (XI (XO (XO (XO
    (XO (XO (XI (XO (XI (XO (XO (XO (XI (XI (XO (XI (XI (XO (XO (XI (XO (XI
    (XI (XI (XI (XI XH)))))))))))))))))))))))))))))) :: ((Zpos (XI (XI (XO
    (XO (XI (XI (XI (XI (XI (XI (XI (XO (XI (XI (XO (XI (XO (XO (XI (XI (XO
    (XO (XI (XO (XI (XI (XI (XI (XI
    XH)))))))))))))))))))))))))))))) :: ((Zpos (XO (XO (XO (XI (XO (XI (XO
    (XI (XO (XI (XI (XO (XO (XI (XI (XI (XI (XI (XO (XI (XO (XO (XI (XO (XI
    (XI (XI (XI (XI XH)))))))))))))))))))))))))))))) :: ((Zpos (XI (XI (XI
    (XI (XO (XI (XO (XO (XO (XI (XI (XO (XI (XO (XO (XO (XI (XI (XO (XI (XO
    (XO (XI (XO (XI (XI (XI (XI (XI
    XH)))))))))))))))))))))))))))))) :: ((Zpos (XO (XI (XI (XO (XO (XO (XO
    (XI (XO (XI (XI (XO (XO (XO (XI (XO (XO (XI (XO (XI (XO (XO (XI (XO (XI
    (XI (XI (XI (XI XH)))))))))))))))))))))))))))))) :: ((Zpos (XI (XO (XI
    (XI (XO (XI (XO (XI (XI (XI (XI (XO (XI (XI (XI (XO (XI (XO (XO (XI (XO
    (XO (XI (XO (XI (XI (XI (XI (XI
    XH)))))))))))))))))))))))))))))) :: ((Zpos (XO (XI (XO (XO (XO (XI (XO
    (XI (XI (XO (XO (XI (XO (XI (XO (XI (XO (XO (XO (XI (XO (XO (XI (XO (XI
    (XI (XI (XI (XI XH)))))))))))))))))))))))))))))) :: ((Zpos (XI (XO (XI
    (XO (XO (XI (XI (XO (XO (XO (XI (XI (XI (XO (XI (XI (XI (XI (XI (XO (XO
    (XO (XI (XO (XI (XI (XI (XI (XI
    XH)))))))))))))))))))))))))))))) :: ((Zpos (XI (XO (XI (XO (XI (XI (XI
    (XI (XI (XI (XI (XI (XO (XO (XO (XO (XI (XI (XI (XO (XO (XO (XI (XO (XI
    (XI (XI (XI (XI XH)))))))))))))))))))))))))))))) :: ((Zpos (XI (XO (XO
    (XO (XI (XO (XI (XO (XO (XO (XI (XO (XO (XO (XI (XO (XO (XI (XI (XO (XO
    (XO (XI (XO (XI (XI (XI (XI (XI
    XH)))))))))))))))))))))))))))))) :: ((Zpos (XI (XO (XO (XI (XI (XI (XI
    (XO (XI (XO (XO (XI (XI (XI (XI (XO (XI (XO (XI (XO (XO (XO (XI (XO (XI
    (XI (XI (XI (XI XH)))))))))))))))))))))))))))))) :: ((Zpos (XI (XI (XO
    (XI (XO (XI (XI (XO (XI (XI (XI (XI (XO (XI (XO (XI (XO (XO (XI (XO (XO
    (XO (XI (XO (XI (XI (XI (XI (XI
    XH)))))))))))))))))))))))))))))) :: ((Zpos (XO (XO (XO (XI (XO (XI (XO
    (XO (XO (XI (XI (XO (XO (XI (XI (XI (XI (XI (XO (XO (XO (XO (XI (XO (XI
    (XI (XI (XI (XI XH)))))))))))))))))))))))))))))) :: ((Zpos (XI (XO (XI
    (XI (XO (XI (XO (XI (XI (XO (XI (XI (XI (XO (XO (XO (XI (XI (XO (XO (XO
    (XO (XI (XO (XI (XI (XI (XI (XI
    XH)))))))))))))))))))))))))))))) :: ((Zpos (XO (XI (XO (XI (XI (XI (XI
    (XI (XI (XO (XI (XO (XI (XO (XI (XO (XO (XI (XO (XO (XO (XO (XI (XO (XI
    (XI (XI (XI (XI XH)))))))))))))))))))))))))))))) :: ((Zpos (XO (XO (XO
    (XO (XI (XO (XO (XO (XI (XI (XI (XI (XO (XO (XO (XI (XI (XO (XO (XO (XO
    (XO (XI (XO (XI (XI (XI (XI (XI
    XH)))))))))))))))))))))))))))))) :: ((Zpos (XI (XI (XO (XI (XO (XI (XI
    (XI (XO (XO (XO (XI (XO (XO (XI (XI (XO (XO (XO (XO (XO (XO (XI (XO (XI
    (XI (XI (XI (XI XH)))))))))))))))))))))))))))))) :: ((Zpos (XI (XO (XI
    (XI (XO (XO (XO (XI (XI (XI (XO (XO (XO (XO (XO (XO (XO (XO (XO (XO (XO
    (XO (XI (XO (XI (XI (XI (XI (XI
    XH)))))))))))))))))))))))))))))) :: ((Zpos (XO (XO (XI (XO (XI (XI (XI
    (XI (XO (XI (XI (XI (XI (XI (XO (XO (XI (XI (XI (XI (XI (XI (XO (XO (XI
    (XI (XI (XI (XI XH)))))))))))))))))))))))))))))) :: ((Zpos (XI (XI (XI
    (XI (XI (XO (XO (XO (XI (XI (XO (XI (XI (XI (XI (XO (XO (XI (XI (XI (XI
    (XI (XO (XO (XI (XI (XI (XI (XI
    XH)))))))))))))))))))))))))))))) :: ((Zpos (XO (XI (XI (XI (XO (XO (XO
    (XO (XO (XO (XO (XI (XI (XI (XO (XI (XI (XO (XI (XI (XI (XI (XO (XO (XI
    (XI (XI (XI (XI XH)))))))))))))))))))))))))))))) :: ((Zpos (XO (XO (XO
    (XO (XO (XO (XI (XI (XI (XO (XI (XO (XI (XI (XI (XI (XO (XO (XI (XI (XI
    (XI (XO (XO (XI (XI (XI (XI (XI
    XH)))))))))))))))))))))))))))))) :: ((Zpos (XO (XO (XI (XO (XI (XI (XO
    (XO (XO (XO (XI (XO (XI (XI (XO (XO (XO (XO (XI (XI (XI (XI (XO (XO (XI
    (XI (XI (XI (XI XH)))))))))))))))))))))))))))))) :: ((Zpos (XO (XI (XO
    (XI (XO (XI (XI (XO (XI (XI (XO (XO (XI (XI (XI (XO (XI (XI (XO (XI (XI
    (XI (XO (XO (XI (XI (XI (XI (XI
    XH)))))))))))))))))))))))))))))) :: ((Zpos (XI (XI (XI (XI (XI (XO (XI
    (XO (XI (XI (XO (XO (XI (XI (XO (XI (XO (XI (XO (XI (XI (XI (XO (XO (XI
    (XI (XI (XI (XI XH)))))))))))))))))))))))))))))) :: ((Zpos (XI (XO (XI
    (XO (XI (XO (XO (XO (XO (XO (XI (XO (XI (XI (XI (XI (XI (XO (XO (XI (XI
    (XI (XO (XO (XI (XI (XI (XI (XI
    XH)))))))))))))))))))))))))))))) :: ((Zpos (XO (XI (XO (XI (XO (XO (XO
    (XI (XI (XO (XI (XO (XI (XI (XO (XO (XI (XO (XO (XI (XI (XI (XO (XO (XI
    (XI (XI (XI (XI XH)))))))))))))))))))))))))))))) :: ((Zpos (XI (XO (XI
    (XI (XI (XI (XO (XI (XI (XI (XI (XO (XI (XI (XI (XO (XO (XO (XO (XI (XI
    (XI (XO (XO (XI (XI (XI (XI (XI
    XH)))))))))))))))))))))))))))))) :: ((Zpos (XO (XI (XI (XI (XO (XI (XO
    (XI (XO (XI (XO (XI (XI (XI (XO (XI (XI (XI (XI (XO (XI (XI (XO (XO (XI
    (XI (XI (XI (XI XH)))))))))))))))))))))))))))))) :: ((Zpos (XO (XO (XI
    (XI (XI (XO (XI (XO (XO (XI (XI (XI (XI (XI (XI (XI (XO (XI (XI (XO (XI
    (XI (XO (XO (XI (XI (XI (XI (XI
    XH)))))))))))))))))))))))))))))) :: ((Zpos (XO (XI (XI (XO (XO (XO (XI
    (XI (XO (XI (XO (XO (XO (XO (XI (XO (XO (XI (XI (XO (XI (XI (XO (XO (XI
    (XI (XI (XI (XI XH)))))))))))))))))))))))))))))) :: ((Zpos (XI (XI (XO
    (XI (XO (XI (XI (XI (XI (XI (XI (XO (XO (XO (XO (XI (XI (XO (XI (XO (XI
    (XI (XO (XO (XI (XI (XI (XI (XI
    XH)))))))))))))))))))))))))))))) :: ((Zpos (XI (XI (XO (XI (XO (XO (XI
    (XI (XI (XO (XI (XI (XO (XO (XI (XI (XO (XO (XI (XO (XI (XI (XO (XO (XI
    (XI (XI (XI (XI XH)))))))))))))))))))))))))))))) :: ((Zpos (XI (XO (XI
    (XO (XO (XI (XI (XO (XO (XO (XI (XO (XI (XO (XO (XO (XO (XO (XI (XO (XI
    (XI (XO (XO (XI (XI (XI (XI (XI
    XH)))))))))))))))))))))))))))))) :: ((Zpos (XO (XO (XO (XI (XI (XI (XO
    (XI (XI (XI (XO (XI (XI (XO (XI (XO (XI (XI (XO (XO (XI (XI (XO (XO (XI
    (XI (XI (XI (XI XH)))))))))))))))))))))))))))))) :: ((Zpos (XO (XO (XI
    (XO (XO (XO (XI (XI (XI (XI (XO (XO (XO (XI (XO (XI (XO (XI (XO (XO (XI
    (XI (XO (XO (XI (XI (XI (XI (XI
    XH)))))))))))))))))))))))))))))) :: ((Zpos (XI (XI (XI (XO (XO (XO (XO
    (XI (XO (XO (XI (XI (XO (XI (XI (XI (XI (XO (XO (XO (XI (XI (XO (XO (XI
    (XI (XI (XI (XI XH)))))))))))))))))))))))))))))) :: ((Zpos (XI (XO (XO
    (XO (XO (XO (XO (XO (XO (XI (XI (XO (XI (XI (XO (XO (XI (XO (XO (XO (XI
    (XI (XO (XO (XI (XI (XI (XI (XI
    XH)))))))))))))))))))))))))))))) :: ((Zpos (XO (XI (XO (XO (XI (XI (XO
    (XO (XO (XO (XO (XO (XO (XO (XO (XI (XO (XO (XO (XO (XI (XI (XO (XO (XI
    (XI (XI (XI (XI XH)))))))))))))))))))))))))))))) :: ((Zpos (XI (XO (XO
    (XI (XI (XO (XO (XO (XI (XI (XO (XI (XO (XO (XI (XI (XI (XI (XI (XI (XO
    (XI (XO (XO (XI (XI (XI (XI (XI
    XH)))))))))))))))))))))))))))))) :: ((Zpos (XO (XO (XI (XO (XI (XI (XO
    (XI (XO (XI (XI (XO (XI (XO (XO (XO (XI (XI (XI (XI (XO (XI (XO (XO (XI
    (XI (XI (XI (XI XH)))))))))))))))))))))))))))))) :: ((Zpos (XO (XO (XI
    (XO (XO (XO (XO (XO (XI (XI (XO (XO (XO (XI (XI (XO (XO (XI (XI (XI (XO
    (XI (XO (XO (XI (XI (XI (XI (XI
    XH)))))))))))))))))))))))))))))) :: ((Zpos (XI (XI (XI (XO (XO (XO (XO
    (XO (XO (XO (XO (XO (XI (XI (XO (XI (XI (XO (XI (XI (XO (XI (XO (XO (XI
    (XI (XI (XI (XI XH)))))))))))))))))))))))))))))) :: ((Zpos (XO (XO (XI
    (XI (XI (XI (XO (XI (XI (XO (XI (XI (XI (XI (XI (XI (XO (XO (XI (XI (XO
    (XI (XO (XO (XI (XI (XI (XI (XI
    XH)))))))))))))))))))))))))))))) :: ((Zpos (XO (XO (XI (XO (XO (XI (XO
    (XO (XO (XO (XI (XI (XO (XO (XI (XO (XO (XO (XI (XI (XO (XI (XO (XO (XI
    (XI (XI (XI (XI XH)))))))))))))))))))))))))))))) :: ((Zpos (XO (XI (XI
    (XI (XI (XI (XO (XO (XI (XI (XO (XI (XI (XO (XO (XI (XI (XI (XO (XI (XO
    (XI (XO (XO (XI (XI (XI (XI (XI
    XH)))))))))))))))))))))))))))))) :: ((Zpos (XO (XO (XO (XI (XO (XO (XO
    (XO (XI (XI (XO (XI (XO (XI (XI (XI (XO (XI (XO (XI (XO (XI (XO (XO (XI
    (XI (XI (XI (XI XH)))))))))))))))))))))))))))))) :: ((Zpos (XO (XI (XO
    (XO (XO (XO (XO (XI (XI (XI (XO (XI (XI (XI (XO (XO (XO (XI (XO (XI (XO
    (XI (XO (XO (XI (XI (XI (XI (XI
    XH)))))))))))))))))))))))))))))) :: ((Zpos (XO (XO (XI (XI (XO (XI (XO
    (XI (XO (XO (XI (XI (XO (XO (XO (XI (XI (XO (XO (XI (XO (XI (XO (XO (XI
    (XI (XI (XI (XI XH)))))))))))))))))))))))))))))) :: ((Zpos (XO (XO (XI
    (XO (XO (XO (XO (XI (XO (XI (XI (XI (XI (XO (XI (XI (XO (XO (XO (XI (XO
    (XI (XO (XO (XI (XI (XI (XI (XI
    XH)))))))))))))))))))))))))))))) :: ((Zpos (XO (XI (XO (XI (XO (XO (XO
    (XO (XI (XO (XO (XO (XI (XI (XO (XO (XO (XO (XO (XI (XO (XI (XO (XO (XI
    (XI (XI (XI (XI XH)))))))))))))))))))))))))))))) :: ((Zpos (XO (XI (XI
    (XI (XI (XI (XO (XO (XO (XO (XI (XO (XO (XO (XO (XI (XI (XI (XI (XO (XO
    (XI (XO (XO (XI (XI (XI (XI (XI
    XH)))))))))))))))))))))))))))))) :: ((Zpos (XO (XI (XI (XI (XI (XO (XO
    (XO (XO (XO (XO (XI (XI (XO (XI (XI (XO (XI (XI (XO (XO (XI (XO (XO (XI
    (XI (XI (XI (XI XH)))))))))))))))))))))))))))))) :: ((Zpos (XO (XI (XO
    (XI (XO (XI (XO (XI (XO (XO (XI (XI (XO (XI (XO (XO (XO (XI (XI (XO (XO
    (XI (XO (XO (XI (XI (XI (XI (XI
    XH)))))))))))))))))))))))))))))) :: ((Zpos (XI (XO (XO (XO (XO (XI (XI
    (XI (XI (XO (XO (XO (XO (XO (XO (XI (XI (XO (XI (XO (XO (XI (XO (XO (XI
    (XI (XI (XI (XI XH)))))))))))))))))))))))))))))) :: ((Zpos (XI (XI (XO
    (XO (XO (XO (XI (XI (XI (XI (XI (XO (XI (XO (XI (XI (XO (XO (XI (XO (XO
    (XI (XO (XO (XI (XI (XI (XI (XI
    XH)))))))))))))))))))))))))))))) :: ((Zpos (XI (XI (XI (XI (XO (XO (XI
    (XO (XO (XI (XI (XI (XO (XI (XO (XO (XO (XO (XI (XO (XO (XI (XO (XO (XI
    (XI (XI (XI (XI XH)))))))))))))))))))))))))))))) :: ((Zpos (XO (XO (XI
    (XO (XO (XO (XO (XI (XI (XO (XI (XO (XO (XO (XO (XI (XI (XI (XO (XO (XO
    (XI (XO (XO (XI (XI (XI (XI (XI
    XH)))))))))))))))))))))))))))))) :: ((Zpos (XO (XI (XO (XO (XO (XI (XI
    (XO (XI (XO (XI (XI (XI (XO (XI (XI (XO (XI (XO (XO (XO (XI (XO (XO (XI
    (XI (XI (XI (XI XH)))))))))))))))))))))))))))))) :: ((Zpos (XO (XO (XO
    (XI (XO (XI (XI (XI (XI (XO (XI (XO (XI (XI (XO (XO (XO (XI (XO (XO (XO
    (XI (XO (XO (XI (XI (XI (XI (XI
    XH)))))))))))))))))))))))))))))) :: ((Zpos (XI (XO (XI (XO (XI (XO (XO
    (XO (XI (XI (XI (XI (XO (XO (XO (XI (XI (XO (XO (XO (XO (XI (XO (XO (XI
    (XI (XI (XI (XI XH)))))))))))))))))))))))))))))) :: ((Zpos (XI (XO (XO
    (XI (XO (XI (XI (XI (XO (XO (XO (XI (XO (XI (XI (XI (XO (XO (XO (XO (XO
    (XI (XO (XO (XI (XI (XI (XI (XI
    XH)))))))))))))))))))))))))))))) :: ((Zpos (XI (XI (XO (XO (XO (XI (XI
    (XO (XI (XI (XO (XO (XO (XO (XI (XO (XO (XO (XO (XO (XO (XI (XO (XO (XI
    (XI (XI (XI (XI XH)))))))))))))))))))))))))))))) :: ((Zpos (XO (XI (XO
    (XO (XO (XO (XO (XI (XO (XI (XI (XI (XI (XO (XO (XI (XI (XI (XI (XI (XI
    (XO (XO (XO (XI (XI (XI (XI (XI
    XH)))))))))))))))))))))))))))))) :: ((Zpos (XO (XI (XI (XO (XO (XO (XI
    (XO (XO (XI (XO (XI (XI (XI (XI (XI (XO (XI (XI (XI (XI (XO (XO (XO (XI
    (XI (XI (XI (XI XH)))))))))))))))))))))))))))))) :: ((Zpos (XO (XI (XI
    (XI (XO (XI (XO (XI (XO (XI (XI (XO (XI (XO (XI (XO (XO (XI (XI (XI (XI
    (XO (XO (XO (XI (XI (XI (XI (XI
    XH)))))))))))))))))))))))))))))) :: ((Zpos (XI (XO (XO (XI (XI (XI (XO
    (XI (XI (XI (XO (XO (XI (XI (XO (XI (XI (XO (XI (XI (XI (XO (XO (XO (XI
    (XI (XI (XI (XI XH)))))))))))))))))))))))))))))) :: ((Zpos (XI (XI (XI
    (XO (XO (XI (XI (XO (XI (XO (XO (XO (XI (XO (XO (XO (XI (XO (XI (XI (XI
    (XO (XO (XO (XI (XI (XI (XI (XI
    XH)))))))))))))))))))))))))))))) :: ((Zpos (XO (XO (XO (XI (XI (XI (XO
    (XI (XI (XI (XI (XI (XO (XI (XI (XO (XO (XO (XI (XI (XI (XO (XO (XO (XI
    (XI (XI (XI (XI XH)))))))))))))))))))))))))))))) :: ((Zpos (XI (XO (XO
    (XI (XO (XI (XO (XI (XO (XI (XI (XI (XO (XO (XI (XI (XI (XI (XO (XI (XI
    (XO (XO (XO (XI (XI (XI (XI (XI
    XH)))))))))))))))))))))))))))))) :: ((Zpos (XO (XO (XI (XI (XI (XI (XO
    (XO (XO (XI (XI (XI (XO (XI (XO (XO (XI (XI (XO (XI (XI (XO (XO (XO (XI
    (XI (XI (XI (XI XH)))))))))))))))))))))))))))))) :: ((Zpos (XI (XI (XI
    (XI (XO (XI (XI (XO (XO (XI (XI (XI (XO (XO (XO (XI (XO (XI (XO (XI (XI
    (XO (XO (XO (XI (XI (XI (XI (XI
    XH)))))))))))))))))))))))))))))) :: ((Zpos (XO (XI (XO (XO (XO (XO (XI
    (XO (XI (XI (XI (XI (XO (XI (XI (XI (XI (XO (XO (XI (XI (XO (XO (XO (XI
    (XI (XI (XI (XI XH)))))))))))))))))))))))))))))) :: ((Zpos (XO (XO (XI
    (XO (XI (XI (XO (XI (XO (XO (XO (XO (XI (XO (XI (XO (XI (XO (XO (XI (XI
    (XO (XO (XO (XI (XI (XI (XI (XI
    XH)))))))))))))))))))))))))))))) :: ((Zpos (XO (XO (XI (XO (XO (XO (XI
    (XI (XO (XI (XO (XO (XI (XI (XO (XI (XO (XO (XO (XI (XI (XO (XO (XO (XI
    (XI (XI (XI (XI XH)))))))))))))))))))))))))))))) :: ((Zpos (XO (XI (XO
    (XO (XI (XI (XI (XO (XI (XO (XI (XO (XI (XO (XO (XO (XO (XO (XO (XI (XI
    (XO (XO (XO (XI (XI (XI (XI (XI
    XH)))))))))))))))))))))))))))))) :: ((Zpos (XI (XO (XI (XI (XI (XI (XO
    (XI (XO (XO (XO (XI (XI (XI (XI (XO (XI (XI (XI (XO (XI (XO (XO (XO (XI
    (XI (XI (XI (XI XH)))))))))))))))))))))))))))))) :: ((Zpos (XO (XO (XI
    (XO (XO (XI (XO (XI (XO (XO (XI (XI (XI (XO (XI (XI (XO (XI (XI (XO (XI
    (XO (XO (XO (XI (XI (XI (XI (XI
    XH)))))))))))))))))))))))))))))) :: ((Zpos (XO (XO (XO (XI (XO (XI (XO
    (XO (XI (XO (XO (XO (XO (XO (XI (XO (XO (XI (XI (XO (XI (XO (XO (XO (XI
    (XI (XI (XI (XI XH)))))))))))))))))))))))))))))) :: ((Zpos (XI (XI (XI
    (XO (XO (XO (XI (XO (XO (XI (XI (XO (XO (XI (XO (XI (XI (XO (XI (XO (XI
    (XO (XO (XO (XI (XI (XI (XI (XI
    XH)))))))))))))))))))))))))))))) :: ((Zpos (XO (XO (XO (XO (XO (XO (XO
    (XO (XO (XO (XI (XI (XO (XO (XO (XO (XI (XO (XI (XO (XI (XO (XO (XO (XI
    (XI (XI (XI (XI XH)))))))))))))))))))))))))))))) :: ((Zpos (XO (XO (XI
    (XO (XI (XO (XI (XO (XO (XI (XO (XO (XI (XI (XI (XO (XO (XO (XI (XO (XI
    (XO (XO (XO (XI (XI (XI (XI (XI
    XH)))))))))))))))))))))))))))))) :: ((Zpos (XI (XO (XO (XO (XO (XO (XI
    (XO (XI (XO (XO (XI (XI (XO (XI (XI (XI (XI (XO (XO (XI (XO (XO (XO (XI
    (XI (XI (XI (XI XH)))))))))))))))))))))))))))))) :: ((Zpos (XI (XI (XI
    (XO (XO (XO (XI (XI (XO (XO (XO (XO (XO (XO (XI (XO (XI (XI (XO (XO (XI
    (XO (XO (XO (XI (XI (XI (XI (XI
    XH)))))))))))))))))))))))))))))) :: ((Zpos (XO (XI (XI (XO (XO (XI (XI
    (XI (XO (XO (XO (XI (XO (XI (XO (XI (XO (XI (XO (XO (XI (XO (XO (XO (XI
    (XI (XI (XI (XI XH)))))))))))))))))))))))))))))) :: ((Zpos (XO (XO (XI
    (XI (XI (XO (XO (XI (XI (XO (XO (XO (XI (XO (XO (XO (XO (XI (XO (XO (XI
    (XO (XO (XO (XI (XI (XI (XI (XI
    XH)))))))))))))))))))))))))))))) :: ((Zpos (XO (XI (XO (XI (XO (XI (XI
    (XI (XO (XI (XO (XI (XI (XI (XI (XO (XI (XO (XO (XO (XI (XO (XO (XO (XI
    (XI (XI (XI (XI XH)))))))))))))))))))))))))))))) :: ((Zpos (XO (XI (XI
    (XI (XO (XO (XI (XI (XO (XO (XI (XO (XO (XI (XI (XI (XO (XO (XO (XO (XI
    (XO (XO (XO (XI (XI (XI (XI (XI
    XH)))))))))))))))))))))))))))))) :: ((Zpos (XI (XI (XI (XO (XO (XO (XI
    (XO (XI (XI (XI (XI (XO (XO (XI (XO (XO (XO (XO (XO (XI (XO (XO (XO (XI
    (XI (XI (XI (XI XH)))))))))))))))))))))))))))))) :: ((Zpos (XI (XI (XI
    (XO (XI (XO (XI (XO (XO (XI (XO (XI (XI (XI (XO (XI (XI (XI (XI (XI (XO
    (XO (XO (XO (XI (XI (XI (XI (XI
    XH)))))))))))))))))))))))))))))) :: ((Zpos (XI (XI (XO (XI (XI (XI (XI
    (XI (XI (XO (XI (XO (XO (XI (XO (XO (XI (XI (XI (XI (XO (XO (XO (XO (XI
    (XI (XI (XI (XI XH)))))))))))))))))))))))))))))) :: ((Zpos (XI (XI (XO
    (XO (XI (XI (XO (XO (XO (XI (XO (XO (XI (XO (XO (XI (XO (XI (XI (XI (XO
    (XO (XO (XO (XI (XI (XI (XI (XI
    XH)))))))))))))))))))))))))))))) :: ((Zpos (XI (XI (XI (XI (XI (XI (XI
    (XI (XO (XI (XI (XI (XI (XI (XI (XI (XI (XO (XI (XI (XO (XO (XO (XO (XI
    (XI (XI (XI (XI XH)))))))))))))))))))))))))))))) :: ((Zpos (XO (XI (XI
    (XI (XI (XO (XI (XO (XO (XO (XI (XI (XO (XI (XI (XO (XI (XO (XI (XI (XO
    (XO (XO (XO (XI (XI (XI (XI (XI
    XH)))))))))))))))))))))))))))))) :: ((Zpos (XI (XI (XI (XI (XO (XO (XI
    (XO (XO (XI (XO (XI (XI (XO (XI (XI (XO (XO (XI (XI (XO (XO (XO (XO (XI
    (XI (XI (XI (XI XH)))))))))))))))))))))))))))))) :: ((Zpos (XI (XI (XO
    (XO (XI (XO (XI (XI (XO (XO (XO (XI (XO (XO (XI (XO (XO (XO (XI (XI (XO
    (XO (XO (XO (XI (XI (XI (XI (XI
    XH)))))))))))))))))))))))))))))) :: ((Zpos (XO (XO (XO (XI (XO (XI (XI
    (XI (XI (XI (XI (XO (XI (XI (XO (XI (XI (XI (XO (XI (XO (XO (XO (XO (XI
    (XI (XI (XI (XI XH)))))))))))))))))))))))))))))) :: ((Zpos (XI (XO (XI
    (XI (XO (XO (XO (XI (XI (XI (XI (XO (XO (XI (XO (XO (XI (XI (XO (XI (XO
    (XO (XO (XO (XI (XI (XI (XI (XI
    XH)))))))))))))))))))))))))))))) :: ((Zpos (XI (XI (XO (XO (XO (XO (XI
    (XI (XI (XI (XI (XO (XI (XO (XO (XI (XO (XI (XO (XI (XO (XO (XO (XO (XI
    (XI (XI (XI (XI XH)))))))))))))))))))))))))))))) :: ((Zpos (XO (XO (XO
    (XI (XO (XO (XO (XI (XO (XO (XO (XI (XO (XO (XO (XO (XO (XI (XO (XI (XO
    (XO (XO (XO (XI (XI (XI (XI (XI
    XH)))))))))))))))))))))))))))))) :: ((Zpos (XI (XO (XI (XI (XI (XO (XI
    (XI (XI (XO (XO (XI (XI (XI (XI (XO (XI (XO (XO (XI (XO (XO (XO (XO (XI
    (XI (XI (XI (XI XH)))))))))))))))))))))))))))))) :: ((Zpos (XO (XO (XO
    (XO (XO (XO (XI (XI (XI (XI (XO (XI (XO (XI (XI (XI (XO (XO (XO (XI (XO
    (XO (XO (XO (XI (XI (XI (XI (XI
    XH)))))))))))))))))))))))))))))) :: ((Zpos (XI (XO (XO (XO (XI (XI (XO
    (XO (XO (XI (XI (XI (XI (XO (XI (XO (XO (XO (XO (XI (XO (XO (XO (XO (XI
    (XI (XI (XI (XI XH)))))))))))))))))))))))))))))) :: ((Zpos (XI (XI (XI
    (XI (XO (XI (XO (XO (XI (XO (XO (XO (XI (XO (XI (XI (XI (XI (XI (XO (XO
    (XO (XO (XO (XI (XI (XI (XI (XI
    XH)))))))))))))))))))))))))))))) :: ((Zpos (XO (XI (XO (XI (XI (XI (XO
    (XI (XO (XO (XI (XO (XO (XO (XI (XO (XI (XI (XI (XO (XO (XO (XO (XO (XI
    (XI (XI (XI (XI XH)))))))))))))))))))))))))))))) :: ((Zpos (XO (XI (XO
    (XO (XI (XO (XI (XI (XO (XO (XO (XI (XI (XI (XO (XI (XO (XI (XI (XO (XO
    (XO (XO (XO (XI (XI (XI (XI (XI
    XH)))))))))))))))))))))))))))))) :: ((Zpos (XI (XO (XI (XO (XI (XI (XI
    (XO (XI (XO (XI (XI (XO (XI (XO (XO (XO (XI (XI (XO (XO (XO (XO (XO (XI
    (XI (XI (XI (XI XH)))))))))))))))))))))))))))))) :: ((Zpos (XO (XO (XI
    (XO (XO (XI (XO (XI (XO (XI (XO (XO (XO (XI (XO (XI (XI (XO (XI (XO (XO
    (XO (XO (XO (XI (XI (XI (XI (XI
    XH)))))))))))))))))))))))))))))) :: ((Zpos (XI (XO (XI (XI (XI (XO (XI
    (XO (XO (XO (XO (XI (XI (XO (XO (XO (XI (XO (XI (XO (XO (XO (XO (XO (XI
    (XI (XI (XI (XI XH)))))))))))))))))))))))))))))) :: ((Zpos (XO (XO (XO
    (XO (XO (XI (XO (XI (XO (XI (XI (XI (XO (XO (XO (XI (XO (XO (XI (XO (XO
    (XO (XO (XO (XI (XI (XI (XI (XI
    XH)))))))))))))))))))))))))))))) :: ((Zpos (XI (XO (XI (XI (XO (XI (XI
    (XO (XI (XO (XI (XO (XO (XO (XO (XO (XO (XO (XI (XO (XO (XO (XO (XO (XI
    (XI (XI (XI (XI XH)))))))))))))))))))))))))))))) :: ((Zpos (XI (XI (XO
    (XO (XO (XO (XI (XI (XO (XO (XI (XI (XI (XI (XI (XO (XI (XI (XO (XO (XO
    (XO (XO (XO (XI (XI (XI (XI (XI
    XH)))))))))))))))))))))))))))))) :: ((Zpos (XO (XI (XO (XO (XO (XI (XO
    (XI (XO (XO (XI (XO (XI (XI (XI (XI (XO (XI (XO (XO (XO (XO (XO (XO (XI
    (XI (XI (XI (XI XH)))))))))))))))))))))))))))))) :: ((Zpos (XO (XO (XO
    (XI (XO (XO (XO (XO (XI (XO (XI (XI (XO (XI (XI (XO (XO (XI (XO (XO (XO
    (XO (XO (XO (XI (XI (XI (XI (XI
    XH)))))))))))))))))))))))))))))) :: ((Zpos (XI (XI (XI (XO (XI (XI (XI
    (XI (XI (XO (XI (XO (XO (XI (XI (XI (XI (XO (XO (XO (XO (XO (XO (XO (XI
    (XI (XI (XI (XI XH)))))))))))))))))))))))))))))) :: ((Zpos (XI (XI (XO
    (XI (XO (XI (XI (XO (XI (XI (XI (XI (XI (XO (XI (XO (XI (XO (XO (XO (XO
    (XO (XO (XO (XI (XI (XI (XI (XI
    XH)))))))))))))))))))))))))))))) :: ((Zpos (XI (XI (XI (XO (XO (XI (XI
    (XO (XI (XO (XO (XI (XI (XO (XI (XI (XO (XO (XO (XO (XO (XO (XO (XO (XI
    (XI (XI (XI (XI XH)))))))))))))))))))))))))))))) :: ((Zpos (XO (XO (XO
    (XI (XO (XI (XI (XI (XI (XI (XO (XO (XI (XO (XI (XO (XO (XO (XO (XO (XO
    (XO (XO (XO (XI (XI (XI (XI (XI
    XH)))))))))))))))))))))))))))))) :: ((Zpos (XO (XI (XI (XI (XI (XO (XI
    (XI (XI (XO (XI (XI (XI (XO (XO (XI (XI (XI (XI (XI (XI (XI (XI (XI (XO
    (XI (XI (XI (XI XH)))))))))))))))))))))))))))))) :: ((Zpos (XI (XO (XI
    (XO (XI (XI (XI (XI (XO (XO (XI (XO (XI (XO (XO (XI (XO (XI (XI (XI (XI
    (XI (XI (XI (XO (XI (XI (XI (XI
    XH)))))))))))))))))))))))))))))) :: ((Zpos (XO (XO (XI (XO (XI (XO (XO
    (XO (XI (XO (XI (XI (XO (XO (XO (XI (XI (XO (XI (XI (XI (XI (XI (XI (XO
    (XI (XI (XI (XI XH)))))))))))))))))))))))))))))) :: ((Zpos (XO (XO (XI
    (XI (XI (XI (XO (XO (XO (XI (XI (XO (XO (XO (XO (XI (XO (XO (XI (XI (XI
    (XI (XI (XI (XO (XI (XI (XI (XI
    XH)))))))))))))))))))))))))))))) :: ((Zpos (XI (XO (XO (XI (XO (XI (XI
    (XO (XO (XO (XO (XO (XO (XO (XO (XI (XI (XI (XO (XI (XI (XI (XI (XI (XO
    (XI (XI (XI (XI XH)))))))))))))))))))))))))))))) :: ((Zpos (XI (XO (XI
    (XI (XI (XO (XO (XI (XI (XI (XO (XI (XI (XI (XI (XO (XO (XI (XO (XI (XI
    (XI (XI (XI (XO (XI (XI (XI (XI
    XH)))))))))))))))))))))))))))))) :: ((Zpos (XI (XO (XI (XO (XI (XO (XI
    (XI (XI (XI (XI (XO (XI (XI (XI (XO (XI (XO (XO (XI (XI (XI (XI (XI (XO
    (XI (XI (XI (XI XH)))))))))))))))))))))))))))))) :: ((Zpos (XO (XO (XO
    (XO (XI (XO (XO (XO (XI (XO (XI (XO (XI (XI (XI (XO (XO (XO (XO (XI (XI
    (XI (XI (XI (XO (XI (XI (XI (XI
    XH)))))))))))))))))))))))))))))) :: ((Zpos (XO (XI (XI (XI (XO (XO (XI
    (XO (XI (XI (XO (XO (XI (XI (XI (XO (XI (XI (XI (XO (XI (XI (XI (XI (XO
    (XI (XI (XI (XI XH)))))))))))))))))))))))))))))) :: ((Zpos (XO (XI (XI
    (XI (XO (XO (XO (XI (XO (XI (XO (XO (XI (XI (XI (XO (XO (XI (XI (XO (XI
    (XI (XI (XI (XO (XI (XI (XI (XI
    XH)))))))))))))))))))))))))))))) :: ((Zpos (XO (XI (XI (XI (XO (XO (XI
    (XI (XO (XI (XO (XO (XI (XI (XI (XO (XI (XO (XI (XO (XI (XI (XI (XI (XO
    (XI (XI (XI (XI XH)))))))))))))))))))))))))))))) :: ((Zpos (XI (XO (XI
    (XI (XO (XO (XO (XO (XO (XO (XI (XO (XI (XI (XI (XO (XO (XO (XI (XO (XI
    (XI (XI (XI (XO (XI (XI (XI (XI
    XH)))))))))))))))))))))))))))))) :: ((Zpos (XI (XI (XO (XI (XO (XO (XI
    (XO (XO (XI (XI (XO (XI (XI (XI (XO (XI (XI (XO (XO (XI (XI (XI (XI (XO
    (XI (XI (XI (XI XH)))))))))))))))))))))))))))))) :: ((Zpos (XI (XI (XI
    (XO (XO (XO (XO (XI (XI (XO (XO (XI (XI (XI (XI (XO (XO (XI (XO (XO (XI
    (XI (XI (XI (XO (XI (XI (XI (XI
    XH)))))))))))))))))))))))))))))) :: ((Zpos (XI (XI (XI (XI (XI (XI (XO
    (XI (XI (XO (XI (XI (XI (XI (XI (XO (XI (XO (XO (XO (XI (XI (XI (XI (XO
    (XI (XI (XI (XI XH)))))))))))))))))))))))))))))) :: ((Zpos (XO (XI (XO
    (XO (XI (XI (XI (XI (XO (XI (XO (XO (XO (XO (XO (XI (XO (XO (XO (XO (XI
    (XI (XI (XI (XO (XI (XI (XI (XI
    XH)))))))))))))))))))))))))))))) :: ((Zpos (XI (XO (XO (XO (XO (XI (XO
    (XO (XI (XO (XO (XI (XO (XO (XO (XI (XI (XI (XI (XI (XO (XI (XI (XI (XO
    (XI (XI (XI (XI XH)))))))))))))))))))))))))))))) :: ((Zpos (XO (XO (XO
    (XI (XO (XO (XI (XO (XO (XO (XO (XO (XI (XO (XO (XI (XO (XI (XI (XI (XO
    (XI (XI (XI (XO (XI (XI (XI (XI
    XH)))))))))))))))))))))))))))))) :: ((Zpos (XI (XO (XO (XI (XO (XI (XI
    (XO (XO (XO (XO (XI (XI (XO (XO (XI (XI (XO (XI (XI (XO (XI (XI (XI (XO
    (XI (XI (XI (XI XH)))))))))))))))))))))))))))))) :: ((Zpos (XI (XO (XO
    (XO (XO (XO (XO (XI (XI (XO (XO (XO (XO (XI (XO (XI (XO (XO (XI (XI (XO
    (XI (XI (XI (XO (XI (XI (XI (XI
    XH)))))))))))))))))))))))))))))) :: ((Zpos (XI (XI (XI (XI (XO (XO (XO
    (XI (XI (XI (XO (XI (XO (XI (XO (XI (XI (XI (XO (XI (XO (XI (XI (XI (XO
    (XI (XI (XI (XI XH)))))))))))))))))))))))))))))) :: ((Zpos (XI (XI (XO
    (XO (XI (XO (XO (XI (XO (XI (XI (XO (XI (XI (XO (XI (XO (XI (XO (XI (XO
    (XI (XI (XI (XO (XI (XI (XI (XI
    XH)))))))))))))))))))))))))))))) :: ((Zpos (XI (XO (XI (XI (XO (XO (XO
    (XI (XO (XI (XO (XO (XO (XO (XI (XI (XI (XO (XO (XI (XO (XI (XI (XI (XO
    (XI (XI (XI (XI XH)))))))))))))))))))))))))))))) :: ((Zpos (XI (XO (XO
    (XI (XI (XI (XI (XO (XI (XI (XI (XI (XO (XO (XI (XI (XO (XO (XO (XI (XO
    (XI (XI (XI (XO (XI (XI (XI (XI
    XH)))))))))))))))))))))))))))))) :: ((Zpos (XI (XO (XO (XI (XI (XO (XI
    (XO (XI (XO (XI (XI (XI (XO (XI (XI (XI (XI (XI (XO (XO (XI (XI (XI (XO
    (XI (XI (XI (XI XH)))))))))))))))))))))))))))))) :: ((Zpos (XI (XI (XO
    (XI (XO (XI (XO (XO (XO (XO (XI (XI (XO (XI (XI (XI (XO (XI (XI (XO (XO
    (XI (XI (XI (XO (XI (XI (XI (XI
    XH)))))))))))))))))))))))))))))) :: ((Zpos (XI (XO (XI (XI (XO (XI (XI
    (XI (XI (XI (XO (XI (XI (XI (XI (XI (XI (XO (XI (XO (XO (XI (XI (XI (XO
    (XI (XI (XI (XI XH)))))))))))))))))))))))))))))) :: ((Zpos (XO (XO (XO
    (XO (XO (XI (XO (XI (XO (XO (XI (XI (XO (XO (XO (XO (XI (XO (XI (XO (XO
    (XI (XI (XI (XO (XI (XI (XI (XI
    XH)))))))))))))))))))))))))))))) :: ((Zpos (XI (XO (XO (XO (XO (XO (XI
    (XO (XO (XI (XI (XI (XI (XO (XO (XO (XO (XO (XI (XO (XO (XI (XI (XI (XO
    (XI (XI (XI (XI XH)))))))))))))))))))))))))))))) :: ((Zpos (XI (XO (XO
    (XO (XI (XO (XI (XI (XO (XO (XO (XO (XI (XI (XO (XO (XI (XI (XO (XO (XO
    (XI (XI (XI (XO (XI (XI (XI (XI
    XH)))))))))))))))))))))))))))))) :: ((Zpos (XO (XI (XI (XI (XO (XO (XI
    (XO (XO (XO (XI (XO (XO (XO (XI (XO (XO (XI (XO (XO (XO (XI (XI (XI (XO
    (XI (XI (XI (XI XH)))))))))))))))))))))))))))))) :: ((Zpos (XI (XI (XI
    (XO (XI (XI (XO (XI (XO (XO (XO (XI (XI (XO (XI (XO (XI (XO (XO (XO (XO
    (XI (XI (XI (XO (XI (XI (XI (XI
    XH)))))))))))))))))))))))))))))) :: ((Zpos (XO (XO (XI (XI (XO (XO (XO
    (XO (XO (XI (XI (XI (XO (XI (XI (XO (XO (XO (XO (XO (XO (XI (XI (XI (XO
    (XI (XI (XI (XI XH)))))))))))))))))))))))))))))) :: ((Zpos (XI (XI (XO
    (XI (XO (XO (XI (XO (XO (XO (XI (XO (XO (XO (XO (XI (XI (XI (XI (XI (XI
    (XO (XI (XI (XO (XI (XI (XI (XI
    XH)))))))))))))))))))))))))))))) :: ((Zpos (XI (XI (XO (XO (XI (XI (XI
    (XO (XI (XI (XO (XI (XI (XO (XO (XI (XO (XI (XI (XI (XI (XO (XI (XI (XO
    (XI (XI (XI (XI XH)))))))))))))))))))))))))))))) :: ((Zpos (XO (XO (XI
    (XO (XO (XO (XO (XI (XI (XI (XO (XO (XI (XI (XO (XI (XI (XO (XI (XI (XI
    (XO (XI (XI (XO (XI (XI (XI (XI
    XH)))))))))))))))))))))))))))))) :: ((Zpos (XI (XO (XI (XI (XI (XI (XI
    (XO (XO (XO (XI (XI (XO (XO (XI (XI (XO (XO (XI (XI (XI (XO (XI (XI (XO
    (XI (XI (XI (XI XH)))))))))))))))))))))))))))))) :: ((Zpos (XI (XO (XI
    (XI (XI (XO (XI (XO (XO (XI (XI (XO (XO (XI (XI (XI (XI (XI (XO (XI (XI
    (XO (XI (XI (XO (XI (XI (XI (XI
    XH)))))))))))))))))))))))))))))) :: ((Zpos (XO (XI (XO (XO (XO (XI (XO
    (XO (XI (XO (XO (XO (XO (XO (XO (XO (XI (XI (XO (XI (XI (XO (XI (XI (XO
    (XI (XI (XI (XI XH)))))))))))))))))))))))))))))) :: ((Zpos (XI (XO (XI
    (XI (XO (XO (XI (XI (XO (XO (XI (XI (XI (XO (XO (XO (XO (XI (XO (XI (XI
    (XO (XI (XI (XO (XI (XI (XI (XI
    XH)))))))))))))))))))))))))))))) :: ((Zpos (XO (XO (XI (XI (XI (XO (XI
    (XO (XI (XO (XO (XI (XI (XI (XO (XO (XI (XO (XO (XI (XI (XO (XI (XI (XO
    (XI (XI (XI (XI XH)))))))))))))))))))))))))))))) :: ((Zpos (XO (XI (XI
    (XI (XO (XO (XI (XI (XO (XI (XI (XO (XI (XO (XI (XO (XO (XO (XO (XI (XI
    (XO (XI (XI (XO (XI (XI (XI (XI
    XH)))))))))))))))))))))))))))))) :: ((Zpos (XO (XI (XO (XO (XO (XI (XO
    (XO (XI (XO (XI (XO (XI (XI (XI (XO (XI (XI (XI (XO (XI (XO (XI (XI (XO
    (XI (XI (XI (XI XH)))))))))))))))))))))))))))))) :: ((Zpos (XI (XI (XI
    (XO (XI (XO (XI (XO (XO (XO (XI (XO (XI (XO (XO (XI (XO (XI (XI (XO (XI
    (XO (XI (XI (XO (XI (XI (XI (XI
    XH)))))))))))))))))))))))))))))) :: ((Zpos (XO (XI (XI (XI (XO (XI (XI
    (XO (XO (XO (XI (XO (XI (XI (XO (XI (XI (XO (XI (XO (XI (XO (XI (XI (XO
    (XI (XI (XI (XI XH)))))))))))))))))))))))))))))) :: ((Zpos (XO (XO (XI
    (XO (XO (XI (XI (XO (XI (XO (XI (XO (XI (XO (XI (XI (XO (XO (XI (XO (XI
    (XO (XI (XI (XO (XI (XI (XI (XI
    XH)))))))))))))))))))))))))))))) :: ((Zpos (XO (XO (XO (XI (XI (XI (XO
    (XO (XI (XI (XI (XO (XI (XI (XI (XI (XI (XI (XO (XO (XI (XO (XI (XI (XO
    (XI (XI (XI (XI XH)))))))))))))))))))))))))))))) :: ((Zpos (XI (XI (XO
    (XI (XO (XI (XI (XI (XI (XO (XO (XI (XI (XO (XO (XO (XI (XI (XO (XO (XI
    (XO (XI (XI (XO (XI (XI (XI (XI
    XH)))))))))))))))))))))))))))))) :: ((Zpos (XI (XI (XO (XI (XI (XI (XI
    (XO (XI (XO (XI (XI (XI (XI (XO (XO (XO (XI (XO (XO (XI (XO (XI (XI (XO
    (XI (XI (XI (XI XH)))))))))))))))))))))))))))))) :: ((Zpos (XI (XI (XI
    (XO (XO (XI (XI (XI (XI (XO (XO (XO (XO (XI (XI (XO (XI (XO (XO (XO (XI
    (XO (XI (XI (XO (XI (XI (XI (XI
    XH)))))))))))))))))))))))))))))) :: ((Zpos (XO (XI (XI (XI (XO (XI (XO
    (XO (XI (XI (XI (XO (XO (XO (XO (XI (XO (XO (XO (XO (XI (XO (XI (XI (XO
    (XI (XI (XI (XI XH)))))))))))))))))))))))))))))) :: ((Zpos (XO (XO (XO
    (XO (XI (XO (XI (XO (XI (XO (XI (XI (XO (XI (XO (XI (XI (XI (XI (XI (XO
    (XO (XI (XI (XO (XI (XI (XI (XI
    XH)))))))))))))))))))))))))))))) :: ((Zpos (XO (XO (XI (XI (XO (XO (XI
    (XO (XO (XO (XI (XO (XI (XO (XI (XI (XO (XI (XI (XI (XO (XO (XI (XI (XO
    (XI (XI (XI (XI XH)))))))))))))))))))))))))))))) :: ((Zpos (XO (XO (XO
    (XO (XO (XI (XO (XO (XO (XO (XI (XI (XI (XI (XI (XI (XI (XO (XI (XI (XO
    (XO (XI (XI (XO (XI (XI (XI (XI
    XH)))))))))))))))))))))))))))))) :: ((Zpos (XI (XO (XI (XI (XO (XO (XI
    (XI (XO (XO (XI (XO (XO (XI (XO (XO (XI (XO (XI (XI (XO (XO (XI (XI (XO
    (XI (XI (XI (XI XH)))))))))))))))))))))))))))))) :: ((Zpos (XO (XO (XO
    (XO (XI (XO (XI (XO (XO (XI (XI (XI (XO (XO (XI (XO (XO (XO (XI (XI (XO
    (XO (XI (XI (XO (XI (XI (XI (XI
    XH)))))))))))))))))))))))))))))) :: ((Zpos (XO (XI (XO (XI (XO (XI (XO
    (XI (XO (XO (XO (XI (XI (XI (XI (XO (XI (XI (XO (XI (XO (XO (XI (XI (XO
    (XI (XI (XI (XI XH)))))))))))))))))))))))))))))) :: ((Zpos (XI (XO (XO
    (XI (XI (XO (XI (XI (XI (XI (XO (XO (XO (XI (XO (XI (XO (XI (XO (XI (XO
    (XO (XI (XI (XO (XI (XI (XI (XI
    XH)))))))))))))))))))))))))))))) :: ((Zpos (XI (XO (XI (XI (XI (XO (XI
    (XI (XI (XI (XI (XI (XO (XO (XI (XI (XI (XO (XO (XI (XO (XO (XI (XI (XO
    (XI (XI (XI (XI XH)))))))))))))))))))))))))))))) :: ((Zpos (XO (XO (XI
    (XO (XI (XI (XO (XI (XO (XO (XI (XI (XI (XI (XI (XI (XO (XO (XO (XI (XO
    (XO (XI (XI (XO (XI (XI (XI (XI
    XH)))))))))))))))))))))))))))))) :: ((Zpos (XI (XI (XI (XI (XI (XO (XI
    (XO (XO (XI (XO (XI (XO (XI (XO (XO (XO (XO (XO (XI (XO (XO (XI (XI (XO
    (XI (XI (XI (XI XH)))))))))))))))))))))))))))))) :: ((Zpos (XI (XI (XO
    (XI (XI (XO (XI (XI (XO (XO (XO (XI (XI (XO (XI (XO (XI (XI (XI (XO (XO
    (XO (XI (XI (XO (XI (XI (XI (XI
    XH)))))))))))))))))))))))))))))) :: ((Zpos (XI (XO (XO (XI (XO (XI (XO
    (XO (XO (XO (XO (XI (XO (XO (XO (XI (XO (XI (XI (XO (XO (XO (XI (XI (XO
    (XI (XI (XI (XI XH)))))))))))))))))))))))))))))) :: ((Zpos (XO (XO (XO
    (XI (XO (XO (XI (XO (XO (XO (XO (XI (XI (XI (XO (XI (XI (XO (XI (XO (XO
    (XO (XI (XI (XO (XI (XI (XI (XI
    XH)))))))))))))))))))))))))))))) :: ((Zpos (XO (XI (XI (XO (XI (XI (XO
    (XO (XI (XO (XO (XI (XO (XI (XI (XI (XO (XO (XI (XO (XO (XO (XI (XI (XO
    (XI (XI (XI (XI XH)))))))))))))))))))))))))))))) :: ((Zpos (XI (XI (XO
    (XO (XI (XI (XI (XI (XO (XI (XO (XI (XI (XO (XO (XO (XO (XO (XI (XO (XO
    (XO (XI (XI (XO (XI (XI (XI (XI
    XH)))))))))))))))))))))))))))))) :: ((Zpos (XO (XI (XI (XI (XI (XI (XI
    (XO (XI (XO (XI (XI (XO (XO (XI (XO (XI (XI (XO (XO (XO (XO (XI (XI (XO
    (XI (XI (XI (XI XH)))))))))))))))))))))))))))))) :: ((Zpos (XO (XI (XI
    (XO (XI (XO (XI (XI (XO (XO (XO (XO (XO (XO (XO (XI (XO (XI (XO (XO (XO
    (XO (XI (XI (XO (XI (XI (XI (XI
    XH)))))))))))))))))))))))))))))) :: ((Zpos (XI (XI (XO (XI (XI (XI (XI
    (XI (XO (XO (XI (XO (XI (XI (XO (XI (XI (XO (XO (XO (XO (XO (XI (XI (XO
    (XI (XI (XI (XI XH)))))))))))))))))))))))))))))) :: ((Zpos (XI (XI (XO
    (XI (XO (XI (XI (XI (XI (XO (XO (XI (XO (XI (XI (XI (XO (XO (XO (XO (XO
    (XO (XI (XI (XO (XI (XI (XI (XI
    XH)))))))))))))))))))))))))))))) :: ((Zpos (XO (XI (XI (XO (XO (XI (XO
    (XI (XI (XI (XI (XI (XI (XO (XO (XO (XO (XO (XO (XO (XO (XO (XI (XI (XO
    (XI (XI (XI (XI XH)))))))))))))))))))))))))))))) :: ((Zpos (XO (XO (XI
    (XI (XO (XI (XO (XO (XO (XI (XI (XO (XI (XO (XI (XO (XI (XI (XI (XI (XI
    (XI (XO (XI (XO (XI (XI (XI (XI
    XH)))))))))))))))))))))))))))))) :: ((Zpos (XO (XI (XO (XI (XI (XI (XI
    (XO (XI (XO (XI (XI (XO (XO (XO (XI (XO (XI (XI (XI (XI (XI (XO (XI (XO
    (XI (XI (XI (XI XH)))))))))))))))))))))))))))))) :: ((Zpos (XI (XO (XO
    (XO (XI (XO (XO (XI (XI (XO (XI (XO (XO (XO (XI (XI (XI (XO (XI (XI (XI
    (XI (XO (XI (XO (XI (XI (XI (XI
    XH)))))))))))))))))))))))))))))) :: ((Zpos (XO (XO (XO (XO (XI (XI (XI
    (XO (XO (XI (XI (XI (XI (XI (XI (XI (XO (XO (XI (XI (XI (XI (XO (XI (XO
    (XI (XI (XI (XI XH)))))))))))))))))))))))))))))) :: ((Zpos (XO (XI (XI
    (XO (XI (XO (XO (XO (XO (XO (XO (XI (XI (XI (XO (XO (XO (XO (XI (XI (XI
    (XI (XO (XI (XO (XI (XI (XI (XI
    XH)))))))))))))))))))))))))))))) :: ((Zpos (XO (XI (XO (XO (XO (XO (XO
    (XI (XO (XI (XO (XO (XI (XI (XI (XO (XI (XI (XO (XI (XI (XI (XO (XI (XO
    (XI (XI (XI (XI XH)))))))))))))))))))))))))))))) :: ((Zpos (XI (XI (XO
    (XO (XI (XI (XO (XI (XI (XO (XI (XI (XO (XI (XO (XI (XO (XI (XO (XI (XI
    (XI (XO (XI (XO (XI (XI (XI (XI
    XH)))))))))))))))))))))))))))))) :: ((Zpos (XI (XO (XO (XI (XO (XI (XO
    (XI (XI (XO (XO (XI (XO (XI (XI (XI (XI (XO (XO (XI (XI (XI (XO (XI (XO
    (XI (XI (XI (XI XH)))))))))))))))))))))))))))))) :: ((Zpos (XI (XI (XO
    (XO (XO (XI (XI (XO (XO (XI (XI (XO (XO (XI (XO (XO (XI (XO (XO (XI (XI
    (XI (XO (XI (XO (XI (XI (XI (XI
    XH)))))))))))))))))))))))))))))) :: ((Zpos (XO (XO (XO (XO (XO (XI (XI
    (XI (XI (XI (XO (XO (XO (XI (XI (XO (XO (XO (XO (XI (XI (XI (XO (XI (XO
    (XI (XI (XI (XI XH)))))))))))))))))))))))))))))) :: ((Zpos (XI (XI (XI
    (XI (XI (XO (XO (XO (XO (XI (XO (XO (XO (XI (XO (XI (XI (XI (XI (XO (XI
    (XI (XO (XI (XO (XI (XI (XI (XI
    XH)))))))))))))))))))))))))))))) :: ((Zpos (XO (XO (XO (XO (XO (XI (XO
    (XO (XI (XO (XO (XO (XO (XI (XI (XI (XO (XI (XI (XO (XI (XI (XO (XI (XO
    (XI (XI (XI (XI XH)))))))))))))))))))))))))))))) :: ((Zpos (XI (XO (XO
    (XO (XO (XI (XI (XI (XO (XO (XO (XO (XO (XI (XO (XO (XO (XI (XI (XO (XI
    (XI (XO (XI (XO (XI (XI (XI (XI
    XH)))))))))))))))))))))))))))))) :: ((Zpos (XI (XI (XO (XO (XO (XI (XI
    (XO (XI (XO (XO (XO (XO (XI (XI (XO (XI (XO (XI (XO (XI (XI (XO (XI (XO
    (XI (XI (XI (XI XH)))))))))))))))))))))))))))))) :: ((Zpos (XO (XO (XI
    (XO (XO (XI (XO (XI (XO (XI (XO (XO (XO (XI (XO (XI (XO (XO (XI (XO (XI
    (XI (XO (XI (XO (XI (XI (XI (XI
    XH)))))))))))))))))))))))))))))) :: ((Zpos (XI (XI (XO (XO (XO (XI (XO
    (XI (XO (XO (XI (XO (XO (XI (XI (XI (XI (XI (XO (XO (XI (XI (XO (XI (XO
    (XI (XI (XI (XI XH)))))))))))))))))))))))))))))) :: ((Zpos (XO (XO (XO
    (XO (XO (XI (XI (XO (XI (XI (XI (XO (XO (XI (XO (XO (XI (XI (XO (XO (XI
    (XI (XO (XI (XO (XI (XI (XI (XI
    XH)))))))))))))))))))))))))))))) :: ((Zpos (XI (XI (XO (XI (XI (XO (XI
    (XI (XO (XI (XO (XI (XO (XI (XI (XO (XO (XI (XO (XO (XI (XI (XO (XI (XO
    (XI (XI (XI (XI XH)))))))))))))))))))))))))))))) :: ((Zpos (XI (XO (XO
    (XO (XI (XO (XO (XO (XI (XI (XI (XI (XO (XI (XO (XI (XI (XO (XO (XO (XI
    (XI (XO (XI (XO (XI (XI (XI (XI
    XH)))))))))))))))))))))))))))))) :: ((Zpos (XO (XO (XI (XO (XO (XO (XO
    (XO (XO (XO (XI (XO (XI (XI (XI (XI (XO (XO (XO (XO (XI (XI (XO (XI (XO
    (XI (XI (XI (XI XH)))))))))))))))))))))))))))))) :: ((Zpos (XI (XO (XO
    (XO (XI (XI (XO (XI (XI (XO (XO (XI (XI (XI (XO (XO (XO (XO (XO (XO (XI
    (XI (XO (XI (XO (XI (XI (XI (XI
    XH)))))))))))))))))))))))))))))) :: ((Zpos (XO (XO (XO (XI (XI (XO (XO
    (XO (XO (XO (XO (XO (XO (XO (XO (XI (XI (XI (XI (XI (XO (XI (XO (XI (XO
    (XI (XI (XI (XI XH)))))))))))))))))))))))))))))) :: ((Zpos (XI (XO (XO
    (XI (XI (XI (XO (XO (XI (XI (XI (XO (XO (XO (XI (XI (XO (XI (XI (XI (XO
    (XI (XO (XI (XO (XI (XI (XI (XI
    XH)))))))))))))))))))))))))))))) :: ((Zpos (XO (XI (XO (XO (XI (XO (XO
    (XO (XI (XI (XI (XI (XO (XO (XO (XO (XO (XI (XI (XI (XO (XI (XO (XI (XO
    (XI (XI (XI (XI XH)))))))))))))))))))))))))))))) :: ((Zpos (XO (XO (XI
    (XO (XO (XI (XO (XI (XI (XI (XI (XO (XI (XO (XI (XO (XI (XO (XI (XI (XO
    (XI (XO (XI (XO (XI (XI (XI (XI
    XH)))))))))))))))))))))))))))))) :: ((Zpos (XO (XO (XI (XI (XO (XI (XI
    (XI (XO (XO (XO (XO (XO (XI (XO (XI (XO (XO (XI (XI (XO (XI (XO (XI (XO
    (XI (XI (XI (XI XH)))))))))))))))))))))))))))))) :: ((Zpos (XO (XO (XI
    (XI (XO (XI (XI (XI (XO (XI (XO (XI (XO (XI (XI (XI (XI (XI (XO (XI (XO
    (XI (XO (XI (XO (XI (XI (XI (XI
    XH)))))))))))))))))))))))))))))) :: ((Zpos (XI (XO (XO (XO (XO (XI (XO
    (XI (XI (XO (XI (XO (XI (XI (XO (XO (XI (XI (XO (XI (XO (XI (XO (XI (XO
    (XI (XI (XI (XI XH)))))))))))))))))))))))))))))) :: ((Zpos (XI (XI (XO
    (XI (XO (XO (XO (XO (XI (XO (XO (XO (XO (XO (XO (XI (XO (XI (XO (XI (XO
    (XI (XO (XI (XO (XI (XI (XI (XI
    XH)))))))))))))))))))))))))))))) :: ((Zpos (XI (XO (XO (XI (XO (XI (XO
    (XO (XI (XO (XI (XI (XO (XO (XI (XI (XI (XO (XO (XI (XO (XI (XO (XI (XO
    (XI (XI (XI (XI XH)))))))))))))))))))))))))))))) :: ((Zpos (XI (XI (XO
    (XI (XI (XI (XI (XI (XI (XO (XO (XI (XI (XO (XO (XO (XI (XO (XO (XI (XO
    (XI (XO (XI (XO (XI (XI (XI (XI
    XH)))))))))))))))))))))))))))))) :: ((Zpos (XI (XO (XO (XO (XO (XO (XO
    (XI (XI (XI (XI (XO (XO (XI (XI (XO (XO (XO (XO (XI (XO (XI (XO (XI (XO
    (XI (XI (XI (XI XH)))))))))))))))))))))))))))))) :: ((Zpos (XO (XO (XO
    (XI (XI (XI (XO (XI (XI (XO (XI (XO (XI (XI (XO (XI (XI (XI (XI (XO (XO
    (XI (XO (XI (XO (XI (XI (XI (XI
    XH)))))))))))))))))))))))))))))) :: ((Zpos (XI (XO (XO (XO (XO (XI (XO
    (XI (XO (XO (XI (XO (XO (XO (XO (XO (XI (XI (XI (XO (XO (XI (XO (XI (XO
    (XI (XI (XI (XI XH)))))))))))))))))))))))))))))) :: ((Zpos (XO (XO (XI
    (XI (XI (XI (XO (XO (XO (XO (XI (XO (XI (XO (XI (XO (XO (XI (XI (XO (XO
    (XI (XO (XI (XO (XI (XI (XI (XI
    XH)))))))))))))))))))))))))))))) :: ((Zpos (XO (XI (XI (XO (XO (XO (XO
    (XI (XO (XO (XI (XO (XO (XI (XO (XI (XI (XO (XI (XO (XO (XI (XO (XI (XO
    (XI (XI (XI (XI XH)))))))))))))))))))))))))))))) :: ((Zpos (XO (XO (XO
    (XO (XO (XO (XO (XI (XI (XO (XI (XO (XI (XI (XI (XI (XO (XO (XI (XO (XO
    (XI (XO (XI (XO (XI (XI (XI (XI
    XH)))))))))))))))))))))))))))))) :: ((Zpos (XO (XO (XO (XI (XO (XI (XO
    (XO (XI (XI (XI (XO (XO (XO (XI (XO (XO (XO (XI (XO (XO (XI (XO (XI (XO
    (XI (XI (XI (XI XH)))))))))))))))))))))))))))))) :: ((Zpos (XI (XI (XI
    (XI (XI (XI (XI (XO (XI (XO (XO (XI (XI (XO (XO (XI (XI (XI (XO (XO (XO
    (XI (XO (XI (XO (XI (XI (XI (XI
    XH)))))))))))))))))))))))))))))) :: ((Zpos (XO (XO (XI (XO (XO (XO (XO
    (XI (XO (XO (XI (XI (XO (XI (XI (XI (XO (XI (XO (XO (XO (XI (XO (XI (XO
    (XI (XI (XI (XI XH)))))))))))))))))))))))))))))) :: ((Zpos (XI (XO (XI
    (XO (XI (XI (XO (XO (XO (XO (XO (XO (XO (XO (XI (XO (XO (XI (XO (XO (XO
    (XI (XO (XI (XO (XI (XI (XI (XI
    XH)))))))))))))))))))))))))))))) :: ((Zpos (XO (XI (XO (XO (XI (XO (XO
    (XI (XO (XO (XI (XO (XI (XO (XO (XI (XI (XO (XO (XO (XO (XI (XO (XI (XO
    (XI (XI (XI (XI XH)))))))))))))))))))))))))))))) :: ((Zpos (XI (XI (XO
    (XI (XI (XO (XO (XI (XI (XO (XO (XI (XO (XI (XI (XI (XO (XO (XO (XO (XO
    (XI (XO (XI (XO (XI (XI (XI (XI
    XH)))))))))))))))))))))))))))))) :: ((Zpos (XO (XI (XI (XI (XO (XO (XI
    (XO (XI (XI (XI (XI (XI (XI (XO (XO (XO (XO (XO (XO (XO (XI (XO (XI (XO
    (XI (XI (XI (XI XH)))))))))))))))))))))))))))))) :: ((Zpos (XO (XO (XI
    (XI (XO (XI (XO (XI (XI (XO (XI (XO (XI (XO (XO (XI (XI (XI (XI (XI (XI
    (XO (XO (XI (XO (XI (XI (XI (XI
    XH)))))))))))))))))))))))))))))) :: ((Zpos (XI (XI (XO (XO (XI (XI (XO
    (XI (XO (XO (XI (XI (XO (XI (XI (XI (XO (XI (XI (XI (XI (XO (XO (XI (XO
    (XI (XI (XI (XI XH)))))))))))))))))))))))))))))) :: ((Zpos (XI (XI (XO
    (XO (XO (XI (XI (XO (XO (XO (XI (XO (XO (XO (XI (XO (XO (XI (XI (XI (XI
    (XO (XO (XI (XO (XI (XI (XI (XI
    XH)))))))))))))))))))))))))))))) :: ((Zpos (XI (XI (XO (XI (XI (XI (XO
    (XI (XO (XO (XI (XI (XI (XO (XO (XI (XI (XO (XI (XI (XI (XO (XO (XI (XO
    (XI (XI (XI (XI XH)))))))))))))))))))))))))))))) :: ((Zpos (XI (XI (XO
    (XI (XI (XI (XO (XI (XI (XO (XI (XO (XI (XI (XI (XI (XO (XO (XI (XI (XI
    (XO (XO (XI (XO (XI (XI (XI (XI
    XH)))))))))))))))))))))))))))))) :: ((Zpos (XI (XO (XO (XO (XO (XI (XI
    (XO (XI (XI (XI (XI (XO (XO (XI (XO (XO (XO (XI (XI (XI (XO (XO (XI (XO
    (XI (XI (XI (XI XH)))))))))))))))))))))))))))))) :: ((Zpos (XO (XI (XI
    (XI (XO (XI (XO (XI (XI (XO (XO (XI (XO (XI (XO (XI (XI (XI (XO (XI (XI
    (XO (XO (XI (XO (XI (XI (XI (XI
    XH)))))))))))))))))))))))))))))) :: ((Zpos (XO (XO (XO (XO (XO (XI (XO
    (XI (XO (XO (XI (XO (XO (XO (XO (XO (XI (XI (XO (XI (XI (XO (XO (XI (XO
    (XI (XI (XI (XI XH)))))))))))))))))))))))))))))) :: ((Zpos (XI (XI (XI
    (XO (XI (XI (XO (XO (XO (XO (XO (XO (XO (XI (XI (XO (XO (XI (XO (XI (XI
    (XO (XO (XI (XO (XI (XI (XI (XI
    XH)))))))))))))))))))))))))))))) :: ((Zpos (XI (XI (XO (XO (XI (XI (XI
    (XO (XO (XO (XI (XI (XI (XI (XO (XI (XI (XO (XO (XI (XI (XO (XO (XI (XO
    (XI (XI (XI (XI XH)))))))))))))))))))))))))))))) :: ((Zpos (XO (XI (XO
    (XO (XI (XO (XI (XO (XI (XO (XO (XI (XI (XO (XO (XO (XI (XO (XO (XI (XI
    (XO (XO (XI (XO (XI (XI (XI (XI
    XH)))))))))))))))))))))))))))))) :: ((Zpos (XI (XI (XO (XO (XI (XO (XI
    (XI (XO (XI (XI (XO (XI (XI (XI (XO (XO (XO (XO (XI (XI (XO (XO (XI (XO
    (XI (XI (XI (XI XH)))))))))))))))))))))))))))))) :: ((Zpos (XO (XO (XO
    (XI (XI (XI (XI (XI (XO (XO (XI (XO (XI (XO (XI (XI (XI (XI (XI (XO (XI
    (XO (XO (XI (XO (XI (XI (XI (XI
    XH)))))))))))))))))))))))))))))) :: ((Zpos (XO (XI (XI (XI (XI (XI (XO
    (XI (XI (XI (XO (XO (XI (XI (XO (XO (XI (XI (XI (XO (XI (XO (XO (XI (XO
    (XI (XI (XI (XI XH)))))))))))))))))))))))))))))) :: ((Zpos (XI (XO (XI
    (XO (XO (XI (XO (XO (XI (XI (XO (XO (XI (XO (XO (XI (XO (XI (XI (XO (XI
    (XO (XO (XI (XO (XI (XI (XI (XI
    XH)))))))))))))))))))))))))))))) :: ((Zpos (XO (XO (XI (XI (XO (XI (XO
    (XO (XI (XI (XO (XO (XI (XI (XI (XI (XI (XO (XI (XO (XI (XO (XO (XI (XO
    (XI (XI (XI (XI XH)))))))))))))))))))))))))))))) :: ((Zpos (XI (XI (XO
    (XO (XI (XO (XI (XI (XI (XI (XO (XO (XI (XO (XI (XO (XI (XO (XI (XO (XI
    (XO (XO (XI (XO (XI (XI (XI (XI
    XH)))))))))))))))))))))))))))))) :: ((Zpos (XO (XI (XO (XI (XI (XO (XO
    (XO (XI (XO (XI (XO (XI (XI (XO (XI (XO (XO (XI (XO (XI (XO (XO (XI (XO
    (XI (XI (XI (XI XH)))))))))))))))))))))))))))))) :: ((Zpos (XI (XI (XI
    (XI (XI (XI (XI (XI (XO (XI (XI (XO (XI (XO (XO (XO (XO (XO (XI (XO (XI
    (XO (XO (XI (XO (XI (XI (XI (XI
    XH)))))))))))))))))))))))))))))) :: ((Zpos (XO (XI (XO (XO (XO (XO (XO
    (XI (XI (XO (XO (XI (XI (XI (XI (XO (XI (XI (XO (XO (XI (XO (XO (XI (XO
    (XI (XI (XI (XI XH)))))))))))))))))))))))))))))) :: ((Zpos (XO (XI (XO
    (XO (XO (XI (XO (XI (XO (XO (XI (XI (XI (XO (XI (XI (XO (XI (XO (XO (XI
    (XO (XO (XI (XO (XI (XI (XI (XI
    XH)))))))))))))))))))))))))))))) :: ((Zpos (XI (XI (XI (XI (XI (XO (XI
    (XO (XO (XO (XO (XO (XO (XO (XI (XO (XO (XI (XO (XO (XI (XO (XO (XI (XO
    (XI (XI (XI (XI XH)))))))))))))))))))))))))))))) :: ((Zpos (XO (XO (XO
    (XI (XI (XI (XO (XI (XO (XO (XI (XO (XO (XI (XO (XI (XI (XO (XO (XO (XI
    (XO (XO (XI (XO (XI (XI (XI (XI
    XH)))))))))))))))))))))))))))))) :: ((Zpos (XI (XO (XI (XI (XO (XI (XO
    (XI (XI (XO (XO (XI (XO (XO (XO (XO (XI (XO (XO (XO (XI (XO (XO (XI (XO
    (XI (XI (XI (XI XH)))))))))))))))))))))))))))))) :: ((Zpos (XO (XO (XI
    (XI (XI (XI (XO (XO (XI (XI (XI (XI (XO (XI (XI (XO (XO (XO (XO (XO (XI
    (XO (XO (XI (XO (XI (XI (XI (XI
    XH)))))))))))))))))))))))))))))) :: ((Zpos (XO (XI (XI (XO (XO (XI (XI
    (XO (XI (XO (XI (XO (XI (XO (XI (XI (XI (XI (XI (XI (XO (XO (XO (XI (XO
    (XI (XI (XI (XI XH)))))))))))))))))))))))))))))) :: ((Zpos (XO (XI (XO
    (XI (XO (XI (XO (XO (XO (XO (XI (XI (XI (XI (XO (XO (XI (XI (XI (XI (XO
    (XO (XO (XI (XO (XI (XI (XI (XI
    XH)))))))))))))))))))))))))))))) :: ((Zpos (XO (XI (XI (XO (XO (XO (XO
    (XI (XI (XI (XO (XO (XO (XI (XO (XI (XO (XI (XI (XI (XO (XO (XO (XI (XO
    (XI (XI (XI (XI XH)))))))))))))))))))))))))))))) :: ((Zpos (XI (XI (XO
    (XI (XI (XI (XI (XO (XI (XI (XO (XI (XO (XO (XO (XO (XO (XI (XI (XI (XO
    (XO (XO (XI (XO (XI (XI (XI (XI
    XH)))))))))))))))))))))))))))))) :: ((Zpos (XO (XO (XO (XI (XO (XO (XO
    (XO (XO (XO (XI (XO (XI (XI (XI (XO (XI (XO (XI (XI (XO (XO (XO (XI (XO
    (XI (XI (XI (XI XH)))))))))))))))))))))))))))))) :: ((Zpos (XI (XO (XI
    (XI (XO (XI (XO (XO (XI (XO (XI (XI (XI (XO (XI (XI (XO (XO (XI (XI (XO
    (XO (XO (XI (XO (XI (XI (XI (XI
    XH)))))))))))))))))))))))))))))) :: ((Zpos (XO (XO (XO (XI (XO (XI (XI
    (XI (XO (XI (XI (XO (XO (XO (XI (XO (XO (XO (XI (XI (XO (XO (XO (XI (XO
    (XI (XI (XI (XI XH)))))))))))))))))))))))))))))) :: ((Zpos (XI (XO (XO
    (XI (XI (XI (XO (XO (XI (XO (XO (XO (XI (XI (XO (XI (XI (XI (XO (XI (XO
    (XO (XO (XI (XO (XI (XI (XI (XI
    XH)))))))))))))))))))))))))))))) :: ((Zpos (XI (XI (XI (XI (XI (XO (XO
    (XO (XO (XO (XI (XI (XI (XO (XO (XO (XI (XI (XO (XI (XO (XO (XO (XI (XO
    (XI (XI (XI (XI XH)))))))))))))))))))))))))))))) :: ((Zpos (XI (XI (XO
    (XI (XI (XO (XO (XI (XI (XI (XI (XO (XO (XO (XO (XI (XO (XI (XO (XI (XO
    (XO (XO (XI (XO (XI (XI (XI (XI
    XH)))))))))))))))))))))))))))))) :: ((Zpos (XI (XI (XO (XI (XO (XI (XO
    (XI (XI (XI (XO (XO (XI (XI (XI (XI (XI (XO (XO (XI (XO (XO (XO (XI (XO
    (XI (XI (XI (XI XH)))))))))))))))))))))))))))))) :: ((Zpos (XI (XI (XI
    (XI (XO (XO (XI (XO (XO (XO (XO (XO (XO (XI (XI (XO (XI (XO (XO (XI (XO
    (XO (XO (XI (XO (XI (XI (XI (XI
    XH)))))))))))))))))))))))))))))) :: ((Zpos (XO (XI (XI (XO (XO (XO (XO
    (XI (XI (XO (XI (XI (XO (XO (XI (XI (XO (XO (XO (XI (XO (XO (XO (XI (XO
    (XI (XI (XI (XI XH)))))))))))))))))))))))))))))) :: ((Zpos (XI (XI (XI
    (XI (XO (XO (XI (XO (XI (XI (XO (XI (XI (XI (XO (XO (XO (XO (XO (XI (XO
    (XO (XO (XI (XO (XI (XI (XI (XI
    XH)))))))))))))))))))))))))))))) :: ((Zpos (XI (XI (XO (XI (XO (XI (XO
    (XI (XI (XO (XO (XI (XO (XI (XO (XI (XI (XI (XI (XO (XO (XO (XO (XI (XO
    (XI (XI (XI (XI XH)))))))))))))))))))))))))))))) :: ((Zpos (XO (XO (XO
    (XI (XI (XO (XO (XI (XO (XO (XO (XI (XI (XO (XO (XO (XI (XI (XI (XO (XO
    (XO (XO (XI (XO (XI (XI (XI (XI
    XH)))))))))))))))))))))))))))))) :: ((Zpos (XO (XI (XI (XO (XI (XO (XO
    (XO (XO (XO (XO (XI (XO (XO (XO (XI (XO (XI (XI (XO (XO (XO (XO (XI (XO
    (XI (XI (XI (XI XH)))))))))))))))))))))))))))))) :: ((Zpos (XI (XO (XI
    (XO (XO (XI (XO (XO (XO (XO (XO (XI (XI (XI (XI (XI (XI (XO (XI (XO (XO
    (XO (XO (XI (XO (XI (XI (XI (XI
    XH)))))))))))))))))))))))))))))) :: ((Zpos (XI (XI (XO (XO (XO (XO (XI
    (XI (XO (XO (XO (XI (XO (XI (XI (XO (XI (XO (XI (XO (XO (XO (XO (XI (XO
    (XI (XI (XI (XI XH)))))))))))))))))))))))))))))) :: ((Zpos (XI (XO (XO
    (XO (XI (XI (XI (XI (XI (XO (XO (XI (XI (XO (XI (XI (XO (XO (XI (XO (XO
    (XO (XO (XI (XO (XI (XI (XI (XI
    XH)))))))))))))))))))))))))))))) :: ((Zpos (XI (XO (XI (XI (XO (XI (XO
    (XI (XI (XI (XO (XI (XO (XO (XI (XO (XO (XO (XI (XO (XO (XO (XO (XI (XO
    (XI (XI (XI (XI XH)))))))))))))))))))))))))))))) :: ((Zpos (XI (XI (XI
    (XO (XI (XI (XI (XI (XI (XO (XI (XI (XI (XI (XO (XI (XI (XI (XO (XO (XO
    (XO (XO (XI (XO (XI (XI (XI (XI
    XH)))))))))))))))))))))))))))))) :: ((Zpos (XI (XI (XI (XI (XO (XO (XI
    (XI (XO (XO (XO (XO (XI (XI (XO (XO (XI (XI (XO (XO (XO (XO (XO (XI (XO
    (XI (XI (XI (XI XH)))))))))))))))))))))))))))))) :: ((Zpos (XO (XO (XI
    (XO (XI (XI (XO (XO (XO (XO (XI (XO (XO (XI (XO (XI (XO (XI (XO (XO (XO
    (XO (XO (XI (XO (XI (XI (XI (XI
    XH)))))))))))))))))))))))))))))) :: ((Zpos (XI (XO (XI (XO (XO (XI (XO
    (XO (XO (XO (XO (XI (XI (XO (XO (XO (XO (XI (XO (XO (XO (XO (XO (XI (XO
    (XI (XI (XI (XI XH)))))))))))))))))))))))))))))) :: ((Zpos (XI (XI (XO
    (XO (XO (XI (XO (XI (XO (XO (XI (XI (XO (XO (XO (XI (XI (XO (XO (XO (XO
    (XO (XO (XI (XO (XI (XI (XI (XI
    XH)))))))))))))))))))))))))))))) :: ((Zpos (XI (XI (XO (XI (XO (XI (XO
    (XI (XI (XO (XO (XO (XO (XO (XO (XO (XI (XO (XO (XO (XO (XO (XO (XI (XO
    (XI (XI (XI (XI XH)))))))))))))))))))))))))))))) :: ((Zpos (XI (XI (XI
    (XI (XI (XI (XO (XO (XI (XI (XI (XO (XI (XI (XI (XO (XO (XO (XO (XO (XO
    (XO (XO (XI (XO (XI (XI (XI (XI
    XH)))))))))))))))))))))))))))))) :: ((Zpos (XI (XO (XO (XI (XI (XI (XO
    (XI (XO (XI (XO (XI (XI (XO (XI (XI (XI (XI (XI (XI (XI (XI (XI (XO (XO
    (XI (XI (XI (XI XH)))))))))))))))))))))))))))))) :: ((Zpos (XI (XO (XO
    (XI (XO (XO (XO (XO (XO (XO (XO (XI (XO (XO (XI (XI (XO (XI (XI (XI (XI
    (XI (XI (XO (XO (XI (XI (XI (XI
    XH)))))))))))))))))))))))))))))) :: ((Zpos (XO (XI (XO (XI (XO (XI (XI
    (XO (XO (XI (XI (XO (XI (XI (XO (XI (XI (XO (XI (XI (XI (XI (XI (XO (XO
    (XI (XI (XI (XI XH)))))))))))))))))))))))))))))) :: ((Zpos (XI (XO (XI
    (XI (XI (XO (XI (XI (XI (XO (XI (XO (XO (XI (XO (XI (XO (XO (XI (XI (XI
    (XI (XI (XO (XO (XI (XI (XI (XI
    XH)))))))))))))))))))))))))))))) :: ((Zpos (XO (XO (XO (XO (XO (XI (XI
    (XO (XO (XI (XI (XO (XI (XO (XO (XI (XI (XI (XO (XI (XI (XI (XI (XO (XO
    (XI (XI (XI (XI XH)))))))))))))))))))))))))))))) :: ((Zpos (XI (XI (XO
    (XO (XI (XI (XI (XI (XI (XI (XI (XO (XO (XO (XO (XI (XO (XI (XO (XI (XI
    (XI (XI (XO (XO (XI (XI (XI (XI
    XH)))))))))))))))))))))))))))))) :: ((Zpos (XI (XI (XO (XO (XI (XO (XO
    (XI (XO (XI (XO (XI (XI (XI (XI (XO (XI (XO (XO (XI (XI (XI (XI (XO (XO
    (XI (XI (XI (XI XH)))))))))))))))))))))))))))))) :: ((Zpos (XI (XO (XO
    (XO (XO (XO (XI (XO (XO (XI (XI (XI (XO (XI (XI (XO (XO (XO (XO (XI (XI
    (XI (XI (XO (XO (XI (XI (XI (XI
    XH)))))))))))))))))))))))))))))) :: ((Zpos (XI (XI (XO (XI (XI (XI (XI
    (XI (XO (XI (XO (XO (XO (XI (XI (XO (XI (XI (XI (XO (XI (XI (XI (XO (XO
    (XI (XI (XI (XI XH)))))))))))))))))))))))))))))) :: ((Zpos (XI (XI (XI
    (XI (XI (XI (XO (XI (XO (XO (XO (XI (XI (XO (XI (XO (XO (XI (XI (XO (XI
    (XI (XI (XO (XO (XI (XI (XI (XI
    XH)))))))))))))))))))))))))))))) :: ((Zpos (XO (XI (XI (XI (XO (XO (XO
    (XI (XI (XI (XI (XI (XO (XO (XI (XO (XI (XO (XI (XO (XI (XI (XI (XO (XO
    (XI (XI (XI (XI XH)))))))))))))))))))))))))))))) :: ((Zpos (XO (XI (XI
    (XO (XO (XI (XI (XO (XI (XI (XI (XO (XO (XO (XI (XO (XO (XO (XI (XO (XI
    (XI (XI (XO (XO (XI (XI (XI (XI
    XH)))))))))))))))))))))))))))))) :: ((Zpos (XI (XO (XI (XO (XO (XO (XI
    (XO (XO (XO (XO (XO (XO (XO (XI (XO (XI (XI (XO (XO (XI (XI (XI (XO (XO
    (XI (XI (XI (XI XH)))))))))))))))))))))))))))))) :: ((Zpos (XO (XO (XI
    (XI (XO (XI (XO (XO (XO (XI (XO (XI (XI (XI (XO (XO (XO (XI (XO (XO (XI
    (XI (XI (XO (XO (XI (XI (XI (XI
    XH)))))))))))))))))))))))))))))) :: ((Zpos (XO (XO (XO (XI (XI (XO (XO
    (XO (XI (XO (XI (XO (XI (XI (XO (XO (XI (XO (XO (XO (XI (XI (XI (XO (XO
    (XI (XI (XI (XI XH)))))))))))))))))))))))))))))) :: ((Zpos (XI (XO (XO
    (XI (XO (XO (XO (XO (XI (XO (XO (XO (XI (XI (XO (XO (XO (XO (XO (XO (XI
    (XI (XI (XO (XO (XI (XI (XI (XI
    XH)))))))))))))))))))))))))))))) :: ((Zpos (XO (XI (XI (XI (XI (XI (XI
    (XI (XI (XO (XI (XI (XO (XI (XO (XO (XI (XI (XI (XI (XO (XI (XI (XO (XO
    (XI (XI (XI (XI XH)))))))))))))))))))))))))))))) :: ((Zpos (XO (XI (XI
    (XO (XI (XI (XI (XI (XI (XI (XO (XI (XO (XI (XO (XO (XO (XI (XI (XI (XO
    (XI (XI (XO (XO (XI (XI (XI (XI
    XH)))))))))))))))))))))))))))))) :: ((Zpos (XI (XI (XI (XI (XO (XI (XI
    (XI (XO (XI (XO (XI (XO (XI (XO (XO (XI (XO (XI (XI (XO (XI (XI (XO (XO
    (XI (XI (XI (XI XH)))))))))))))))))))))))))))))) :: ((Zpos (XI (XO (XO
    (XI (XO (XI (XI (XI (XO (XI (XO (XI (XO (XI (XO (XO (XO (XO (XI (XI (XO
    (XI (XI (XO (XO (XI (XI (XI (XI
    XH)))))))))))))))))))))))))))))) :: ((Zpos (XI (XI (XO (XO (XO (XI (XI
    (XI (XI (XI (XO (XI (XO (XI (XO (XO (XI (XI (XO (XI (XO (XI (XI (XO (XO
    (XI (XI (XI (XI XH)))))))))))))))))))))))))))))) :: ((Zpos (XO (XO (XI
    (XI (XI (XO (XI (XI (XI (XO (XI (XI (XO (XI (XO (XO (XO (XI (XO (XI (XO
    (XI (XI (XO (XO (XI (XI (XI (XI
    XH)))))))))))))))))))))))))))))) :: ((Zpos (XI (XI (XO (XO (XI (XO (XI
    (XI (XO (XO (XO (XO (XI (XI (XO (XO (XI (XO (XO (XI (XO (XI (XI (XO (XO
    (XI (XI (XI (XI XH)))))))))))))))))))))))))))))) :: ((Zpos (XO (XI (XI
    (XO (XO (XO (XI (XI (XO (XO (XI (XO (XI (XI (XO (XO (XO (XO (XO (XI (XO
    (XI (XI (XO (XO (XI (XI (XI (XI
    XH)))))))))))))))))))))))))))))) :: ((Zpos (XI (XO (XI (XO (XI (XI (XO
    (XI (XI (XO (XO (XI (XI (XI (XO (XO (XI (XI (XI (XO (XO (XI (XI (XO (XO
    (XI (XI (XI (XI XH)))))))))))))))))))))))))))))) :: ((Zpos (XI (XI (XI
    (XI (XI (XO (XO (XI (XI (XI (XI (XI (XI (XI (XO (XO (XO (XI (XI (XO (XO
    (XI (XI (XO (XO (XI (XI (XI (XI
    XH)))))))))))))))))))))))))))))) :: ((Zpos (XI (XI (XO (XO (XO (XO (XO
    (XI (XO (XI (XI (XO (XO (XO (XI (XO (XI (XO (XI (XO (XO (XI (XI (XO (XO
    (XI (XI (XI (XI XH)))))))))))))))))))))))))))))) :: ((Zpos (XO (XO (XO
    (XO (XO (XI (XI (XO (XO (XI (XI (XI (XO (XO (XI (XO (XO (XO (XI (XO (XO
    (XI (XI (XO (XO (XI (XI (XI (XI
    XH)))))))))))))))))))))))))))))) :: ((Zpos (XO (XO (XI (XO (XI (XI (XO
    (XO (XI (XI (XI (XO (XI (XO (XI (XO (XI (XI (XO (XO (XO (XI (XI (XO (XO
    (XI (XI (XI (XI XH)))))))))))))))))))))))))))))) :: ((Zpos (XO (XO (XO
    (XO (XO (XO (XO (XO (XI (XO (XO (XO (XO (XI (XI (XO (XO (XI (XO (XO (XO
    (XI (XI (XO (XO (XI (XI (XI (XI
    XH)))))))))))))))))))))))))))))) :: ((Zpos (XI (XO (XO (XO (XO (XO (XI
    (XI (XI (XI (XO (XI (XO (XI (XI (XO (XI (XO (XO (XO (XO (XI (XI (XO (XO
    (XI (XI (XI (XI XH)))))))))))))))))))))))))))))) :: ((Zpos (XO (XO (XO
    (XI (XI (XI (XI (XO (XI (XI (XI (XO (XI (XI (XI (XO (XO (XO (XO (XO (XO
    (XI (XI (XO (XO (XI (XI (XI (XI
    XH)))))))))))))))))))))))))))))) :: ((Zpos (XO (XI (XO (XO (XO (XI (XO
    (XO (XO (XO (XI (XO (XO (XO (XO (XI (XI (XI (XI (XI (XI (XO (XI (XO (XO
    (XI (XI (XI (XI XH)))))))))))))))))))))))))))))) :: ((Zpos (XO (XO (XO
    (XO (XO (XO (XI (XI (XI (XO (XO (XO (XI (XO (XO (XI (XO (XI (XI (XI (XI
    (XO (XI (XO (XO (XI (XI (XI (XI
    XH)))))))))))))))))))))))))))))) :: ((Zpos (XO (XO (XO (XO (XI (XO (XI
    (XO (XO (XO (XO (XO (XO (XI (XO (XI (XI (XO (XI (XI (XI (XO (XI (XO (XO
    (XI (XI (XI (XI XH)))))))))))))))))))))))))))))) :: ((Zpos (XI (XO (XO
    (XO (XI (XO (XI (XI (XI (XI (XI (XI (XO (XI (XO (XI (XO (XO (XI (XI (XI
    (XO (XI (XO (XO (XI (XI (XI (XI
    XH)))))))))))))))))))))))))))))) :: ((Zpos (XO (XI (XO (XO (XO (XO (XI
    (XO (XO (XO (XO (XO (XO (XO (XI (XI (XI (XI (XO (XI (XI (XO (XI (XO (XO
    (XI (XI (XI (XI XH)))))))))))))))))))))))))))))) :: ((Zpos (XO (XI (XO
    (XO (XO (XI (XO (XI (XI (XO (XO (XO (XI (XO (XI (XI (XO (XI (XO (XI (XI
    (XO (XI (XO (XO (XI (XI (XI (XI
    XH)))))))))))))))))))))))))))))) :: ((Zpos (XI (XO (XO (XO (XI (XI (XI
    (XI (XI (XI (XO (XO (XO (XI (XI (XI (XI (XO (XO (XI (XI (XO (XI (XO (XO
    (XI (XI (XI (XI XH)))))))))))))))))))))))))))))) :: ((Zpos (XO (XI (XI
    (XI (XO (XI (XO (XO (XI (XI (XI (XO (XI (XI (XI (XI (XO (XO (XO (XI (XI
    (XO (XI (XO (XO (XI (XI (XI (XI
    XH)))))))))))))))))))))))))))))) :: ((Zpos (XI (XI (XI (XO (XI (XO (XI
    (XO (XI (XI (XO (XI (XO (XO (XO (XO (XO (XO (XO (XI (XI (XO (XI (XO (XO
    (XI (XI (XI (XI XH)))))))))))))))))))))))))))))) :: ((Zpos (XI (XI (XO
    (XI (XO (XI (XI (XO (XO (XO (XO (XO (XO (XI (XO (XO (XI (XI (XI (XO (XI
    (XO (XI (XO (XO (XI (XI (XI (XI
    XH)))))))))))))))))))))))))))))) :: ((Zpos (XI (XI (XO (XI (XO (XI (XI
    (XO (XO (XI (XI (XO (XI (XI (XO (XO (XO (XI (XI (XO (XI (XO (XI (XO (XO
    (XI (XI (XI (XI XH)))))))))))))))))))))))))))))) :: ((Zpos (XO (XO (XI
    (XO (XI (XO (XI (XO (XI (XO (XI (XI (XO (XO (XI (XO (XI (XO (XI (XO (XI
    (XO (XI (XO (XO (XI (XI (XI (XI
    XH)))))))))))))))))))))))))))))) :: ((Zpos (XI (XO (XI (XO (XO (XI (XO
    (XO (XI (XO (XI (XO (XO (XI (XI (XO (XO (XO (XI (XO (XI (XO (XI (XO (XO
    (XI (XI (XI (XI XH)))))))))))))))))))))))))))))) :: ((Zpos (XI (XI (XI
    (XI (XI (XO (XI (XI (XI (XO (XI (XI (XI (XI (XI (XO (XI (XI (XO (XO (XI
    (XO (XI (XO (XO (XI (XI (XI (XI
    XH)))))))))))))))))))))))))))))) :: ((Zpos (XO (XO (XO (XO (XO (XO (XO
    (XI (XI (XI (XI (XO (XI (XO (XO (XI (XO (XI (XO (XO (XI (XO (XI (XO (XO
    (XI (XI (XI (XI XH)))))))))))))))))))))))))))))) :: ((Zpos (XI (XI (XI
    (XO (XO (XO (XO (XO (XO (XI (XO (XO (XI (XI (XO (XI (XI (XO (XO (XO (XI
    (XO (XI (XO (XO (XI (XI (XI (XI
    XH)))))))))))))))))))))))))))))) :: ((Zpos (XI (XI (XO (XO (XI (XI (XI
    (XO (XI (XO (XI (XI (XO (XO (XI (XI (XO (XO (XO (XO (XI (XO (XI (XO (XO
    (XI (XI (XI (XI XH)))))))))))))))))))))))))))))) :: ((Zpos (XO (XO (XI
    (XO (XO (XO (XI (XI (XI (XO (XO (XI (XO (XI (XI (XI (XI (XI (XI (XI (XO
    (XO (XI (XO (XO (XI (XI (XI (XI
    XH)))))))))))))))))))))))))))))) :: ((Zpos (XO (XO (XO (XI (XI (XI (XI
    (XI (XO (XI (XI (XO (XO (XO (XO (XO (XI (XI (XI (XI (XO (XO (XI (XO (XO
    (XI (XI (XI (XI XH)))))))))))))))))))))))))))))) :: ((Zpos (XI (XI (XI
    (XI (XO (XO (XO (XO (XI (XO (XI (XO (XO (XI (XO (XO (XO (XI (XI (XI (XO
    (XO (XI (XO (XO (XI (XI (XI (XI
    XH)))))))))))))))))))))))))))))) :: ((Zpos (XI (XI (XI (XO (XO (XO (XO
    (XO (XO (XO (XI (XO (XO (XO (XI (XO (XI (XO (XI (XI (XO (XO (XI (XO (XO
    (XI (XI (XI (XI XH)))))))))))))))))))))))))))))) :: ((Zpos (XO (XO (XO
    (XO (XO (XI (XI (XI (XI (XI (XO (XO (XO (XI (XI (XO (XO (XO (XI (XI (XO
    (XO (XI (XO (XO (XI (XI (XI (XI
    XH)))))))))))))))))))))))))))))) :: ((Zpos (XI (XO (XO (XI (XI (XO (XO
    (XI (XO (XO (XI (XO (XO (XO (XO (XI (XI (XI (XO (XI (XO (XO (XI (XO (XO
    (XI (XI (XI (XI XH)))))))))))))))))))))))))))))) :: ((Zpos (XO (XI (XO
    (XO (XI (XI (XO (XO (XO (XI (XI (XO (XO (XI (XO (XI (XO (XI (XO (XI (XO
    (XO (XI (XO (XO (XI (XI (XI (XI
    XH)))))))))))))))))))))))))))))) :: ((Zpos (XO (XO (XO (XI (XO (XI (XO
    (XI (XO (XO (XO (XI (XO (XO (XI (XI (XI (XO (XO (XI (XO (XO (XI (XO (XO
    (XI (XI (XI (XI XH)))))))))))))))))))))))))))))) :: ((Zpos (XO (XO (XI
    (XI (XI (XI (XI (XI (XI (XI (XO (XI (XO (XI (XI (XI (XO (XO (XO (XI (XO
    (XO (XI (XO (XO (XI (XI (XI (XI
    XH)))))))))))))))))))))))))))))) :: ((Zpos (XO (XO (XI (XI (XO (XI (XO
    (XO (XO (XO (XO (XO (XI (XO (XO (XO (XO (XO (XO (XI (XO (XO (XI (XO (XO
    (XI (XI (XI (XI XH)))))))))))))))))))))))))))))) :: ((Zpos (XI (XI (XI
    (XO (XI (XI (XO (XO (XI (XO (XI (XO (XI (XI (XO (XO (XI (XI (XI (XO (XO
    (XO (XI (XO (XO (XI (XI (XI (XI
    XH)))))))))))))))))))))))))))))) :: ((Zpos (XO (XI (XI (XI (XI (XO (XO
    (XO (XI (XI (XO (XI (XI (XO (XI (XO (XO (XI (XI (XO (XO (XO (XI (XO (XO
    (XI (XI (XI (XI XH)))))))))))))))))))))))))))))) :: ((Zpos (XO (XI (XI
    (XI (XI (XO (XI (XI (XI (XO (XO (XO (XO (XO (XO (XI (XI (XO (XI (XO (XO
    (XO (XI (XO (XO (XI (XI (XI (XI
    XH)))))))))))))))))))))))))))))) :: ((Zpos (XO (XO (XO (XI (XI (XI (XI
    (XO (XI (XO (XO (XI (XO (XI (XO (XI (XO (XO (XI (XO (XO (XO (XI (XO (XO
    (XI (XI (XI (XI XH)))))))))))))))))))))))))))))) :: ((Zpos (XI (XO (XO
    (XI (XO (XI (XI (XI (XI (XO (XO (XO (XI (XO (XI (XI (XI (XI (XO (XO (XO
    (XO (XI (XO (XO (XI (XI (XI (XI
    XH)))))))))))))))))))))))))))))) :: ((Zpos (XO (XI (XO (XO (XI (XI (XO
    (XO (XI (XI (XO (XI (XI (XI (XI (XI (XO (XI (XO (XO (XO (XO (XI (XO (XO
    (XI (XI (XI (XI XH)))))))))))))))))))))))))))))) :: ((Zpos (XO (XI (XO
    (XO (XI (XO (XI (XO (XI (XO (XI (XO (XO (XI (XO (XO (XO (XI (XO (XO (XO
    (XO (XI (XO (XO (XI (XI (XI (XI
    XH)))))))))))))))))))))))))))))) :: ((Zpos (XI (XI (XI (XO (XO (XO (XI
    (XO (XO (XO (XO (XO (XI (XO (XI (XO (XI (XO (XO (XO (XO (XO (XI (XO (XO
    (XI (XI (XI (XI XH)))))))))))))))))))))))))))))) :: ((Zpos (XI (XO (XO
    (XO (XI (XO (XO (XO (XO (XO (XI (XI (XI (XI (XI (XO (XO (XO (XO (XO (XO
    (XO (XI (XO (XO (XI (XI (XI (XI
    XH)))))))))))))))))))))))))))))) :: ((Zpos (XI (XI (XI (XI (XO (XI (XO
    (XI (XO (XO (XO (XI (XO (XI (XO (XI (XI (XI (XI (XI (XI (XI (XO (XO (XO
    (XI (XI (XI (XI XH)))))))))))))))))))))))))))))) :: ((Zpos (XO (XO (XO
    (XO (XO (XI (XO (XO (XO (XI (XI (XO (XI (XO (XI (XI (XO (XI (XI (XI (XI
    (XI (XO (XO (XO (XI (XI (XI (XI
    XH)))))))))))))))))))))))))))))) :: ((Zpos (XI (XI (XO (XO (XO (XI (XI
    (XO (XO (XO (XI (XO (XO (XO (XO (XO (XO (XI (XI (XI (XI (XI (XO (XO (XO
    (XI (XI (XI (XI XH)))))))))))))))))))))))))))))) :: ((Zpos (XO (XO (XO
    (XI (XI (XI (XI (XO (XI (XI (XO (XO (XI (XI (XO (XO (XI (XO (XI (XI (XI
    (XI (XO (XO (XO (XI (XI (XI (XI
    XH)))))))))))))))))))))))))))))) :: ((Zpos (XO (XI (XI (XI (XI (XO (XI
    (XO (XI (XI (XO (XO (XO (XI (XI (XO (XO (XO (XI (XI (XI (XI (XO (XO (XO
    (XI (XI (XI (XI XH)))))))))))))))))))))))))))))) :: ((Zpos (XI (XI (XO
    (XO (XI (XO (XO (XO (XO (XO (XI (XO (XI (XO (XO (XI (XI (XI (XO (XI (XI
    (XI (XO (XO (XO (XI (XI (XI (XI
    XH)))))))))))))))))))))))))))))) :: ((Zpos (XO (XO (XO (XI (XI (XO (XO
    (XI (XI (XO (XI (XO (XO (XO (XI (XI (XO (XI (XO (XI (XI (XI (XO (XO (XO
    (XI (XI (XI (XI XH)))))))))))))))))))))))))))))) :: ((Zpos (XI (XI (XO
    (XI (XO (XI (XI (XI (XI (XI (XI (XO (XI (XI (XI (XI (XI (XO (XO (XI (XI
    (XI (XO (XO (XO (XI (XI (XI (XI
    XH)))))))))))))))))))))))))))))) :: ((Zpos (XO (XO (XI (XI (XO (XO (XO
    (XO (XI (XI (XO (XI (XO (XI (XO (XO (XI (XO (XO (XI (XI (XI (XO (XO (XO
    (XI (XI (XI (XI XH)))))))))))))))))))))))))))))) :: ((Zpos (XI (XO (XO
    (XI (XI (XI (XI (XI (XO (XI (XI (XI (XI (XO (XI (XO (XO (XO (XO (XI (XI
    (XI (XO (XO (XO (XI (XI (XI (XI
    XH)))))))))))))))))))))))))))))) :: ((Zpos (XO (XI (XO (XO (XI (XI (XO
    (XI (XI (XI (XO (XO (XI (XO (XO (XI (XI (XI (XI (XO (XI (XI (XO (XO (XO
    (XI (XI (XI (XI XH)))))))))))))))))))))))))))))) :: ((Zpos (XO (XI (XI
    (XO (XI (XI (XO (XO (XI (XO (XO (XI (XO (XO (XI (XI (XO (XI (XI (XO (XI
    (XI (XO (XO (XO (XI (XI (XI (XI
    XH)))))))))))))))))))))))))))))) :: ((Zpos (XO (XO (XI (XO (XO (XO (XO
    (XI (XI (XI (XI (XI (XI (XI (XI (XI (XI (XO (XI (XO (XI (XI (XO (XO (XO
    (XI (XI (XI (XI XH)))))))))))))))))))))))))))))) :: ((Zpos (XO (XO (XI
    (XI (XI (XO (XO (XI (XO (XI (XI (XO (XI (XI (XO (XO (XI (XO (XI (XO (XI
    (XI (XO (XO (XO (XI (XI (XI (XI
    XH)))))))))))))))))))))))))))))) :: ((Zpos (XI (XO (XI (XI (XI (XI (XI
    (XO (XO (XI (XI (XI (XO (XI (XI (XO (XO (XO (XI (XO (XI (XI (XO (XO (XO
    (XI (XI (XI (XI XH)))))))))))))))))))))))))))))) :: ((Zpos (XI (XO (XI
    (XO (XO (XI (XO (XO (XI (XI (XI (XO (XO (XI (XO (XI (XI (XI (XO (XO (XI
    (XI (XO (XO (XO (XI (XI (XI (XI
    XH)))))))))))))))))))))))))))))) :: ((Zpos (XI (XO (XI (XO (XI (XO (XO
    (XI (XO (XO (XO (XO (XO (XI (XI (XI (XO (XI (XO (XO (XI (XI (XO (XO (XO
    (XI (XI (XI (XI XH)))))))))))))))))))))))))))))) :: ((Zpos (XI (XI (XO
    (XI (XO (XO (XI (XI (XO (XI (XO (XI (XI (XO (XO (XO (XO (XI (XO (XO (XI
    (XI (XO (XO (XO (XI (XI (XI (XI
    XH)))))))))))))))))))))))))))))) :: ((Zpos (XO (XI (XI (XO (XO (XO (XI
    (XI (XI (XO (XI (XO (XI (XO (XI (XO (XI (XO (XO (XO (XI (XI (XO (XO (XO
    (XI (XI (XI (XI XH)))))))))))))))))))))))))))))) :: ((Zpos (XI (XI (XI
    (XO (XO (XO (XO (XI (XI (XO (XO (XO (XI (XO (XO (XI (XO (XO (XO (XO (XI
    (XI (XO (XO (XO (XI (XI (XI (XI
    XH)))))))))))))))))))))))))))))) :: ((Zpos (XI (XI (XO (XI (XO (XO (XO
    (XO (XO (XI (XI (XI (XO (XO (XI (XI (XI (XI (XI (XI (XO (XI (XO (XO (XO
    (XI (XI (XI (XI XH)))))))))))))))))))))))))))))) :: ((Zpos (XI (XI (XO
    (XO (XI (XO (XI (XO (XI (XI (XO (XI (XO (XO (XO (XO (XI (XI (XI (XI (XO
    (XI (XO (XO (XO (XI (XI (XI (XI
    XH)))))))))))))))))))))))))))))) :: ((Zpos (XI (XO (XI (XI (XI (XO (XI
    (XO (XI (XO (XO (XI (XO (XO (XI (XO (XO (XI (XI (XI (XO (XI (XO (XO (XO
    (XI (XI (XI (XI XH)))))))))))))))))))))))))))))) :: ((Zpos (XI (XO (XO
    (XI (XO (XI (XO (XO (XO (XO (XO (XI (XO (XO (XO (XI (XI (XO (XI (XI (XO
    (XI (XO (XO (XO (XI (XI (XI (XI
    XH)))))))))))))))))))))))))))))) :: ((Zpos (XI (XI (XI (XO (XI (XI (XO
    (XI (XI (XI (XI (XO (XO (XO (XI (XI (XO (XO (XI (XI (XO (XI (XO (XO (XO
    (XI (XI (XI (XI XH)))))))))))))))))))))))))))))) :: ((Zpos (XO (XO (XI
    (XO (XO (XO (XO (XO (XO (XO (XO (XI (XO (XO (XO (XO (XO (XO (XI (XI (XO
    (XI (XO (XO (XO (XI (XI (XI (XI
    XH)))))))))))))))))))))))))))))) :: ((Zpos (XI (XO (XO (XO (XI (XO (XO
    (XO (XI (XO (XO (XI (XO (XO (XI (XO (XI (XI (XO (XI (XO (XI (XO (XO (XO
    (XI (XI (XI (XI XH)))))))))))))))))))))))))))))) :: ((Zpos (XO (XO (XI
    (XI (XI (XO (XI (XI (XO (XI (XO (XI (XO (XO (XO (XI (XO (XI (XO (XI (XO
    (XI (XO (XO (XO (XI (XI (XI (XI
    XH)))))))))))))))))))))))))))))) :: ((Zpos (XO (XI (XI (XO (XO (XI (XI
    (XO (XI (XO (XI (XI (XO (XO (XI (XI (XI (XO (XO (XI (XO (XI (XO (XO (XO
    (XI (XI (XI (XI XH)))))))))))))))))))))))))))))) :: ((Zpos (XI (XO (XI
    (XI (XO (XI (XO (XI (XO (XO (XO (XO (XI (XO (XO (XO (XI (XO (XO (XI (XO
    (XI (XO (XO (XO (XI (XI (XI (XI
    XH)))))))))))))))))))))))))))))) :: ((Zpos (XO (XO (XO (XO (XI (XI (XO
    (XI (XO (XO (XI (XO (XI (XO (XI (XO (XO (XO (XO (XI (XO (XI (XO (XO (XO
    (XI (XI (XI (XI XH)))))))))))))))))))))))))))))) :: ((Zpos (XO (XO (XO
    (XO (XI (XI (XI (XO (XI (XO (XO (XI (XI (XO (XO (XI (XI (XI (XI (XO (XO
    (XI (XO (XO (XO (XI (XI (XI (XI
    XH)))))))))))))))))))))))))))))) :: ((Zpos (XO (XI (XO (XI (XO (XI (XI
    (XI (XO (XI (XI (XI (XI (XO (XI (XI (XO (XI (XI (XO (XO (XI (XO (XO (XO
    (XI (XI (XI (XI XH)))))))))))))))))))))))))))))) :: ((Zpos (XI (XI (XI
    (XI (XI (XO (XO (XO (XI (XO (XI (XO (XO (XI (XO (XO (XO (XI (XI (XO (XO
    (XI (XO (XO (XO (XI (XI (XI (XI
    XH)))))))))))))))))))))))))))))) :: ((Zpos (XI (XO (XI (XI (XO (XO (XO
    (XO (XO (XO (XI (XI (XO (XI (XI (XO (XI (XO (XI (XO (XO (XI (XO (XO (XO
    (XI (XI (XI (XI XH)))))))))))))))))))))))))))))) :: ((Zpos (XO (XO (XI
    (XO (XI (XI (XO (XI (XI (XI (XO (XO (XI (XI (XO (XI (XO (XO (XI (XO (XO
    (XI (XO (XO (XO (XI (XI (XI (XI
    XH)))))))))))))))))))))))))))))) :: ((Zpos (XO (XO (XI (XO (XI (XO (XO
    (XO (XO (XO (XI (XI (XI (XI (XI (XI (XI (XI (XO (XO (XO (XI (XO (XO (XO
    (XI (XI (XI (XI XH)))))))))))))))))))))))))))))) :: ((Zpos (XO (XI (XO
    (XI (XO (XI (XO (XO (XI (XO (XI (XO (XO (XO (XI (XO (XI (XI (XO (XO (XO
    (XI (XO (XO (XO (XI (XI (XI (XI
    XH)))))))))))))))))))))))))))))) :: ((Zpos (XO (XO (XO (XI (XI (XI (XI
    (XI (XO (XI (XI (XI (XO (XO (XO (XI (XO (XI (XO (XO (XO (XI (XO (XO (XO
    (XI (XI (XI (XI XH)))))))))))))))))))))))))))))) :: ((Zpos (XI (XI (XO
    (XI (XI (XI (XI (XO (XI (XO (XO (XI (XI (XO (XI (XI (XI (XO (XO (XO (XO
    (XI (XO (XO (XO (XI (XI (XI (XI
    XH)))))))))))))))))))))))))))))) :: ((Zpos (XO (XO (XI (XO (XI (XI (XO
    (XI (XO (XO (XI (XO (XO (XI (XO (XO (XI (XO (XO (XO (XO (XI (XO (XO (XO
    (XI (XI (XI (XI XH)))))))))))))))))))))))))))))) :: ((Zpos (XO (XI (XO
    (XO (XO (XI (XO (XI (XO (XO (XO (XO (XI (XI (XI (XO (XO (XO (XO (XO (XO
    (XI (XO (XO (XO (XI (XI (XI (XI
    XH)))))))))))))))))))))))))))))) :: ((Zpos (XI (XI (XO (XO (XO (XO (XI
    (XO (XI (XO (XI (XI (XI (XI (XO (XI (XI (XI (XI (XI (XI (XO (XO (XO (XO
    (XI (XI (XI (XI XH)))))))))))))))))))))))))))))) :: ((Zpos (XO (XO (XO
    (XI (XI (XO (XO (XI (XO (XI (XO (XI (XO (XO (XO (XO (XI (XI (XI (XI (XI
    (XO (XO (XO (XO (XI (XI (XI (XI
    XH)))))))))))))))))))))))))))))) :: ((Zpos (XI (XI (XI (XI (XI (XO (XO
    (XI (XO (XO (XO (XI (XI (XO (XI (XO (XO (XI (XI (XI (XI (XO (XO (XO (XO
    (XI (XI (XI (XI XH)))))))))))))))))))))))))))))) :: ((Zpos (XO (XO (XO
    (XI (XI (XO (XI (XO (XI (XI (XI (XO (XO (XI (XO (XI (XI (XO (XI (XI (XI
    (XO (XO (XO (XO (XI (XI (XI (XI
    XH)))))))))))))))))))))))))))))) :: ((Zpos (XO (XI (XO (XO (XO (XO (XI
    (XI (XO (XI (XI (XO (XI (XI (XI (XI (XO (XO (XI (XI (XI (XO (XO (XO (XO
    (XI (XI (XI (XI XH)))))))))))))))))))))))))))))) :: ((Zpos (XO (XO (XI
    (XI (XI (XO (XI (XI (XO (XI (XI (XO (XO (XO (XI (XO (XO (XO (XI (XI (XI
    (XO (XO (XO (XO (XI (XI (XI (XI
    XH)))))))))))))))))))))))))))))) :: ((Zpos (XO (XI (XI (XO (XO (XI (XO
    (XI (XI (XI (XI (XO (XI (XO (XO (XI (XI (XI (XO (XI (XI (XO (XO (XO (XO
    (XI (XI (XI (XI XH)))))))))))))))))))))))))))))) :: ((Zpos (XI (XI (XI
    (XI (XI (XO (XO (XO (XI (XO (XO (XI (XO (XI (XI (XI (XO (XI (XO (XI (XI
    (XO (XO (XO (XO (XI (XI (XI (XI
    XH)))))))))))))))))))))))))))))) :: ((Zpos (XI (XI (XI (XO (XO (XO (XI
    (XO (XI (XI (XO (XI (XI (XI (XO (XO (XO (XI (XO (XI (XI (XO (XO (XO (XO
    (XI (XI (XI (XI XH)))))))))))))))))))))))))))))) :: ((Zpos (XO (XO (XI
    (XI (XI (XO (XO (XO (XO (XI (XI (XI (XO (XO (XO (XI (XI (XO (XO (XI (XI
    (XO (XO (XO (XO (XI (XI (XI (XI
    XH)))))))))))))))))))))))))))))) :: ((Zpos (XO (XI (XI (XI (XI (XO (XO
    (XI (XI (XO (XO (XO (XO (XI (XI (XI (XO (XO (XO (XI (XI (XO (XO (XO (XO
    (XI (XI (XI (XI XH)))))))))))))))))))))))))))))) :: ((Zpos (XO (XO (XI
    (XI (XO (XO (XI (XI (XI (XO (XI (XO (XI (XI (XO (XO (XO (XO (XO (XI (XI
    (XO (XO (XO (XO (XI (XI (XI (XI
    XH)))))))))))))))))))))))))))))) :: ((Zpos (XO (XI (XI (XO (XO (XI (XO
    (XI (XO (XI (XO (XI (XO (XO (XO (XI (XI (XI (XI (XO (XI (XO (XO (XO (XO
    (XI (XI (XI (XI XH)))))))))))))))))))))))))))))) :: ((Zpos (XO (XO (XI
    (XI (XO (XI (XO (XO (XO (XO (XO (XO (XO (XI (XI (XI (XO (XI (XI (XO (XI
    (XO (XO (XO (XO (XI (XI (XI (XI
    XH)))))))))))))))))))))))))))))) :: ((Zpos (XI (XI (XO (XI (XI (XO (XI
    (XO (XO (XI (XI (XO (XI (XI (XO (XO (XO (XI (XI (XO (XI (XO (XO (XO (XO
    (XI (XI (XI (XI XH)))))))))))))))))))))))))))))) :: ((Zpos (XO (XO (XI
    (XO (XI (XI (XO (XO (XI (XO (XI (XI (XO (XO (XO (XI (XI (XO (XI (XO (XI
    (XO (XO (XO (XO (XI (XI (XI (XI
    XH)))))))))))))))))))))))))))))) :: ((Zpos (XO (XI (XI (XO (XI (XI (XO
    (XI (XO (XO (XI (XO (XO (XI (XI (XI (XO (XO (XI (XO (XI (XO (XO (XO (XO
    (XI (XI (XI (XI XH)))))))))))))))))))))))))))))) :: ((Zpos (XI (XO (XO
    (XO (XO (XI (XI (XI (XO (XO (XI (XI (XI (XI (XO (XO (XO (XO (XI (XO (XI
    (XO (XO (XO (XO (XI (XI (XI (XI
    XH)))))))))))))))))))))))))))))) :: ((Zpos (XI (XI (XO (XO (XI (XI (XO
    (XI (XI (XO (XI (XO (XI (XO (XO (XI (XI (XI (XO (XO (XI (XO (XO (XO (XO
    (XI (XI (XI (XI XH)))))))))))))))))))))))))))))) :: ((Zpos (XO (XO (XI
    (XI (XO (XI (XO (XO (XI (XI (XI (XI (XO (XI (XI (XI (XO (XI (XO (XO (XI
    (XO (XO (XO (XO (XI (XI (XI (XI
    XH)))))))))))))))))))))))))))))) :: ((Zpos (XI (XI (XO (XI (XO (XO (XI
    (XO (XI (XO (XO (XI (XO (XO (XI (XO (XO (XI (XO (XO (XI (XO (XO (XO (XO
    (XI (XI (XI (XI XH)))))))))))))))))))))))))))))) :: ((Zpos (XO (XO (XO
    (XO (XI (XO (XO (XO (XO (XO (XI (XO (XO (XI (XO (XI (XI (XO (XO (XO (XI
    (XO (XO (XO (XO (XI (XI (XI (XI
    XH)))))))))))))))))))))))))))))) :: ((Zpos (XO (XI (XO (XI (XI (XI (XI
    (XO (XI (XI (XI (XI (XI (XI (XI (XI (XO (XO (XO (XO (XI (XO (XO (XO (XO
    (XI (XI (XI (XI XH)))))))))))))))))))))))))))))) :: ((Zpos (XI (XO (XO
    (XI (XO (XO (XO (XI (XI (XI (XO (XI (XI (XO (XI (XO (XO (XO (XO (XO (XI
    (XO (XO (XO (XO (XI (XI (XI (XI
    XH)))))))))))))))))))))))))))))) :: ((Zpos (XO (XO (XI (XI (XI (XI (XO
    (XO (XO (XO (XO (XI (XI (XI (XO (XI (XI (XI (XI (XI (XO (XO (XO (XO (XO
    (XI (XI (XI (XI XH)))))))))))))))))))))))))))))) :: ((Zpos (XI (XO (XO
    (XO (XI (XO (XO (XI (XI (XO (XI (XO (XI (XO (XO (XO (XI (XI (XI (XI (XO
    (XO (XO (XO (XO (XI (XI (XI (XI
    XH)))))))))))))))))))))))))))))) :: ((Zpos (XI (XO (XO (XI (XO (XO (XO
    (XI (XI (XI (XO (XO (XI (XI (XI (XO (XO (XI (XI (XI (XO (XO (XO (XO (XO
    (XI (XI (XI (XI XH)))))))))))))))))))))))))))))) :: ((Zpos (XI (XI (XO
    (XO (XO (XI (XO (XO (XO (XI (XO (XO (XI (XO (XI (XI (XI (XO (XI (XI (XO
    (XO (XO (XO (XO (XI (XI (XI (XI
    XH)))))))))))))))))))))))))))))) :: ((Zpos (XO (XI (XI (XI (XI (XO (XI
    (XO (XI (XO (XO (XO (XI (XI (XO (XO (XI (XO (XI (XI (XO (XO (XO (XO (XO
    (XI (XI (XI (XI XH)))))))))))))))))))))))))))))) :: ((Zpos (XO (XI (XO
    (XI (XI (XI (XO (XO (XI (XO (XO (XO (XI (XO (XO (XI (XO (XO (XI (XI (XO
    (XO (XO (XO (XO (XI (XI (XI (XI
    XH)))))))))))))))))))))))))))))) :: ((Zpos (XO (XI (XI (XO (XI (XI (XO
    (XI (XI (XO (XO (XO (XI (XI (XI (XI (XI (XI (XO (XI (XO (XO (XO (XO (XO
    (XI (XI (XI (XI XH)))))))))))))))))))))))))))))) :: ((Zpos (XI (XO (XO
    (XO (XI (XO (XI (XI (XO (XI (XO (XO (XI (XO (XI (XO (XI (XI (XO (XI (XO
    (XO (XO (XO (XO (XI (XI (XI (XI
    XH)))))))))))))))))))))))))))))) :: ((Zpos (XI (XI (XO (XI (XO (XO (XO
    (XI (XO (XO (XI (XO (XI (XI (XO (XI (XO (XI (XO (XI (XO (XO (XO (XO (XO
    (XI (XI (XI (XI XH)))))))))))))))))))))))))))))) :: ((Zpos (XI (XI (XO
    (XO (XO (XI (XI (XI (XO (XI (XI (XO (XI (XO (XO (XO (XO (XI (XO (XI (XO
    (XO (XO (XO (XO (XI (XI (XI (XI
    XH)))))))))))))))))))))))))))))) :: ((Zpos (XO (XO (XO (XI (XI (XO (XI
    (XI (XI (XO (XO (XI (XI (XI (XI (XO (XI (XO (XO (XI (XO (XO (XO (XO (XO
    (XI (XI (XI (XI XH)))))))))))))))))))))))))))))) :: ((Zpos (XI (XI (XO
    (XI (XO (XI (XI (XO (XI (XO (XI (XI (XI (XO (XI (XI (XO (XO (XO (XI (XO
    (XO (XO (XO (XO (XI (XI (XI (XI
    XH)))))))))))))))))))))))))))))) :: ((Zpos (XO (XI (XO (XI (XI (XO (XO
    (XI (XI (XO (XO (XO (XO (XO (XI (XO (XO (XO (XO (XI (XO (XO (XO (XO (XO
    (XI (XI (XI (XI XH)))))))))))))))))))))))))))))) :: ((Zpos (XO (XO (XI
    (XO (XO (XI (XI (XO (XO (XI (XI (XO (XO (XI (XO (XI (XI (XI (XI (XO (XO
    (XO (XO (XO (XO (XI (XI (XI (XI
    XH)))))))))))))))))))))))))))))) :: ((Zpos (XI (XO (XO (XI (XO (XO (XI
    (XI (XI (XI (XO (XI (XO (XO (XO (XO (XI (XI (XI (XO (XO (XO (XO (XO (XO
    (XI (XI (XI (XI XH)))))))))))))))))))))))))))))) :: ((Zpos (XI (XO (XO
    (XI (XO (XO (XI (XI (XI (XO (XO (XO (XI (XI (XI (XO (XO (XI (XI (XO (XO
    (XO (XO (XO (XO (XI (XI (XI (XI
    XH)))))))))))))))))))))))))))))) :: ((Zpos (XI (XI (XO (XO (XO (XI (XI
    (XO (XO (XO (XO (XI (XI (XO (XI (XI (XI (XO (XI (XO (XO (XO (XO (XO (XO
    (XI (XI (XI (XI XH)))))))))))))))))))))))))))))) :: ((Zpos (XO (XI (XI
    (XO (XI (XO (XO (XI (XI (XI (XI (XI (XI (XI (XO (XO (XI (XO (XI (XO (XO
    (XO (XO (XO (XO (XI (XI (XI (XI
    XH)))))))))))))))))))))))))))))) :: ((Zpos (XI (XO (XO (XO (XO (XI (XI
    (XO (XI (XI (XI (XO (XO (XI (XO (XI (XO (XO (XI (XO (XO (XO (XO (XO (XO
    (XI (XI (XI (XI XH)))))))))))))))))))))))))))))) :: ((Zpos (XI (XO (XI
    (XO (XO (XO (XI (XI (XI (XI (XI (XI (XO (XO (XO (XO (XO (XO (XI (XO (XO
    (XO (XO (XO (XO (XI (XI (XI (XI
    XH)))))))))))))))))))))))))))))) :: ((Zpos (XO (XO (XO (XO (XO (XO (XI
    (XI (XO (XO (XO (XI (XI (XI (XI (XO (XI (XI (XO (XO (XO (XO (XO (XO (XO
    (XI (XI (XI (XI XH)))))))))))))))))))))))))))))) :: ((Zpos (XO (XI (XO
    (XO (XI (XO (XI (XO (XO (XI (XO (XO (XO (XI (XI (XI (XO (XI (XO (XO (XO
    (XO (XO (XO (XO (XI (XI (XI (XI
    XH)))))))))))))))))))))))))))))) :: ((Zpos (XO (XI (XO (XI (XI (XI (XI
    (XO (XO (XO (XI (XI (XO (XO (XI (XO (XO (XI (XO (XO (XO (XO (XO (XO (XO
    (XI (XI (XI (XI XH)))))))))))))))))))))))))))))) :: ((Zpos (XO (XO (XO
    (XI (XI (XI (XO (XO (XI (XI (XI (XO (XI (XI (XO (XI (XI (XO (XO (XO (XO
    (XO (XO (XO (XO (XI (XI (XI (XI
    XH)))))))))))))))))))))))))))))) :: ((Zpos (XI (XI (XO (XI (XO (XO (XO
    (XI (XO (XI (XO (XO (XO (XI (XO (XO (XI (XO (XO (XO (XO (XO (XO (XO (XO
    (XI (XI (XI (XI XH)))))))))))))))))))))))))))))) :: ((Zpos (XI (XI (XO
    (XO (XI (XI (XI (XO (XO (XI (XI (XI (XO (XO (XO (XI (XO (XO (XO (XO (XO
    (XO (XO (XO (XO (XI (XI (XI (XI
    XH)))))))))))))))))))))))))))))) :: ((Zpos (XI (XO (XI (XI (XI (XO (XI
    (XI (XI (XO (XI (XO (XI (XI (XI (XI (XI (XI (XI (XI (XI (XI (XI (XI (XI
    (XO (XI (XI (XI XH)))))))))))))))))))))))))))))) :: ((Zpos (XI (XI (XO
    (XI (XI (XI (XI (XI (XI (XI (XI (XI (XO (XO (XI (XI (XO (XI (XI (XI (XI
    (XI (XI (XI (XI (XO (XI (XI (XI
    XH)))))))))))))))))))))))))))))) :: ((Zpos (XI (XI (XI (XI (XI (XI (XO
    (XO (XI (XI (XO (XI (XO (XI (XO (XI (XI (XO (XI (XI (XI (XI (XI (XI (XI
    (XO (XI (XI (XI XH)))))))))))))))))))))))))))))) :: ((Zpos (XI (XI (XI
    (XO (XO (XI (XO (XI (XI (XI (XI (XO (XO (XO (XO (XI (XO (XO (XI (XI (XI
    (XI (XI (XI (XI (XO (XI (XI (XI
    XH)))))))))))))))))))))))))))))) :: ((Zpos (XO (XI (XO (XO (XI (XI (XO
    (XO (XI (XO (XI (XO (XO (XI (XI (XO (XI (XI (XO (XI (XI (XI (XI (XI (XI
    (XO (XI (XI (XI XH)))))))))))))))))))))))))))))) :: ((Zpos (XI (XI (XI
    (XI (XI (XO (XI (XI (XI (XI (XO (XO (XO (XO (XI (XO (XO (XI (XO (XI (XI
    (XI (XI (XI (XI (XO (XI (XI (XI
    XH)))))))))))))))))))))))))))))) :: ((Zpos (XO (XI (XI (XI (XO (XI (XO
    (XI (XI (XI (XO (XO (XO (XI (XO (XO (XI (XO (XO (XI (XI (XI (XI (XI (XI
    (XO (XI (XI (XI XH)))))))))))))))))))))))))))))) :: ((Zpos (XO (XO (XI
    (XI (XI (XO (XO (XI (XO (XO (XI (XO (XO (XO (XO (XO (XO (XO (XO (XI (XI
    (XI (XI (XI (XI (XO (XI (XI (XI
    XH)))))))))))))))))))))))))))))) :: ((Zpos (XI (XO (XO (XI (XO (XI (XO
    (XI (XO (XI (XI (XO (XO (XI (XI (XI (XO (XI (XI (XO (XI (XI (XI (XI (XI
    (XO (XI (XI (XI XH)))))))))))))))))))))))))))))) :: ((Zpos (XO (XO (XI
    (XO (XI (XO (XI (XI (XI (XO (XO (XI (XO (XO (XI (XI (XI (XO (XI (XO (XI
    (XI (XI (XI (XI (XO (XI (XI (XI
    XH)))))))))))))))))))))))))))))) :: ((Zpos (XI (XI (XO (XI (XI (XO (XO
    (XO (XO (XI (XI (XI (XO (XI (XO (XI (XO (XO (XI (XO (XI (XI (XI (XI (XI
    (XO (XI (XI (XI XH)))))))))))))))))))))))))))))) :: ((Zpos (XO (XI (XI
    (XI (XI (XI (XI (XO (XI (XI (XO (XO (XI (XO (XO (XI (XI (XI (XO (XO (XI
    (XI (XI (XI (XI (XO (XI (XI (XI
    XH)))))))))))))))))))))))))))))) :: ((Zpos (XI (XI (XO (XI (XI (XI (XI
    (XI (XI (XO (XO (XI (XI (XI (XI (XO (XO (XI (XO (XO (XI (XI (XI (XI (XI
    (XO (XI (XI (XI XH)))))))))))))))))))))))))))))) :: ((Zpos (XO (XI (XO
    (XO (XI (XO (XO (XI (XI (XO (XO (XO (XO (XI (XI (XO (XI (XO (XO (XO (XI
    (XI (XI (XI (XI (XO (XI (XI (XI
    XH)))))))))))))))))))))))))))))) :: ((Zpos (XO (XO (XO (XO (XO (XO (XI
    (XO (XO (XI (XO (XI (XO (XO (XI (XO (XO (XO (XO (XO (XI (XI (XI (XI (XI
    (XO (XI (XI (XI XH)))))))))))))))))))))))))))))) :: ((Zpos (XO (XI (XI
    (XO (XO (XO (XO (XO (XO (XO (XI (XO (XI (XI (XO (XO (XI (XI (XI (XI (XO
    (XI (XI (XI (XI (XO (XI (XI (XI
    XH)))))))))))))))))))))))))))))) :: ((Zpos (XI (XO (XO (XO (XO (XI (XI
    (XI (XO (XI (XI (XI (XI (XO (XO (XO (XO (XI (XI (XI (XO (XI (XI (XI (XI
    (XO (XI (XI (XI XH)))))))))))))))))))))))))))))) :: ((Zpos (XO (XI (XO
    (XO (XI (XO (XI (XI (XO (XI (XO (XI (XO (XO (XO (XO (XI (XO (XI (XI (XO
    (XI (XI (XI (XI (XO (XI (XI (XI
    XH)))))))))))))))))))))))))))))) :: ((Zpos (XO (XI (XI (XO (XI (XO (XI
    (XI (XI (XI (XI (XO (XI (XI (XI (XI (XI (XI (XO (XI (XO (XI (XI (XI (XI
    (XO (XI (XI (XI XH)))))))))))))))))))))))))))))) :: ((Zpos (XI (XO (XI
    (XI (XO (XI (XI (XI (XI (XO (XI (XO (XO (XI (XI (XI (XO (XI (XO (XI (XO
    (XI (XI (XI (XI (XO (XI (XI (XI
    XH)))))))))))))))))))))))))))))) :: ((Zpos (XI (XO (XI (XO (XI (XO (XO
    (XO (XI (XO (XI (XO (XI (XO (XI (XI (XI (XO (XO (XI (XO (XI (XI (XI (XI
    (XO (XI (XI (XI XH)))))))))))))))))))))))))))))) :: ((Zpos (XO (XI (XI
    (XI (XO (XO (XI (XO (XI (XO (XI (XO (XO (XO (XI (XI (XO (XO (XO (XI (XO
    (XI (XI (XI (XI (XO (XI (XI (XI
    XH)))))))))))))))))))))))))))))) :: ((Zpos (XI (XI (XI (XO (XI (XO (XO
    (XI (XO (XI (XI (XO (XI (XI (XO (XI (XI (XI (XI (XO (XO (XI (XI (XI (XI
    (XO (XI (XI (XI XH)))))))))))))))))))))))))))))) :: ((Zpos (XO (XI (XI
    (XI (XO (XI (XI (XI (XO (XO (XO (XI (XO (XI (XO (XI (XO (XI (XI (XO (XO
    (XI (XI (XI (XI (XO (XI (XI (XI
    XH)))))))))))))))))))))))))))))) :: ((Zpos (XI (XI (XO (XO (XI (XO (XI
    (XO (XO (XO (XI (XI (XI (XO (XO (XI (XI (XO (XI (XO (XO (XI (XI (XI (XI
    (XO (XI (XI (XI XH)))))))))))))))))))))))))))))) :: ((Zpos (XI (XI (XO
    (XO (XO (XO (XI (XI (XO (XO (XO (XO (XI (XO (XO (XI (XO (XO (XI (XO (XO
    (XI (XI (XI (XI (XO (XI (XI (XI
    XH)))))))))))))))))))))))))))))) :: ((Zpos (XO (XO (XO (XO (XO (XO (XI
    (XO (XO (XI (XI (XO (XO (XO (XO (XI (XI (XI (XO (XO (XO (XI (XI (XI (XI
    (XO (XI (XI (XI XH)))))))))))))))))))))))))))))) :: ((Zpos (XO (XI (XI
    (XO (XO (XO (XI (XI (XO (XO (XI (XI (XI (XI (XI (XO (XO (XI (XO (XO (XO
    (XI (XI (XI (XI (XO (XI (XI (XI
    XH)))))))))))))))))))))))))))))) :: ((Zpos (XO (XI (XI (XO (XI (XO (XI
    (XO (XO (XO (XI (XO (XI (XI (XI (XO (XI (XO (XO (XO (XO (XI (XI (XI (XI
    (XO (XI (XI (XI XH)))))))))))))))))))))))))))))) :: ((Zpos (XI (XO (XI
    (XI (XO (XI (XI (XI (XO (XO (XI (XI (XO (XI (XI (XO (XO (XO (XO (XO (XO
    (XI (XI (XI (XI (XO (XI (XI (XI
    XH)))))))))))))))))))))))))))))) :: ((Zpos (XO (XO (XI (XI (XO (XO (XO
    (XI (XO (XI (XI (XO (XO (XI (XI (XO (XI (XI (XI (XI (XI (XO (XI (XI (XI
    (XO (XI (XI (XI XH)))))))))))))))))))))))))))))) :: ((Zpos (XI (XO (XO
    (XO (XI (XI (XO (XO (XI (XO (XO (XO (XO (XI (XI (XO (XO (XI (XI (XI (XI
    (XO (XI (XI (XI (XO (XI (XI (XI
    XH)))))))))))))))))))))))))))))) :: ((Zpos (XI (XI (XO (XI (XI (XO (XI
    (XI (XO (XO (XI (XI (XI (XO (XI (XO (XI (XO (XI (XI (XI (XO (XI (XI (XI
    (XO (XI (XI (XI XH)))))))))))))))))))))))))))))) :: ((Zpos (XO (XI (XO
    (XI (XO (XO (XO (XI (XI (XO (XO (XI (XI (XO (XI (XO (XO (XO (XI (XI (XI
    (XO (XI (XI (XI (XO (XI (XI (XI
    XH)))))))))))))))))))))))))))))) :: ((Zpos (XI (XI (XO (XI (XI (XI (XO
    (XO (XI (XI (XI (XO (XI (XO (XI (XO (XI (XI (XO (XI (XI (XO (XI (XI (XI
    (XO (XI (XI (XI XH)))))))))))))))))))))))))))))) :: ((Zpos (XO (XI (XI
    (XI (XO (XI (XI (XI (XI (XO (XI (XO (XI (XO (XI (XO (XO (XI (XO (XI (XI
    (XO (XI (XI (XI (XO (XI (XI (XI
    XH)))))))))))))))))))))))))))))) :: ((Zpos (XI (XI (XO (XO (XO (XI (XO
    (XI (XI (XO (XI (XO (XI (XO (XI (XO (XI (XO (XO (XI (XI (XO (XI (XI (XI
    (XO (XI (XI (XI XH)))))))))))))))))))))))))))))) :: ((Zpos (XI (XI (XI
    (XO (XI (XO (XI (XO (XO (XI (XI (XO (XI (XO (XI (XO (XO (XO (XO (XI (XI
    (XO (XI (XI (XI (XO (XI (XI (XI
    XH)))))))))))))))))))))))))))))) :: ((Zpos (XI (XI (XO (XI (XO (XO (XO
    (XO (XO (XO (XO (XI (XI (XO (XI (XO (XI (XI (XI (XO (XI (XO (XI (XI (XI
    (XO (XI (XI (XI XH)))))))))))))))))))))))))))))) :: ((Zpos (XO (XO (XI
    (XI (XI (XI (XO (XI (XO (XI (XO (XI (XI (XO (XI (XO (XO (XI (XI (XO (XI
    (XO (XI (XI (XI (XO (XI (XI (XI
    XH)))))))))))))))))))))))))))))) :: ((Zpos (XI (XI (XO (XI (XO (XI (XI
    (XO (XO (XI (XI (XI (XI (XO (XI (XO (XI (XO (XI (XO (XI (XO (XI (XI (XI
    (XO (XI (XI (XI XH)))))))))))))))))))))))))))))) :: ((Zpos (XI (XO (XI
    (XO (XI (XO (XO (XO (XI (XI (XO (XO (XO (XI (XI (XO (XO (XO (XI (XO (XI
    (XO (XI (XI (XI (XO (XI (XI (XI
    XH)))))))))))))))))))))))))))))) :: ((Zpos (XI (XI (XO (XI (XI (XI (XO
    (XI (XO (XO (XO (XI (XO (XI (XI (XO (XI (XI (XO (XO (XI (XO (XI (XI (XI
    (XO (XI (XI (XI XH)))))))))))))))))))))))))))))) :: ((Zpos (XI (XI (XO
    (XI (XI (XO (XI (XO (XI (XI (XI (XI (XO (XI (XI (XO (XO (XI (XO (XO (XI
    (XO (XI (XI (XI (XO (XI (XI (XI
    XH)))))))))))))))))))))))))))))) :: ((Zpos (XO (XO (XI (XO (XI (XI (XI
    (XI (XO (XI (XI (XO (XI (XI (XI (XO (XI (XO (XO (XO (XI (XO (XI (XI (XI
    (XO (XI (XI (XI XH)))))))))))))))))))))))))))))) :: ((Zpos (XI (XO (XI
    (XO (XO (XO (XO (XI (XI (XI (XI (XI (XI (XI (XI (XO (XO (XO (XO (XO (XI
    (XO (XI (XI (XI (XO (XI (XI (XI
    XH)))))))))))))))))))))))))))))) :: ((Zpos (XO (XI (XI (XI (XO (XO (XO
    (XO (XI (XO (XO (XI (XO (XO (XO (XI (XI (XI (XI (XI (XO (XO (XI (XI (XI
    (XO (XI (XI (XI XH)))))))))))))))))))))))))))))) :: ((Zpos (XO (XO (XI
    (XI (XO (XO (XO (XI (XI (XI (XO (XO (XI (XO (XO (XI (XO (XI (XI (XI (XO
    (XO (XI (XI (XI (XO (XI (XI (XI
    XH)))))))))))))))))))))))))))))) :: ((Zpos (XO (XO (XO (XO (XO (XO (XO
    (XO (XI (XI (XI (XI (XI (XO (XO (XI (XI (XO (XI (XI (XO (XO (XI (XI (XI
    (XO (XI (XI (XI XH)))))))))))))))))))))))))))))) :: ((Zpos (XO (XO (XO
    (XI (XO (XI (XI (XO (XI (XI (XO (XI (XO (XI (XO (XI (XO (XO (XI (XI (XO
    (XO (XI (XI (XI (XO (XI (XI (XI
    XH)))))))))))))))))))))))))))))) :: ((Zpos (XO (XO (XI (XO (XO (XO (XI
    (XI (XO (XO (XO (XI (XI (XI (XO (XI (XI (XI (XO (XI (XO (XO (XI (XI (XI
    (XO (XI (XI (XI XH)))))))))))))))))))))))))))))) :: ((Zpos (XO (XI (XO
    (XO (XI (XO (XO (XO (XI (XI (XI (XO (XO (XO (XI (XI (XO (XI (XO (XI (XO
    (XO (XI (XI (XI (XO (XI (XI (XI
    XH)))))))))))))))))))))))))))))) :: ((Zpos (XI (XO (XO (XO (XI (XO (XI
    (XO (XO (XI (XI (XO (XI (XO (XI (XI (XI (XO (XO (XI (XO (XO (XI (XI (XI
    (XO (XI (XI (XI XH)))))))))))))))))))))))))))))) :: ((Zpos (XI (XO (XO
    (XO (XO (XO (XO (XI (XO (XI (XI (XO (XO (XI (XI (XI (XO (XO (XO (XI (XO
    (XO (XI (XI (XI (XO (XI (XI (XI
    XH)))))))))))))))))))))))))))))) :: ((Zpos (XO (XO (XO (XO (XO (XI (XO
    (XI (XI (XI (XI (XO (XI (XI (XI (XI (XI (XI (XI (XO (XO (XO (XI (XI (XI
    (XO (XI (XI (XI XH)))))))))))))))))))))))))))))) :: ((Zpos (XO (XI (XI
    (XI (XO (XI (XO (XI (XI (XO (XO (XI (XO (XO (XO (XO (XI (XI (XI (XO (XO
    (XO (XI (XI (XI (XO (XI (XI (XI
    XH)))))))))))))))))))))))))))))) :: ((Zpos (XO (XI (XO (XI (XO (XI (XO
    (XI (XO (XO (XI (XI (XI (XO (XO (XO (XO (XI (XI (XO (XO (XO (XI (XI (XI
    (XO (XI (XI (XI XH)))))))))))))))))))))))))))))) :: ((Zpos (XI (XI (XO
    (XO (XI (XO (XO (XI (XO (XO (XO (XO (XI (XI (XO (XO (XI (XO (XI (XO (XO
    (XO (XI (XI (XI (XO (XI (XI (XI
    XH)))))))))))))))))))))))))))))) :: ((Zpos (XI (XI (XI (XO (XO (XI (XI
    (XO (XI (XO (XI (XO (XO (XO (XI (XO (XO (XO (XI (XO (XO (XO (XI (XI (XI
    (XO (XI (XI (XI XH)))))))))))))))))))))))))))))) :: ((Zpos (XI (XI (XI
    (XO (XO (XI (XO (XO (XI (XI (XO (XI (XI (XO (XI (XO (XI (XI (XO (XO (XO
    (XO (XI (XI (XI (XO (XI (XI (XI
    XH)))))))))))))))))))))))))))))) :: ((Zpos (XO (XO (XO (XO (XI (XO (XI
    (XI (XI (XO (XO (XO (XI (XI (XI (XO (XO (XI (XO (XO (XO (XO (XI (XI (XI
    (XO (XI (XI (XI XH)))))))))))))))))))))))))))))) :: ((Zpos (XI (XI (XO
    (XO (XO (XI (XI (XO (XI (XO (XO (XI (XO (XO (XO (XI (XI (XO (XO (XO (XO
    (XO (XI (XI (XI (XO (XI (XI (XI
    XH)))))))))))))))))))))))))))))) :: ((Zpos (XI (XO (XI (XI (XI (XO (XI
    (XI (XI (XO (XO (XO (XO (XI (XO (XI (XO (XO (XO (XO (XO (XO (XI (XI (XI
    (XO (XI (XI (XI XH)))))))))))))))))))))))))))))) :: ((Zpos (XI (XI (XI
    (XI (XI (XI (XO (XO (XI (XI (XO (XI (XI (XI (XO (XI (XI (XI (XI (XI (XI
    (XI (XO (XI (XI (XO (XI (XI (XI
    XH)))))))))))))))))))))))))))))) :: ((Zpos (XO (XO (XO (XI (XO (XO (XO
    (XI (XI (XO (XI (XO (XI (XO (XI (XI (XO (XI (XI (XI (XI (XI (XO (XI (XI
    (XO (XI (XI (XI XH)))))))))))))))))))))))))))))) :: ((Zpos (XO (XI (XI
    (XO (XI (XI (XO (XI (XO (XO (XO (XO (XI (XI (XI (XI (XI (XO (XI (XI (XI
    (XI (XO (XI (XI (XO (XI (XI (XI
    XH)))))))))))))))))))))))))))))) :: ((Zpos (XO (XO (XO (XI (XO (XO (XI
    (XI (XO (XO (XI (XI (XO (XO (XO (XO (XI (XO (XI (XI (XI (XI (XO (XI (XI
    (XO (XI (XI (XI XH)))))))))))))))))))))))))))))) :: ((Zpos (XO (XI (XI
    (XI (XI (XI (XO (XI (XI (XO (XO (XI (XO (XI (XO (XO (XO (XO (XI (XI (XI
    (XI (XO (XI (XI (XO (XI (XI (XI
    XH)))))))))))))))))))))))))))))) :: ((Zpos (XI (XI (XI (XO (XI (XO (XO
    (XI (XI (XI (XI (XO (XO (XO (XI (XO (XI (XI (XO (XI (XI (XI (XO (XI (XI
    (XO (XI (XI (XI XH)))))))))))))))))))))))))))))) :: ((Zpos (XO (XI (XO
    (XO (XI (XO (XI (XO (XO (XI (XI (XO (XO (XI (XI (XO (XO (XI (XO (XI (XI
    (XI (XO (XI (XI (XO (XI (XI (XI
    XH)))))))))))))))))))))))))))))) :: ((Zpos (XO (XI (XI (XI (XO (XI (XI
    (XI (XI (XO (XI (XO (XO (XO (XO (XI (XI (XO (XO (XI (XI (XI (XO (XI (XI
    (XO (XI (XI (XI XH)))))))))))))))))))))))))))))) :: ((Zpos (XI (XI (XO
    (XI (XO (XI (XI (XO (XO (XI (XI (XO (XO (XI (XO (XI (XO (XO (XO (XI (XI
    (XI (XO (XI (XI (XO (XI (XI (XI
    XH)))))))))))))))))))))))))))))) :: ((Zpos (XO (XI (XI (XO (XO (XO (XI
    (XI (XI (XI (XI (XO (XO (XO (XI (XI (XI (XI (XI (XO (XI (XI (XO (XI (XI
    (XO (XI (XI (XI XH)))))))))))))))))))))))))))))) :: ((Zpos (XO (XO (XO
    (XO (XO (XO (XO (XO (XO (XI (XO (XI (XO (XI (XI (XI (XO (XI (XI (XO (XI
    (XI (XO (XI (XI (XO (XI (XI (XI
    XH)))))))))))))))))))))))))))))) :: ((Zpos (XO (XO (XO (XI (XI (XO (XO
    (XO (XI (XO (XI (XI (XO (XO (XO (XO (XO (XI (XI (XO (XI (XI (XO (XI (XI
    (XO (XI (XI (XI XH)))))))))))))))))))))))))))))) :: ((Zpos (XO (XO (XI
    (XI (XO (XO (XO (XO (XI (XO (XO (XO (XI (XI (XO (XO (XI (XO (XI (XO (XI
    (XI (XO (XI (XI (XO (XI (XI (XI
    XH)))))))))))))))))))))))))))))) :: ((Zpos (XO (XO (XI (XI (XI (XO (XI
    (XI (XI (XO (XI (XO (XI (XO (XI (XO (XO (XO (XI (XO (XI (XI (XO (XI (XI
    (XO (XI (XI (XI XH)))))))))))))))))))))))))))))) :: ((Zpos (XI (XI (XI
    (XO (XO (XO (XO (XI (XI (XI (XO (XI (XI (XI (XI (XO (XI (XI (XO (XO (XI
    (XI (XO (XI (XI (XO (XI (XI (XI
    XH)))))))))))))))))))))))))))))) :: ((Zpos (XO (XO (XI (XI (XO (XO (XO
    (XO (XO (XI (XO (XO (XO (XI (XO (XI (XO (XI (XO (XO (XI (XI (XO (XI (XI
    (XO (XI (XI (XI XH)))))))))))))))))))))))))))))) :: ((Zpos (XO (XI (XO
    (XI (XO (XI (XI (XO (XI (XO (XO (XI (XO (XO (XI (XI (XI (XO (XO (XO (XI
    (XI (XO (XI (XI (XO (XI (XI (XI
    XH)))))))))))))))))))))))))))))) :: ((Zpos (XI (XO (XO (XO (XO (XI (XO
    (XI (XI (XO (XO (XO (XI (XI (XI (XI (XO (XO (XO (XO (XI (XI (XO (XI (XI
    (XO (XI (XI (XI XH)))))))))))))))))))))))))))))) :: ((Zpos (XI (XI (XI
    (XI (XO (XI (XO (XI (XO (XI (XO (XI (XI (XO (XO (XO (XO (XO (XO (XO (XI
    (XI (XO (XI (XI (XO (XI (XI (XI
    XH)))))))))))))))))))))))))))))) :: ((Zpos (XO (XO (XI (XO (XI (XO (XO
    (XI (XO (XO (XI (XO (XO (XO (XI (XO (XI (XI (XI (XI (XO (XI (XO (XI (XI
    (XO (XI (XI (XI XH)))))))))))))))))))))))))))))) :: ((Zpos (XI (XI (XI
    (XI (XO (XO (XI (XO (XI (XI (XI (XI (XO (XI (XI (XO (XO (XI (XI (XI (XO
    (XI (XO (XI (XI (XO (XI (XI (XI
    XH)))))))))))))))))))))))))))))) :: ((Zpos (XI (XI (XI (XI (XI (XO (XI
    (XI (XO (XI (XO (XI (XI (XO (XO (XI (XI (XO (XI (XI (XO (XI (XO (XI (XI
    (XO (XI (XI (XI XH)))))))))))))))))))))))))))))) :: ((Zpos (XO (XO (XI
    (XO (XO (XO (XI (XO (XI (XI (XI (XO (XO (XO (XI (XI (XO (XO (XI (XI (XO
    (XI (XO (XI (XI (XO (XI (XI (XI
    XH)))))))))))))))))))))))))))))) :: ((Zpos (XI (XI (XO (XI (XI (XI (XI
    (XO (XO (XO (XI (XO (XI (XI (XI (XI (XI (XI (XO (XI (XO (XI (XO (XI (XI
    (XO (XI (XI (XI XH)))))))))))))))))))))))))))))) :: ((Zpos (XI (XO (XI
    (XO (XO (XO (XO (XI (XO (XI (XO (XO (XO (XI (XO (XO (XI (XI (XO (XI (XO
    (XI (XO (XI (XI (XO (XI (XI (XI
    XH)))))))))))))))))))))))))))))) :: ((Zpos (XI (XO (XO (XO (XO (XI (XI
    (XO (XI (XO (XO (XO (XI (XO (XI (XO (XO (XI (XO (XI (XO (XI (XO (XI (XI
    (XO (XI (XI (XI XH)))))))))))))))))))))))))))))) :: ((Zpos (XO (XI (XI
    (XI (XO (XO (XO (XO (XI (XO (XO (XO (XO (XO (XO (XI (XI (XO (XO (XI (XO
    (XI (XO (XI (XI (XO (XI (XI (XI
    XH)))))))))))))))))))))))))))))) :: ((Zpos (XI (XI (XO (XI (XO (XO (XO
    (XI (XI (XO (XO (XO (XI (XI (XO (XI (XO (XO (XO (XI (XO (XI (XO (XI (XI
    (XO (XI (XI (XI XH)))))))))))))))))))))))))))))) :: ((Zpos (XO (XO (XO
    (XI (XI (XO (XI (XI (XO (XI (XO (XO (XO (XI (XI (XI (XI (XI (XI (XO (XO
    (XI (XO (XI (XI (XO (XI (XI (XI
    XH)))))))))))))))))))))))))))))) :: ((Zpos (XI (XI (XO (XO (XI (XI (XI
    (XI (XO (XO (XI (XO (XI (XO (XO (XO (XI (XI (XI (XO (XO (XI (XO (XI (XI
    (XO (XI (XI (XI XH)))))))))))))))))))))))))))))) :: ((Zpos (XI (XI (XO
    (XI (XI (XO (XI (XI (XI (XI (XI (XO (XO (XO (XI (XO (XO (XI (XI (XO (XO
    (XI (XO (XI (XI (XO (XI (XI (XI
    XH)))))))))))))))))))))))))))))) :: ((Zpos (XI (XO (XO (XO (XI (XO (XO
    (XI (XI (XI (XO (XI (XI (XI (XI (XO (XI (XO (XI (XO (XO (XI (XO (XI (XI
    (XO (XI (XI (XI XH)))))))))))))))))))))))))))))) :: ((Zpos (XO (XI (XO
    (XO (XI (XO (XO (XO (XO (XO (XO (XO (XI (XI (XO (XI (XO (XO (XI (XO (XO
    (XI (XO (XI (XI (XO (XI (XI (XI
    XH)))))))))))))))))))))))))))))) :: ((Zpos (XI (XI (XI (XI (XI (XO (XI
    (XO (XI (XO (XI (XO (XO (XI (XI (XI (XI (XI (XO (XO (XO (XI (XO (XI (XI
    (XO (XI (XI (XI XH)))))))))))))))))))))))))))))) :: ((Zpos (XO (XI (XI
    (XO (XI (XI (XI (XO (XI (XI (XO (XI (XI (XO (XO (XO (XI (XI (XO (XO (XO
    (XI (XO (XI (XI (XO (XI (XI (XI
    XH)))))))))))))))))))))))))))))) :: ((Zpos (XO (XO (XO (XI (XI (XO (XI
    (XO (XO (XI (XO (XO (XI (XO (XI (XO (XO (XI (XO (XO (XO (XI (XO (XI (XI
    (XO (XI (XI (XI XH)))))))))))))))))))))))))))))) :: ((Zpos (XI (XO (XO
    (XO (XO (XO (XO (XO (XO (XI (XO (XI (XO (XO (XO (XI (XI (XO (XO (XO (XO
    (XI (XO (XI (XI (XO (XI (XI (XI
    XH)))))))))))))))))))))))))))))) :: ((Zpos (XO (XO (XI (XO (XI (XI (XI
    (XO (XO (XI (XO (XO (XO (XO (XI (XI (XO (XO (XO (XO (XO (XI (XO (XI (XI
    (XO (XI (XI (XI XH)))))))))))))))))))))))))))))) :: ((Zpos (XI (XO (XI
    (XI (XO (XI (XO (XI (XI (XI (XO (XI (XI (XI (XI (XI (XI (XI (XI (XI (XI
    (XO (XO (XI (XI (XO (XI (XI (XI
    XH)))))))))))))))))))))))))))))) :: ((Zpos (XI (XO (XI (XI (XO (XI (XO
    (XI (XI (XO (XI (XO (XI (XI (XO (XO (XI (XI (XI (XI (XI (XO (XO (XI (XI
    (XO (XI (XI (XI XH)))))))))))))))))))))))))))))) :: ((Zpos (XI (XI (XO
    (XO (XI (XI (XI (XO (XO (XO (XO (XO (XI (XI (XI (XO (XO (XI (XI (XI (XI
    (XO (XO (XI (XI (XO (XI (XI (XI
    XH)))))))))))))))))))))))))))))) :: ((Zpos (XO (XI (XI (XI (XI (XI (XI
    (XI (XI (XI (XO (XI (XO (XI (XO (XI (XI (XO (XI (XI (XI (XO (XO (XI (XI
    (XO (XI (XI (XI XH)))))))))))))))))))))))))))))) :: ((Zpos (XI (XO (XI
    (XI (XO (XO (XI (XO (XO (XO (XO (XI (XO (XI (XI (XI (XO (XO (XI (XI (XI
    (XO (XO (XI (XI (XO (XI (XI (XI
    XH)))))))))))))))))))))))))))))) :: ((Zpos (XO (XO (XO (XO (XO (XI (XI
    (XO (XI (XO (XI (XO (XO (XI (XO (XO (XO (XO (XI (XI (XI (XO (XO (XI (XI
    (XO (XI (XI (XI XH)))))))))))))))))))))))))))))) :: ((Zpos (XI (XO (XI
    (XO (XI (XI (XO (XO (XI (XI (XO (XO (XO (XI (XI (XO (XI (XI (XO (XI (XI
    (XO (XO (XI (XI (XO (XI (XI (XI
    XH)))))))))))))))))))))))))))))) :: ((Zpos (XI (XO (XI (XI (XO (XO (XI
    (XI (XI (XO (XO (XO (XO (XI (XO (XI (XO (XI (XO (XI (XI (XO (XO (XI (XI
    (XO (XI (XI (XI XH)))))))))))))))))))))))))))))) :: ((Zpos (XI (XO (XI
    (XO (XO (XI (XO (XO (XI (XO (XO (XO (XO (XI (XI (XI (XI (XO (XO (XI (XI
    (XO (XO (XI (XI (XO (XI (XI (XI
    XH)))))))))))))))))))))))))))))) :: ((Zpos (XO (XI (XI (XI (XI (XI (XO
    (XO (XI (XO (XO (XO (XO (XI (XO (XO (XI (XO (XO (XI (XI (XO (XO (XI (XI
    (XO (XI (XI (XI XH)))))))))))))))))))))))))))))) :: ((Zpos (XI (XI (XI
    (XO (XI (XO (XO (XO (XO (XI (XO (XO (XO (XI (XI (XO (XO (XO (XO (XI (XI
    (XO (XO (XI (XI (XO (XI (XI (XI
    XH)))))))))))))))))))))))))))))) :: ((Zpos (XI (XI (XI (XI (XO (XI (XO
    (XI (XI (XI (XO (XO (XO (XI (XO (XI (XI (XI (XI (XO (XI (XO (XO (XI (XI
    (XO (XI (XI (XI XH)))))))))))))))))))))))))))))) :: ((Zpos (XI (XO (XI
    (XO (XO (XO (XO (XO (XO (XI (XI (XO (XO (XI (XI (XI (XO (XI (XI (XO (XI
    (XO (XO (XI (XI (XO (XI (XI (XI
    XH)))))))))))))))))))))))))))))) :: ((Zpos (XO (XO (XO (XI (XI (XO (XO
    (XO (XI (XO (XO (XI (XO (XI (XO (XO (XO (XI (XI (XO (XI (XO (XO (XI (XI
    (XO (XI (XI (XI XH)))))))))))))))))))))))))))))) :: ((Zpos (XO (XO (XO
    (XI (XO (XI (XI (XI (XO (XO (XI (XI (XO (XI (XI (XO (XI (XO (XI (XO (XI
    (XO (XO (XI (XI (XO (XI (XI (XI
    XH)))))))))))))))))))))))))))))) :: ((Zpos (XO (XO (XI (XO (XI (XI (XI
    (XO (XI (XO (XO (XO (XI (XI (XO (XI (XO (XO (XI (XO (XI (XO (XO (XI (XI
    (XO (XI (XI (XI XH)))))))))))))))))))))))))))))) :: ((Zpos (XO (XO (XI
    (XI (XI (XI (XO (XI (XO (XI (XI (XO (XI (XI (XI (XI (XI (XI (XO (XO (XI
    (XO (XO (XI (XI (XO (XI (XI (XI
    XH)))))))))))))))))))))))))))))) :: ((Zpos (XO (XI (XI (XI (XI (XI (XO
    (XI (XO (XO (XI (XI (XI (XI (XO (XO (XI (XI (XO (XO (XI (XO (XO (XI (XI
    (XO (XI (XI (XI XH)))))))))))))))))))))))))))))) :: ((Zpos (XO (XI (XO
    (XI (XI (XI (XI (XO (XI (XI (XO (XO (XO (XO (XO (XI (XO (XI (XO (XO (XI
    (XO (XO (XI (XI (XO (XI (XI (XI
    XH)))))))))))))))))))))))))))))) :: ((Zpos (XI (XI (XI (XI (XO (XI (XI
    (XI (XO (XI (XO (XI (XO (XO (XI (XI (XI (XO (XO (XO (XI (XO (XO (XI (XI
    (XO (XI (XI (XI XH)))))))))))))))))))))))))))))) :: ((Zpos (XO (XO (XI
    (XI (XI (XO (XO (XO (XI (XI (XO (XO (XI (XO (XO (XO (XI (XO (XO (XO (XI
    (XO (XO (XI (XI (XO (XI (XI (XI
    XH)))))))))))))))))))))))))))))) :: ((Zpos (XI (XO (XO (XO (XO (XO (XO
    (XO (XO (XO (XI (XI (XI (XO (XI (XO (XO (XO (XO (XO (XI (XO (XO (XI (XI
    (XO (XI (XI (XI XH)))))))))))))))))))))))))))))) :: ((Zpos (XI (XO (XI
    (XI (XI (XO (XO (XI (XI (XO (XI (XO (XO (XI (XO (XI (XI (XI (XI (XI (XO
    (XO (XO (XI (XI (XO (XI (XI (XI
    XH)))))))))))))))))))))))))))))) :: ((Zpos (XI (XI (XI (XI (XO (XI (XI
    (XI (XI (XI (XI (XI (XO (XI (XI (XI (XO (XI (XI (XI (XO (XO (XO (XI (XI
    (XO (XI (XI (XI XH)))))))))))))))))))))))))))))) :: ((Zpos (XO (XI (XI
    (XO (XI (XI (XI (XI (XO (XI (XO (XI (XI (XI (XO (XO (XO (XI (XI (XI (XO
    (XO (XO (XI (XI (XO (XI (XI (XI
    XH)))))))))))))))))))))))))))))) :: ((Zpos (XI (XI (XO (XO (XI (XI (XO
    (XI (XO (XI (XI (XO (XO (XO (XO (XI (XI (XO (XI (XI (XO (XO (XO (XI (XI
    (XO (XI (XI (XI XH)))))))))))))))))))))))))))))) :: ((Zpos (XI (XI (XO
    (XO (XO (XI (XO (XO (XI (XI (XO (XO (XI (XO (XI (XI (XO (XO (XI (XI (XO
    (XO (XO (XI (XI (XO (XI (XI (XI
    XH)))))))))))))))))))))))))))))) :: ((Zpos (XI (XI (XI (XO (XO (XO (XI
    (XO (XO (XO (XO (XO (XO (XI (XO (XO (XO (XO (XI (XI (XO (XO (XO (XI (XI
    (XO (XI (XI (XI XH)))))))))))))))))))))))))))))) :: ((Zpos (XI (XO (XI
    (XI (XI (XO (XO (XO (XO (XI (XI (XI (XO (XI (XI (XO (XI (XI (XO (XI (XO
    (XO (XO (XI (XI (XO (XI (XI (XI
    XH)))))))))))))))))))))))))))))) :: ((Zpos (XO (XI (XI (XO (XO (XI (XO
    (XI (XO (XO (XI (XI (XI (XI (XO (XI (XO (XI (XO (XI (XO (XO (XO (XI (XI
    (XO (XI (XI (XI XH)))))))))))))))))))))))))))))) :: ((Zpos (XI (XI (XI
    (XI (XI (XO (XI (XI (XI (XI (XO (XI (XO (XO (XO (XO (XO (XI (XO (XI (XO
    (XO (XO (XI (XI (XO (XI (XI (XI
    XH)))))))))))))))))))))))))))))) :: ((Zpos (XO (XI (XO (XI (XO (XO (XI
    (XI (XI (XI (XO (XI (XI (XO (XI (XO (XI (XO (XO (XI (XO (XO (XO (XI (XI
    (XO (XI (XI (XI XH)))))))))))))))))))))))))))))) :: ((Zpos (XO (XO (XI
    (XO (XO (XI (XI (XO (XO (XO (XI (XI (XO (XI (XO (XI (XO (XO (XO (XI (XO
    (XO (XO (XI (XI (XO (XI (XI (XI
    XH)))))))))))))))))))))))))))))) :: ((Zpos (XO (XI (XI (XI (XO (XI (XO
    (XI (XI (XO (XI (XI (XI (XI (XI (XI (XI (XI (XI (XO (XO (XO (XO (XI (XI
    (XO (XI (XI (XI XH)))))))))))))))))))))))))))))) :: ((Zpos (XO (XI (XI
    (XO (XO (XI (XO (XI (XI (XI (XI (XI (XO (XO (XI (XO (XI (XI (XI (XO (XO
    (XO (XO (XI (XI (XO (XI (XI (XI
    XH)))))))))))))))))))))))))))))) :: ((Zpos (XO (XO (XI (XI (XO (XO (XI
    (XO (XO (XI (XO (XO (XO (XI (XO (XI (XO (XI (XI (XO (XO (XO (XO (XI (XI
    (XO (XI (XI (XI XH)))))))))))))))))))))))))))))) :: ((Zpos (XI (XI (XI
    (XI (XI (XO (XO (XI (XI (XO (XI (XO (XI (XI (XI (XI (XI (XO (XI (XO (XO
    (XO (XO (XI (XI (XO (XI (XI (XI
    XH)))))))))))))))))))))))))))))) :: ((Zpos (XO (XI (XI (XI (XI (XO (XO
    (XI (XI (XO (XO (XI (XO (XO (XI (XO (XI (XO (XI (XO (XO (XO (XO (XI (XI
    (XO (XI (XI (XI XH)))))))))))))))))))))))))))))) :: ((Zpos (XO (XI (XO
    (XI (XO (XO (XI (XO (XO (XI (XI (XI (XI (XO (XO (XI (XO (XO (XI (XO (XO
    (XO (XO (XI (XI (XO (XI (XI (XI
    XH)))))))))))))))))))))))))))))) :: ((Zpos (XO (XO (XO (XO (XO (XI (XO
    (XI (XI (XI (XO (XO (XI (XI (XI (XI (XI (XI (XO (XO (XO (XO (XO (XI (XI
    (XO (XI (XI (XI XH)))))))))))))))))))))))))))))) :: ((Zpos (XI (XO (XO
    (XO (XO (XI (XO (XI (XI (XO (XO (XI (XO (XO (XI (XO (XI (XI (XO (XO (XO
    (XO (XO (XI (XI (XO (XI (XI (XI
    XH)))))))))))))))))))))))))))))) :: ((Zpos (XO (XO (XI (XI (XO (XO (XI
    (XO (XO (XO (XO (XO (XO (XI (XO (XI (XO (XI (XO (XO (XO (XO (XO (XI (XI
    (XO (XI (XI (XI XH)))))))))))))))))))))))))))))) :: ((Zpos (XO (XO (XO
    (XO (XO (XI (XO (XI (XI (XI (XI (XO (XI (XI (XI (XI (XI (XO (XO (XO (XO
    (XO (XO (XI (XI (XO (XI (XI (XI
    XH)))))))))))))))))))))))))))))) :: ((Zpos (XI (XO (XI (XI (XI (XO (XO
    (XI (XI (XI (XI (XI (XO (XO (XI (XO (XI (XO (XO (XO (XO (XO (XO (XI (XI
    (XO (XI (XI (XI XH)))))))))))))))))))))))))))))) :: ((Zpos (XO (XI (XO
    (XO (XO (XO (XI (XO (XO (XO (XO (XI (XO (XI (XO (XI (XO (XO (XO (XO (XO
    (XO (XO (XI (XI (XO (XI (XI (XI
    XH)))))))))))))))))))))))))))))) :: ((Zpos (XI (XO (XI (XI (XO (XO (XO
    (XI (XI (XO (XO (XO (XO (XO (XO (XO (XO (XO (XO (XO (XO (XO (XO (XI (XI
    (XO (XI (XI (XI XH)))))))))))))))))))))))))))))) :: ((Zpos (XI (XI (XI
    (XI (XI (XI (XI (XI (XO (XI (XI (XO (XI (XI (XO (XI (XO (XI (XI (XI (XI
    (XI (XI (XO (XI (XO (XI (XI (XI
    XH)))))))))))))))))))))))))))))) :: ((Zpos (XI (XI (XI (XI (XO (XI (XO
    (XO (XO (XO (XI (XI (XO (XI (XI (XO (XI (XO (XI (XI (XI (XI (XI (XO (XI
    (XO (XI (XI (XI XH)))))))))))))))))))))))))))))) :: ((Zpos (XO (XI (XO
    (XI (XO (XI (XO (XI (XO (XI (XO (XO (XO (XI (XO (XO (XO (XO (XI (XI (XI
    (XI (XI (XO (XI (XO (XI (XI (XI
    XH)))))))))))))))))))))))))))))) :: ((Zpos (XI (XO (XI (XI (XO (XI (XI
    (XO (XO (XI (XO (XI (XI (XO (XI (XI (XO (XI (XO (XI (XI (XI (XI (XO (XI
    (XO (XI (XI (XI XH)))))))))))))))))))))))))))))) :: ((Zpos (XI (XO (XO
    (XI (XI (XI (XI (XO (XI (XI (XO (XO (XI (XO (XO (XI (XI (XO (XO (XI (XI
    (XI (XI (XO (XI (XO (XI (XI (XI
    XH)))))))))))))))))))))))))))))) :: ((Zpos (XO (XO (XI (XI (XO (XO (XI
    (XI (XI (XO (XI (XI (XO (XO (XI (XO (XO (XO (XO (XI (XI (XI (XI (XO (XI
    (XO (XI (XI (XI XH)))))))))))))))))))))))))))))) :: ((Zpos (XI (XI (XO
    (XO (XO (XI (XI (XO (XI (XO (XO (XI (XO (XO (XO (XO (XI (XI (XI (XO (XI
    (XI (XI (XO (XI (XO (XI (XI (XI
    XH)))))))))))))))))))))))))))))) :: ((Zpos (XI (XI (XI (XI (XI (XI (XO
    (XO (XO (XI (XI (XO (XO (XO (XI (XI (XI (XO (XI (XO (XI (XI (XI (XO (XI
    (XO (XI (XI (XI XH)))))))))))))))))))))))))))))) :: ((Zpos (XO (XI (XI
    (XI (XI (XO (XI (XO (XO (XO (XI (XO (XO (XO (XO (XI (XO (XO (XI (XO (XI
    (XI (XI (XO (XI (XO (XI (XI (XI
    XH)))))))))))))))))))))))))))))) :: ((Zpos (XO (XI (XI (XI (XI (XI (XO
    (XI (XI (XI (XO (XO (XO (XO (XI (XO (XI (XI (XO (XO (XI (XI (XI (XO (XI
    (XO (XI (XI (XI XH)))))))))))))))))))))))))))))) :: ((Zpos (XI (XI (XI
    (XI (XI (XO (XI (XO (XO (XO (XI (XO (XO (XO (XO (XO (XO (XI (XO (XO (XI
    (XI (XI (XO (XI (XO (XI (XI (XI
    XH)))))))))))))))))))))))))))))) :: ((Zpos (XO (XI (XI (XI (XI (XI (XO
    (XO (XO (XI (XI (XO (XO (XO (XI (XI (XO (XO (XO (XO (XI (XI (XI (XO (XI
    (XO (XI (XI (XI XH)))))))))))))))))))))))))))))) :: ((Zpos (XO (XO (XI
    (XI (XI (XO (XI (XO (XI (XO (XO (XI (XO (XO (XO (XI (XI (XI (XI (XI (XO
    (XI (XI (XO (XI (XO (XI (XI (XI
    XH)))))))))))))))))))))))))))))) :: ((Zpos (XO (XI (XI (XO (XI (XI (XO
    (XI (XI (XO (XI (XI (XO (XO (XI (XO (XO (XI (XI (XI (XO (XI (XI (XO (XI
    (XO (XI (XI (XI XH)))))))))))))))))))))))))))))) :: ((Zpos (XI (XI (XO
    (XI (XO (XO (XI (XO (XI (XI (XO (XO (XI (XO (XO (XO (XI (XO (XI (XI (XO
    (XI (XI (XO (XI (XO (XI (XI (XI
    XH)))))))))))))))))))))))))))))) :: ((Zpos (XO (XI (XO (XI (XI (XO (XO
    (XO (XO (XI (XO (XI (XI (XO (XI (XI (XI (XI (XO (XI (XO (XI (XI (XO (XI
    (XO (XI (XI (XI XH)))))))))))))))))))))))))))))) :: ((Zpos (XI (XI (XO
    (XO (XO (XI (XO (XO (XO (XI (XO (XO (XO (XI (XO (XI (XO (XI (XO (XI (XO
    (XI (XI (XO (XI (XO (XI (XI (XI
    XH)))))))))))))))))))))))))))))) :: ((Zpos (XI (XI (XO (XO (XO (XI (XI
    (XO (XI (XI (XO (XI (XO (XI (XI (XO (XI (XO (XO (XI (XO (XI (XI (XO (XI
    (XO (XI (XI (XI XH)))))))))))))))))))))))))))))) :: ((Zpos (XI (XO (XO
    (XI (XI (XO (XI (XI (XI (XO (XI (XO (XI (XI (XO (XO (XO (XO (XO (XI (XO
    (XI (XI (XO (XI (XO (XI (XI (XI
    XH)))))))))))))))))))))))))))))) :: ((Zpos (XI (XO (XI (XO (XO (XO (XO
    (XI (XI (XO (XO (XO (XO (XO (XO (XO (XI (XI (XI (XO (XO (XI (XI (XO (XI
    (XO (XI (XI (XI XH)))))))))))))))))))))))))))))) :: ((Zpos (XI (XO (XI
    (XO (XO (XI (XI (XO (XO (XI (XI (XI (XO (XO (XI (XI (XI (XO (XI (XO (XO
    (XI (XI (XO (XI (XO (XI (XI (XI
    XH)))))))))))))))))))))))))))))) :: ((Zpos (XI (XI (XI (XO (XI (XI (XI
    (XO (XO (XO (XI (XI (XI (XO (XO (XI (XO (XO (XI (XO (XO (XI (XI (XO (XI
    (XO (XI (XI (XI XH)))))))))))))))))))))))))))))) :: ((Zpos (XI (XI (XO
    (XI (XI (XI (XO (XI (XI (XI (XO (XI (XO (XI (XI (XO (XI (XI (XO (XO (XO
    (XI (XI (XO (XI (XO (XI (XI (XI
    XH)))))))))))))))))))))))))))))) :: ((Zpos (XO (XO (XO (XO (XI (XI (XO
    (XO (XO (XO (XI (XI (XI (XI (XO (XO (XO (XI (XO (XO (XO (XI (XI (XO (XI
    (XO (XI (XI (XI XH)))))))))))))))))))))))))))))) :: ((Zpos (XO (XO (XI
    (XO (XI (XO (XI (XI (XI (XO (XI (XI (XO (XO (XO (XO (XI (XO (XO (XO (XO
    (XI (XI (XO (XI (XO (XI (XI (XI
    XH)))))))))))))))))))))))))))))) :: ((Zpos (XO (XI (XI (XO (XO (XI (XO
    (XI (XO (XO (XO (XO (XO (XI (XI (XI (XI (XI (XI (XI (XI (XO (XI (XO (XI
    (XO (XI (XI (XI XH)))))))))))))))))))))))))))))) :: ((Zpos (XO (XO (XI
    (XO (XO (XI (XO (XI (XO (XO (XI (XO (XI (XI (XO (XI (XO (XI (XI (XI (XI
    (XO (XI (XO (XI (XO (XI (XI (XI
    XH)))))))))))))))))))))))))))))) :: ((Zpos (XI (XI (XI (XI (XO (XO (XI
    (XI (XI (XO (XO (XI (XO (XO (XO (XI (XI (XO (XI (XI (XI (XO (XI (XO (XI
    (XO (XI (XI (XI XH)))))))))))))))))))))))))))))) :: ((Zpos (XO (XO (XI
    (XO (XO (XI (XO (XO (XO (XO (XO (XO (XO (XI (XI (XO (XO (XO (XI (XI (XI
    (XO (XI (XO (XI (XO (XI (XI (XI
    XH)))))))))))))))))))))))))))))) :: ((Zpos (XO (XI (XO (XO (XO (XI (XO
    (XI (XI (XI (XI (XO (XI (XI (XO (XO (XI (XI (XO (XI (XI (XO (XI (XO (XI
    (XO (XI (XI (XI XH)))))))))))))))))))))))))))))) :: ((Zpos (XI (XO (XO
    (XI (XO (XO (XI (XO (XO (XO (XO (XO (XI (XO (XO (XO (XO (XI (XO (XI (XI
    (XO (XI (XO (XI (XO (XI (XI (XI
    XH)))))))))))))))))))))))))))))) :: ((Zpos (XI (XI (XI (XO (XI (XO (XO
    (XO (XO (XI (XO (XI (XO (XI (XI (XI (XO (XO (XO (XI (XI (XO (XI (XO (XI
    (XO (XI (XI (XI XH)))))))))))))))))))))))))))))) :: ((Zpos (XO (XI (XO
    (XI (XO (XO (XO (XO (XI (XO (XI (XO (XO (XO (XI (XI (XI (XI (XI (XO (XI
    (XO (XI (XO (XI (XO (XI (XI (XI
    XH)))))))))))))))))))))))))))))) :: ((Zpos (XI (XI (XO (XO (XO (XI (XO
    (XO (XI (XO (XO (XO (XO (XI (XO (XI (XO (XI (XI (XO (XI (XO (XI (XO (XI
    (XO (XI (XI (XI XH)))))))))))))))))))))))))))))) :: ((Zpos (XI (XI (XI
    (XI (XI (XO (XI (XO (XO (XI (XI (XI (XI (XI (XI (XO (XI (XO (XI (XO (XI
    (XO (XI (XO (XI (XO (XI (XI (XI
    XH)))))))))))))))))))))))))))))) :: ((Zpos (XI (XO (XI (XI (XI (XI (XO
    (XI (XO (XO (XI (XI (XI (XO (XI (XO (XO (XO (XI (XO (XI (XO (XI (XO (XI
    (XO (XI (XI (XI XH)))))))))))))))))))))))))))))) :: ((Zpos (XI (XO (XI
    (XI (XI (XI (XO (XO (XO (XO (XI (XI (XI (XI (XO (XO (XI (XI (XO (XO (XI
    (XO (XI (XO (XI (XO (XI (XI (XI
    XH)))))))))))))))))))))))))))))) :: ((Zpos (XI (XO (XI (XI (XI (XO (XI
    (XI (XO (XO (XI (XI (XI (XO (XO (XO (XO (XI (XO (XO (XI (XO (XI (XO (XI
    (XO (XI (XI (XI XH)))))))))))))))))))))))))))))) :: ((Zpos (XO (XO (XI
    (XI (XI (XO (XO (XI (XO (XI (XI (XI (XI (XI (XI (XI (XO (XO (XO (XO (XI
    (XO (XI (XO (XI (XO (XI (XI (XI
    XH)))))))))))))))))))))))))))))) :: ((Zpos (XI (XO (XO (XI (XI (XI (XI
    (XO (XI (XO (XO (XO (XO (XI (XI (XI (XI (XI (XI (XI (XO (XO (XI (XO (XI
    (XO (XI (XI (XI XH)))))))))))))))))))))))))))))) :: ((Zpos (XI (XI (XO
    (XO (XI (XI (XI (XO (XI (XO (XI (XO (XO (XO (XI (XI (XO (XI (XI (XI (XO
    (XO (XI (XO (XI (XO (XI (XI (XI
    XH)))))))))))))))))))))))))))))) :: ((Zpos (XI (XO (XO (XI (XO (XO (XO
    (XI (XO (XI (XO (XI (XO (XI (XO (XI (XI (XO (XI (XI (XO (XO (XI (XO (XI
    (XO (XI (XI (XI XH)))))))))))))))))))))))))))))) :: ((Zpos (XI (XO (XO
    (XI (XI (XI (XO (XI (XO (XO (XO (XO (XI (XO (XO (XI (XO (XO (XI (XI (XO
    (XO (XI (XO (XI (XO (XI (XI (XI
    XH)))))))))))))))))))))))))))))) :: ((Zpos (XI (XI (XO (XO (XO (XO (XO
    (XO (XO (XO (XO (XI (XI (XI (XI (XO (XI (XI (XO (XI (XO (XO (XI (XO (XI
    (XO (XI (XI (XI XH)))))))))))))))))))))))))))))) :: ((Zpos (XI (XO (XI
    (XO (XO (XI (XI (XO (XO (XO (XO (XO (XO (XI (XI (XO (XO (XI (XO (XI (XO
    (XO (XI (XO (XI (XO (XI (XI (XI
    XH)))))))))))))))))))))))))))))) :: ((Zpos (XI (XI (XI (XI (XI (XO (XI
    (XI (XI (XO (XO (XI (XO (XO (XI (XO (XI (XO (XO (XI (XO (XO (XI (XO (XI
    (XO (XI (XI (XI XH)))))))))))))))))))))))))))))) :: ((Zpos (XI (XI (XI
    (XI (XO (XI (XI (XO (XO (XO (XI (XO (XI (XI (XO (XO (XO (XO (XO (XI (XO
    (XO (XI (XO (XI (XO (XI (XI (XI
    XH)))))))))))))))))))))))))))))) :: ((Zpos (XO (XO (XI (XO (XI (XO (XO
    (XO (XO (XO (XO (XO (XO (XI (XO (XO (XI (XI (XI (XO (XO (XO (XI (XO (XI
    (XO (XI (XI (XI XH)))))))))))))))))))))))))))))) :: ((Zpos (XI (XO (XI
    (XI (XO (XO (XI (XI (XO (XO (XI (XI (XO (XO (XO (XO (XO (XI (XI (XO (XO
    (XO (XI (XO (XI (XO (XI (XI (XI
    XH)))))))))))))))))))))))))))))) :: ((Zpos (XI (XO (XO (XI (XI (XO (XO
    (XI (XO (XI (XO (XI (XI (XI (XI (XI (XO (XO (XI (XO (XO (XO (XI (XO (XI
    (XO (XI (XI (XI XH)))))))))))))))))))))))))))))) :: ((Zpos (XO (XO (XO
    (XI (XI (XI (XI (XO (XI (XO (XO (XI (XO (XI (XI (XI (XI (XI (XO (XO (XO
    (XO (XI (XO (XI (XO (XI (XI (XI
    XH)))))))))))))))))))))))))))))) :: ((Zpos (XI (XI (XI (XO (XO (XI (XI
    (XO (XI (XO (XO (XI (XI (XO (XI (XI (XO (XI (XO (XO (XO (XO (XI (XO (XI
    (XO (XI (XI (XI XH)))))))))))))))))))))))))))))) :: ((Zpos (XI (XO (XI
    (XO (XO (XI (XI (XO (XO (XI (XO (XI (XO (XO (XI (XI (XI (XO (XO (XO (XO
    (XO (XI (XO (XI (XO (XI (XI (XI
    XH)))))))))))))))))))))))))))))) :: ((Zpos (XI (XI (XO (XO (XI (XI (XI
    (XO (XO (XO (XI (XI (XI (XI (XO (XI (XO (XO (XO (XO (XO (XO (XI (XO (XI
    (XO (XI (XI (XI XH)))))))))))))))))))))))))))))) :: ((Zpos (XO (XI (XI
    (XI (XO (XO (XO (XI (XI (XI (XI (XI (XO (XI (XO (XI (XI (XI (XI (XI (XI
    (XI (XO (XO (XI (XO (XI (XI (XI
    XH)))))))))))))))))))))))))))))) :: ((Zpos (XO (XI (XI (XO (XI (XI (XO
    (XI (XI (XI (XO (XO (XO (XI (XO (XI (XO (XI (XI (XI (XI (XI (XO (XO (XI
    (XO (XI (XI (XI XH)))))))))))))))))))))))))))))) :: ((Zpos (XI (XO (XO
    (XI (XO (XI (XI (XI (XO (XO (XO (XI (XI (XO (XO (XI (XI (XO (XI (XI (XI
    (XI (XO (XO (XI (XO (XI (XI (XI
    XH)))))))))))))))))))))))))))))) :: ((Zpos (XI (XI (XI (XO (XO (XI (XO
    (XO (XI (XI (XI (XI (XO (XO (XO (XI (XO (XO (XI (XI (XI (XI (XO (XO (XI
    (XO (XI (XI (XI XH)))))))))))))))))))))))))))))) :: ((Zpos (XI (XI (XI
    (XI (XO (XI (XI (XO (XO (XI (XI (XO (XO (XO (XO (XI (XI (XI (XO (XI (XI
    (XI (XO (XO (XI (XO (XI (XI (XI
    XH)))))))))))))))))))))))))))))) :: ((Zpos (XI (XI (XI (XI (XI (XI (XO
    (XI (XO (XI (XI (XI (XI (XI (XI (XO (XO (XI (XO (XI (XI (XI (XO (XO (XI
    (XO (XI (XI (XI XH)))))))))))))))))))))))))))))) :: ((Zpos (XO (XI (XI
    (XO (XI (XO (XO (XO (XO (XO (XO (XI (XI (XI (XI (XO (XI (XO (XO (XI (XI
    (XI (XO (XO (XI (XO (XI (XI (XI
    XH)))))))))))))))))))))))))))))) :: ((Zpos (XO (XO (XI (XO (XI (XI (XI
    (XO (XO (XI (XO (XO (XI (XI (XI (XO (XO (XO (XO (XI (XI (XI (XO (XO (XI
    (XO (XI (XI (XI XH)))))))))))))))))))))))))))))) :: ((Zpos (XI (XI (XI
    (XO (XI (XO (XI (XI (XI (XO (XI (XI (XO (XI (XI (XO (XI (XI (XI (XO (XI
    (XI (XO (XO (XI (XO (XI (XI (XI
    XH)))))))))))))))))))))))))))))) :: ((Zpos (XO (XI (XI (XI (XI (XI (XO
    (XO (XO (XI (XO (XI (XO (XI (XI (XO (XO (XI (XI (XO (XI (XI (XO (XO (XI
    (XO (XI (XI (XI XH)))))))))))))))))))))))))))))) :: ((Zpos (XI (XO (XO
    (XI (XO (XI (XO (XI (XI (XI (XI (XO (XO (XI (XI (XO (XI (XO (XI (XO (XI
    (XI (XO (XO (XI (XO (XI (XI (XI
    XH)))))))))))))))))))))))))))))) :: ((Zpos (XO (XI (XI (XO (XI (XO (XO
    (XO (XO (XI (XI (XO (XO (XI (XI (XO (XO (XO (XI (XO (XI (XI (XO (XO (XI
    (XO (XI (XI (XI XH)))))))))))))))))))))))))))))) :: ((Zpos (XI (XO (XI
    (XO (XO (XO (XO (XI (XI (XO (XI (XO (XO (XI (XI (XO (XI (XI (XO (XO (XI
    (XI (XO (XO (XI (XO (XI (XI (XI
    XH)))))))))))))))))))))))))))))) :: ((Zpos (XO (XO (XI (XO (XI (XI (XI
    (XI (XI (XO (XI (XO (XO (XI (XI (XO (XO (XI (XO (XO (XI (XI (XO (XO (XI
    (XO (XI (XI (XI XH)))))))))))))))))))))))))))))) :: ((Zpos (XO (XI (XO
    (XO (XO (XI (XI (XO (XI (XI (XI (XO (XO (XI (XI (XO (XI (XO (XO (XO (XI
    (XI (XO (XO (XI (XO (XI (XI (XI
    XH)))))))))))))))))))))))))))))) :: ((Zpos (XO (XI (XI (XI (XO (XO (XI
    (XI (XI (XO (XO (XI (XO (XI (XI (XO (XO (XO (XO (XO (XI (XI (XO (XO (XI
    (XO (XI (XI (XI XH)))))))))))))))))))))))))))))) :: ((Zpos (XO (XO (XO
    (XI (XI (XI (XO (XO (XI (XO (XI (XI (XO (XI (XI (XO (XI (XI (XI (XI (XO
    (XI (XO (XO (XI (XO (XI (XI (XI
    XH)))))))))))))))))))))))))))))) :: ((Zpos (XO (XI (XI (XI (XI (XO (XO
    (XI (XI (XO (XO (XO (XI (XI (XI (XO (XO (XI (XI (XI (XO (XI (XO (XO (XI
    (XO (XI (XI (XI XH)))))))))))))))))))))))))))))) :: ((Zpos (XI (XI (XI
    (XI (XI (XI (XI (XI (XO (XI (XI (XO (XI (XI (XI (XO (XI (XO (XI (XI (XO
    (XI (XO (XO (XI (XO (XI (XI (XI
    XH)))))))))))))))))))))))))))))) :: ((Zpos (XI (XI (XO (XI (XI (XO (XI
    (XO (XI (XO (XI (XI (XI (XI (XI (XO (XO (XO (XI (XI (XO (XI (XO (XO (XI
    (XO (XI (XI (XI XH)))))))))))))))))))))))))))))) :: ((Zpos (XI (XO (XO
    (XO (XI (XI (XO (XI (XO (XO (XI (XO (XO (XO (XO (XI (XI (XI (XO (XI (XO
    (XI (XO (XO (XI (XO (XI (XI (XI
    XH)))))))))))))))))))))))))))))) :: ((Zpos (XO (XI (XI (XI (XI (XI (XI
    (XI (XO (XO (XI (XI (XO (XO (XO (XI (XO (XI (XO (XI (XO (XI (XO (XO (XI
    (XO (XI (XI (XI XH)))))))))))))))))))))))))))))) :: ((Zpos (XI (XI (XO
    (XO (XO (XO (XI (XO (XO (XI (XI (XO (XI (XO (XO (XI (XI (XO (XO (XI (XO
    (XI (XO (XO (XI (XO (XI (XI (XI
    XH)))))))))))))))))))))))))))))) :: ((Zpos (XI (XI (XI (XI (XI (XI (XI
    (XO (XO (XO (XO (XO (XO (XI (XO (XI (XO (XO (XO (XI (XO (XI (XO (XO (XI
    (XO (XI (XI (XI XH)))))))))))))))))))))))))))))) :: ((Zpos (XO (XO (XO
    (XO (XI (XI (XO (XI (XI (XI (XO (XI (XO (XI (XO (XI (XI (XI (XI (XO (XO
    (XI (XO (XO (XI (XO (XI (XI (XI
    XH)))))))))))))))))))))))))))))) :: ((Zpos (XO (XI (XI (XO (XI (XO (XI
    (XI (XI (XI (XI (XO (XI (XI (XO (XI (XO (XI (XI (XO (XO (XI (XO (XO (XI
    (XO (XI (XI (XI XH)))))))))))))))))))))))))))))) :: ((Zpos (XI (XI (XI
    (XI (XO (XI (XI (XI (XO (XO (XI (XO (XO (XO (XI (XI (XI (XO (XI (XO (XO
    (XI (XO (XO (XI (XO (XI (XI (XI
    XH)))))))))))))))))))))))))))))) :: ((Zpos (XI (XI (XO (XI (XI (XI (XI
    (XI (XO (XI (XO (XO (XI (XO (XI (XI (XO (XO (XI (XO (XO (XI (XO (XO (XI
    (XO (XI (XI (XI XH)))))))))))))))))))))))))))))) :: ((Zpos (XI (XO (XO
    (XI (XI (XI (XI (XI (XI (XO (XO (XO (XO (XI (XI (XI (XI (XI (XO (XO (XO
    (XI (XO (XO (XI (XO (XI (XI (XI
    XH)))))))))))))))))))))))))))))) :: ((Zpos (XI (XI (XI (XO (XO (XI (XI
    (XI (XI (XO (XO (XO (XI (XI (XI (XI (XO (XI (XO (XO (XO (XI (XO (XO (XI
    (XO (XI (XI (XI XH)))))))))))))))))))))))))))))) :: ((Zpos (XI (XO (XI
    (XO (XO (XO (XI (XI (XO (XI (XO (XO (XO (XO (XO (XO (XO (XI (XO (XO (XO
    (XI (XO (XO (XI (XO (XI (XI (XI
    XH)))))))))))))))))))))))))))))) :: ((Zpos (XI (XI (XO (XO (XI (XO (XO
    (XI (XO (XO (XI (XO (XI (XO (XO (XO (XI (XO (XO (XO (XO (XI (XO (XO (XI
    (XO (XI (XI (XI XH)))))))))))))))))))))))))))))) :: ((Zpos (XO (XI (XI
    (XI (XO (XO (XI (XO (XI (XI (XI (XO (XO (XI (XO (XO (XO (XO (XO (XO (XO
    (XI (XO (XO (XI (XO (XI (XI (XI
    XH)))))))))))))))))))))))))))))) :: ((Zpos (XO (XI (XI (XO (XI (XI (XI
    (XI (XO (XI (XO (XI (XI (XI (XO (XO (XI (XI (XI (XI (XI (XO (XO (XO (XI
    (XO (XI (XI (XI XH)))))))))))))))))))))))))))))) :: ((Zpos (XO (XI (XO
    (XI (XO (XO (XO (XI (XI (XI (XI (XI (XO (XO (XI (XO (XO (XI (XI (XI (XI
    (XO (XO (XO (XI (XO (XI (XI (XI
    XH)))))))))))))))))))))))))))))) :: ((Zpos (XO (XI (XO (XI (XO (XO (XO
    (XO (XI (XO (XI (XO (XO (XI (XI (XO (XI (XO (XI (XI (XI (XO (XO (XO (XI
    (XO (XI (XI (XI XH)))))))))))))))))))))))))))))) :: ((Zpos (XO (XO (XI
    (XO (XI (XI (XI (XO (XI (XI (XO (XI (XI (XI (XI (XO (XO (XO (XI (XI (XI
    (XO (XO (XO (XI (XO (XI (XI (XI
    XH)))))))))))))))))))))))))))))) :: ((Zpos (XI (XI (XI (XO (XO (XO (XI
    (XI (XO (XI (XO (XO (XI (XO (XO (XI (XI (XI (XO (XI (XI (XO (XO (XO (XI
    (XO (XI (XI (XI XH)))))))))))))))))))))))))))))) :: ((Zpos (XO (XI (XO
    (XO (XO (XO (XO (XO (XI (XI (XO (XI (XO (XI (XO (XI (XO (XI (XO (XI (XI
    (XO (XO (XO (XI (XO (XI (XI (XI
    XH)))))))))))))))))))))))))))))) :: ((Zpos (XI (XO (XI (XO (XO (XI (XO
    (XO (XO (XO (XI (XO (XO (XO (XI (XI (XI (XO (XO (XI (XI (XO (XO (XO (XI
    (XO (XI (XI (XI XH)))))))))))))))))))))))))))))) :: ((Zpos (XI (XI (XI
    (XI (XO (XI (XO (XO (XO (XI (XI (XI (XI (XO (XI (XI (XO (XO (XO (XI (XI
    (XO (XO (XO (XI (XO (XI (XI (XI
    XH)))))))))))))))))))))))))))))) :: ((Zpos (XI (XI (XI (XI (XI (XO (XO
    (XO (XI (XO (XO (XI (XI (XI (XI (XI (XI (XI (XI (XO (XI (XO (XO (XO (XI
    (XO (XI (XI (XI XH)))))))))))))))))))))))))))))) :: ((Zpos (XI (XI (XO
    (XO (XI (XI (XI (XI (XO (XO (XI (XO (XI (XO (XO (XO (XI (XI (XI (XO (XI
    (XO (XO (XO (XI (XO (XI (XI (XI
    XH)))))))))))))))))))))))))))))) :: ((Zpos (XI (XI (XO (XI (XO (XI (XO
    (XI (XI (XO (XO (XO (XI (XI (XO (XO (XO (XI (XI (XO (XI (XO (XO (XO (XI
    (XO (XI (XI (XI XH)))))))))))))))))))))))))))))) :: ((Zpos (XI (XI (XI
    (XO (XO (XO (XI (XO (XI (XI (XI (XI (XO (XO (XI (XO (XI (XO (XI (XO (XI
    (XO (XO (XO (XI (XO (XI (XI (XI
    XH)))))))))))))))))))))))))))))) :: ((Zpos (XO (XO (XI (XO (XO (XO (XI
    (XI (XI (XO (XI (XI (XO (XI (XI (XO (XO (XO (XI (XO (XI (XO (XO (XO (XI
    (XO (XI (XI (XI XH)))))))))))))))))))))))))))))) :: ((Zpos (XI (XI (XO
    (XO (XO (XI (XO (XO (XI (XO (XI (XI (XO (XO (XO (XI (XI (XI (XO (XO (XI
    (XO (XO (XO (XI (XO (XI (XI (XI
    XH)))))))))))))))))))))))))))))) :: ((Zpos (XO (XI (XO (XO (XO (XI (XI
    (XO (XI (XO (XI (XI (XO (XI (XO (XI (XO (XI (XO (XO (XI (XO (XO (XO (XI
    (XO (XI (XI (XI XH)))))))))))))))))))))))))))))) :: ((Zpos (XI (XO (XO
    (XO (XO (XO (XO (XI (XO (XI (XI (XI (XO (XO (XI (XI (XI (XO (XO (XO (XI
    (XO (XO (XO (XI (XO (XI (XI (XI
    XH)))))))))))))))))))))))))))))) :: ((Zpos (XO (XI (XI (XI (XI (XI (XI
    (XO (XO (XO (XO (XO (XI (XI (XI (XI (XO (XO (XO (XO (XI (XO (XO (XO (XI
    (XO (XI (XI (XI XH)))))))))))))))))))))))))))))) :: ((Zpos (XO (XI (XO
    (XI (XI (XO (XI (XO (XI (XI (XO (XO (XI (XO (XO (XO (XO (XO (XO (XO (XI
    (XO (XO (XO (XI (XO (XI (XI (XI
    XH)))))))))))))))))))))))))))))) :: ((Zpos (XO (XI (XO (XO (XI (XO (XO
    (XO (XI (XI (XI (XO (XI (XI (XO (XO (XI (XI (XI (XI (XO (XO (XO (XO (XI
    (XO (XI (XI (XI XH)))))))))))))))))))))))))))))) :: ((Zpos (XO (XI (XI
    (XO (XO (XI (XO (XI (XI (XI (XO (XI (XI (XO (XI (XO (XO (XI (XI (XI (XO
    (XO (XO (XO (XI (XO (XI (XI (XI
    XH)))))))))))))))))))))))))))))) :: ((Zpos (XI (XO (XI (XO (XI (XO (XO
    (XO (XI (XO (XO (XO (XO (XO (XO (XI (XI (XO (XI (XI (XO (XO (XO (XO (XI
    (XO (XI (XI (XI XH)))))))))))))))))))))))))))))) :: ((Zpos (XI (XI (XI
    (XI (XI (XO (XI (XO (XI (XI (XI (XO (XO (XI (XO (XI (XO (XO (XI (XI (XO
    (XO (XO (XO (XI (XO (XI (XI (XI
    XH)))))))))))))))))))))))))))))) :: ((Zpos (XO (XI (XO (XO (XO (XO (XO
    (XI (XO (XI (XI (XI (XO (XO (XI (XI (XI (XI (XO (XI (XO (XO (XO (XO (XI
    (XO (XI (XI (XI XH)))))))))))))))))))))))))))))) :: ((Zpos (XO (XI (XI
    (XI (XI (XI (XI (XO (XO (XI (XI (XO (XI (XI (XI (XI (XO (XI (XO (XI (XO
    (XO (XO (XO (XI (XO (XI (XI (XI
    XH)))))))))))))))))))))))))))))) :: ((Zpos (XO (XI (XO (XO (XI (XO (XI
    (XO (XI (XI (XI (XI (XI (XO (XO (XO (XO (XI (XO (XI (XO (XO (XO (XO (XI
    (XO (XI (XI (XI XH)))))))))))))))))))))))))))))) :: ((Zpos (XI (XO (XI
    (XI (XI (XI (XI (XI (XO (XO (XO (XI (XO (XO (XI (XO (XI (XO (XO (XI (XO
    (XO (XO (XO (XI (XO (XI (XI (XI
    XH)))))))))))))))))))))))))))))) :: ((Zpos (XI (XO (XI (XI (XI (XI (XI
    (XO (XI (XI (XO (XO (XI (XI (XI (XO (XO (XO (XO (XI (XO (XO (XO (XO (XI
    (XO (XI (XI (XI XH)))))))))))))))))))))))))))))) :: ((Zpos (XI (XI (XO
    (XO (XI (XO (XI (XI (XO (XI (XI (XI (XI (XO (XO (XI (XI (XI (XI (XO (XO
    (XO (XO (XO (XI (XO (XI (XI (XI
    XH)))))))))))))))))))))))))))))) :: ((Zpos (XO (XI (XI (XI (XI (XI (XI
    (XI (XO (XI (XO (XI (XO (XO (XI (XI (XO (XI (XI (XO (XO (XO (XO (XO (XI
    (XO (XI (XI (XI XH)))))))))))))))))))))))))))))) :: ((Zpos (XO (XO (XI
    (XI (XI (XI (XI (XI (XI (XI (XI (XO (XI (XI (XI (XI (XI (XO (XI (XO (XO
    (XO (XO (XO (XI (XO (XI (XI (XI
    XH)))))))))))))))))))))))))))))) :: ((Zpos (XI (XO (XI (XI (XO (XO (XI
    (XI (XI (XO (XI (XO (XO (XI (XO (XO (XI (XO (XI (XO (XO (XO (XO (XO (XI
    (XO (XI (XI (XI XH)))))))))))))))))))))))))))))) :: ((Zpos (XO (XO (XO
    (XO (XI (XI (XI (XO (XO (XO (XI (XO (XI (XO (XI (XO (XO (XO (XI (XO (XO
    (XO (XO (XO (XI (XO (XI (XI (XI
    XH)))))))))))))))))))))))))))))) :: ((Zpos (XO (XO (XI (XO (XO (XI (XI
    (XI (XI (XI (XO (XO (XO (XO (XO (XI (XI (XI (XO (XO (XO (XO (XO (XO (XI
    (XO (XI (XI (XI XH)))))))))))))))))))))))))))))) :: ((Zpos (XI (XO (XO
    (XI (XO (XI (XO (XO (XO (XO (XI (XO (XI (XI (XO (XI (XO (XI (XO (XO (XO
    (XO (XO (XO (XI (XO (XI (XI (XI
    XH)))))))))))))))))))))))))))))) :: ((Zpos (XI (XO (XI (XI (XI (XI (XO
    (XO (XI (XO (XI (XO (XO (XI (XI (XI (XI (XO (XO (XO (XO (XO (XO (XO (XI
    (XO (XI (XI (XI XH)))))))))))))))))))))))))))))) :: ((Zpos (XI (XI (XI
    (XI (XI (XO (XO (XO (XI (XI (XI (XO (XI (XO (XO (XO (XI (XO (XO (XO (XO
    (XO (XO (XO (XI (XO (XI (XI (XI
    XH)))))))))))))))))))))))))))))) :: ((Zpos (XO (XO (XO (XO (XI (XO (XI
    (XI (XI (XO (XO (XI (XO (XO (XI (XO (XO (XO (XO (XO (XO (XO (XO (XO (XI
    (XO (XI (XI (XI XH)))))))))))))))))))))))))))))) :: ((Zpos (XI (XI (XO
    (XI (XI (XO (XO (XI (XO (XI (XO (XI (XI (XI (XI (XI (XO (XI (XI (XI (XI
    (XI (XI (XI (XO (XO (XI (XI (XI
    XH)))))))))))))))))))))))))))))) :: ((Zpos (XI (XI (XI (XI (XO (XI (XO
    (XO (XI (XI (XO (XO (XO (XI (XI (XO (XI (XO (XI (XI (XI (XI (XI (XI (XO
    (XO (XI (XI (XI XH)))))))))))))))))))))))))))))) :: ((Zpos (XO (XI (XO
    (XI (XI (XO (XI (XO (XI (XO (XI (XI (XO (XO (XI (XI (XI (XI (XO (XI (XI
    (XI (XI (XI (XO (XO (XI (XI (XI
    XH)))))))))))))))))))))))))))))) :: ((Zpos (XI (XI (XO (XI (XI (XO (XO
    (XO (XI (XO (XO (XI (XI (XI (XO (XO (XO (XI (XO (XI (XI (XI (XI (XI (XO
    (XO (XI (XI (XI XH)))))))))))))))))))))))))))))) :: ((Zpos (XI (XI (XI
    (XI (XO (XI (XI (XO (XO (XI (XI (XO (XO (XI (XO (XI (XO (XO (XO (XI (XI
    (XI (XI (XI (XO (XO (XI (XI (XI
    XH)))))))))))))))))))))))))))))) :: ((Zpos (XO (XI (XI (XO (XI (XO (XI
    (XO (XI (XO (XI (XO (XI (XO (XO (XO (XI (XI (XI (XO (XI (XI (XI (XI (XO
    (XO (XI (XI (XI XH)))))))))))))))))))))))))))))) :: ((Zpos (XI (XO (XI
    (XI (XO (XO (XI (XI (XI (XO (XI (XO (XO (XO (XO (XI (XI (XO (XI (XO (XI
    (XI (XI (XI (XO (XO (XI (XI (XI
    XH)))))))))))))))))))))))))))))) :: ((Zpos (XO (XO (XI (XO (XI (XO (XI
    (XI (XI (XI (XI (XO (XI (XI (XI (XI (XI (XI (XO (XO (XI (XI (XI (XI (XO
    (XO (XI (XI (XI XH)))))))))))))))))))))))))))))) :: ((Zpos (XO (XO (XO
    (XI (XO (XI (XI (XO (XI (XI (XO (XI (XO (XI (XI (XO (XO (XI (XO (XO (XI
    (XI (XI (XI (XO (XO (XI (XI (XI
    XH)))))))))))))))))))))))))))))) :: ((Zpos (XO (XO (XO (XI (XO (XO (XO
    (XI (XO (XO (XO (XO (XO (XI (XI (XI (XO (XO (XO (XO (XI (XI (XI (XI (XO
    (XO (XI (XI (XI XH)))))))))))))))))))))))))))))) :: ((Zpos (XI (XI (XO
    (XO (XI (XI (XO (XO (XI (XI (XI (XO (XI (XO (XI (XO (XI (XI (XI (XI (XO
    (XI (XI (XI (XO (XO (XI (XI (XI
    XH)))))))))))))))))))))))))))))) :: ((Zpos (XO (XI (XI (XO (XO (XI (XI
    (XO (XI (XI (XI (XI (XO (XO (XI (XI (XI (XO (XI (XI (XO (XI (XI (XI (XO
    (XO (XI (XI (XI XH)))))))))))))))))))))))))))))) :: ((Zpos (XI (XO (XO
    (XO (XO (XI (XO (XO (XI (XO (XO (XI (XO (XO (XI (XO (XO (XO (XI (XI (XO
    (XI (XI (XI (XO (XO (XI (XI (XI
    XH)))))))))))))))))))))))))))))) :: ((Zpos (XO (XI (XO (XO (XO (XI (XI
    (XO (XO (XO (XI (XO (XO (XO (XI (XI (XO (XI (XO (XI (XO (XI (XI (XI (XO
    (XO (XI (XI (XI XH)))))))))))))))))))))))))))))) :: ((Zpos (XI (XI (XI
    (XO (XO (XI (XO (XO (XI (XO (XO (XO (XO (XO (XI (XO (XI (XO (XO (XI (XO
    (XI (XI (XI (XO (XO (XI (XI (XI
    XH)))))))))))))))))))))))))))))) :: ((Zpos (XI (XI (XI (XI (XO (XI (XI
    (XO (XI (XI (XI (XI (XI (XI (XO (XI (XI (XI (XI (XO (XO (XI (XI (XI (XO
    (XO (XI (XI (XI XH)))))))))))))))))))))))))))))) :: ((Zpos (XI (XO (XO
    (XI (XI (XI (XO (XO (XI (XI (XI (XI (XI (XI (XO (XO (XO (XI (XI (XO (XO
    (XI (XI (XI (XO (XO (XI (XI (XI
    XH)))))))))))))))))))))))))))))) :: ((Zpos (XO (XI (XO (XO (XO (XO (XO
    (XI (XO (XO (XO (XO (XO (XO (XI (XI (XO (XO (XI (XO (XO (XI (XI (XI (XO
    (XO (XI (XI (XI XH)))))))))))))))))))))))))))))) :: ((Zpos (XO (XI (XO
    (XI (XO (XO (XI (XO (XI (XI (XO (XO (XO (XO (XI (XO (XI (XI (XO (XO (XO
    (XI (XI (XI (XO (XO (XI (XI (XI
    XH)))))))))))))))))))))))))))))) :: ((Zpos (XO (XI (XI (XI (XO (XO (XO
    (XI (XI (XI (XI (XO (XO (XO (XI (XI (XI (XO (XO (XO (XO (XI (XI (XI (XO
    (XO (XI (XI (XI XH)))))))))))))))))))))))))))))) :: ((Zpos (XO (XI (XI
    (XI (XO (XO (XI (XO (XI (XO (XI (XI (XO (XO (XI (XO (XO (XO (XO (XO (XO
    (XI (XI (XI (XO (XO (XI (XI (XI
    XH)))))))))))))))))))))))))))))) :: ((Zpos (XO (XO (XO (XI (XO (XO (XO
    (XI (XO (XO (XI (XO (XI (XO (XI (XI (XO (XI (XI (XI (XI (XO (XI (XI (XO
    (XO (XI (XI (XI XH)))))))))))))))))))))))))))))) :: ((Zpos (XO (XI (XO
    (XI (XI (XI (XO (XO (XI (XO (XI (XI (XI (XO (XI (XO (XI (XO (XI (XI (XI
    (XO (XI (XI (XO (XO (XI (XI (XI
    XH)))))))))))))))))))))))))))))) :: ((Zpos (XI (XI (XO (XO (XO (XI (XI
    (XO (XI (XI (XI (XO (XO (XI (XI (XI (XI (XI (XO (XI (XI (XO (XI (XI (XO
    (XO (XI (XI (XI XH)))))))))))))))))))))))))))))) :: ((Zpos (XI (XO (XO
    (XO (XO (XO (XO (XO (XI (XI (XO (XO (XI (XI (XI (XO (XO (XI (XO (XI (XI
    (XO (XI (XI (XO (XO (XI (XI (XI
    XH)))))))))))))))))))))))))))))) :: ((Zpos (XO (XO (XI (XO (XI (XO (XO
    (XO (XO (XO (XO (XO (XO (XO (XO (XO (XI (XO (XO (XI (XI (XO (XI (XI (XO
    (XO (XI (XI (XI XH)))))))))))))))))))))))))))))) :: ((Zpos (XI (XO (XO
    (XI (XI (XO (XO (XI (XO (XI (XI (XI (XO (XO (XO (XI (XI (XI (XI (XO (XI
    (XO (XI (XI (XO (XO (XI (XI (XI
    XH)))))))))))))))))))))))))))))) :: ((Zpos (XI (XI (XI (XI (XO (XO (XO
    (XI (XO (XI (XI (XI (XI (XO (XO (XO (XO (XI (XI (XO (XI (XO (XI (XI (XO
    (XO (XI (XI (XI XH)))))))))))))))))))))))))))))) :: ((Zpos (XI (XO (XI
    (XO (XI (XI (XI (XI (XI (XI (XI (XI (XO (XI (XO (XI (XO (XO (XI (XO (XI
    (XO (XI (XI (XO (XO (XI (XI (XI
    XH)))))))))))))))))))))))))))))) :: ((Zpos (XI (XO (XO (XI (XO (XO (XI
    (XI (XO (XI (XO (XO (XO (XO (XI (XO (XI (XI (XO (XO (XI (XO (XI (XI (XO
    (XO (XI (XI (XI XH)))))))))))))))))))))))))))))) :: ((Zpos (XO (XI (XO
    (XI (XO (XO (XO (XO (XI (XI (XI (XO (XI (XO (XI (XI (XI (XO (XO (XO (XI
    (XO (XI (XI (XO (XO (XI (XI (XI
    XH)))))))))))))))))))))))))))))) :: ((Zpos (XO (XI (XI (XO (XI (XI (XO
    (XI (XO (XO (XI (XI (XO (XI (XI (XO (XO (XO (XO (XO (XI (XO (XI (XI (XO
    (XO (XI (XI (XI XH)))))))))))))))))))))))))))))) :: ((Zpos (XI (XO (XI
    (XI (XO (XO (XI (XI (XI (XI (XO (XO (XO (XO (XO (XO (XI (XI (XI (XI (XO
    (XO (XI (XI (XO (XO (XI (XI (XI
    XH)))))))))))))))))))))))))))))) :: ((Zpos (XO (XO (XI (XI (XO (XO (XI
    (XO (XO (XO (XI (XI (XI (XO (XO (XI (XI (XO (XI (XI (XO (XO (XI (XI (XO
    (XO (XI (XI (XI XH)))))))))))))))))))))))))))))) :: ((Zpos (XO (XI (XO
    (XO (XI (XI (XO (XO (XO (XI (XI (XO (XI (XI (XO (XO (XO (XO (XI (XI (XO
    (XO (XI (XI (XO (XO (XI (XI (XI
    XH)))))))))))))))))))))))))))))) :: ((Zpos (XI (XO (XI (XI (XI (XI (XI
    (XO (XI (XO (XO (XO (XI (XO (XI (XI (XO (XI (XO (XI (XO (XO (XI (XI (XO
    (XO (XI (XI (XI XH)))))))))))))))))))))))))))))) :: ((Zpos (XI (XO (XI
    (XI (XO (XI (XO (XO (XO (XI (XI (XI (XO (XI (XI (XO (XI (XO (XO (XI (XO
    (XO (XI (XI (XO (XO (XI (XI (XI
    XH)))))))))))))))))))))))))))))) :: ((Zpos (XI (XO (XO (XO (XO (XO (XI
    (XO (XO (XO (XI (XI (XO (XO (XO (XO (XO (XO (XO (XI (XO (XO (XI (XI (XO
    (XO (XI (XI (XI XH)))))))))))))))))))))))))))))) :: ((Zpos (XI (XO (XI
    (XO (XI (XI (XO (XI (XI (XI (XO (XI (XO (XI (XO (XI (XO (XI (XI (XO (XO
    (XO (XI (XI (XO (XO (XI (XI (XI
    XH)))))))))))))))))))))))))))))) :: ((Zpos (XO (XI (XO (XI (XO (XO (XO
    (XI (XO (XO (XI (XI (XO (XO (XI (XO (XI (XO (XI (XO (XO (XO (XI (XI (XO
    (XO (XI (XI (XI XH)))))))))))))))))))))))))))))) :: ((Zpos (XO (XI (XI
    (XI (XI (XI (XO (XI (XO (XI (XI (XI (XO (XI (XI (XI (XI (XI (XO (XO (XO
    (XO (XI (XI (XO (XO (XI (XI (XI
    XH)))))))))))))))))))))))))))))) :: ((Zpos (XI (XI (XI (XI (XO (XO (XI
    (XO (XO (XI (XO (XO (XI (XO (XO (XI (XO (XI (XO (XO (XO (XO (XI (XI (XO
    (XO (XI (XI (XI XH)))))))))))))))))))))))))))))) :: ((Zpos (XO (XO (XI
    (XI (XI (XI (XO (XO (XI (XI (XI (XO (XI (XI (XO (XO (XI (XO (XO (XO (XO
    (XO (XI (XI (XO (XO (XI (XI (XI
    XH)))))))))))))))))))))))))))))) :: ((Zpos (XO (XO (XI (XO (XO (XO (XO
    (XI (XI (XO (XI (XI (XI (XO (XI (XI (XI (XI (XI (XI (XI (XI (XO (XI (XO
    (XO (XI (XI (XI XH)))))))))))))))))))))))))))))) :: ((Zpos (XO (XI (XI
    (XO (XO (XI (XO (XO (XI (XO (XI (XO (XO (XO (XO (XI (XO (XI (XI (XI (XI
    (XI (XO (XI (XO (XO (XI (XI (XI
    XH)))))))))))))))))))))))))))))) :: ((Zpos (XI (XI (XI (XI (XI (XO (XO
    (XO (XO (XI (XI (XI (XO (XI (XO (XO (XI (XO (XI (XI (XI (XI (XO (XI (XO
    (XO (XI (XI (XI XH)))))))))))))))))))))))))))))) :: ((Zpos (XI (XI (XI
    (XI (XO (XI (XI (XO (XO (XO (XO (XI (XI (XO (XI (XI (XI (XI (XO (XI (XI
    (XI (XO (XI (XO (XO (XI (XI (XI
    XH)))))))))))))))))))))))))))))) :: ((Zpos (XI (XO (XI (XO (XI (XO (XO
    (XO (XO (XO (XI (XO (XO (XO (XO (XI (XO (XI (XO (XI (XI (XI (XO (XI (XO
    (XO (XI (XI (XI XH)))))))))))))))))))))))))))))) :: ((Zpos (XO (XI (XI
    (XI (XO (XO (XO (XO (XI (XO (XO (XO (XI (XI (XO (XO (XI (XO (XO (XI (XI
    (XI (XO (XI (XO (XO (XI (XI (XI
    XH)))))))))))))))))))))))))))))) :: ((Zpos (XO (XI (XO (XI (XI (XO (XI
    (XO (XI (XI (XI (XI (XI (XO (XI (XI (XI (XI (XI (XO (XI (XI (XO (XI (XO
    (XO (XI (XI (XI XH)))))))))))))))))))))))))))))) :: ((Zpos (XO (XO (XO
    (XI (XI (XI (XI (XI (XO (XI (XI (XI (XO (XO (XO (XI (XO (XI (XI (XO (XI
    (XI (XO (XI (XO (XO (XI (XI (XI
    XH)))))))))))))))))))))))))))))) :: ((Zpos (XI (XO (XI (XO (XO (XI (XI
    (XI (XI (XI (XI (XI (XI (XI (XO (XO (XI (XO (XI (XO (XI (XI (XO (XI (XO
    (XO (XI (XI (XI XH)))))))))))))))))))))))))))))) :: ((Zpos (XO (XI (XO
    (XO (XO (XI (XO (XO (XO (XI (XO (XO (XI (XI (XI (XI (XI (XI (XO (XO (XI
    (XI (XO (XI (XO (XO (XI (XI (XI
    XH)))))))))))))))))))))))))))))) :: ((Zpos (XI (XI (XO (XI (XO (XI (XO
    (XI (XI (XO (XI (XO (XO (XI (XO (XI (XO (XI (XO (XO (XI (XI (XO (XI (XO
    (XO (XI (XI (XI XH)))))))))))))))))))))))))))))) :: ((Zpos (XI (XO (XO
    (XO (XO (XO (XO (XI (XO (XI (XO (XI (XI (XO (XI (XO (XI (XO (XO (XO (XI
    (XI (XO (XI (XO (XO (XI (XI (XI
    XH)))))))))))))))))))))))))))))) :: ((Zpos (XO (XI (XO (XO (XO (XI (XO
    (XI (XO (XO (XO (XO (XI (XO (XO (XO (XO (XO (XO (XO (XI (XI (XO (XI (XO
    (XO (XI (XI (XI XH)))))))))))))))))))))))))))))) :: ((Zpos (XO (XO (XI
    (XI (XO (XO (XO (XO (XO (XO (XO (XI (XO (XO (XI (XI (XO (XI (XI (XI (XO
    (XI (XO (XI (XO (XO (XI (XI (XI
    XH)))))))))))))))))))))))))))))) :: ((Zpos (XI (XI (XI (XI (XI (XI (XO
    (XI (XO (XO (XO (XO (XO (XO (XO (XI (XI (XO (XI (XI (XO (XI (XO (XI (XO
    (XO (XI (XI (XI XH)))))))))))))))))))))))))))))) :: ((Zpos (XO (XO (XO
    (XI (XI (XI (XO (XI (XO (XI (XO (XI (XI (XI (XO (XO (XO (XO (XI (XI (XO
    (XI (XO (XI (XO (XO (XI (XI (XI
    XH)))))))))))))))))))))))))))))) :: ((Zpos (XO (XO (XO (XI (XI (XI (XI
    (XI (XI (XO (XI (XO (XI (XI (XI (XI (XO (XI (XO (XI (XO (XI (XO (XI (XO
    (XO (XI (XI (XI XH)))))))))))))))))))))))))))))) :: ((Zpos (XI (XI (XO
    (XI (XI (XI (XI (XO (XO (XI (XO (XO (XI (XI (XO (XI (XI (XO (XO (XI (XO
    (XI (XO (XI (XO (XO (XI (XI (XI
    XH)))))))))))))))))))))))))))))) :: ((Zpos (XO (XI (XO (XO (XO (XO (XI
    (XO (XO (XO (XO (XO (XI (XI (XI (XO (XO (XO (XO (XI (XO (XI (XO (XI (XO
    (XO (XI (XI (XI XH)))))))))))))))))))))))))))))) :: ((Zpos (XI (XI (XO
    (XI (XO (XO (XI (XO (XI (XI (XI (XI (XO (XI (XO (XO (XI (XI (XI (XO (XO
    (XI (XO (XI (XO (XO (XI (XI (XI
    XH)))))))))))))))))))))))))))))) :: ((Zpos (XO (XO (XI (XO (XI (XO (XO
    (XI (XI (XI (XI (XI (XO (XI (XI (XI (XI (XO (XI (XO (XO (XI (XO (XI (XO
    (XO (XI (XI (XI XH)))))))))))))))))))))))))))))) :: ((Zpos (XI (XO (XI
    (XI (XI (XO (XO (XO (XI (XO (XO (XO (XI (XI (XO (XI (XO (XO (XI (XO (XO
    (XI (XO (XI (XO (XO (XI (XI (XI
    XH)))))))))))))))))))))))))))))) :: ((Zpos (XO (XO (XI (XO (XO (XI (XI
    (XI (XI (XI (XO (XO (XI (XI (XI (XO (XI (XI (XO (XO (XO (XI (XO (XI (XO
    (XO (XI (XI (XI XH)))))))))))))))))))))))))))))) :: ((Zpos (XO (XO (XO
    (XI (XO (XI (XI (XI (XI (XI (XI (XO (XI (XI (XO (XO (XO (XI (XO (XO (XO
    (XI (XO (XI (XO (XO (XI (XI (XI
    XH)))))))))))))))))))))))))))))) :: ((Zpos (XO (XO (XO (XI (XO (XI (XO
    (XO (XI (XO (XI (XI (XI (XI (XI (XI (XO (XO (XO (XO (XO (XI (XO (XI (XO
    (XO (XI (XI (XI XH)))))))))))))))))))))))))))))) :: ((Zpos (XO (XI (XO
    (XO (XO (XI (XO (XI (XI (XI (XO (XO (XO (XO (XI (XI (XI (XI (XI (XI (XI
    (XO (XO (XI (XO (XO (XI (XI (XI
    XH)))))))))))))))))))))))))))))) :: ((Zpos (XI (XO (XI (XO (XI (XO (XI
    (XO (XI (XI (XO (XI (XO (XO (XO (XI (XO (XI (XI (XI (XI (XO (XO (XI (XO
    (XO (XI (XI (XI XH)))))))))))))))))))))))))))))) :: ((Zpos (XO (XO (XO
    (XO (XO (XO (XI (XO (XO (XO (XI (XO (XI (XO (XI (XO (XI (XO (XI (XI (XI
    (XO (XO (XI (XO (XO (XI (XI (XI
    XH)))))))))))))))))))))))))))))) :: ((Zpos (XO (XI (XO (XO (XO (XI (XI
    (XO (XO (XI (XI (XI (XI (XO (XO (XO (XO (XO (XI (XI (XI (XO (XO (XI (XO
    (XO (XI (XI (XI XH)))))))))))))))))))))))))))))) :: ((Zpos (XO (XI (XO
    (XI (XI (XI (XO (XI (XI (XO (XO (XI (XO (XI (XI (XI (XO (XI (XO (XI (XI
    (XO (XO (XI (XO (XO (XI (XI (XI
    XH)))))))))))))))))))))))))))))) :: ((Zpos (XO (XI (XI (XO (XO (XO (XI
    (XO (XO (XI (XI (XO (XI (XI (XO (XI (XI (XO (XO (XI (XI (XO (XO (XI (XO
    (XO (XI (XI (XI XH)))))))))))))))))))))))))))))) :: ((Zpos (XI (XO (XI
    (XO (XO (XO (XO (XO (XO (XO (XI (XO (XO (XO (XO (XI (XO (XO (XO (XI (XI
    (XO (XO (XI (XO (XO (XI (XI (XI
    XH)))))))))))))))))))))))))))))) :: ((Zpos (XO (XI (XI (XO (XI (XI (XI
    (XI (XO (XI (XO (XO (XI (XO (XI (XO (XI (XI (XI (XO (XI (XO (XO (XI (XO
    (XO (XI (XI (XI XH)))))))))))))))))))))))))))))) :: ((Zpos (XO (XO (XO
    (XI (XI (XO (XO (XO (XI (XI (XO (XO (XO (XI (XO (XO (XO (XI (XI (XO (XI
    (XO (XO (XI (XO (XO (XI (XI (XI
    XH)))))))))))))))))))))))))))))) :: ((Zpos (XI (XO (XO (XI (XO (XI (XI
    (XO (XO (XO (XI (XO (XI (XI (XI (XI (XO (XO (XI (XO (XI (XO (XO (XI (XO
    (XO (XI (XI (XI XH)))))))))))))))))))))))))))))) :: ((Zpos (XI (XO (XO
    (XI (XO (XI (XI (XI (XO (XI (XI (XO (XO (XO (XI (XI (XI (XI (XO (XO (XI
    (XO (XO (XI (XO (XO (XI (XI (XI
    XH)))))))))))))))))))))))))))))) :: ((Zpos (XO (XI (XI (XO (XI (XO (XO
    (XI (XO (XI (XO (XI (XI (XO (XO (XI (XO (XI (XO (XO (XI (XO (XO (XI (XO
    (XO (XI (XI (XI XH)))))))))))))))))))))))))))))) :: ((Zpos (XI (XI (XI
    (XI (XO (XI (XI (XO (XI (XI (XI (XI (XO (XI (XI (XO (XI (XO (XO (XO (XI
    (XO (XO (XI (XO (XO (XI (XI (XI
    XH)))))))))))))))))))))))))))))) :: ((Zpos (XO (XI (XO (XO (XI (XI (XI
    (XO (XI (XO (XI (XO (XO (XO (XI (XO (XO (XO (XO (XO (XI (XO (XO (XI (XO
    (XO (XI (XI (XI XH)))))))))))))))))))))))))))))) :: ((Zpos (XO (XO (XO
    (XO (XO (XI (XO (XI (XO (XO (XI (XI (XI (XO (XO (XO (XI (XI (XI (XI (XO
    (XO (XO (XI (XO (XO (XI (XI (XI
    XH)))))))))))))))))))))))))))))) :: ((Zpos (XO (XI (XI (XO (XI (XI (XI
    (XI (XO (XO (XI (XO (XI (XI (XI (XI (XI (XO (XI (XI (XO (XO (XO (XI (XO
    (XO (XI (XI (XI XH)))))))))))))))))))))))))))))) :: ((Zpos (XI (XI (XO
    (XO (XI (XI (XI (XO (XO (XI (XI (XI (XO (XO (XI (XI (XO (XO (XI (XI (XO
    (XO (XO (XI (XO (XO (XI (XI (XI
    XH)))))))))))))))))))))))))))))) :: ((Zpos (XI (XI (XI (XO (XI (XO (XO
    (XO (XI (XO (XO (XI (XO (XI (XO (XI (XI (XI (XO (XI (XO (XO (XO (XI (XO
    (XO (XI (XI (XI XH)))))))))))))))))))))))))))))) :: ((Zpos (XO (XO (XO
    (XO (XO (XI (XI (XI (XO (XO (XI (XO (XO (XO (XO (XI (XO (XI (XO (XI (XO
    (XO (XO (XI (XO (XO (XI (XI (XI
    XH)))))))))))))))))))))))))))))) :: ((Zpos (XO (XO (XI (XI (XO (XO (XI
    (XI (XI (XO (XO (XO (XO (XI (XI (XO (XI (XO (XO (XI (XO (XO (XO (XI (XO
    (XO (XI (XI (XI XH)))))))))))))))))))))))))))))) :: ((Zpos (XO (XO (XI
    (XI (XI (XO (XI (XI (XI (XI (XI (XI (XI (XI (XO (XO (XO (XO (XO (XI (XO
    (XO (XO (XI (XO (XO (XI (XI (XI
    XH)))))))))))))))))))))))))))))) :: ((Zpos (XI (XO (XI (XI (XO (XO (XO
    (XO (XI (XI (XI (XI (XI (XO (XO (XO (XI (XI (XI (XO (XO (XO (XO (XI (XO
    (XO (XI (XI (XI XH)))))))))))))))))))))))))))))) :: ((Zpos (XI (XI (XI
    (XI (XI (XO (XI (XO (XI (XI (XI (XI (XI (XI (XI (XI (XI (XO (XI (XO (XO
    (XO (XO (XI (XO (XO (XI (XI (XI
    XH)))))))))))))))))))))))))))))) :: ((Zpos (XO (XO (XO (XO (XI (XO (XI
    (XI (XO (XO (XO (XO (XO (XI (XI (XI (XO (XO (XI (XO (XO (XO (XO (XI (XO
    (XO (XI (XI (XI XH)))))))))))))))))))))))))))))) :: ((Zpos (XI (XI (XI
    (XI (XI (XO (XI (XO (XI (XI (XO (XO (XO (XO (XI (XI (XI (XI (XO (XO (XO
    (XO (XO (XI (XO (XO (XI (XI (XI
    XH)))))))))))))))))))))))))))))) :: ((Zpos (XO (XO (XI (XI (XO (XO (XO
    (XO (XI (XI (XI (XO (XO (XI (XO (XI (XO (XI (XO (XO (XO (XO (XO (XI (XO
    (XO (XI (XI (XI XH)))))))))))))))))))))))))))))) :: ((Zpos (XO (XO (XI
    (XO (XI (XO (XI (XI (XI (XI (XO (XI (XO (XO (XO (XI (XI (XO (XO (XO (XO
    (XO (XO (XI (XO (XO (XI (XI (XI
    XH)))))))))))))))))))))))))))))) :: ((Zpos (XO (XO (XO (XI (XI (XI (XO
    (XI (XI (XO (XO (XO (XI (XI (XI (XO (XO (XO (XO (XO (XO (XO (XO (XI (XO
    (XO (XI (XI (XI XH)))))))))))))))))))))))))))))) :: ((Zpos (XO (XI (XO
    (XI (XO (XI (XI (XO (XI (XO (XO (XO (XI (XI (XO (XI (XO (XI (XI (XI (XI
    (XI (XI (XO (XO (XO (XI (XI (XI
    XH)))))))))))))))))))))))))))))) :: ((Zpos (XO (XI (XI (XO (XI (XO (XO
    (XI (XI (XO (XO (XO (XO (XO (XO (XI (XO (XO (XI (XI (XI (XI (XI (XO (XO
    (XO (XI (XI (XI XH)))))))))))))))))))))))))))))) :: ((Zpos (XI (XO (XO
    (XO (XI (XI (XI (XI (XI (XI (XO (XO (XI (XO (XI (XO (XO (XI (XO (XI (XI
    (XI (XI (XO (XO (XO (XI (XI (XI
    XH)))))))))))))))))))))))))))))) :: ((Zpos (XO (XI (XO (XI (XI (XI (XI
    (XO (XO (XO (XO (XI (XO (XI (XO (XO (XO (XO (XO (XI (XI (XI (XI (XO (XO
    (XO (XI (XI (XI XH)))))))))))))))))))))))))))))) :: ((Zpos (XI (XO (XI
    (XI (XO (XI (XO (XO (XI (XI (XI (XI (XI (XI (XI (XI (XI (XO (XI (XO (XI
    (XI (XI (XO (XO (XO (XI (XI (XI
    XH)))))))))))))))))))))))))))))) :: ((Zpos (XI (XO (XO (XI (XO (XO (XO
    (XO (XO (XO (XO (XI (XI (XO (XI (XI (XI (XI (XO (XO (XI (XI (XI (XO (XO
    (XO (XI (XI (XI XH)))))))))))))))))))))))))))))) :: ((Zpos (XO (XO (XI
    (XI (XO (XO (XO (XO (XI (XI (XO (XO (XI (XI (XO (XI (XI (XO (XO (XO (XI
    (XI (XI (XO (XO (XO (XI (XI (XI
    XH)))))))))))))))))))))))))))))) :: ((Zpos (XI (XI (XO (XO (XI (XI (XO
    (XO (XO (XO (XO (XO (XI (XO (XO (XI (XI (XI (XI (XI (XO (XI (XI (XO (XO
    (XO (XI (XI (XI XH)))))))))))))))))))))))))))))) :: ((Zpos (XI (XO (XI
    (XI (XI (XI (XI (XO (XI (XI (XI (XI (XO (XI (XI (XO (XI (XO (XI (XI (XO
    (XI (XI (XO (XO (XO (XI (XI (XI
    XH)))))))))))))))))))))))))))))) :: ((Zpos (XO (XI (XI (XO (XO (XI (XI
    (XI (XO (XO (XO (XO (XI (XO (XI (XO (XI (XI (XO (XI (XO (XI (XI (XO (XO
    (XO (XI (XI (XI XH)))))))))))))))))))))))))))))) :: ((Zpos (XO (XI (XI
    (XI (XO (XI (XI (XO (XO (XO (XI (XO (XI (XI (XO (XO (XI (XO (XO (XI (XO
    (XI (XI (XO (XO (XO (XI (XI (XI
    XH)))))))))))))))))))))))))))))) :: ((Zpos (XO (XI (XO (XO (XI (XO (XO
    (XO (XO (XI (XO (XI (XI (XO (XO (XO (XI (XI (XI (XO (XO (XI (XI (XO (XO
    (XO (XI (XI (XI XH)))))))))))))))))))))))))))))) :: ((Zpos (XI (XI (XI
    (XI (XO (XO (XI (XI (XI (XO (XO (XO (XO (XO (XO (XO (XI (XO (XI (XO (XO
    (XI (XI (XO (XO (XO (XI (XI (XI
    XH)))))))))))))))))))))))))))))) :: ((Zpos (XI (XO (XI (XO (XO (XI (XO
    (XI (XI (XI (XO (XI (XO (XI (XI (XI (XO (XI (XO (XO (XO (XI (XI (XO (XO
    (XO (XI (XI (XI XH)))))))))))))))))))))))))))))) :: ((Zpos (XO (XO (XO
    (XO (XI (XO (XO (XI (XI (XI (XI (XO (XI (XO (XI (XI (XO (XO (XO (XO (XO
    (XI (XI (XO (XO (XO (XI (XI (XI
    XH)))))))))))))))))))))))))))))) :: ((Zpos (XO (XI (XI (XI (XO (XO (XO
    (XI (XI (XO (XI (XO (XO (XO (XI (XI (XO (XI (XI (XI (XI (XO (XI (XO (XO
    (XO (XI (XI (XI XH)))))))))))))))))))))))))))))) :: ((Zpos (XO (XI (XI
    (XI (XI (XO (XO (XI (XI (XO (XI (XO (XI (XI (XO (XI (XO (XO (XI (XI (XI
    (XO (XI (XO (XO (XO (XI (XI (XI
    XH)))))))))))))))))))))))))))))) :: ((Zpos (XI (XO (XI (XI (XI (XI (XO
    (XI (XI (XI (XI (XO (XO (XI (XO (XI (XO (XI (XO (XI (XI (XO (XI (XO (XO
    (XO (XI (XI (XI XH)))))))))))))))))))))))))))))) :: ((Zpos (XO (XI (XO
    (XI (XO (XI (XI (XI (XI (XI (XO (XI (XI (XO (XO (XI (XO (XO (XO (XI (XI
    (XO (XI (XO (XO (XO (XI (XI (XI
    XH)))))))))))))))))))))))))))))) :: ((Zpos (XO (XI (XO (XO (XO (XI (XO
    (XO (XO (XI (XO (XO (XI (XO (XO (XI (XO (XI (XI (XO (XI (XO (XI (XO (XO
    (XO (XI (XI (XI XH)))))))))))))))))))))))))))))) :: ((Zpos (XI (XI (XO
    (XO (XO (XI (XI (XO (XO (XI (XO (XI (XO (XO (XO (XI (XO (XO (XI (XO (XI
    (XO (XI (XO (XO (XO (XI (XI (XI
    XH)))))))))))))))))))))))))))))) :: ((Zpos (XO (XO (XI (XI (XO (XI (XO
    (XI (XO (XO (XI (XO (XO (XO (XO (XI (XO (XI (XO (XO (XI (XO (XI (XO (XO
    (XO (XI (XI (XI XH)))))))))))))))))))))))))))))) :: ((Zpos (XO (XI (XO
    (XI (XI (XI (XI (XI (XO (XO (XO (XO (XO (XO (XO (XI (XO (XO (XO (XO (XI
    (XO (XI (XO (XO (XO (XI (XI (XI
    XH)))))))))))))))))))))))))))))) :: ((Zpos (XI (XI (XO (XI (XO (XO (XI
    (XO (XI (XI (XI (XI (XI (XI (XI (XO (XO (XI (XI (XI (XO (XO (XI (XO (XO
    (XO (XI (XI (XI XH)))))))))))))))))))))))))))))) :: ((Zpos (XI (XO (XI
    (XI (XI (XO (XO (XI (XI (XI (XI (XI (XI (XI (XI (XO (XO (XO (XI (XI (XO
    (XO (XI (XO (XO (XO (XI (XI (XI
    XH)))))))))))))))))))))))))))))) :: ((Zpos (XO (XI (XI (XI (XO (XI (XI
    (XI (XI (XO (XO (XO (XO (XO (XO (XI (XO (XI (XO (XI (XO (XO (XI (XO (XO
    (XO (XI (XI (XI XH)))))))))))))))))))))))))))))) :: ((Zpos (XI (XO (XI
    (XI (XI (XI (XO (XO (XO (XI (XI (XO (XO (XO (XO (XI (XO (XO (XO (XI (XO
    (XO (XI (XO (XO (XO (XI (XI (XI
    XH)))))))))))))))))))))))))))))) :: ((Zpos (XO (XI (XI (XO (XO (XO (XO
    (XI (XO (XO (XI (XI (XO (XO (XO (XI (XO (XI (XI (XO (XO (XO (XI (XO (XO
    (XO (XI (XI (XI XH)))))))))))))))))))))))))))))) :: ((Zpos (XI (XO (XO
    (XI (XO (XO (XI (XI (XO (XO (XI (XO (XI (XO (XO (XI (XO (XO (XI (XO (XO
    (XO (XI (XO (XO (XO (XI (XI (XI
    XH)))))))))))))))))))))))))))))) :: ((Zpos (XO (XO (XI (XO (XO (XO (XO
    (XO (XI (XI (XI (XI (XI (XO (XO (XI (XO (XI (XO (XO (XO (XO (XI (XO (XO
    (XO (XI (XI (XI XH)))))))))))))))))))))))))))))) :: ((Zpos (XI (XI (XO
    (XO (XI (XI (XO (XO (XI (XI (XO (XI (XO (XI (XO (XI (XO (XO (XO (XO (XO
    (XO (XI (XO (XO (XO (XI (XI (XI
    XH)))))))))))))))))))))))))))))) :: ((Zpos (XO (XI (XI (XO (XI (XO (XI
    (XO (XI (XO (XO (XI (XI (XI (XO (XI (XO (XI (XI (XI (XI (XI (XO (XO (XO
    (XO (XI (XI (XI XH)))))))))))))))))))))))))))))) :: ((Zpos (XO (XI (XO
    (XI (XO (XI (XI (XO (XI (XO (XO (XI (XO (XO (XI (XI (XO (XO (XI (XI (XI
    (XI (XO (XO (XO (XO (XI (XI (XI
    XH)))))))))))))))))))))))))))))) :: ((Zpos (XO (XI (XI (XI (XO (XI (XI
    (XO (XI (XI (XO (XI (XI (XO (XI (XI (XO (XI (XO (XI (XI (XI (XO (XO (XO
    (XO (XI (XI (XI XH)))))))))))))))))))))))))))))) :: ((Zpos (XI (XI (XI
    (XI (XI (XO (XI (XO (XI (XI (XI (XI (XO (XI (XI (XI (XO (XO (XO (XI (XI
    (XI (XO (XO (XO (XO (XI (XI (XI
    XH)))))))))))))))))))))))))))))) :: ((Zpos (XI (XI (XO (XI (XI (XI (XO
    (XO (XI (XO (XI (XO (XO (XO (XO (XO (XI (XI (XI (XO (XI (XI (XO (XO (XO
    (XO (XI (XI (XI XH)))))))))))))))))))))))))))))) :: ((Zpos (XO (XI (XO
    (XO (XO (XO (XO (XO (XI (XO (XI (XI (XI (XO (XO (XO (XI (XO (XI (XO (XI
    (XI (XO (XO (XO (XO (XI (XI (XI
    XH)))))))))))))))))))))))))))))) :: ((Zpos (XO (XO (XO (XO (XI (XI (XO
    (XI (XO (XI (XI (XO (XI (XI (XO (XO (XI (XI (XO (XO (XI (XI (XO (XO (XO
    (XO (XI (XI (XI XH)))))))))))))))))))))))))))))) :: ((Zpos (XO (XO (XI
    (XO (XO (XO (XI (XO (XO (XI (XO (XO (XI (XO (XI (XO (XI (XO (XO (XO (XI
    (XI (XO (XO (XO (XO (XI (XI (XI
    XH)))))))))))))))))))))))))))))) :: ((Zpos (XO (XO (XI (XI (XI (XI (XO
    (XI (XI (XI (XI (XI (XO (XI (XI (XO (XI (XI (XI (XI (XO (XI (XO (XO (XO
    (XO (XI (XI (XI XH)))))))))))))))))))))))))))))) :: ((Zpos (XO (XI (XI
    (XO (XI (XO (XO (XO (XI (XI (XI (XI (XO (XO (XO (XI (XI (XO (XI (XI (XO
    (XI (XO (XO (XO (XO (XI (XI (XI
    XH)))))))))))))))))))))))))))))) :: ((Zpos (XO (XO (XO (XO (XI (XO (XI
    (XO (XO (XO (XO (XO (XI (XI (XO (XI (XI (XI (XO (XI (XO (XI (XO (XO (XO
    (XO (XI (XI (XI XH)))))))))))))))))))))))))))))) :: ((Zpos (XO (XO (XO
    (XI (XO (XI (XI (XO (XI (XI (XO (XO (XI (XO (XI (XI (XI (XO (XO (XI (XO
    (XI (XO (XO (XO (XO (XI (XI (XI
    XH)))))))))))))))))))))))))))))) :: ((Zpos (XI (XO (XI (XI (XI (XO (XI
    (XO (XO (XO (XO (XI (XI (XI (XI (XI (XI (XI (XI (XO (XO (XI (XO (XO (XO
    (XO (XI (XI (XI XH)))))))))))))))))))))))))))))) :: ((Zpos (XO (XO (XI
    (XI (XO (XI (XO (XO (XI (XI (XI (XI (XI (XO (XO (XO (XO (XI (XI (XO (XO
    (XI (XO (XO (XO (XO (XI (XI (XI
    XH)))))))))))))))))))))))))))))) :: ((Zpos (XI (XO (XI (XO (XI (XO (XI
    (XI (XI (XI (XI (XO (XO (XO (XI (XO (XO (XO (XI (XO (XO (XI (XO (XO (XO
    (XO (XI (XI (XI XH)))))))))))))))))))))))))))))) :: ((Zpos (XO (XO (XI
    (XO (XI (XO (XI (XO (XO (XI (XO (XO (XI (XI (XI (XO (XO (XI (XO (XO (XO
    (XI (XO (XO (XO (XO (XI (XI (XI
    XH)))))))))))))))))))))))))))))) :: ((Zpos (XO (XO (XO (XI (XO (XI (XO
    (XI (XO (XI (XI (XI (XI (XO (XO (XI (XO (XO (XO (XO (XO (XI (XO (XO (XO
    (XO (XI (XI (XI XH)))))))))))))))))))))))))))))) :: ((Zpos (XI (XI (XI
    (XI (XO (XO (XI (XI (XO (XO (XI (XI (XO (XO (XI (XI (XO (XI (XI (XI (XI
    (XO (XO (XO (XO (XO (XI (XI (XI
    XH)))))))))))))))))))))))))))))) :: ((Zpos (XO (XO (XO (XI (XO (XO (XI
    (XI (XO (XO (XI (XI (XI (XI (XI (XI (XO (XO (XI (XI (XI (XO (XO (XO (XO
    (XO (XI (XI (XI XH)))))))))))))))))))))))))))))) :: ((Zpos (XO (XO (XO
    (XO (XI (XO (XO (XI (XO (XI (XI (XI (XO (XI (XO (XO (XI (XI (XO (XI (XI
    (XO (XO (XO (XO (XO (XI (XI (XI
    XH)))))))))))))))))))))))))))))) :: ((Zpos (XO (XI (XI (XO (XO (XI (XO
    (XO (XO (XI (XO (XO (XO (XI (XI (XO (XI (XO (XO (XI (XI (XO (XO (XO (XO
    (XO (XI (XI (XI XH)))))))))))))))))))))))))))))) :: ((Zpos (XO (XO (XO
    (XI (XO (XO (XO (XI (XI (XI (XI (XO (XI (XO (XO (XI (XI (XI (XI (XO (XI
    (XO (XO (XO (XO (XO (XI (XI (XI
    XH)))))))))))))))))))))))))))))) :: ((Zpos (XO (XO (XI (XO (XI (XI (XO
    (XI (XO (XI (XI (XI (XO (XO (XI (XI (XI (XO (XI (XO (XI (XO (XO (XO (XO
    (XO (XI (XI (XI XH)))))))))))))))))))))))))))))) :: ((Zpos (XI (XO (XO
    (XI (XO (XI (XO (XI (XI (XI (XI (XO (XO (XO (XO (XO (XO (XO (XI (XO (XI
    (XO (XO (XO (XO (XO (XI (XI (XI
    XH)))))))))))))))))))))))))))))) :: ((Zpos (XO (XO (XI (XO (XO (XI (XI
    (XO (XO (XI (XO (XO (XO (XO (XI (XO (XO (XI (XO (XO (XI (XO (XO (XO (XO
    (XO (XI (XI (XI XH)))))))))))))))))))))))))))))) :: ((Zpos (XO (XO (XI
    (XO (XO (XI (XI (XI (XO (XI (XI (XI (XI (XI (XI (XO (XO (XO (XO (XO (XI
    (XO (XO (XO (XO (XO (XI (XI (XI
    XH)))))))))))))))))))))))))))))) :: ((Zpos (XI (XI (XI (XO (XO (XI (XO
    (XO (XI (XO (XI (XI (XI (XI (XO (XI (XO (XI (XI (XI (XO (XO (XO (XO (XO
    (XO (XI (XI (XI XH)))))))))))))))))))))))))))))) :: ((Zpos (XI (XI (XO
    (XI (XO (XI (XO (XO (XI (XO (XI (XI (XI (XI (XI (XI (XO (XO (XI (XI (XO
    (XO (XO (XO (XO (XO (XI (XI (XI
    XH)))))))))))))))))))))))))))))) :: ((Zpos (XI (XI (XI (XI (XO (XI (XI
    (XI (XO (XI (XI (XI (XI (XI (XO (XO (XI (XI (XO (XI (XO (XO (XO (XO (XO
    (XO (XI (XI (XI XH)))))))))))))))))))))))))))))) :: ((Zpos (XI (XO (XO
    (XO (XI (XI (XI (XO (XO (XI (XO (XO (XO (XO (XO (XI (XI (XO (XO (XI (XO
    (XO (XO (XO (XO (XO (XI (XI (XI
    XH)))))))))))))))))))))))))))))) :: ((Zpos (XI (XI (XI (XI (XO (XI (XO
    (XI (XI (XI (XI (XO (XO (XO (XI (XI (XI (XI (XI (XO (XO (XO (XO (XO (XO
    (XO (XI (XI (XI XH)))))))))))))))))))))))))))))) :: ((Zpos (XI (XI (XI
    (XO (XO (XI (XO (XI (XO (XI (XI (XI (XO (XO (XO (XO (XO (XI (XI (XO (XO
    (XO (XO (XO (XO (XO (XI (XI (XI
    XH)))))))))))))))))))))))))))))) :: ((Zpos (XO (XO (XO (XI (XI (XO (XI
    (XO (XI (XI (XI (XO (XI (XO (XI (XO (XO (XO (XI (XO (XO (XO (XO (XO (XO
    (XO (XI (XI (XI XH)))))))))))))))))))))))))))))) :: ((Zpos (XI (XI (XI
    (XI (XI (XI (XO (XI (XI (XO (XO (XO (XO (XI (XO (XI (XO (XI (XO (XO (XO
    (XO (XO (XO (XO (XO (XI (XI (XI
    XH)))))))))))))))))))))))))))))) :: ((Zpos (XO (XO (XI (XI (XI (XO (XI
    (XI (XI (XO (XI (XI (XO (XI (XI (XI (XO (XO (XO (XO (XO (XO (XO (XO (XO
    (XO (XI (XI (XI XH)))))))))))))))))))))))))))))) :: ((Zpos (XO (XO (XO
    (XI (XI (XO (XI (XO (XI (XI (XI (XO (XI (XI (XI (XO (XO (XI (XI (XI (XI
    (XI (XI (XI (XI (XI (XO (XI (XI
    XH)))))))))))))))))))))))))))))) :: ((Zpos (XO (XO (XI (XI (XI (XO (XI
    (XO (XO (XI (XI (XO (XI (XO (XO (XO (XI (XI (XO (XI (XI (XI (XI (XI (XI
    (XI (XO (XI (XI XH)))))))))))))))))))))))))))))) :: ((Zpos (XO (XO (XO
    (XO (XO (XO (XI (XI (XO (XO (XO (XI (XI (XI (XO (XI (XI (XI (XI (XO (XI
    (XI (XI (XI (XI (XI (XO (XI (XI
    XH)))))))))))))))))))))))))))))) :: ((Zpos (XI (XO (XO (XO (XO (XO (XO
    (XI (XO (XI (XI (XI (XI (XO (XI (XO (XO (XO (XI (XO (XI (XI (XI (XI (XI
    (XI (XO (XI (XI XH)))))))))))))))))))))))))))))) :: ((Zpos (XI (XI (XO
    (XI (XI (XO (XO (XI (XI (XI (XI (XO (XO (XO (XO (XO (XI (XO (XO (XO (XI
    (XI (XI (XI (XI (XI (XO (XI (XI
    XH)))))))))))))))))))))))))))))) :: ((Zpos (XI (XI (XO (XI (XO (XO (XO
    (XO (XO (XO (XI (XO (XI (XI (XO (XI (XI (XO (XI (XI (XO (XI (XI (XI (XI
    (XI (XO (XI (XI XH)))))))))))))))))))))))))))))) :: ((Zpos (XO (XI (XI
    (XI (XO (XO (XI (XI (XI (XI (XO (XO (XO (XI (XI (XO (XO (XI (XO (XI (XO
    (XI (XI (XI (XI (XI (XO (XI (XI
    XH)))))))))))))))))))))))))))))) :: ((Zpos (XI (XO (XO (XO (XO (XI (XI
    (XI (XO (XI (XI (XO (XI (XO (XO (XO (XI (XI (XI (XO (XO (XI (XI (XI (XI
    (XI (XO (XI (XI XH)))))))))))))))))))))))))))))) :: ((Zpos (XI (XI (XI
    (XI (XI (XI (XO (XO (XI (XO (XI (XI (XO (XO (XI (XI (XI (XI (XO (XO (XO
    (XI (XI (XI (XI (XI (XO (XI (XI
    XH)))))))))))))))))))))))))))))) :: ((Zpos (XI (XI (XI (XO (XO (XI (XI
    (XI (XO (XI (XI (XO (XO (XO (XO (XI (XO (XO (XO (XO (XO (XI (XI (XI (XI
    (XI (XO (XI (XI XH)))))))))))))))))))))))))))))) :: ((Zpos (XI (XI (XO
    (XO (XI (XO (XI (XI (XI (XI (XO (XO (XO (XO (XI (XO (XI (XO (XI (XI (XI
    (XO (XI (XI (XI (XI (XO (XI (XI
    XH)))))))))))))))))))))))))))))) :: ((Zpos (XI (XI (XO (XO (XO (XO (XO
    (XO (XO (XO (XI (XO (XO (XO (XO (XO (XO (XI (XO (XI (XI (XO (XI (XI (XI
    (XI (XO (XI (XI XH)))))))))))))))))))))))))))))) :: ((Zpos (XI (XO (XO
    (XO (XI (XI (XI (XO (XI (XI (XI (XO (XO (XO (XI (XI (XO (XI (XI (XO (XI
    (XO (XI (XI (XI (XI (XO (XI (XI
    XH)))))))))))))))))))))))))))))) :: ((Zpos (XI (XI (XO (XI (XI (XO (XO
    (XO (XO (XI (XI (XI (XO (XO (XO (XI (XI (XI (XO (XO (XI (XO (XI (XI (XI
    (XI (XO (XI (XI XH)))))))))))))))))))))))))))))) :: ((Zpos (XI (XO (XI
    (XI (XI (XI (XI (XI (XI (XI (XI (XO (XI (XO (XI (XO (XO (XO (XO (XO (XI
    (XO (XI (XI (XI (XI (XO (XI (XI
    XH)))))))))))))))))))))))))))))) :: ((Zpos (XI (XO (XI (XO (XI (XO (XO
    (XO (XI (XO (XI (XO (XO (XI (XO (XO (XI (XO (XI (XI (XO (XO (XI (XI (XI
    (XI (XO (XI (XI XH)))))))))))))))))))))))))))))) :: ((Zpos (XI (XI (XI
    (XI (XI (XO (XI (XO (XI (XO (XI (XO (XI (XI (XI (XI (XI (XO (XO (XI (XO
    (XO (XI (XI (XI (XI (XO (XI (XI
    XH)))))))))))))))))))))))))))))) :: ((Zpos (XI (XI (XI (XO (XI (XO (XI
    (XI (XO (XO (XO (XI (XO (XO (XI (XI (XO (XI (XI (XO (XO (XO (XI (XI (XI
    (XI (XO (XI (XI XH)))))))))))))))))))))))))))))) :: ((Zpos (XO (XO (XI
    (XI (XI (XI (XI (XO (XI (XI (XI (XI (XI (XO (XO (XI (XI (XI (XO (XO (XO
    (XO (XI (XI (XI (XI (XO (XI (XI
    XH)))))))))))))))))))))))))))))) :: ((Zpos (XI (XO (XO (XI (XO (XO (XI
    (XO (XI (XO (XO (XI (XI (XI (XI (XO (XO (XO (XO (XO (XO (XO (XI (XI (XI
    (XI (XO (XI (XI XH)))))))))))))))))))))))))))))) :: ((Zpos (XI (XI (XO
    (XI (XI (XI (XO (XO (XO (XI (XI (XO (XI (XO (XI (XO (XI (XO (XI (XI (XI
    (XI (XO (XI (XI (XI (XO (XI (XI
    XH)))))))))))))))))))))))))))))) :: ((Zpos (XO (XO (XO (XO (XI (XO (XI
    (XO (XO (XI (XI (XO (XI (XI (XO (XO (XO (XI (XO (XI (XI (XI (XO (XI (XI
    (XI (XO (XI (XI XH)))))))))))))))))))))))))))))) :: ((Zpos (XO (XO (XI
    (XO (XO (XO (XO (XI (XI (XO (XO (XI (XI (XO (XO (XO (XI (XI (XI (XO (XI
    (XI (XO (XI (XI (XI (XO (XI (XI
    XH)))))))))))))))))))))))))))))) :: ((Zpos (XO (XO (XI (XO (XI (XO (XI
    (XI (XI (XI (XI (XI (XI (XI (XI (XI (XI (XI (XO (XO (XI (XI (XO (XI (XI
    (XI (XO (XI (XI XH)))))))))))))))))))))))))))))) :: ((Zpos (XI (XO (XI
    (XI (XI (XI (XO (XO (XI (XO (XO (XI (XO (XI (XI (XI (XO (XO (XO (XO (XI
    (XI (XO (XI (XI (XI (XO (XI (XI
    XH)))))))))))))))))))))))))))))) :: ((Zpos (XI (XI (XO (XI (XI (XI (XO
    (XI (XI (XO (XI (XO (XI (XO (XI (XI (XI (XO (XI (XI (XO (XI (XO (XI (XI
    (XI (XO (XI (XI XH)))))))))))))))))))))))))))))) :: ((Zpos (XI (XO (XI
    (XI (XO (XO (XI (XO (XI (XO (XI (XO (XO (XO (XI (XI (XO (XI (XO (XI (XO
    (XI (XO (XI (XI (XI (XO (XI (XI
    XH)))))))))))))))))))))))))))))) :: ((Zpos (XO (XI (XI (XI (XO (XI (XI
    (XI (XI (XI (XI (XO (XI (XI (XO (XI (XI (XI (XI (XO (XO (XI (XO (XI (XI
    (XI (XO (XI (XI XH)))))))))))))))))))))))))))))) :: ((Zpos (XI (XI (XO
    (XI (XI (XO (XO (XI (XI (XO (XI (XI (XO (XI (XO (XI (XO (XO (XI (XO (XO
    (XI (XO (XI (XI (XI (XO (XI (XI
    XH)))))))))))))))))))))))))))))) :: ((Zpos (XO (XI (XO (XO (XI (XO (XI
    (XO (XO (XI (XI (XO (XO (XI (XO (XI (XI (XO (XO (XO (XO (XI (XO (XI (XI
    (XI (XO (XI (XI XH)))))))))))))))))))))))))))))) :: ((Zpos (XO (XO (XO
    (XO (XI (XO (XO (XO (XO (XI (XO (XO (XO (XI (XO (XI (XO (XI (XI (XI (XI
    (XO (XO (XI (XI (XI (XO (XI (XI
    XH)))))))))))))))))))))))))))))) :: ((Zpos (XI (XO (XO (XO (XI (XO (XI
    (XI (XO (XO (XO (XO (XO (XI (XO (XI (XI (XI (XO (XI (XI (XO (XO (XI (XI
    (XI (XO (XI (XI XH)))))))))))))))))))))))))))))) :: ((Zpos (XI (XI (XO
    (XO (XI (XO (XO (XI (XO (XI (XO (XO (XO (XI (XO (XI (XO (XO (XO (XI (XI
    (XO (XO (XI (XI (XI (XO (XI (XI
    XH)))))))))))))))))))))))))))))) :: ((Zpos (XO (XI (XO (XO (XI (XO (XI
    (XO (XI (XI (XI (XO (XO (XI (XO (XI (XI (XO (XI (XO (XI (XO (XO (XI (XI
    (XI (XO (XI (XI XH)))))))))))))))))))))))))))))) :: ((Zpos (XO (XO (XI
    (XI (XO (XO (XO (XO (XI (XI (XI (XI (XO (XI (XO (XI (XO (XI (XO (XO (XI
    (XO (XO (XI (XI (XI (XO (XI (XI
    XH)))))))))))))))))))))))))))))) :: ((Zpos (XI (XO (XI (XI (XI (XI (XO
    (XI (XI (XO (XO (XI (XI (XI (XO (XI (XI (XI (XI (XI (XO (XO (XO (XI (XI
    (XI (XO (XI (XI XH)))))))))))))))))))))))))))))) :: ((Zpos (XI (XI (XO
    (XO (XO (XI (XI (XO (XI (XI (XI (XO (XO (XO (XI (XI (XO (XO (XI (XI (XO
    (XO (XO (XI (XI (XI (XO (XI (XI
    XH)))))))))))))))))))))))))))))) :: ((Zpos (XO (XI (XO (XI (XI (XI (XI
    (XI (XI (XI (XI (XO (XI (XO (XI (XI (XI (XO (XO (XI (XO (XO (XO (XI (XI
    (XI (XO (XI (XI XH)))))))))))))))))))))))))))))) :: ((Zpos (XO (XO (XO
    (XO (XO (XO (XO (XI (XI (XI (XO (XI (XO (XI (XI (XI (XO (XI (XI (XO (XO
    (XO (XO (XI (XI (XI (XO (XI (XI
    XH)))))))))))))))))))))))))))))) :: ((Zpos (XO (XI (XO (XO (XI (XI (XI
    (XI (XI (XO (XO (XO (XO (XO (XO (XO (XO (XO (XI (XO (XO (XO (XO (XI (XI
    (XI (XO (XI (XI XH)))))))))))))))))))))))))))))) :: ((Zpos (XI (XO (XI
    (XI (XO (XO (XI (XO (XI (XI (XO (XI (XI (XO (XO (XO (XI (XO (XO (XO (XO
    (XO (XO (XI (XI (XI (XO (XI (XI
    XH)))))))))))))))))))))))))))))) :: ((Zpos (XI (XI (XO (XI (XI (XO (XO
    (XO (XI (XI (XI (XI (XO (XI (XI (XO (XO (XO (XI (XI (XI (XI (XI (XO (XI
    (XI (XO (XI (XI XH)))))))))))))))))))))))))))))) :: ((Zpos (XO (XI (XO
    (XO (XO (XI (XI (XO (XI (XO (XI (XI (XO (XI (XO (XI (XO (XI (XI (XO (XI
    (XI (XI (XO (XI (XI (XO (XI (XI
    XH)))))))))))))))))))))))))))))) :: ((Zpos (XO (XI (XO (XI (XO (XI (XI
    (XO (XI (XO (XO (XO (XI (XI (XI (XI (XO (XO (XO (XO (XI (XI (XI (XO (XI
    (XI (XO (XI (XI XH)))))))))))))))))))))))))))))) :: ((Zpos (XO (XO (XI
    (XI (XO (XI (XO (XO (XI (XI (XO (XI (XI (XI (XO (XO (XI (XI (XO (XI (XO
    (XI (XI (XO (XI (XI (XO (XI (XI
    XH)))))))))))))))))))))))))))))) :: ((Zpos (XI (XI (XO (XO (XO (XI (XO
    (XI (XO (XI (XO (XI (XO (XO (XO (XI (XI (XO (XI (XO (XO (XI (XI (XO (XI
    (XI (XO (XI (XI XH)))))))))))))))))))))))))))))) :: ((Zpos (XI (XO (XO
    (XI (XO (XO (XI (XI (XI (XI (XI (XI (XI (XO (XI (XI (XI (XI (XI (XI (XI
    (XO (XI (XO (XI (XI (XO (XI (XI
    XH)))))))))))))))))))))))))))))) :: ((Zpos (XO (XO (XO (XI (XI (XO (XO
    (XI (XO (XI (XO (XI (XI (XI (XO (XO (XO (XI (XO (XI (XI (XO (XI (XO (XI
    (XI (XO (XI (XI XH)))))))))))))))))))))))))))))) :: ((Zpos (XI (XI (XO
    (XI (XO (XO (XO (XO (XI (XI (XO (XI (XI (XO (XO (XI (XO (XO (XI (XO (XI
    (XO (XI (XO (XI (XI (XO (XI (XI
    XH)))))))))))))))))))))))))))))) :: ((Zpos (XI (XO (XI (XI (XI (XO (XO
    (XO (XI (XO (XO (XO (XO (XO (XO (XO (XI (XI (XI (XI (XO (XO (XI (XO (XI
    (XI (XO (XI (XI XH)))))))))))))))))))))))))))))) :: ((Zpos (XI (XI (XI
    (XO (XO (XO (XI (XI (XO (XO (XI (XI (XO (XI (XI (XO (XI (XO (XO (XI (XO
    (XO (XI (XO (XI (XI (XO (XI (XI
    XH)))))))))))))))))))))))))))))) :: ((Zpos (XO (XO (XI (XO (XO (XO (XO
    (XO (XO (XI (XI (XI (XI (XO (XI (XI (XI (XI (XO (XO (XO (XO (XI (XO (XI
    (XI (XO (XI (XI XH)))))))))))))))))))))))))))))) :: ((Zpos (XO (XI (XI
    (XI (XO (XO (XI (XI (XO (XO (XI (XO (XI (XO (XI (XO (XO (XI (XI (XI (XI
    (XI (XO (XO (XI (XI (XO (XI (XI
    XH)))))))))))))))))))))))))))))) :: ((Zpos (XO (XO (XO (XO (XO (XI (XO
    (XO (XI (XO (XO (XO (XI (XO (XI (XI (XO (XO (XO (XI (XI (XI (XO (XO (XI
    (XI (XO (XI (XI XH)))))))))))))))))))))))))))))) :: ((Zpos (XO (XO (XI
    (XO (XI (XI (XI (XI (XO (XI (XO (XO (XI (XO (XI (XO (XI (XI (XO (XO (XI
    (XI (XO (XO (XI (XI (XO (XI (XI
    XH)))))))))))))))))))))))))))))) :: ((Zpos (XI (XO (XI (XO (XO (XO (XI
    (XO (XO (XI (XO (XI (XI (XO (XI (XI (XI (XO (XI (XI (XO (XI (XO (XO (XI
    (XI (XO (XI (XI XH)))))))))))))))))))))))))))))) :: ((Zpos (XO (XI (XI
    (XI (XO (XO (XO (XO (XI (XI (XI (XO (XO (XI (XI (XO (XO (XO (XO (XI (XO
    (XI (XO (XO (XI (XI (XO (XI (XI
    XH)))))))))))))))))))))))))))))) :: ((Zpos (XO (XO (XO (XI (XO (XO (XI
    (XO (XI (XO (XO (XI (XI (XI (XI (XI (XO (XI (XO (XO (XO (XI (XO (XO (XI
    (XI (XO (XI (XI XH)))))))))))))))))))))))))))))) :: ((Zpos (XI (XI (XI
    (XI (XO (XI (XI (XI (XO (XO (XO (XO (XI (XO (XO (XI (XI (XO (XI (XI (XI
    (XO (XO (XO (XI (XI (XO (XI (XI
    XH)))))))))))))))))))))))))))))) :: ((Zpos (XO (XO (XI (XI (XI (XI (XI
    (XI (XI (XO (XI (XI (XO (XI (XO (XO (XO (XO (XO (XI (XI (XO (XO (XO (XI
    (XI (XO (XI (XI XH)))))))))))))))))))))))))))))) :: ((Zpos (XI (XI (XO
    (XI (XO (XI (XI (XO (XO (XO (XO (XO (XI (XO (XI (XI (XO (XI (XO (XO (XI
    (XO (XO (XO (XI (XI (XO (XI (XI
    XH)))))))))))))))))))))))))))))) :: ((Zpos (XI (XI (XI (XO (XI (XI (XO
    (XO (XO (XO (XO (XI (XI (XI (XI (XO (XI (XO (XI (XI (XO (XO (XO (XO (XI
    (XI (XO (XI (XI XH)))))))))))))))))))))))))))))) :: ((Zpos (XI (XO (XO
    (XI (XI (XO (XI (XO (XI (XO (XI (XO (XO (XI (XO (XO (XO (XO (XO (XI (XO
    (XO (XO (XO (XI (XI (XO (XI (XI
    XH)))))))))))))))))))))))))))))) :: ((Zpos (XI (XO (XI (XI (XO (XO (XI
    (XI (XI (XI (XI (XO (XI (XO (XI (XI (XO (XI (XO (XO (XO (XO (XO (XO (XI
    (XI (XO (XI (XI XH)))))))))))))))))))))))))))))) :: ((Zpos (XI (XI (XO
    (XI (XI (XO (XO (XO (XI (XI (XI (XI (XI (XO (XO (XO (XI (XI (XO (XI (XI
    (XI (XI (XI (XO (XI (XO (XI (XI
    XH)))))))))))))))))))))))))))))) :: ((Zpos (XI (XO (XO (XI (XO (XI (XO
    (XO (XI (XO (XO (XI (XI (XO (XO (XI (XO (XO (XO (XO (XI (XI (XI (XI (XO
    (XI (XO (XI (XI XH)))))))))))))))))))))))))))))) :: ((Zpos (XO (XI (XO
    (XI (XI (XI (XO (XI (XI (XO (XI (XI (XI (XO (XO (XO (XO (XI (XI (XO (XO
    (XI (XI (XI (XO (XI (XO (XI (XI
    XH)))))))))))))))))))))))))))))) :: ((Zpos (XI (XO (XI (XO (XO (XO (XI
    (XI (XO (XO (XI (XI (XO (XI (XO (XI (XI (XI (XO (XI (XI (XO (XI (XI (XO
    (XI (XO (XI (XI XH)))))))))))))))))))))))))))))) :: ((Zpos (XI (XO (XI
    (XI (XI (XI (XO (XO (XO (XI (XI (XO (XO (XO (XI (XO (XI (XO (XO (XO (XI
    (XO (XI (XI (XO (XI (XO (XI (XI
    XH)))))))))))))))))))))))))))))) :: ((Zpos (XO (XI (XO (XI (XI (XO (XO
    (XO (XO (XI (XO (XI (XO (XI (XI (XI (XO (XI (XI (XO (XO (XO (XI (XI (XO
    (XI (XO (XI (XI XH)))))))))))))))))))))))))))))) :: ((Zpos (XO (XO (XO
    (XO (XI (XO (XI (XO (XO (XO (XO (XI (XI (XO (XO (XI (XO (XO (XI (XI (XI
    (XI (XO (XI (XO (XI (XO (XI (XI
    XH)))))))))))))))))))))))))))))) :: ((Zpos (XI (XO (XI (XO (XI (XO (XI
    (XI (XO (XO (XO (XO (XI (XO (XI (XO (XO (XI (XO (XO (XI (XI (XO (XI (XO
    (XI (XO (XI (XI XH)))))))))))))))))))))))))))))) :: ((Zpos (XI (XI (XI
    (XI (XI (XO (XO (XI (XI (XI (XO (XO (XI (XO (XO (XO (XO (XO (XO (XI (XO
    (XI (XO (XI (XO (XI (XO (XI (XI
    XH)))))))))))))))))))))))))))))) :: ((Zpos (XO (XO (XI (XO (XO (XI (XO
    (XI (XO (XO (XO (XO (XO (XI (XI (XI (XI (XO (XI (XI (XI (XO (XO (XI (XO
    (XI (XO (XI (XI XH)))))))))))))))))))))))))))))) :: ((Zpos (XO (XI (XO
    (XI (XI (XO (XI (XI (XI (XI (XI (XO (XI (XI (XO (XI (XI (XI (XO (XO (XI
    (XO (XO (XI (XO (XI (XO (XI (XI
    XH)))))))))))))))))))))))))))))) :: ((Zpos (XI (XO (XI (XO (XI (XI (XO
    (XO (XI (XO (XO (XI (XI (XO (XO (XI (XI (XO (XO (XI (XO (XO (XO (XI (XO
    (XI (XO (XI (XI XH)))))))))))))))))))))))))))))) :: ((Zpos (XI (XO (XO
    (XI (XI (XO (XI (XO (XI (XO (XO (XI (XO (XO (XO (XO (XI (XI (XI (XI (XI
    (XI (XI (XO (XO (XI (XO (XI (XI
    XH)))))))))))))))))))))))))))))) :: ((Zpos (XI (XO (XI (XI (XO (XI (XI
    (XO (XO (XO (XI (XO (XI (XI (XI (XI (XO (XI (XO (XI (XO (XI (XI (XO (XO
    (XI (XO (XI (XI XH)))))))))))))))))))))))))))))) :: ((Zpos (XO (XO (XO
    (XO (XI (XO (XO (XI (XI (XI (XO (XO (XI (XI (XI (XI (XO (XI (XI (XO (XI
    (XO (XI (XO (XO (XI (XO (XI (XI
    XH)))))))))))))))))))))))))))))) :: ((Zpos (XI (XI (XI (XI (XO (XI (XO
    (XI (XO (XI (XI (XO (XO (XO (XO (XO (XI (XI (XO (XO (XO (XO (XI (XO (XO
    (XI (XO (XI (XI XH)))))))))))))))))))))))))))))) :: ((Zpos (XO (XI (XI
    (XO (XI (XI (XO (XI (XI (XO (XI (XI (XO (XI (XO (XO (XI (XI (XI (XI (XO
    (XI (XO (XO (XO (XI (XO (XI (XI
    XH)))))))))))))))))))))))))))))) :: ((Zpos (XI (XO (XO (XO (XI (XO (XO
    (XI (XO (XO (XO (XI (XO (XI (XI (XO (XI (XI (XO (XI (XI (XO (XO (XO (XO
    (XI (XO (XI (XI XH)))))))))))))))))))))))))))))) :: ((Zpos (XO (XO (XI
    (XI (XO (XI (XO (XO (XI (XI (XI (XO (XI (XI (XO (XI (XI (XI (XI (XO (XO
    (XO (XO (XO (XO (XI (XO (XI (XI
    XH)))))))))))))))))))))))))))))) :: ((Zpos (XI (XI (XI (XO (XO (XI (XI
    (XI (XO (XI (XO (XO (XI (XI (XO (XO (XO (XO (XO (XI (XO (XI (XI (XI (XI
    (XO (XO (XI (XI XH)))))))))))))))))))))))))))))) :: ((Zpos (XO (XO (XO
    (XI (XO (XI (XO (XI (XO (XI (XI (XI (XI (XO (XO (XO (XI (XO (XO (XO (XO
    (XO (XI (XI (XI (XO (XO (XI (XI
    XH)))))))))))))))))))))))))))))) :: ((Zpos (XO (XO (XI (XO (XI (XI (XI
    (XO (XI (XO (XO (XO (XI (XI (XO (XO (XO (XI (XO (XI (XI (XO (XO (XI (XI
    (XO (XO (XI (XI XH)))))))))))))))))))))))))))))) :: ((Zpos (XI (XO (XI
    (XO (XO (XO (XI (XO (XO (XI (XI (XO (XI (XO (XI (XI (XO (XI (XI (XO (XO
    (XI (XI (XO (XI (XO (XO (XI (XI
    XH)))))))))))))))))))))))))))))) :: ((Zpos (XO (XO (XI (XI (XI (XO (XO
    (XO (XI (XI (XI (XO (XI (XO (XO (XI (XI (XO (XO (XI (XI (XO (XO (XO (XI
    (XO (XO (XI (XI XH)))))))))))))))))))))))))))))) :: ((Zpos (XI (XO (XI
    (XI (XI (XI (XO (XO (XO (XI (XO (XI (XO (XO (XI (XO (XI (XO (XO (XI (XI
    (XO (XO (XI (XO (XO (XO (XI (XI
    XH)))))))))))))))))))))))))))))) :: (Z0 :: [])))))))))))))))))))))))))))))))))))))))))))))))))))))))))))))))))))))))))))))))))))))))))))))))))))))))))))))))))))))))))))))))))))))))))))))))))))))))))))))))))))))))))))))))))))))))))))))))))))))))))))))))))))))))))))))))))))))))))))))))))))))))))))))))))))))))))))))))))))))))))))))))))))))))))))))))))))))))))))))))))))))))))))))))))))))))))))))))))))))))))))))))))))))))))))))))))))))))))))))))))))))))))))))))))))))))))))))))))))))))))))))))))))))))))))))))))))))))))))))))))))))))))))))))))))))))))))))))))))))))))))))))))))))))))))))))))))))))))))))))))))))))))))))))))))))))))))))))))))))))))))))))))))))))))))))))))))))))))))))))))))))))))))))))))))))))))))))))))))))))))))))))))))))))))))))))))))))))))))))))))))))))))))))))))))))))))))))))))))))))))))))))))))))))))))))))))))))))))))))))))))))))))))))))))))))))))))))))))))))))))))))))))))))))))))))))))))))))))))))))))))))))))))))))))))))))))))))))))))))))))))))))))))))))))))))))))))))))))))))))))))))))))))))))))))))))))))))))))))))))))))))))))))))))))))))))

(** val sINE_LUT_SIZE : z **)

let sINE_LUT_SIZE =
  Zpos (XO (XO (XO (XO (XO (XO (XO (XO (XO (XO XH))))))))))

(** val aDSR_CURVE_LUT_SIZE : z **)

let aDSR_CURVE_LUT_SIZE =
  Zpos (XO (XO (XO (XO (XO (XO (XO (XO (XO (XO XH))))))))))

(** val mIN_TIME_PERIOD_SEC_bits : z **)

let mIN_TIME_PERIOD_SEC_bits =
  Zpos (XI (XI (XI (XI (XO (XI (XI (XO (XO (XI (XO (XO (XI (XO (XO (XO (XI
    (XI (XO (XO (XO (XO (XO (XI (XO (XI (XO (XI (XI
    XH)))))))))))))))))))))))))))))

(** val mAX_TIME_PERIOD_SEC_bits : z **)

let mAX_TIME_PERIOD_SEC_bits =
  Zpos (XO (XO (XO (XO (XO (XO (XO (XO (XO (XO (XO (XO (XO (XO (XO (XO (XO
    (XO (XO (XO (XO (XI (XO (XI (XI (XO (XO (XO (XO (XO
    XH))))))))))))))))))))))))))))))

(** val aDSR_TOT_NUM_ACCUM_BITS : z **)

let aDSR_TOT_NUM_ACCUM_BITS =
  Zpos (XO (XO (XO (XI XH))))

(** val lFO_TOT_NUM_ACCUM_BITS : z **)

let lFO_TOT_NUM_ACCUM_BITS =
  Zpos (XO (XO (XO (XI XH))))

(** val sEMITONE_WIDTH_bits : z **)

let sEMITONE_WIDTH_bits =
  Zpos (XI (XI (XO (XI (XO (XI (XO (XI (XO (XI (XO (XI (XO (XI (XO (XI (XO
    (XI (XO (XI (XO (XI (XO (XI (XI (XO (XI (XI (XI
    XH)))))))))))))))))))))))))))))

(** val hYSTERESIS_bits : z **)

let hYSTERESIS_bits =
  Zpos (XI (XO (XO (XI (XO (XO (XO (XI (XO (XO (XO (XI (XO (XO (XO (XI (XO
    (XO (XO (XI (XO (XO (XO (XO (XO (XO (XI (XI (XI
    XH)))))))))))))))))))))))))))))

(** val oNE_OCTAVE_IN_MICROVOLTS : z **)

let oNE_OCTAVE_IN_MICROVOLTS =
  Zpos (XO (XO (XO (XO (XO (XO (XI (XO (XO (XI (XO (XO (XO (XO (XI (XO (XI
    (XI (XI XH)))))))))))))))))))

(** val hALF_STEP_IN_MICROVOLTS : z **)

let hALF_STEP_IN_MICROVOLTS =
  Zpos (XI (XO (XI (XO (XO (XO (XO (XI (XI (XO (XI (XO (XO (XO (XI (XO
    XH))))))))))))))))

(** val mAX_OCTAVE : z **)

let mAX_OCTAVE =
  Zpos (XO (XI (XO XH)))

(** val v_MAX_bits : z **)

let v_MAX_bits =
  Zpos (XO (XO (XO (XO (XO (XO (XO (XO (XO (XO (XO (XO (XO (XO (XO (XO (XO
    (XO (XO (XO (XO (XI (XO (XO (XI (XO (XO (XO (XO (XO
    XH))))))))))))))))))))))))))))))

(** val cC_MOD_WHEEL : z **)

let cC_MOD_WHEEL =
  Zpos XH

(** val cC_VOLUME : z **)

let cC_VOLUME =
  Zpos (XI (XI XH))

(** val cC_VCF_CUTOFF : z **)

let cC_VCF_CUTOFF =
  Zpos (XI (XI (XI (XO (XO (XO XH))))))

(** val cC_VCF_RESONANCE : z **)

let cC_VCF_RESONANCE =
  Zpos (XO (XI (XO (XI (XO (XO XH))))))

(** val cC_SUSTAIN_SWITCH : z **)

let cC_SUSTAIN_SWITCH =
  Zpos (XO (XO (XO (XO (XO (XO XH))))))

(** val cC_PORTAMENTO_SWITCH : z **)

let cC_PORTAMENTO_SWITCH =
  Zpos (XI (XO (XO (XO (XO (XO XH))))))

(** val cC_PORTAMENTO_TIME : z **)

let cC_PORTAMENTO_TIME =
  Zpos (XI (XO XH))

(** val cC_ALL_CONTROLLERS_OFF : z **)

let cC_ALL_CONTROLLERS_OFF =
  Zpos (XI (XO (XO (XI (XI (XI XH))))))

(** val cC_ALL_NOTES_OFF : z **)

let cC_ALL_NOTES_OFF =
  Zpos (XI (XI (XO (XI (XI (XI XH))))))

(** val u7_HALF_SCALE : z **)

let u7_HALF_SCALE =
  Zpos (XO (XO (XO (XO (XO (XO XH))))))

(** val hELD_DOWN_NOTE_BUFFER_LEN : z **)

let hELD_DOWN_NOTE_BUFFER_LEN =
  Zpos (XO (XO (XO (XO (XO XH)))))

(** val rIBBON_FALL_TIME_USEC : z **)

let rIBBON_FALL_TIME_USEC =
  Zpos (XO (XO (XO (XI (XO (XI (XI (XI (XI XH)))))))))

(** val rIBBON_RISE_TIME_USEC : z **)

let rIBBON_RISE_TIME_USEC =
  Zpos (XO (XO (XO (XO (XI (XO (XI (XI (XI (XI XH))))))))))

(** val mIN_CAPTURE_TIME_USEC : z **)

let mIN_CAPTURE_TIME_USEC =
  Zpos (XO (XO (XO (XI (XI (XO (XO (XI (XO (XI (XO (XI (XI XH)))))))))))))

(** val gLIDE_MAX_FC_DIVISOR_bits : z **)

let gLIDE_MAX_FC_DIVISOR_bits =
  Zpos (XO (XO (XO (XO (XO (XO (XO (XO (XO (XO (XO (XO (XO (XO (XO (XO (XO
    (XO (XO (XO (XO (XO (XO (XI (XO (XO (XO (XO (XO (XO
    XH))))))))))))))))))))))))))))))

(** val gLIDE_MIN_FC_bits : z **)

let gLIDE_MIN_FC_bits =
  Zpos (XI (XO (XI (XI (XO (XO (XI (XI (XO (XO (XI (XI (XO (XO (XI (XI (XO
    (XO (XI (XI (XO (XO (XI (XI (XI (XO (XI (XI (XI
    XH)))))))))))))))))))))))))))))

(** val gLIDE_EPSILON_bits : z **)

let gLIDE_EPSILON_bits =
  Zpos (XI (XO (XI (XI (XO (XO (XI (XI (XO (XO (XI (XI (XO (XO (XI (XI (XO
    (XO (XI (XI (XO (XO (XI (XO (XI (XO (XI (XI (XI
    XH)))))))))))))))))))))))))))))

(** val gLIDE_CACHED_T_INIT_bits : z **)

let gLIDE_CACHED_T_INIT_bits =
  Zpos (XO (XO (XO (XO (XO (XO (XO (XO (XO (XO (XO (XO (XO (XO (XO (XO (XO
    (XO (XO (XO (XO (XO (XO (XI (XI (XI (XI (XI (XI (XI (XO
    XH)))))))))))))))))))))))))))))))

(** val sine_table : f32 list **)

let sine_table =
  map of_bits sINE_TABLE_bits

(** val attack_table : f32 list **)

let attack_table =
  map of_bits aDSR_ATTACK_TABLE_bits

(** val decay_table : f32 list **)

let decay_table =
  map of_bits aDSR_DECAY_TABLE_bits

(** val tbl : f32 list -> z -> f32 **)

let tbl t i =
  nth (Z.to_nat i) t f_0

(** val tbl_ok : f32 list -> z -> bool **)

let tbl_ok t i =
  (&&) (Z.leb Z0 i) (Z.ltb i (Z.of_nat (length t)))

type phase =
| AtRest
| Attack
| Decay
| Sustain
| Release

(** val phase_num : phase -> z **)

let phase_num = function
| AtRest -> Z0
| Attack -> Zpos XH
| Decay -> Zpos (XO XH)
| Sustain -> Zpos (XI XH)
| Release -> Zpos (XO (XO XH))

(** val mIN_TIME : f32 **)

let mIN_TIME =
  of_bits mIN_TIME_PERIOD_SEC_bits

(** val mAX_TIME : f32 **)

let mAX_TIME =
  of_bits mAX_TIME_PERIOD_SEC_bits

(** val tOT : z **)

let tOT =
  aDSR_TOT_NUM_ACCUM_BITS

(** val iDX : z **)

let iDX =
  ilog_2 aDSR_CURVE_LUT_SIZE

(** val time_from : f32 -> f32 **)

let time_from p =
  fmin (fmax p mIN_TIME) mAX_TIME

(** val sustain_from : f32 -> f32 **)

let sustain_from v =
  fmin (fmax v f_0) f_1

type adsr = { a_attack : f32; a_decay : f32; a_sustain : f32;
              a_release : f32; a_pa : pa; a_state : phase; a_von : f32;
              a_voff : f32; a_value : f32 }

(** val a_pa : adsr -> pa **)

let a_pa a =
  a.a_pa

(** val a_state : adsr -> phase **)

let a_state a =
  a.a_state

(** val a_value : adsr -> f32 **)

let a_value a =
  a.a_value

(** val adsr_new : f32 -> adsr **)

let adsr_new fs =
  { a_attack = (time_from mIN_TIME); a_decay = (time_from mIN_TIME);
    a_sustain = (sustain_from f_1); a_release = (time_from mIN_TIME); a_pa =
    (pa_new fs); a_state = AtRest; a_von = f_0; a_voff = f_0; a_value = f_0 }

(** val next_idx : z -> z **)

let next_idx i =
  Z.min (Z.add i (Zpos XH)) (Z.sub aDSR_CURVE_LUT_SIZE (Zpos XH))

(** val lut_sample : f32 list -> pa -> f32 **)

let lut_sample t p =
  let i = pa_index tOT iDX p in
  linear_interp (tbl t i) (tbl t (next_idx i)) (pa_fraction tOT iDX p)

(** val calc_value : adsr -> f32 **)

let calc_value s =
  match s.a_state with
  | AtRest -> fadd (fmul f_0 f_0) f_0
  | Attack ->
    fadd (fmul (fsub f_1 s.a_von) (lut_sample attack_table s.a_pa)) s.a_von
  | Decay ->
    fadd (fmul (fsub f_1 s.a_sustain) (lut_sample decay_table s.a_pa))
      s.a_sustain
  | Sustain -> fadd (fmul f_1 s.a_sustain) f_0
  | Release -> fadd (fmul s.a_voff (lut_sample decay_table s.a_pa)) f_0

(** val timed : phase -> bool **)

let timed = function
| AtRest -> false
| Sustain -> false
| _ -> true

(** val period_of : adsr -> f32 **)

let period_of s =
  match s.a_state with
  | Attack -> s.a_attack
  | Decay -> s.a_decay
  | Release -> s.a_release
  | _ -> mIN_TIME

(** val next_phase : phase -> phase **)

let next_phase p = match p with
| Attack -> Decay
| Decay -> Sustain
| Release -> AtRest
| _ -> p

(** val with_pa_state : adsr -> pa -> phase -> adsr **)

let with_pa_state s p st =
  { a_attack = s.a_attack; a_decay = s.a_decay; a_sustain = s.a_sustain;
    a_release = s.a_release; a_pa = p; a_state = st; a_von = s.a_von;
    a_voff = s.a_voff; a_value = s.a_value }

(** val with_value : adsr -> f32 -> adsr **)

let with_value s v =
  { a_attack = s.a_attack; a_decay = s.a_decay; a_sustain = s.a_sustain;
    a_release = s.a_release; a_pa = s.a_pa; a_state = s.a_state; a_von =
    s.a_von; a_voff = s.a_voff; a_value = v }

(** val tick_advance : adsr -> adsr **)

let tick_advance s =
  if timed s.a_state
  then let p1 = pa_set_period tOT s.a_pa (period_of s) in
       let p2 = pa_tick tOT p1 in
       let (r, p3) = pa_take_rolled p2 in
       if r
       then with_pa_state s (pa_reset p3) (next_phase s.a_state)
       else with_pa_state s p3 s.a_state
  else s

(** val adsr_tick : adsr -> adsr **)

let adsr_tick s =
  let s1 = tick_advance s in with_value s1 (calc_value s1)

(** val adsr_tick_ok : adsr -> bool **)

let adsr_tick_ok s =
  (&&)
    (if timed s.a_state
     then pa_tick_ok (pa_set_period tOT s.a_pa (period_of s))
     else true)
    (let s1 = tick_advance s in
     let i = pa_index tOT iDX s1.a_pa in
     if timed s1.a_state
     then (&&)
            ((&&) ((&&) (tbl_ok attack_table i) (tbl_ok decay_table i))
              (tbl_ok attack_table (next_idx i)))
            (tbl_ok decay_table (next_idx i))
     else Z.leb Z0 i)

(** val adsr_gate_on : adsr -> adsr **)

let adsr_gate_on s =
  match s.a_state with
  | Attack -> s
  | _ ->
    { a_attack = s.a_attack; a_decay = s.a_decay; a_sustain = s.a_sustain;
      a_release = s.a_release; a_pa = (pa_reset s.a_pa); a_state = Attack;
      a_von = s.a_value; a_voff = s.a_voff; a_value = s.a_value }

(** val adsr_gate_off : adsr -> adsr **)

let adsr_gate_off s =
  match s.a_state with
  | AtRest -> s
  | Release -> s
  | _ ->
    { a_attack = s.a_attack; a_decay = s.a_decay; a_sustain = s.a_sustain;
      a_release = s.a_release; a_pa = (pa_reset s.a_pa); a_state = Release;
      a_von = s.a_von; a_voff = s.a_value; a_value = s.a_value }

type adsr_op =
| ATick
| AGateOn
| AGateOff
| ASetAttack of f32
| ASetDecay of f32
| ASetSustain of f32
| ASetRelease of f32

(** val adsr_set : adsr -> f32 -> f32 -> f32 -> f32 -> adsr **)

let adsr_set s att dec sus rel =
  { a_attack = att; a_decay = dec; a_sustain = sus; a_release = rel; a_pa =
    s.a_pa; a_state = s.a_state; a_von = s.a_von; a_voff = s.a_voff;
    a_value = s.a_value }

(** val adsr_step : adsr -> adsr_op -> adsr **)

let adsr_step s = function
| ATick -> adsr_tick s
| AGateOn -> adsr_gate_on s
| AGateOff -> adsr_gate_off s
| ASetAttack x -> adsr_set s (time_from x) s.a_decay s.a_sustain s.a_release
| ASetDecay x -> adsr_set s s.a_attack (time_from x) s.a_sustain s.a_release
| ASetSustain x ->
  adsr_set s s.a_attack s.a_decay (sustain_from x) s.a_release
| ASetRelease x -> adsr_set s s.a_attack s.a_decay s.a_sustain (time_from x)

(** val adsr_step_ok : adsr -> adsr_op -> bool **)

let adsr_step_ok s = function
| ATick -> adsr_tick_ok s
| _ -> true

(** val lTOT : z **)

let lTOT =
  lFO_TOT_NUM_ACCUM_BITS

(** val lIDX : z **)

let lIDX =
  ilog_2 sINE_LUT_SIZE

type lfo = pa

(** val lfo_new : f32 -> lfo **)

let lfo_new =
  pa_new

type shape =
| Sine
| Triangle
| UpSaw
| DownSaw
| Square

(** val lfo_upsaw : lfo -> f32 **)

let lfo_upsaw l =
  fsub (fmul (pa_ramp lTOT l) f_2) f_1

(** val lfo_get : lfo -> shape -> f32 **)

let lfo_get l = function
| Sine ->
  let i = pa_index lTOT lIDX l in
  let j = Z.modulo (Z.add i (Zpos XH)) sINE_LUT_SIZE in
  linear_interp (tbl sine_table i) (tbl sine_table j)
    (pa_fraction lTOT lIDX l)
| Triangle ->
  let raw = fmul (pa_ramp lTOT l) f_4 in
  if flt raw f_1
  then raw
  else if flt raw f_3 then fsub f_2 raw else fsub raw f_4
| UpSaw -> lfo_upsaw l
| DownSaw -> fneg (lfo_upsaw l)
| Square -> if flt (pa_ramp lTOT l) f_half then f_1 else f_m1

(** val lfo_get_ok : lfo -> bool **)

let lfo_get_ok l =
  let i = pa_index lTOT lIDX l in
  (&&) (tbl_ok sine_table i)
    (tbl_ok sine_table (Z.modulo (Z.add i (Zpos XH)) sINE_LUT_SIZE))

type lfo_op =
| LTick
| LSetFreq of f32
| LSetPhase of f32
| LReset

(** val lfo_step : lfo -> lfo_op -> lfo **)

let lfo_step l = function
| LTick -> pa_tick lTOT l
| LSetFreq f -> pa_set_frequency lTOT l f
| LSetPhase p -> pa_set_phase lTOT l p
| LReset -> pa_reset l

(** val lfo_step_ok : lfo -> lfo_op -> bool **)

let lfo_step_ok l = function
| LTick -> pa_tick_ok l
| _ -> true

type conv = { c_note : z; c_stair : f32; c_frac : f32 }

type quant = { q_cached : conv; q_allowed : z }

(** val q_allowed : quant -> z **)

let q_allowed q =
  q.q_allowed

(** val sEMITONE : f32 **)

let sEMITONE =
  of_bits sEMITONE_WIDTH_bits

(** val hYST : f32 **)

let hYST =
  of_bits hYSTERESIS_bits

(** val v_MAX : f32 **)

let v_MAX =
  of_bits v_MAX_bits

(** val oCT : z **)

let oCT =
  oNE_OCTAVE_IN_MICROVOLTS

(** val hALF : z **)

let hALF =
  hALF_STEP_IN_MICROVOLTS

(** val conv_new : conv **)

let conv_new =
  { c_note = Z0; c_stair = f_MIN; c_frac = f_0 }

(** val quant_new : quant **)

let quant_new =
  { q_cached = conv_new; q_allowed = (Zpos (XI (XI (XI (XI (XI (XI (XI (XI
    (XI (XI (XI XH)))))))))))) }

(** val note_new : z -> z **)

let note_new n0 =
  if Z.leb n0 (Zpos (XI (XI (XO XH)))) then n0 else Zpos (XI (XI (XO XH)))

(** val bit_allowed : z -> z -> bool **)

let bit_allowed =
  Z.testbit

(** val delta : z -> z -> z **)

let delta a b =
  if Z.ltb a b then Z.sub b a else Z.sub a b

(** val octave_cands : z -> z -> z list **)

let octave_cands allowed oct =
  map (fun n0 -> Z.add (Z.mul n0 hALF) (Z.mul oct oCT))
    (filter (bit_allowed allowed) (Z0 :: ((Zpos XH) :: ((Zpos (XO
      XH)) :: ((Zpos (XI XH)) :: ((Zpos (XO (XO XH))) :: ((Zpos (XI (XO
      XH))) :: ((Zpos (XO (XI XH))) :: ((Zpos (XI (XI XH))) :: ((Zpos (XO (XO
      (XO XH)))) :: ((Zpos (XI (XO (XO XH)))) :: ((Zpos (XO (XI (XO
      XH)))) :: ((Zpos (XI (XI (XO XH)))) :: [])))))))))))))

(** val octaves_to_search : z -> z list **)

let octaves_to_search oct =
  app (if Z.leb (Zpos XH) oct then (Z.sub oct (Zpos XH)) :: [] else [])
    (app (oct :: [])
      (if Z.ltb oct mAX_OCTAVE then (Z.add oct (Zpos XH)) :: [] else []))

(** val scan : z list -> z -> z -> z -> z **)

let rec scan cands vin best bestd =
  match cands with
  | [] -> best
  | c :: rest ->
    let d = delta vin c in
    if Z.ltb d hALF
    then c
    else if Z.ltb bestd d
         then best
         else if Z.ltb d bestd
              then scan rest vin c d
              else scan rest vin best bestd

(** val vin_microvolts : f32 -> z **)

let vin_microvolts v =
  to_u32 (fmul v (of_Z oCT))

(** val find_nearest_uv : z -> z -> z **)

let find_nearest_uv allowed vin =
  let oct = Z.div vin oCT in
  scan (flat_map (octave_cands allowed) (octaves_to_search oct)) vin Z0
    u32_MAX

(** val find_nearest_note : z -> f32 -> z **)

let find_nearest_note allowed v =
  Z.modulo (Z.div (find_nearest_uv allowed (vin_microvolts v)) hALF) (Zpos
    (XO (XO (XO (XO (XO (XO (XO (XO XH)))))))))

(** val clamp_vin : f32 -> f32 **)

let clamp_vin v =
  fmin (fmax v f_0) v_MAX

(** val in_window : conv -> f32 -> bool **)

let in_window c v =
  let low = fsub c.c_stair hYST in
  let high = fadd (fadd c.c_stair sEMITONE) hYST in
  (&&) (flt low v) (flt v high)

(** val convert : quant -> f32 -> quant * conv **)

let convert q v =
  let c = q.q_cached in
  let v' = clamp_vin v in
  if (&&)
       (bit_allowed q.q_allowed
         (note_new (Z.modulo c.c_note (Zpos (XO (XO (XI XH)))))))
       (in_window c v')
  then let c' = { c_note = c.c_note; c_stair = c.c_stair; c_frac =
         (fsub v' c.c_stair) }
       in
       ({ q_cached = c'; q_allowed = q.q_allowed }, c')
  else let n0 = find_nearest_note q.q_allowed v' in
       let st = fdiv (of_Z n0) f_12 in
       let c' = { c_note = n0; c_stair = st; c_frac = (fsub v' st) } in
       ({ q_cached = c'; q_allowed = q.q_allowed }, c')

(** val allow_bits : z -> z list -> z **)

let allow_bits allowed notes =
  fold_left (fun a n0 -> Z.coq_lor a (Z.shiftl (Zpos XH) (note_new n0)))
    notes allowed

(** val forbid_bits : z -> z list -> z **)

let forbid_bits allowed notes =
  fold_left (fun a n0 ->
    Z.coq_land a
      (Z.modulo (Z.lnot (Z.shiftl (Zpos XH) (note_new n0))) (Zpos (XO (XO (XO
        (XO (XO (XO (XO (XO (XO (XO (XO (XO (XO (XO (XO (XO
        XH))))))))))))))))))) notes allowed

(** val quant_allow : quant -> z list -> quant **)

let quant_allow q notes =
  { q_cached = q.q_cached; q_allowed = (allow_bits q.q_allowed notes) }

(** val quant_forbid : quant -> z list -> quant **)

let quant_forbid q notes =
  let a = forbid_bits q.q_allowed notes in
  if Z.eqb a Z0
  then { q_cached = q.q_cached; q_allowed =
         (allow_bits a (skipn (sub (length notes) (S O)) notes)) }
  else { q_cached = q.q_cached; q_allowed = a }

(** val quant_forbid_ok : quant -> z list -> bool **)

let quant_forbid_ok q notes =
  if Z.eqb (forbid_bits q.q_allowed notes) Z0
  then negb (Nat.eqb (length notes) O)
  else true

type quant_op =
| QAllow of z list
| QForbid of z list
| QConvert of f32

(** val quant_step : quant -> quant_op -> quant **)

let quant_step q = function
| QAllow ns -> quant_allow q ns
| QForbid ns -> quant_forbid q ns
| QConvert v -> fst (convert q v)

(** val quant_step_ok : quant -> quant_op -> bool **)

let quant_step_ok q = function
| QForbid ns -> quant_forbid_ok q ns
| _ -> true

type pstate =
| Idle
| NoteOnRecvd of z
| NoteOnNoteRecvd of z * z
| NoteOffRecvd of z
| NoteOffNoteRecvd of z * z
| KeyPressureRecvd of z
| KeyPressureNoteRecvd of z * z
| ControlChangeRecvd of z
| ControlChangeControlRecvd of z * z
| ProgramChangeRecvd of z
| ChannelPressureRecvd of z
| PitchBendRecvd of z
| PitchBendLsbRecvd of z * z
| QuarterFrameRecvd
| SongPositionRecvd
| SongPositionLsbRecvd of z
| SongSelectRecvd

type msg =
| MNoteOff of z * z * z
| MNoteOn of z * z * z
| MControlChange of z * z * z
| MPitchBend of z * z * z
| MOther

(** val is_status_byte : z -> bool **)

let is_status_byte b =
  Z.eqb (Z.coq_land b (Zpos (XO (XO (XO (XO (XO (XO (XO XH))))))))) (Zpos (XO
    (XO (XO (XO (XO (XO (XO XH))))))))

(** val is_system_message : z -> bool **)

let is_system_message b =
  Z.eqb (Z.coq_land b (Zpos (XO (XO (XO (XO (XI (XI (XI XH))))))))) (Zpos (XO
    (XO (XO (XO (XI (XI (XI XH))))))))

(** val u7 : z -> z **)

let u7 b =
  if Z.ltb (Zpos (XI (XI (XI (XI (XI (XI XH))))))) b
  then Zpos (XI (XI (XI (XI (XI (XI XH))))))
  else b

(** val parse_byte : pstate -> z -> pstate * msg option **)

let parse_byte st b =
  if is_status_byte b
  then if is_system_message b
       then if Z.eqb b (Zpos (XO (XO (XO (XO (XI (XI (XI XH))))))))
            then (Idle, None)
            else if Z.eqb b (Zpos (XI (XO (XO (XO (XI (XI (XI XH))))))))
                 then (QuarterFrameRecvd, None)
                 else if Z.eqb b (Zpos (XO (XI (XO (XO (XI (XI (XI XH))))))))
                      then (SongPositionRecvd, None)
                      else if Z.eqb b (Zpos (XI (XI (XO (XO (XI (XI (XI
                                XH))))))))
                           then (SongSelectRecvd, None)
                           else if Z.eqb b (Zpos (XO (XI (XI (XO (XI (XI (XI
                                     XH))))))))
                                then (Idle, (Some MOther))
                                else if Z.eqb b (Zpos (XI (XI (XI (XO (XI (XI
                                          (XI XH))))))))
                                     then (Idle, None)
                                     else if Z.eqb b (Zpos (XO (XO (XO (XI
                                               (XI (XI (XI XH))))))))
                                          then (st, (Some MOther))
                                          else if Z.eqb b (Zpos (XI (XO (XO
                                                    (XI (XI (XI (XI XH))))))))
                                               then (st, None)
                                               else if Z.eqb b (Zpos (XO (XI
                                                         (XO (XI (XI (XI (XI
                                                         XH))))))))
                                                    then (st, (Some MOther))
                                                    else if Z.eqb b (Zpos (XI
                                                              (XI (XO (XI (XI
                                                              (XI (XI
                                                              XH))))))))
                                                         then (st, (Some
                                                                MOther))
                                                         else if Z.eqb b
                                                                   (Zpos (XO
                                                                   (XO (XI
                                                                   (XI (XI
                                                                   (XI (XI
                                                                   XH))))))))
                                                              then (st, (Some
                                                                    MOther))
                                                              else if 
                                                                    Z.eqb b
                                                                    (Zpos (XI
                                                                    (XO (XI
                                                                    (XI (XI
                                                                    (XI (XI
                                                                    XH))))))))
                                                                   then 
                                                                    (st, None)
                                                                   else 
                                                                    if 
                                                                    Z.eqb b
                                                                    (Zpos (XO
                                                                    (XI (XI
                                                                    (XI (XI
                                                                    (XI (XI
                                                                    XH))))))))
                                                                    then 
                                                                    (st,
                                                                    (Some
                                                                    MOther))
                                                                    else 
                                                                    if 
                                                                    Z.eqb b
                                                                    (Zpos (XI
                                                                    (XI (XI
                                                                    (XI (XI
                                                                    (XI (XI
                                                                    XH))))))))
                                                                    then 
                                                                    (st,
                                                                    (Some
                                                                    MOther))
                                                                    else 
                                                                    (Idle,
                                                                    None)
       else let m = Z.coq_land b (Zpos (XO (XO (XO (XO (XI (XI (XI XH))))))))
            in
            let ch = Z.coq_land b (Zpos (XI (XI (XI XH)))) in
            if Z.eqb m (Zpos (XO (XO (XO (XO (XO (XO (XO XH))))))))
            then ((NoteOffRecvd ch), None)
            else if Z.eqb m (Zpos (XO (XO (XO (XO (XI (XO (XO XH))))))))
                 then ((NoteOnRecvd ch), None)
                 else if Z.eqb m (Zpos (XO (XO (XO (XO (XO (XI (XO XH))))))))
                      then ((KeyPressureRecvd ch), None)
                      else if Z.eqb m (Zpos (XO (XO (XO (XO (XI (XI (XO
                                XH))))))))
                           then ((ControlChangeRecvd ch), None)
                           else if Z.eqb m (Zpos (XO (XO (XO (XO (XO (XO (XI
                                     XH))))))))
                                then ((ProgramChangeRecvd ch), None)
                                else if Z.eqb m (Zpos (XO (XO (XO (XO (XI (XO
                                          (XI XH))))))))
                                     then ((ChannelPressureRecvd ch), None)
                                     else if Z.eqb m (Zpos (XO (XO (XO (XO
                                               (XO (XI (XI XH))))))))
                                          then ((PitchBendRecvd ch), None)
                                          else (st, None)
  else (match st with
        | Idle -> (st, None)
        | NoteOnRecvd ch -> ((NoteOnNoteRecvd (ch, (u7 b))), None)
        | NoteOnNoteRecvd (ch, n0) ->
          ((NoteOnRecvd ch), (Some (MNoteOn (ch, n0, (u7 b)))))
        | NoteOffRecvd ch -> ((NoteOffNoteRecvd (ch, (u7 b))), None)
        | NoteOffNoteRecvd (ch, n0) ->
          ((NoteOffRecvd ch), (Some (MNoteOff (ch, n0, (u7 b)))))
        | KeyPressureRecvd ch -> ((KeyPressureNoteRecvd (ch, (u7 b))), None)
        | KeyPressureNoteRecvd (ch, _) ->
          ((KeyPressureRecvd ch), (Some MOther))
        | ControlChangeRecvd ch ->
          ((ControlChangeControlRecvd (ch, (u7 b))), None)
        | ControlChangeControlRecvd (ch, c) ->
          ((ControlChangeRecvd ch), (Some (MControlChange (ch, c, (u7 b)))))
        | PitchBendRecvd ch -> ((PitchBendLsbRecvd (ch, b)), None)
        | PitchBendLsbRecvd (ch, lsb) ->
          ((PitchBendRecvd ch), (Some (MPitchBend (ch,
            (Z.min b (Zpos (XI (XI (XI (XI (XI (XI XH)))))))),
            (Z.min lsb (Zpos (XI (XI (XI (XI (XI (XI XH))))))))))))
        | SongPositionRecvd -> ((SongPositionLsbRecvd b), None)
        | SongPositionLsbRecvd _ -> (SongPositionRecvd, (Some MOther))
        | _ -> (st, (Some MOther)))

(** val parse_byte_ok : pstate -> z -> bool **)

let parse_byte_ok _ b =
  if is_status_byte b
  then true
  else Z.leb b (Zpos (XI (XI (XI (XI (XI (XI XH)))))))

(** val value14_to_f32 : z -> z -> f32 **)

let value14_to_f32 msb lsb =
  let v =
    Z.sub
      (Z.add (Z.mul msb (Zpos (XO (XO (XO (XO (XO (XO (XO XH))))))))) lsb)
      (Zpos (XO (XO (XO (XO (XO (XO (XO (XO (XO (XO (XO (XO (XO
      XH))))))))))))))
  in
  let x =
    fdiv (of_Z v)
      (if Z.ltb Z0 v
       then of_Z (Zpos (XI (XI (XI (XI (XI (XI (XI (XI (XI (XI (XI (XI
              XH)))))))))))))
       else of_Z (Zpos (XO (XO (XO (XO (XO (XO (XO (XO (XO (XO (XO (XO (XO
              XH)))))))))))))))
  in
  fclamp x f_m1 f_1

type priority =
| PLast
| PHigh
| PLow

type rx = { r_parser : pstate; r_channel : z; r_note : z; r_velocity : 
            f32; r_pitch_bend : f32; r_mod_wheel : f32; r_volume : f32;
            r_cutoff : f32; r_resonance : f32; r_porta_time : f32;
            r_porta_en : bool; r_sustain_en : bool; r_gate : bool;
            r_rising : bool; r_falling : bool; r_retrig : bool;
            r_prio : priority; r_held : z list }

(** val rx_new : z -> rx **)

let rx_new channel =
  { r_parser = Idle; r_channel = (Z.min channel (Zpos (XI (XI (XI XH)))));
    r_note = Z0; r_velocity = f_0; r_pitch_bend = f_0; r_mod_wheel = f_0;
    r_volume = f_0; r_cutoff = f_0; r_resonance = f_0; r_porta_time = f_0;
    r_porta_en = true; r_sustain_en = true; r_gate = false; r_rising = false;
    r_falling = false; r_retrig = false; r_prio = PLast; r_held = [] }

(** val value7_to_f32 : z -> f32 **)

let value7_to_f32 v =
  fdiv (of_Z v) f_127

(** val list_max : z list -> z **)

let list_max = function
| [] -> Z0
| x :: r -> fold_left Z.max r x

(** val list_min : z list -> z **)

let list_min = function
| [] -> Z0
| x :: r -> fold_left Z.min r x

(** val choose_next_note : priority -> z list -> z **)

let choose_next_note p held =
  match p with
  | PLast -> last held Z0
  | PHigh -> list_max held
  | PLow -> list_min held

(** val push_held : z list -> z -> z list **)

let push_held held n0 =
  if Z.ltb (Z.of_nat (length held)) hELD_DOWN_NOTE_BUFFER_LEN
  then app held (n0 :: [])
  else held

(** val set_notes : rx -> z -> f32 -> bool -> bool -> bool -> z list -> rx **)

let set_notes r note vel gate rising falling held =
  { r_parser = r.r_parser; r_channel = r.r_channel; r_note = note;
    r_velocity = vel; r_pitch_bend = r.r_pitch_bend; r_mod_wheel =
    r.r_mod_wheel; r_volume = r.r_volume; r_cutoff = r.r_cutoff;
    r_resonance = r.r_resonance; r_porta_time = r.r_porta_time; r_porta_en =
    r.r_porta_en; r_sustain_en = r.r_sustain_en; r_gate = gate; r_rising =
    rising; r_falling = falling; r_retrig = r.r_retrig; r_prio = r.r_prio;
    r_held = held }

(** val set_ctrl :
    rx -> f32 -> f32 -> f32 -> f32 -> f32 -> f32 -> bool -> bool -> rx **)

let set_ctrl r pb mw vol cut res pt pe se =
  { r_parser = r.r_parser; r_channel = r.r_channel; r_note = r.r_note;
    r_velocity = r.r_velocity; r_pitch_bend = pb; r_mod_wheel = mw;
    r_volume = vol; r_cutoff = cut; r_resonance = res; r_porta_time = pt;
    r_porta_en = pe; r_sustain_en = se; r_gate = r.r_gate; r_rising =
    r.r_rising; r_falling = r.r_falling; r_retrig = r.r_retrig; r_prio =
    r.r_prio; r_held = r.r_held }

(** val handle_note_on : rx -> z -> z -> rx **)

let handle_note_on r note vel =
  let held = push_held r.r_held note in
  set_notes r (choose_next_note r.r_prio held) (value7_to_f32 vel) true
    (if (||) r.r_retrig (Nat.eqb (length held) (S O))
     then true
     else r.r_rising) false held

(** val handle_note_off : rx -> z -> rx **)

let handle_note_off r note =
  let held = filter (fun n0 -> negb (Z.eqb n0 note)) r.r_held in
  (match held with
   | [] ->
     set_notes r r.r_note r.r_velocity false false
       (if r.r_gate then true else r.r_falling) held
   | _ :: _ ->
     set_notes r (choose_next_note r.r_prio held) r.r_velocity r.r_gate
       r.r_rising r.r_falling held)

(** val handle_cc : rx -> z -> z -> rx **)

let handle_cc r c v =
  if Z.eqb c cC_MOD_WHEEL
  then set_ctrl r r.r_pitch_bend (value7_to_f32 v) r.r_volume r.r_cutoff
         r.r_resonance r.r_porta_time r.r_porta_en r.r_sustain_en
  else if Z.eqb c cC_VOLUME
       then set_ctrl r r.r_pitch_bend r.r_mod_wheel (value7_to_f32 v)
              r.r_cutoff r.r_resonance r.r_porta_time r.r_porta_en
              r.r_sustain_en
       else if Z.eqb c cC_VCF_CUTOFF
            then set_ctrl r r.r_pitch_bend r.r_mod_wheel r.r_volume
                   (value7_to_f32 v) r.r_resonance r.r_porta_time
                   r.r_porta_en r.r_sustain_en
            else if Z.eqb c cC_VCF_RESONANCE
                 then set_ctrl r r.r_pitch_bend r.r_mod_wheel r.r_volume
                        r.r_cutoff (value7_to_f32 v) r.r_porta_time
                        r.r_porta_en r.r_sustain_en
                 else if Z.eqb c cC_PORTAMENTO_TIME
                      then set_ctrl r r.r_pitch_bend r.r_mod_wheel r.r_volume
                             r.r_cutoff r.r_resonance (value7_to_f32 v)
                             r.r_porta_en r.r_sustain_en
                      else if Z.eqb c cC_PORTAMENTO_SWITCH
                           then set_ctrl r r.r_pitch_bend r.r_mod_wheel
                                  r.r_volume r.r_cutoff r.r_resonance
                                  r.r_porta_time (Z.leb u7_HALF_SCALE v)
                                  r.r_sustain_en
                           else if Z.eqb c cC_SUSTAIN_SWITCH
                                then set_ctrl r r.r_pitch_bend r.r_mod_wheel
                                       r.r_volume r.r_cutoff r.r_resonance
                                       r.r_porta_time r.r_porta_en
                                       (Z.leb u7_HALF_SCALE v)
                                else if Z.eqb c cC_ALL_CONTROLLERS_OFF
                                     then set_ctrl r f_0 f_0 f_0 f_0 f_0 f_0
                                            true true
                                     else if Z.eqb c cC_ALL_NOTES_OFF
                                          then set_notes r r.r_note
                                                 r.r_velocity false false
                                                 (if r.r_gate
                                                  then true
                                                  else r.r_falling) []
                                          else r

(** val apply_msg : rx -> msg -> rx **)

let apply_msg r = function
| MNoteOff (ch, n0, _) ->
  if Z.eqb ch r.r_channel then handle_note_off r n0 else r
| MNoteOn (ch, n0, v) ->
  if Z.eqb ch r.r_channel
  then if Z.eqb v Z0 then handle_note_off r n0 else handle_note_on r n0 v
  else r
| MControlChange (ch, c, v) ->
  if Z.eqb ch r.r_channel then handle_cc r c v else r
| MPitchBend (ch, msb, lsb) ->
  if Z.eqb ch r.r_channel
  then set_ctrl r (value14_to_f32 msb lsb) r.r_mod_wheel r.r_volume
         r.r_cutoff r.r_resonance r.r_porta_time r.r_porta_en r.r_sustain_en
  else r
| MOther -> r

(** val with_parser : rx -> pstate -> rx **)

let with_parser r p =
  { r_parser = p; r_channel = r.r_channel; r_note = r.r_note; r_velocity =
    r.r_velocity; r_pitch_bend = r.r_pitch_bend; r_mod_wheel = r.r_mod_wheel;
    r_volume = r.r_volume; r_cutoff = r.r_cutoff; r_resonance =
    r.r_resonance; r_porta_time = r.r_porta_time; r_porta_en = r.r_porta_en;
    r_sustain_en = r.r_sustain_en; r_gate = r.r_gate; r_rising = r.r_rising;
    r_falling = r.r_falling; r_retrig = r.r_retrig; r_prio = r.r_prio;
    r_held = r.r_held }

(** val rx_parse : rx -> z -> rx **)

let rx_parse r b =
  let (p, m) = parse_byte r.r_parser b in
  let r1 = with_parser r p in
  (match m with
   | Some m0 -> apply_msg r1 m0
   | None -> r1)

(** val rx_rising_gate : rx -> bool * rx **)

let rx_rising_gate r =
  (r.r_rising,
    (set_notes r r.r_note r.r_velocity r.r_gate false r.r_falling r.r_held))

(** val rx_falling_gate : rx -> bool * rx **)

let rx_falling_gate r =
  (r.r_falling,
    (set_notes r r.r_note r.r_velocity r.r_gate r.r_rising false r.r_held))

(** val rx_set_retrig : rx -> bool -> rx **)

let rx_set_retrig r b =
  { r_parser = r.r_parser; r_channel = r.r_channel; r_note = r.r_note;
    r_velocity = r.r_velocity; r_pitch_bend = r.r_pitch_bend; r_mod_wheel =
    r.r_mod_wheel; r_volume = r.r_volume; r_cutoff = r.r_cutoff;
    r_resonance = r.r_resonance; r_porta_time = r.r_porta_time; r_porta_en =
    r.r_porta_en; r_sustain_en = r.r_sustain_en; r_gate = r.r_gate;
    r_rising = r.r_rising; r_falling = r.r_falling; r_retrig = b; r_prio =
    r.r_prio; r_held = r.r_held }

(** val rx_set_prio : rx -> priority -> rx **)

let rx_set_prio r p =
  { r_parser = r.r_parser; r_channel = r.r_channel; r_note = r.r_note;
    r_velocity = r.r_velocity; r_pitch_bend = r.r_pitch_bend; r_mod_wheel =
    r.r_mod_wheel; r_volume = r.r_volume; r_cutoff = r.r_cutoff;
    r_resonance = r.r_resonance; r_porta_time = r.r_porta_time; r_porta_en =
    r.r_porta_en; r_sustain_en = r.r_sustain_en; r_gate = r.r_gate;
    r_rising = r.r_rising; r_falling = r.r_falling; r_retrig = r.r_retrig;
    r_prio = p; r_held = r.r_held }

type rx_op =
| RByte of z
| RPollRise
| RPollFall
| RSetPrio of priority
| RSetRetrig of bool

(** val rx_step : rx -> rx_op -> rx * bool option **)

let rx_step r = function
| RByte b -> ((rx_parse r b), None)
| RPollRise -> let (x, r') = rx_rising_gate r in (r', (Some x))
| RPollFall -> let (x, r') = rx_falling_gate r in (r', (Some x))
| RSetPrio p -> ((rx_set_prio r p), None)
| RSetRetrig b -> ((rx_set_retrig r b), None)

(** val rx_step_ok : rx -> rx_op -> bool **)

let rx_step_ok r = function
| RByte b -> parse_byte_ok r.r_parser b
| _ -> true

(** val t0 : f64 **)

let t0 =
  d_of_bits (Zpos (XI (XI (XI (XI (XI (XO (XO (XI (XI (XO (XO (XI (XO (XO (XI
    (XI (XO (XO (XO (XI (XI (XO (XO (XO (XO (XO (XI (XO (XI (XI (XO (XO (XI
    (XO (XI (XI (XO (XO (XI (XO (XI (XO (XI (XO (XI (XO (XI (XO (XI (XO (XI
    (XO (XI (XO (XI (XI (XI (XI (XI (XI (XI
    XH))))))))))))))))))))))))))))))))))))))))))))))))))))))))))))))

(** val t1 : f64 **)

let t1 =
  d_of_bits (Zpos (XO (XI (XO (XO (XI (XI (XI (XO (XI (XI (XI (XI (XI (XO (XO
    (XI (XI (XO (XO (XI (XI (XO (XO (XI (XO (XO (XO (XI (XI (XI (XO (XO (XI
    (XO (XI (XI (XI (XI (XI (XI (XO (XI (XO (XO (XI (XO (XO (XO (XI (XO (XO
    (XO (XO (XO (XI (XI (XI (XI (XI (XI (XI
    XH))))))))))))))))))))))))))))))))))))))))))))))))))))))))))))))

(** val t2 : f64 **)

let t2 =
  d_of_bits (Zpos (XO (XI (XI (XI (XI (XI (XI (XI (XO (XI (XO (XI (XI (XO (XI
    (XO (XO (XI (XI (XO (XO (XO (XO (XI (XI (XO (XI (XI (XI (XO (XO (XO (XI
    (XO (XO (XI (XO (XO (XI (XI (XO (XO (XI (XO (XI (XO (XI (XO (XI (XI (XO
    (XI (XO (XI (XO (XI (XI (XI (XI (XI (XI
    XH))))))))))))))))))))))))))))))))))))))))))))))))))))))))))))))

(** val t3 : f64 **)

let t3 =
  d_of_bits (Zpos (XO (XI (XI (XI (XO (XO (XI (XI (XI (XI (XO (XO (XI (XI (XO
    (XO (XO (XO (XI (XI (XO (XO (XO (XI (XO (XO (XO (XO (XI (XO (XO (XI (XI
    (XI (XO (XO (XI (XI (XI (XI (XI (XO (XI (XI (XI (XO (XO (XO (XI (XO (XO
    (XI (XI (XO (XO (XI (XI (XI (XI (XI (XI
    XH))))))))))))))))))))))))))))))))))))))))))))))))))))))))))))))

(** val t4 : f64 **)

let t4 =
  d_of_bits (Zpos (XO (XI (XI (XI (XO (XO (XI (XO (XO (XO (XI (XO (XI (XI (XI
    (XI (XO (XO (XI (XI (XO (XI (XI (XI (XO (XO (XI (XI (XI (XI (XI (XI (XI
    (XO (XI (XI (XO (XI (XO (XI (XI (XO (XI (XI (XI (XO (XI (XO (XO (XO (XO
    (XI (XO (XI (XI (XO (XI (XI (XI (XI (XI
    XH))))))))))))))))))))))))))))))))))))))))))))))))))))))))))))))

(** val t5 : f64 **)

let t5 =
  d_of_bits (Zpos (XI (XO (XI (XI (XO (XO (XI (XI (XI (XI (XO (XI (XI (XO (XO
    (XO (XI (XI (XI (XO (XI (XO (XO (XI (XI (XI (XI (XI (XI (XI (XO (XI (XI
    (XO (XO (XI (XI (XI (XO (XI (XO (XI (XO (XO (XO (XI (XI (XO (XI (XI (XO
    (XO (XO (XO (XO (XI (XI (XI (XI (XI (XI
    XH))))))))))))))))))))))))))))))))))))))))))))))))))))))))))))))

(** val t1_PIO2 : f64 **)

let t1_PIO2 =
  d_of_bits (Zpos (XO (XO (XO (XI (XI (XO (XO (XO (XI (XO (XI (XI (XO (XI (XO
    (XO (XO (XO (XI (XO (XO (XO (XI (XO (XO (XO (XI (XO (XI (XO (XI (XO (XI
    (XI (XO (XI (XI (XI (XI (XI (XI (XO (XO (XO (XO (XI (XO (XO (XI (XO (XO
    (XI (XI (XI (XI (XI (XI (XI (XI (XI (XI
    XH))))))))))))))))))))))))))))))))))))))))))))))))))))))))))))))

(** val k_tanf : f64 -> bool -> f32 **)

let k_tanf x odd0 =
  let z0 = dmul x x in
  let r = dadd t4 (dmul z0 t5) in
  let t = dadd t2 (dmul z0 t3) in
  let w = dmul z0 z0 in
  let s = dmul z0 x in
  let u = dadd t0 (dmul z0 t1) in
  let r0 = dadd (dadd x (dmul s u)) (dmul (dmul s w) (dadd t (dmul w r))) in
  f64_to_f32 (if odd0 then ddiv (d_of_Z (Zneg XH)) r0 else r0)

(** val tanf : f32 -> f32 **)

let tanf x =
  match to_bits x with
  | Some b ->
    let sign = Z.testbit b (Zpos (XI (XI (XI (XI XH))))) in
    let ix =
      Z.coq_land b (Zpos (XI (XI (XI (XI (XI (XI (XI (XI (XI (XI (XI (XI (XI
        (XI (XI (XI (XI (XI (XI (XI (XI (XI (XI (XI (XI (XI (XI (XI (XI (XI
        XH)))))))))))))))))))))))))))))))
    in
    let x64 = f32_to_f64 x in
    if Z.leb ix (Zpos (XO (XI (XO (XI (XI (XO (XI (XI (XI (XI (XI (XI (XO (XO
         (XO (XO (XI (XO (XO (XI (XO (XO (XI (XO (XI (XI (XI (XI (XI
         XH))))))))))))))))))))))))))))))
    then if Z.ltb ix (Zpos (XO (XO (XO (XO (XO (XO (XO (XO (XO (XO (XO (XO
              (XO (XO (XO (XO (XO (XO (XO (XO (XO (XO (XO (XI (XI (XO (XO (XI
              (XI XH))))))))))))))))))))))))))))))
         then x
         else k_tanf x64 false
    else if Z.leb ix (Zpos (XI (XI (XO (XO (XO (XI (XI (XI (XI (XI (XO (XI
              (XO (XO (XI (XI (XO (XI (XI (XO (XI (XO (XO (XO (XO (XO (XO (XO
              (XO (XO XH)))))))))))))))))))))))))))))))
         then k_tanf (if sign then dadd x64 t1_PIO2 else dsub x64 t1_PIO2)
                true
         else B754_nan
  | None -> B754_nan

type coeffs = { k_a1 : f32; k_a2 : f32; k_b0 : f32; k_b1 : f32; k_b2 : f32 }

type df1 = { d_y1 : f32; d_y2 : f32; d_x1 : f32; d_x2 : f32; d_c : coeffs }

(** val d_c : df1 -> coeffs **)

let d_c d =
  d.d_c

type glide = { g_min_fc : f32; g_max_fc : f32; g_fs : f32; g_lpf : df1;
               g_cached_t : f32 }

(** val g_lpf : glide -> df1 **)

let g_lpf g =
  g.g_lpf

(** val f_PI : f32 **)

let f_PI =
  of_bits (Zpos (XI (XI (XO (XI (XI (XO (XI (XI (XI (XI (XI (XI (XO (XO (XO
    (XO (XI (XO (XO (XI (XO (XO (XI (XO (XO (XO (XO (XO (XO (XO
    XH)))))))))))))))))))))))))))))))

(** val tWO_PI : f32 **)

let tWO_PI =
  fmul f_2 f_PI

(** val hz_ok : f32 -> bool **)

let hz_ok x =
  flt f_0 x

(** val from_params : f32 -> f32 -> coeffs option **)

let from_params fs f0 =
  if flt fs (fmul f_2 f0)
  then None
  else let omega = fdiv (fmul tWO_PI f0) fs in
       let omega_t = tanf (fdiv omega f_2) in
       let a0 = fadd f_1 omega_t in
       Some { k_a1 = (fdiv (fsub omega_t f_1) a0); k_a2 = f_0; k_b0 =
       (fdiv omega_t a0); k_b1 = (fdiv omega_t a0); k_b2 = f_0 }

(** val df1_new : coeffs -> df1 **)

let df1_new c =
  { d_y1 = f_0; d_y2 = f_0; d_x1 = f_0; d_x2 = f_0; d_c = c }

(** val df1_run : df1 -> f32 -> df1 * f32 **)

let df1_run d x =
  let c = d.d_c in
  let out =
    fsub
      (fsub
        (fadd (fadd (fmul c.k_b0 x) (fmul c.k_b1 d.d_x1))
          (fmul c.k_b2 d.d_x2)) (fmul c.k_a1 d.d_y1)) (fmul c.k_a2 d.d_y2)
  in
  ({ d_y1 = out; d_y2 = d.d_y1; d_x1 = x; d_x2 = d.d_x1; d_c = c }, out)

(** val gL_DIV : f32 **)

let gL_DIV =
  of_bits gLIDE_MAX_FC_DIVISOR_bits

(** val gL_MIN_FC : f32 **)

let gL_MIN_FC =
  of_bits gLIDE_MIN_FC_bits

(** val gL_EPS : f32 **)

let gL_EPS =
  of_bits gLIDE_EPSILON_bits

(** val gL_T0 : f32 **)

let gL_T0 =
  of_bits gLIDE_CACHED_T_INIT_bits

(** val glide_new : f32 -> glide option **)

let glide_new fs =
  let max_fc = fdiv fs gL_DIV in
  if (&&) (hz_ok fs) (hz_ok max_fc)
  then (match from_params fs max_fc with
        | Some c ->
          Some { g_min_fc = gL_MIN_FC; g_max_fc = max_fc; g_fs = fs; g_lpf =
            (df1_new c); g_cached_t = gL_T0 }
        | None -> None)
  else None

(** val glide_f0 : glide -> f32 -> f32 **)

let glide_f0 g t =
  fmin (fmax (fdiv f_1 t) g.g_min_fc) g.g_max_fc

(** val glide_set_time : glide -> f32 -> glide option **)

let glide_set_time g t =
  if is_almost t g.g_cached_t gL_EPS
  then Some g
  else let f0 = glide_f0 g t in
       if hz_ok f0
       then (match from_params g.g_fs f0 with
             | Some c ->
               let d = g.g_lpf in
               Some { g_min_fc = g.g_min_fc; g_max_fc = g.g_max_fc; g_fs =
               g.g_fs; g_lpf = { d_y1 = d.d_y1; d_y2 = d.d_y2; d_x1 = d.d_x1;
               d_x2 = d.d_x2; d_c = c }; g_cached_t = t }
             | None -> None)
       else None

(** val glide_process : glide -> f32 -> glide * f32 **)

let glide_process g x =
  let (d, y) = df1_run g.g_lpf x in
  ({ g_min_fc = g.g_min_fc; g_max_fc = g.g_max_fc; g_fs = g.g_fs; g_lpf = d;
  g_cached_t = g.g_cached_t }, y)

type histbuf = { hb_data : f32 list; hb_write_at : nat; hb_filled : bool }

(** val hb_new : nat -> histbuf **)

let hb_new cap =
  { hb_data = (repeat f_0 cap); hb_write_at = O; hb_filled = false }

(** val set_nth : f32 list -> nat -> f32 -> f32 list **)

let rec set_nth l i x =
  match l with
  | [] -> []
  | y :: r -> (match i with
               | O -> x :: r
               | S i' -> y :: (set_nth r i' x))

(** val hb_write : nat -> histbuf -> f32 -> histbuf **)

let hb_write cap h x =
  let d = set_nth h.hb_data h.hb_write_at x in
  let w = S h.hb_write_at in
  if Nat.eqb w cap
  then { hb_data = d; hb_write_at = O; hb_filled = true }
  else { hb_data = d; hb_write_at = w; hb_filled = h.hb_filled }

(** val hb_oldest_ordered : histbuf -> f32 list **)

let hb_oldest_ordered h =
  if h.hb_filled
  then app (skipn h.hb_write_at h.hb_data) (firstn h.hb_write_at h.hb_data)
  else firstn h.hb_write_at h.hb_data

type ribbon = { rb_cap : nat; rb_boundary : f32; rb_err : f32; rb_val : 
                f32; rb_pressing : bool; rb_just_pressed : bool;
                rb_just_released : bool; rb_buf : histbuf; rb_ignore : 
                z; rb_discard : z; rb_received : z; rb_written : z }

(** val rb_pressing : ribbon -> bool **)

let rb_pressing r =
  r.rb_pressing

(** val usec_to_samples : z -> z -> z **)

let usec_to_samples fs_u32 usec =
  Z.div (Z.mul fs_u32 usec) (Zpos (XO (XO (XO (XO (XO (XO (XI (XO (XO (XI (XO
    (XO (XO (XO (XI (XO (XI (XI (XI XH))))))))))))))))))))

(** val usec_to_samples_ok : z -> z -> bool **)

let usec_to_samples_ok fs_u32 usec =
  Z.leb (Z.mul fs_u32 usec) u32_MAX

(** val ribbon_new : nat -> f32 -> f32 -> f32 -> f32 -> ribbon **)

let ribbon_new cap fs softpot dropper pullup =
  let fsu = to_u32 fs in
  { rb_cap = cap; rb_boundary =
  (fsub f_1 (fdiv dropper (fadd dropper softpot))); rb_err =
  (fdiv (fadd softpot dropper) pullup); rb_val = f_0; rb_pressing = false;
  rb_just_pressed = false; rb_just_released = false; rb_buf = (hb_new cap);
  rb_ignore = (usec_to_samples fsu rIBBON_FALL_TIME_USEC); rb_discard =
  (usec_to_samples fsu rIBBON_RISE_TIME_USEC); rb_received = Z0; rb_written =
  Z0 }

(** val ribbon_new_ok : nat -> f32 -> bool **)

let ribbon_new_ok cap fs =
  let fsu = to_u32 fs in
  (&&)
    ((&&) (negb (Nat.eqb cap O))
      (usec_to_samples_ok fsu rIBBON_FALL_TIME_USEC))
    (usec_to_samples_ok fsu rIBBON_RISE_TIME_USEC)

(** val error_estimate : ribbon -> f32 -> f32 **)

let error_estimate r pos =
  fmul (fsub pos (fmul pos pos)) r.rb_err

(** val ribbon_average : ribbon -> histbuf -> f32 **)

let ribbon_average r h =
  let num_to_take = Z.sub (Z.of_nat r.rb_cap) r.rb_discard in
  let mean =
    fdiv (fsum (firstn (Z.to_nat num_to_take) (hb_oldest_ordered h)))
      (of_Z num_to_take)
  in
  fsub mean (error_estimate r mean)

(** val ribbon_poll : ribbon -> f32 -> ribbon **)

let ribbon_poll r x =
  if flt x r.rb_boundary
  then let received = Z.min (Z.add r.rb_received (Zpos XH)) r.rb_ignore in
       if Z.leb r.rb_ignore received
       then let buf = hb_write r.rb_cap r.rb_buf x in
            let written =
              Z.min (Z.add r.rb_written (Zpos XH)) (Z.of_nat r.rb_cap)
            in
            if Z.eqb written (Z.of_nat r.rb_cap)
            then { rb_cap = r.rb_cap; rb_boundary = r.rb_boundary; rb_err =
                   r.rb_err; rb_val = (ribbon_average r buf); rb_pressing =
                   true; rb_just_pressed =
                   (if r.rb_pressing then r.rb_just_pressed else true);
                   rb_just_released = r.rb_just_released; rb_buf = buf;
                   rb_ignore = r.rb_ignore; rb_discard = r.rb_discard;
                   rb_received = received; rb_written = written }
            else { rb_cap = r.rb_cap; rb_boundary = r.rb_boundary; rb_err =
                   r.rb_err; rb_val = r.rb_val; rb_pressing = r.rb_pressing;
                   rb_just_pressed = r.rb_just_pressed; rb_just_released =
                   r.rb_just_released; rb_buf = buf; rb_ignore = r.rb_ignore;
                   rb_discard = r.rb_discard; rb_received = received;
                   rb_written = written }
       else { rb_cap = r.rb_cap; rb_boundary = r.rb_boundary; rb_err =
              r.rb_err; rb_val = r.rb_val; rb_pressing = r.rb_pressing;
              rb_just_pressed = r.rb_just_pressed; rb_just_released =
              r.rb_just_released; rb_buf = r.rb_buf; rb_ignore = r.rb_ignore;
              rb_discard = r.rb_discard; rb_received = received; rb_written =
              r.rb_written }
  else { rb_cap = r.rb_cap; rb_boundary = r.rb_boundary; rb_err = r.rb_err;
         rb_val = r.rb_val; rb_pressing = false; rb_just_pressed =
         r.rb_just_pressed; rb_just_released =
         (if r.rb_pressing then true else r.rb_just_released); rb_buf =
         r.rb_buf; rb_ignore = r.rb_ignore; rb_discard = r.rb_discard;
         rb_received = Z0; rb_written = Z0 }

(** val ribbon_poll_ok : ribbon -> f32 -> bool **)

let ribbon_poll_ok r x =
  if flt x r.rb_boundary
  then let received = Z.min (Z.add r.rb_received (Zpos XH)) r.rb_ignore in
       if Z.leb r.rb_ignore received
       then let written =
              Z.min (Z.add r.rb_written (Zpos XH)) (Z.of_nat r.rb_cap)
            in
            if Z.eqb written (Z.of_nat r.rb_cap)
            then Z.leb r.rb_discard (Z.of_nat r.rb_cap)
            else true
       else true
  else true

(** val ribbon_value : ribbon -> f32 **)

let ribbon_value r =
  fmin (fdiv r.rb_val r.rb_boundary) f_1

(** val ribbon_just_pressed : ribbon -> bool * ribbon **)

let ribbon_just_pressed r =
  (r.rb_just_pressed, { rb_cap = r.rb_cap; rb_boundary = r.rb_boundary;
    rb_err = r.rb_err; rb_val = r.rb_val; rb_pressing = r.rb_pressing;
    rb_just_pressed = false; rb_just_released = r.rb_just_released; rb_buf =
    r.rb_buf; rb_ignore = r.rb_ignore; rb_discard = r.rb_discard;
    rb_received = r.rb_received; rb_written = r.rb_written })

(** val ribbon_just_released : ribbon -> bool * ribbon **)

let ribbon_just_released r =
  (r.rb_just_released, { rb_cap = r.rb_cap; rb_boundary = r.rb_boundary;
    rb_err = r.rb_err; rb_val = r.rb_val; rb_pressing = r.rb_pressing;
    rb_just_pressed = r.rb_just_pressed; rb_just_released = false; rb_buf =
    r.rb_buf; rb_ignore = r.rb_ignore; rb_discard = r.rb_discard;
    rb_received = r.rb_received; rb_written = r.rb_written })

(** val sample_rate_to_capacity : z -> z **)

let sample_rate_to_capacity fs =
  Z.add
    (Z.add
      (Z.div (Z.mul fs mIN_CAPTURE_TIME_USEC) (Zpos (XO (XO (XO (XO (XO (XO
        (XI (XO (XO (XI (XO (XO (XO (XO (XI (XO (XI (XI (XI
        XH)))))))))))))))))))))
      (Z.div (Z.mul fs rIBBON_RISE_TIME_USEC) (Zpos (XO (XO (XO (XO (XO (XO
        (XI (XO (XO (XI (XO (XO (XO (XO (XI (XO (XI (XI (XI
        XH)))))))))))))))))))))) (Zpos XH)

(** val sample_rate_to_capacity_ok : z -> bool **)

let sample_rate_to_capacity_ok fs =
  (&&) (Z.leb (Z.mul fs mIN_CAPTURE_TIME_USEC) u32_MAX)
    (Z.leb (Z.mul fs rIBBON_RISE_TIME_USEC) u32_MAX)

type ribbon_op =
| RbPoll of f32
| RbJustPressed
| RbJustReleased

(** val ribbon_step : ribbon -> ribbon_op -> ribbon * bool option **)

let ribbon_step r = function
| RbPoll x -> ((ribbon_poll r x), None)
| RbJustPressed -> let (b, r') = ribbon_just_pressed r in (r', (Some b))
| RbJustReleased -> let (b, r') = ribbon_just_released r in (r', (Some b))

(** val ribbon_step_ok : ribbon -> ribbon_op -> bool **)

let ribbon_step_ok r = function
| RbPoll x -> ribbon_poll_ok r x
| _ -> true
