(** Declarative specifications for the ribbon controller (properties C15, C16). *)
From Coq Require Import ZArith Bool List Reals.
Import ListNotations.
From SU Require Import F32 F32Lemmas.
From SU.gen Require Import Consts.
From SU.Model Require Import Ribbon.
Open Scope Z_scope.

Definition in_range (r : ribbon) (x : f32) : bool := flt x (rb_boundary r).

(** length of the maximal suffix of in-range samples *)
Fixpoint run_len_rev (inr : f32 -> bool) (rsamples : list f32) : Z :=
  match rsamples with
  | [] => 0
  | x :: older => if inr x then 1 + run_len_rev inr older else 0
  end.
Definition run_len (inr : f32 -> bool) (samples : list f32) : Z := run_len_rev inr (rev samples).

(** samples skipped at the start of a run before the buffer is written: the code starts
    writing with the I-th in-range sample, so I-1 samples are skipped (none for I = 0) *)
Definition skip (ignore : Z) : Z := Z.max (ignore - 1) 0.

Definition polls (r : ribbon) (samples : list f32) : ribbon := fold_left ribbon_poll samples r.

(** the in-range samples of the current run, oldest first *)
Fixpoint current_run_rev (inr : f32 -> bool) (rsamples : list f32) : list f32 :=
  match rsamples with
  | [] => []
  | x :: older => if inr x then x :: current_run_rev inr older else []
  end.
Definition current_run (inr : f32 -> bool) (samples : list f32) : list f32 :=
  rev (current_run_rev inr (rev samples)).

Definition lastn {A} (n : nat) (l : list A) : list A := skipn (length l - n) l.

(** ** operations with edge polls (C15 edge latches) *)
Inductive rop := RPoll (x : f32) | RJustPressed | RJustReleased.
Definition rstep (r : ribbon) (o : rop) : ribbon * option bool :=
  match o with
  | RPoll x => (ribbon_poll r x, None)
  | RJustPressed => let '(b, r') := ribbon_just_pressed r in (r', Some b)
  | RJustReleased => let '(b, r') := ribbon_just_released r in (r', Some b)
  end.
Definition rrun (r : ribbon) (h : list rop) : ribbon := fold_left (fun r o => fst (rstep r o)) h r.

(** did [finger_is_pressing] go from [from] to [negb from] at some poll inside [h]
    (started in state [r])? *)
Fixpoint changed (from : bool) (r : ribbon) (h : list rop) : bool :=
  match h with
  | [] => false
  | o :: rest =>
      let r' := fst (rstep r o) in
      (Bool.eqb (rb_pressing r) from && Bool.eqb (rb_pressing r') (negb from)) || changed from r' rest
  end.

(** the operations after the last poll of the given flag *)
Fixpoint since_last (is_poll : rop -> bool) (h : list rop) (acc : list rop) : list rop :=
  match h with
  | [] => acc
  | o :: rest => if is_poll o then since_last is_poll rest [] else since_last is_poll rest (acc ++ [o])
  end.


(** ** C16: the value is a function of the capture window only *)

(** corrected average of a window [W] (the oldest [cap - discard] samples of it) *)
Definition window_value (r : ribbon) (W : list f32) : f32 :=
  let k := Z.of_nat (rb_cap r) - rb_discard r in
  let mean := fdiv (fsum (firstn (Z.to_nat k) W)) (of_Z k) in
  fsub mean (error_estimate r mean).

(** the capture window of a history: the last [cap] samples of the current run *)
Definition window (r : ribbon) (samples : list f32) : list f32 :=
  lastn (rb_cap r) (current_run (in_range r) samples).

(** ** C16: the value itself (floating point) *)

(** a sane configuration: in-range boundary in (0, 1], pull-up >= divider resistance
    (error constant in [0, 1]), fewer discarded samples than the capacity, capacity at most
    4096 (the helper gives 3265 at 192 kHz) *)
Definition config_ok (r0 : ribbon) : Prop :=
  fin (rb_boundary r0) /\ (0 < R32 (rb_boundary r0) <= 1)%R /\
  fin (rb_err r0) /\ (0 <= R32 (rb_err r0) <= 1)%R /\
  0 <= rb_discard r0 < Z.of_nat (rb_cap r0) /\ (0 < rb_cap r0 <= 4096)%nat.

(** samples as documented: finite numbers in [0, 1] *)
Definition sample_ok (x : f32) : Prop := fin x /\ (0 <= R32 x <= 1)%R.

(** real-valued reference: pull-up correction of a position p, and the mean of a window *)
Definition corr_R (e p : R) : R := (p - (p - p * p) * e)%R.
Definition mean_R (W : list f32) : R :=
  (fold_right (fun x acc => R32 x + acc) 0 W / INR (length W))%R.

(** the rounding tolerance of the f32 average over at most [cap] samples *)
Definition tau (r0 : ribbon) : R := ((INR (rb_cap r0) + 16) / 16777216)%R.

