(** Generic "no step of a history panics" predicate used by C17. *)
From Coq Require Import ZArith Bool List Reals.
Import ListNotations.
From SU Require Import F32 F32Lemmas.
From SU.Model Require Import PhaseAcc Lfo Midi Glide.
From SU.Spec Require Import MidiSpec.

Section Run.
Context {S O : Type}.
Variable ok : S -> O -> bool.      (* does this step avoid every panic site? *)
Variable step : S -> O -> S.

Fixpoint steps_ok (s : S) (ops : list O) : bool :=
  match ops with
  | [] => true
  | o :: r => ok s o && steps_ok (step s o) r
  end.
End Run.

(** ** in-range arguments per module (C17) *)
Open Scope R_scope.

Definition lfo_op_ok (fs : f32) (o : lfo_op) : Prop :=
  match o with LSetFreq f => fin f /\ 0 <= R32 f <= R32 fs | _ => True end.

Definition rx_op_ok (o : rx_op) : Prop := match o with RByte b => is_byte b | _ => True end.

Definition glide_op_ok (o : glide_op) : Prop :=
  match o with GSetTime t => fin t /\ 0 <= R32 t | GProcess _ => True end.

Fixpoint glide_run (g : option glide) (ops : list glide_op) : option glide :=
  match ops with
  | [] => g
  | o :: r => match g with Some g' => glide_run (glide_step g' o) r | None => None end
  end.
