(** Shared definitions for the ADSR properties (C01, C02, C03, C17). *)
From Coq Require Import ZArith Bool List Reals.
Import ListNotations.
From Flocq Require Import Core.
From SU Require Import F32 F32Lemmas.
From SU.gen Require Import Consts.
From SU.Model Require Import Utils PhaseAcc Tables Adsr.
Open Scope R_scope.

(** a finite f32 inside a real interval *)
Definition fin_in (x : f32) (lo hi : R) : Prop := fin x /\ lo <= R32 x <= hi.

(** the state invariant of a reachable envelope (for any sample rate), in two parts:
    the clock part (times, counter bookkeeping) ... *)
Record InvC (s : adsr) : Prop := {
  inv_attack : fin_in (a_attack s) (R32 MIN_TIME) (R32 MAX_TIME);
  inv_decay : fin_in (a_decay s) (R32 MIN_TIME) (R32 MAX_TIME);
  inv_release : fin_in (a_release s) (R32 MIN_TIME) (R32 MAX_TIME);
  inv_acc : (0 <= pa_acc (a_pa s) < 16777216)%Z;
  inv_last : pa_last (a_pa s) = pa_acc (a_pa s);
  inv_rolled : pa_rolled (a_pa s) = false;
  inv_untimed_acc : timed (a_state s) = false -> pa_acc (a_pa s) = 0%Z
}.

(** ... and the level part (every level is a finite number in [0, 1]) *)
Record InvV (s : adsr) : Prop := {
  inv_sustain : fin_in (a_sustain s) 0 1;
  inv_value : fin_in (a_value s) 0 1;
  inv_von : fin_in (a_von s) 0 1;
  inv_voff : fin_in (a_voff s) 0 1
}.

Definition Inv (s : adsr) : Prop := InvC s /\ InvV s.

(** documented sample rates *)
Definition fs_ok (fs : f32) : Prop := fin_in fs 100 192000.

(** the per-tick increment in force in state [s]: [2^24 * (1/T) / fs] truncated to u32,
    recomputed on every tick from the time of the current phase *)
Definition inc_of (fs t : f32) : Z :=
  to_u32 (fdiv (fmul (of_Z 16777216) (fdiv f_1 t)) fs).
Definition adsr_inc (s : adsr) : Z := inc_of (pa_fs (a_pa s)) (period_of s).

(** the output is "in sync": it was computed at the current counter position with the
    current parameters (true after every tick and after every gate event) *)
Definition synced (s : adsr) : Prop := R32 (a_value s) = R32 (calc_value s).

(** number of ticks a phase with constant increment lasts: the least n >= 1 with n*inc >= 2^24 *)
Definition ticks_for (inc : Z) : Z := (16777216 + inc - 1) / inc.

(** the documented RC curves (non_rust_utils/lookup_table_gen.py: attack target 3,
    4 time constants), as functions of the position x in [0,1] inside the phase *)
Definition RC_attack (x : R) : R := (1 - exp (- (4 * x / 3))) / (1 - exp (- (4 / 3))).
Definition RC_decay (x : R) : R := (exp (- (4 * x)) - exp (- 4)) / (1 - exp (- 4)).

(** position inside the phase *)
Definition pos (s : adsr) : R := IZR (pa_acc (a_pa s)) / 16777216.

(** the ideal output of a timed phase at the current position: the RC curve stretched
    between the level at which the phase started and the phase's target *)
Definition ideal (s : adsr) : R :=
  match a_state s with
  | Attack => R32 (a_von s) + (1 - R32 (a_von s)) * RC_attack (pos s)
  | Decay => R32 (a_sustain s) + (1 - R32 (a_sustain s)) * RC_decay (pos s)
  | Release => R32 (a_voff s) * RC_decay (pos s)
  | Sustain => R32 (a_sustain s)
  | AtRest => 0
  end.
