(** Declarative specifications for the MIDI receiver (properties C04, C05, C06).
    Everything here is stated by position in the history, not as an incremental
    state machine; the theorems in Props/C04.v, C05.v, C06.v relate the model
    (Model/Midi.v) to these definitions. *)
From Coq Require Import ZArith Bool List.
Import ListNotations.
From SU Require Import F32.
From SU.gen Require Import Consts.
From SU.Model Require Import Midi.
Open Scope Z_scope.

(** ** Message-level operations *)
Inductive mop :=
| OMsg (m : msg) | OPollRise | OPollFall | OSetPrio (p : priority) | OSetRetrig (b : bool).

Definition mstep (r : rx) (o : mop) : rx * option bool :=
  match o with
  | OMsg m => (apply_msg r m, None)
  | OPollRise => let '(x, r') := rx_rising_gate r in (r', Some x)
  | OPollFall => let '(x, r') := rx_falling_gate r in (r', Some x)
  | OSetPrio p => (rx_set_prio r p, None)
  | OSetRetrig b => (rx_set_retrig r b, None)
  end.

Definition mrun_from (r : rx) (h : list mop) : rx := fold_left (fun r o => fst (mstep r o)) h r.
Definition mrun (ch : Z) (h : list mop) : rx := mrun_from (rx_new ch) h.

(** the value returned by the operation at the end of [h ++ [o]] *)
Definition mout (ch : Z) (h : list mop) (o : mop) : option bool := snd (mstep (mrun ch h) o).

(** ** C04: which notes are held, by position *)

(** a note-on (velocity > 0) for note [n] on the listened channel *)
Definition note_on_of (ch : Z) (o : mop) : option Z :=
  match o with
  | OMsg (MNoteOn c n v) => if (c =? ch) && negb (v =? 0) then Some n else None
  | _ => None
  end.

(** does [o] cancel an outstanding note-on for [n]: note-off for [n], note-on with
    velocity 0 for [n], or All-Notes-Off, on the listened channel *)
Definition cancels (ch n : Z) (o : mop) : bool :=
  match o with
  | OMsg (MNoteOff c k _) => (c =? ch) && (k =? n)
  | OMsg (MNoteOn c k v) => (c =? ch) && (k =? n) && (v =? 0)
  | OMsg (MControlChange c cc _) => (c =? ch) && (cc =? CC_ALL_NOTES_OFF)
  | _ => false
  end.

(** the outstanding note-ons of a history, in order of arrival: the note-on at a
    position is outstanding iff nothing after it cancels it *)
Fixpoint held_spec (ch : Z) (h : list mop) : list Z :=
  match h with
  | [] => []
  | o :: rest =>
      match note_on_of ch o with
      | Some n => if existsb (cancels ch n) rest then held_spec ch rest else n :: held_spec ch rest
      | None => held_spec ch rest
      end
  end.

(** at most [HELD_DOWN_NOTE_BUFFER_LEN] note-ons are outstanding after every prefix *)
Definition within_capacity (ch : Z) (h : list mop) : Prop :=
  forall k : nat, Z.of_nat (length (held_spec ch (firstn k h))) <= HELD_DOWN_NOTE_BUFFER_LEN.

(** is [o] a note message (note-on incl. velocity 0, or note-off) on the listened channel *)
Definition is_note_msg (ch : Z) (o : mop) : bool :=
  match o with
  | OMsg (MNoteOn c _ _) => c =? ch
  | OMsg (MNoteOff c _ _) => c =? ch
  | _ => false
  end.

(** the priority in force after a history, newest operation first *)
Fixpoint prio_spec_rev (rh : list mop) : priority :=
  match rh with
  | [] => PLast
  | OSetPrio p :: _ => p
  | _ :: older => prio_spec_rev older
  end.

(** the selected note, newest operation first: at the latest note message that left
    at least one note outstanding, the most recent / highest / lowest outstanding note
    by the priority in force at that moment *)
Fixpoint note_spec_rev (ch : Z) (rh : list mop) : Z :=
  match rh with
  | [] => 0
  | o :: older =>
      let held := held_spec ch (rev rh) in
      if is_note_msg ch o && negb (match held with [] => true | _ => false end)
      then choose_next_note (prio_spec_rev older) held
      else note_spec_rev ch older
  end.
Definition note_spec (ch : Z) (h : list mop) : Z := note_spec_rev ch (rev h).

(** velocity of the most recent note-on with velocity > 0, newest first *)
Fixpoint velocity_spec_rev (ch : Z) (rh : list mop) : Z :=
  match rh with
  | [] => 0
  | OMsg (MNoteOn c _ v) :: older =>
      if (c =? ch) && negb (v =? 0) then v else velocity_spec_rev ch older
  | _ :: older => velocity_spec_rev ch older
  end.
Definition velocity_spec (ch : Z) (h : list mop) : f32 :=
  match velocity_spec_rev ch (rev h) with
  | 0 => f_0
  | v => fdiv (of_Z v) f_127
  end.

(** ** C05: edges by position *)

Definition gate_spec (ch : Z) (h : list mop) : bool :=
  match held_spec ch h with [] => false | _ => true end.

(** position [j] (0-based) of [h] is a gate fall: the gate was high before it and low after *)
Definition falls_at (ch : Z) (h : list mop) (j : nat) : bool :=
  gate_spec ch (firstn j h) && negb (gate_spec ch (firstn (S j) h)).

(** retrigger mode in force after a history, newest first *)
Fixpoint retrig_spec_rev (rh : list mop) : bool :=
  match rh with
  | [] => false
  | OSetRetrig b :: _ => b
  | _ :: older => retrig_spec_rev older
  end.

(** position [j] raises a rising edge: a note-on with velocity > 0 that found the gate low
    or arrived in retrigger mode *)
Definition rises_at (ch : Z) (h : list mop) (j : nat) : bool :=
  match nth_error h j with
  | Some o =>
      match note_on_of ch o with
      | Some _ => negb (gate_spec ch (firstn j h)) || retrig_spec_rev (rev (firstn j h))
      | None => false
      end
  | None => false
  end.

Definition is_note_on (ch : Z) (o : mop) : bool :=
  match note_on_of ch o with Some _ => true | None => false end.
Definition is_poll_fall (o : mop) : bool := match o with OPollFall => true | _ => false end.
Definition is_poll_rise (o : mop) : bool := match o with OPollRise => true | _ => false end.

(** operations strictly between positions [j] and [i] *)
Definition between (h : list mop) (j i : nat) : list mop := firstn (i - S j) (skipn (S j) h).

(** what [falling_gate()] called after history [h] must return: there is a gate fall at
    some position [j] with no note-on and no earlier [falling_gate()] call after it *)
Definition pending_fall (ch : Z) (h : list mop) : bool :=
  existsb (fun j => falls_at ch h j
                    && negb (existsb (fun o => is_note_on ch o || is_poll_fall o) (between h j (length h))))
          (seq 0 (length h)).

(** what [rising_gate()] called after history [h] must return: a raising note-on at some
    position [j] with no gate fall and no earlier [rising_gate()] call after it *)
Definition pending_rise (ch : Z) (h : list mop) : bool :=
  existsb (fun j => rises_at ch h j
                    && negb (existsb (fun k => falls_at ch h k) (seq (S j) (length h - S j)))
                    && negb (existsb is_poll_rise (between h j (length h))))
          (seq 0 (length h)).

(** ** C06: reference decoder for a MIDI 1.0 byte stream (visible messages only) *)

Definition is_realtime (b : Z) : bool := 248 <=? b.

(** cut at status bytes: data before the first status byte, then (status, data) segments *)
Fixpoint split_segments (l : list Z) : list Z * list (Z * list Z) :=
  match l with
  | [] => ([], [])
  | b :: r =>
      let '(d, segs) := split_segments r in
      if is_status_byte b then ([], (b, d) :: segs) else (b :: d, segs)
  end.

(** complete groups of two data bytes *)
Fixpoint pairs (d : list Z) : list (Z * Z) :=
  match d with
  | a :: b :: r => (a, b) :: pairs r
  | _ => []
  end.

(** the messages of one segment that the receiver can see; running status is the
    repetition of the group under the same status *)
Definition segment_msgs (seg : Z * list Z) : list msg :=
  let '(st, d) := seg in
  if is_system_message st then []
  else
    let kind := Z.land st 240 in
    let ch := Z.land st 15 in
    if kind =? 128 then map (fun '(a, b) => MNoteOff ch a b) (pairs d)
    else if kind =? 144 then map (fun '(a, b) => MNoteOn ch a b) (pairs d)
    else if kind =? 176 then map (fun '(a, b) => MControlChange ch a b) (pairs d)
    else if kind =? 224 then map (fun '(a, b) => MPitchBend ch b a) (pairs d)
    else [].

Definition decode (bytes : list Z) : list msg :=
  flat_map segment_msgs (snd (split_segments (filter (fun b => negb (is_realtime b)) bytes))).

Definition visible (m : msg) : bool := match m with MOther => false | _ => true end.

(** the messages the stateful parser completes while consuming [bytes] *)
Fixpoint parser_msgs (st : pstate) (bytes : list Z) : list msg :=
  match bytes with
  | [] => []
  | b :: r =>
      let '(st', m) := parse_byte st b in
      match m with Some m => m :: parser_msgs st' r | None => parser_msgs st' r end
  end.

Definition is_byte (b : Z) : Prop := 0 <= b < 256.

(** all level outputs and both edge flags *)
Definition observe (r : rx) :=
  (r_note r, r_velocity r, r_pitch_bend r, r_mod_wheel r, r_volume r, r_cutoff r, r_resonance r,
   r_porta_time r, r_porta_en r, r_sustain_en r, r_gate r, r_rising r, r_falling r).

Definition run_bytes (ch : Z) (bytes : list Z) : rx := fold_left rx_parse bytes (rx_new ch).
Definition run_msgs (ch : Z) (ms : list msg) : rx := fold_left apply_msg ms (rx_new ch).
