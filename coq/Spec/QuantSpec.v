(** Declarative specifications for the quantizer (properties C07, C08, C09, C19). *)
From Coq Require Import ZArith Bool List.
Import ListNotations.
From SU Require Import F32.
From SU.gen Require Import Consts.
From SU.Model Require Import Quantizer.
Open Scope Z_scope.

(** a scale mask as the quantizer can hold it *)
Definition valid_mask (a : Z) : Prop := 0 < a < 4096.

(** the note with number [N] (0 <= N <= 131) in microvolts, as the search computes it *)
Definition cand (N : Z) : Z := (N mod 12) * HALF + (N / 12) * OCT.

Definition note_allowed (a N : Z) : bool := bit_allowed a (N mod 12).

(** all note numbers the search can produce: octaves 0 .. MAX_OCTAVE *)
Definition all_notes : list Z := map Z.of_nat (seq 0 (Z.to_nat (12 * (MAX_OCTAVE + 1)))).

Definition dist (v N : Z) : Z := Z.abs (v - cand N).

(** [N] is the result the property asks for, for an input of [v] microvolts:
    - if some allowed note lies within less than a half step ... *)
Definition in_bucket (a v N : Z) : Prop :=
  In N all_notes /\ note_allowed a N = true /\ dist v N < HALF.

(** the characterisation proved for [find_nearest_uv]:
    the least allowed note closer than one semitone if there is one, otherwise the
    allowed note with the smallest distance (the least such note on ties) *)
Definition nearest_spec (a v R : Z) : Prop :=
  In R all_notes /\ note_allowed a R = true /\
  ( (dist v R < HALF /\ forall N, in_bucket a v N -> R <= N)
    \/ ((forall N, ~ in_bucket a v N) /\
        forall N, In N all_notes -> note_allowed a N = true ->
                  dist v R < dist v N \/ (dist v R = dist v N /\ R <= N)) ).

(** the quantizer after a history of allow / forbid / convert calls *)
Definition qrun (ops : list quant_op) : quant := fold_left quant_step ops quant_new.


(** scale notes are [u8] values in the Rust API ([Note::new(n: u8)]) *)
Definition u8_notes (ns : list Z) : Prop := Forall (fun n => 0 <= n < 256) ns.
Definition wf_op (o : quant_op) : Prop :=
  match o with QAllow ns | QForbid ns => u8_notes ns | QConvert _ => True end.
Definition wf_ops (ops : list quant_op) : Prop := Forall wf_op ops.

(** ** hysteresis (C09) and the conversion record (C19) *)

(** the f32 window bounds around note [N] exactly as [convert] computes them *)
Definition stair_of (N : Z) : f32 := fdiv (of_Z N) f_12.
Definition win_lo (N : Z) : f32 := fsub (stair_of N) HYST.
Definition win_hi (N : Z) : f32 := fadd (fadd (stair_of N) SEMITONE) HYST.

(** is the previously reported note kept for input [v]? (the input is clamped to [0, V_MAX] first) *)
Definition keeps (q : quant) (v : f32) : bool :=
  bit_allowed (q_allowed q) (note_new (c_note (q_cached q) mod 12))
  && in_window (q_cached q) (clamp_vin v).

(** the note numbers reported by a sequence of conversions *)
Fixpoint convert_seq (q : quant) (vs : list f32) : list Z :=
  match vs with
  | [] => []
  | v :: rest => let '(q', c) := convert q v in c_note c :: convert_seq q' rest
  end.

Fixpoint nondecreasing (l : list Z) : Prop :=
  match l with
  | a :: ((b :: _) as rest) => a <= b /\ nondecreasing rest
  | _ => True
  end.

Fixpoint fle_sorted (l : list f32) : Prop :=
  match l with
  | a :: ((b :: _) as rest) => fle a b = true /\ fle_sorted rest
  | _ => True
  end.

(** a cached conversion is either the initial one or a real one with stairstep = note / 12 *)
Definition cached_ok (c : conv) : Prop :=
  c = conv_new \/ (0 <= c_note c <= 131 /\ c_stair c = stair_of (c_note c)).
