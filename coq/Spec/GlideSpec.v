(** Shared definitions for the glide properties (C13, C14). *)
From Coq Require Import ZArith Bool List Reals.
Import ListNotations.
From Flocq Require Import Core IEEE754.BinarySingleNaN.
From SU Require Import F32 F32Lemmas.
From SU.gen Require Import Consts.
From SU.Model Require Import Utils Tanf Glide.
Open Scope R_scope.

(** documented sample rates for the glide processor, and documented times *)
Definition glide_fs_ok (fs : f32) : Prop := fin fs /\ 100 <= R32 fs <= 48000.
Definition glide_time_ok (t : f32) : Prop := fin t /\ 0 <= R32 t <= 10.

(** a well-behaved coefficient set of the one-pole section: b0 = b1 = b, a2 = b2 = 0,
    pole p = -a1 in [-2^-22, 1), unit DC gain up to rounding *)
Definition good (c : coeffs) : Prop :=
  fin (k_a1 c) /\ fin (k_b0 c) /\ k_b1 c = k_b0 c /\ k_a2 c = f_0 /\ k_b2 c = f_0 /\
  0 < R32 (k_b0 c) <= / 2 + / 8388608 /\
  -1 < R32 (k_a1 c) <= / 4194304 /\
  Rabs (2 * R32 (k_b0 c) - R32 (k_a1 c) - 1) <= 4 * / 16777216.

(** the pole, and the "speed" 1 - p of a coefficient set *)
Definition pole (c : coeffs) : R := - R32 (k_a1 c).
Definition speed (c : coeffs) : R := 1 + R32 (k_a1 c).

(** outputs of a run (None if some operation panics) *)
Fixpoint glide_outputs (g : glide) (ops : list glide_op) : option (list f32) :=
  match ops with
  | [] => Some []
  | GSetTime t :: r =>
      match glide_set_time g t with Some g' => glide_outputs g' r | None => None end
  | GProcess x :: r =>
      let '(g', y) := glide_process g x in
      match glide_outputs g' r with Some ys => Some (y :: ys) | None => None end
  end.

(** state after a run *)
Fixpoint glide_after (g : glide) (ops : list glide_op) : option glide :=
  match ops with
  | [] => Some g
  | o :: r => match glide_step g o with Some g' => glide_after g' r | None => None end
  end.

(** the coefficient sets in force during a run: the initial one and every one installed *)
Fixpoint coeffs_used (g : glide) (ops : list glide_op) : list coeffs :=
  d_c (g_lpf g) ::
  match ops with
  | [] => []
  | o :: r => match glide_step g o with Some g' => coeffs_used g' r | None => [] end
  end.

Definition op_time_ok (o : glide_op) : Prop :=
  match o with GSetTime t => glide_time_ok t | GProcess _ => True end.
Definition op_input_in (lo hi : R) (o : glide_op) : Prop :=
  match o with GProcess x => fin x /\ lo <= R32 x <= hi | GSetTime _ => True end.

(** the f32 resolution of the filter: relative to the signal range M, with the slowest
    speed kappa = min (1 - p) over the coefficient sets in force *)
Definition resolution (kappa : R) : R := 16 * / 16777216 / kappa.

(** filter state: all four memories finite *)
Definition df1_fin (d : df1) : Prop := fin (d_y1 d) /\ fin (d_y2 d) /\ fin (d_x1 d) /\ fin (d_x2 d).

(** exact (real) step response of the one-pole section with b = (1-p)/2: after a step of the
    input from 0 to 1 at sample 0 the output at sample n is 1 - p^n (1+p)/2 *)
Definition step_response (p : R) (n : nat) : R := 1 - p ^ n * (1 + p) / 2.

(** the ideal pole of the bilinear one-pole lowpass for a time setting of N = t * fs samples *)
Definition ideal_pole (N : R) : R := (1 - tan (PI / N)) / (1 + tan (PI / N)).

(** all memories of the filter are finite and within [-B, B] *)
Definition df1_bounded (d : df1) (B : R) : Prop :=
  fin (d_y1 d) /\ fin (d_y2 d) /\ fin (d_x1 d) /\ fin (d_x2 d) /\
  Rabs (R32 (d_y1 d)) <= B /\ Rabs (R32 (d_y2 d)) <= B /\
  Rabs (R32 (d_x1 d)) <= B /\ Rabs (R32 (d_x2 d)) <= B.

(** n samples of the same input *)
Fixpoint run_const (d : df1) (x : f32) (n : nat) : df1 * list f32 :=
  match n with
  | O => (d, [])
  | S n' => let '(d1, y) := df1_run d x in let '(d2, ys) := run_const d1 x n' in (d2, y :: ys)
  end.

(** the cutoff frequency [set_time t] selects, and the coefficient set it installs *)
Definition coeffs_for (g : glide) (t : f32) : option coeffs := from_params (g_fs g) (glide_f0 g t).
