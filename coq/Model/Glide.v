(** Model of src/glide_processor.rs with the parts of biquad 0.4.2 it reaches
    (Coefficients::from_params for SinglePoleLowPass, DirectForm1::run, ToHertz::hz),
    which are modelled, not verified. *)
From Coq Require Import ZArith Bool List.
From Flocq Require Import IEEE754.BinarySingleNaN.
From SU Require Import F32.
From SU.gen Require Import Consts.
From SU.Model Require Import Utils Tanf.
Open Scope Z_scope.

Record coeffs := mkCoeffs { k_a1 : f32; k_a2 : f32; k_b0 : f32; k_b1 : f32; k_b2 : f32 }.

Record df1 := mkDf1 { d_y1 : f32; d_y2 : f32; d_x1 : f32; d_x2 : f32; d_c : coeffs }.

Record glide := mkGlide { g_min_fc : f32; g_max_fc : f32; g_fs : f32; g_lpf : df1; g_cached_t : f32 }.

Definition f_PI : f32 := of_bits 1078530011. (* core::f32::consts::PI = 0x40490fdb *)
Definition TWO_PI : f32 := fmul f_2 f_PI.

(** [x.hz()] panics unless [x > 0.0] *)
Definition hz_ok (x : f32) : bool := flt f_0 x.

(** [Coefficients::from_params(SinglePoleLowPass, fs, f0, 0.0)]; [None] is the [Err] that
    [unwrap()] turns into a panic *)
Definition from_params (fs f0 : f32) : option coeffs :=
  if flt fs (fmul f_2 f0) then None
  else
    let omega := fdiv (fmul TWO_PI f0) fs in
    let omega_t := tanf (fdiv omega f_2) in
    let a0 := fadd f_1 omega_t in
    Some (mkCoeffs (fdiv (fsub omega_t f_1) a0) f_0 (fdiv omega_t a0) (fdiv omega_t a0) f_0).

Definition df1_new (c : coeffs) : df1 := mkDf1 f_0 f_0 f_0 f_0 c.

Definition df1_run (d : df1) (x : f32) : df1 * f32 :=
  let c := d_c d in
  let out :=
    fsub (fsub (fadd (fadd (fmul (k_b0 c) x) (fmul (k_b1 c) (d_x1 d))) (fmul (k_b2 c) (d_x2 d)))
               (fmul (k_a1 c) (d_y1 d)))
         (fmul (k_a2 c) (d_y2 d)) in
  (mkDf1 out (d_y1 d) x (d_x1 d) c, out).

Definition GL_DIV : f32 := of_bits GLIDE_MAX_FC_DIVISOR_bits.
Definition GL_MIN_FC : f32 := of_bits GLIDE_MIN_FC_bits.
Definition GL_EPS : f32 := of_bits GLIDE_EPSILON_bits.
Definition GL_T0 : f32 := of_bits GLIDE_CACHED_T_INIT_bits.

(** [GlideProcessor::new]; [None] = panic *)
Definition glide_new (fs : f32) : option glide :=
  let max_fc := fdiv fs GL_DIV in
  if hz_ok fs && hz_ok max_fc then
    match from_params fs max_fc with
    | Some c => Some (mkGlide GL_MIN_FC max_fc fs (df1_new c) GL_T0)
    | None => None
    end
  else None.

(** [-0.0] is replaced by [+0.0] first ([if t == 0.0 { 0.0 } else { t }]) *)
Definition glide_f0 (g : glide) (t : f32) : f32 :=
  let t' := if feq t f_0 then f_0 else t in
  fmin (fmax (fdiv f_1 t') (g_min_fc g)) (g_max_fc g).

Definition glide_set_time (g : glide) (t : f32) : option glide :=
  if is_almost t (g_cached_t g) GL_EPS then Some g
  else
    let f0 := glide_f0 g t in
    if hz_ok f0 then
      match from_params (g_fs g) f0 with
      | Some c =>
          let d := g_lpf g in
          Some (mkGlide (g_min_fc g) (g_max_fc g) (g_fs g)
                        (mkDf1 (d_y1 d) (d_y2 d) (d_x1 d) (d_x2 d) c) t)
      | None => None
      end
    else None.

Definition glide_process (g : glide) (x : f32) : glide * f32 :=
  let '(d, y) := df1_run (g_lpf g) x in
  (mkGlide (g_min_fc g) (g_max_fc g) (g_fs g) d (g_cached_t g), y).

Inductive glide_op := GSetTime (t : f32) | GProcess (x : f32).

Definition glide_step (g : glide) (o : glide_op) : option glide :=
  match o with
  | GSetTime t => glide_set_time g t
  | GProcess x => Some (fst (glide_process g x))
  end.
