(** Model of src/utils.rs *)
From Coq Require Import ZArith.
From SU Require Import F32.
Open Scope Z_scope.

(** [y0 + ((y1 - y0) * frac)] *)
Definition linear_interp (y0 y1 frac : f32) : f32 := fadd y0 (fmul (fsub y1 y0) frac).

(** [ilog_2]: the Rust loop halves while [1 < x]; that is [Z.log2] (0 for 0 and 1). *)
Definition ilog_2 (x : Z) : Z := Z.log2 x.

Definition fabs (v : f32) : f32 := if flt v f_0 then fneg v else v.

Definition is_almost (v1 v2 eps : f32) : bool := fle (fabs (fsub v1 v2)) eps.
