(** Executable port of libm 0.1.4 [tanf] / [k_tanf] for |x| <= 3*pi/4 (modelled, not verified).
    Outside that range the port returns NaN (never reached for documented arguments). *)
From Coq Require Import ZArith Bool.
From Flocq Require Import IEEE754.BinarySingleNaN.
From SU Require Import F32 F64.
Open Scope Z_scope.

Definition T0 : f64 := d_of_bits 4599676384503712159.
Definition T1 : f64 := d_of_bits 4593973973680234354.
Definition T2 : f64 := d_of_bits 4587853868167486206.
Definition T3 : f64 := d_of_bits 4582727027765556174.
Definition T4 : f64 := d_of_bits 4569004823821481038.
Definition T5 : f64 := d_of_bits 4576610196261379021.
Definition T1_PIO2 : f64 := d_of_bits 4609753056924675352.

Definition k_tanf (x : f64) (odd : bool) : f32 :=
  let z := dmul x x in
  let r := dadd T4 (dmul z T5) in
  let t := dadd T2 (dmul z T3) in
  let w := dmul z z in
  let s := dmul z x in
  let u := dadd T0 (dmul z T1) in
  let r := dadd (dadd x (dmul s u)) (dmul (dmul s w) (dadd t (dmul w r))) in
  f64_to_f32 (if odd then ddiv (d_of_Z (-1)) r else r).

Definition tanf (x : f32) : f32 :=
  match to_bits x with
  | None => B754_nan
  | Some b =>
      let sign := Z.testbit b 31 in
      let ix := Z.land b 2147483647 in
      let x64 := f32_to_f64 x in
      if ix <=? 1061752794 (* 0x3f490fda *) then
        if ix <? 964689920 (* 0x39800000 *) then x else k_tanf x64 false
      else if ix <=? 1075235811 (* 0x4016cbe3 *) then
        k_tanf (if sign then dadd x64 T1_PIO2 else dsub x64 T1_PIO2) true
      else B754_nan
  end.
