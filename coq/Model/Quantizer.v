(** Model of src/quantizer.rs *)
From Coq Require Import ZArith Bool List.
Import ListNotations.
From SU Require Import F32.
From SU.gen Require Import Consts.
Open Scope Z_scope.

Record conv := mkConv { c_note : Z; c_stair : f32; c_frac : f32 }.

Record quant := mkQuant { q_cached : conv; q_allowed : Z }.

Definition SEMITONE : f32 := of_bits SEMITONE_WIDTH_bits.
Definition HYST : f32 := of_bits HYSTERESIS_bits.
Definition V_MAX : f32 := of_bits V_MAX_bits.
Definition OCT : Z := ONE_OCTAVE_IN_MICROVOLTS.
Definition HALF : Z := HALF_STEP_IN_MICROVOLTS.

Definition conv_new : conv := mkConv 0 f_MIN f_0.
Definition quant_new : quant := mkQuant conv_new 4095.

(** [Note::new(n)]: numbers above 11 act as 11 *)
Definition note_new (n : Z) : Z := if n <=? 11 then n else 11.

(** [is_allowed(note)] on an already clamped note *)
Definition bit_allowed (allowed n : Z) : bool := Z.testbit allowed n.

Definition delta (a b : Z) : Z := if a <? b then b - a else a - b.

(** candidate notes (in microvolts) of one octave, ascending *)
Definition octave_cands (allowed oct : Z) : list Z :=
  map (fun n => n * HALF + oct * OCT)
      (filter (bit_allowed allowed) [0;1;2;3;4;5;6;7;8;9;10;11]).

Definition octaves_to_search (oct : Z) : list Z :=
  (if 1 <=? oct then [oct - 1] else []) ++ [oct] ++ (if oct <? MAX_OCTAVE then [oct + 1] else []).

(** the loop with its two early returns *)
Fixpoint scan (cands : list Z) (vin best bestd : Z) : Z :=
  match cands with
  | [] => best
  | c :: rest =>
      let d := delta vin c in
      if d <? HALF then c
      else if bestd <? d then best
      else if d <? bestd then scan rest vin c d
      else scan rest vin best bestd
  end.

Definition vin_microvolts (v : f32) : Z := to_u32 (fmul v (of_Z OCT)).

Definition find_nearest_uv (allowed vin : Z) : Z :=
  let oct := vin / OCT in
  scan (flat_map (octave_cands allowed) (octaves_to_search oct)) vin 0 U32_MAX.

(** [... / HALF_STEP_IN_MICROVOLTS) as u8] *)
Definition find_nearest_note (allowed : Z) (v : f32) : Z :=
  (find_nearest_uv allowed (vin_microvolts v) / HALF) mod 256.

Definition clamp_vin (v : f32) : f32 := fmin (fmax v f_0) V_MAX.

Definition in_window (c : conv) (v : f32) : bool :=
  let low := fsub (c_stair c) HYST in
  let high := fadd (fadd (c_stair c) SEMITONE) HYST in
  flt low v && flt v high.

Definition convert (q : quant) (v : f32) : quant * conv :=
  let c := q_cached q in
  let v' := clamp_vin v in
  if bit_allowed (q_allowed q) (note_new (c_note c mod 12)) && in_window c v' then
    let c' := mkConv (c_note c) (c_stair c) (fsub v' (c_stair c)) in
    (mkQuant c' (q_allowed q), c')
  else
    let n := find_nearest_note (q_allowed q) v' in
    let st := fdiv (of_Z n) f_12 in
    let c' := mkConv n st (fsub v' st) in
    (mkQuant c' (q_allowed q), c').

(** [allow]: notes are raw u8 values that go through [Note::from] *)
Definition allow_bits (allowed : Z) (notes : list Z) : Z :=
  fold_left (fun a n => Z.lor a (Z.shiftl 1 (note_new n))) notes allowed.

Definition forbid_bits (allowed : Z) (notes : list Z) : Z :=
  fold_left (fun a n => Z.land a (Z.lnot (Z.shiftl 1 (note_new n)) mod 65536)) notes allowed.

Definition quant_allow (q : quant) (notes : list Z) : quant :=
  mkQuant (q_cached q) (allow_bits (q_allowed q) notes).

Definition quant_forbid (q : quant) (notes : list Z) : quant :=
  let a := forbid_bits (q_allowed q) notes in
  if a =? 0 then mkQuant (q_cached q) (allow_bits a (skipn (length notes - 1) notes))
  else mkQuant (q_cached q) a.

(** panic site of [forbid]: [notes.len() - 1] when the mask became empty *)
Definition quant_forbid_ok (q : quant) (notes : list Z) : bool :=
  if forbid_bits (q_allowed q) notes =? 0 then negb (Nat.eqb (length notes) 0) else true.

Inductive quant_op := QAllow (ns : list Z) | QForbid (ns : list Z) | QConvert (v : f32).

Definition quant_step (q : quant) (o : quant_op) : quant :=
  match o with
  | QAllow ns => quant_allow q ns
  | QForbid ns => quant_forbid q ns
  | QConvert v => fst (convert q v)
  end.

Definition quant_step_ok (q : quant) (o : quant_op) : bool :=
  match o with QForbid ns => quant_forbid_ok q ns | _ => true end.
