(** Model of src/ribbon_controller.rs with heapless 0.7.17 [HistoryBuffer]
    ([write], [oldest_ordered], [capacity]; modelled, not verified). *)
From Coq Require Import ZArith Bool List.
Import ListNotations.
From SU Require Import F32.
From SU.gen Require Import Consts.
Open Scope Z_scope.

(** ** HistoryBuffer<f32, CAP>: array + write index + filled flag *)
Record histbuf := mkHb { hb_data : list f32; hb_write_at : nat; hb_filled : bool }.

Definition hb_new (cap : nat) : histbuf := mkHb (repeat f_0 cap) 0 false.

Fixpoint set_nth (l : list f32) (i : nat) (x : f32) : list f32 :=
  match l, i with
  | [], _ => []
  | _ :: r, O => x :: r
  | y :: r, S i' => y :: set_nth r i' x
  end.

Definition hb_write (cap : nat) (h : histbuf) (x : f32) : histbuf :=
  let d := set_nth (hb_data h) (hb_write_at h) x in
  let w := S (hb_write_at h) in
  if Nat.eqb w cap then mkHb d 0 true else mkHb d w (hb_filled h).

(** the elements in the order [oldest_ordered()] yields them *)
Definition hb_oldest_ordered (h : histbuf) : list f32 :=
  if hb_filled h then skipn (hb_write_at h) (hb_data h) ++ firstn (hb_write_at h) (hb_data h)
  else firstn (hb_write_at h) (hb_data h).

(** ** the controller *)
Record ribbon := mkRibbon {
  rb_cap : nat;               (* BUFFER_CAPACITY *)
  rb_boundary : f32;          (* finger_press_high_boundary *)
  rb_err : f32;               (* error_const *)
  rb_val : f32;               (* current_val *)
  rb_pressing : bool;
  rb_just_pressed : bool;
  rb_just_released : bool;
  rb_buf : histbuf;
  rb_ignore : Z;              (* num_to_ignore_up_front *)
  rb_discard : Z;             (* num_to_discard_at_end *)
  rb_received : Z;            (* num_samples_received *)
  rb_written : Z              (* num_samples_written *)
}.

(** [(sample_rate_hz as u32 * USEC) / 1_000_000]: the u32 product can overflow (panic) *)
Definition usec_to_samples (fs_u32 usec : Z) : Z := (fs_u32 * usec) / 1000000.
Definition usec_to_samples_ok (fs_u32 usec : Z) : bool := fs_u32 * usec <=? U32_MAX.

Definition ribbon_new (cap : nat) (fs softpot dropper pullup : f32) : ribbon :=
  let fsu := to_u32 fs in
  mkRibbon cap
    (fsub f_1 (fdiv dropper (fadd dropper softpot)))
    (fdiv (fadd softpot dropper) pullup)
    f_0 false false false (hb_new cap)
    (usec_to_samples fsu RIBBON_FALL_TIME_USEC)
    (usec_to_samples fsu RIBBON_RISE_TIME_USEC)
    0 0.

Definition ribbon_new_ok (cap : nat) (fs : f32) : bool :=
  let fsu := to_u32 fs in
  negb (Nat.eqb cap 0)
  && usec_to_samples_ok fsu RIBBON_FALL_TIME_USEC && usec_to_samples_ok fsu RIBBON_RISE_TIME_USEC.

Definition error_estimate (r : ribbon) (pos : f32) : f32 :=
  fmul (fsub pos (fmul pos pos)) (rb_err r).

(** the averaged and corrected value of a full buffer *)
Definition ribbon_average (r : ribbon) (h : histbuf) : f32 :=
  let num_to_take := Z.of_nat (rb_cap r) - rb_discard r in
  let mean := fdiv (fsum (firstn (Z.to_nat num_to_take) (hb_oldest_ordered h))) (of_Z num_to_take) in
  fsub mean (error_estimate r mean).

Definition ribbon_poll (r : ribbon) (x : f32) : ribbon :=
  if flt x (rb_boundary r) then
    let received := Z.min (rb_received r + 1) (rb_ignore r) in
    if rb_ignore r <=? received then
      let buf := hb_write (rb_cap r) (rb_buf r) x in
      let written := Z.min (rb_written r + 1) (Z.of_nat (rb_cap r)) in
      if written =? Z.of_nat (rb_cap r) then
        mkRibbon (rb_cap r) (rb_boundary r) (rb_err r) (ribbon_average r buf)
                 true (if rb_pressing r then rb_just_pressed r else true) (rb_just_released r)
                 buf (rb_ignore r) (rb_discard r) received written
      else
        mkRibbon (rb_cap r) (rb_boundary r) (rb_err r) (rb_val r)
                 (rb_pressing r) (rb_just_pressed r) (rb_just_released r)
                 buf (rb_ignore r) (rb_discard r) received written
    else
      mkRibbon (rb_cap r) (rb_boundary r) (rb_err r) (rb_val r)
               (rb_pressing r) (rb_just_pressed r) (rb_just_released r)
               (rb_buf r) (rb_ignore r) (rb_discard r) received (rb_written r)
  else
    mkRibbon (rb_cap r) (rb_boundary r) (rb_err r) (rb_val r)
             false (rb_just_pressed r) (if rb_pressing r then true else rb_just_released r)
             (rb_buf r) (rb_ignore r) (rb_discard r) 0 0.

(** panic site of [poll]: [capacity - num_to_discard_at_end] (usize underflow) *)
Definition ribbon_poll_ok (r : ribbon) (x : f32) : bool :=
  if flt x (rb_boundary r) then
    let received := Z.min (rb_received r + 1) (rb_ignore r) in
    if rb_ignore r <=? received then
      let written := Z.min (rb_written r + 1) (Z.of_nat (rb_cap r)) in
      if written =? Z.of_nat (rb_cap r) then rb_discard r <=? Z.of_nat (rb_cap r) else true
    else true
  else true.

(** [value()] *)
Definition ribbon_value (r : ribbon) : f32 := fmin (fdiv (rb_val r) (rb_boundary r)) f_1.

Definition ribbon_just_pressed (r : ribbon) : bool * ribbon :=
  (rb_just_pressed r,
   mkRibbon (rb_cap r) (rb_boundary r) (rb_err r) (rb_val r) (rb_pressing r) false
            (rb_just_released r) (rb_buf r) (rb_ignore r) (rb_discard r) (rb_received r) (rb_written r)).

Definition ribbon_just_released (r : ribbon) : bool * ribbon :=
  (rb_just_released r,
   mkRibbon (rb_cap r) (rb_boundary r) (rb_err r) (rb_val r) (rb_pressing r) (rb_just_pressed r)
            false (rb_buf r) (rb_ignore r) (rb_discard r) (rb_received r) (rb_written r)).

(** [sample_rate_to_capacity] *)
Definition sample_rate_to_capacity (fs : Z) : Z :=
  (fs * MIN_CAPTURE_TIME_USEC) / 1000000 + (fs * RIBBON_RISE_TIME_USEC) / 1000000 + 1.
Definition sample_rate_to_capacity_ok (fs : Z) : bool :=
  (fs * MIN_CAPTURE_TIME_USEC <=? U32_MAX) && (fs * RIBBON_RISE_TIME_USEC <=? U32_MAX).

Inductive ribbon_op := RbPoll (x : f32) | RbJustPressed | RbJustReleased.

Definition ribbon_step (r : ribbon) (o : ribbon_op) : ribbon * option bool :=
  match o with
  | RbPoll x => (ribbon_poll r x, None)
  | RbJustPressed => let '(b, r') := ribbon_just_pressed r in (r', Some b)
  | RbJustReleased => let '(b, r') := ribbon_just_released r in (r', Some b)
  end.

Definition ribbon_step_ok (r : ribbon) (o : ribbon_op) : bool :=
  match o with RbPoll x => ribbon_poll_ok r x | _ => true end.
