(** Model of src/lfo.rs *)
From Coq Require Import ZArith Bool List.
From SU Require Import F32.
From SU.gen Require Import Consts.
From SU.Model Require Import Utils PhaseAcc Tables.
Open Scope Z_scope.

Definition LTOT : Z := LFO_TOT_NUM_ACCUM_BITS.
Definition LIDX : Z := ilog_2 SINE_LUT_SIZE.

Definition lfo := pa.

Definition lfo_new (fs : f32) : lfo := pa_new fs.

Inductive shape := Sine | Triangle | UpSaw | DownSaw | Square.

Definition lfo_upsaw (l : lfo) : f32 := fsub (fmul (pa_ramp LTOT l) f_2) f_1.

Definition lfo_get (l : lfo) (w : shape) : f32 :=
  match w with
  | Sine =>
      let i := pa_index LTOT LIDX l in
      let j := (i + 1) mod SINE_LUT_SIZE in
      linear_interp (tbl sine_table i) (tbl sine_table j) (pa_fraction LTOT LIDX l)
  | Triangle =>
      let raw := fmul (pa_ramp LTOT l) f_4 in
      if flt raw f_1 then raw
      else if flt raw f_3 then fsub f_2 raw
      else fsub raw f_4
  | UpSaw => lfo_upsaw l
  | DownSaw => fneg (lfo_upsaw l)
  | Square => if flt (pa_ramp LTOT l) f_half then f_1 else f_m1
  end.

(** panic site of [get(Sine)]: table indexing *)
Definition lfo_get_ok (l : lfo) : bool :=
  let i := pa_index LTOT LIDX l in
  tbl_ok sine_table i && tbl_ok sine_table ((i + 1) mod SINE_LUT_SIZE).

Inductive lfo_op := LTick | LSetFreq (f : f32) | LSetPhase (p : f32) | LReset.

Definition lfo_step (l : lfo) (o : lfo_op) : lfo :=
  match o with
  | LTick => pa_tick LTOT l
  | LSetFreq f => pa_set_frequency LTOT l f
  | LSetPhase p => pa_set_phase LTOT l p
  | LReset => pa_reset l
  end.

Definition lfo_step_ok (l : lfo) (o : lfo_op) : bool :=
  match o with LTick => pa_tick_ok l | _ => true end.

Definition lfo_run (fs : f32) (ops : list lfo_op) : lfo := fold_left lfo_step ops (lfo_new fs).
