(** Model of src/phase_accumulator.rs (PhaseAccumulator<TOTAL_NUM_BITS, NUM_INDEX_BITS>) *)
From Coq Require Import ZArith Bool.
From SU Require Import F32.
Open Scope Z_scope.

Record pa := mkPa {
  pa_fs : f32;          (* sample_rate_hz *)
  pa_acc : Z;           (* accumulator (u32) *)
  pa_last : Z;          (* last_accumulator (u32) *)
  pa_inc : Z;           (* increment (u32) *)
  pa_rolled : bool      (* rolled_over *)
}.

Section PA.
Variables (TOT IDX : Z).   (* TOTAL_NUM_BITS, NUM_INDEX_BITS *)

Definition two_tot : Z := 2 ^ TOT.
Definition mask : Z := 2 ^ TOT - 1.
Definition frac_bits : Z := TOT - IDX.

Definition pa_new (fs : f32) : pa := mkPa fs 0 0 0 false.

(** [self.accumulator += self.increment] panics on u32 overflow when overflow checks are on *)
Definition pa_tick_ok (p : pa) : bool := pa_acc p + pa_inc p <=? U32_MAX.

Definition pa_tick (p : pa) : pa :=
  let sum := (pa_acc p + pa_inc p) mod 2 ^ 32 in
  let carried := mask <? sum in
  let acc' := Z.land sum mask in
  mkPa (pa_fs p) acc' acc' (pa_inc p)
       (if carried || (acc' <? pa_last p) then true else pa_rolled p).

Definition pa_set_frequency (p : pa) (f : f32) : pa :=
  mkPa (pa_fs p) (pa_acc p) (pa_last p)
       (to_u32 (fdiv (fmul (of_Z two_tot) f) (pa_fs p))) (pa_rolled p).

Definition pa_set_period (p : pa) (t : f32) : pa := pa_set_frequency p (fdiv f_1 t).

Definition pa_reset (p : pa) : pa := mkPa (pa_fs p) 0 0 (pa_inc p) false.

Definition pa_set_phase (p : pa) (phase : f32) : pa :=
  let p0 := pa_reset p in
  let ph := if flt phase f_0 then fmul phase f_m1 else phase in
  mkPa (pa_fs p0) (to_u32 (fmul (of_Z mask) (frem1 ph))) (pa_last p0) (pa_inc p0) (pa_rolled p0).

Definition pa_ramp (p : pa) : f32 := fdiv (of_Z (pa_acc p)) (of_Z two_tot).

Definition pa_index (p : pa) : Z := Z.shiftr (pa_acc p) frac_bits.

Definition pa_fraction (p : pa) : f32 :=
  fdiv (of_Z (Z.land (pa_acc p) (2 ^ frac_bits - 1))) (of_Z (2 ^ frac_bits)).

(** self-clearing read of the rollover flag *)
Definition pa_take_rolled (p : pa) : bool * pa :=
  (pa_rolled p, mkPa (pa_fs p) (pa_acc p) (pa_last p) (pa_inc p) false).

End PA.
