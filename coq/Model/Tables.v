(** The three lookup tables as f32 values, decoded from the generated bit patterns. *)
From Coq Require Import ZArith List.
From SU Require Import F32.
From SU.gen Require Import Tables Consts.
Open Scope Z_scope.

Definition sine_table : list f32 := map of_bits SINE_TABLE_bits.
Definition attack_table : list f32 := map of_bits ADSR_ATTACK_TABLE_bits.
Definition decay_table : list f32 := map of_bits ADSR_DECAY_TABLE_bits.

(** table indexing; the Rust code panics on an index out of bounds *)
Definition tbl (t : list f32) (i : Z) : f32 := nth (Z.to_nat i) t f_0.
Definition tbl_ok (t : list f32) (i : Z) : bool := (0 <=? i) && (i <? Z.of_nat (length t)).
