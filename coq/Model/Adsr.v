(** Model of src/adsr.rs *)
From Coq Require Import ZArith Bool List.
From SU Require Import F32.
From SU.gen Require Import Consts.
From SU.Model Require Import Utils PhaseAcc Tables.
Open Scope Z_scope.

Inductive phase := AtRest | Attack | Decay | Sustain | Release.

Definition phase_eqb (a b : phase) : bool :=
  match a, b with
  | AtRest, AtRest | Attack, Attack | Decay, Decay | Sustain, Sustain | Release, Release => true
  | _, _ => false
  end.

Definition phase_num (p : phase) : Z :=
  match p with AtRest => 0 | Attack => 1 | Decay => 2 | Sustain => 3 | Release => 4 end.

Definition MIN_TIME : f32 := of_bits MIN_TIME_PERIOD_SEC_bits.
Definition MAX_TIME : f32 := of_bits MAX_TIME_PERIOD_SEC_bits.

Definition TOT : Z := ADSR_TOT_NUM_ACCUM_BITS.
Definition IDX : Z := ilog_2 ADSR_CURVE_LUT_SIZE.

(** [impl From<f32> for TimePeriod]: [p.max(MIN).min(MAX)] *)
Definition time_from (p : f32) : f32 := fmin (fmax p MIN_TIME) MAX_TIME.
(** [impl From<f32> for SustainLevel]: [val.max(0.0).min(1.0)] *)
Definition sustain_from (v : f32) : f32 := fmin (fmax v f_0) f_1.

Record adsr := mkAdsr {
  a_attack : f32;     (* attack_time.0 *)
  a_decay : f32;      (* decay_time.0 *)
  a_sustain : f32;    (* sustain_level.0 *)
  a_release : f32;    (* release_time.0 *)
  a_pa : pa;
  a_state : phase;
  a_von : f32;        (* value_when_gate_on_received *)
  a_voff : f32;       (* value_when_gate_off_received *)
  a_value : f32
}.

Definition adsr_new (fs : f32) : adsr :=
  mkAdsr (time_from MIN_TIME) (time_from MIN_TIME) (sustain_from f_1) (time_from MIN_TIME)
         (pa_new fs) AtRest f_0 f_0 f_0.

Definition next_idx (i : Z) : Z := Z.min (i + 1) (ADSR_CURVE_LUT_SIZE - 1).

(** the interpolated table sample at the current accumulator position *)
Definition lut_sample (t : list f32) (p : pa) : f32 :=
  let i := pa_index TOT IDX p in
  linear_interp (tbl t i) (tbl t (next_idx i)) (pa_fraction TOT IDX p).

Definition calc_value (s : adsr) : f32 :=
  match a_state s with
  | Attack =>
      fadd (fmul (fsub f_1 (a_von s)) (lut_sample attack_table (a_pa s))) (a_von s)
  | Decay =>
      fadd (fmul (fsub f_1 (a_sustain s)) (lut_sample decay_table (a_pa s))) (a_sustain s)
  | Sustain => fadd (fmul f_1 (a_sustain s)) f_0
  | Release =>
      fadd (fmul (a_voff s) (lut_sample decay_table (a_pa s))) f_0
  | AtRest => fadd (fmul f_0 f_0) f_0
  end.

Definition timed (p : phase) : bool :=
  match p with Attack | Decay | Release => true | _ => false end.

Definition period_of (s : adsr) : f32 :=
  match a_state s with
  | Attack => a_attack s
  | Decay => a_decay s
  | Release => a_release s
  | _ => MIN_TIME
  end.

Definition next_phase (p : phase) : phase :=
  match p with Attack => Decay | Decay => Sustain | Release => AtRest | x => x end.

Definition with_pa_state (s : adsr) (p : pa) (st : phase) : adsr :=
  mkAdsr (a_attack s) (a_decay s) (a_sustain s) (a_release s) p st (a_von s) (a_voff s) (a_value s).

Definition with_value (s : adsr) (v : f32) : adsr :=
  mkAdsr (a_attack s) (a_decay s) (a_sustain s) (a_release s) (a_pa s) (a_state s)
         (a_von s) (a_voff s) v.

(** state after the accumulator part of [tick] (before the output is recomputed) *)
Definition tick_advance (s : adsr) : adsr :=
  if timed (a_state s) then
    let p1 := pa_set_period TOT (a_pa s) (period_of s) in
    let p2 := pa_tick TOT p1 in
    let '(r, p3) := pa_take_rolled p2 in
    if r then with_pa_state s (pa_reset p3) (next_phase (a_state s))
    else with_pa_state s p3 (a_state s)
  else s.

Definition adsr_tick (s : adsr) : adsr :=
  let s1 := tick_advance s in with_value s1 (calc_value s1).

(** panic sites of [tick]: u32 overflow in the accumulator add; table index in range *)
Definition adsr_tick_ok (s : adsr) : bool :=
  (if timed (a_state s)
   then pa_tick_ok (pa_set_period TOT (a_pa s) (period_of s)) else true)
  && (let s1 := tick_advance s in
      let i := pa_index TOT IDX (a_pa s1) in
      if timed (a_state s1)
      then tbl_ok attack_table i && tbl_ok decay_table i
           && tbl_ok attack_table (next_idx i) && tbl_ok decay_table (next_idx i)
      else (0 <=? i)).

Definition adsr_gate_on (s : adsr) : adsr :=
  match a_state s with
  | Attack => s
  | _ => mkAdsr (a_attack s) (a_decay s) (a_sustain s) (a_release s) (pa_reset (a_pa s)) Attack
                (a_value s) (a_voff s) (a_value s)
  end.

Definition adsr_gate_off (s : adsr) : adsr :=
  match a_state s with
  | Release | AtRest => s
  | _ => mkAdsr (a_attack s) (a_decay s) (a_sustain s) (a_release s) (pa_reset (a_pa s)) Release
                (a_von s) (a_value s) (a_value s)
  end.

Inductive adsr_op :=
| ATick | AGateOn | AGateOff
| ASetAttack (x : f32) | ASetDecay (x : f32) | ASetSustain (x : f32) | ASetRelease (x : f32).

Definition adsr_set (s : adsr) (att dec sus rel : f32) : adsr :=
  mkAdsr att dec sus rel (a_pa s) (a_state s) (a_von s) (a_voff s) (a_value s).

(** total step function (release-build semantics) *)
Definition adsr_step (s : adsr) (o : adsr_op) : adsr :=
  match o with
  | ATick => adsr_tick s
  | AGateOn => adsr_gate_on s
  | AGateOff => adsr_gate_off s
  | ASetAttack x => adsr_set s (time_from x) (a_decay s) (a_sustain s) (a_release s)
  | ASetDecay x => adsr_set s (a_attack s) (time_from x) (a_sustain s) (a_release s)
  | ASetSustain x => adsr_set s (a_attack s) (a_decay s) (sustain_from x) (a_release s)
  | ASetRelease x => adsr_set s (a_attack s) (a_decay s) (a_sustain s) (time_from x)
  end.

(** does this step avoid every panic site (debug build)? *)
Definition adsr_step_ok (s : adsr) (o : adsr_op) : bool :=
  match o with ATick => adsr_tick_ok s | _ => true end.

Definition adsr_run (fs : f32) (ops : list adsr_op) : adsr := fold_left adsr_step ops (adsr_new fs).
