(** Model of src/mono_midi_receiver.rs together with the parts of the dependencies
    midi-convert 0.1.3 (MidiByteStreamParser::parse) and midi-types 0.1.7 (value
    conversions, Value14 -> f32) that it reaches.  The dependency parts are
    modelled, not verified (they are copied by hand from the crate sources). *)
From Coq Require Import ZArith Bool List.
Import ListNotations.
From SU Require Import F32.
From SU.gen Require Import Consts.
Open Scope Z_scope.

(** ** midi-convert: byte stream parser *)

Inductive pstate :=
| Idle
| NoteOnRecvd (ch : Z) | NoteOnNoteRecvd (ch n : Z)
| NoteOffRecvd (ch : Z) | NoteOffNoteRecvd (ch n : Z)
| KeyPressureRecvd (ch : Z) | KeyPressureNoteRecvd (ch n : Z)
| ControlChangeRecvd (ch : Z) | ControlChangeControlRecvd (ch c : Z)
| ProgramChangeRecvd (ch : Z)
| ChannelPressureRecvd (ch : Z)
| PitchBendRecvd (ch : Z) | PitchBendLsbRecvd (ch lsb : Z)
| QuarterFrameRecvd
| SongPositionRecvd | SongPositionLsbRecvd (lsb : Z)
| SongSelectRecvd.

(** messages; everything the receiver ignores regardless of content is [MOther] *)
Inductive msg :=
| MNoteOff (ch n v : Z)
| MNoteOn (ch n v : Z)
| MControlChange (ch c v : Z)
| MPitchBend (ch msb lsb : Z)      (* Value14(msb, lsb) *)
| MOther.

Definition is_status_byte (b : Z) : bool := Z.land b 128 =? 128.
Definition is_system_message (b : Z) : bool := Z.land b 240 =? 240.

(** [Note/Value7/Control::from(u8)]: clamp to 127 (a [debug_assert!] guards it) *)
Definition u7 (b : Z) : Z := if 127 <? b then 127 else b.

Definition parse_byte (st : pstate) (b : Z) : pstate * option msg :=
  if is_status_byte b then
    if is_system_message b then
      if b =? 240 then (Idle, None)
      else if b =? 241 then (QuarterFrameRecvd, None)
      else if b =? 242 then (SongPositionRecvd, None)
      else if b =? 243 then (SongSelectRecvd, None)
      else if b =? 246 then (Idle, Some MOther)
      else if b =? 247 then (Idle, None)
      else if b =? 248 then (st, Some MOther)
      else if b =? 249 then (st, None)
      else if b =? 250 then (st, Some MOther)
      else if b =? 251 then (st, Some MOther)
      else if b =? 252 then (st, Some MOther)
      else if b =? 253 then (st, None)
      else if b =? 254 then (st, Some MOther)
      else if b =? 255 then (st, Some MOther)
      else (Idle, None)
    else
      let m := Z.land b 240 in
      let ch := Z.land b 15 in
      if m =? 128 then (NoteOffRecvd ch, None)
      else if m =? 144 then (NoteOnRecvd ch, None)
      else if m =? 160 then (KeyPressureRecvd ch, None)
      else if m =? 176 then (ControlChangeRecvd ch, None)
      else if m =? 192 then (ProgramChangeRecvd ch, None)
      else if m =? 208 then (ChannelPressureRecvd ch, None)
      else if m =? 224 then (PitchBendRecvd ch, None)
      else (st, None)
  else
    match st with
    | NoteOffRecvd ch => (NoteOffNoteRecvd ch (u7 b), None)
    | NoteOffNoteRecvd ch n => (NoteOffRecvd ch, Some (MNoteOff ch n (u7 b)))
    | NoteOnRecvd ch => (NoteOnNoteRecvd ch (u7 b), None)
    | NoteOnNoteRecvd ch n => (NoteOnRecvd ch, Some (MNoteOn ch n (u7 b)))
    | KeyPressureRecvd ch => (KeyPressureNoteRecvd ch (u7 b), None)
    | KeyPressureNoteRecvd ch n => (KeyPressureRecvd ch, Some MOther)
    | ControlChangeRecvd ch => (ControlChangeControlRecvd ch (u7 b), None)
    | ControlChangeControlRecvd ch c => (ControlChangeRecvd ch, Some (MControlChange ch c (u7 b)))
    | ProgramChangeRecvd ch => (st, Some MOther)
    | ChannelPressureRecvd ch => (st, Some MOther)
    | PitchBendRecvd ch => (PitchBendLsbRecvd ch b, None)
    | PitchBendLsbRecvd ch lsb => (PitchBendRecvd ch, Some (MPitchBend ch (Z.min b 127) (Z.min lsb 127)))
    | QuarterFrameRecvd => (st, Some MOther)
    | SongPositionRecvd => (SongPositionLsbRecvd b, None)
    | SongPositionLsbRecvd lsb => (SongPositionRecvd, Some MOther)
    | SongSelectRecvd => (st, Some MOther)
    | Idle => (st, None)
    end.

(** the [debug_assert!]s of midi-types reached by [parse]: every converted data byte
    must be <= 127 (and every channel <= 15) *)
Definition parse_byte_ok (st : pstate) (b : Z) : bool :=
  if is_status_byte b then true else b <=? 127.

(** ** midi-types: [f32::from(Value14)] *)
Definition value14_to_f32 (msb lsb : Z) : f32 :=
  let v := msb * 128 + lsb - 8192 in
  let x := fdiv (of_Z v) (if 0 <? v then of_Z 8191 else of_Z 8192) in
  fclamp x f_m1 f_1.

(** ** the receiver *)

Inductive priority := PLast | PHigh | PLow.

Record rx := mkRx {
  r_parser : pstate;
  r_channel : Z;
  r_note : Z;
  r_velocity : f32;
  r_pitch_bend : f32;
  r_mod_wheel : f32;
  r_volume : f32;
  r_cutoff : f32;
  r_resonance : f32;
  r_porta_time : f32;
  r_porta_en : bool;
  r_sustain_en : bool;
  r_gate : bool;
  r_rising : bool;
  r_falling : bool;
  r_retrig : bool;       (* RetriggerMode::AllowRetrigger *)
  r_prio : priority;
  r_held : list Z
}.

Definition rx_new (channel : Z) : rx :=
  mkRx Idle (Z.min channel 15) 0 f_0 f_0 f_0 f_0 f_0 f_0 f_0 true true false false false false PLast [].

Definition value7_to_f32 (v : Z) : f32 := fdiv (of_Z v) f_127.

Definition list_max (l : list Z) : Z :=
  match l with [] => 0 | x :: r => fold_left Z.max r x end.
Definition list_min (l : list Z) : Z :=
  match l with [] => 0 | x :: r => fold_left Z.min r x end.

Definition choose_next_note (p : priority) (held : list Z) : Z :=
  match p with
  | PLast => last held 0
  | PHigh => list_max held
  | PLow => list_min held
  end.

(** [heapless::Vec::push(..).ok()]: silently dropped when the vector is full *)
Definition push_held (held : list Z) (n : Z) : list Z :=
  if (Z.of_nat (length held) <? HELD_DOWN_NOTE_BUFFER_LEN) then held ++ [n] else held.

(* record update helpers *)
Definition set_notes (r : rx) (note : Z) (vel : f32) (gate rising falling : bool) (held : list Z) : rx :=
  mkRx (r_parser r) (r_channel r) note vel (r_pitch_bend r) (r_mod_wheel r) (r_volume r)
       (r_cutoff r) (r_resonance r) (r_porta_time r) (r_porta_en r) (r_sustain_en r)
       gate rising falling (r_retrig r) (r_prio r) held.

Definition set_ctrl (r : rx) (pb mw vol cut res pt : f32) (pe se : bool) : rx :=
  mkRx (r_parser r) (r_channel r) (r_note r) (r_velocity r) pb mw vol cut res pt pe se
       (r_gate r) (r_rising r) (r_falling r) (r_retrig r) (r_prio r) (r_held r).

Definition handle_note_on (r : rx) (note vel : Z) : rx :=
  let held := push_held (r_held r) note in
  set_notes r (choose_next_note (r_prio r) held) (value7_to_f32 vel) true
    (if r_retrig r || (Nat.eqb (length held) 1) then true else r_rising r)
    false held.

Definition handle_note_off (r : rx) (note : Z) : rx :=
  let held := filter (fun n => negb (n =? note)) (r_held r) in
  match held with
  | [] => set_notes r (r_note r) (r_velocity r) false false
            (if r_gate r then true else r_falling r) held
  | _ => set_notes r (choose_next_note (r_prio r) held) (r_velocity r) (r_gate r) (r_rising r)
            (r_falling r) held
  end.

Definition handle_cc (r : rx) (c v : Z) : rx :=
  if c =? CC_MOD_WHEEL then
    set_ctrl r (r_pitch_bend r) (value7_to_f32 v) (r_volume r) (r_cutoff r) (r_resonance r)
      (r_porta_time r) (r_porta_en r) (r_sustain_en r)
  else if c =? CC_VOLUME then
    set_ctrl r (r_pitch_bend r) (r_mod_wheel r) (value7_to_f32 v) (r_cutoff r) (r_resonance r)
      (r_porta_time r) (r_porta_en r) (r_sustain_en r)
  else if c =? CC_VCF_CUTOFF then
    set_ctrl r (r_pitch_bend r) (r_mod_wheel r) (r_volume r) (value7_to_f32 v) (r_resonance r)
      (r_porta_time r) (r_porta_en r) (r_sustain_en r)
  else if c =? CC_VCF_RESONANCE then
    set_ctrl r (r_pitch_bend r) (r_mod_wheel r) (r_volume r) (r_cutoff r) (value7_to_f32 v)
      (r_porta_time r) (r_porta_en r) (r_sustain_en r)
  else if c =? CC_PORTAMENTO_TIME then
    set_ctrl r (r_pitch_bend r) (r_mod_wheel r) (r_volume r) (r_cutoff r) (r_resonance r)
      (value7_to_f32 v) (r_porta_en r) (r_sustain_en r)
  else if c =? CC_PORTAMENTO_SWITCH then
    set_ctrl r (r_pitch_bend r) (r_mod_wheel r) (r_volume r) (r_cutoff r) (r_resonance r)
      (r_porta_time r) (U7_HALF_SCALE <=? v) (r_sustain_en r)
  else if c =? CC_SUSTAIN_SWITCH then
    set_ctrl r (r_pitch_bend r) (r_mod_wheel r) (r_volume r) (r_cutoff r) (r_resonance r)
      (r_porta_time r) (r_porta_en r) (U7_HALF_SCALE <=? v)
  else if c =? CC_ALL_CONTROLLERS_OFF then
    set_ctrl r f_0 f_0 f_0 f_0 f_0 f_0 true true
  else if c =? CC_ALL_NOTES_OFF then
    set_notes r (r_note r) (r_velocity r) false false
      (if r_gate r then true else r_falling r) []
  else r.

(** effect of one complete message (the [match] in [MonoMidiReceiver::parse]) *)
Definition apply_msg (r : rx) (m : msg) : rx :=
  match m with
  | MNoteOn ch n v =>
      if ch =? r_channel r then (if v =? 0 then handle_note_off r n else handle_note_on r n v) else r
  | MNoteOff ch n _ => if ch =? r_channel r then handle_note_off r n else r
  | MPitchBend ch msb lsb =>
      if ch =? r_channel r then
        set_ctrl r (value14_to_f32 msb lsb) (r_mod_wheel r) (r_volume r) (r_cutoff r)
          (r_resonance r) (r_porta_time r) (r_porta_en r) (r_sustain_en r)
      else r
  | MControlChange ch c v => if ch =? r_channel r then handle_cc r c v else r
  | MOther => r
  end.

Definition with_parser (r : rx) (p : pstate) : rx :=
  mkRx p (r_channel r) (r_note r) (r_velocity r) (r_pitch_bend r) (r_mod_wheel r) (r_volume r)
       (r_cutoff r) (r_resonance r) (r_porta_time r) (r_porta_en r) (r_sustain_en r)
       (r_gate r) (r_rising r) (r_falling r) (r_retrig r) (r_prio r) (r_held r).

Definition rx_parse (r : rx) (b : Z) : rx :=
  let '(p, m) := parse_byte (r_parser r) b in
  let r1 := with_parser r p in
  match m with Some m => apply_msg r1 m | None => r1 end.

Definition rx_rising_gate (r : rx) : bool * rx :=
  (r_rising r, set_notes r (r_note r) (r_velocity r) (r_gate r) false (r_falling r) (r_held r)).

Definition rx_falling_gate (r : rx) : bool * rx :=
  (r_falling r, set_notes r (r_note r) (r_velocity r) (r_gate r) (r_rising r) false (r_held r)).

Definition rx_set_retrig (r : rx) (b : bool) : rx :=
  mkRx (r_parser r) (r_channel r) (r_note r) (r_velocity r) (r_pitch_bend r) (r_mod_wheel r)
       (r_volume r) (r_cutoff r) (r_resonance r) (r_porta_time r) (r_porta_en r) (r_sustain_en r)
       (r_gate r) (r_rising r) (r_falling r) b (r_prio r) (r_held r).

Definition rx_set_prio (r : rx) (p : priority) : rx :=
  mkRx (r_parser r) (r_channel r) (r_note r) (r_velocity r) (r_pitch_bend r) (r_mod_wheel r)
       (r_volume r) (r_cutoff r) (r_resonance r) (r_porta_time r) (r_porta_en r) (r_sustain_en r)
       (r_gate r) (r_rising r) (r_falling r) (r_retrig r) p (r_held r).

Inductive rx_op :=
| RByte (b : Z) | RPollRise | RPollFall | RSetPrio (p : priority) | RSetRetrig (b : bool).

(** step with the value returned by a poll ([None] for non-poll operations) *)
Definition rx_step (r : rx) (o : rx_op) : rx * option bool :=
  match o with
  | RByte b => (rx_parse r b, None)
  | RPollRise => let '(x, r') := rx_rising_gate r in (r', Some x)
  | RPollFall => let '(x, r') := rx_falling_gate r in (r', Some x)
  | RSetPrio p => (rx_set_prio r p, None)
  | RSetRetrig b => (rx_set_retrig r b, None)
  end.

Definition rx_step_ok (r : rx) (o : rx_op) : bool :=
  match o with RByte b => parse_byte_ok (r_parser r) b | _ => true end.
