(** Extraction of the executable model to OCaml for the correspondence check.
    Only [ExtrOcamlBasic] is used (bool, option, list, prod, unit as OCaml types);
    there is no [Extract Constant] or [Extract Inductive] of ours: [Z], [positive]
    and [nat] stay the extracted inductive datatypes. *)
From Coq Require Extraction ExtrOcamlBasic.
From Coq Require Import ZArith List.
From SU Require Import F32 F64.
From SU.gen Require Import Consts.
From SU.Model Require Import Utils PhaseAcc Tables Adsr Lfo Quantizer Midi Tanf Glide Ribbon.

Extraction Language OCaml.
Set Extraction KeepSingleton.

Extraction "model.ml"
  of_bits to_bits of_Z
  adsr_new adsr_step adsr_step_ok phase_num a_state a_pa a_value pa_acc
  lfo_new lfo_step lfo_step_ok lfo_get lfo_get_ok
  quant_new quant_step quant_step_ok convert bit_allowed q_allowed
  rx_new rx_step rx_step_ok
  glide_new glide_set_time glide_process g_lpf d_c
  ribbon_new ribbon_new_ok ribbon_step ribbon_step_ok ribbon_value rb_pressing
  sample_rate_to_capacity sample_rate_to_capacity_ok
  tanf
  linear_interp ilog_2 fabs is_almost sine_table attack_table decay_table
  pa_new pa_tick pa_tick_ok pa_set_frequency pa_set_period pa_reset pa_set_phase pa_ramp pa_index pa_fraction
  pa_take_rolled
  time_from sustain_from note_new GL_DIV GL_MIN_FC GL_EPS GL_T0 g_min_fc g_max_fc g_cached_t LTOT LIDX
  Adsr.TOT Adsr.IDX
  SINE_LUT_SIZE ADSR_CURVE_LUT_SIZE MIN_TIME_PERIOD_SEC_bits MAX_TIME_PERIOD_SEC_bits ADSR_TOT_NUM_ACCUM_BITS
  LFO_TOT_NUM_ACCUM_BITS NUM_NOTES_PER_OCTAVE_bits SEMITONE_WIDTH_bits HALF_SEMITONE_WIDTH_bits HYSTERESIS_bits
  ONE_OCTAVE_IN_MICROVOLTS HALF_STEP_IN_MICROVOLTS MAX_OCTAVE V_MAX_bits CC_MOD_WHEEL CC_VOLUME CC_VCF_CUTOFF
  CC_VCF_RESONANCE CC_SUSTAIN_SWITCH CC_PORTAMENTO_SWITCH CC_PORTAMENTO_TIME CC_ALL_CONTROLLERS_OFF CC_ALL_NOTES_OFF
  U7_HALF_SCALE HELD_DOWN_NOTE_BUFFER_LEN RIBBON_FALL_TIME_USEC RIBBON_RISE_TIME_USEC MIN_CAPTURE_TIME_USEC
  GLIDE_MAX_FC_DIVISOR_bits GLIDE_MIN_FC_bits GLIDE_EPSILON_bits GLIDE_CACHED_T_INIT_bits.
