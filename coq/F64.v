(** * F64: IEEE-754 binary64, only what libm's [tanf] needs *)
From Coq Require Import ZArith Bool.
From Flocq Require Import Core.Zaux Core.Raux Core.Defs Core.FLX IEEE754.BinarySingleNaN.
From SU Require Import F32.
Open Scope Z_scope.

Definition prec64 : Z := 53.
Definition emax64 : Z := 1024.
#[global] Instance Hprec64 : Prec_gt_0 prec64 := eq_refl.
#[global] Instance Hmax64 : Prec_lt_emax prec64 emax64 := eq_refl.

Definition f64 : Type := binary_float prec64 emax64.

Definition dadd : f64 -> f64 -> f64 := Bplus mode_NE.
Definition dsub : f64 -> f64 -> f64 := Bminus mode_NE.
Definition dmul : f64 -> f64 -> f64 := Bmult mode_NE.
Definition ddiv : f64 -> f64 -> f64 := Bdiv mode_NE.

Definition d_of_Z (z : Z) : f64 := binary_normalize prec64 emax64 _ _ mode_NE z 0 false.

(** [x as f64] (exact) *)
Definition f32_to_f64 (x : f32) : f64 :=
  match x with
  | B754_nan => B754_nan
  | B754_infinity s => B754_infinity s
  | B754_zero s => B754_zero s
  | B754_finite s m e _ =>
      binary_normalize prec64 emax64 _ _ mode_NE (if s then Z.neg m else Z.pos m) e s
  end.

(** [x as f32] (round to nearest even, overflow to infinity) *)
Definition f64_to_f32 (x : f64) : f32 :=
  match x with
  | B754_nan => B754_nan
  | B754_infinity s => B754_infinity s
  | B754_zero s => B754_zero s
  | B754_finite s m e _ =>
      binary_normalize prec emax _ _ mode_NE (if s then Z.neg m else Z.pos m) e s
  end.

Definition d_of_bits (b : Z) : f64 :=
  let s := Z.testbit b 63 in
  let e := Z.land (Z.shiftr b 52) 2047 in
  let m := Z.land b 4503599627370495 in
  if e =? 2047 then (if m =? 0 then B754_infinity s else B754_nan)
  else if e =? 0 then
    (if m =? 0 then B754_zero s
     else binary_normalize prec64 emax64 _ _ mode_NE (if s then - m else m) (-1074) s)
  else binary_normalize prec64 emax64 _ _ mode_NE
         (if s then - (m + 4503599627370496) else m + 4503599627370496) (e - 1075) s.
