(** Additional theorems for the MIDI receiver (properties C04, C05, C06, C18):

    - C04: the note-priority rule characterised without reference to the model's
      [choose_next_note]; the selected note of a history in terms of the highest /
      lowest / most recent outstanding note.
    - C05: the edge-poll theorems for ALL histories (no capacity hypothesis), with the
      edges defined through the model's real gate; agreement with the positional
      specification within capacity; a witness that the capacity hypothesis mattered.
    - C18: pitch bend from an arbitrary receiver state; controllers and pitch bend on
      other channels; what controller 123 does.
    - C06: a complete (or partial, or running-status) channel-voice message for another
      channel inserted in a byte stream changes no output. *)
From Coq Require Import ZArith Bool List Lia Arith.
Import ListNotations.
From SU Require Import F32.
From SU.gen Require Import Consts.
From SU.Model Require Import Midi.
From SU.Spec Require Import MidiSpec.
From SU.Proofs Require Import MidiCCProofs MidiProofs MidiParserProofs MidiLiftProofs.
From SU.Props Require C18.
Open Scope Z_scope.

(** * Part 1 (C04): the note-priority rule *)

(** Representation: [push_held] appends at the END of the list ([held ++ [n]], as
    [heapless::Vec::push]), and [held_spec] lists the outstanding note-ons in order of
    arrival, oldest first.  So the most recent note-on is the LAST element; the Rust code
    is [held_down_notes.last()] for [Last], [.iter().max()] for [High], [.iter().min()]
    for [Low]. *)

Lemma fold_max_spec : forall r x,
  (fold_left Z.max r x = x \/ In (fold_left Z.max r x) r)
  /\ x <= fold_left Z.max r x
  /\ Forall (fun y => y <= fold_left Z.max r x) r.
Proof.
  induction r as [|a r IH]; intros x; cbn [fold_left].
  - split; [left; reflexivity|]. split; [lia|constructor].
  - destruct (IH (Z.max x a)) as (Hin & Hle & Hall).
    split; [|split].
    + destruct Hin as [E|Hin]; [|right; right; exact Hin].
      rewrite E. destruct (Z.max_spec x a) as [[_ E']|[_ E']]; rewrite E'.
      * right. left. reflexivity.
      * left. reflexivity.
    + lia.
    + constructor; [lia|exact Hall].
Qed.

Lemma fold_min_spec : forall r x,
  (fold_left Z.min r x = x \/ In (fold_left Z.min r x) r)
  /\ fold_left Z.min r x <= x
  /\ Forall (fun y => fold_left Z.min r x <= y) r.
Proof.
  induction r as [|a r IH]; intros x; cbn [fold_left].
  - split; [left; reflexivity|]. split; [lia|constructor].
  - destruct (IH (Z.min x a)) as (Hin & Hle & Hall).
    split; [|split].
    + destruct Hin as [E|Hin]; [|right; right; exact Hin].
      rewrite E. destruct (Z.min_spec x a) as [[_ E']|[_ E']]; rewrite E'.
      * left. reflexivity.
      * right. left. reflexivity.
    + lia.
    + constructor; [lia|exact Hall].
Qed.

Lemma list_max_spec : forall l, l <> [] ->
  In (list_max l) l /\ Forall (fun x => x <= list_max l) l.
Proof.
  intros [|x r] Hne; [contradiction Hne; reflexivity|]. unfold list_max.
  destruct (fold_max_spec r x) as (Hin & Hle & Hall).
  split.
  - destruct Hin as [E|Hin]; [left; symmetry; exact E|right; exact Hin].
  - constructor; assumption.
Qed.

Lemma list_min_spec : forall l, l <> [] ->
  In (list_min l) l /\ Forall (fun x => list_min l <= x) l.
Proof.
  intros [|x r] Hne; [contradiction Hne; reflexivity|]. unfold list_min.
  destruct (fold_min_spec r x) as (Hin & Hle & Hall).
  split.
  - destruct Hin as [E|Hin]; [left; symmetry; exact E|right; exact Hin].
  - constructor; assumption.
Qed.

Lemma last_in : forall (l : list Z) d, l <> [] -> In (last l d) l.
Proof.
  intros l d Hne. rewrite (app_removelast_last d Hne) at 2.
  apply in_or_app. right. left. reflexivity.
Qed.

(** the rule, independently of [choose_next_note]: the chosen note is one of the held
    notes; it is an upper bound of them under [PHigh], a lower bound under [PLow], and
    the last (most recently pushed) element under [PLast] *)
Theorem choose_next_note_spec : forall p held, held <> [] ->
  let n := choose_next_note p held in
  In n held /\
  (p = PHigh -> Forall (fun x => x <= n) held) /\
  (p = PLow -> Forall (fun x => n <= x) held) /\
  (p = PLast -> n = last held 0 /\ exists older, held = older ++ [n]).
Proof.
  intros p held Hne. cbv zeta.
  destruct (list_max_spec held Hne) as [Hmi Hma].
  destruct (list_min_spec held Hne) as [Hni Hna].
  destruct p; cbn [choose_next_note].
  - split; [apply last_in; exact Hne|].
    split; [discriminate|]. split; [discriminate|].
    intros _. split; [reflexivity|].
    exists (removelast held). apply app_removelast_last. exact Hne.
  - split; [exact Hmi|]. split; [intros _; exact Hma|].
    split; discriminate.
  - split; [exact Hni|]. split; [discriminate|].
    split; [intros _; exact Hna|discriminate].
Qed.

(** the empty list: the model defines the result as note 0 for every priority, like the
    Rust code ([.unwrap_or(&0)]).  The Rust code never reaches this case after the first
    note-on: [handle_note_on] calls [choose_next_note] after the push, [handle_note_off]
    only in the branch where the list is not empty. *)
Theorem choose_next_note_nil : forall p, choose_next_note p [] = 0.
Proof. intros [| |]; reflexivity. Qed.

(** [n] is the note that priority [p] selects among the non-empty list [held] (oldest
    first); no reference to [choose_next_note] *)
Definition selected (p : priority) (held : list Z) (n : Z) : Prop :=
  In n held /\
  (p = PHigh -> Forall (fun x => x <= n) held) /\
  (p = PLow -> Forall (fun x => n <= x) held) /\
  (p = PLast -> exists older, held = older ++ [n]).

Theorem choose_next_note_selected : forall p held, held <> [] ->
  selected p held (choose_next_note p held).
Proof.
  intros p held Hne.
  destruct (choose_next_note_spec p held Hne) as (H1 & H2 & H3 & H4).
  split; [exact H1|]. split; [exact H2|]. split; [exact H3|].
  intros Hp. exact (proj2 (H4 Hp)).
Qed.

(** [selected] determines the note *)
Theorem selected_unique : forall p held n n',
  selected p held n -> selected p held n' -> n = n'.
Proof.
  intros p held n n' (Hi & Hh & Hl & Hla) (Hi' & Hh' & Hl' & Hla').
  destruct p.
  - destruct (Hla eq_refl) as [o E]. destruct (Hla' eq_refl) as [o' E'].
    rewrite E in E'. apply app_inj_tail in E'. exact (proj2 E').
  - pose proof (proj1 (Forall_forall _ _) (Hh eq_refl) n' Hi') as A.
    pose proof (proj1 (Forall_forall _ _) (Hh' eq_refl) n Hi) as B.
    cbv beta in A, B. lia.
  - pose proof (proj1 (Forall_forall _ _) (Hl eq_refl) n' Hi') as A.
    pose proof (proj1 (Forall_forall _ _) (Hl' eq_refl) n Hi) as B.
    cbv beta in A, B. lia.
Qed.

(** the model's note handlers, from an arbitrary state: whenever they select a note, it
    is the one [selected] among the notes held afterwards *)
Lemma push_held_nonnil : forall held n, push_held held n <> [].
Proof.
  intros held n. unfold push_held.
  destruct (Z.of_nat (length held) <? HELD_DOWN_NOTE_BUFFER_LEN) eqn:E.
  - destruct held; discriminate.
  - destruct held; [|discriminate]. vm_compute in E. discriminate E.
Qed.

Theorem handle_note_on_selected : forall r n v,
  selected (r_prio r) (r_held (handle_note_on r n v)) (r_note (handle_note_on r n v)).
Proof.
  intros r n v. unfold handle_note_on. cbn [set_notes r_held r_note].
  apply choose_next_note_selected. apply push_held_nonnil.
Qed.

Theorem handle_note_off_selected : forall r n,
  r_held (handle_note_off r n) <> [] ->
  selected (r_prio r) (r_held (handle_note_off r n)) (r_note (handle_note_off r n)).
Proof.
  intros r n. unfold handle_note_off.
  destruct (filter (fun k => negb (k =? n)) (r_held r)) as [|a F] eqn:EF;
    cbn [set_notes r_held r_note]; intros Hne.
  - contradiction Hne. reflexivity.
  - apply choose_next_note_selected. exact Hne.
Qed.

(** ** the selected note of a history *)

(** [note_spec] by position: if a note message [o] (note-on, incl. velocity 0, or
    note-off on the listened channel) leaves at least one note outstanding, and every
    later note message leaves none outstanding, then the note of the history is the one
    selected, by the priority in force just before [o], among the notes outstanding
    just after [o] *)
Theorem note_spec_selected : forall ch h1 o h2,
  is_note_msg ch o = true ->
  held_spec ch (h1 ++ [o]) <> [] ->
  (forall h3 o' h4, h2 = h3 ++ o' :: h4 -> is_note_msg ch o' = true ->
                    held_spec ch (h1 ++ o :: h3 ++ [o']) = []) ->
  selected (prio_spec_rev (rev h1)) (held_spec ch (h1 ++ [o])) (note_spec ch (h1 ++ o :: h2)).
Proof.
  intros ch h1 o h2. induction h2 as [|a h2 IH] using rev_ind; intros Hnm Hne Hlater.
  - rewrite note_spec_snoc, Hnm.
    destruct (held_spec ch (h1 ++ [o])) as [|x t] eqn:EH; [contradiction Hne; reflexivity|].
    cbn [isnil negb andb]. apply choose_next_note_selected. discriminate.
  - replace (h1 ++ o :: h2 ++ [a]) with ((h1 ++ o :: h2) ++ [a])
      by (rewrite <- app_assoc; reflexivity).
    rewrite note_spec_snoc.
    assert (Hc : is_note_msg ch a && negb (isnil (held_spec ch ((h1 ++ o :: h2) ++ [a]))) = false).
    { destruct (is_note_msg ch a) eqn:Ea; [|reflexivity].
      replace ((h1 ++ o :: h2) ++ [a]) with (h1 ++ o :: h2 ++ [a])
        by (rewrite <- app_assoc; reflexivity).
      rewrite (Hlater h2 a [] eq_refl Ea). reflexivity. }
    rewrite Hc. apply IH; [exact Hnm|exact Hne|].
    intros h3 o' h4 E Ho'. apply (Hlater h3 o' (h4 ++ [a])); [|exact Ho'].
    rewrite E, <- app_assoc. reflexivity.
Qed.

(** ... and if no note message ever left a note outstanding, the note is 0 *)
Theorem note_spec_none : forall ch h,
  (forall h1 o h2, h = h1 ++ o :: h2 -> is_note_msg ch o = true -> held_spec ch (h1 ++ [o]) = []) ->
  note_spec ch h = 0.
Proof.
  intros ch h. induction h as [|a h IH] using rev_ind; intros Hall; [reflexivity|].
  rewrite note_spec_snoc.
  assert (Hc : is_note_msg ch a && negb (isnil (held_spec ch (h ++ [a]))) = false).
  { destruct (is_note_msg ch a) eqn:Ea; [|reflexivity].
    rewrite (Hall h a [] eq_refl Ea). reflexivity. }
  rewrite Hc. apply IH.
  intros h1 o h2 E Ho. apply (Hall h1 o (h2 ++ [a])); [|exact Ho].
  rewrite E, <- app_assoc. reflexivity.
Qed.

(** the property C04 for [note_num()], without [choose_next_note]: in every history
    within capacity, the note number is the highest / lowest / most recent of the
    outstanding notes (at the latest note message that left one outstanding) *)
Theorem C04_note_selected : forall ch h1 o h2,
  let c := Z.min ch 15 in
  within_capacity c (h1 ++ o :: h2) ->
  is_note_msg c o = true ->
  held_spec c (h1 ++ [o]) <> [] ->
  (forall h3 o' h4, h2 = h3 ++ o' :: h4 -> is_note_msg c o' = true ->
                    held_spec c (h1 ++ o :: h3 ++ [o']) = []) ->
  selected (prio_spec_rev (rev h1)) (held_spec c (h1 ++ [o])) (r_note (mrun ch (h1 ++ o :: h2))).
Proof.
  intros ch h1 o h2 c Hw Hnm Hne Hlater.
  rewrite (note_refines ch _ Hw). apply note_spec_selected; assumption.
Qed.

(** the special case "the latest operation is a note message": the note number right
    after a note message that leaves notes outstanding *)
Corollary C04_note_after_note_msg : forall ch h o,
  let c := Z.min ch 15 in
  within_capacity c (h ++ [o]) ->
  is_note_msg c o = true ->
  held_spec c (h ++ [o]) <> [] ->
  let n := r_note (mrun ch (h ++ [o])) in
  let held := held_spec c (h ++ [o]) in
  In n held /\
  (prio_spec_rev (rev h) = PHigh -> Forall (fun x => x <= n) held) /\
  (prio_spec_rev (rev h) = PLow -> Forall (fun x => n <= x) held) /\
  (prio_spec_rev (rev h) = PLast -> exists older, held = older ++ [n]).
Proof.
  intros ch h o c Hw Hnm Hne. cbv zeta.
  apply (C04_note_selected ch h o []); try assumption.
  intros h3 o' h4 E. destruct h3; discriminate E.
Qed.

(** the same with the model's own fields: the held list and the priority setting of the
    receiver are those of the specification, so the statement reads on the receiver alone *)
Corollary C04_note_after_note_msg_model : forall ch h o,
  let c := Z.min ch 15 in
  within_capacity c (h ++ [o]) ->
  is_note_msg c o = true ->
  r_held (mrun ch (h ++ [o])) <> [] ->
  selected (r_prio (mrun ch h)) (r_held (mrun ch (h ++ [o]))) (r_note (mrun ch (h ++ [o]))).
Proof.
  intros ch h o c Hw Hnm Hne.
  destruct (within_capacity_snoc c h o Hw) as [Hw0 _].
  rewrite (held_refines ch _ Hw) in *.
  rewrite (inv_prio _ _ _ (inv_run ch h Hw0)).
  apply (C04_note_selected ch h o []); try assumption.
  intros h3 o' h4 E. destruct h3; discriminate E.
Qed.

(** the example history of [C04_example] (Props/C04.v) is within capacity *)
Example C04_example_within_capacity :
  within_capacity 3
    [OMsg (MNoteOn 3 60 100); OMsg (MNoteOn 3 64 90); OMsg (MNoteOn 3 60 80);
     OMsg (MNoteOff 3 61 0); OSetPrio PLow; OMsg (MNoteOn 3 64 0);
     OMsg (MNoteOn 2 30 99)].
Proof.
  intros k. apply Z.leb_le.
  do 8 (destruct k as [|k]; [vm_compute; reflexivity|]).
  vm_compute. reflexivity.
Qed.

(** * Part 2 (C05): edge polls for all histories *)

(** the model's real gate after a history *)
Definition gate_m (ch : Z) (h : list mop) : bool := r_gate (mrun ch h).

(** position [j] is a fall of the REAL gate: [gate()] was true before operation [j]
    and false after it *)
Definition falls_at_g (ch : Z) (h : list mop) (j : nat) : bool :=
  gate_m ch (firstn j h) && negb (gate_m ch (firstn (S j) h)).

(** position [j] raises a rising edge: a note-on with velocity > 0 on the listened channel
    that found the REAL gate low, or arrived in retrigger mode *)
Definition rises_at_g (ch : Z) (h : list mop) (j : nat) : bool :=
  match nth_error h j with
  | Some o =>
      match note_on_of (Z.min ch 15) o with
      | Some _ => negb (gate_m ch (firstn j h)) || retrig_spec_rev (rev (firstn j h))
      | None => false
      end
  | None => false
  end.

(** a fall of the real gate at some position, with no note-on and no [falling_gate()]
    call after it *)
Definition pending_fall_g (ch : Z) (h : list mop) : bool :=
  existsb (fun j => falls_at_g ch h j
                    && negb (existsb (fun o => is_note_on (Z.min ch 15) o || is_poll_fall o)
                                     (between h j (length h))))
          (seq 0 (length h)).

(** a raising note-on at some position, with no fall of the real gate and no
    [rising_gate()] call after it *)
Definition pending_rise_g (ch : Z) (h : list mop) : bool :=
  existsb (fun j => rises_at_g ch h j
                    && negb (existsb (fun k => falls_at_g ch h k) (seq (S j) (length h - S j)))
                    && negb (existsb is_poll_rise (between h j (length h))))
          (seq 0 (length h)).

(** ** snoc lemmas *)

Definition fall_now_g (ch : Z) (h : list mop) (o : mop) : bool :=
  gate_m ch h && negb (gate_m ch (h ++ [o])).

Definition rise_now_g (ch : Z) (h : list mop) (o : mop) : bool :=
  is_note_on (Z.min ch 15) o && (negb (gate_m ch h) || retrig_spec_rev (rev h)).

Lemma falls_at_g_snoc_lt ch h o j :
  (j < length h)%nat -> falls_at_g ch (h ++ [o]) j = falls_at_g ch h j.
Proof.
  intros Hj. unfold falls_at_g.
  rewrite !firstn_snoc_le by lia. reflexivity.
Qed.

Lemma falls_at_g_snoc_last ch h o :
  falls_at_g ch (h ++ [o]) (length h) = fall_now_g ch h o.
Proof.
  unfold falls_at_g, fall_now_g.
  rewrite firstn_snoc_le by lia. rewrite firstn_all.
  rewrite firstn_all2 by (rewrite app_length; simpl; lia).
  reflexivity.
Qed.

Lemma pending_fall_g_snoc ch h o :
  pending_fall_g ch (h ++ [o])
  = (pending_fall_g ch h && negb (is_note_on (Z.min ch 15) o || is_poll_fall o))
    || fall_now_g ch h o.
Proof.
  unfold pending_fall_g.
  rewrite app_length. simpl length.
  replace (length h + 1)%nat with (S (length h)) by lia.
  rewrite seq_S, existsb_app. cbn [existsb]. rewrite orb_false_r.
  f_equal.
  - rewrite <- existsb_and_r.
    apply existsb_ext_in. intros j Hj. apply in_seq in Hj.
    rewrite falls_at_g_snoc_lt by lia.
    replace (S (length h)) with (length (h ++ [o])) by (rewrite app_length; simpl; lia).
    rewrite !between_end. rewrite skipn_snoc_le by lia.
    rewrite existsb_app. cbn [existsb]. rewrite orb_false_r.
    generalize (existsb (fun o0 => is_note_on (Z.min ch 15) o0 || is_poll_fall o0) (skipn (S j) h)).
    intros b.
    destruct (falls_at_g ch h j), b, (is_note_on (Z.min ch 15) o || is_poll_fall o); reflexivity.
  - rewrite falls_at_g_snoc_last.
    replace (S (length h)) with (length (h ++ [o])) by (rewrite app_length; simpl; lia).
    rewrite between_end.
    rewrite skipn_all2 by (rewrite app_length; simpl; lia).
    simpl. apply andb_true_r.
Qed.

Lemma rises_at_g_snoc_lt ch h o j :
  (j < length h)%nat -> rises_at_g ch (h ++ [o]) j = rises_at_g ch h j.
Proof.
  intros Hj. unfold rises_at_g.
  rewrite nth_error_app1 by lia.
  rewrite firstn_snoc_le by lia. reflexivity.
Qed.

Lemma rises_at_g_snoc_last ch h o :
  rises_at_g ch (h ++ [o]) (length h) = rise_now_g ch h o.
Proof.
  unfold rises_at_g, rise_now_g, is_note_on.
  rewrite nth_error_app2 by lia. rewrite Nat.sub_diag. simpl.
  rewrite firstn_snoc_le by lia. rewrite firstn_all.
  destruct (note_on_of (Z.min ch 15) o); reflexivity.
Qed.

Lemma pending_rise_g_snoc ch h o :
  pending_rise_g ch (h ++ [o])
  = (pending_rise_g ch h && negb (fall_now_g ch h o) && negb (is_poll_rise o))
    || rise_now_g ch h o.
Proof.
  unfold pending_rise_g.
  rewrite app_length. simpl length.
  replace (length h + 1)%nat with (S (length h)) by lia.
  rewrite seq_S, existsb_app. cbn [existsb]. rewrite orb_false_r.
  f_equal.
  - rewrite <- andb_assoc. rewrite <- existsb_and_r.
    apply existsb_ext_in. intros j Hj. apply in_seq in Hj.
    rewrite rises_at_g_snoc_lt by lia.
    replace (S (length h) - S j)%nat with (S (length h - S j)) by lia.
    rewrite seq_S, existsb_app. cbn [existsb]. rewrite orb_false_r.
    replace (S j + (length h - S j))%nat with (length h) by lia.
    rewrite falls_at_g_snoc_last.
    rewrite (existsb_ext_in (fun k => falls_at_g ch (h ++ [o]) k) (fun k => falls_at_g ch h k)).
    2:{ intros k Hk. apply in_seq in Hk. apply falls_at_g_snoc_lt. lia. }
    replace (S (length h)) with (length (h ++ [o])) by (rewrite app_length; simpl; lia).
    rewrite !between_end. rewrite skipn_snoc_le by lia.
    rewrite existsb_app. cbn [existsb]. rewrite orb_false_r.
    generalize (existsb is_poll_rise (skipn (S j) h)).
    generalize (existsb (fun k => falls_at_g ch h k) (seq (S j) (length h - S j))).
    intros b1 b2.
    destruct (rises_at_g ch h j), b1, (fall_now_g ch h o), b2, (is_poll_rise o); reflexivity.
  - rewrite rises_at_g_snoc_last.
    rewrite Nat.sub_diag. simpl seq. cbn [existsb].
    replace (S (length h)) with (length (h ++ [o])) by (rewrite app_length; simpl; lia).
    rewrite between_end.
    rewrite skipn_all2 by (rewrite app_length; simpl; lia).
    simpl. rewrite !andb_true_r. reflexivity.
Qed.

(** ** one step of the model, from any state whose gate is high iff a note is held *)

Definition gate_held (r : rx) : Prop := r_gate r = negb (isnil (r_held r)).

Lemma push_held_len1 : forall held n,
  Nat.eqb (length (push_held held n)) 1 = isnil held.
Proof.
  intros held n. unfold push_held.
  destruct (Z.of_nat (length held) <? HELD_DOWN_NOTE_BUFFER_LEN) eqn:E.
  - apply length_one_isnil.
  - destruct held as [|a [|b t]]; [vm_compute in E; discriminate E
                                  |vm_compute in E; discriminate E|reflexivity].
Qed.

(** the new flags in terms of the old flags, the old and new gate, and the operation *)
Definition flags_step (r r' : rx) (o : mop) : Prop :=
  let c := r_channel r in
  r_channel r' = c /\
  gate_held r' /\
  r_retrig r' = retrig_spec_rev (o :: (if r_retrig r then [OSetRetrig true] else [])) /\
  r_falling r' = (r_falling r && negb (is_note_on c o || is_poll_fall o))
                 || (r_gate r && negb (r_gate r')) /\
  r_rising r' = (r_rising r && negb (r_gate r && negb (r_gate r')) && negb (is_poll_rise o))
                || (is_note_on c o && (negb (r_gate r) || r_retrig r)).

Lemma retrig_keep (r : rx) :
  r_retrig r = retrig_spec_rev (if r_retrig r then [OSetRetrig true] else []).
Proof. destruct (r_retrig r); reflexivity. Qed.

Lemma flags_same r r' o :
  gate_held r -> same_notes r r' ->
  note_on_of (r_channel r) o = None -> is_poll_fall o = false -> is_poll_rise o = false ->
  (forall l, retrig_spec_rev (o :: l) = retrig_spec_rev l) ->
  flags_step r r' o.
Proof.
  intros Hg (Sc & Sh & Sg & Sp & Sr & Sn & Sf & Srs) Hon Hpf Hpr Hretr.
  unfold flags_step, gate_held, is_note_on. cbv zeta.
  rewrite Hon, Hpf, Hpr, Hretr, Sc, Sg, Sh, Sr, Sf, Srs.
  split; [reflexivity|]. split; [exact Hg|]. split; [apply retrig_keep|].
  split; destruct (r_falling r), (r_rising r), (r_gate r); reflexivity.
Qed.

Lemma flags_note_off r n o :
  gate_held r -> edge_ok r ->
  note_on_of (r_channel r) o = None -> is_poll_fall o = false -> is_poll_rise o = false ->
  (forall l, retrig_spec_rev (o :: l) = retrig_spec_rev l) ->
  flags_step r (handle_note_off r n) o.
Proof.
  intros Hg [Hrg Hfg] Hon Hpf Hpr Hretr.
  unfold flags_step, gate_held, is_note_on, handle_note_off in *. cbv zeta.
  rewrite Hon, Hpf, Hpr, Hretr.
  destruct (filter (fun k => negb (k =? n)) (r_held r)) as [|a F] eqn:EF;
    cbn [set_notes r_channel r_gate r_held r_retrig r_falling r_rising isnil negb].
  - split; [reflexivity|]. split; [reflexivity|]. split; [apply retrig_keep|].
    split.
    + destruct (r_gate r), (r_falling r); reflexivity.
    + destruct (r_gate r) eqn:Eg, (r_rising r) eqn:Er; try reflexivity.
      specialize (Hrg eq_refl). discriminate Hrg.
  - assert (Hgt : r_gate r = true).
    { rewrite Hg. destruct (r_held r); [discriminate EF|reflexivity]. }
    split; [reflexivity|]. split; [exact Hgt|]. split; [apply retrig_keep|].
    rewrite Hgt. split; destruct (r_falling r), (r_rising r); reflexivity.
Qed.

Lemma flags_all_off r o :
  edge_ok r ->
  note_on_of (r_channel r) o = None -> is_poll_fall o = false -> is_poll_rise o = false ->
  (forall l, retrig_spec_rev (o :: l) = retrig_spec_rev l) ->
  flags_step r
    (set_notes r (r_note r) (r_velocity r) false false (if r_gate r then true else r_falling r) [])
    o.
Proof.
  intros [Hrg Hfg] Hon Hpf Hpr Hretr.
  unfold flags_step, gate_held, is_note_on. cbv zeta.
  rewrite Hon, Hpf, Hpr, Hretr.
  cbn [set_notes r_channel r_gate r_held r_retrig r_falling r_rising isnil negb].
  split; [reflexivity|]. split; [reflexivity|]. split; [apply retrig_keep|].
  split.
  - destruct (r_gate r), (r_falling r); reflexivity.
  - destruct (r_gate r) eqn:Eg, (r_rising r) eqn:Er; try reflexivity.
    specialize (Hrg eq_refl). discriminate Hrg.
Qed.

Lemma flags_note_on r n v o k :
  gate_held r ->
  note_on_of (r_channel r) o = Some k -> is_poll_fall o = false -> is_poll_rise o = false ->
  (forall l, retrig_spec_rev (o :: l) = retrig_spec_rev l) ->
  flags_step r (handle_note_on r n v) o.
Proof.
  intros Hg Hon Hpf Hpr Hretr.
  unfold flags_step, gate_held, is_note_on, handle_note_on in *. cbv zeta.
  rewrite Hon, Hpf, Hpr, Hretr.
  cbn [set_notes r_channel r_gate r_held r_retrig r_falling r_rising].
  rewrite push_held_len1.
  split; [reflexivity|].
  split.
  { pose proof (push_held_nonnil (r_held r) n) as Hne.
    destruct (push_held (r_held r) n); [contradiction Hne; reflexivity|reflexivity]. }
  split; [apply retrig_keep|].
  rewrite Hg.
  split; destruct (r_falling r), (r_rising r), (isnil (r_held r)), (r_retrig r); reflexivity.
Qed.

Lemma flags_mstep r o :
  gate_held r -> edge_ok r -> flags_step r (fst (mstep r o)) o.
Proof.
  intros Hg He.
  destruct o as [m| | |p|b].
  - destruct m as [c' n v|c' n v|c' cc v|c' msb lsb|]; cbn [mstep fst apply_msg].
    + (* note-off *)
      destruct (c' =? r_channel r) eqn:E.
      * apply flags_note_off; try assumption; cbn; intros; reflexivity.
      * apply flags_same; try assumption; [apply same_notes_refl| | | |]; cbn; intros; reflexivity.
    + (* note-on *)
      destruct (c' =? r_channel r) eqn:E.
      * destruct (v =? 0) eqn:Ev.
        -- apply flags_note_off; try assumption; cbn; rewrite ?E, ?Ev; intros; reflexivity.
        -- apply (flags_note_on r n v _ n); try assumption; cbn; rewrite ?E, ?Ev; intros;
             reflexivity.
      * apply flags_same; try assumption; [apply same_notes_refl| | | |]; cbn; rewrite ?E;
          intros; reflexivity.
    + (* control change *)
      destruct (c' =? r_channel r) eqn:E.
      * destruct (cc =? CC_ALL_NOTES_OFF) eqn:Ecc.
        -- rewrite handle_cc_all_off by exact Ecc.
           apply flags_all_off; try assumption; cbn; intros; reflexivity.
        -- apply flags_same; try assumption; [apply same_notes_handle_cc; exact Ecc| | | |];
             cbn; intros; reflexivity.
      * apply flags_same; try assumption; [apply same_notes_refl| | | |]; cbn; intros; reflexivity.
    + (* pitch bend *)
      apply flags_same; try assumption; [| | | |]; try (cbn; intros; reflexivity).
      destruct (c' =? r_channel r); unfold same_notes; cbn; split_all; reflexivity.
    + apply flags_same; try assumption; [apply same_notes_refl| | | |]; cbn; intros; reflexivity.
  - (* rising_gate() *)
    unfold flags_step, gate_held in *. cbn.
    split; [reflexivity|]. split; [exact Hg|]. split; [apply retrig_keep|].
    split; destruct (r_falling r), (r_rising r), (r_gate r); reflexivity.
  - (* falling_gate() *)
    unfold flags_step, gate_held in *. cbn.
    split; [reflexivity|]. split; [exact Hg|]. split; [apply retrig_keep|].
    split; destruct (r_falling r), (r_rising r), (r_gate r); reflexivity.
  - (* set_note_priority *)
    unfold flags_step, gate_held in *. cbn.
    split; [reflexivity|]. split; [exact Hg|]. split; [apply retrig_keep|].
    split; destruct (r_falling r), (r_rising r), (r_gate r); reflexivity.
  - (* set_retrigger_mode *)
    unfold flags_step, gate_held in *. cbn.
    split; [reflexivity|]. split; [exact Hg|]. split; [reflexivity|].
    split; destruct (r_falling r), (r_rising r), (r_gate r); reflexivity.
Qed.

(** ** the invariant along every history *)

Record InvG (ch : Z) (h : list mop) (r : rx) : Prop := mkInvG {
  ig_chan : r_channel r = Z.min ch 15;
  ig_gate : gate_held r;
  ig_retrig : r_retrig r = retrig_spec_rev (rev h);
  ig_fall : r_falling r = pending_fall_g ch h;
  ig_rise : r_rising r = pending_rise_g ch h
}.

Lemma retrig_spec_rev_head o l l' :
  retrig_spec_rev l = retrig_spec_rev l' -> retrig_spec_rev (o :: l) = retrig_spec_rev (o :: l').
Proof.
  intros E. destruct o as [m| | |p|b]; cbn [retrig_spec_rev]; try exact E. reflexivity.
Qed.

Lemma invg_run ch h : InvG ch h (mrun ch h).
Proof.
  induction h as [|o h IH] using rev_ind.
  - constructor; reflexivity.
  - destruct IH as [Hc Hg Hr Hf Hrs].
    pose proof (flags_mstep (mrun ch h) o Hg (edge_ok_run ch h)) as HS.
    unfold flags_step in HS. cbv zeta in HS. rewrite <- mrun_snoc in HS.
    destruct HS as (Sc & Sg & Sr & Sf & Srs).
    constructor.
    + rewrite Sc. exact Hc.
    + exact Sg.
    + rewrite retrig_spec_snoc, Sr. apply retrig_spec_rev_head.
      rewrite <- retrig_keep. exact Hr.
    + rewrite pending_fall_g_snoc. unfold fall_now_g, gate_m.
      rewrite Sf, Hc, Hf. reflexivity.
    + rewrite pending_rise_g_snoc. unfold fall_now_g, rise_now_g, gate_m.
      rewrite Srs, Hc, Hrs, Hr. reflexivity.
Qed.

(** the gate is high exactly while the receiver holds a note, in every history *)
Theorem gate_iff_held : forall ch h,
  r_gate (mrun ch h) = negb (isnil (r_held (mrun ch h))).
Proof. intros ch h. exact (ig_gate _ _ _ (invg_run ch h)). Qed.

(** C05 for ALL histories: a [falling_gate()] call after any history returns true iff the
    real gate went from true to false at some position since the last [falling_gate()]
    call and no note-on (velocity > 0, listened channel) arrived after that position *)
Theorem C05_falling_any : forall ch h,
  mout ch h OPollFall = Some (pending_fall_g ch h).
Proof.
  intros ch h. unfold mout. cbn [mstep rx_falling_gate snd].
  rewrite (ig_fall _ _ _ (invg_run ch h)). reflexivity.
Qed.

(** a [rising_gate()] call after any history returns true iff some note-on (velocity > 0,
    listened channel) since the last [rising_gate()] call found the real gate low or
    arrived in retrigger mode, and the real gate did not fall after it *)
Theorem C05_rising_any : forall ch h,
  mout ch h OPollRise = Some (pending_rise_g ch h).
Proof.
  intros ch h. unfold mout. cbn [mstep rx_rising_gate snd].
  rewrite (ig_rise _ _ _ (invg_run ch h)). reflexivity.
Qed.

(** ** agreement with the positional specification within capacity *)

Lemma within_capacity_firstn c h j : within_capacity c h -> within_capacity c (firstn j h).
Proof. intros Hw k. rewrite firstn_firstn. apply Hw. Qed.

Lemma gate_m_spec ch h j :
  within_capacity (Z.min ch 15) h -> gate_m ch (firstn j h) = gate_spec (Z.min ch 15) (firstn j h).
Proof. intros Hw. apply gate_refines. apply within_capacity_firstn. exact Hw. Qed.

Theorem falls_at_g_spec : forall ch h j,
  within_capacity (Z.min ch 15) h -> falls_at_g ch h j = falls_at (Z.min ch 15) h j.
Proof.
  intros ch h j Hw. unfold falls_at_g, falls_at. rewrite !gate_m_spec by exact Hw. reflexivity.
Qed.

Theorem rises_at_g_spec : forall ch h j,
  within_capacity (Z.min ch 15) h -> rises_at_g ch h j = rises_at (Z.min ch 15) h j.
Proof.
  intros ch h j Hw. unfold rises_at_g, rises_at. rewrite !gate_m_spec by exact Hw. reflexivity.
Qed.

Theorem pending_fall_g_spec : forall ch h,
  within_capacity (Z.min ch 15) h -> pending_fall_g ch h = pending_fall (Z.min ch 15) h.
Proof.
  intros ch h Hw. unfold pending_fall_g, pending_fall.
  apply existsb_ext_in. intros j _. rewrite falls_at_g_spec by exact Hw. reflexivity.
Qed.

Theorem pending_rise_g_spec : forall ch h,
  within_capacity (Z.min ch 15) h -> pending_rise_g ch h = pending_rise (Z.min ch 15) h.
Proof.
  intros ch h Hw. unfold pending_rise_g, pending_rise.
  apply existsb_ext_in. intros j _. rewrite rises_at_g_spec by exact Hw.
  rewrite (existsb_ext_in (fun k => falls_at_g ch h k) (fun k => falls_at (Z.min ch 15) h k));
    [reflexivity|].
  intros k _. apply falls_at_g_spec. exact Hw.
Qed.

(** the theorems of Props/C05.v are corollaries *)
Corollary C05_falling_from_any : forall ch h,
  within_capacity (Z.min ch 15) h ->
  mout ch h OPollFall = Some (pending_fall (Z.min ch 15) h).
Proof. intros ch h Hw. rewrite C05_falling_any, pending_fall_g_spec by exact Hw. reflexivity. Qed.

Corollary C05_rising_from_any : forall ch h,
  within_capacity (Z.min ch 15) h ->
  mout ch h OPollRise = Some (pending_rise (Z.min ch 15) h).
Proof. intros ch h Hw. rewrite C05_rising_any, pending_rise_g_spec by exact Hw. reflexivity. Qed.

(** the retrigger mode of the receiver is the one last set, in every history *)
Theorem retrig_any : forall ch h, r_retrig (mrun ch h) = retrig_spec_rev (rev h).
Proof. intros ch h. exact (ig_retrig _ _ _ (invg_run ch h)). Qed.

(** * Part 3 (C18): pitch bend and controllers from an arbitrary state *)

(** (a) a pitch bend on the listened channel, from ANY receiver state: the pitch-bend
    output becomes the same function [C18.bend] of the 14-bit value [128*msb + lsb] as in
    [C18_lsb_first]; each of the other 17 fields keeps its value *)
Theorem C18_pitch_bend_any_state : forall r msb lsb,
  0 <= msb < 128 -> 0 <= lsb < 128 ->
  apply_msg r (MPitchBend (r_channel r) msb lsb) =
  mkRx (r_parser r) (r_channel r) (r_note r) (r_velocity r)
       (C18.bend (128 * msb + lsb))
       (r_mod_wheel r) (r_volume r) (r_cutoff r) (r_resonance r) (r_porta_time r)
       (r_porta_en r) (r_sustain_en r) (r_gate r) (r_rising r) (r_falling r) (r_retrig r)
       (r_prio r) (r_held r).
Proof.
  intros r msb lsb Hm Hl. unfold apply_msg. rewrite Z.eqb_refl.
  unfold set_ctrl, C18.bend.
  replace ((128 * msb + lsb) / 128) with msb
    by (apply Z.div_unique_pos with lsb; lia).
  replace ((128 * msb + lsb) mod 128) with lsb
    by (apply Z.mod_unique_pos with msb; lia).
  reflexivity.
Qed.

(** the same through the views of Props/C18.v *)
Corollary C18_pitch_bend_views : forall r msb lsb,
  0 <= msb < 128 -> 0 <= lsb < 128 ->
  let r' := apply_msg r (MPitchBend (r_channel r) msb lsb) in
  r_pitch_bend r' = C18.bend (128 * msb + lsb) /\
  (r_mod_wheel r', r_volume r', r_cutoff r', r_resonance r', r_porta_time r', r_porta_en r',
   r_sustain_en r')
  = (r_mod_wheel r, r_volume r, r_cutoff r, r_resonance r, r_porta_time r, r_porta_en r,
     r_sustain_en r) /\
  C18.note_view r' = C18.note_view r.
Proof.
  intros r msb lsb Hm Hl. cbv zeta.
  rewrite (C18_pitch_bend_any_state r msb lsb Hm Hl).
  split; [reflexivity|]. split; reflexivity.
Qed.

(** (b) a control change or a pitch bend on any other channel changes nothing at all *)
Theorem C18_other_channel_cc : forall r ch c v,
  ch <> r_channel r -> apply_msg r (MControlChange ch c v) = r.
Proof.
  intros r ch c v H. exact (foreign_channel_transparent r (MControlChange ch c v) H).
Qed.

Theorem C18_other_channel_pitch_bend : forall r ch msb lsb,
  ch <> r_channel r -> apply_msg r (MPitchBend ch msb lsb) = r.
Proof.
  intros r ch msb lsb H. exact (foreign_channel_transparent r (MPitchBend ch msb lsb) H).
Qed.

(** (c) controller 123 (All Notes Off), from any state and for any value: no controller
    level or switch and no pitch bend changes; the held notes are cleared, the gate
    drops, a pending rising edge is cancelled, and a falling edge is raised iff the gate
    was high; note number, velocity and the mode settings keep their values *)
Theorem C18_all_notes_off : forall r v,
  handle_cc r 123 v =
  mkRx (r_parser r) (r_channel r) (r_note r) (r_velocity r) (r_pitch_bend r) (r_mod_wheel r)
       (r_volume r) (r_cutoff r) (r_resonance r) (r_porta_time r) (r_porta_en r)
       (r_sustain_en r)
       false false (if r_gate r then true else r_falling r)
       (r_retrig r) (r_prio r) [].
Proof. intros r v. reflexivity. Qed.

Corollary C18_all_notes_off_ctrl_view : forall r v,
  C18.ctrl_view (handle_cc r 123 v) = C18.ctrl_view r.
Proof. intros r v. reflexivity. Qed.

(** the controller view: only the eight documented controller numbers change it *)
Theorem C18_other_controllers_ctrl_view : forall r c v,
  c <> 1 -> c <> 7 -> c <> 71 -> c <> 74 -> c <> 5 -> c <> 65 -> c <> 64 -> c <> 121 ->
  C18.ctrl_view (handle_cc r c v) = C18.ctrl_view r.
Proof.
  intros r c v H1 H7 H71 H74 H5 H65 H64 H121.
  pose proof (cc_routing r c v) as H. cbv beta iota zeta in H.
  apply Z.eqb_neq in H1, H7, H71, H74, H5, H65, H64, H121.
  rewrite H1, H7, H71, H74, H5, H65, H64, H121 in H. exact H.
Qed.

(** every controller number outside the nine documented ones changes nothing at all *)
Theorem C18_unknown_controller_ignored : forall r c v,
  c <> 1 -> c <> 7 -> c <> 71 -> c <> 74 -> c <> 5 -> c <> 65 -> c <> 64 -> c <> 121 ->
  c <> 123 ->
  handle_cc r c v = r.
Proof.
  intros r c v H1 H7 H71 H74 H5 H65 H64 H121 H123.
  apply Z.eqb_neq in H1, H7, H71, H74, H5, H65, H64, H121, H123.
  unfold handle_cc, CC_MOD_WHEEL, CC_VOLUME, CC_VCF_CUTOFF, CC_VCF_RESONANCE,
    CC_PORTAMENTO_TIME, CC_PORTAMENTO_SWITCH, CC_SUSTAIN_SWITCH, CC_ALL_CONTROLLERS_OFF,
    CC_ALL_NOTES_OFF.
  rewrite H1, H7, H71, H74, H5, H65, H64, H121, H123. reflexivity.
Qed.

(** * Part 4 (C06): a message for another channel inside a byte stream *)

Definition data_byte (b : Z) : Prop := 0 <= b < 128.

(** a channel-voice status byte (0x80..0xEF) whose channel is not the listened one *)
Definition foreign_status (ch s : Z) : Prop := 128 <= s < 240 /\ Z.land s 15 <> Z.min ch 15.

(** the rest of the stream starts at a message boundary: ignoring real-time bytes (which
    may occur anywhere), it is empty or starts with a status byte *)
Definition at_boundary (l : list Z) : Prop :=
  match filter (fun b => negb (is_realtime b)) l with
  | [] => True
  | b :: _ => is_status_byte b = true
  end.

Lemma voice_status_sweep :
  forallb (fun s => implb ((128 <=? s) && (s <? 240))
                      (is_status_byte s && negb (is_realtime s) && negb (is_system_message s)))
          (zrange 256) = true.
Proof. vm_compute. reflexivity. Qed.

Lemma voice_status_facts : forall s, 128 <= s < 240 ->
  is_status_byte s = true /\ is_realtime s = false /\ is_system_message s = false.
Proof.
  intros s Hs.
  assert (H := sweep_lift _ 256 voice_status_sweep s ltac:(lia)). cbv beta in H.
  replace (128 <=? s) with true in H by (symmetry; apply Z.leb_le; lia).
  replace (s <? 240) with true in H by (symmetry; apply Z.ltb_lt; lia).
  cbn [andb implb] in H.
  apply andb_true_iff in H. destruct H as [H H3].
  apply andb_true_iff in H. destruct H as [H1 H2].
  apply negb_true_iff in H2, H3. split; [exact H1|]. split; assumption.
Qed.

Lemma data_byte_facts : forall b, data_byte b ->
  is_byte b /\ is_status_byte b = false /\ nonrt b = true.
Proof.
  intros b Hb. unfold data_byte in Hb. split; [unfold is_byte; lia|].
  split; [apply data_not_status; exact Hb|].
  unfold nonrt, is_realtime. apply negb_true_iff. apply Z.leb_gt. lia.
Qed.

Lemma filter_nonrt_data : forall d, Forall data_byte d -> filter nonrt d = d.
Proof.
  induction 1 as [|b d Hb _ IH]; [reflexivity|].
  cbn [filter]. rewrite (proj2 (proj2 (data_byte_facts b Hb))), IH. reflexivity.
Qed.

Lemma split_data_app : forall d l, Forall data_byte d ->
  split_segments (d ++ l) = (d ++ fst (split_segments l), snd (split_segments l)).
Proof.
  induction 1 as [|b d Hb _ IH].
  - cbn [app]. destruct (split_segments l); reflexivity.
  - cbn [app]. rewrite split_cons_data by (apply data_byte_facts; exact Hb).
    rewrite IH. reflexivity.
Qed.

(** the parser state stays well formed along every byte sequence *)
Lemma wf_parse_byte : forall b st, is_byte b -> wf st -> wf (fst (parse_byte st b)).
Proof.
  intros b st Hb Hwf. destruct (is_realtime b) eqn:Hrt.
  - destruct (step_rt b Hb Hrt st) as [E _]. rewrite E. exact Hwf.
  - destruct (is_status_byte b) eqn:Hs.
    + destruct (step_status b Hb Hs Hrt st) as (_ & H & _). exact H.
    + destruct (step_data b st Hs (data_small b Hb Hs) Hwf) as [H _]. exact H.
Qed.

Lemma wf_fold_parse : forall l r, Forall is_byte l -> wf (r_parser r) ->
  wf (r_parser (fold_left rx_parse l r)).
Proof.
  induction l as [|b l IH]; intros r Hl Hwf; [exact Hwf|].
  inversion Hl as [|b' l' Hb Hl']; subst. cbn [fold_left]. apply IH; [exact Hl'|].
  rewrite rx_parse_parser. apply wf_parse_byte; assumption.
Qed.

Lemma wf_run_bytes : forall ch l, Forall is_byte l -> wf (r_parser (run_bytes ch l)).
Proof. intros ch l Hl. unfold run_bytes. apply wf_fold_parse; [exact Hl|exact I]. Qed.

(** the listened channel never changes *)
Lemma apply_msg_channel : forall r m, r_channel (apply_msg r m) = r_channel r.
Proof.
  intros r m. destruct m as [c n v|c n v|c cc v|c msb lsb|]; cbn [apply_msg];
    try reflexivity; destruct (c =? r_channel r); try reflexivity.
  - destruct (vel_keep_note_off r n) as [E _]. exact E.
  - destruct (v =? 0); [|reflexivity]. destruct (vel_keep_note_off r n) as [E _]. exact E.
  - destruct (vel_keep_cc r cc v) as [E _]. exact E.
Qed.

Lemma rx_parse_channel : forall r b, r_channel (rx_parse r b) = r_channel r.
Proof.
  intros r b. unfold rx_parse. destruct (parse_byte (r_parser r) b) as [p [m|]].
  - rewrite apply_msg_channel. reflexivity.
  - reflexivity.
Qed.

Lemma run_bytes_channel : forall ch l, r_channel (run_bytes ch l) = Z.min ch 15.
Proof.
  intros ch l. unfold run_bytes.
  assert (H : forall r, r_channel (fold_left rx_parse l r) = r_channel r).
  { induction l as [|b l IH]; intros r; [reflexivity|].
    cbn [fold_left]. rewrite IH. apply rx_parse_channel. }
  rewrite H. reflexivity.
Qed.

(** the outputs after [l1 ++ x] from the state reached after [l1] and the messages that the
    parser, continuing in its state after [l1], completes in [x] *)
Lemma run_bytes_app : forall ch l1 x,
  observe (run_bytes ch (l1 ++ x))
  = observe (fold_left apply_msg
               (filter visible (parser_msgs (r_parser (run_bytes ch l1)) x))
               (run_bytes ch l1)).
Proof.
  intros ch l1 x. unfold run_bytes. rewrite fold_left_app.
  set (r1 := fold_left rx_parse l1 (rx_new ch)).
  rewrite <- (observe_with_parser (fold_left rx_parse x r1) Idle).
  rewrite (run_same x r1 r1 eq_refl). rewrite observe_with_parser.
  rewrite fold_apply_visible. reflexivity.
Qed.

(** all messages of a segment under a foreign status are ignored *)
Lemma fold_map_ignored {A} (f : A -> msg) (r : rx) (ps : list A) :
  (forall p, apply_msg r (f p) = r) -> fold_left apply_msg (map f ps) r = r.
Proof.
  intros H. induction ps as [|p ps IH]; [reflexivity|].
  cbn [map fold_left]. rewrite H. exact IH.
Qed.

Lemma foreign_segment_ignored : forall r s d,
  128 <= s < 240 -> Z.land s 15 <> r_channel r ->
  fold_left apply_msg (segment_msgs (s, d)) r = r.
Proof.
  intros r s d Hs Hc. destruct (voice_status_facts s Hs) as (_ & _ & Hsys).
  apply Z.eqb_neq in Hc.
  unfold segment_msgs. rewrite Hsys.
  repeat match goal with |- context [if ?b then _ else _] => destruct b end;
    try reflexivity; apply fold_map_ignored; intros [a b]; cbn [apply_msg]; rewrite Hc;
    reflexivity.
Qed.

(** general form: the state reached after [l1] is arbitrary; the condition is on what the
    open group of that state would make of the data bytes at the head of [l2] *)
Lemma foreign_insert_gen : forall ch l1 s d l2,
  Forall is_byte l1 -> Forall is_byte l2 ->
  foreign_status ch s -> Forall data_byte d ->
  fold_left apply_msg
    (sem (r_parser (run_bytes ch l1)) (fst (split_segments (filter nonrt l2))))
    (run_bytes ch l1) = run_bytes ch l1 ->
  observe (run_bytes ch (l1 ++ s :: d ++ l2)) = observe (run_bytes ch (l1 ++ l2)).
Proof.
  intros ch l1 s d l2 H1 H2 [Hs Hc] Hd Hsem.
  destruct (voice_status_facts s Hs) as (Hst & Hrt & Hsys).
  pose proof (wf_run_bytes ch l1 H1) as Hwf.
  assert (Hx : Forall is_byte (s :: d ++ l2)).
  { constructor; [unfold is_byte; lia|]. apply Forall_app. split; [|exact H2].
    apply Forall_impl with (2 := Hd). intros b Hb. apply data_byte_facts. exact Hb. }
  rewrite !run_bytes_app.
  rewrite (parser_decodes_gen _ Hx _ Hwf), (parser_decodes_gen _ H2 _ Hwf).
  assert (Hn : nonrt s = true) by (unfold nonrt; rewrite Hrt; reflexivity).
  cbn [filter]. rewrite Hn, filter_app, (filter_nonrt_data d Hd).
  rewrite split_cons_status by exact Hst. rewrite (split_data_app d _ Hd).
  cbn [fst snd flat_map]. rewrite sem_nil. cbn [app].
  rewrite !fold_left_app.
  rewrite foreign_segment_ignored; [|exact Hs|rewrite run_bytes_channel; exact Hc].
  rewrite Hsem. reflexivity.
Qed.

Lemma at_boundary_no_data : forall l, at_boundary l ->
  fst (split_segments (filter nonrt l)) = [].
Proof.
  intros l H. unfold at_boundary in H.
  change (filter (fun b => negb (is_realtime b)) l) with (filter nonrt l) in H.
  destruct (filter nonrt l) as [|b t]; [reflexivity|].
  rewrite split_cons_status by exact H. reflexivity.
Qed.

(** C06, byte level: a channel-voice status byte for another channel followed by any
    number of data bytes (a complete message, a partial one, or several under running
    status), inserted at ANY point of a byte stream such that the rest of the stream
    starts at a message boundary, changes no output after the whole stream *)
Theorem C06_foreign_bytes_transparent : forall ch l1 s d l2,
  Forall is_byte (l1 ++ l2) ->
  foreign_status ch s -> Forall data_byte d ->
  at_boundary l2 ->
  observe (run_bytes ch (l1 ++ s :: d ++ l2)) = observe (run_bytes ch (l1 ++ l2)).
Proof.
  intros ch l1 s d l2 H Hs Hd Hb. apply Forall_app in H. destruct H as [H1 H2].
  apply foreign_insert_gen; try assumption.
  rewrite (at_boundary_no_data l2 Hb), sem_nil. reflexivity.
Qed.

(** ... and if the parser is idle after [l1] (no running status), no condition on the rest
    of the stream is needed at all *)
Theorem C06_foreign_bytes_transparent_idle : forall ch l1 s d l2,
  Forall is_byte (l1 ++ l2) ->
  foreign_status ch s -> Forall data_byte d ->
  r_parser (run_bytes ch l1) = Idle ->
  observe (run_bytes ch (l1 ++ s :: d ++ l2)) = observe (run_bytes ch (l1 ++ l2)).
Proof.
  intros ch l1 s d l2 H Hs Hd Hi. apply Forall_app in H. destruct H as [H1 H2].
  apply foreign_insert_gen; try assumption.
  rewrite Hi. reflexivity.
Qed.

(** the bytes of one complete channel-voice message: status, then two data bytes, or one
    for Program Change (0xC0) and Channel Pressure (0xD0) *)
Definition voice_message_bytes (mb : list Z) : Prop :=
  match mb with
  | [s; a] => 128 <= s < 240 /\ data_byte a /\ (Z.land s 240 = 192 \/ Z.land s 240 = 208)
  | [s; a; b] => 128 <= s < 240 /\ data_byte a /\ data_byte b
                 /\ Z.land s 240 <> 192 /\ Z.land s 240 <> 208
  | _ => False
  end.

Definition message_channel (mb : list Z) : Z := match mb with s :: _ => Z.land s 15 | [] => 0 end.

Corollary C06_foreign_message_bytes : forall ch l1 mb l2,
  Forall is_byte (l1 ++ l2) ->
  voice_message_bytes mb -> message_channel mb <> Z.min ch 15 ->
  at_boundary l2 ->
  observe (run_bytes ch (l1 ++ mb ++ l2)) = observe (run_bytes ch (l1 ++ l2)).
Proof.
  intros ch l1 mb l2 H Hm Hc Hb.
  destruct mb as [|s [|a [|b [|x t]]]]; try contradiction Hm; cbn [message_channel] in Hc.
  - destruct Hm as (Hs & Ha & _).
    apply (C06_foreign_bytes_transparent ch l1 s [a] l2); try assumption.
    + split; assumption.
    + constructor; [exact Ha|constructor].
  - destruct Hm as (Hs & Ha & Hb' & _).
    apply (C06_foreign_bytes_transparent ch l1 s [a; b] l2); try assumption.
    + split; assumption.
    + constructor; [exact Ha|]. constructor; [exact Hb'|constructor].
Qed.

(** a sufficient form of the boundary condition: the rest is empty, or starts with a
    status byte that is not a real-time byte *)
Lemma at_boundary_nil : at_boundary [].
Proof. exact I. Qed.

Lemma at_boundary_status : forall b l,
  is_status_byte b = true -> is_realtime b = false -> at_boundary (b :: l).
Proof.
  intros b l Hs Hr. unfold at_boundary. cbn [filter]. rewrite Hr. cbn [negb]. exact Hs.
Qed.

(** "starts with a status byte" alone is not enough: after a note-on for the listened
    channel, a real-time byte followed by data continues under running status; with a
    foreign message in between, those data bytes go to the foreign channel *)
Example boundary_condition_needed :
  observe (run_bytes 0 ([144; 60; 100] ++ [145; 1; 1] ++ [248; 62; 100]))
  <> observe (run_bytes 0 ([144; 60; 100] ++ [248; 62; 100])).
Proof.
  intros H. apply (f_equal (fun t => match t with (n, _, _, _, _, _, _, _, _, _, _, _, _) => n end)) in H.
  vm_compute in H. discriminate H.
Qed.
