(** Theorems added after mutation testing of Model/Lfo.v, Model/PhaseAcc.v, Model/Utils.v.

    Each closes a gap: a change of the model that the existing property theorems either did
    not notice at all, or noticed only because an unrelated proof script happened to rely on
    a definitional unfolding (no theorem STATED the violated fact).

    C11: "Every tick advances the phase by frequency/sample-rate of a cycle", "After reset()
    the phase is 0 and after set_phase(p) ... it is the fractional part of p", "A frequency
    change takes effect from the next tick": the requested frequency (the increment) and the
    sample rate have to survive reset(), set_phase() and tick(), otherwise the tick after a
    reset / set_phase no longer advances at the requested frequency. *)
From Coq Require Import ZArith Bool List Lia.
Import ListNotations.
From SU Require Import F32.
From SU.Model Require Import Utils PhaseAcc Lfo.
Open Scope Z_scope.

(** * reset() positions the phase and keeps frequency and sample rate (kills L9) *)
Theorem lfo_reset_keeps : forall l,
  pa_acc (lfo_step l LReset) = 0 /\
  pa_inc (lfo_step l LReset) = pa_inc l /\
  pa_fs (lfo_step l LReset) = pa_fs l.
Proof. intros l. cbn. repeat split. Qed.

(** * set_phase() keeps frequency and sample rate (kills L11, P18) *)
Theorem lfo_set_phase_keeps : forall l p,
  pa_inc (lfo_step l (LSetPhase p)) = pa_inc l /\
  pa_fs (lfo_step l (LSetPhase p)) = pa_fs l.
Proof. intros l p. cbn. split; reflexivity. Qed.

(** the same on the shared phase accumulator, any width *)
Theorem pa_set_phase_keeps : forall TOT p ph,
  pa_inc (pa_set_phase TOT p ph) = pa_inc p /\ pa_fs (pa_set_phase TOT p ph) = pa_fs p.
Proof. intros. cbn. split; reflexivity. Qed.

(** * tick() and set_frequency() keep the sample rate *)
Theorem lfo_tick_keeps_fs : forall l, pa_fs (lfo_step l LTick) = pa_fs l.
Proof. intros l. reflexivity. Qed.

Theorem lfo_set_frequency_keeps_fs : forall l f, pa_fs (lfo_step l (LSetFreq f)) = pa_fs l.
Proof. intros l f. reflexivity. Qed.

(** * history level: only set_frequency changes the frequency.  Over any interleaving of
    tick / set_phase / reset the increment and the sample rate are those of the last
    set_frequency. *)
Definition not_set_freq (o : lfo_op) : Prop :=
  match o with LSetFreq _ => False | _ => True end.

Theorem lfo_frequency_persists : forall ops l, Forall not_set_freq ops ->
  pa_inc (fold_left lfo_step ops l) = pa_inc l /\
  pa_fs (fold_left lfo_step ops l) = pa_fs l.
Proof.
  induction ops as [|o ops IH]; intros l H; [split; reflexivity|].
  inversion H as [|? ? Ho Hr]; subst.
  cbn [fold_left]. destruct (IH (lfo_step l o) Hr) as [E1 E2].
  rewrite E1, E2. destruct o; try contradiction; split; reflexivity.
Qed.

(** and the frequency in force after [LSetFreq f] followed by such an interleaving is the
    one [C11_increment] bounds *)
Corollary lfo_frequency_after_set : forall ops l f, Forall not_set_freq ops ->
  pa_inc (fold_left lfo_step (LSetFreq f :: ops) l) = pa_inc (lfo_step l (LSetFreq f)).
Proof. intros ops l f H. cbn [fold_left]. apply lfo_frequency_persists, H. Qed.

(** * set_phase() starts from a reset accumulator: the wrap bookkeeping is cleared
    (src/phase_accumulator.rs:59 [self.reset()]).  Not observable through [Lfo] (it has no
    rolled_over accessor) -- pins the model to the source (kills P11, P21). *)
Theorem pa_set_phase_resets : forall TOT p ph,
  pa_last (pa_set_phase TOT p ph) = 0 /\ pa_rolled (pa_set_phase TOT p ph) = false.
Proof. intros. cbn. split; reflexivity. Qed.

(** * a history is applied oldest operation first, starting from a new oscillator that is
    at phase 0 with frequency 0 (kills L10, L15) *)
Theorem lfo_new_spec : forall fs,
  pa_acc (lfo_new fs) = 0 /\ pa_last (lfo_new fs) = 0 /\ pa_inc (lfo_new fs) = 0 /\
  pa_rolled (lfo_new fs) = false /\ pa_fs (lfo_new fs) = fs.
Proof. intros fs. cbn. repeat split. Qed.

Theorem lfo_run_nil : forall fs, lfo_run fs [] = lfo_new fs.
Proof. reflexivity. Qed.

Theorem lfo_run_snoc : forall fs ops o,
  lfo_run fs (ops ++ [o]) = lfo_step (lfo_run fs ops) o.
Proof. intros fs ops o. unfold lfo_run. rewrite fold_left_app. reflexivity. Qed.

(** an order-sensitive instance: set_phase(0.5) then reset() ends at phase 0, reset() then
    set_phase(0.5) ends at half a cycle *)
Theorem lfo_run_order : forall fs l0,
  l0 = lfo_run fs [LSetPhase f_half] ->
  pa_acc (lfo_run fs [LSetPhase f_half; LReset]) = 0 /\
  pa_acc (lfo_run fs [LReset; LSetPhase f_half]) = pa_acc l0 /\ pa_acc l0 = 8388607.
Proof. intros fs l0 ->. vm_compute. repeat split. Qed.

(** * the tick guard is exactly "the u32 addition does not overflow" (kills L14, P2 at
    statement level) *)
Theorem lfo_tick_ok_iff : forall l,
  lfo_step_ok l LTick = true <-> pa_acc l + pa_inc l <= 4294967295.
Proof.
  intros l. cbn [lfo_step_ok]. unfold pa_tick_ok, U32_MAX. rewrite Z.leb_le. reflexivity.
Qed.

Theorem lfo_other_ops_ok : forall l o, o <> LTick -> lfo_step_ok l o = true.
Proof. intros l o H. destruct o; [contradiction|reflexivity..]. Qed.
