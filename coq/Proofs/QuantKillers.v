(** Theorems closing gaps found by mutation testing of Model/Quantizer.v:
    (1) what [allow] / [forbid] do to the scale mask, note by note (C07 / C20);
    (2) a scale edit does not touch the cached conversion, so the hysteresis of C09
        carries across [allow] / [forbid] calls;
    (3) the panic site of [forbid] is really the empty slice on an emptied mask (C17). *)
From Coq Require Import ZArith Bool List Lia.
Import ListNotations.
From SU Require Import F32.
From SU.gen Require Import Consts.
From SU.Model Require Import Quantizer.
From SU.Spec Require Import QuantSpec.
From SU.Proofs Require Import QuantProofs QuantHystProofs QuantExtraProofs.
Open Scope Z_scope.

(** * (1) the mask after [allow] / [forbid] *)

(** does the slice [ns] mention pitch class [n] (numbers above 11 acting as 11)? *)
Definition mentions (ns : list Z) (n : Z) : bool := existsb (fun m => note_new m =? n) ns.

Lemma note_new_nonneg : forall m, 0 <= m -> 0 <= note_new m.
Proof. intros m H. unfold note_new. destruct (m <=? 11); lia. Qed.

Lemma testbit_one_shl : forall k n, 0 <= k -> Z.testbit (Z.shiftl 1 k) n = (k =? n).
Proof. intros k n Hk. rewrite Z.shiftl_1_l. now apply Z.pow2_bits_eqb. Qed.

Theorem allow_bits_spec : forall ns a n,
  u8_notes ns -> 0 <= n ->
  bit_allowed (allow_bits a ns) n = bit_allowed a n || mentions ns n.
Proof.
  intros ns. induction ns as [|m ns IH]; intros a n Hns Hn.
  - change (allow_bits a []) with a. cbn. now rewrite orb_false_r.
  - assert (Hm : 0 <= m < 256) by (inversion Hns; assumption).
    assert (Hns' : u8_notes ns) by (inversion Hns; assumption).
    assert (E : allow_bits a (m :: ns) = allow_bits (Z.lor a (Z.shiftl 1 (note_new m))) ns)
      by reflexivity.
    rewrite E, (IH _ n Hns' Hn). unfold bit_allowed, mentions. cbn [existsb].
    rewrite Z.lor_spec, testbit_one_shl by (apply note_new_nonneg; lia).
    now rewrite orb_assoc.
Qed.

Theorem forbid_bits_spec : forall ns a n,
  u8_notes ns -> 0 <= n <= 11 ->
  bit_allowed (forbid_bits a ns) n = bit_allowed a n && negb (mentions ns n).
Proof.
  intros ns. induction ns as [|m ns IH]; intros a n Hns Hn.
  - change (forbid_bits a []) with a. cbn. now rewrite andb_true_r.
  - assert (Hm : 0 <= m < 256) by (inversion Hns; assumption).
    assert (Hns' : u8_notes ns) by (inversion Hns; assumption).
    assert (E : forbid_bits a (m :: ns)
                = forbid_bits (Z.land a (Z.lnot (Z.shiftl 1 (note_new m)) mod 65536)) ns)
      by reflexivity.
    rewrite E, (IH _ n Hns' Hn). unfold bit_allowed, mentions. cbn [existsb].
    rewrite Z.land_spec. change 65536 with (2 ^ 16).
    rewrite Z.mod_pow2_bits_low by lia.
    rewrite Z.lnot_spec by lia.
    rewrite testbit_one_shl by (apply note_new_nonneg; lia).
    rewrite negb_orb. now rewrite andb_assoc.
Qed.

(** the same on the quantizer, for every reachable state: after [allow ns] a pitch class is
    allowed iff it was allowed before or is mentioned in [ns] ... *)
Theorem KQ_allow_mask : forall ops ns n, wf_ops ops -> u8_notes ns -> 0 <= n <= 11 ->
  let q := qrun ops in
  bit_allowed (q_allowed (quant_step q (QAllow ns))) n
  = bit_allowed (q_allowed q) n || mentions ns n.
Proof.
  intros ops ns n _ Hns Hn q. cbn [quant_step]. unfold quant_allow. cbn [q_allowed].
  apply allow_bits_spec; [exact Hns|lia].
Qed.

(** ... and after a [forbid ns] that does not empty the scale it is allowed iff it was allowed
    before and is not mentioned in [ns] (the emptying case is C07_forbid_keeps_last) *)
Theorem KQ_forbid_mask : forall ops ns n, wf_ops ops -> u8_notes ns -> 0 <= n <= 11 ->
  let q := qrun ops in
  forbid_bits (q_allowed q) ns <> 0 ->
  bit_allowed (q_allowed (quant_step q (QForbid ns))) n
  = bit_allowed (q_allowed q) n && negb (mentions ns n).
Proof.
  intros ops ns n _ Hns Hn q H0. cbn [quant_step]. unfold quant_forbid.
  destruct (Z.eqb_spec (forbid_bits (q_allowed q) ns) 0) as [E|_]; [contradiction|].
  cbn [q_allowed]. now apply forbid_bits_spec.
Qed.

(** a multi-note example: every note of the slice counts, not only the first or the last *)
Theorem KQ_ex_masks :
  q_allowed (qrun [QForbid [0; 1; 2; 3; 4; 5; 6; 7; 8; 9; 10; 11]; QAllow [0; 4; 200]]) = 2065 /\
  q_allowed (qrun [QForbid [1; 3; 250]]) = 2037 /\
  q_allowed (qrun [QForbid [1; 3]; QAllow [3; 1]]) = 4095.
Proof. vm_compute. repeat split; reflexivity. Qed.

(** * (2) scale edits keep the cached conversion *)

Theorem KQ_edit_keeps_cache : forall q o,
  match o with QConvert _ => True | _ => q_cached (quant_step q o) = q_cached q end.
Proof.
  intros q [ns|ns|v]; cbn [quant_step]; [| |exact I].
  - reflexivity.
  - unfold quant_forbid. destruct (_ =? 0); reflexivity.
Qed.

(** hence C09's first clause across a scale edit: if the previously reported note is still
    allowed after the edit and the input lies inside its window, the note does not change *)
Theorem KQ_keep_across_edit : forall q o v,
  (forall x, o <> QConvert x) ->
  let q' := quant_step q o in
  note_allowed (q_allowed q') (c_note (q_cached q)) = true ->
  0 <= c_note (q_cached q) ->
  in_window (q_cached q) (clamp_vin v) = true ->
  c_note (snd (convert q' v)) = c_note (q_cached q) /\
  c_stair (snd (convert q' v)) = c_stair (q_cached q).
Proof.
  intros q o v Ho q' Ha Hn Hw.
  assert (Hc : q_cached q' = q_cached q).
  { pose proof (KQ_edit_keeps_cache q o) as H. destruct o; try exact H.
    exfalso. now apply (Ho v0). }
  assert (K : keeps q' v = true).
  { unfold keeps. rewrite Hc, Hw, andb_true_r. unfold note_allowed in Ha.
    assert (E : note_new (c_note (q_cached q) mod 12) = c_note (q_cached q) mod 12).
    { unfold note_new. pose proof (Z.mod_pos_bound (c_note (q_cached q)) 12 ltac:(lia)) as B.
      destruct (Z.leb_spec (c_note (q_cached q) mod 12) 11); lia. }
    rewrite E. exact Ha. }
  destruct (keep_spec q' v K) as [H1 [H2 _]]. cbv zeta in H1, H2.
  rewrite Hc in H1, H2. split; assumption.
Qed.

(** non-vacuity, with an input for which the memoryless search would answer differently:
    0.5 V gives note 6; after allow / forbid calls that leave note 6 allowed (including a
    forbid that would have emptied the scale), 0.496 V still gives 6; a fresh quantizer says 5 *)
Theorem KQ_ex_keep_across_edit :
  convert_seq (qrun [QConvert v_0_5; QAllow [3]]) [v_0_496] = [6] /\
  convert_seq (qrun [QConvert v_0_5; QForbid [5; 7]]) [v_0_496] = [6] /\
  convert_seq (qrun [QConvert v_0_5; QForbid [0; 1; 2; 3; 4; 5; 7; 8; 9; 10; 11; 6]]) [v_0_496] = [6] /\
  convert_seq (qrun []) [v_0_496] = [5].
Proof. vm_compute. repeat split; reflexivity. Qed.

(** * (3) the panic site of [forbid] *)

(** [notes[notes.len() - 1..]] is only evaluated when the mask became empty, and it underflows
    exactly for the empty slice: the model's check is this condition and nothing weaker *)
Theorem KQ_forbid_panic_site : forall q ns,
  quant_forbid_ok q ns = false <-> (forbid_bits (q_allowed q) ns = 0 /\ ns = []).
Proof.
  intros q ns. unfold quant_forbid_ok.
  destruct (Z.eqb_spec (forbid_bits (q_allowed q) ns) 0) as [E|E].
  - destruct ns as [|n ns]; cbn.
    + split; [intros _; split; [exact E|reflexivity]|reflexivity].
    + split; [intros H; discriminate H|intros [_ H]; discriminate H].
  - split; [intros H; discriminate H|intros [H _]; contradiction].
Qed.

(** and it is the only panic site of the three operations *)
Theorem KQ_step_panic_site : forall q o,
  quant_step_ok q o = false <->
  exists ns, o = QForbid ns /\ forbid_bits (q_allowed q) ns = 0 /\ ns = [].
Proof.
  intros q o. split.
  - destruct o as [ns|ns|v]; cbn [quant_step_ok]; intros H; try discriminate H.
    exists ns. split; [reflexivity|]. now apply KQ_forbid_panic_site.
  - intros [ns [E H]]. subst o. cbn [quant_step_ok]. now apply KQ_forbid_panic_site.
Qed.

(** * (4) the initial state as documented ([Conversion::new()], [Quantizer::new()]) *)
Theorem KQ_initial_state :
  c_note conv_new = 0 /\ c_stair conv_new = f_MIN /\ c_frac conv_new = f_0 /\
  q_cached quant_new = conv_new /\ q_allowed quant_new = 4095.
Proof. repeat split; reflexivity. Qed.
