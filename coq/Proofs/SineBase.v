(** * SineBase: shared definitions for the sine-table proofs (Props/C10.v, Props/C12.v).

    - the table entries as exact rationals, computed from the generated bit patterns
      ([tblQ]; nothing is copied by hand: the proofs are re-checked against whatever
      gen/Tables.v contains);
    - [scell_ok i]: inside table cell [i] the exact linear interpolation between the two
      (real values of the) table entries is within 0.0124 of the real sine;
    - the tactic [cells_loop] proving [forall i, lo <= i < hi -> scell_ok i] for literal
      [lo], [hi] by one call to [interval] per cell (used by SineCells0..7.v). *)

From Coq Require Import ZArith Reals Lia Lra Bool List Floats.SpecFloat.
From Flocq Require Import Core IEEE754.BinarySingleNaN.
From Interval Require Import Tactic.
From SU Require Import F32 F32Lemmas.
From SU.gen Require Import Tables Consts.
From SU.Model Require Import Utils PhaseAcc Tables Lfo.
Open Scope R_scope.

(** ** a finite float as an exact fraction [n / d] *)

Definition sf_num_den (x : f32) : option (Z * Z) :=
  match B2SF x with
  | S754_zero _ => Some (0, 1)%Z
  | S754_finite s m e =>
      if (e <? 0)%Z then Some (cond_Zopp s (Zpos m), 2 ^ (- e))%Z
      else Some (cond_Zopp s (Zpos m) * 2 ^ e, 1)%Z
  | _ => None
  end.

Lemma sf_num_den_correct : forall (x : f32) n d, sf_num_den x = Some (n, d) ->
  fin x /\ (0 < d)%Z /\ R32 x = IZR n / IZR d.
Proof.
  intros x n d H. unfold sf_num_den in H.
  destruct (B2SF x) as [s|s| |s m e] eqn:E; try discriminate H.
  - inversion H; subst n d.
    destruct x as [sx|sx| |sx mx ex Hx]; try discriminate E.
    split; [reflexivity|]. split; [lia|]. unfold R32; simpl. lra.
  - assert (F := fin_of_SF x s m e E). assert (V := R32_of_SF x s m e E).
    split; [exact F|]. rewrite V.
    destruct (Z.ltb_spec e 0) as [He|He]; inversion H; subst n d.
    + split; [apply Z.pow_pos_nonneg; lia|].
      replace e with (- (- e))%Z at 1 by lia. rewrite bpow2_neg by lia. reflexivity.
    + split; [lia|]. rewrite mult_IZR, bpow2_pos by lia. simpl (IZR 1). field.
Qed.

(** ** the sine table, entry by entry *)

Lemma tbl_of_bits : forall i,
  tbl sine_table i = of_bits (nth (Z.to_nat i) SINE_TABLE_bits 0%Z).
Proof.
  intros i. unfold tbl, sine_table. change f_0 with (of_bits 0). apply map_nth.
Qed.

Definition tblQ (i : Z) : option (Z * Z) :=
  sf_num_den (of_bits (nth (Z.to_nat i) SINE_TABLE_bits 0%Z)).

(** the real value of table entry [i] *)
Definition cT (i : Z) : R := R32 (tbl sine_table i).

Lemma tblQ_correct : forall i n d, tblQ i = Some (n, d) ->
  fin (tbl sine_table i) /\ (0 < d)%Z /\ cT i = IZR n / IZR d.
Proof.
  intros i n d H. unfold cT. rewrite tbl_of_bits. now apply sf_num_den_correct.
Qed.

(** ** one cell *)

Definition scell_ok (i : Z) : Prop := forall t, 0 <= t <= 1 ->
  Rabs (cT i + (cT ((i + 1) mod 1024) - cT i) * t - sin (2 * PI * ((IZR i + t) / 1024)))
    <= 0.0124.

Lemma scell_ok_intro : forall i j n0 d0 n1 d1,
  ((i + 1) mod 1024 = j)%Z -> tblQ i = Some (n0, d0) -> tblQ j = Some (n1, d1) ->
  (forall t, 0 <= t <= 1 ->
     Rabs (IZR n0 / IZR d0 + (IZR n1 / IZR d1 - IZR n0 / IZR d0) * t
           - sin (2 * PI * ((IZR i + t) / 1024))) <= 0.0124) ->
  scell_ok i.
Proof.
  intros i j n0 d0 n1 d1 Hj H0 H1 H t Ht.
  rewrite Hj.
  destruct (tblQ_correct _ _ _ H0) as [_ [_ ->]].
  destruct (tblQ_correct _ _ _ H1) as [_ [_ ->]].
  now apply H.
Qed.

(** [prove_cell]: goal [scell_ok i] for a literal [i] *)
Ltac prove_cell :=
  lazymatch goal with
  | |- scell_ok ?i =>
      let j := eval vm_compute in ((i + 1) mod 1024)%Z in
      let q0 := eval vm_compute in (tblQ i) in
      let q1 := eval vm_compute in (tblQ j) in
      lazymatch q0 with
      | Some (?n0, ?d0) =>
          lazymatch q1 with
          | Some (?n1, ?d1) =>
              apply (scell_ok_intro i j n0 d0 n1 d1);
              [ vm_compute; reflexivity | vm_compute; reflexivity | vm_compute; reflexivity
              | let t := fresh "t" in let Ht := fresh "Ht" in
                intros t Ht; interval with (i_taylor t, i_prec 40) ]
          end
      end
  end.

(** ** a range of cells *)

Lemma range_nil : forall (P : Z -> Prop) lo hi, (hi <= lo)%Z ->
  forall i, (lo <= i < hi)%Z -> P i.
Proof. intros P lo hi H i Hi. exfalso. lia. Qed.

Lemma range_step : forall (P : Z -> Prop) lo lo' hi, (lo + 1 = lo')%Z ->
  P lo -> (forall i, (lo' <= i < hi)%Z -> P i) ->
  forall i, (lo <= i < hi)%Z -> P i.
Proof.
  intros P lo lo' hi E H0 H i Hi.
  destruct (Z.eq_dec i lo) as [->|Hne]; [exact H0|]. apply H. lia.
Qed.

Ltac cells_loop :=
  lazymatch goal with
  | |- forall i, (?lo <= i < ?hi)%Z -> scell_ok i =>
      let b := eval vm_compute in (lo <? hi)%Z in
      lazymatch b with
      | true =>
          let lo' := eval vm_compute in (lo + 1)%Z in
          apply (range_step scell_ok lo lo' hi (eq_refl lo'));
          [ prove_cell | cells_loop ]
      | false => apply range_nil; lia
      end
  end.

(** joining two adjacent ranges *)
Lemma range_join : forall (P : Z -> Prop) lo mid hi,
  (forall i, (lo <= i < mid)%Z -> P i) -> (forall i, (mid <= i < hi)%Z -> P i) ->
  forall i, (lo <= i < hi)%Z -> P i.
Proof.
  intros P lo mid hi H1 H2 i Hi. destruct (Z_lt_le_dec i mid); [apply H1|apply H2]; lia.
Qed.
